#!/bin/bash
# runsome.sh Cxx...  : run quick checks sequentially, append one status line each to .build/status.txt
cd /verif; mkdir -p .build/allcheck
for p in "$@"; do
  start=$(date +%s)
  VERIF_EVIDENCE_DIR=/verif/.build/allcheck/ev-$p timeout 3000 ./check $p quick > .build/allcheck/$p.log 2>&1; rc=$?
  echo "$(date +%H:%M) $p exit=$rc $(( $(date +%s)-start ))s known=$(grep -c KNOWN-FINDING .build/allcheck/$p.log) $(grep -m1 VIOLATION .build/allcheck/$p.log)" >> .build/status.txt
done
