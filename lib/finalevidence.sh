#!/bin/bash
# finalevidence.sh : run every claimed quick check in /verif against /repo with the default seed, writing evidence/<id>.json (the committed evidence); results in .build/final-evidence.txt
cd /verif; : > .build/final-evidence.txt; mkdir -p .build/finalev
grep -v "^#" lib/claimed.txt | tr ' ' '\n' | grep . | xargs -P 4 -I{} bash -c 'start=$(date +%s); VERIF_SEED=1 VERIF_TIER=quick timeout 3000 ./check {} quick > .build/finalev/{}.log 2>&1; rc=$?; echo "{} exit=$rc $(( $(date +%s)-start ))s known=$(grep -c KNOWN-FINDING .build/finalev/{}.log) $(grep -m1 VIOLATION .build/finalev/{}.log)" >> .build/final-evidence.txt'
sort .build/final-evidence.txt
