#!/usr/bin/env python3
"""mkseed.py <Cxx> <n> [steer...] : create scratch worktree /tmp/seed-Cxx-n at /repo HEAD and a prompt file /tmp/seedprompts/seed-Cxx-n.txt"""
import json, subprocess, sys, os
pid, n = sys.argv[1], sys.argv[2]
steer = " ".join(sys.argv[3:])
props = {json.loads(l)['id']: json.loads(l) for l in open('/verif/properties.jsonl')}
tmpl = open('/verif/lib/prompts/seed-template.txt').read()
flav = {
 'C01': 'a particular literal or escape (lone surrogates, NUL before a digit, U+2028, "</script", numbers near 1e21 / 2^53 / subnormals), a particular operator nesting or token adjacency, a charset/line-limit/format/JSX combination',
 'C02': 'a particular graph shape (cycle, diamond, star re-export conflict or shadowing, mixed ESM/CJS, dynamic import), a particular export form, output format or loader',
 'C03': 'a particular operand value (-0, NaN, 2^31, "1e3", lone surrogates), a side-effecting operand in a particular position, a particular combination of minify flags / define / pure / drop',
 'C04': 'a side effect hidden in a particular syntactic position (getter, computed key, spread, template hole, class static block, default parameter), a particular import/export shape or annotation',
 'C05': 'a lowerable construct in a particular position (receiver, callee, assignment target, computed key, loop head, class heritage) with side-effecting operands, a particular target or supported override',
 'C06': 'a particular placement of type syntax (ambiguous generics/arrows, satisfies/as chains, overloads, abstract members), a particular enum/namespace/parameter-property shape or tsconfig setting',
 'C07': 'a particular layout (multi-byte/astral characters, CRLF, long lines), a multi-file bundle, code splitting with final-path substitution, an input source map, a particular token class or option combination',
 'C08': 'a particular interleaving (file arrival order, GOMAXPROCS, concurrent sibling builds), a name collision, many entry points/chunks, or a different absolute project path',
 'C09': 'a multi-step edit history (edit, rebuild, edit again), a particular kind of edit (tsconfig/package.json field, shadowing file, file->directory), or a watch-mode observation',
 'C10': 'a particular overlap pattern of entry-point reachability sets, a dynamic import, a re-export across chunk boundaries, a name collision between chunks',
 'C11': 'a particular package.json exports/imports shape (overlapping patterns, condition order, fallback arrays, null targets), a particular directory layout (nested node_modules, scoped packages, self reference, symlink) or specifier form',
 'C12': 'a particular interleaving of shorthand/longhand declarations, !important, duplicate rules at a distance, nested at-rules, @import order with conditions/layers, a particular number or colour form',
 'C13': 'a rare production (ASI boundary, regex-vs-division, contextual keyword as identifier, cover grammar), a particular token adjacency when minifying whitespace',
 'C14': 'a particular feature in a particular syntactic position, a particular target/engine/supported combination, bundling or minification introducing newer syntax',
 'C15': 'a particular scope shape (catch/for/class/function-expression self-binding, var hoisting through blocks, direct eval), a free name colliding with a generated short name, many files with equal top-level names',
 'C16': 'a particular malformed byte sequence (truncated UTF-8, NUL, unbalanced nesting, huge escape), a particular loader/option combination',
 'C17': 'a particular relation between input and output locations (outdir inside the source dir, equal extensions, templates without hashes, symlinks, case variants), a failed/cancelled build, or a multi-step rebuild history',
 'C18': 'a particular graph with splitting (dynamic-import cycle between chunks, assets, CSS url()), a single-point edit (comment-only, import order, asset bytes, option change), placeholder-like text in the input',
 'C19': 'a particular combination of outputs (splitting, source maps, legal comments, assets, externals, CSS), path style or minification affecting substituted path lengths',
 'C20': 'a particular interleaving of Rebuild/Cancel/Dispose/Watch calls from several goroutines, plugin callbacks that block, fail or re-enter the API, stdin closed at a particular point of the service protocol',
}
wt = '/tmp/seed-%s-%s' % (pid, n)
subprocess.run(['git', '-C', '/repo', 'worktree', 'add', '--detach', wt, 'HEAD', '-q'], check=True)
p = props[pid]
pt = json.dumps({k: p[k] for k in ('id', 'title', 'statement', 'quantifier')}, indent=1)
os.makedirs('/tmp/seedprompts', exist_ok=True)
txt = tmpl.format(wt=wt, ptext=pt, pid=pid, flavour=flav[pid])
if steer:
    txt += "\n\nAdditional steer: " + steer
open('/tmp/seedprompts/seed-%s-%s.txt' % (pid, n), 'w').write(txt)
print(wt)
