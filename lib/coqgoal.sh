#!/bin/bash
# usage: coqgoal.sh file.v LINE  -- compile file truncated before LINE with Show. appended
f=$1; n=$2
t=$(mktemp /tmp/_goal_XXXXXX.v)
head -n $((n-1)) "$f" > $t
echo "Show." >> $t
cd /verif/coq && coqc -Q . V $t 2>&1 | tail -${3:-60}
rm -f $t ${t%.v}.vo ${t%.v}.glob ${t%.v}.vok ${t%.v}.vos
