#!/bin/bash
# usage: coqgoal.sh file.v LINE  -- compile file truncated before LINE with Show. appended
f=$1; n=$2
head -n $((n-1)) "$f" > /tmp/_goal.v
echo "Show." >> /tmp/_goal.v
cd /verif/coq && coqc -Q . V /tmp/_goal.v 2>&1 | tail -${3:-60}
