#!/bin/bash
# reseed.sh id... : re-run our check on an already stored seeded change (worktree /tmp/seed-<id> must still exist) after the check was strengthened
for id in "$@"; do
  pid=${id%%-*}
  cp /verif/seeded/$id/check_output.txt /verif/seeded/$id/check_output_first.txt 2>/dev/null
  MUTEST_SNAPSHOT=1 /verif/lib/mutest.py $pid /tmp/seed-$id > /verif/seeded/$id/check_output.txt 2>&1
  echo "$(date +%H:%M) re-run $id: $(grep -h '^VIOLATION\|^exit\|^kind' /verif/seeded/$id/check_output.txt | tr '\n' ' ' | cut -c1-200)" >> /verif/.build/reseed.txt
done
