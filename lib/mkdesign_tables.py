#!/usr/bin/env python3
"""Regenerates the machine-written part of DESIGN.md (between the markers
<!-- BEGIN GENERATED --> and <!-- END GENERATED -->): the findings ledger and
the seeded-change table, from known_findings*.json and seeded/*/meta.json."""
import glob, json, os, re
V = os.path.dirname(os.path.dirname(os.path.abspath(__file__)))
out = []
led = json.load(open(os.path.join(V, "known_findings.json")))["findings"]
fixed = [f for f in led if f.get("status") == "fixed"]
out.append("### 9.3 Genuine defects found, and what was done with each\n")
out.append("Every entry was reproduced against the real code with the input shown. "
           "`fix:` commits are minimal and unguarded; the pinned suite passes unedited with each. "
           "A fixed entry suppresses nothing: the witness stays in the check's corpus and a revert is reported again.\n")
out.append("**Repaired in /repo (%d)**\n" % len(fixed))
out.append("| property | commit | what failed |")
out.append("|---|---|---|")
for f in sorted(fixed, key=lambda f: (f["property"], f["id"])):
    txt = f.get("fixed", f.get("what", ""))
    txt = re.sub(r"^fixed: property=\S+ \S+ ", "", txt)
    out.append("| %s | `%s` | %s |" % (f["property"], f.get("commit", "?"), txt.replace("|", "\\|").replace("\n", " ")))
known = []
for p in sorted(glob.glob(os.path.join(V, "known_findings.d", "*.json"))):
    for f in json.load(open(p)).get("findings", []):
        if f.get("status") == "known":
            known.append(f)
out.append("\n**Recorded as known findings, not repaired (%d)** — no small safe patch exists (a repair would change pinned snapshots or upstream-deliberate behaviour, or needs a redesign); each check prints `KNOWN-FINDING` for them and still reports any other violation.\n" % len(known))
out.append("| property | id | what fails |")
out.append("|---|---|---|")
for f in sorted(known, key=lambda f: (f["property"], f["id"])):
    out.append("| %s | %s | %s |" % (f["property"], f["id"], str(f.get("what", "")).replace("|", "\\|").replace("\n", " ")[:400]))
out.append("\n### 9.4 Seeded changes (independent sub-agents given only the property text)\n")
out.append("Each change compiles, passes the pinned suite, and its demonstration fails with the change and passes without it (re-confirmed by the coordinator with `lib/seedkeep.sh`). Stored under `seeded/<id>/`.\n")
out.append("| id | property | change | needs | verdict of our check |")
out.append("|---|---|---|---|---|")
for m in sorted(glob.glob(os.path.join(V, "seeded", "*", "meta.json"))):
    d = json.load(open(m))
    sid = os.path.basename(os.path.dirname(m))
    det = d.get("detected_by", {})
    out.append("| %s | %s | %s | %s | %s |" % (sid, d.get("property", ""), str(d.get("summary", "")).replace("|", "\\|").replace("\n", " ")[:300],
               str(d.get("needs", "")).replace("|", "\\|").replace("\n", " ")[:200], (det.get("verdict", "") + " " + det.get("kind", "") + " " + det.get("note", "")).strip()[:200]))
out.append("\n### 9.5 Per-property status (generated from lib/propcfg and coq/Cxx/Properties.v)\n")
import sys
sys.path.insert(0, os.path.join(V, "lib"))
import props as _props
for pid in sorted(_props.PROPS):
    c = _props.PROPS[pid]
    pv = os.path.join(V, "coq", c.get("coq_dir", pid), "Properties.v")
    thms = []
    if os.path.exists(pv):
        code = re.sub(r"\(\*.*?\*\)", " ", open(pv).read(), flags=re.S)
        thms = re.findall(r"^\s*(?:Theorem|Lemma|Corollary)\s+([A-Za-z0-9_']+)", code, flags=re.M)
    out.append("**%s** — %s\n" % (pid, c.get("technique", "")))
    out.append("* theorems (%d): %s" % (len(thms), ", ".join("`%s`" % t for t in thms)))
    if c.get("translators"):
        out.append("* regenerated from source every run: %s" % ", ".join(c["translators"]))
    out.append("* claim: %s" % c.get("text", ""))
    out.append("* trusted / not covered: %s\n" % c.get("note", ""))
gen = "\n".join(out) + "\n"
p = os.path.join(V, "DESIGN.md")
s = open(p).read()
b, e = "<!-- BEGIN GENERATED -->", "<!-- END GENERATED -->"
if b in s:
    s = s[:s.index(b)] + b + "\n" + gen + e + s[s.index(e) + len(e):]
else:
    s += "\n" + b + "\n" + gen + e + "\n"
open(p, "w").write(s)
print("DESIGN.md tables regenerated: %d fixed, %d known, %d seeded" % (len(fixed), len(known), len(glob.glob(os.path.join(V, 'seeded', '*', 'meta.json')))))
