#!/bin/bash
# seedqueue.sh id... : confirm+store seeded changes one after another
for id in "$@"; do /verif/lib/seedkeep.sh /tmp/seed-$id $id > /verif/.build/seedkeep-$id.log 2>&1; echo "$(date +%H:%M) $id $(grep -m1 -A3 '== our check' /verif/.build/seedkeep-$id.log | tr '\n' ' ' | cut -c1-200)" >> /verif/.build/seedstatus.txt; done
