#!/bin/bash
# runs every claimed check's quick tier (4 at a time) and prints a status table
cd /verif
mkdir -p .build/allcheck
ls lib/propcfg | sed 's/.json//' | xargs -P 4 -I{} bash -c 'start=$(date +%s); VERIF_EVIDENCE_DIR=/verif/.build/allcheck/ev-{} timeout 1500 ./check {} quick > .build/allcheck/{}.log 2>&1; rc=$?; echo "{} exit=$rc $(( $(date +%s)-start ))s $(grep -c KNOWN-FINDING .build/allcheck/{}.log) known $(grep -m1 VIOLATION .build/allcheck/{}.log)"' | sort
