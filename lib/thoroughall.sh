#!/bin/bash
# thoroughall.sh [props] [parallel] : thorough tier of every (or the given) property, N at a time; results appended to .build/thorough.txt; evidence written to /verif/evidence (the committed location)
cd /verif; mkdir -p .build/thorough
props=${1:-$(grep -v "^#" lib/claimed.txt)}; par=${2:-3}
for p in $props; do echo $p; done | xargs -P $par -I{} bash -c 'start=$(date +%s); timeout 7200 ./check {} thorough > .build/thorough/{}.log 2>&1; rc=$?; echo "$(date +%H:%M) {} exit=$rc $(( $(date +%s)-start ))s known=$(grep -c KNOWN-FINDING .build/thorough/{}.log) $(grep -m1 VIOLATION .build/thorough/{}.log)" >> .build/thorough.txt'
