#!/usr/bin/env python3
"""Regenerates MANIFEST.json from lib/props.py + lib/manifest_meta.py"""
import json, os, sys
sys.path.insert(0, os.path.dirname(os.path.abspath(__file__)))
import props, manifest_meta as mm
claimed = [l.strip() for l in open(os.path.join(os.path.dirname(os.path.abspath(__file__)), 'claimed.txt')) if l.strip() and not l.startswith('#')]
checks = []
for pid in sorted(props.PROPS):
    if pid not in claimed:
        continue
    meta = mm.META[pid]
    checks.append({
        "property_id": pid,
        "quick_cmd": "./check %s quick" % pid,
        "thorough_cmd": "./check %s thorough" % pid,
        "evidence_file": "/verif/evidence/%s.json" % pid,
        "replay_cmd_template": "./check %s --replay {path}" % pid,
        "engine": "coq-proof+correspondence",
        "level_claimed": {"category": "proof", "text": meta["text"], "design_ref": "DESIGN.md §5 " + pid},
        "level_note": meta["note"],
        "technique": meta["technique"],
    })
na = [{"property_id": pid, "reason": r} for pid, r in sorted(mm.NOT_APPLICABLE.items()) if pid not in claimed]
m = {
    "version": 1,
    "setup_cmd": "./setup.sh",
    "hooks": {"guard": "verif", "enable": "go build -tags verif (add-only export_verif.go files listed in MANIFEST.hooks)",
              "baseline_off_cmd": "cd /repo && go test -mod=mod -vet=off -count=1 -timeout 25m ./...",
              "source_commits": mm.HOOK_COMMITS, "add_only": True},
    "engines": [{"name": "coq-proof+correspondence", "path": "/verif/check", "serves_properties": sorted(claimed),
                 "kind_free_text": "Coq 8.16.1 theorems over Gallina models (coq/Cxx), translators regenerating tables from /repo (gen/), Go correspondence harness evaluated by vm_compute (harness/), property predicate evaluated on the real code through the public API (glue stream)"}],
    "checks": checks,
    "notes": mm.NOTES,
    "not_applicable": na,
}
json.dump(m, open(os.path.join(os.path.dirname(os.path.dirname(os.path.abspath(__file__))), "MANIFEST.json"), "w"), indent=1)
print("wrote MANIFEST.json with", len(checks), "checks;", len(na), "not_applicable")
