#!/bin/bash
# synchooks.sh <worktree> : copy every add-only export_verif*.go hook file from /repo into an older scratch worktree
wt=$1; cd /repo && git ls-files | grep -E 'export_verif[^/]*\.go$' | while read f; do mkdir -p "$wt/$(dirname $f)"; cp "$f" "$wt/$f"; done
