#!/bin/bash
# reseed_fresh.sh id... : re-run the committed check on a stored seeded change applied to a FRESH worktree of /repo's current HEAD
# (so later fix: commits and hooks are present and only the seeded change differs); result in seeded/<id>/check_output.txt
export GOFLAGS=-mod=mod GOPROXY=off GOSUMDB=off GOTOOLCHAIN=local
for id in "$@"; do
  pid=${id%%-*}; wt=/tmp/reseed-$id
  git -C /repo worktree remove --force $wt 2>/dev/null; rm -rf $wt
  git -C /repo worktree add --detach -q $wt HEAD || { echo "$id: worktree failed"; continue; }
  if ! git -C $wt apply /verif/seeded/$id/patch.diff 2>/tmp/reseed-$id.err; then
     if ! git -C $wt apply --3way /verif/seeded/$id/patch.diff 2>>/tmp/reseed-$id.err; then echo "$(date +%H:%M) fresh re-run $id: PATCH DOES NOT APPLY at HEAD" >> /verif/.build/reseed.txt; git -C /repo worktree remove --force $wt; continue; fi
  fi
  (cd $wt && go build ./... ) || { echo "$(date +%H:%M) fresh re-run $id: does not compile at HEAD" >> /verif/.build/reseed.txt; git -C /repo worktree remove --force $wt; continue; }
  [ -f /verif/seeded/$id/check_output_first.txt ] || cp /verif/seeded/$id/check_output.txt /verif/seeded/$id/check_output_first.txt 2>/dev/null
  MUTEST_SNAPSHOT=1 /verif/lib/mutest.py $pid $wt > /verif/seeded/$id/check_output.txt 2>&1
  echo "$(date +%H:%M) fresh re-run $id: $(grep -h '^VIOLATION\|^exit\|^kind' /verif/seeded/$id/check_output.txt | tr '\n' ' ' | cut -c1-220)" >> /verif/.build/reseed.txt
  git -C /repo worktree remove --force $wt; rm -f /tmp/reseed-$id.err
done
