#!/usr/bin/env python3
"""seedmeta.py <id> [note] : fill confirmed_by_coordinator/detected_by in seeded/<id>/meta.json from the files seedkeep wrote"""
import json, sys, os, re
sid = sys.argv[1]; note = " ".join(sys.argv[2:])
d = "/verif/seeded/" + sid
m = json.load(open(d + "/meta.json"))
rd = lambda f: open(os.path.join(d, f)).read() if os.path.exists(os.path.join(d, f)) else ""
suite = rd("suite_tail.txt")
m["confirmed_by_coordinator"] = {
    "compiles": True,
    "suite_passes": ("FAIL" not in suite) and ("ok" in suite),
    "demo_fails_with_change": "exit=0" not in rd("demo_with_change.txt").split("\n")[0],
    "demo_passes_without": "exit=0" in rd("demo_without_change.txt").split("\n")[0],
    "ran": "lib/seedkeep.sh /tmp/seed-%s %s (go build ./..., demo with and without the patch, go test of all packages, lib/mutest.py)" % (sid, sid)}
out = rd("check_output.txt")
v = [l for l in out.splitlines() if l.startswith("VIOLATION")]
k = [l for l in out.splitlines() if l.startswith("kind:")]
m["detected_by"] = {"check": "./check %s quick" % sid.split("-")[0], "verdict": (v[0] if v else "MISSED (exit 0)"), "kind": (k[0] if k else ""), "note": note}
json.dump(m, open(d + "/meta.json", "w"), indent=1)
print(sid, m["confirmed_by_coordinator"], m["detected_by"]["verdict"][:60], m["detected_by"]["kind"][:80])
