#!/bin/bash
# seedkeep.sh <worktree> <seed-id e.g. C07-1> : confirm a seeded change (compiles, suite passes,
# demo fails with / passes without) and store it under /verif/seeded/<id>/ ; run our check against it.
set -u
wt=$1; id=$2; pid=${id%%-*}
export GOFLAGS=-mod=mod GOPROXY=off GOSUMDB=off GOTOOLCHAIN=local
out=/verif/seeded/$id; mkdir -p $out
cd $wt || exit 2
demo_cmd=$(python3 -c "import json;print(json.load(open('$wt/seed_out/meta.json'))['demo_cmd'])")
git -C $wt diff -- . ':!seed_demo' ':!seed_out' > $out/patch.diff
echo "== build"; (go build ./... && echo BUILD-OK) 2>&1 | tail -3
echo "== demo with change"; (bash -c "$demo_cmd" >/tmp/seed-$id-demo-with.log 2>&1; echo "exit=$?") | tee $out/demo_with_change.txt
tail -5 /tmp/seed-$id-demo-with.log >> $out/demo_with_change.txt
echo "== demo without change"; git -C $wt apply -R $out/patch.diff; (bash -c "$demo_cmd" >/tmp/seed-$id-demo-without.log 2>&1; echo "exit=$?") | tee $out/demo_without_change.txt; git -C $wt apply $out/patch.diff
echo "== suite with change (packages other than seed_demo)"; go test -vet=off -count=1 $(go list ./... | grep -v "seed_demo\|seed_out") 2>&1 | grep "^ok\|^FAIL\|^--- FAIL\|^panic" | tail -40 | tee $out/suite_tail.txt
echo "== our check"; MUTEST_SNAPSHOT=1 /verif/lib/mutest.py $pid $wt > $out/check_output.txt 2>&1; head -4 $out/check_output.txt
cp -r $wt/seed_out/* $out/ 2>/dev/null; [ -d $wt/seed_demo ] && cp -r $wt/seed_demo $out/ 
echo done $id
