#!/bin/bash
# soakmatrix.sh "<seeds>" "<props>" [parallel] : every (seed, prop) quick check, N at a time; results appended to .build/soak.txt
cd /verif; mkdir -p .build/soak
seeds=$1; props=$2; par=${3:-3}
for s in $seeds; do for p in $props; do echo "$s $p"; done; done | xargs -P $par -L 1 bash -c 'seed=$0; p=$1; start=$(date +%s); VERIF_SEED=$seed VERIF_EVIDENCE_DIR=/verif/.build/soak/ev-$p-$seed timeout 3000 ./check $p quick > .build/soak/$p-$seed.log 2>&1; rc=$?; echo "$(date +%H:%M) seed=$seed $p exit=$rc $(( $(date +%s)-start ))s known=$(grep -c KNOWN-FINDING .build/soak/$p-$seed.log) $(grep -m1 VIOLATION .build/soak/$p-$seed.log)" >> .build/soak.txt'
