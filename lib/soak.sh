#!/bin/bash
# soak.sh <seed> Cxx... : run quick checks with VERIF_SEED=<seed> sequentially; append to .build/soak.txt
cd /verif; seed=$1; shift; mkdir -p .build/soak
for p in "$@"; do
  start=$(date +%s)
  VERIF_SEED=$seed VERIF_EVIDENCE_DIR=/verif/.build/soak/ev-$p-$seed timeout 3000 ./check $p quick > .build/soak/$p-$seed.log 2>&1; rc=$?
  echo "$(date +%H:%M) seed=$seed $p exit=$rc $(( $(date +%s)-start ))s known=$(grep -c KNOWN-FINDING .build/soak/$p-$seed.log) $(grep -m1 VIOLATION .build/soak/$p-$seed.log)" >> .build/soak.txt
done
