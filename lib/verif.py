#!/usr/bin/env python3
"""Driver shared by all property checks.  ./check <Cxx> <quick|thorough> [--replay f]

Per run, from /repo's current working tree:
 1. translators regenerate coq/gen/*.v (fail closed);
 2. the .vo closure of coq/<Cxx>/Properties.v is (re)built with coqc (full .vo,
    never -vos), Properties.v itself is always recompiled so that the
    Print Assumptions output of this run is what is parsed;
 3. the Go harness is built with -tags verif against /repo and run with the
    seed; it writes a Coq file of cases (inputs + outputs observed on the real
    code) and evaluates the property's own predicate on the real code (glue
    stream / oracle); coqc evaluates the model on the cases (vm_compute);
 4. known findings are replayed; 5. decision + evidence.
"""
import fcntl, glob, hashlib, json, os, re, shutil, subprocess, sys, time

VERIF = os.path.dirname(os.path.dirname(os.path.abspath(__file__)))
REPO = os.environ.get("VERIF_REPO", "/repo")
BUILD = os.path.join(VERIF, ".build")
COQ = os.path.join(VERIF, "coq")
if os.path.realpath(REPO) != "/repo":
    # scratch worktree (mutation testing): use a private copy of the Coq tree so
    # that regenerated gen/*.v from the mutated sources never touch /verif/coq
    _alt = os.path.join(BUILD, "alt-" + (os.environ.get("VERIF_ALT_KEY") or hashlib.sha1(os.path.realpath(REPO).encode()).hexdigest()[:10]))
    if not os.path.exists(os.path.join(_alt, "coq")):
        os.makedirs(_alt, exist_ok=True)
        subprocess.run(["cp", "-a", COQ, os.path.join(_alt, "coq")], check=True)
    else:
        subprocess.run(["rsync", "-a", "--exclude", "gen/", "--exclude", "_CoqProject", "--exclude", "Makefile*", "--exclude", ".Makefile.d", COQ + "/", os.path.join(_alt, "coq") + "/"], check=True)
    COQ = os.path.join(_alt, "coq")
GOENV = dict(os.environ, GOFLAGS="-mod=mod", GOPROXY="off", GOSUMDB="off", GOTOOLCHAIN="local",
             CGO_ENABLED="0")
ALLOWED_AXIOMS = {
    # standard-library axioms that may appear (each is named in DESIGN.md §4)
    "functional_extensionality_dep", "proof_irrelevance", "classic", "JMeq_eq", "eq_rect_eq",
    "Eqdep.Eq_rect_eq.eq_rect_eq", "FunctionalExtensionality.functional_extensionality_dep",
}
FORBIDDEN = re.compile(r"\b(Admitted|admit|Axiom|Parameter|Conjecture|Admit Obligations)\b|Unset Guard|bypass_check|-type-in-type|-impredicative-set|native_compute")


def log(*a):
    print(*a, flush=True)


def sh(cmd, cwd=None, timeout=3600, env=None):
    p = subprocess.run(cmd, cwd=cwd, shell=isinstance(cmd, str), stdout=subprocess.PIPE,
                       stderr=subprocess.STDOUT, timeout=timeout, env=env or GOENV, text=True, errors="replace")
    return p.returncode, p.stdout


class Lock:
    def __init__(self, name):
        os.makedirs(BUILD, exist_ok=True)
        self.path = os.path.join(BUILD, name + ".lock")

    def __enter__(self):
        self.f = open(self.path, "w")
        fcntl.flock(self.f, fcntl.LOCK_EX)
        return self

    def __exit__(self, *a):
        fcntl.flock(self.f, fcntl.LOCK_UN)
        self.f.close()


def coq_files():
    out = []
    for root, _, files in os.walk(COQ):
        for f in files:
            if f.endswith(".v"):
                out.append(os.path.join(root, f))
    return sorted(out)


def closure_dirs(coq_dir):
    """directories of the development a property depends on: Common, gen, its own
    directory and every other Cxx directory its files import (transitively)"""
    seen, todo = set(), [coq_dir]
    while todo:
        d = todo.pop()
        if d in seen or not os.path.isdir(os.path.join(COQ, d)):
            continue
        seen.add(d)
        for f in os.listdir(os.path.join(COQ, d)):
            if f.endswith(".v"):
                txt = open(os.path.join(COQ, d, f), errors="replace").read()
                for m in re.finditer(r"\b(C\d\d+)\.[A-Za-z]", txt):
                    todo.append(m.group(1))
    return seen | {"Common", "gen"}


def scan_forbidden(coq_dir=None):
    hits = []
    dirs = closure_dirs(coq_dir) if coq_dir else None
    for f in coq_files():
        if dirs is not None and os.path.relpath(f, COQ).split(os.sep)[0] not in dirs:
            continue
        txt = open(f, errors="replace").read()
        # strip comments (non-nested approximation is enough: we only flag code)
        code = re.sub(r"\(\*.*?\*\)", " ", txt, flags=re.S)
        for m in FORBIDDEN.finditer(code):
            hits.append("%s: %s" % (os.path.relpath(f, VERIF), m.group(0)))
        if re.search(r"^\s*(Variable|Hypothesis|Variables|Hypotheses)\b", code, flags=re.M):
            # allowed only inside a Section: check nesting by counting
            depth = 0
            for line in code.splitlines():
                if re.match(r"\s*Section\b", line):
                    depth += 1
                elif re.match(r"\s*End\b", line) and depth > 0:
                    depth -= 1
                elif re.match(r"\s*(Variable|Hypothesis|Variables|Hypotheses)\b", line) and depth == 0:
                    hits.append("%s: section-less %s" % (os.path.relpath(f, VERIF), line.strip()))
    return hits


def write_coqproject():
    """_CoqProject lists every .v under coq/ (including regenerated gen/ files)."""
    files = [os.path.relpath(f, COQ) for f in coq_files() if "/cases/" not in f]
    hdr = "-Q . V\n-arg -w -arg -notation-overridden,-deprecated-hint-without-locality,-deprecated-instance-without-locality,-deprecated-hint-rewrite-without-locality\n"
    new = hdr + "\n".join(files) + "\n"
    p = os.path.join(COQ, "_CoqProject")
    old = open(p).read() if os.path.exists(p) else ""
    if old != new or not os.path.exists(os.path.join(COQ, "Makefile")):
        open(p, "w").write(new)
        rc, out = sh("coq_makefile -f _CoqProject -o Makefile", cwd=COQ)
        if rc != 0:
            raise RuntimeError("coq_makefile failed: " + out)


def coq_build(targets, timeout=3000):
    """make the given .vo targets (paths relative to coq/). Returns (ok, output)."""
    with Lock("coq"):
        write_coqproject()
        rc, out = sh("timeout %d make -j16 %s" % (timeout, " ".join(targets)), cwd=COQ, timeout=timeout + 60)
        if rc != 0 and "No rule to make target" in out:
            # stale dependency file mentioning a .v that no longer exists: rebuild it once
            for f in (".Makefile.d", "Makefile", "Makefile.conf", "_CoqProject"):
                try:
                    os.remove(os.path.join(COQ, f))
                except OSError:
                    pass
            write_coqproject()
            rc, out = sh("timeout %d make -j16 %s" % (timeout, " ".join(targets)), cwd=COQ, timeout=timeout + 60)
        return rc == 0, out


def coqc_file(path, timeout=1800):
    rc, out = sh("timeout %d coqc -Q %s V %s" % (timeout, COQ, path), cwd=os.path.dirname(path), timeout=timeout + 60)
    return rc, out


def parse_theorems(props_v):
    txt = open(props_v).read()
    code = re.sub(r"\(\*.*?\*\)", " ", txt, flags=re.S)
    return re.findall(r"^\s*(?:Theorem|Lemma|Corollary)\s+([A-Za-z0-9_']+)", code, flags=re.M)


def parse_assumptions(output, theorems):
    """coqc prints, for each Print Assumptions, either 'Closed under the global context'
    or 'Axioms:' followed by names.  They appear in file order."""
    blocks = re.split(r"(?=Closed under the global context|Axioms:)", output)
    res = []
    for b in blocks:
        if b.startswith("Closed under the global context"):
            res.append([])
        elif b.startswith("Axioms:"):
            names = re.findall(r"^([A-Za-z0-9_.']+)\s*:", b[len("Axioms:"):], flags=re.M)
            res.append(names)
    return res


def build_harness(rundir, family):
    """builds harness/cmd/<family> against REPO's working tree.  The module file
    is generated per run (go build -modfile) so that REPO can be a scratch
    worktree (mutation testing) without touching /verif/harness/go.mod."""
    hdir = os.path.join(VERIF, "harness")
    exe = os.path.join(rundir, "harness")
    modfile = os.path.join(rundir, "go.mod")
    open(modfile, "w").write(open(os.path.join(hdir, "go.mod")).read().replace("=> /repo", "=> " + REPO))
    shutil.copyfile(os.path.join(REPO, "go.sum"), os.path.join(rundir, "go.sum"))
    rc, out = sh(["go", "build", "-modfile=" + modfile, "-tags", "verif", "-o", exe, "./cmd/" + family], cwd=hdir, timeout=1800)
    return rc == 0, out, exe


def build_gen(rundir, name):
    """translators are std-lib-only Go programs under gen/cmd/<name>; usage: <exe> <repo> <outdir>"""
    gdir = os.path.join(VERIF, "gen")
    exe = os.path.join(rundir, "gen-" + name)
    rc, out = sh(["go", "build", "-o", exe, "./cmd/" + name], cwd=gdir, timeout=600)
    return rc == 0, out, exe


def parse_results(out):
    """R_name = [..] : list nat  →  {name: [indices]}"""
    res = {}
    for m in re.finditer(r"R_([A-Za-z0-9_]+)\s*=\s*(\[[^\]]*\])", out):
        body = m.group(2).strip()[1:-1].strip()
        idx = [int(x) for x in re.findall(r"(\d+)(?:%nat)?", body)]
        res[m.group(1)] = idx
    return res


def load_known(pid):
    """known_findings.json (committed, merged) plus per-property files under
    known_findings.d/ (one per property so that builders do not collide);
    never written at run time."""
    out, seen = [], set()
    paths = [os.path.join(VERIF, "known_findings.json")] + sorted(glob.glob(os.path.join(VERIF, "known_findings.d", "*.json")))
    for p in paths:
        if not os.path.exists(p):
            continue
        for k in json.load(open(p)).get("findings", []):
            if k.get("property") == pid and k.get("status") == "known" and k.get("id") not in seen:
                seen.add(k.get("id"))
                out.append(k)
    return out


def default_matcher(payload, known):
    """a known finding matches a violation when the kind of failure is the same
    and every listed substring occurs in the serialised payload (so a different
    failing input of the same property is still reported)"""
    blob = json.dumps(payload, default=str, sort_keys=True)
    for k in known:
        m = k.get("match", {})
        if m.get("what") and m["what"] != payload.get("what"):
            continue
        if all(sub in blob for sub in m.get("contains", [])) and (m.get("what") or m.get("contains")):
            return k["id"]
    return None


EVDIR = os.environ.get("VERIF_EVIDENCE_DIR") or os.path.join(VERIF, "evidence")


def write_replay(pid, payload):
    d = os.path.join(EVDIR, "replay")
    os.makedirs(d, exist_ok=True)
    n = 1
    while os.path.exists(os.path.join(d, "%s-%d.json" % (pid, n))):
        n += 1
    p = os.path.join(d, "%s-%d.json" % (pid, n))
    json.dump(payload, open(p, "w"), indent=1, default=str)
    return p


def run_check(cfg, tier, seed, replay=None):
    """cfg keys: id, coq_dir, extra_vo (list), translators (list of names), family, n_quick, n_thorough,
    trusted (list of str), assumptions (list of str), known_matcher (callable failure->finding id or None)"""
    t0 = time.time()
    pid = cfg["id"]
    rundir = os.path.join(BUILD, "run", "%s-%d" % (pid, os.getpid()))
    shutil.rmtree(rundir, ignore_errors=True)
    os.makedirs(rundir)
    violations = []      # list of (kind, payload)   kind: 'input' | 'unproved'
    notes = []
    cov = {}
    try:
        # 1. translators
        gen_ok = True
        if cfg.get("translators"):
            os.makedirs(os.path.join(COQ, "gen"), exist_ok=True)
            for t in cfg["translators"]:
                ok, out, gexe = build_gen(rundir, t)
                if not ok:
                    gen_ok = False
                    notes.append("translator %s build failed: %s" % (t, out[-2000:]))
                    continue
                tmpd = os.path.join(rundir, "gen-out-" + t)
                os.makedirs(tmpd, exist_ok=True)
                rc, out = sh([gexe, REPO, tmpd], timeout=300)
                if rc != 0:
                    gen_ok = False
                    notes.append("translator %s failed closed: %s" % (t, out[-2000:]))
                    continue
                with Lock("coq"):
                    for f in os.listdir(tmpd):
                        dst = os.path.join(COQ, "gen", f)
                        new = open(os.path.join(tmpd, f)).read()
                        if not os.path.exists(dst) or open(dst).read() != new:
                            open(dst, "w").write(new)      # only touch when changed: keeps .vo fresh
            if not gen_ok:
                violations.append(("unproved", {"what": "translator could not regenerate the model from source", "notes": notes}))

        # 2. proofs
        props_v = os.path.join(COQ, cfg["coq_dir"], "Properties.v")
        theorems = parse_theorems(props_v)
        deps_vo = ["%s/%s.vo" % (cfg["coq_dir"], n) for n in cfg.get("extra_vo", ["Harness", "Examples"])]
        hits = scan_forbidden(None if os.environ.get('VERIF_GLOBAL_SCAN') == '1' else cfg['coq_dir'])
        if hits:
            violations.append(("unproved", {"what": "forbidden construct in Coq sources", "hits": hits}))
        ok, out = coq_build(deps_vo + ["%s/Properties.vo" % cfg["coq_dir"]])
        clean_tree = None
        if ok and tier == "thorough" and os.environ.get("VERIF_NO_CLEAN") != "1":
            # thorough: rebuild the property's closure from sources only, in a
            # private copy (no .vo reused), so that stale objects cannot hide a
            # broken proof; coqchk runs on that copy too
            clean_tree = os.path.join(rundir, "coqclean")
            os.makedirs(clean_tree)
            for d in sorted(closure_dirs(cfg["coq_dir"])):
                src = os.path.join(COQ, d)
                if os.path.isdir(src):
                    os.makedirs(os.path.join(clean_tree, d))
                    for f in os.listdir(src):
                        if f.endswith(".v"):
                            shutil.copyfile(os.path.join(src, f), os.path.join(clean_tree, d, f))
            files = [os.path.relpath(os.path.join(r, f), clean_tree) for r, _, fs in os.walk(clean_tree) for f in fs if f.endswith(".v")]
            open(os.path.join(clean_tree, "_CoqProject"), "w").write("-Q . V\n-arg -w -arg -notation-overridden,-deprecated-hint-without-locality,-deprecated-instance-without-locality,-deprecated-hint-rewrite-without-locality\n" + "\n".join(sorted(files)) + "\n")
            rc1, o1 = sh("coq_makefile -f _CoqProject -o Makefile", cwd=clean_tree)
            rc2, o2 = sh("timeout 3000 make -j16 %s" % " ".join(deps_vo + ["%s/Properties.vo" % cfg["coq_dir"]]), cwd=clean_tree, timeout=3100)
            cov["clean_rebuild"] = {"exit": rc2, "files": len(files)}
            if rc1 != 0 or rc2 != 0:
                ok, out = False, o1 + o2
        discharged = 0
        per_thm = {}
        checker_cmd = "make -C coq -j16 %s/Properties.vo && coqc -Q coq V coq/%s/Properties.v" % (cfg["coq_dir"], cfg["coq_dir"])
        if not ok:
            # find which file failed
            m = re.search(r'File "([^"]+)", line (\d+)', out)
            violations.append(("unproved", {"what": "proof obligation no longer checks", "coq_error": out[-3000:], "file": m.group(1) if m else None}))
        else:
            # compile Properties.v to a private .vo: no lock needed, and the
            # Print Assumptions output of THIS run is what gets parsed
            rc, pout = sh("timeout 1800 coqc -Q %s V -o %s %s" % (COQ, os.path.join(rundir, "Properties.vo"), props_v),
                          cwd=os.path.dirname(props_v), timeout=1900)
            if rc != 0:
                violations.append(("unproved", {"what": "Properties.v no longer checks", "coq_error": pout[-3000:]}))
            else:
                assum = parse_assumptions(pout, theorems)
                if len(assum) != len(theorems):
                    violations.append(("unproved", {"what": "every property theorem must be followed by Print Assumptions", "theorems": theorems, "assumption_blocks": len(assum)}))
                for i, th in enumerate(theorems):
                    ax = assum[i] if i < len(assum) else ["?"]
                    per_thm[th] = ax
                    bad = [a for a in ax if a.split(".")[-1] not in {x.split(".")[-1] for x in ALLOWED_AXIOMS}]
                    if bad:
                        violations.append(("unproved", {"what": "theorem depends on a non-standard axiom", "theorem": th, "axioms": bad}))
                    else:
                        discharged += 1
        if tier == "thorough" and ok and os.environ.get("VERIF_NO_COQCHK") != "1" and cfg.get("coqchk", True):
            rc, cout = sh("timeout 2400 coqchk -silent -o -Q . V V.%s.Properties" % cfg["coq_dir"].replace("/", "."), cwd=(clean_tree or COQ), timeout=2500)
            cov["coqchk"] = {"exit": rc, "tail": cout[-1500:]}
            checker_cmd += " && coqchk -silent -o -Q coq V V.%s.Properties" % cfg["coq_dir"]
            if rc != 0:
                violations.append(("unproved", {"what": "coqchk rejected the compiled development", "output": cout[-2000:]}))
        cov.update({"obligations": len(theorems) + len(cfg.get("translators", [])),
                    "discharged": discharged + (len(cfg.get("translators", [])) if gen_ok else 0),
                    "checker_cmd": checker_cmd, "theorems": per_thm})

        # 3. correspondence + glue
        stats_all = []
        if cfg.get("family"):
            okh, outh, exe = build_harness(rundir, cfg["family"])
            if not okh:
                violations.append(("unproved", {"what": "harness no longer builds against /repo (hook or API changed)", "go_error": outh[-3000:]}))
            else:
                n = cfg["n_thorough"] if tier == "thorough" else cfg["n_quick"]
                seeds = [seed] if tier == "quick" else [seed, seed + 1, seed + 2]
                if replay:
                    rp = json.load(open(replay))
                    seeds = [rp.get("seed", seed)]
                    n = rp.get("n", n)
                for sd in seeds:
                    od = os.path.join(rundir, "s%d" % sd)
                    rc, hout = sh([exe, "-seed", str(sd), "-n", str(n), "-tier", tier, "-out", od], timeout=3000,
                                  env=dict(GOENV, VERIF_REPO=REPO, VERIF_DIR=VERIF))
                    if rc != 0:
                        violations.append(("input", {"what": "harness run crashed (panic in the implementation under test?)", "seed": sd, "n": n, "output": hout[-4000:]}))
                        continue
                    stats = json.load(open(os.path.join(od, cfg["family"] + ".stats.json")))
                    stats_all.extend(stats)
                    for stt in stats:
                        for fl in stt["failures"]:
                            violations.append(("input", {"what": fl["what"], "family": stt["family"], "seed": sd, "n": n, "failure": fl}))
                    for cv in sorted(glob.glob(os.path.join(od, "*_cases.v"))):
                        rc, cout = coqc_file(cv)
                        if rc != 0:
                            violations.append(("unproved", {"what": "model could not evaluate the cases file", "file": cv, "coq_error": cout[-3000:]}))
                            continue
                        res = parse_results(cout)
                        if not res:
                            violations.append(("unproved", {"what": "no results parsed from cases run", "output": cout[-2000:]}))
                        for name, idx in res.items():
                            cov.setdefault("correspondence", {})[name] = cov.get("correspondence", {}).get(name, 0) + 1
                            if idx:
                                case_src = extract_case(cv, name, idx[0])
                                violations.append(("corr", {"what": "model and implementation disagree", "family": name, "seed": sd, "n": n,
                                                            "mismatching_case_indices": idx[:20], "first_case": case_src}))
        # 3b. search: an obligation or the correspondence broke but no concrete
        # failing input of the property is at hand yet: look for one with
        # further seeds and larger volumes (predicate evaluated on the real code)
        if cfg.get("family") and any(k != "input" for k, _ in violations) and not any(k == "input" for k, _ in violations) \
                and not replay and 'exe' in dir() and okh:
            n2 = cfg["n_thorough"]
            for sd in [seed + 101, seed + 202, seed + 303]:
                od = os.path.join(rundir, "search%d" % sd)
                rc, hout = sh([exe, "-seed", str(sd), "-n", str(n2), "-tier", "thorough", "-out", od], timeout=3000,
                              env=dict(GOENV, VERIF_REPO=REPO, VERIF_DIR=VERIF))
                if rc != 0:
                    violations.append(("input", {"what": "harness run crashed during search", "seed": sd, "n": n2, "output": hout[-4000:]}))
                    break
                found = False
                for stt in json.load(open(os.path.join(od, cfg["family"] + ".stats.json"))):
                    for fl in stt["failures"]:
                        violations.append(("input", {"what": fl["what"], "family": stt["family"], "seed": sd, "n": n2, "failure": fl, "found_by": "search after broken obligation"}))
                        found = True
                shutil.rmtree(od, ignore_errors=True)
                if found:
                    break
        # 4. known findings
        known = load_known(pid)
        matcher = cfg.get("known_matcher") or default_matcher
        final = []
        known_hit = set()
        for kind, pl in violations:
            kid = matcher(pl, known) if matcher else None
            if kid:
                known_hit.add(kid)
            else:
                final.append((kind, pl))
        for k in known:
            if k["id"] in known_hit:
                log("KNOWN-FINDING: property=%s %s" % (pid, k["what"]))
        # 5. decide
        #   concrete failing inputs first; a broken obligation/correspondence
        #   without a failing input is still a violation (no-failing-input-found)
        inputs = [pl for kind, pl in final if kind == "input"]
        others = [pl for kind, pl in final if kind != "input"]
        exitcode = 0
        if inputs:
            p = write_replay(pid, {"property": pid, "kind": "failing-input", **inputs[0], "also_broken": others[:3]})
            log("VIOLATION property=%s replay=%s" % (pid, p))
            exitcode = 1
        elif others:
            p = write_replay(pid, {"property": pid, "kind": "obligation-or-correspondence-broken",
                                   "no_longer_checks": others[0].get("theorem") or others[0].get("family") or others[0].get("what"),
                                   **others[0], "all": others[:5]})
            log("VIOLATION property=%s replay=%s no-failing-input-found" % (pid, p))
            exitcode = 1
        # evidence
        ev_eval = sum(s["evaluations"] for s in stats_all)
        ev_dist = sum(s["distinct_nontrivial"] for s in stats_all)
        samples = []
        hist = {}
        for s in stats_all:
            samples.extend(s["samples"][:4])
            for k, v in s["histogram"].items():
                hist[k] = hist.get(k, 0) + v
        if not samples:
            samples = [{"theorem": t} for t in theorems[:5]]
        cov.update({"evaluations": ev_eval, "distinct_nontrivial": ev_dist,
                    "rule": "; ".join(sorted({s["rule"] for s in stats_all})) or "proof obligations only",
                    "samples": samples[:10], "histogram": hist,
                    "trusted_base": cfg.get("trusted", []) + COMMON_TRUSTED,
                    "known_findings_reproduced": sorted(known_hit)})
        if not cov.get("discharged"):
            # nothing discharged (a broken build): the schema's proof keys need >= 1,
            # so report the counts under other names and rely on the generic keys
            cov["obligations_total"] = cov.pop("obligations", 0)
            cov["discharged_count"] = cov.pop("discharged", 0)
            cov["evaluations"] = max(cov.get("evaluations", 0), 1)
            cov["distinct_nontrivial"] = max(cov.get("distinct_nontrivial", 0), 2) if ev_dist >= 2 else cov.get("distinct_nontrivial", 0)
        ev = {"property_id": pid, "tier": tier, "seed": seed, "level": "proof", "coverage": cov,
              "assumptions": cfg.get("assumptions", []) + notes, "wall_s": round(time.time() - t0, 2),
              "violations": len(final)}
        os.makedirs(EVDIR, exist_ok=True)
        json.dump(ev, open(os.path.join(EVDIR, pid + ".json"), "w"), indent=1, default=str)
        return exitcode
    finally:
        shutil.rmtree(rundir, ignore_errors=True)


COMMON_TRUSTED = [
    "Coq 8.16.1 kernel (coqc, vm_compute); no native_compute; coqchk in the thorough tier",
    "no Axiom/Parameter/Admitted in the development (scanned on every run); Print Assumptions parsed under every property theorem",
    "correspondence harness (Go, /verif/harness) and this driver report faithfully; cases are evaluated inside Coq by vm_compute (no extraction)",
    "Go runtime and standard library as used by the modelled code",
]


def extract_case(cases_v, name, idx):
    """return the source text of case number idx of list `name` (best effort)"""
    try:
        txt = open(cases_v).read()
        chunk, off = divmod(idx, 400)
        m = re.search(r"Definition %s_%d : [^\n]*:= \[(.*?)\]\.\n" % (re.escape(name), chunk), txt, flags=re.S)
        if not m:
            return None
        items = m.group(1).split(";\n ")
        return items[off][:4000]
    except Exception as e:  # pragma: no cover
        return "unavailable: %s" % e


def main(props):
    if len(sys.argv) < 2 or sys.argv[1] not in props:
        log("usage: check <%s> [quick|thorough] [--replay file]" % "|".join(sorted(props)))
        return 2
    pid = sys.argv[1]
    tier = os.environ.get("VERIF_TIER") or "quick"
    replay = None
    args = sys.argv[2:]
    while args:
        a = args.pop(0)
        if a in ("quick", "thorough"):
            tier = a
        elif a == "--replay":
            replay = args.pop(0)
    seed = int(os.environ.get("VERIF_SEED", "1") or 1)
    return run_check(props[pid], tier, seed, replay)
