"""Per-property configuration: one JSON file per property under lib/propcfg/."""
import glob, json, os
PROPS = {}
for f in sorted(glob.glob(os.path.join(os.path.dirname(os.path.abspath(__file__)), "propcfg", "C*.json"))):
    c = json.load(open(f))
    pid = os.path.basename(f)[:-5]
    c.setdefault("coq_dir", pid)
    c["id"] = pid
    PROPS[pid] = c
