"""Per-property configuration of the generic driver."""
PROPS = {}

def prop(id, **kw):
    kw.setdefault("coq_dir", id)
    kw["id"] = id
    PROPS[id] = kw

prop("C07", family="c07", n_quick=400, n_thorough=4000,
     trusted=["hand-written Gallina models of internal/sourcemap (encodeVLQ, DecodeVLQ, appendMappingToBuffer, AppendSourceMapChunk, SourceMapPieces.Finalize, SourceMap.Find) tied to the Go code by the correspondence run; "
              "add-only hook internal/sourcemap/export_verif.go (wrappers, no logic)"],
     assumptions=["Go int modelled as unbounded Z (theorems state |v| < 2^62 where 64-bit width matters)",
                  "where the printers call AddSourceMapping is not modelled; it is exercised by the marker-program glue stream through api.Build"])
