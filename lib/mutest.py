#!/usr/bin/env python3
"""mutest.py <Cxx> <file-in-repo> <old> <new> : apply a textual mutation to /repo, run the quick check, revert."""
import subprocess, sys, json
pid, f, old, new = sys.argv[1:5]
p = "/repo/" + f
s = open(p).read()
assert s.count(old) >= 1, "pattern not found"
open(p, "w").write(s.replace(old, new, 1))
try:
    r = subprocess.run(["/verif/check", pid, "quick"], stdout=subprocess.PIPE, stderr=subprocess.STDOUT, text=True)
    print(r.stdout[-1500:]); print("exit", r.returncode)
    for line in r.stdout.splitlines():
        if line.startswith("VIOLATION"):
            rp = line.split("replay=")[1].split()[0]
            d = json.load(open(rp))
            print("kind:", d.get("kind"), "| what:", d.get("what"), "| broken:", [x.get("family") or x.get("what") for x in d.get("also_broken", d.get("all", []))][:4])
finally:
    subprocess.run(["git", "-C", "/repo", "checkout", "--", "."])
    subprocess.run(["git", "-C", "/verif", "checkout", "--", "evidence"], stderr=subprocess.DEVNULL)
