#!/usr/bin/env python3
"""mutest.py <Cxx> <worktree> : run the quick check of Cxx against a scratch git
worktree of /repo (which the caller has already mutated), print the verdict.
   create:  git -C /repo worktree add --detach /tmp/wt-foo HEAD
   mutate:  edit files under /tmp/wt-foo  (or: git -C /tmp/wt-foo apply patch.diff)
   run:     lib/mutest.py C07 /tmp/wt-foo
   remove:  git -C /repo worktree remove --force /tmp/wt-foo
/repo itself is never touched, so several mutation tests can run in parallel.

With MUTEST_SNAPSHOT=1 the check that is run is the COMMITTED one: a git worktree of /verif's HEAD
(.build/snap-Cxx, refreshed on every call; unchanged files keep their mtimes so
the Coq closure is rebuilt incrementally).  Edits in flight in /verif's working
tree (a builder in the middle of a proof) therefore cannot be blamed on the
mutant.  This mode is selected by MUTEST_SNAPSHOT=1 (lib/seedkeep.sh and
lib/reseed.sh set it); without it the check of /verif's WORKING TREE is run, which
is what a builder who is strengthening a harness wants."""
import subprocess, sys, json, os
pid, wt = sys.argv[1:3]
root = "/verif"
if os.environ.get("MUTEST_SNAPSHOT"):
    snap = "/verif/.build/snap-" + pid
    head = os.environ.get("MUTEST_SNAPSHOT_REV") or subprocess.run(["git", "-C", "/verif", "rev-parse", "HEAD"], stdout=subprocess.PIPE, text=True).stdout.strip()
    if not os.path.exists(os.path.join(snap, "check")):
        subprocess.run(["git", "-C", "/verif", "worktree", "prune"])
        subprocess.run(["git", "-C", "/verif", "worktree", "add", "--detach", "-f", snap, head, "-q"], check=True)
    else:
        subprocess.run(["git", "-C", snap, "checkout", "-q", "--detach", head], check=True)
        subprocess.run(["git", "-C", snap, "clean", "-qfd", "--", "coq", "harness", "gen", "lib"], check=False)
    root = snap
env = dict(os.environ, VERIF_REPO=os.path.realpath(wt), **({"VERIF_ALT_KEY": pid} if root != "/verif" else {}), VERIF_EVIDENCE_DIR="/tmp/mutest-evidence-%d" % os.getpid())
r = subprocess.run([root + "/check", pid, "quick"], stdout=subprocess.PIPE, stderr=subprocess.STDOUT, text=True, env=env)
print(r.stdout[-3000:]); print("exit", r.returncode)
for line in r.stdout.splitlines():
    if line.startswith("VIOLATION"):
        rp = line.split("replay=")[1].split()[0]
        d = json.load(open(rp))
        print("kind:", d.get("kind"), "| what:", d.get("what"), "| broken:", [x.get("family") or x.get("theorem") or x.get("what") for x in d.get("also_broken", d.get("all", []))][:4])
        print(json.dumps(d, default=str)[:1500])
subprocess.run(["rm", "-rf", env["VERIF_EVIDENCE_DIR"]])
