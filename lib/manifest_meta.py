HOOK_COMMITS = ["c3242d6"]
NOTES = "Machine-checked proof in Coq 8.16.1 over hand-written and regenerated models, tied to /repo on every run by translators and a correspondence harness; see DESIGN.md."
PENDING = "check under construction in this build phase (model and theorems not committed yet); will be claimed once its Properties.v and harness family exist"
NOT_APPLICABLE = {("C%02d" % i): PENDING for i in range(1, 21)}
META = {
 "C07": {
  "technique": "Coq theorems (VLQ round trip, v3 mappings round trip for every builder event list) + model/implementation correspondence by vm_compute + marker-program oracle through api.Build",
  "text": "Theorems, for all integers and all event lists, that the VLQ codec round-trips and that the mappings string written by the chunk builder denotes exactly the added mappings under an independent v3 decoder; the executable models of AppendSourceMapChunk, Finalize and Find are tied to the Go code by seeded correspondence and the property's predicate (every mapping points at the same marker token, positions after path substitution are true) is evaluated on real builds.",
  "note": "Trusted: Coq kernel, the correspondence harness, Go int as unbounded Z within stated bounds. Modelled not verified: internal/sourcemap functions named in the evidence; where printers record mappings is exercised only by the oracle (partial on the printer side).",
 },
}
