import props
HOOK_COMMITS = [l.split()[0] for l in open(__import__("os").path.join(__import__("os").path.dirname(__import__("os").path.dirname(__import__("os").path.abspath(__file__))), "MANIFEST.hooks")) if l.strip() and not l.startswith("#")]
NOTES = "Machine-checked proof in Coq 8.16.1 over hand-written and regenerated models, tied to /repo on every run by translators and a correspondence harness; see DESIGN.md."
PENDING = "check under construction in this build phase (model and theorems not committed yet); will be claimed once its Properties.v and harness family exist"
NOT_APPLICABLE = {("C%02d" % i): PENDING for i in range(1, 21)}
META = {pid: {"technique": c["technique"], "text": c["text"], "note": c["note"]} for pid, c in props.PROPS.items()}
