(* C20 model (e): watch mode and the dev server's view of a context, as a
   small LTS layered on the build discipline of CtxLTS (one build at a time):
     /repo/pkg/api/watcher.go   start (the polling loop), setWatchData,
       tryToFindDirtyPath (dirty = the inputs differ from what the LAST
       recorded build saw), stop;
     /repo/pkg/api/api_impl.go  rebuild(): `watcher := ctx.watcher` is captured
       in the first critical section and the owner calls
       watcher.setWatchData(build.state.watchData) BEFORE publishing; the
       watcher goroutine calls w.setWatchData(w.rebuild()) again AFTER its
       rebuild() returned; activeBuildOrRecentBuildOrRebuild (serve: join the
       active build, else the recent build, else rebuild); Dispose
       (watcher.stop() waits for the watcher goroutine).
   Versions: w_edits counts edits of the inputs; a build reads the current
   version; w_watched is the version recorded in watcher.data.  Client builds
   (Rebuild calls, the first watch-mode build, serve-triggered rebuilds) are
   one abstract client.  Ghost fields: w_wbuilds (builds started by the
   watcher) and w_lastTick (edits when it last started one).
   Executable definitions only. *)
From V Require Import Common.Base.
Local Close Scope Z_scope.
Local Open Scope nat_scope.

Inductive wcl :=                       (* the client-owned build, if any *)
| CNone
| CStarted (b : nat) (cw : bool)       (* cw: ctx.watcher was non-nil when the build started *)
| CRead (b : nat) (cw : bool) (v : nat).

Inductive wpc :=                       (* the watcher goroutine *)
| WOff                                 (* Watch was never called *)
| WCheck | WSleep
| WOwn (b : nat) | WOwnRead (b : nat) (v : nat)   (* it owns build b *)
| WJoin (b : nat)                      (* it joined the client's build b *)
| WSet (v : nat)                       (* w.setWatchData(result of rebuild()) *)
| WExited.

Record ws := mkW {
  w_disposed : bool; w_stop : bool;
  w_client : wcl; w_wpc : wpc;
  w_recent : option nat;               (* ctx.recentBuild *)
  w_edits : nat; w_watched : nat;
  w_nb : nat; w_fver : nat -> option nat;   (* finished builds and the version they read *)
  w_wbuilds : nat; w_lastTick : nat;
  w_dispRet : bool;                    (* a Dispose call has returned *)
  w_hasData : bool;                    (* watcher.data has paths: a watch-mode build has recorded its watch data *)
  w_first : bool }.                    (* Watch's first-build goroutine has not started its build yet *)

Definition ws0 := mkW false false CNone WOff None 0 0 0 (fun _ => None) 0 0 false false false.

Inductive wlabel := WEdit | WBuild (b : nat) | WServed (b : nat) | WTau.

Inductive wact :=
| XEdit | XExpire                      (* the recent build goes stale after 250 ms *)
| XWatch                               (* ctx.Watch() *)
| XClientStart | XClientRead | XClientFinish
| XFirstStart                          (* Watch's goroutine: the first watch-mode build, AFTER any build in flight has ended *)
| XServeRecent                         (* a dev-server request is answered from the recent build *)
| XWatcher                             (* the watcher goroutine takes its next step (a tick, in WSleep) *)
| XDisposeStart | XDisposeReturn.

Definition updf (f : nat -> option nat) (k v : nat) : nat -> option nat :=
  fun x => if Nat.eqb x k then Some v else f x.

Definition watcher_owns (p : wpc) : bool := match p with WOwn _ | WOwnRead _ _ => true | _ => false end.
Definition watching (p : wpc) : bool := match p with WOff => false | _ => true end.

Definition wexec (s : ws) (a : wact) : option (ws * wlabel) :=
  match a with
  | XEdit => Some (mkW (w_disposed s) (w_stop s) (w_client s) (w_wpc s) (w_recent s) (S (w_edits s)) (w_watched s)
                       (w_nb s) (w_fver s) (w_wbuilds s) (w_lastTick s) (w_dispRet s) (w_hasData s) (w_first s), WEdit)
  | XExpire => Some (mkW (w_disposed s) (w_stop s) (w_client s) (w_wpc s) None (w_edits s) (w_watched s)
                         (w_nb s) (w_fver s) (w_wbuilds s) (w_lastTick s) (w_dispRet s) (w_hasData s) (w_first s), WTau)
  | XWatch =>
      if negb (w_disposed s) && negb (watching (w_wpc s))
      then Some (mkW (w_disposed s) (w_stop s) (w_client s) WCheck (w_recent s) (w_edits s) (w_watched s)
                     (w_nb s) (w_fver s) (w_wbuilds s) (w_lastTick s) (w_dispRet s) (w_hasData s) true, WTau)
      else None
  | XClientStart =>
      match w_client s with
      | CNone =>
          if negb (w_disposed s) && negb (watcher_owns (w_wpc s))
          then Some (mkW (w_disposed s) (w_stop s) (CStarted (w_nb s) (watching (w_wpc s))) (w_wpc s) (w_recent s)
                         (w_edits s) (w_watched s) (S (w_nb s)) (w_fver s) (w_wbuilds s) (w_lastTick s) (w_dispRet s) (w_hasData s) (w_first s), WTau)
          else None
      | _ => None
      end
  | XFirstStart =>
      (* `if build != nil { build.waitGroup.Wait() }; ctx.Rebuild()`: the build it
         starts is a new one, begun after watch mode was switched on *)
      match w_client s with
      | CNone =>
          if w_first s && negb (w_disposed s) && negb (watcher_owns (w_wpc s))
          then Some (mkW (w_disposed s) (w_stop s) (CStarted (w_nb s) true) (w_wpc s) (w_recent s)
                         (w_edits s) (w_watched s) (S (w_nb s)) (w_fver s) (w_wbuilds s) (w_lastTick s) (w_dispRet s)
                         (w_hasData s) false, WTau)
          else None
      | _ => None
      end
  | XClientRead =>
      match w_client s with
      | CStarted b cw =>
          Some (mkW (w_disposed s) (w_stop s) (CRead b cw (w_edits s)) (w_wpc s) (w_recent s)
                    (w_edits s) (w_watched s) (w_nb s) (w_fver s) (w_wbuilds s) (w_lastTick s) (w_dispRet s) (w_hasData s) (w_first s), WTau)
      | _ => None
      end
  | XClientFinish =>
      match w_client s with
      | CRead b cw v =>
          Some (mkW (w_disposed s) (w_stop s) CNone (w_wpc s) (if w_disposed s then None else Some b)
                    (w_edits s) (if cw then v else w_watched s) (w_nb s) (updf (w_fver s) b v)
                    (w_wbuilds s) (w_lastTick s) (w_dispRet s) (if cw then true else w_hasData s) (w_first s), WTau)
      | _ => None
      end
  | XServeRecent =>
      match w_client s, w_recent s with
      | CNone, Some b => if watcher_owns (w_wpc s) then None else Some (s, WServed b)
      | _, _ => None
      end
  | XWatcher =>
      match w_wpc s with
      | WCheck =>
          Some (mkW (w_disposed s) (w_stop s) (w_client s) (if w_stop s then WExited else WSleep) (w_recent s)
                    (w_edits s) (w_watched s) (w_nb s) (w_fver s) (w_wbuilds s) (w_lastTick s) (w_dispRet s) (w_hasData s) (w_first s), WTau)
      | WSleep =>
          if w_hasData s && (w_watched s <? w_edits s) then   (* tryToFindDirtyPath: only recorded paths can be dirty *)
            if w_disposed s then                         (* rebuild() of a disposed context does nothing *)
              Some (mkW (w_disposed s) (w_stop s) (w_client s) WCheck (w_recent s)
                        (w_edits s) (w_watched s) (w_nb s) (w_fver s) (w_wbuilds s) (w_lastTick s) (w_dispRet s) (w_hasData s) (w_first s), WTau)
            else match w_client s with
                 | CStarted b _ | CRead b _ _ =>          (* join the client's build *)
                     Some (mkW (w_disposed s) (w_stop s) (w_client s) (WJoin b) (w_recent s)
                               (w_edits s) (w_watched s) (w_nb s) (w_fver s) (w_wbuilds s) (w_lastTick s) (w_dispRet s) (w_hasData s) (w_first s), WTau)
                 | CNone =>                               (* start a build of its own *)
                     Some (mkW (w_disposed s) (w_stop s) CNone (WOwn (w_nb s)) (w_recent s)
                               (w_edits s) (w_watched s) (S (w_nb s)) (w_fver s) (S (w_wbuilds s)) (w_edits s) (w_dispRet s) (w_hasData s) (w_first s),
                           WBuild (w_nb s))
                 end
          else Some (mkW (w_disposed s) (w_stop s) (w_client s) WCheck (w_recent s)
                         (w_edits s) (w_watched s) (w_nb s) (w_fver s) (w_wbuilds s) (w_lastTick s) (w_dispRet s) (w_hasData s) (w_first s), WTau)
      | WOwn b =>
          Some (mkW (w_disposed s) (w_stop s) (w_client s) (WOwnRead b (w_edits s)) (w_recent s)
                    (w_edits s) (w_watched s) (w_nb s) (w_fver s) (w_wbuilds s) (w_lastTick s) (w_dispRet s) (w_hasData s) (w_first s), WTau)
      | WOwnRead b v =>                                   (* the owner's setWatchData, then publish *)
          Some (mkW (w_disposed s) (w_stop s) (w_client s) (WSet v) (if w_disposed s then None else Some b)
                    (w_edits s) v (w_nb s) (updf (w_fver s) b v) (w_wbuilds s) (w_lastTick s) (w_dispRet s) (w_hasData s) (w_first s), WTau)
      | WJoin b =>
          match w_fver s b with
          | Some v => Some (mkW (w_disposed s) (w_stop s) (w_client s) (WSet v) (w_recent s)
                                (w_edits s) (w_watched s) (w_nb s) (w_fver s) (w_wbuilds s) (w_lastTick s) (w_dispRet s) (w_hasData s) (w_first s), WTau)
          | None => None
          end
      | WSet v =>                                         (* w.setWatchData(w.rebuild()) *)
          Some (mkW (w_disposed s) (w_stop s) (w_client s) WCheck (w_recent s)
                    (w_edits s) v (w_nb s) (w_fver s) (w_wbuilds s) (w_lastTick s) (w_dispRet s) (w_hasData s) (w_first s), WTau)
      | WOff | WExited => None
      end
  | XDisposeStart =>
      if w_disposed s then None
      else Some (mkW true (watching (w_wpc s)) (w_client s) (w_wpc s) None
                     (w_edits s) (w_watched s) (w_nb s) (w_fver s) (w_wbuilds s) (w_lastTick s) (w_dispRet s) (w_hasData s) (w_first s), WTau)
  | XDisposeReturn =>
      (* watcher.stop() returned (the goroutine exited) and no build is active *)
      if w_disposed s && (match w_wpc s with WOff | WExited => true | _ => false end)
         && (match w_client s with CNone => true | _ => false end)
      then Some (mkW (w_disposed s) (w_stop s) (w_client s) (w_wpc s) (w_recent s)
                     (w_edits s) (w_watched s) (w_nb s) (w_fver s) (w_wbuilds s) (w_lastTick s) true (w_hasData s) (w_first s), WTau)
      else None
  end.

Fixpoint wrun (s : ws) (acts : list wact) : option (ws * list wlabel) :=
  match acts with
  | [] => Some (s, [])
  | a :: r =>
      match wexec s a with
      | None => None
      | Some (s1, l) => match wrun s1 r with Some (s2, tr) => Some (s2, l :: tr) | None => None end
      end
  end.

(* specification of watch traces: in every prefix, the builds started by the
   watcher number at most [allow] plus the edits so far (changes are coalesced:
   no build without a new change) *)
Fixpoint wtrace_go (allow builds edits : nat) (tr : list wlabel) : bool :=
  match tr with
  | [] => true
  | WEdit :: r => wtrace_go allow builds (S edits) r
  | WBuild _ :: r => (S builds <=? allow + edits) && wtrace_go allow (S builds) edits r
  | _ :: r => wtrace_go allow builds edits r
  end.
Definition wtrace_ok (allow : nat) (tr : list wlabel) : bool := wtrace_go allow 0 0 tr.
