(* C20 model (b): the stdio packet codec of /repo/cmd/esbuild/stdio_protocol.go
   (readUint32, writeUint32, readLengthPrefixedSlice, encodePacket, decodePacket)
   and the stream framing loop of runService in /repo/cmd/esbuild/service.go.
   Executable definitions only.

   Go values travelling in packets: nil, bool, int, string, []byte,
   []interface{}, map[string]interface{}.  A Go map has distinct keys and
   encodePacket writes the entries sorted by key (sort.Strings = bytewise
   lexicographic); the model represents a map by its association list and
   sorts on encode; decodePacket inserts entry after entry into a map (a later
   duplicate key overwrites), modelled by insertion into the key-sorted list.

   Go [int] is 64 bit here: encode writes uint32(v) (wraps), decode returns the
   unsigned 32-bit value.  Three outcomes of decodePacket are distinguished:
   success, ok=false (packet ignored by handleIncomingPacket), and a Go panic
   (index out of range on truncated input / unknown kind byte). *)
From V Require Import Common.Base.

Inductive value :=
| VNull
| VBool (b : bool)
| VInt (n : Z)
| VStr (s : bytes)
| VBytes (s : bytes)
| VArr (l : list value)
| VMap (m : list (bytes * value)).

Inductive dres (A : Type) := DOk (a : A) | DFail | DPanic.
Arguments DOk {A} a. Arguments DFail {A}. Arguments DPanic {A}.

Definition zlen {A} (l : list A) : Z := Z.of_nat (length l).

(* writeUint32: little endian, value taken modulo 2^32 (Go's uint32(v)) *)
Definition le32 (n : Z) : bytes :=
  [n mod 256; (n / 256) mod 256; (n / 65536) mod 256; (n / 16777216) mod 256].

(* readUint32 *)
Definition read32 (bs : bytes) : option (Z * bytes) :=
  match bs with
  | a :: b :: c :: d :: r => Some (a + 256 * b + 65536 * c + 16777216 * d, r)
  | _ => None
  end.

(* readLengthPrefixedSlice *)
Definition readLP (bs : bytes) : option (bytes * bytes) :=
  match read32 bs with
  | Some (n, r) =>
      if n <=? zlen r then Some (firstn (Z.to_nat n) r, skipn (Z.to_nat n) r) else None
  | None => None
  end.

(* bytewise lexicographic order on strings (Go's < on string) *)
Fixpoint bytes_ltb (a b : bytes) : bool :=
  match a, b with
  | [], [] => false
  | [], _ :: _ => true
  | _ :: _, [] => false
  | x :: a', y :: b' => if x <? y then true else if y <? x then false else bytes_ltb a' b'
  end.

(* sort.Strings on the keys, carried with the already encoded values *)
Fixpoint ins_entry {B} (e : bytes * B) (l : list (bytes * B)) : list (bytes * B) :=
  match l with
  | [] => [e]
  | h :: t => if bytes_ltb (fst e) (fst h) then e :: h :: t else h :: ins_entry e t
  end.
Fixpoint sort_entries {B} (l : list (bytes * B)) : list (bytes * B) :=
  match l with
  | [] => []
  | e :: r => ins_entry e (sort_entries r)
  end.

(* the [visit] closure of encodePacket *)
Fixpoint enc (v : value) : bytes :=
  match v with
  | VNull => [0]
  | VBool b => [1; if b then 1 else 0]
  | VInt n => 2 :: le32 n
  | VStr s => 3 :: le32 (zlen s) ++ s
  | VBytes s => 4 :: le32 (zlen s) ++ s
  | VArr l => 5 :: le32 (zlen l) ++ flat_map enc l
  | VMap m =>
      6 :: le32 (zlen m) ++
        flat_map (fun e : bytes * bytes => le32 (zlen (fst e)) ++ fst e ++ snd e)
                 (sort_entries (map (fun kv : bytes * value => (fst kv, enc (snd kv))) m))
  end.

Record packet := mkPacket { p_id : Z; p_isRequest : bool; p_value : value }.

(* body = everything after the 4-byte length prefix *)
Definition encodeBody (p : packet) : bytes :=
  le32 (2 * p_id p + (if p_isRequest p then 0 else 1)) ++ enc (p_value p).
Definition encodePacket (p : packet) : bytes :=
  let body := encodeBody p in le32 (zlen body) ++ body.

(* map[string]interface{} assignment, on the key-sorted association list *)
Fixpoint map_insert (k : bytes) (v : value) (m : list (bytes * value)) : list (bytes * value) :=
  match m with
  | [] => [(k, v)]
  | (k', v') :: r =>
      if bytes_ltb k k' then (k, v) :: m
      else if bytes_ltb k' k then (k', v') :: map_insert k v r
      else (k, v) :: r
  end.

(* the two loops of decodePacket's [visit] closure, parametrised by the
   recursive call; bounded by the remaining input (every item consumes at
   least one byte, and visit panics on empty input) *)
Fixpoint dec_items (decf : bytes -> dres (value * bytes)) (k : nat) (cnt : Z) (bs : bytes)
                   (acc : list value) {struct k} : dres (value * bytes) :=
  if cnt <=? 0 then DOk (VArr (rev acc), bs) else
  match k with
  | O => DPanic
  | S k' =>
      match decf bs with
      | DOk (v, r2) => dec_items decf k' (cnt - 1) r2 (v :: acc)
      | DFail => DFail
      | DPanic => DPanic
      end
  end.

Fixpoint dec_entries (decf : bytes -> dres (value * bytes)) (k : nat) (cnt : Z) (bs : bytes)
                     (acc : list (bytes * value)) {struct k} : dres (value * bytes) :=
  if cnt <=? 0 then DOk (VMap acc, bs) else
  match k with
  | O => DPanic
  | S k' =>
      match readLP bs with
      | None => DFail
      | Some (key, r1) =>
          match decf r1 with
          | DOk (v, r2) => dec_entries decf k' (cnt - 1) r2 (map_insert key v acc)
          | DFail => DFail
          | DPanic => DPanic
          end
      end
  end.

(* the [visit] closure of decodePacket; fuel bounds the nesting depth *)
Fixpoint dec (fuel : nat) (bs : bytes) : dres (value * bytes) :=
  match fuel with
  | O => DPanic
  | S f =>
      match bs with
      | [] => DPanic                       (* bytes[0]: index out of range *)
      | kind :: r =>
          if kind =? 0 then DOk (VNull, r)
          else if kind =? 1 then
            match r with
            | [] => DPanic
            | b :: r' => DOk (VBool (negb (b =? 0)), r')
            end
          else if kind =? 2 then
            match read32 r with Some (n, r') => DOk (VInt n, r') | None => DFail end
          else if kind =? 3 then
            match readLP r with Some (s, r') => DOk (VStr s, r') | None => DFail end
          else if kind =? 4 then
            match readLP r with Some (s, r') => DOk (VBytes s, r') | None => DFail end
          else if kind =? 5 then
            match read32 r with
            | None => DFail
            | Some (count, r') => dec_items (dec f) (S (length r')) count r' []
            end
          else if kind =? 6 then
            match read32 r with
            | None => DFail
            | Some (count, r') => dec_entries (dec f) (S (length r')) count r' []
            end
          else DPanic                       (* panic("Invalid packet") *)
      end
  end.

(* decodePacket: argument is the packet body (length prefix already removed) *)
Definition decodePacket (bs : bytes) : dres packet :=
  match read32 bs with
  | None => DFail
  | Some (id, r) =>
      match dec (S (length r)) r with
      | DOk (v, rest) =>
          match rest with
          | [] => DOk (mkPacket (id / 2) (id mod 2 =? 0) v)
          | _ => DFail
          end
      | DFail => DFail
      | DPanic => DPanic
      end
  end.

(* runService's framing loop: split the stream into complete packet bodies
   and the remaining partial packet *)
Fixpoint frames (fuel : nat) (stream : bytes) : list bytes * bytes :=
  match fuel with
  | O => ([], stream)
  | S f =>
      match readLP stream with
      | Some (body, rest) => let '(l, tail) := frames f rest in (body :: l, tail)
      | None => ([], stream)
      end
  end.
Definition split_stream (stream : bytes) : list bytes * bytes := frames (S (length stream)) stream.

(* ---- boolean equality on values (for the checkers) ---- *)
Fixpoint value_eqb (a b : value) : bool :=
  match a, b with
  | VNull, VNull => true
  | VBool x, VBool y => Bool.eqb x y
  | VInt x, VInt y => x =? y
  | VStr x, VStr y => zlist_eqb x y
  | VBytes x, VBytes y => zlist_eqb x y
  | VArr x, VArr y =>
      (fix go (x y : list value) : bool :=
         match x, y with
         | [], [] => true
         | u :: x', w :: y' => value_eqb u w && go x' y'
         | _, _ => false
         end) x y
  | VMap x, VMap y =>
      (fix go (x y : list (bytes * value)) : bool :=
         match x, y with
         | [], [] => true
         | (k, u) :: x', (k', w) :: y' => zlist_eqb k k' && value_eqb u w && go x' y'
         | _, _ => false
         end) x y
  | _, _ => false
  end.

(* well-formedness: what a Go value that really is sent looks like *)
Definition is_byte (b : Z) : bool := (0 <=? b) && (b <? 256).
Definition bytes_ok (s : bytes) : bool := forallb is_byte s && (zlen s <? 4294967296).
Fixpoint ssorted {B} (l : list (bytes * B)) : bool :=
  match l with
  | [] => true
  | e :: r => forallb (fun e' => bytes_ltb (fst e) (fst e')) r && ssorted r
  end.
Fixpoint wf (v : value) : bool :=
  match v with
  | VNull | VBool _ => true
  | VInt n => (0 <=? n) && (n <? 4294967296)
  | VStr s | VBytes s => bytes_ok s
  | VArr l => forallb wf l && (zlen l <? 4294967296)
  | VMap m =>
      forallb (fun kv : bytes * value => bytes_ok (fst kv) && wf (snd kv)) m
      && ssorted m && (zlen m <? 4294967296)
  end.
Definition wf_packet (p : packet) : bool :=
  (0 <=? p_id p) && (p_id p <? 2147483648) && wf (p_value p).
