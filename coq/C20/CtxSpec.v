(* C20 specification side for build contexts: what an observable history of
   ONE context must look like, written from the property statement (not from
   esbuild's code), as an executable monitor.  The same function checks
   (1) every trace of the model CtxLTS (theorem history_checker_sound) and
   (2) the histories recorded from the real pkg/api code by the harness.

   Events (label, defined with the model): a client call and its return, the
   on-start callbacks of build b, the first read of the inputs by build b with
   the input version it saw, the on-end callbacks of build b with the
   cancellation outcome, an edit of the inputs.

   Rules (numbers are referred to in comments below)
   S1 builds are numbered 0,1,2,.. by their start; Start, [Load], End of one
      build come in this order and NO other build event lies in between
      (at most one build runs at a time); a Load sees the current version.
   S2 a Rebuild returns either the empty result (only if Dispose was called
      before that return) or the complete result of exactly one build b: b has
      ended before the return, the returned outcome (cancelled?, version) is
      b's own, and b had not yet been returned to anybody when the call was
      made (b was in progress at, or was started by, the call).
   S3 if, when the call was made, no other Rebuild was pending and Watch had
      never been called, then b started after the call was made and (unless
      cancelled before reading) read a version >= all earlier edits.
   S4 a Cancel returns only after every build that had started before the call
      has ended.
   S5 a Dispose returns only when no build is running, and no build event
      happens after a Dispose returned.
   S6 a Rebuild (Watch) called after some Dispose returned yields the empty
      result (an error).
   S7 a result says "canceled" only if Cancel was called before the build ended.
   S8 a build starts only while a Rebuild is pending or after Watch was called.
   S9 Watch succeeds at most once, and fails only if Dispose was called before
      its return, or Watch has already succeeded, or another Watch call is
      pending at its return (of two overlapping Watch calls exactly one
      succeeds: the one that fails may be observed to return first). *)
From V Require Import Common.Base C20.CtxLTS.
Local Close Scope Z_scope.
Local Open Scope nat_scope.

Record pinfo := mkP {
  p_cid : nat; p_op : op;
  p_edits : nat;        (* number of edits when the call was made *)
  p_next : nat;         (* number of builds started when the call was made *)
  p_quiet : bool;       (* no other Rebuild pending, Watch never called *)
  p_ret : list nat;     (* builds already returned to somebody when the call was made *)
  p_dispRet : bool      (* some Dispose had returned when the call was made *) }.

Record mon := mkMon {
  m_ncalls : nat;
  m_next : nat;                       (* next build number *)
  m_run : option nat;                 (* the build between Start and End *)
  m_loaded : bool;                    (* the running build has read its inputs *)
  m_load : list (nat * nat);          (* build -> version read *)
  m_end : list (nat * bool);          (* ended builds and their outcome *)
  m_ret : list nat;                   (* builds returned by some Rebuild *)
  m_pend : list pinfo;
  m_dispCalled : bool; m_dispRet : bool;
  m_watchCalled : bool; m_watchOk : bool; m_cancelCalled : bool;
  m_edits : nat }.

Definition mon0 : mon := mkMon 0 0 None false [] [] [] [] false false false false false 0.

Definition op_eqb (a b : op) : bool :=
  match a, b with
  | OpRebuild, OpRebuild | OpCancel, OpCancel | OpDispose, OpDispose | OpWatch, OpWatch => true
  | _, _ => false
  end.

Fixpoint lookup {B} (k : nat) (l : list (nat * B)) : option B :=
  match l with
  | [] => None
  | (k', v) :: r => if Nat.eqb k k' then Some v else lookup k r
  end.
Fixpoint mem (k : nat) (l : list nat) : bool :=
  match l with [] => false | x :: r => Nat.eqb k x || mem k r end.

Fixpoint find_pend (c : nat) (l : list pinfo) : option pinfo :=
  match l with
  | [] => None
  | p :: r => if Nat.eqb (p_cid p) c then Some p else find_pend c r
  end.
Fixpoint remove_pend (c : nat) (l : list pinfo) : list pinfo :=
  match l with
  | [] => []
  | p :: r => if Nat.eqb (p_cid p) c then r else p :: remove_pend c r
  end.
Definition rebuild_pending (l : list pinfo) : bool := existsb (fun p => op_eqb (p_op p) OpRebuild) l.
Definition watch_pending (l : list pinfo) : bool := existsb (fun p => op_eqb (p_op p) OpWatch) l.

Definition optnat_eqb (a b : option nat) : bool :=
  match a, b with Some x, Some y => Nat.eqb x y | None, None => true | _, _ => false end.

Definition upd_pend m l :=
  mkMon (m_ncalls m) (m_next m) (m_run m) (m_loaded m) (m_load m) (m_end m) (m_ret m) l
        (m_dispCalled m) (m_dispRet m) (m_watchCalled m) (m_watchOk m) (m_cancelCalled m) (m_edits m).

(* one event; None = the history violates the specification *)
Definition mon_step (m : mon) (l : label) : option mon :=
  match l with
  | LTau => Some m
  | LEdit =>
      Some (mkMon (m_ncalls m) (m_next m) (m_run m) (m_loaded m) (m_load m) (m_end m) (m_ret m) (m_pend m)
                  (m_dispCalled m) (m_dispRet m) (m_watchCalled m) (m_watchOk m) (m_cancelCalled m) (S (m_edits m)))
  | LCall c o =>
      if negb (Nat.eqb c (m_ncalls m)) then None else
      let p := mkP c o (m_edits m) (m_next m)
                   (negb (rebuild_pending (m_pend m)) && negb (m_watchCalled m))
                   (m_ret m) (m_dispRet m) in
      Some (mkMon (S c) (m_next m) (m_run m) (m_loaded m) (m_load m) (m_end m) (m_ret m) (p :: m_pend m)
                  (m_dispCalled m || op_eqb o OpDispose) (m_dispRet m)
                  (m_watchCalled m || op_eqb o OpWatch) (m_watchOk m) (m_cancelCalled m || op_eqb o OpCancel) (m_edits m))
  | LStart b =>
      if Nat.eqb b (m_next m) && (match m_run m with None => true | Some _ => false end)      (* S1 *)
         && negb (m_dispRet m)                                                              (* S5 *)
         && (rebuild_pending (m_pend m) || m_watchCalled m)                                 (* S8 *)
      then Some (mkMon (m_ncalls m) (S b) (Some b) false (m_load m) (m_end m) (m_ret m) (m_pend m)
                       (m_dispCalled m) (m_dispRet m) (m_watchCalled m) (m_watchOk m) (m_cancelCalled m) (m_edits m))
      else None
  | LLoad b v =>
      if optnat_eqb (m_run m) (Some b) && negb (m_loaded m) && Nat.eqb v (m_edits m)          (* S1 *)
      then Some (mkMon (m_ncalls m) (m_next m) (m_run m) true ((b, v) :: m_load m) (m_end m) (m_ret m) (m_pend m)
                       (m_dispCalled m) (m_dispRet m) (m_watchCalled m) (m_watchOk m) (m_cancelCalled m) (m_edits m))
      else None
  | LEnd b c =>
      if optnat_eqb (m_run m) (Some b)                                                       (* S1 *)
         && (negb c || m_cancelCalled m)                                                    (* S7 *)
      then Some (mkMon (m_ncalls m) (m_next m) None false (m_load m) ((b, c) :: m_end m) (m_ret m) (m_pend m)
                       (m_dispCalled m) (m_dispRet m) (m_watchCalled m) (m_watchOk m) (m_cancelCalled m) (m_edits m))
      else None
  | LRet c o v =>
      match find_pend c (m_pend m) with
      | None => None
      | Some p =>
          if negb (op_eqb (p_op p) o) then None else
          let pend := remove_pend c (m_pend m) in
          match o, v with
          | OpRebuild, RvEmpty =>
              if m_dispCalled m then Some (upd_pend m pend) else None                       (* S2 *)
          | OpRebuild, RvBuild b cc ver =>
              if (match lookup b (m_end m) with Some c' => Bool.eqb c' cc | None => false end)  (* S2: ended, own outcome *)
                 && optnat_eqb (lookup b (m_load m)) ver
                 && negb (mem b (p_ret p))                                                  (* S2: not returned before the call *)
                 && negb (p_dispRet p)                                                      (* S6 *)
                 && (negb (p_quiet p) ||                                                    (* S3 *)
                     ((p_next p <=? b) && match ver with Some x => p_edits p <=? x | None => true end))
              then Some (mkMon (m_ncalls m) (m_next m) (m_run m) (m_loaded m) (m_load m) (m_end m) (b :: m_ret m) pend
                               (m_dispCalled m) (m_dispRet m) (m_watchCalled m) (m_watchOk m) (m_cancelCalled m) (m_edits m))
              else None
          | OpCancel, RvUnit =>
              if (match m_run m with Some b => p_next p <=? b | None => true end)            (* S4 *)
              then Some (upd_pend m pend) else None
          | OpDispose, RvUnit =>
              match m_run m with
              | Some _ => None                                                              (* S5 *)
              | None =>
                  Some (mkMon (m_ncalls m) (m_next m) (m_run m) (m_loaded m) (m_load m) (m_end m) (m_ret m) pend
                              (m_dispCalled m) true (m_watchCalled m) (m_watchOk m) (m_cancelCalled m) (m_edits m))
              end
          | OpWatch, RvUnit =>
              if negb (p_dispRet p) && negb (m_watchOk m)                                    (* S6, S9 *)
              then Some (mkMon (m_ncalls m) (m_next m) (m_run m) (m_loaded m) (m_load m) (m_end m) (m_ret m) pend
                               (m_dispCalled m) (m_dispRet m) (m_watchCalled m) true (m_cancelCalled m) (m_edits m))
              else None
          | OpWatch, RvErr =>
              if m_dispCalled m || m_watchOk m || watch_pending pend                          (* S9 *)
              then Some (upd_pend m pend) else None
          | _, _ => None
          end
      end
  end.

Fixpoint mon_run (m : mon) (h : list label) : option mon :=
  match h with
  | [] => Some m
  | l :: r => match mon_step m l with Some m' => mon_run m' r | None => None end
  end.

Definition history_ok (h : list label) : bool :=
  match mon_run mon0 h with Some _ => true | None => false end.

(* index of the first event at which the monitor rejects (for diagnostics) *)
Fixpoint first_bad (m : mon) (h : list label) (i : nat) : option nat :=
  match h with
  | [] => None
  | l :: r => match mon_step m l with Some m' => first_bad m' r (S i) | None => Some i end
  end.
