(* C20 specification side for the stdio service: what the sequence of packets
   on the two pipes of ONE `esbuild --service` process must look like, written
   from the property statement ("every request receives exactly one response
   carrying its own id"), as an executable checker.  Evaluated by Coq on every
   transcript recorded by the harness and proved of every run of ServiceLTS.

   Ids are Z (real ids are 32-bit). *)
From V Require Import Common.Base.

Inductive sev :=
| ECReq (id : Z)      (* client -> service: a request *)
| ESResp (id : Z)     (* service -> client: the response to request id *)
| ESReq (id : Z)      (* service -> client: a request of the service (plugin callback, on-end, ping) *)
| ECResp (id : Z)     (* client -> service: the response to service request id *)
| EClose              (* the client closes the service's stdin *)
| EExit.              (* the service process exits *)

Fixpoint zmem (k : Z) (l : list Z) : bool :=
  match l with [] => false | x :: r => (k =? x) || zmem k r end.
Fixpoint zremove (k : Z) (l : list Z) : list Z :=
  match l with [] => [] | x :: r => if k =? x then r else x :: zremove k r end.

Record smon := mkSM {
  sm_owed : list Z;      (* client requests not yet answered *)
  sm_wait : list Z;      (* service requests not yet answered *)
  sm_used : list Z;      (* every id the service ever used for a request *)
  sm_closed : bool; sm_exited : bool }.
Definition smon0 := mkSM [] [] [] false false.

Definition sm_step (m : smon) (e : sev) : option smon :=
  if sm_exited m then None else
  match e with
  | ECReq id =>
      if negb (sm_closed m) && negb (zmem id (sm_owed m))
      then Some (mkSM (id :: sm_owed m) (sm_wait m) (sm_used m) (sm_closed m) false) else None
  | ESResp id =>                                     (* no response without a request; not twice *)
      if zmem id (sm_owed m)
      then Some (mkSM (zremove id (sm_owed m)) (sm_wait m) (sm_used m) (sm_closed m) false) else None
  | ESReq id =>                                      (* service request ids are never reused *)
      if negb (zmem id (sm_used m))
      then Some (mkSM (sm_owed m) (id :: sm_wait m) (id :: sm_used m) (sm_closed m) false) else None
  | ECResp id =>
      if negb (sm_closed m) && zmem id (sm_wait m)
      then Some (mkSM (sm_owed m) (zremove id (sm_wait m)) (sm_used m) (sm_closed m) false) else None
  | EClose =>
      if negb (sm_closed m) then Some (mkSM (sm_owed m) (sm_wait m) (sm_used m) true false) else None
  | EExit =>                                         (* the process exits only when every request is answered *)
      if sm_closed m && (match sm_owed m with [] => true | _ => false end)
      then Some (mkSM (sm_owed m) (sm_wait m) (sm_used m) true true) else None
  end.

Fixpoint sm_run (m : smon) (tr : list sev) : option smon :=
  match tr with
  | [] => Some m
  | e :: r => match sm_step m e with Some m' => sm_run m' r | None => None end
  end.

Definition svc_trace_ok (tr : list sev) : bool :=
  match sm_run smon0 tr with Some _ => true | None => false end.

(* counting, to say what acceptance means *)
Fixpoint n_creq (id : Z) (tr : list sev) : nat :=
  match tr with [] => O | ECReq x :: r => (if id =? x then 1 else 0) + n_creq id r | _ :: r => n_creq id r end.
Fixpoint n_sresp (id : Z) (tr : list sev) : nat :=
  match tr with [] => O | ESResp x :: r => (if id =? x then 1 else 0) + n_sresp id r | _ :: r => n_sresp id r end.
