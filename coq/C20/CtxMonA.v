(* Soundness of the history monitor (CtxSpec.mon_step) w.r.t. the LTS:
   relation between LTS state and monitor state, preserved by every step. *)
From V Require Import Common.Base C20.CtxLTS C20.CtxSpec C20.CtxProofs.
Local Close Scope Z_scope.
Local Open Scope nat_scope.

Definition owner_pc (s : state) (b : nat) : pc := t_pc (thr s (b_owner (blds s b))).

Definition next_of (s : state) : nat :=
  match active s with
  | Some b => match owner_pc s b with PRbOnStart _ => b | _ => S b end
  | None => nb s
  end.

Definition run_of (s : state) : option nat * bool :=
  match active s with
  | Some b => match owner_pc s b with
              | PRbPoll _ | PRbLoad _ | PRbEnd _ None => (Some b, false)
              | PRbEnd _ (Some _) => (Some b, true)
              | _ => (None, false)
              end
  | None => (None, false)
  end.

(* phases before the result is written *)
Definition pre_end (p : pc) : option nat :=
  match p with PRbOnStart b | PRbPoll b | PRbLoad b | PRbEnd b _ => Some b | _ => None end.
(* what the owner knows about the version it read *)
Definition load_of (p : pc) : option (nat * option nat) :=
  match p with
  | PRbOnStart b | PRbPoll b | PRbLoad b | PRbEnd b None => Some (b, None)
  | PRbEnd b (Some v) => Some (b, Some v)
  | _ => None
  end.
Definition disp_target (p : pc) : option (option nat) :=
  match p with
  | PDiStop ob | PDiStopWait ob => Some ob
  | PDiWait b => Some (Some b)
  | _ => None
  end.
Definition is_client (k : kind) : bool := match k with KClient _ => true | _ => false end.

(* per pending call *)
Record PInv (s : state) (m : mon) (t : nat) (p : pinfo) : Prop := mkPInv {
  q_next : p_next p <= m_next m;
  q_edits : p_edits p <= m_edits m;
  q_ret : forall b, mem b (p_ret p) = true -> mem b (m_ret m) = true;
  q_disp : p_dispRet p = true -> disposed s = true /\ active s = None /\ t_pc (thr s t) = start_pc (p_op p);
  q_fresh : forall b, ref_of (t_pc (thr s t)) = Some b -> mem b (p_ret p) = false;
  q_quiet1 : p_op p = OpRebuild -> p_quiet p = true -> t_pc (thr s t) = PRbStart ->
             forall b, active s = Some b -> p_next p <= b;
  q_quiet2 : p_op p = OpRebuild -> p_quiet p = true ->
             forall b, ref_of (t_pc (thr s t)) = Some b -> p_next p <= b;
  q_quiet3 : forall b x, p_next p <= b -> lookup b (m_load m) = Some x -> p_edits p <= x;
  q_cancel : p_op p = OpCancel -> forall b, ref_of (t_pc (thr s t)) = Some b -> p_next p <= S b;
  q_dispose : forall ob, disp_target (t_pc (thr s t)) = Some ob ->
              disposed s = true /\ forall b', active s = Some b' -> ob = Some b' }.

Record MInv (s : state) (m : mon) : Prop := mkMInv {
  r_ncalls : m_ncalls m = ncalls s;
  r_edits : m_edits m = edits s;
  r_next : m_next m = next_of s;
  r_run : (m_run m, m_loaded m) = run_of s;
  r_result : forall b c ov, b < nb s -> b_result (blds s b) = Some (c, ov) ->
             lookup b (m_end m) = Some c /\ lookup b (m_load m) = ov;
  r_noload : forall b, m_next m <= b -> lookup b (m_load m) = None;
  r_preend : forall t b, t < nt s -> pre_end (t_pc (thr s t)) = Some b -> b_result (blds s b) = None;
  r_loadof : forall t b ov, t < nt s -> load_of (t_pc (thr s t)) = Some (b, ov) -> lookup b (m_load m) = ov;
  r_pubres : forall t b, t < nt s -> t_pc (thr s t) = PRbPublish b -> b_result (blds s b) <> None;
  r_hasres : forall b, b < nb s -> (b_done (blds s b) = true \/ active s <> Some b) -> b_result (blds s b) <> None;
  r_ret : forall b, mem b (m_ret m) = true -> b < nb s /\ b_done (blds s b) = true;
  r_disposed : disposed s = true -> m_dispCalled m = true;
  r_dispret : m_dispRet m = true -> disposed s = true /\ active s = None;
  r_watch : m_watchOk m = true -> watcher s = true;
  r_watchc : watcher s = true -> m_watchCalled m = true;
  r_internal : forall t, t < nt s -> is_client (t_kind (thr s t)) = false -> watcher s = true;
  r_cancel : forall b, b < nb s -> b_cancel (blds s b) = true -> m_cancelCalled m = true;
  r_cancelk : forall t, t < nt s -> t_kind (thr s t) = KClient OpCancel -> m_cancelCalled m = true;
  r_disposek : forall t, t < nt s -> t_kind (thr s t) = KClient OpDispose -> m_dispCalled m = true;
  r_watchk : forall t, t < nt s -> t_kind (thr s t) = KClient OpWatch -> m_watchCalled m = true;
  r_cid : forall t o, t < nt s -> t_kind (thr s t) = KClient o -> t_cid (thr s t) < ncalls s;
  r_ciduniq : forall t1 t2, t1 < nt s -> t2 < nt s ->
              is_client (t_kind (thr s t1)) = true -> is_client (t_kind (thr s t2)) = true ->
              t_cid (thr s t1) = t_cid (thr s t2) -> t1 = t2;
  r_pend : forall t o, t < nt s -> t_kind (thr s t) = KClient o -> is_ret (t_pc (thr s t)) = false ->
           exists p, find_pend (t_cid (thr s t)) (m_pend m) = Some p /\ p_op p = o /\ PInv s m t p }.

Lemma minv_init : MInv init mon0.
Proof.
  constructor; simpl; intros; try reflexivity; try discriminate; try lia; auto.
Qed.

(* ---- list helpers ---- *)
Lemma find_remove_other : forall c c' l, c' <> c -> find_pend c' (remove_pend c l) = find_pend c' l.
Proof.
  intros c c' l N. induction l as [|p r IH]; simpl; auto.
  destruct (Nat.eqb_spec (p_cid p) c) as [E|E].
  - destruct (Nat.eqb_spec (p_cid p) c'); [congruence|auto].
  - simpl. destruct (Nat.eqb_spec (p_cid p) c'); auto.
Qed.

Lemma find_pend_cid : forall c l p, find_pend c l = Some p -> p_cid p = c.
Proof.
  intros c l p. induction l as [|q r IH]; simpl; [discriminate|].
  destruct (Nat.eqb_spec (p_cid q) c); intros H; [inversion H; subst; auto|auto].
Qed.

Lemma find_pend_rebuild : forall c l p, find_pend c l = Some p -> p_op p = OpRebuild -> rebuild_pending l = true.
Proof.
  intros c l p. unfold rebuild_pending. induction l as [|q r IH]; simpl; [discriminate|].
  destruct (Nat.eqb_spec (p_cid q) c); intros H Ho.
  - inversion H; subst. rewrite Ho. reflexivity.
  - rewrite (IH H Ho). apply orb_true_r.
Qed.

Lemma op_eqb_refl : forall o, op_eqb o o = true. Proof. destruct o; reflexivity. Qed.
Lemma op_eqb_eq : forall a b, op_eqb a b = true -> a = b. Proof. destruct a, b; simpl; congruence. Qed.

Lemma phase_pre_end : forall p b, pre_end p = Some b -> phase_of p = Some b.
Proof. destruct p; simpl; congruence. Qed.
Lemma load_of_phase : forall p b ov, load_of p = Some (b, ov) -> phase_of p = Some b.
Proof. destruct p; simpl; try congruence. destruct ver; congruence. Qed.
Lemma phase_ref : forall p b, phase_of p = Some b -> ref_of p = Some b.
Proof. destruct p; simpl; congruence. Qed.

(* ---- PInv under a change that keeps what the thread refers to ---- *)
Lemma pinv_frame : forall s m s' m' t p,
  PInv s m t p ->
  ref_of (t_pc (thr s' t)) = ref_of (t_pc (thr s t)) ->
  disp_target (t_pc (thr s' t)) = disp_target (t_pc (thr s t)) ->
  (t_pc (thr s' t) = PRbStart -> t_pc (thr s t) = PRbStart) ->
  (p_dispRet p = true -> t_pc (thr s t) = start_pc (p_op p) -> t_pc (thr s' t) = start_pc (p_op p)) ->
  m_next m <= m_next m' -> m_edits m <= m_edits m' ->
  (forall b, mem b (m_ret m) = true -> mem b (m_ret m') = true) ->
  (disposed s = true -> disposed s' = true) ->
  (forall b, active s' = Some b -> active s = Some b \/ (disposed s = false /\ m_next m <= b)) ->
  (forall b x, lookup b (m_load m') = Some x -> lookup b (m_load m) = Some x \/ m_edits m <= x) ->
  PInv s' m' t p.
Proof.
  intros s m s' m' t p Q Er Edt Es Est Hn He Hr Hd Ha Hl.
  destruct Q. constructor; rewrite ?Er, ?Edt; auto; try lia.
  - intros H. destruct (q_disp0 H) as [D1 [D2 D3]]. split; [auto|split; [|auto]].
    destruct (active s') as [b|] eqn:A; auto. destruct (Ha b eq_refl) as [A1|[A1 _]]; congruence.
  - intros Ho Hq Hp b Hb. destruct (Ha b Hb) as [A|[_ A]]; [eauto | lia].
  - intros b x Hb Hx. destruct (Hl b x Hx) as [A|A]; [eauto | lia].
  - intros ob Ho. destruct (q_dispose0 ob Ho) as [D1 D2]. split; auto.
    intros b' Hb'. destruct (Ha b' Hb') as [A|[A _]]; [auto | congruence].
Qed.

Lemma pinv_frame_same : forall s m s' m' t p,
  PInv s m t p ->
  thr s' t = thr s t ->
  m_next m <= m_next m' -> m_edits m <= m_edits m' ->
  (forall b, mem b (m_ret m) = true -> mem b (m_ret m') = true) ->
  (disposed s = true -> disposed s' = true) ->
  (forall b, active s' = Some b -> active s = Some b \/ (disposed s = false /\ m_next m <= b)) ->
  (forall b x, lookup b (m_load m') = Some x -> lookup b (m_load m) = Some x \/ m_edits m <= x) ->
  PInv s' m' t p.
Proof.
  intros. eapply pinv_frame; eauto; rewrite H0; auto.
Qed.

(* the owner of the active build is not a thread outside the build phases *)
Lemma owner_not : forall s t b, SInv s -> active s = Some b -> phase_of (t_pc (thr s t)) = None ->
  b_owner (blds s b) <> t.
Proof.
  intros s t b I Ha Hp E. destruct (i_act_owner _ I b Ha) as [_ P]. rewrite E in P. congruence.
Qed.

(* a silent step of a thread that is not inside a build *)
Lemma minv_tau : forall s s' m t,
  SInv s -> MInv s m -> t < nt s ->
  active s' = active s -> nb s' = nb s -> nt s' = nt s -> edits s' = edits s ->
  ncalls s' = ncalls s -> watcher s' = watcher s ->
  (disposed s = true -> disposed s' = true) ->
  (disposed s' = true -> disposed s = true \/ m_dispCalled m = true) ->
  (forall b, b_owner (blds s' b) = b_owner (blds s b) /\ b_result (blds s' b) = b_result (blds s b) /\
             b_done (blds s' b) = b_done (blds s b) /\
             (b_cancel (blds s' b) = true -> b_cancel (blds s b) = true \/ m_cancelCalled m = true)) ->
  (forall t', t' <> t -> thr s' t' = thr s t') ->
  t_kind (thr s' t) = t_kind (thr s t) -> t_cid (thr s' t) = t_cid (thr s t) ->
  phase_of (t_pc (thr s t)) = None -> phase_of (t_pc (thr s' t)) = None ->
  (is_ret (t_pc (thr s' t)) = false -> is_ret (t_pc (thr s t)) = false) ->
  (forall o p, t_kind (thr s t) = KClient o -> is_ret (t_pc (thr s' t)) = false ->
               find_pend (t_cid (thr s t)) (m_pend m) = Some p -> p_op p = o ->
               PInv s m t p -> PInv s' m t p) ->
  MInv s' m.
Proof.
  intros s s' m t I M Ht Ea En Et Ee Ec Ew Hd1 Hd2 Eb Eo Ek Eci P0 P1 Hret Hp.
  assert (Hown : forall b, active s = Some b -> owner_pc s' b = owner_pc s b).
  { intros b Ha. unfold owner_pc. destruct (Eb b) as [-> _]. rewrite Eo; auto.
    eapply owner_not; eauto. }
  assert (Hk : forall t', t_kind (thr s' t') = t_kind (thr s t') /\ t_cid (thr s' t') = t_cid (thr s t')).
  { intros t'. destruct (Nat.eq_dec t' t) as [->|N]; [auto|rewrite (Eo _ N); auto]. }
  constructor; rewrite ?Ea, ?En, ?Et, ?Ee, ?Ec, ?Ew.
  - apply (r_ncalls _ _ M).
  - apply (r_edits _ _ M).
  - rewrite (r_next _ _ M). unfold next_of. rewrite Ea. destruct (active s) eqn:A; auto. rewrite Hown; auto.
  - rewrite (r_run _ _ M). unfold run_of. rewrite Ea. destruct (active s) eqn:A; auto. rewrite Hown; auto.
  - intros b c ov Hb Hr. destruct (Eb b) as [_ [E2 _]]. rewrite E2 in Hr. apply (r_result _ _ M b c ov Hb Hr).
  - apply (r_noload _ _ M).
  - intros t0 b H0 Hpe. destruct (Eb b) as [_ [E2 _]]. rewrite E2.
    destruct (Nat.eq_dec t0 t) as [->|N].
    + apply phase_pre_end in Hpe. congruence.
    + rewrite (Eo _ N) in Hpe. apply (r_preend _ _ M t0 b H0 Hpe).
  - intros t0 b ov H0 Hl. destruct (Nat.eq_dec t0 t) as [->|N].
    + apply load_of_phase in Hl. congruence.
    + rewrite (Eo _ N) in Hl. apply (r_loadof _ _ M t0 b ov H0 Hl).
  - intros t0 b H0 Hpc. destruct (Eb b) as [_ [E2 _]]. rewrite E2.
    destruct (Nat.eq_dec t0 t) as [->|N].
    + rewrite Hpc in P1. discriminate.
    + rewrite (Eo _ N) in Hpc. apply (r_pubres _ _ M t0 b H0 Hpc).
  - intros b Hb H. destruct (Eb b) as [_ [E2 [E3 _]]]. rewrite E2. rewrite E3 in H. apply (r_hasres _ _ M b Hb H).
  - intros b H. destruct (Eb b) as [_ [_ [E3 _]]]. rewrite E3. apply (r_ret _ _ M b H).
  - intros H. destruct (Hd2 H); auto. apply (r_disposed _ _ M); auto.
  - intros H. destruct (r_dispret _ _ M H). split; auto.
  - apply (r_watch _ _ M).
  - apply (r_watchc _ _ M).
  - intros t0 H0 H. destruct (Hk t0) as [K _]. rewrite K in H. apply (r_internal _ _ M t0 H0 H).
  - intros b Hb H. destruct (Eb b) as [_ [_ [_ E4]]]. destruct (E4 H); auto. apply (r_cancel _ _ M b Hb); auto.
  - intros t0 H0 H. destruct (Hk t0) as [K _]. rewrite K in H. apply (r_cancelk _ _ M t0 H0 H).
  - intros t0 H0 H. destruct (Hk t0) as [K _]. rewrite K in H. apply (r_disposek _ _ M t0 H0 H).
  - intros t0 H0 H. destruct (Hk t0) as [K _]. rewrite K in H. apply (r_watchk _ _ M t0 H0 H).
  - intros t0 o H0 H. destruct (Hk t0) as [K C]. rewrite K in H. rewrite C. apply (r_cid _ _ M t0 o H0 H).
  - intros t1 t2 H1 H2 K1 K2 C. destruct (Hk t1) as [K1' C1]. destruct (Hk t2) as [K2' C2].
    rewrite K1' in K1. rewrite K2' in K2. rewrite C1, C2 in C. apply (r_ciduniq _ _ M t1 t2 H1 H2 K1 K2 C).
  - intros t0 o H0 K R. destruct (Hk t0) as [K' C']. rewrite K' in K. rewrite C'.
    destruct (Nat.eq_dec t0 t) as [->|N].
    + destruct (r_pend _ _ M t o H0 K (Hret R)) as [p [F [O Q]]]. exists p. split; [auto|split; [auto|]]. eapply Hp; eauto.
    + rewrite (Eo _ N) in R.
      destruct (r_pend _ _ M t0 o H0 K R) as [p [F [O Q]]]. exists p. split; [auto|split; [auto|]].
      eapply pinv_frame_same; eauto. intros b Hb. left. congruence.
Qed.

(* a client call returns from a pc outside the build phases; the state is
   otherwise unchanged; the monitor removes the pending entry *)
Lemma minv_ret : forall s m m' t v o,
  SInv s -> MInv s m -> t < nt s ->
  t_kind (thr s t) = KClient o -> phase_of (t_pc (thr s t)) = None ->
  m_ncalls m' = m_ncalls m -> m_next m' = m_next m -> m_run m' = m_run m -> m_loaded m' = m_loaded m ->
  m_load m' = m_load m -> m_end m' = m_end m -> m_edits m' = m_edits m ->
  m_dispCalled m' = m_dispCalled m -> m_watchCalled m' = m_watchCalled m ->
  (m_watchOk m' = true -> m_watchOk m = true \/ watcher s = true) ->
  m_cancelCalled m' = m_cancelCalled m ->
  m_pend m' = remove_pend (t_cid (thr s t)) (m_pend m) ->
  (forall b, mem b (m_ret m) = true -> mem b (m_ret m') = true) ->
  (forall b, mem b (m_ret m') = true -> mem b (m_ret m) = true \/ (b < nb s /\ b_done (blds s b) = true)) ->
  (m_dispRet m' = true -> m_dispRet m = true \/ (disposed s = true /\ active s = None)) ->
  MInv (set_pc s t (PRet v)) m'.
Proof.
  intros s m m' t v o I M Ht Kt P0 E1 E2 E3 E4 E5 E6 E7 E8 E9 E10 E11 Ep Hr1 Hr2 Hdr.
  assert (Hown : forall b, active s = Some b -> owner_pc (set_pc s t (PRet v)) b = owner_pc s b).
  { intros b Ha. unfold owner_pc. upd_simpl.
    destruct (Nat.eqb_spec (b_owner (blds s b)) t) as [E|N]; auto.
    exfalso. eapply owner_not; eauto. }
  constructor; upd_simpl; rewrite ?E1, ?E2, ?E3, ?E4, ?E5, ?E6, ?E7, ?E8, ?E9, ?E11.
  - apply (r_ncalls _ _ M).
  - apply (r_edits _ _ M).
  - rewrite (r_next _ _ M). unfold next_of. simpl. destruct (active s) eqn:A; auto.
    pose proof (Hown n eq_refl) as H. unfold owner_pc in *. upd_simpl. rewrite H. auto.
  - rewrite (r_run _ _ M). unfold run_of. simpl. destruct (active s) eqn:A; auto.
    pose proof (Hown n eq_refl) as H. unfold owner_pc in *. upd_simpl. rewrite H. auto.
  - apply (r_result _ _ M).
  - apply (r_noload _ _ M).
  - intros t0 b H0 Hpe. destruct (Nat.eqb_spec t0 t) as [E|N]; simpl in Hpe; [discriminate|].
    apply (r_preend _ _ M t0 b H0 Hpe).
  - intros t0 b ov H0 Hl. destruct (Nat.eqb_spec t0 t) as [E|N]; simpl in Hl; [discriminate|].
    apply (r_loadof _ _ M t0 b ov H0 Hl).
  - intros t0 b H0 Hpc. destruct (Nat.eqb_spec t0 t) as [E|N]; simpl in Hpc; [discriminate|].
    apply (r_pubres _ _ M t0 b H0 Hpc).
  - apply (r_hasres _ _ M).
  - intros b H. destruct (Hr2 b H) as [H1|H1]; auto. apply (r_ret _ _ M b H1).
  - apply (r_disposed _ _ M).
  - intros H. destruct (Hdr H) as [H1|H1]; auto. apply (r_dispret _ _ M H1).
  - intros H. destruct (E10 H) as [H1|H1]; auto. apply (r_watch _ _ M H1).
  - apply (r_watchc _ _ M).
  - intros t0 H0 H. destruct (Nat.eqb_spec t0 t) as [E|N]; simpl in H.
    + rewrite Kt in H. discriminate.
    + apply (r_internal _ _ M t0 H0 H).
  - apply (r_cancel _ _ M).
  - intros t0 H0 H. destruct (Nat.eqb_spec t0 t) as [E|N]; simpl in H; [subst t0|]; apply (r_cancelk _ _ M _ H0 H).
  - intros t0 H0 H. destruct (Nat.eqb_spec t0 t) as [E|N]; simpl in H; [subst t0|]; apply (r_disposek _ _ M _ H0 H).
  - intros t0 H0 H. destruct (Nat.eqb_spec t0 t) as [E|N]; simpl in H; [subst t0|]; apply (r_watchk _ _ M _ H0 H).
  - intros t0 o0 H0 H. destruct (Nat.eqb_spec t0 t) as [E|N]; simpl in *; [subst t0|]; apply (r_cid _ _ M _ o0 H0 H).
  - intros t1 t2 H1 H2 K1 K2 C.
    apply (r_ciduniq _ _ M t1 t2 H1 H2).
    + destruct (Nat.eqb_spec t1 t) as [E|N]; simpl in K1; [subst t1|]; auto.
    + destruct (Nat.eqb_spec t2 t) as [E|N]; simpl in K2; [subst t2|]; auto.
    + destruct (Nat.eqb_spec t1 t) as [E|N]; destruct (Nat.eqb_spec t2 t) as [E'|N']; simpl in C; subst; auto.
  - intros t0 o0 H0 K R. destruct (Nat.eqb_spec t0 t) as [E|N]; simpl in *; [discriminate|].
    destruct (r_pend _ _ M t0 o0 H0 K R) as [p [F [O Q]]]. exists p. split; [|split; [auto|]].
    + rewrite Ep. rewrite find_remove_other; auto.
      intros C. apply N. apply (r_ciduniq _ _ M t0 t H0 Ht); auto. rewrite K; reflexivity. rewrite Kt; reflexivity.
    + eapply pinv_frame_same; eauto; try lia.
      all: try (upd_simpl; destruct (Nat.eqb_spec t0 t); [congruence|reflexivity]).
      all: try (rewrite E5; intros b x Hx; left; exact Hx).
      all: try (intros b Hb; left; exact Hb).
Qed.

Definition next_by (p : pc) (b : nat) : nat := match p with PRbOnStart _ => b | _ => S b end.
Definition run_by (p : pc) (b : nat) : option nat * bool :=
  match p with
  | PRbPoll _ | PRbLoad _ | PRbEnd _ None => (Some b, false)
  | PRbEnd _ (Some _) => (Some b, true)
  | _ => (None, false)
  end.
Definition lov (p : pc) : option nat := match load_of p with Some (_, ov) => ov | None => None end.

Lemma start_pc_phase : forall o, phase_of (start_pc o) = None. Proof. destruct o; reflexivity. Qed.

(* the owner of the running build moves between the phases before the result is written *)
Lemma minv_owner_move : forall s m m' t b p',
  SInv s -> MInv s m -> t < nt s ->
  pre_end (t_pc (thr s t)) = Some b -> pre_end p' = Some b ->
  m_ncalls m' = m_ncalls m -> m_edits m' = m_edits m -> m_end m' = m_end m -> m_ret m' = m_ret m ->
  m_pend m' = m_pend m -> m_dispCalled m' = m_dispCalled m -> m_dispRet m' = m_dispRet m ->
  m_watchCalled m' = m_watchCalled m -> m_watchOk m' = m_watchOk m -> m_cancelCalled m' = m_cancelCalled m ->
  m_next m' = next_by p' b -> (m_run m', m_loaded m') = run_by p' b -> m_next m <= m_next m' ->
  (forall b0, lookup b0 (m_load m') = if Nat.eqb b0 b then lov p' else lookup b0 (m_load m)) ->
  (forall b0 x, lookup b0 (m_load m') = Some x -> lookup b0 (m_load m) = Some x \/ m_edits m <= x) ->
  MInv (set_pc s t p') m'.
Proof.
  intros s m m' t b p' I M Ht P0 P1 E1 E2 E3 E4 E5 E6 E7 E8 E9 E10 En Er Hn Hl Hl2.
  pose proof (phase_pre_end _ _ P0) as Ph0. pose proof (phase_pre_end _ _ P1) as Ph1.
  destruct (i_phase _ I t b Ht Ph0) as [Ha Ho].
  assert (Hoth : forall t0 b0, t0 < nt s -> t0 <> t -> phase_of (t_pc (thr s t0)) = Some b0 -> False).
  { intros t0 b0 H0 N P. destruct (i_phase _ I t0 b0 H0 P) as [A O]. rewrite Ha in A. inversion A; subst. congruence. }
  constructor; upd_simpl; rewrite ?E1, ?E2, ?E3, ?E4, ?E5, ?E6, ?E7, ?E8, ?E9, ?E10.
  - apply (r_ncalls _ _ M).
  - apply (r_edits _ _ M).
  - rewrite En. unfold next_of, owner_pc. simpl. rewrite Ha, Ho, Nat.eqb_refl. simpl.
    unfold next_by. destruct p'; reflexivity.
  - rewrite Er. unfold run_of, owner_pc. simpl. rewrite Ha, Ho, Nat.eqb_refl. simpl.
    unfold run_by. destruct p'; try reflexivity.
  - intros b0 c ov Hb Hr. rewrite Hl. destruct (Nat.eqb_spec b0 b) as [E|N].
    + subst b0. rewrite (r_preend _ _ M t b Ht P0) in Hr. discriminate.
    + apply (r_result _ _ M b0 c ov Hb Hr).
  - intros b0 Hb. rewrite Hl. destruct (Nat.eqb_spec b0 b) as [E|N].
    + subst b0. rewrite En in Hb. unfold next_by, lov in *. destruct p'; simpl in *; try discriminate; try lia; auto.
    + apply (r_noload _ _ M). lia.
  - intros t0 b0 H0 Hpe. destruct (Nat.eqb_spec t0 t) as [E|N]; simpl in Hpe.
    + rewrite P1 in Hpe. inversion Hpe; subst b0. apply (r_preend _ _ M t b Ht P0).
    + apply (r_preend _ _ M t0 b0 H0 Hpe).
  - intros t0 b0 ov H0 Hlo. destruct (Nat.eqb_spec t0 t) as [E|N]; simpl in Hlo.
    + pose proof (load_of_phase _ _ _ Hlo) as Q. rewrite Ph1 in Q. inversion Q; subst b0.
      rewrite Hl, Nat.eqb_refl. unfold lov. rewrite Hlo. reflexivity.
    + exfalso. eapply (Hoth t0 b0); eauto. eapply load_of_phase; eauto.
  - intros t0 b0 H0 Hpc. destruct (Nat.eqb_spec t0 t) as [E|N]; simpl in Hpc.
    + rewrite Hpc in P1. discriminate.
    + apply (r_pubres _ _ M t0 b0 H0 Hpc).
  - apply (r_hasres _ _ M).
  - apply (r_ret _ _ M).
  - apply (r_disposed _ _ M).
  - apply (r_dispret _ _ M).
  - apply (r_watch _ _ M).
  - apply (r_watchc _ _ M).
  - intros t0 H0 H. destruct (Nat.eqb_spec t0 t) as [E|N]; simpl in H; [subst t0|]; apply (r_internal _ _ M _ H0 H).
  - apply (r_cancel _ _ M).
  - intros t0 H0 H. destruct (Nat.eqb_spec t0 t) as [E|N]; simpl in H; [subst t0|]; apply (r_cancelk _ _ M _ H0 H).
  - intros t0 H0 H. destruct (Nat.eqb_spec t0 t) as [E|N]; simpl in H; [subst t0|]; apply (r_disposek _ _ M _ H0 H).
  - intros t0 H0 H. destruct (Nat.eqb_spec t0 t) as [E|N]; simpl in H; [subst t0|]; apply (r_watchk _ _ M _ H0 H).
  - intros t0 o0 H0 H. destruct (Nat.eqb_spec t0 t) as [E|N]; simpl in *; [subst t0|]; apply (r_cid _ _ M _ o0 H0 H).
  - intros t1 t2 H1 H2 K1 K2 C.
    apply (r_ciduniq _ _ M t1 t2 H1 H2).
    + destruct (Nat.eqb_spec t1 t) as [E|N]; simpl in K1; [subst t1|]; auto.
    + destruct (Nat.eqb_spec t2 t) as [E|N]; simpl in K2; [subst t2|]; auto.
    + destruct (Nat.eqb_spec t1 t) as [E|N]; destruct (Nat.eqb_spec t2 t) as [E'|N']; simpl in C; subst; auto.
  - intros t0 o0 H0 K R.
    assert (K' : t_kind (thr s t0) = KClient o0).
    { destruct (Nat.eqb_spec t0 t) as [E|N]; simpl in K; [subst t0|]; auto. }
    assert (R' : is_ret (t_pc (thr s t0)) = false).
    { destruct (Nat.eqb_spec t0 t) as [E|N]; simpl in R; [subst t0|]; auto.
      destruct (t_pc (thr s t)); simpl in *; try discriminate; auto. }
    destruct (r_pend _ _ M t0 o0 H0 K' R') as [p [F [O Q]]]. exists p. split; [|split; [auto|]].
    + destruct (Nat.eqb_spec t0 t) as [E|N]; simpl; [subst t0|]; auto.
    + eapply pinv_frame; eauto; try lia; upd_simpl.
      all: try (destruct (Nat.eqb_spec t0 t) as [E|N]; simpl; [subst t0|]; auto).
      all: try (rewrite (phase_ref _ _ Ph0), (phase_ref _ _ Ph1); reflexivity).
      all: try (destruct (t_pc (thr s t)); destruct p'; simpl in *; try discriminate; reflexivity).
      all: try (intros Hp; rewrite Hp in Ph1; discriminate).
      all: try (intros _ Hp; rewrite Hp, start_pc_phase in Ph0; discriminate).
      all: try (rewrite E4; auto).
      all: try (intros b0 Hb0; left; exact Hb0).
Qed.

Ltac thr_cases t0 t := destruct (Nat.eqb_spec t0 t) as [?E|?N]; simpl in *.

(* shared tail: kinds and cids are untouched by set_pc *)
Ltac kinds_same M t Ht :=
  match goal with
  | |- forall t0, _ -> is_client _ = false -> _ =>
      let t0 := fresh "t0" in let H0 := fresh in let H := fresh in
      intros t0 H0 H; destruct (Nat.eqb_spec t0 t) as [E|N]; simpl in H; [subst t0|]; apply (r_internal _ _ M _ H0 H)
  end.

(* final poll + on-end callbacks: the result is written *)
Lemma minv_end : forall s m m' t b ov,
  SInv s -> MInv s m -> t < nt s -> t_pc (thr s t) = PRbEnd b ov ->
  m_ncalls m' = m_ncalls m -> m_edits m' = m_edits m -> m_load m' = m_load m -> m_ret m' = m_ret m ->
  m_pend m' = m_pend m -> m_dispCalled m' = m_dispCalled m -> m_dispRet m' = m_dispRet m ->
  m_watchCalled m' = m_watchCalled m -> m_watchOk m' = m_watchOk m -> m_cancelCalled m' = m_cancelCalled m ->
  m_next m' = m_next m -> m_run m' = None -> m_loaded m' = false ->
  m_end m' = (b, b_cancel (blds s b)) :: m_end m ->
  MInv (set_pc (set_bld s b (mkBuild (b_owner (blds s b)) (b_cancel (blds s b))
                                     (Some (b_cancel (blds s b), ov)) (b_done (blds s b)))) t (PRbPublish b)) m'.
Proof.
  intros s m m' t b ov I M Ht Hpc E1 E2 E3 E4 E5 E6 E7 E8 E9 E10 En Er El Ee.
  assert (Ph0 : phase_of (t_pc (thr s t)) = Some b) by (rewrite Hpc; reflexivity).
  destruct (i_phase _ I t b Ht Ph0) as [Ha Ho].
  assert (Hoth : forall t0 b0, t0 < nt s -> t0 <> t -> phase_of (t_pc (thr s t0)) = Some b0 -> False).
  { intros t0 b0 H0 N P. destruct (i_phase _ I t0 b0 H0 P) as [A O]. rewrite Ha in A. inversion A; subst. congruence. }
  constructor; upd_simpl; rewrite ?E1, ?E2, ?E3, ?E4, ?E5, ?E6, ?E7, ?E8, ?E9, ?E10, ?En, ?Er, ?El, ?Ee.
  - apply (r_ncalls _ _ M).
  - apply (r_edits _ _ M).
  - rewrite (r_next _ _ M). unfold next_of, owner_pc. simpl. rewrite Ha, Nat.eqb_refl. simpl.
    rewrite Ho, Nat.eqb_refl, Hpc. reflexivity.
  - unfold run_of, owner_pc. simpl. rewrite Ha, Nat.eqb_refl. simpl. rewrite Ho, Nat.eqb_refl. reflexivity.
  - intros b0 c ov0 Hb Hr. simpl. destruct (Nat.eqb_spec b0 b) as [E|N]; simpl in Hr.
    + subst b0. inversion Hr as [[Hc Hov]]. rewrite <- Hov. split; [simpl; rewrite ?Nat.eqb_refl; auto|].
      apply (r_loadof _ _ M t b ov Ht). rewrite Hpc. destruct ov; reflexivity.
    + apply (r_result _ _ M b0 c ov0 Hb Hr).
  - apply (r_noload _ _ M).
  - intros t0 b0 H0 Hpe. destruct (Nat.eqb_spec t0 t) as [E|N]; simpl in Hpe; [discriminate|].
    exfalso. eapply (Hoth t0 b0); eauto. apply phase_pre_end; auto.
  - intros t0 b0 ov0 H0 Hlo. destruct (Nat.eqb_spec t0 t) as [E|N]; simpl in Hlo; [discriminate|].
    exfalso. eapply (Hoth t0 b0); eauto. eapply load_of_phase; eauto.
  - intros t0 b0 H0 Hp. destruct (Nat.eqb_spec t0 t) as [E|N]; simpl in Hp.
    + inversion Hp; subst b0. rewrite Nat.eqb_refl. simpl. discriminate.
    + exfalso. eapply Hoth; eauto. rewrite Hp. reflexivity.
  - intros b0 Hb H. destruct (Nat.eqb_spec b0 b) as [E|N]; simpl in *; [discriminate|].
    apply (r_hasres _ _ M b0 Hb H).
  - intros b0 H. destruct (r_ret _ _ M b0 H). destruct (Nat.eqb_spec b0 b) as [E|N]; simpl; [subst b0|]; auto.
  - apply (r_disposed _ _ M).
  - apply (r_dispret _ _ M).
  - apply (r_watch _ _ M).
  - apply (r_watchc _ _ M).
  - intros t0 H0 H. destruct (Nat.eqb_spec t0 t) as [E|N]; simpl in H; [subst t0|]; apply (r_internal _ _ M _ H0 H).
  - intros b0 Hb H. destruct (Nat.eqb_spec b0 b) as [E|N]; simpl in H; [subst b0|]; apply (r_cancel _ _ M _ Hb H).
  - intros t0 H0 H. destruct (Nat.eqb_spec t0 t) as [E|N]; simpl in H; [subst t0|]; apply (r_cancelk _ _ M _ H0 H).
  - intros t0 H0 H. destruct (Nat.eqb_spec t0 t) as [E|N]; simpl in H; [subst t0|]; apply (r_disposek _ _ M _ H0 H).
  - intros t0 H0 H. destruct (Nat.eqb_spec t0 t) as [E|N]; simpl in H; [subst t0|]; apply (r_watchk _ _ M _ H0 H).
  - intros t0 o0 H0 H. destruct (Nat.eqb_spec t0 t) as [E|N]; simpl in *; [subst t0|]; apply (r_cid _ _ M _ o0 H0 H).
  - intros t1 t2 H1 H2 K1 K2 C.
    apply (r_ciduniq _ _ M t1 t2 H1 H2).
    + destruct (Nat.eqb_spec t1 t) as [E|N]; simpl in K1; [subst t1|]; auto.
    + destruct (Nat.eqb_spec t2 t) as [E|N]; simpl in K2; [subst t2|]; auto.
    + destruct (Nat.eqb_spec t1 t) as [E|N]; destruct (Nat.eqb_spec t2 t) as [E'|N']; simpl in C; subst; auto.
  - intros t0 o0 H0 K R.
    assert (K' : t_kind (thr s t0) = KClient o0).
    { destruct (Nat.eqb_spec t0 t) as [E|N]; simpl in K; [subst t0|]; auto. }
    assert (R' : is_ret (t_pc (thr s t0)) = false).
    { destruct (Nat.eqb_spec t0 t) as [E|N]; simpl in R; [subst t0; rewrite Hpc; reflexivity|]; auto. }
    destruct (r_pend _ _ M t0 o0 H0 K' R') as [p [F [O Q]]]. exists p. split; [|split; [auto|]].
    + destruct (Nat.eqb_spec t0 t) as [E|N]; simpl; [subst t0|]; auto.
    + eapply pinv_frame; eauto; try lia; upd_simpl.
      all: try (destruct (Nat.eqb_spec t0 t) as [E|N]; simpl; [subst t0; rewrite Hpc|]; auto).
      all: try discriminate.
      all: try (intros _ Hp; destruct (p_op p); discriminate).
      all: try (rewrite E4; auto).
      all: try (intros b0 Hb0; left; exact Hb0).
      all: try (rewrite E3; intros b0 x Hx; left; exact Hx).
Qed.
