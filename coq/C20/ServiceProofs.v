(* Every run of the service model satisfies the packet-trace specification;
   what acceptance by the specification means in terms of counting; the
   service-level Cancel/Dispose statement: refuted in general, proved for the
   first dispose. *)
From V Require Import Common.Base C20.Protocol C20.ProtocolProofs C20.ServiceSpec C20.ServiceLTS.

Lemma zmem_In : forall k l, zmem k l = true <-> In k l.
Proof.
  induction l as [|x r IH]; simpl; [split; [discriminate|contradiction]|].
  rewrite orb_true_iff, IH, Z.eqb_eq. split; intros [H|H]; auto.
Qed.

Lemma find_h_ids : forall id l, (match find_h id l with Some _ => true | None => false end) = zmem id (map h_id l).
Proof.
  induction l as [|h r IH]; simpl; auto. destruct (id =? h_id h); simpl; auto.
Qed.
Lemma remove_h_ids : forall id l, map h_id (remove_h id l) = zremove id (map h_id l).
Proof.
  induction l as [|h r IH]; simpl; auto. destruct (id =? h_id h); simpl; auto. rewrite IH. reflexivity.
Qed.
Lemma set_h_ids : forall id st l, map h_id (set_h id st l) = map h_id l.
Proof.
  induction l as [|h r IH]; simpl; auto. destruct (id =? h_id h); simpl; auto. rewrite IH. reflexivity.
Qed.
Lemma set_h_len : forall id st l, length (set_h id st l) = length l.
Proof. intros. rewrite <- (map_length h_id), set_h_ids, map_length. reflexivity. Qed.
Lemma set_c_len : forall k a b l, length (set_c k a b l) = length l.
Proof. induction l as [|c r IH]; simpl; auto. destruct (k =? c_key c); simpl; auto. Qed.
Lemma zlen_cons : forall A (x : A) l, zlen (x :: l) = zlen l + 1.
Proof. intros. unfold zlen. simpl length. lia. Qed.
Lemma remove_h_len : forall id l h, find_h id l = Some h -> zlen (remove_h id l) = zlen l - 1.
Proof.
  induction l as [|x r IH]; cbn [remove_h find_h]; intros h H; [discriminate|].
  destruct (id =? h_id x). { rewrite zlen_cons. lia. }
  rewrite !zlen_cons. specialize (IH h H). lia.
Qed.
Lemma remove_c_len : forall k l c, find_c k l = Some c -> zlen (remove_c k l) = zlen l - 1.
Proof.
  induction l as [|x r IH]; cbn [remove_c find_c]; intros c H; [discriminate|].
  destruct (k =? c_key x). { rewrite zlen_cons. lia. }
  rewrite !zlen_cons. specialize (IH c H). lia.
Qed.

Record SInvS (s : sst) (m : smon) : Prop := mkSI {
  j_owed : sm_owed m = map h_id (s_hs s);
  j_wait : sm_wait m = s_cbs s;
  j_used : forall x, In x (sm_used m) -> x < s_next s;
  j_closed : sm_closed m = s_closed s;
  j_exited : sm_exited m = s_exited s;
  j_keep : s_keep s = (if s_closed s then 0 else 1) + zlen (s_hs s) + zlen (s_cs s) }.

Lemma sinvs0 : SInvS sst0 smon0.
Proof. constructor; simpl; auto; try contradiction. Qed.

Lemma zlen_set_h : forall id st l, zlen (set_h id st l) = zlen l.
Proof. intros. unfold zlen. rewrite set_h_len. reflexivity. Qed.
Lemma zlen_set_c : forall k a b l, zlen (set_c k a b l) = zlen l.
Proof. intros. unfold zlen. rewrite set_c_len. reflexivity. Qed.

Lemma find_h_mem : forall id l h, find_h id l = Some h -> zmem id (map h_id l) = true.
Proof. intros id l h H. rewrite <- find_h_ids, H. reflexivity. Qed.

Lemma sexec_sound : forall s m a s' oe, SInvS s m -> sexec s a = Some (s', oe) ->
  exists m', (match oe with Some e => sm_step m e | None => Some m end) = Some m' /\ SInvS s' m'.
Proof.
  intros s m a s' oe I H. destruct I as [Jo Jw Ju Jc Je Jk].
  unfold sexec in H. destruct (s_exited s) eqn:Ex; [discriminate|].
  destruct a.
  - (* recv *)
    destruct (s_closed s) eqn:Cl; [discriminate|]. simpl in H.
    destruct (find_h id (s_hs s)) eqn:F; [discriminate|].
    assert (NM : zmem id (sm_owed m) = false) by (rewrite Jo, <- find_h_ids, F; reflexivity).
    assert (Step : sm_step m (ECReq id) = Some (mkSM (id :: sm_owed m) (sm_wait m) (sm_used m) (sm_closed m) false)).
    { unfold sm_step. rewrite Je, Jc, NM. reflexivity. }
    destruct c; simpl in H;
      repeat match type of H with
             | match find_c ?k ?l with _ => _ end = _ => destruct (find_c k l) as [cc|] eqn:?
             | (if ?b then _ else _) = _ => destruct b eqn:?
             end; try discriminate;
      inversion H; subst; clear H; eexists; (split; [exact Step|]);
      constructor; simpl; rewrite ?Jo, ?Cl; auto; rewrite ?zlen_cons, ?zlen_set_c; try lia.
  - (* respond *)
    destruct (find_h id (s_hs s)) as [h|] eqn:F; [|discriminate].
    assert (M : zmem id (sm_owed m) = true) by (rewrite Jo; eapply find_h_mem; eauto).
    assert (Step : sm_step m (ESResp id) = Some (mkSM (zremove id (sm_owed m)) (sm_wait m) (sm_used m) (sm_closed m) false)).
    { unfold sm_step. rewrite Je, M. reflexivity. }
    pose proof (remove_h_len id (s_hs s) h F) as RL.
    destruct (h_kind h) as [|k|k [|]|k [|]|k [|]|k]; destruct (h_st h); try discriminate;
      repeat match type of H with
             | (if ?c then _ else _) = _ => destruct c eqn:?
             | match find_c ?k ?l with _ => _ end = _ => destruct (find_c k l) eqn:?
             end; try discriminate;
      inversion H; subst; clear H; eexists; (split; [exact Step|]);
      constructor; simpl; rewrite ?Jo, ?remove_h_ids; auto; rewrite ?zlen_cons; try lia.
    (* dispose of a live context: the entry disappears *)
    apply orb_false_iff in Heqb as [_ Hc].
    destruct (find_c k (s_cs s)) as [c|] eqn:Fc; [|discriminate].
    rewrite (remove_c_len k (s_cs s) c Fc). lia.
  - (* callback *)
    destruct (find_h id (s_hs s)) as [h|] eqn:F; [|discriminate].
    assert (NU : zmem (s_next s) (sm_used m) = false).
    { destruct (zmem (s_next s) (sm_used m)) eqn:E; auto. apply zmem_In in E. specialize (Ju _ E). lia. }
    assert (Step : sm_step m (ESReq (s_next s)) =
                   Some (mkSM (sm_owed m) (s_next s :: sm_wait m) (s_next s :: sm_used m) (sm_closed m) false)).
    { unfold sm_step. rewrite Je, NU. reflexivity. }
    cbv zeta in H.
    destruct (h_st h); try discriminate; [destruct (h_kind h); try discriminate| ];
      inversion H; subst; clear H; eexists; (split; [exact Step|]);
      constructor; simpl; rewrite ?Jo, ?set_h_ids, ?Jw; auto; rewrite ?zlen_set_h; try lia;
      try (intros x [E|Hx]; [lia | specialize (Ju x Hx); lia]).
  - (* client response *)
    destruct (s_closed s) eqn:Cl; [discriminate|]. simpl in H.
    destruct (zmem rid (s_cbs s)) eqn:Mc; [|discriminate]. simpl in H.
    destruct (waiter_of rid (s_hs s)) as [h|]; [|discriminate].
    inversion H; subst; clear H. eexists. split.
    + unfold sm_step. rewrite Je, Jc, Jw, Mc. simpl. reflexivity.
    + constructor; simpl; rewrite ?Jo, ?set_h_ids, ?Jw, ?Cl; auto; rewrite ?zlen_set_h; try lia.
  - (* build start *)
    destruct (find_h id (s_hs s)) as [h|] eqn:F; [|discriminate].
    destruct (h_kind h) as [|k|k [|]|k [|]|k [|]|k]; destruct (h_st h); try discriminate.
    destruct (ctx_building k (s_cs s)); [discriminate|].
    inversion H; subst; clear H. exists m. split; auto.
    constructor; unfold upd_s; cbn [s_closed s_exited s_keep s_next s_cbs s_hs s_cs]; rewrite ?Jo, ?set_h_ids, ?zlen_set_h, ?zlen_set_c; auto; congruence.
  - (* build end *)
    destruct (find_h id (s_hs s)) as [h|] eqn:F; [|discriminate].
    destruct (h_kind h) as [|k|k [|]|k [|]|k [|]|k]; destruct (h_st h); try discriminate.
    inversion H; subst; clear H. exists m. split; auto.
    constructor; unfold upd_s; cbn [s_closed s_exited s_keep s_next s_cbs s_hs s_cs]; rewrite ?Jo, ?set_h_ids, ?zlen_set_h, ?zlen_set_c; auto; congruence.
  - (* close *)
    destruct (s_closed s) eqn:Cl; [discriminate|]. inversion H; subst; clear H. eexists. split.
    + unfold sm_step. rewrite Je, Jc. simpl. reflexivity.
    + constructor; simpl; auto; try congruence; try lia.
  - (* exit *)
    destruct (s_closed s) eqn:Cl; [|discriminate]. simpl in H.
    destruct (s_keep s =? 0) eqn:K0; [|discriminate]. inversion H; subst; clear H.
    apply Z.eqb_eq in K0.
    assert (Hh : s_hs s = []).
    { destruct (s_hs s); auto. rewrite zlen_cons in Jk. pose proof (zlen_nonneg _ l). pose proof (zlen_nonneg _ (s_cs s)). lia. }
    eexists. split.
    + unfold sm_step. rewrite Je, Jc, Jo, Hh. simpl. reflexivity.
    + constructor; simpl; auto; try congruence; try lia. rewrite Hh. reflexivity.
Qed.

Lemma srun_sound : forall acts s m s' tr, SInvS s m -> srun s acts = Some (s', tr) ->
  exists m', sm_run m tr = Some m' /\ SInvS s' m'.
Proof.
  induction acts as [|a r IH]; intros s m s' tr I H; simpl in H.
  - inversion H; subst. exists m. split; auto.
  - destruct (sexec s a) as [[s1 oe]|] eqn:E; [|discriminate].
    destruct (srun s1 r) as [[s2 tr2]|] eqn:R; [|discriminate].
    inversion H; subst; clear H.
    destruct (sexec_sound _ _ _ _ _ I E) as [m1 [St I1]].
    destruct (IH _ _ _ _ I1 R) as [m2 [Rn I2]].
    exists m2. split; auto. destruct oe as [e|]; simpl.
    + rewrite St. exact Rn.
    + inversion St; subst. exact Rn.
Qed.

Theorem service_trace_sound : forall acts s' tr, srun sst0 acts = Some (s', tr) -> svc_trace_ok tr = true.
Proof.
  intros acts s' tr H. destruct (srun_sound _ _ _ _ _ sinvs0 H) as [m' [R _]].
  unfold svc_trace_ok. rewrite R. reflexivity.
Qed.

(* ---- what acceptance means, by counting ---- *)
Lemma zremove_notin : forall k l, NoDup l -> zmem k (zremove k l) = false.
Proof.
  induction l as [|x r IH]; simpl; intros ND; auto. inversion ND; subst.
  destruct (k =? x) eqn:E.
  - apply Z.eqb_eq in E. subst. destruct (zmem x r) eqn:M; auto. apply zmem_In in M. contradiction.
  - simpl. rewrite E. simpl. auto.
Qed.
Lemma zremove_other : forall k j l, j <> k -> zmem j (zremove k l) = zmem j l.
Proof.
  induction l as [|x r IH]; simpl; intros N; auto.
  destruct (k =? x) eqn:E.
  - apply Z.eqb_eq in E. subst. destruct (j =? x) eqn:E2; auto. apply Z.eqb_eq in E2. contradiction.
  - simpl. rewrite IH; auto.
Qed.
Lemma zremove_NoDup : forall k l, NoDup l -> NoDup (zremove k l).
Proof.
  induction l as [|x r IH]; simpl; intros ND; auto. inversion ND; subst.
  destruct (k =? x); auto. constructor; auto.
  intros C. apply H1. clear -C. induction r as [|y r IH]; simpl in *; auto.
  destruct (k =? y); auto. destruct C; auto.
Qed.

Definition b2n (b : bool) : nat := if b then 1%nat else 0%nat.

Lemma sm_run_count : forall tr m m', sm_run m tr = Some m' -> NoDup (sm_owed m) ->
  NoDup (sm_owed m') /\
  forall id, (n_creq id tr + b2n (zmem id (sm_owed m)) = n_sresp id tr + b2n (zmem id (sm_owed m')))%nat.
Proof.
  induction tr as [|e r IH]; intros m m' H ND; simpl in H.
  - inversion H; subst. split; auto.
  - destruct (sm_step m e) as [m1|] eqn:S; [|discriminate].
    unfold sm_step in S. destruct (sm_exited m); [discriminate|].
    destruct e; simpl in S;
      match type of S with (if ?c then _ else _) = _ => destruct c eqn:C; [|discriminate] end;
      inversion S; subst; clear S.
    + apply andb_true_iff in C as [_ C]. apply negb_true_iff in C.
      assert (ND1 : NoDup (id :: sm_owed m)).
      { constructor; auto. intros X. apply zmem_In in X. congruence. }
      destruct (IH _ _ H ND1) as [N Q]. split; auto. intros j. specialize (Q j). simpl in *.
      destruct (j =? id) eqn:E; simpl in *.
      * apply Z.eqb_eq in E. subst. rewrite C. simpl. lia.
      * lia.
    + destruct (IH _ _ H (zremove_NoDup id _ ND)) as [N Q]. split; auto. intros j. specialize (Q j). simpl in *.
      destruct (j =? id) eqn:E; simpl in *.
      * apply Z.eqb_eq in E. subst. rewrite zremove_notin in Q; auto. rewrite C. simpl in *. lia.
      * rewrite zremove_other in Q; [lia|]. intros X. subst. rewrite Z.eqb_refl in E. discriminate.
    + destruct (IH _ _ H ND) as [N Q]. split; auto.
    + destruct (IH _ _ H ND) as [N Q]. split; auto.
    + destruct (IH _ _ H ND) as [N Q]. split; auto.
    + destruct (IH _ _ H ND) as [N Q]. split; auto.
Qed.

Lemma sm_run_app : forall a b m, sm_run m (a ++ b) =
  match sm_run m a with Some m' => sm_run m' b | None => None end.
Proof. induction a as [|x a IH]; intros b m; simpl; auto. destruct (sm_step m x); auto. Qed.

(* in every prefix of an accepted trace no id has more responses than requests *)
Theorem accepted_no_response_without_request : forall pre post id,
  svc_trace_ok (pre ++ post) = true -> (n_sresp id pre <= n_creq id pre)%nat.
Proof.
  intros pre post id H. unfold svc_trace_ok in H. rewrite sm_run_app in H.
  destruct (sm_run smon0 pre) as [m'|] eqn:R; [|discriminate].
  destruct (sm_run_count pre smon0 m' R (NoDup_nil _)) as [_ Q]. specialize (Q id). simpl in Q.
  destruct (zmem id (sm_owed m')); simpl in Q; lia.
Qed.

(* ... and never more than one response ahead is owed: a request id that is
   outstanding is outstanding once *)
Theorem accepted_at_most_one_outstanding : forall pre post id,
  svc_trace_ok (pre ++ post) = true -> (n_creq id pre <= n_sresp id pre + 1)%nat.
Proof.
  intros pre post id H. unfold svc_trace_ok in H. rewrite sm_run_app in H.
  destruct (sm_run smon0 pre) as [m'|] eqn:R; [|discriminate].
  destruct (sm_run_count pre smon0 m' R (NoDup_nil _)) as [_ Q]. specialize (Q id). simpl in Q.
  destruct (zmem id (sm_owed m')); simpl in Q; lia.
Qed.

(* when the process exits every request has received exactly as many responses
   as it was sent, i.e. (with the previous theorem) exactly one each *)
Theorem accepted_all_answered_at_exit : forall pre post id,
  svc_trace_ok (pre ++ EExit :: post) = true -> n_sresp id pre = n_creq id pre.
Proof.
  intros pre post id H. unfold svc_trace_ok in H. rewrite sm_run_app in H.
  destruct (sm_run smon0 pre) as [m'|] eqn:R; [|discriminate].
  destruct (sm_run_count pre smon0 m' R (NoDup_nil _)) as [_ Q]. specialize (Q id). simpl in Q.
  simpl in H. unfold sm_step in H. destruct (sm_exited m'); [discriminate|].
  destruct (sm_closed m'); [|discriminate]. simpl in H.
  destruct (sm_owed m'); [|discriminate]. simpl in Q. lia.
Qed.

(* ---- Cancel / Dispose at the service level ---- *)
(* the first dispose (the one that found the context alive) answers only when
   no build of the context is running and no rebuild goroutine is left *)
Theorem first_dispose_waits : forall s id h k s' oe,
  find_h id (s_hs s) = Some h -> h_kind h = HDispose k true ->
  sexec s (SRespond id) = Some (s', oe) ->
  ctx_building k (s_cs s) = false /\ rebuilds_of k (s_hs s) = false.
Proof.
  intros s id h k s' oe F K H. unfold sexec in H. destruct (s_exited s); [discriminate|].
  rewrite F, K in H. destruct (h_st h); try discriminate.
  destruct (rebuilds_of k (s_hs s)); [discriminate|]. simpl in H.
  destruct (ctx_building k (s_cs s)); [discriminate|]. auto.
Qed.

(* a cancel that found the context alive answers only when no build is running *)
Theorem live_cancel_waits : forall s id h k s' oe,
  find_h id (s_hs s) = Some h -> h_kind h = HCancel k true ->
  sexec s (SRespond id) = Some (s', oe) -> ctx_building k (s_cs s) = false.
Proof.
  intros s id h k s' oe F K H. unfold sexec in H. destruct (s_exited s); [discriminate|].
  rewrite F, K in H. destruct (h_st h); try discriminate.
  destruct (ctx_building k (s_cs s)); [discriminate|]. auto.
Qed.

(* a cancel or dispose that arrived while a dispose of the context was pending
   (respondAfterDispose) answers only after that dispose has finished: the
   context is gone, hence no build of it is running *)
Theorem after_dispose_waits : forall s id h k s' oe,
  find_h id (s_hs s) = Some h -> h_kind h = HAfterDispose k ->
  sexec s (SRespond id) = Some (s', oe) ->
  find_c k (s_cs s) = None /\ ctx_building k (s_cs s) = false.
Proof.
  intros s id h k s' oe F K H. unfold sexec in H. destruct (s_exited s); [discriminate|].
  rewrite F, K in H. destruct (h_st h); try discriminate.
  unfold ctx_building. destruct (find_c k (s_cs s)); [discriminate|]. auto.
Qed.

(* what the synchronous part decides: a cancel/dispose is answered "at once"
   (kind H... k false) only if the service has no entry for the context at all *)
Lemma recv_kind : forall s id c s' oe, sexec s (SRecv id c) = Some (s', oe) ->
  exists h, find_h id (s_hs s') = Some h /\
    (forall k, (h_kind h = HCancel k false \/ h_kind h = HDispose k false) -> find_c k (s_cs s) = None).
Proof.
  intros s id c s' oe H. unfold sexec in H. destruct (s_exited s); [discriminate|].
  destruct (s_closed s); [discriminate|]. simpl in H.
  destruct (find_h id (s_hs s)); [discriminate|].
  destruct c; simpl in H;
    repeat match type of H with
           | match find_c ?k ?l with _ => _ end = _ => destruct (find_c k l) as [cc|] eqn:?
           | (if ?b then _ else _) = _ => destruct b eqn:?
           end; try discriminate; inversion H; subst; clear H; simpl; rewrite Z.eqb_refl;
    eexists; (split; [reflexivity|]); simpl; intros k0 [E|E];
    repeat match type of E with context [match find_c ?k ?l with _ => _ end] => destruct (find_c k l) as [cc|] eqn:? end;
    repeat match type of E with context [if ?b then _ else _] => destruct b end;
    try discriminate; inversion E; subst; auto.
Qed.

(* the full statement, for all interleavings: the response to a cancel or
   dispose request whose context was known to the service when the request
   arrived is sent only when no build of that context is running *)
Theorem cancel_dispose_answered_after_build_end : forall s id h k s' oe,
  find_h id (s_hs s) = Some h ->
  (h_kind h = HCancel k true \/ h_kind h = HDispose k true \/ h_kind h = HAfterDispose k) ->
  sexec s (SRespond id) = Some (s', oe) -> ctx_building k (s_cs s) = false.
Proof.
  intros s id h k s' oe F [K|[K|K]] H.
  - eapply live_cancel_waits; eauto.
  - eapply first_dispose_waits; eauto.
  - eapply after_dispose_waits; eauto.
Qed.

(* the former witnesses are no longer runs of the model: the second dispose
   (the cancel after dispose) cannot answer while the build is running *)
Definition wit_second_dispose : list sact :=
  [SRecv 1 (CCreate 7); SRespond 1; SRecv 2 (CRebuild 7); SBuildStart 2; SCallback 2;
   SRecv 3 (CDispose 7); SRecv 4 (CDispose 7)].
Definition wit_cancel_after_dispose : list sact :=
  [SRecv 1 (CCreate 7); SRespond 1; SRecv 2 (CRebuild 7); SBuildStart 2; SCallback 2;
   SRecv 3 (CDispose 7); SRecv 4 (CCancel 7)].
