From V Require Import Common.Base C20.CtxLTS C20.CtxSpec C20.CtxProofs.
From V Require Import C20.CtxMonA.
Local Close Scope Z_scope.
Local Open Scope nat_scope.

(* second critical section: activeBuild = nil *)
Lemma minv_publish : forall s m t b rc,
  SInv s -> MInv s m -> t < nt s -> t_pc (thr s t) = PRbPublish b ->
  MInv (set_pc (mkState (disposed s) None rc (watcher s) (wtid s) (stopFlag s) (wexited s)
                        (edits s) (nb s) (blds s) (nt s) (thr s) (ncalls s)) t (PRbDone b)) m.
Proof.
  intros s m t b rc I M Ht Hpc.
  assert (Ph0 : phase_of (t_pc (thr s t)) = Some b) by (rewrite Hpc; reflexivity).
  destruct (i_phase _ I t b Ht Ph0) as [Ha Ho].
  pose proof (i_act_nb _ I b Ha) as Hnb.
  assert (Hoth : forall t0 b0, t0 < nt s -> t0 <> t -> phase_of (t_pc (thr s t0)) = Some b0 -> False).
  { intros t0 b0 H0 N P. destruct (i_phase _ I t0 b0 H0 P) as [A O]. rewrite Ha in A. inversion A; subst. congruence. }
  constructor; upd_simpl.
  - apply (r_ncalls _ _ M).
  - apply (r_edits _ _ M).
  - rewrite (r_next _ _ M). unfold next_of, owner_pc. simpl. rewrite Ha, Ho, Hpc. auto.
  - rewrite (r_run _ _ M). unfold run_of, owner_pc. simpl. rewrite Ha, Ho, Hpc. auto.
  - apply (r_result _ _ M).
  - apply (r_noload _ _ M).
  - intros t0 b0 H0 Hpe. destruct (Nat.eqb_spec t0 t) as [E|N]; simpl in Hpe; [discriminate|].
    exfalso. eapply (Hoth t0 b0); eauto. apply phase_pre_end; auto.
  - intros t0 b0 ov0 H0 Hlo. destruct (Nat.eqb_spec t0 t) as [E|N]; simpl in Hlo; [discriminate|].
    exfalso. eapply (Hoth t0 b0); eauto. eapply load_of_phase; eauto.
  - intros t0 b0 H0 Hp. destruct (Nat.eqb_spec t0 t) as [E|N]; simpl in Hp; [discriminate|].
    exfalso. eapply (Hoth t0 b0); eauto. rewrite Hp. reflexivity.
  - intros b0 Hb _. destruct (Nat.eq_dec b0 b) as [E|N].
    + subst b0. apply (r_pubres _ _ M t b Ht Hpc).
    + apply (r_hasres _ _ M b0 Hb). right. rewrite Ha. congruence.
  - apply (r_ret _ _ M).
  - apply (r_disposed _ _ M).
  - intros H. destruct (r_dispret _ _ M H). split; auto.
  - apply (r_watch _ _ M).
  - apply (r_watchc _ _ M).
  - intros t0 H0 H. destruct (Nat.eqb_spec t0 t) as [E|N]; simpl in H; [subst t0|]; apply (r_internal _ _ M _ H0 H).
  - apply (r_cancel _ _ M).
  - intros t0 H0 H. destruct (Nat.eqb_spec t0 t) as [E|N]; simpl in H; [subst t0|]; apply (r_cancelk _ _ M _ H0 H).
  - intros t0 H0 H. destruct (Nat.eqb_spec t0 t) as [E|N]; simpl in H; [subst t0|]; apply (r_disposek _ _ M _ H0 H).
  - intros t0 H0 H. destruct (Nat.eqb_spec t0 t) as [E|N]; simpl in H; [subst t0|]; apply (r_watchk _ _ M _ H0 H).
  - intros t0 o0 H0 H. destruct (Nat.eqb_spec t0 t) as [E|N]; simpl in *; [subst t0|]; apply (r_cid _ _ M _ o0 H0 H).
  - intros t1 t2 H1 H2 K1 K2 C.
    apply (r_ciduniq _ _ M t1 t2 H1 H2).
    + destruct (Nat.eqb_spec t1 t) as [E|N]; simpl in K1; [subst t1|]; auto.
    + destruct (Nat.eqb_spec t2 t) as [E|N]; simpl in K2; [subst t2|]; auto.
    + destruct (Nat.eqb_spec t1 t) as [E|N]; destruct (Nat.eqb_spec t2 t) as [E'|N']; simpl in C; subst; auto.
  - intros t0 o0 H0 K R.
    assert (K' : t_kind (thr s t0) = KClient o0).
    { destruct (Nat.eqb_spec t0 t) as [E|N]; simpl in K; [subst t0|]; auto. }
    assert (R' : is_ret (t_pc (thr s t0)) = false).
    { destruct (Nat.eqb_spec t0 t) as [E|N]; simpl in R; [subst t0; rewrite Hpc; reflexivity|]; auto. }
    destruct (r_pend _ _ M t0 o0 H0 K' R') as [p [F [O Q]]]. exists p. split; [|split; [auto|]].
    + destruct (Nat.eqb_spec t0 t) as [E|N]; simpl; [subst t0|]; auto.
    + eapply pinv_frame; eauto; try lia; upd_simpl.
      all: try (destruct (Nat.eqb_spec t0 t) as [E|N]; simpl; [subst t0; rewrite Hpc|]; auto).
      all: try discriminate.
      all: try (intros _ Hp; destruct (p_op p); discriminate).
      all: try (intros b0 Hb0; discriminate).
Qed.

(* waitGroup.Done(): the build is over; the owner returns (or, as the watcher goroutine, loops) *)
Lemma minv_done : forall s m m' t b p',
  SInv s -> MInv s m -> t < nt s -> t_pc (thr s t) = PRbDone b ->
  phase_of p' = None ->
  (is_client (t_kind (thr s t)) = true -> is_ret p' = true) ->
  m_ncalls m' = m_ncalls m -> m_next m' = m_next m -> m_run m' = m_run m -> m_loaded m' = m_loaded m ->
  m_load m' = m_load m -> m_end m' = m_end m -> m_edits m' = m_edits m ->
  m_dispCalled m' = m_dispCalled m -> m_dispRet m' = m_dispRet m -> m_watchCalled m' = m_watchCalled m ->
  m_watchOk m' = m_watchOk m -> m_cancelCalled m' = m_cancelCalled m ->
  (is_client (t_kind (thr s t)) = true -> forall c, c <> t_cid (thr s t) -> find_pend c (m_pend m') = find_pend c (m_pend m)) ->
  (is_client (t_kind (thr s t)) = false -> m_pend m' = m_pend m) ->
  (forall b0, mem b0 (m_ret m) = true -> mem b0 (m_ret m') = true) ->
  (forall b0, mem b0 (m_ret m') = true -> mem b0 (m_ret m) = true \/ b0 = b) ->
  MInv (set_pc (set_bld s b (mkBuild (b_owner (blds s b)) (b_cancel (blds s b)) (b_result (blds s b)) true)) t p') m'.
Proof.
  intros s m m' t b p' I M Ht Hpc P1 Hcl E1 E2 E3 E4 E5 E6 E7 E8 E9 E10 E11 E12 Ep Ep2 Hr1 Hr2.
  assert (Hd : done_of (t_pc (thr s t)) = Some b) by (rewrite Hpc; reflexivity).
  destruct (i_donepc _ I t b Ht Hd) as [Hb [Ho [Hud Hna]]].
  assert (P0 : phase_of (t_pc (thr s t)) = None) by (rewrite Hpc; reflexivity).
  constructor; rewrite ?E1, ?E2, ?E3, ?E4, ?E5, ?E6, ?E7, ?E8, ?E9, ?E10, ?E11, ?E12.
  - apply (r_ncalls _ _ M).
  - apply (r_edits _ _ M).
  - rewrite (r_next _ _ M). unfold next_of, owner_pc. upd_simpl. destruct (active s) eqn:A; auto.
    destruct (Nat.eqb_spec n b) as [E|N]; [subst; congruence|].
    destruct (Nat.eqb_spec (b_owner (blds s n)) t) as [E|N2]; auto.
    exfalso; eapply owner_not; eauto.
  - rewrite (r_run _ _ M). unfold run_of, owner_pc. upd_simpl. destruct (active s) eqn:A; auto.
    destruct (Nat.eqb_spec n b) as [E|N]; [subst; congruence|].
    destruct (Nat.eqb_spec (b_owner (blds s n)) t) as [E|N2]; auto.
    exfalso; eapply owner_not; eauto.
  - upd_simpl. intros b0 c ov Hb0 Hr. destruct (Nat.eqb_spec b0 b) as [E|N]; simpl in Hr; [subst b0|]; apply (r_result _ _ M _ c ov Hb0 Hr).
  - apply (r_noload _ _ M).
  - upd_simpl. intros t0 b0 H0 Hpe. destruct (Nat.eqb_spec t0 t) as [E|N]; simpl in Hpe.
    + apply phase_pre_end in Hpe. congruence.
    + pose proof (r_preend _ _ M t0 b0 H0 Hpe) as R. destruct (Nat.eqb_spec b0 b) as [E|N2]; simpl; [subst b0|]; auto.
  - upd_simpl. intros t0 b0 ov H0 Hlo. destruct (Nat.eqb_spec t0 t) as [E|N]; simpl in Hlo.
    + apply load_of_phase in Hlo. congruence.
    + apply (r_loadof _ _ M t0 b0 ov H0 Hlo).
  - upd_simpl. intros t0 b0 H0 Hp. destruct (Nat.eqb_spec t0 t) as [E|N]; simpl in Hp.
    + rewrite Hp in P1. discriminate.
    + pose proof (r_pubres _ _ M t0 b0 H0 Hp) as R. destruct (Nat.eqb_spec b0 b) as [E|N2]; simpl; [subst b0|]; auto.
  - upd_simpl. intros b0 Hb0 H. destruct (Nat.eqb_spec b0 b) as [E|N]; simpl in *.
    + subst b0. apply (r_hasres _ _ M b Hb). right. auto.
    + apply (r_hasres _ _ M b0 Hb0 H).
  - upd_simpl. intros b0 H. destruct (Hr2 b0 H) as [H1|H1].
    + destruct (r_ret _ _ M b0 H1). destruct (Nat.eqb_spec b0 b); simpl; auto.
    + subst b0. rewrite Nat.eqb_refl. simpl. auto.
  - apply (r_disposed _ _ M).
  - apply (r_dispret _ _ M).
  - apply (r_watch _ _ M).
  - apply (r_watchc _ _ M).
  - upd_simpl. intros t0 H0 H. destruct (Nat.eqb_spec t0 t) as [E|N]; simpl in H; [subst t0|]; apply (r_internal _ _ M _ H0 H).
  - upd_simpl. intros b0 Hb0 H. destruct (Nat.eqb_spec b0 b) as [E|N]; simpl in H; [subst b0|]; apply (r_cancel _ _ M _ Hb0 H).
  - upd_simpl. intros t0 H0 H. destruct (Nat.eqb_spec t0 t) as [E|N]; simpl in H; [subst t0|]; apply (r_cancelk _ _ M _ H0 H).
  - upd_simpl. intros t0 H0 H. destruct (Nat.eqb_spec t0 t) as [E|N]; simpl in H; [subst t0|]; apply (r_disposek _ _ M _ H0 H).
  - upd_simpl. intros t0 H0 H. destruct (Nat.eqb_spec t0 t) as [E|N]; simpl in H; [subst t0|]; apply (r_watchk _ _ M _ H0 H).
  - upd_simpl. intros t0 o0 H0 H. destruct (Nat.eqb_spec t0 t) as [E|N]; simpl in *; [subst t0|]; apply (r_cid _ _ M _ o0 H0 H).
  - upd_simpl. intros t1 t2 H1 H2 K1 K2 C.
    apply (r_ciduniq _ _ M t1 t2 H1 H2).
    + destruct (Nat.eqb_spec t1 t) as [E|N]; simpl in K1; [subst t1|]; auto.
    + destruct (Nat.eqb_spec t2 t) as [E|N]; simpl in K2; [subst t2|]; auto.
    + destruct (Nat.eqb_spec t1 t) as [E|N]; destruct (Nat.eqb_spec t2 t) as [E'|N']; simpl in C; subst; auto.
  - upd_simpl. intros t0 o0 H0 K R. destruct (Nat.eqb_spec t0 t) as [E|N]; simpl in *.
    + rewrite K in Hcl. simpl in Hcl. rewrite (Hcl eq_refl) in R. discriminate.
    + destruct (r_pend _ _ M t0 o0 H0 K R) as [p [F [O Q]]]. exists p. split; [|split; [auto|]].
      * destruct (is_client (t_kind (thr s t))) eqn:Ck.
        -- rewrite Ep; auto. intros C. apply N. apply (r_ciduniq _ _ M t0 t H0 Ht); auto. rewrite K; reflexivity.
        -- rewrite Ep2; auto.
      * eapply pinv_frame_same; eauto; try lia.
        all: try (upd_simpl; destruct (Nat.eqb_spec t0 t); [congruence|reflexivity]).
        all: try (rewrite E5; intros b0 x Hx; left; exact Hx).
        all: try (intros b0 Hb0; left; exact Hb0).
Qed.

(* first critical section: a new build is allocated *)
Lemma minv_alloc : forall s m t,
  SInv s -> MInv s m -> t < nt s -> t_pc (thr s t) = PRbStart -> active s = None -> disposed s = false ->
  MInv (set_pc (mkState false (Some (nb s)) (recent s) (watcher s) (wtid s) (stopFlag s) (wexited s)
                        (edits s) (S (nb s)) (upd (blds s) (nb s) (mkBuild t false None false))
                        (nt s) (thr s) (ncalls s)) t (PRbOnStart (nb s))) m.
Proof.
  intros s m t I M Ht Hpc Ha Hdis.
  assert (Hn : m_next m = nb s). { rewrite (r_next _ _ M). unfold next_of. rewrite Ha. reflexivity. }
  assert (Hoth : forall t0 b0, t0 < nt s -> phase_of (t_pc (thr s t0)) = Some b0 -> False).
  { intros t0 b0 H0 P. destruct (i_phase _ I t0 b0 H0 P) as [A O]. congruence. }
  constructor; upd_simpl.
  - apply (r_ncalls _ _ M).
  - apply (r_edits _ _ M).
  - rewrite Hn. unfold next_of, owner_pc. simpl. repeat (rewrite Nat.eqb_refl; simpl). reflexivity.
  - rewrite (r_run _ _ M). unfold run_of, owner_pc. simpl. rewrite Ha. repeat (rewrite Nat.eqb_refl; simpl). reflexivity.
  - intros b0 c ov Hb Hr. destruct (Nat.eqb_spec b0 (nb s)) as [E|N]; simpl in Hr; [discriminate|].
    apply (r_result _ _ M b0 c ov); auto. lia.
  - apply (r_noload _ _ M).
  - intros t0 b0 H0 Hpe. destruct (Nat.eqb_spec t0 t) as [E|N]; simpl in Hpe.
    + inversion Hpe; subst b0. rewrite Nat.eqb_refl. reflexivity.
    + exfalso. eapply (Hoth t0 b0); eauto. apply phase_pre_end; auto.
  - intros t0 b0 ov H0 Hlo. destruct (Nat.eqb_spec t0 t) as [E|N]; simpl in Hlo.
    + inversion Hlo; subst. apply (r_noload _ _ M). lia.
    + exfalso. eapply (Hoth t0 b0); eauto. eapply load_of_phase; eauto.
  - intros t0 b0 H0 Hp. destruct (Nat.eqb_spec t0 t) as [E|N]; simpl in Hp; [discriminate|].
    exfalso. eapply (Hoth t0 b0); eauto. rewrite Hp. reflexivity.
  - intros b0 Hb H. destruct (Nat.eqb_spec b0 (nb s)) as [E|N]; simpl in *.
    + subst b0. destruct H as [H|H]; [discriminate|congruence].
    + apply (r_hasres _ _ M b0); [lia|]. right. rewrite Ha. discriminate.
  - intros b0 H. destruct (r_ret _ _ M b0 H). destruct (Nat.eqb_spec b0 (nb s)); [lia|]. split; auto.
  - discriminate.
  - intros H. destruct (r_dispret _ _ M H). congruence.
  - apply (r_watch _ _ M).
  - apply (r_watchc _ _ M).
  - intros t0 H0 H. destruct (Nat.eqb_spec t0 t) as [E|N]; simpl in H; [subst t0|]; apply (r_internal _ _ M _ H0 H).
  - intros b0 Hb H. destruct (Nat.eqb_spec b0 (nb s)) as [E|N]; simpl in H; [discriminate|].
    apply (r_cancel _ _ M b0); auto. lia.
  - intros t0 H0 H. destruct (Nat.eqb_spec t0 t) as [E|N]; simpl in H; [subst t0|]; apply (r_cancelk _ _ M _ H0 H).
  - intros t0 H0 H. destruct (Nat.eqb_spec t0 t) as [E|N]; simpl in H; [subst t0|]; apply (r_disposek _ _ M _ H0 H).
  - intros t0 H0 H. destruct (Nat.eqb_spec t0 t) as [E|N]; simpl in H; [subst t0|]; apply (r_watchk _ _ M _ H0 H).
  - intros t0 o0 H0 H. destruct (Nat.eqb_spec t0 t) as [E|N]; simpl in *; [subst t0|]; apply (r_cid _ _ M _ o0 H0 H).
  - intros t1 t2 H1 H2 K1 K2 C.
    apply (r_ciduniq _ _ M t1 t2 H1 H2).
    + destruct (Nat.eqb_spec t1 t) as [E|N]; simpl in K1; [subst t1|]; auto.
    + destruct (Nat.eqb_spec t2 t) as [E|N]; simpl in K2; [subst t2|]; auto.
    + destruct (Nat.eqb_spec t1 t) as [E|N]; destruct (Nat.eqb_spec t2 t) as [E'|N']; simpl in C; subst; auto.
  - intros t0 o0 H0 K R.
    assert (K' : t_kind (thr s t0) = KClient o0).
    { destruct (Nat.eqb_spec t0 t) as [E|N]; simpl in K; [subst t0|]; auto. }
    assert (R' : is_ret (t_pc (thr s t0)) = false).
    { destruct (Nat.eqb_spec t0 t) as [E|N]; simpl in R; [subst t0; rewrite Hpc; reflexivity|]; auto. }
    destruct (r_pend _ _ M t0 o0 H0 K' R') as [p [F [O Q]]]. exists p. split; [|split; [auto|]].
    + destruct (Nat.eqb_spec t0 t) as [E|N]; simpl; [subst t0|]; auto.
    + destruct (Nat.eqb_spec t0 t) as [E|N]; simpl.
      * subst t0.
        assert (Oo : o0 = OpRebuild).
        { pose proof (i_kind _ I t Ht) as Kk. rewrite Hpc, K' in Kk. destruct o0; simpl in Kk; try discriminate; auto. }
        destruct Q as [Q1 Q2 Q3 Q4 Q5 Q6 Q7 Q8 Q9 Q10]. constructor; upd_simpl; rewrite ?Nat.eqb_refl; simpl; auto.
        -- intros H. destruct (Q4 H). congruence.
        -- intros b0 Hb0. inversion Hb0; subst b0.
           destruct (mem (nb s) (p_ret p)) eqn:Mm; auto.
           apply Q3 in Mm. destruct (r_ret _ _ M _ Mm). lia.
        -- intros _ _ Hx. discriminate.
        -- intros _ _ b0 Hb0. inversion Hb0; subst b0. lia.
        -- intros Hc. rewrite O, Oo in Hc. discriminate.
        -- intros ob Hx. discriminate.
      * eapply pinv_frame_same; eauto; try lia.
        all: try (upd_simpl; destruct (Nat.eqb_spec t0 t); [congruence|reflexivity]).
        all: try (simpl; intros Hx; congruence).
        all: try (simpl; intros b0 Hb0; inversion Hb0; subst b0; right; split; auto; lia).
        all: try (intros b0 x Hx; left; exact Hx).
Qed.

Lemma rb_phase_kind : forall k p b, pc_ok k p = true -> phase_of p = Some b -> is_client k = true -> k = KClient OpRebuild.
Proof.
  intros k p b H P C. destruct k as [[]| |]; simpl in *; try discriminate; auto;
    destruct p; simpl in *; discriminate.
Qed.

(* no Rebuild pending and Watch never called: no build is active *)
Lemma quiet_no_active : forall s m, SInv s -> MInv s m ->
  rebuild_pending (m_pend m) = false -> m_watchCalled m = false -> active s = None.
Proof.
  intros s m I M Hp Hw. destruct (active s) as [b|] eqn:Ha; auto. exfalso.
  destruct (i_act_owner _ I b Ha) as [Ho Ph].
  set (o := b_owner (blds s b)) in *.
  destruct (is_client (t_kind (thr s o))) eqn:C.
  - pose proof (rb_phase_kind _ _ _ (i_kind _ I o Ho) Ph C) as K.
    assert (R : is_ret (t_pc (thr s o)) = false) by (destruct (t_pc (thr s o)); simpl in *; try discriminate; auto).
    destruct (r_pend _ _ M o OpRebuild Ho K R) as [p [F [O _]]].
    rewrite (find_pend_rebuild _ _ _ F O) in Hp. discriminate.
  - pose proof (r_internal _ _ M o Ho C) as W.
    rewrite (r_watchc _ _ M W) in Hw. discriminate.
Qed.

Definition call_mon (m : mon) (o : op) : mon :=
  mkMon (S (m_ncalls m)) (m_next m) (m_run m) (m_loaded m) (m_load m) (m_end m) (m_ret m)
        (mkP (m_ncalls m) o (m_edits m) (m_next m)
             (negb (rebuild_pending (m_pend m)) && negb (m_watchCalled m)) (m_ret m) (m_dispRet m) :: m_pend m)
        (m_dispCalled m || op_eqb o OpDispose) (m_dispRet m)
        (m_watchCalled m || op_eqb o OpWatch) (m_watchOk m) (m_cancelCalled m || op_eqb o OpCancel) (m_edits m).

Lemma minv_call : forall s m o,
  SInv s -> MInv s m ->
  MInv (mkState (disposed s) (active s) (recent s) (watcher s) (wtid s) (stopFlag s) (wexited s)
                (edits s) (nb s) (blds s) (S (nt s))
                (upd (thr s) (nt s) (mkThread (KClient o) (ncalls s) (start_pc o))) (S (ncalls s)))
       (call_mon m o).
Proof.
  intros s m o I M.
  pose proof (r_ncalls _ _ M) as Ec.
  assert (Hown : forall b, active s = Some b -> b_owner (blds s b) <> nt s).
  { intros b Ha. destruct (i_act_owner _ I b Ha). lia. }
  constructor; unfold call_mon; simpl.
  - congruence.
  - apply (r_edits _ _ M).
  - rewrite (r_next _ _ M). unfold next_of, owner_pc, upd. simpl. destruct (active s) eqn:A; auto.
    destruct (Nat.eqb_spec (b_owner (blds s n)) (nt s)); auto. exfalso. eapply Hown; eauto.
  - rewrite (r_run _ _ M). unfold run_of, owner_pc, upd. simpl. destruct (active s) eqn:A; auto.
    destruct (Nat.eqb_spec (b_owner (blds s n)) (nt s)); auto. exfalso. eapply Hown; eauto.
  - apply (r_result _ _ M).
  - apply (r_noload _ _ M).
  - unfold upd. intros t0 b H0 Hpe. destruct (Nat.eqb_spec t0 (nt s)) as [E|N]; simpl in Hpe.
    + destruct o; discriminate.
    + apply (r_preend _ _ M t0 b); auto. lia.
  - unfold upd. intros t0 b ov H0 Hlo. destruct (Nat.eqb_spec t0 (nt s)) as [E|N]; simpl in Hlo.
    + destruct o; discriminate.
    + apply (r_loadof _ _ M t0 b ov); auto. lia.
  - unfold upd. intros t0 b H0 Hp. destruct (Nat.eqb_spec t0 (nt s)) as [E|N]; simpl in Hp.
    + destruct o; discriminate.
    + apply (r_pubres _ _ M t0 b); auto. lia.
  - apply (r_hasres _ _ M).
  - apply (r_ret _ _ M).
  - intros H. rewrite (r_disposed _ _ M H). reflexivity.
  - apply (r_dispret _ _ M).
  - apply (r_watch _ _ M).
  - intros H. rewrite (r_watchc _ _ M H). reflexivity.
  - unfold upd. intros t0 H0 H. destruct (Nat.eqb_spec t0 (nt s)) as [E|N]; simpl in H; [discriminate|].
    apply (r_internal _ _ M t0); auto. lia.
  - intros b Hb H. rewrite (r_cancel _ _ M b Hb H). reflexivity.
  - unfold upd. intros t0 H0 H. destruct (Nat.eqb_spec t0 (nt s)) as [E|N]; simpl in H.
    + inversion H; subst o. simpl. apply orb_true_r.
    + rewrite (r_cancelk _ _ M t0); auto. lia.
  - unfold upd. intros t0 H0 H. destruct (Nat.eqb_spec t0 (nt s)) as [E|N]; simpl in H.
    + inversion H; subst o. simpl. apply orb_true_r.
    + rewrite (r_disposek _ _ M t0); auto. lia.
  - unfold upd. intros t0 H0 H. destruct (Nat.eqb_spec t0 (nt s)) as [E|N]; simpl in H.
    + inversion H; subst o. simpl. apply orb_true_r.
    + rewrite (r_watchk _ _ M t0); auto. lia.
  - unfold upd. intros t0 o0 H0 H. destruct (Nat.eqb_spec t0 (nt s)) as [E|N]; simpl in *.
    + lia.
    + assert (t0 < nt s) by lia. pose proof (r_cid _ _ M t0 o0 H1 H). lia.
  - unfold upd. intros t1 t2 H1 H2 K1 K2 C.
    destruct (Nat.eqb_spec t1 (nt s)) as [E1|N1]; destruct (Nat.eqb_spec t2 (nt s)) as [E2|N2]; simpl in *; try lia.
    + assert (L : t2 < nt s) by lia. destruct (t_kind (thr s t2)) eqn:K; simpl in K2; try discriminate.
      pose proof (r_cid _ _ M t2 o0 L K). lia.
    + assert (L : t1 < nt s) by lia. destruct (t_kind (thr s t1)) eqn:K; simpl in K1; try discriminate.
      pose proof (r_cid _ _ M t1 o0 L K). lia.
    + apply (r_ciduniq _ _ M t1 t2); auto; lia.
  - unfold upd. intros t0 o0 H0 K R. destruct (Nat.eqb_spec t0 (nt s)) as [E|N]; simpl in *.
    + inversion K; subst o0. rewrite Ec, Nat.eqb_refl. eexists. split; [reflexivity|]. split; [reflexivity|].
      constructor; simpl; auto.
      * intros H. destruct (r_dispret _ _ M H). split; [auto|split; [auto|]]. rewrite E, Nat.eqb_refl. reflexivity.
      * rewrite E, Nat.eqb_refl. simpl. destruct o; simpl; discriminate.
      * intros _ Hq _ b Hb. apply andb_true_iff in Hq as [Q1 Q2]. apply negb_true_iff in Q1, Q2.
        rewrite (quiet_no_active s m I M Q1 Q2) in Hb. discriminate.
      * rewrite E, Nat.eqb_refl. simpl. destruct o; simpl; discriminate.
      * intros b x Hb Hx. rewrite (r_noload _ _ M b Hb) in Hx. discriminate.
      * rewrite E, Nat.eqb_refl. simpl. destruct o; simpl; discriminate.
      * rewrite E, Nat.eqb_refl. simpl. destruct o; simpl; discriminate.
    + assert (L : t0 < nt s) by lia.
      destruct (r_pend _ _ M t0 o0 L K R) as [p [F [O Q]]]. exists p. split; [|split; [auto|]].
      * pose proof (r_cid _ _ M t0 o0 L K). destruct (Nat.eqb_spec (m_ncalls m) (t_cid (thr s t0))); [lia|auto].
      * eapply pinv_frame_same; eauto; simpl; try lia.
        all: try (destruct (Nat.eqb_spec t0 (nt s)); [lia|reflexivity]).
        all: try (intros b Hb; left; exact Hb).
Qed.

Lemma minv_edit : forall s m,
  SInv s -> MInv s m ->
  MInv (mkState (disposed s) (active s) (recent s) (watcher s) (wtid s) (stopFlag s) (wexited s)
                (S (edits s)) (nb s) (blds s) (nt s) (thr s) (ncalls s))
       (mkMon (m_ncalls m) (m_next m) (m_run m) (m_loaded m) (m_load m) (m_end m) (m_ret m) (m_pend m)
              (m_dispCalled m) (m_dispRet m) (m_watchCalled m) (m_watchOk m) (m_cancelCalled m) (S (m_edits m))).
Proof.
  intros s m I M. pose proof (r_pend _ _ M) as RP. destruct M. constructor; simpl; auto.
  intros t o H0 K R. destruct (RP t o H0 K R) as [p [F [O Q]]]. exists p. split; [auto|split; [auto|]].
  eapply pinv_frame_same; eauto; simpl; try lia.
  all: try (intros b Hb; left; exact Hb).
Qed.

(* Watch's critical section succeeds: the flag is set, the goroutines exist;
   the call has not returned yet (silent step) *)
Lemma minv_watch : forall s m t,
  SInv s -> MInv s m -> t < nt s -> t_pc (thr s t) = PWaStart -> t_kind (thr s t) = KClient OpWatch ->
  watcher s = false -> disposed s = false ->
  MInv (set_pc (mkState false (active s) (recent s) true (nt s) (stopFlag s) (wexited s)
                        (edits s) (nb s) (blds s) (S (S (nt s)))
                        (upd (upd (thr s) (nt s) (mkThread KWatcher 0 PWlCheck)) (S (nt s)) (mkThread KWatchFirst 0 PWfStart))
                        (ncalls s)) t (PWaRet RvUnit)) m.
Proof.
  intros s m t I M Ht Hpc Kt Hw Hdis.
  assert (Hown : forall b, active s = Some b -> b_owner (blds s b) < nt s /\ b_owner (blds s b) <> t).
  { intros b Ha. destruct (i_act_owner _ I b Ha) as [H1 H2]. split; auto.
    intros E. rewrite E, Hpc in H2. discriminate. }
  constructor; upd_simpl.
  all: destruct (Nat.eqb_spec t (S (nt s))) as [?|Nt1]; [lia|]; destruct (Nat.eqb_spec t (nt s)) as [?|Nt2]; [lia|].
  - apply (r_ncalls _ _ M).
  - apply (r_edits _ _ M).
  - rewrite (r_next _ _ M). unfold next_of, owner_pc. simpl. destruct (active s) eqn:A; auto.
    destruct (Hown n eq_refl) as [H1 H2].
    destruct (Nat.eqb_spec (b_owner (blds s n)) t); [congruence|].
    destruct (Nat.eqb_spec (b_owner (blds s n)) (S (nt s))); [lia|].
    destruct (Nat.eqb_spec (b_owner (blds s n)) (nt s)); [lia|]. reflexivity.
  - rewrite (r_run _ _ M). unfold run_of, owner_pc. simpl. destruct (active s) eqn:A; auto.
    destruct (Hown n eq_refl) as [H1 H2].
    destruct (Nat.eqb_spec (b_owner (blds s n)) t); [congruence|].
    destruct (Nat.eqb_spec (b_owner (blds s n)) (S (nt s))); [lia|].
    destruct (Nat.eqb_spec (b_owner (blds s n)) (nt s)); [lia|]. reflexivity.
  - apply (r_result _ _ M).
  - apply (r_noload _ _ M).
  - intros t0 b H0 Hpe. destruct (Nat.eqb_spec t0 t); simpl in Hpe; [discriminate|].
    destruct (Nat.eqb_spec t0 (S (nt s))); simpl in Hpe; [discriminate|].
    destruct (Nat.eqb_spec t0 (nt s)); simpl in Hpe; [discriminate|].
    apply (r_preend _ _ M t0 b); auto. lia.
  - intros t0 b ov H0 Hlo. destruct (Nat.eqb_spec t0 t); simpl in Hlo; [discriminate|].
    destruct (Nat.eqb_spec t0 (S (nt s))); simpl in Hlo; [discriminate|].
    destruct (Nat.eqb_spec t0 (nt s)); simpl in Hlo; [discriminate|].
    apply (r_loadof _ _ M t0 b ov); auto. lia.
  - intros t0 b H0 Hp. destruct (Nat.eqb_spec t0 t); simpl in Hp; [discriminate|].
    destruct (Nat.eqb_spec t0 (S (nt s))); simpl in Hp; [discriminate|].
    destruct (Nat.eqb_spec t0 (nt s)); simpl in Hp; [discriminate|].
    apply (r_pubres _ _ M t0 b); auto. lia.
  - apply (r_hasres _ _ M).
  - apply (r_ret _ _ M).
  - discriminate.
  - intros H. destruct (r_dispret _ _ M H). congruence.
  - auto.
  - intros _. apply (r_watchk _ _ M t Ht Kt).
  - auto.
  - apply (r_cancel _ _ M).
  - intros t0 H0 H. destruct (Nat.eqb_spec t0 t); simpl in H; [subst; congruence|].
    destruct (Nat.eqb_spec t0 (S (nt s))); simpl in H; [discriminate|].
    destruct (Nat.eqb_spec t0 (nt s)); simpl in H; [discriminate|].
    apply (r_cancelk _ _ M t0); auto. lia.
  - intros t0 H0 H. destruct (Nat.eqb_spec t0 t); simpl in H; [subst; congruence|].
    destruct (Nat.eqb_spec t0 (S (nt s))); simpl in H; [discriminate|].
    destruct (Nat.eqb_spec t0 (nt s)); simpl in H; [discriminate|].
    apply (r_disposek _ _ M t0); auto. lia.
  - intros t0 H0 H. apply (r_watchk _ _ M t Ht Kt).
  - intros t0 o0 H0 H. destruct (Nat.eqb_spec t0 t); simpl in *; [subst t0; apply (r_cid _ _ M t o0 Ht H)|].
    destruct (Nat.eqb_spec t0 (S (nt s))); simpl in H; [discriminate|].
    destruct (Nat.eqb_spec t0 (nt s)); simpl in H; [discriminate|].
    apply (r_cid _ _ M t0 o0); auto. lia.
  - intros t1 t2 H1 H2 K1 K2 C.
    assert (A : forall t0, t0 < S (S (nt s)) ->
                is_client (t_kind (if t0 =? t then {| t_kind := t_kind (thr s t); t_cid := t_cid (thr s t); t_pc := PWaRet RvUnit |}
                                   else if t0 =? S (nt s) then {| t_kind := KWatchFirst; t_cid := 0; t_pc := PWfStart |}
                                   else if t0 =? nt s then {| t_kind := KWatcher; t_cid := 0; t_pc := PWlCheck |} else thr s t0)) = true ->
                t0 < nt s /\ (if t0 =? t then {| t_kind := t_kind (thr s t); t_cid := t_cid (thr s t); t_pc := PWaRet RvUnit |}
                                   else if t0 =? S (nt s) then {| t_kind := KWatchFirst; t_cid := 0; t_pc := PWfStart |}
                                   else if t0 =? nt s then {| t_kind := KWatcher; t_cid := 0; t_pc := PWlCheck |} else thr s t0) =
                              mkThread (t_kind (thr s t0)) (t_cid (thr s t0)) (if t0 =? t then PWaRet RvUnit else t_pc (thr s t0))).
    { intros t0 L. destruct (Nat.eqb_spec t0 t); simpl.
      - subst. auto.
      - destruct (Nat.eqb_spec t0 (S (nt s))); simpl; [discriminate|].
        destruct (Nat.eqb_spec t0 (nt s)); simpl; [discriminate|].
        intros _. split; [lia|]. destruct (thr s t0); reflexivity. }
    destruct (A t1 H1 K1) as [L1 E1]. destruct (A t2 H2 K2) as [L2 E2].
    rewrite E1 in K1, C. rewrite E2 in K2, C. simpl in *.
    apply (r_ciduniq _ _ M t1 t2 L1 L2 K1 K2 C).
  - intros t0 o0 H0 K R. destruct (Nat.eqb_spec t0 t) as [E|N]; simpl in *.
    + subst t0. rewrite Kt in K. inversion K; subst o0.
      destruct (r_pend _ _ M t OpWatch Ht Kt) as [p [F [O Q]]]; [rewrite Hpc; reflexivity|].
      exists p. split; [auto|split; [auto|]].
      destruct Q as [Q1 Q2 Q3 Q4 Q5 Q6 Q7 Q8 Q9 Q10].
      constructor; simpl; upd_simpl; rewrite ?Nat.eqb_refl; simpl; auto; try (intros; discriminate).
      all: try solve [intros H; destruct (Q4 H) as [D _]; congruence].
      all: try solve [intros Ho; rewrite O in Ho; discriminate].
    + destruct (Nat.eqb_spec t0 (S (nt s))); simpl in *; [discriminate|].
      destruct (Nat.eqb_spec t0 (nt s)); simpl in *; [discriminate|].
      assert (L : t0 < nt s) by lia.
      destruct (r_pend _ _ M t0 o0 L K R) as [p [F [O Q]]]. exists p. split; [auto|split; [auto|]].
      eapply pinv_frame_same; eauto; simpl; try lia.
      all: try (destruct (Nat.eqb_spec t0 t); [congruence|]; destruct (Nat.eqb_spec t0 (S (nt s))); [lia|];
                destruct (Nat.eqb_spec t0 (nt s)); [lia|reflexivity]).
      all: try (intros Hx; congruence).
      all: try (intros b Hb; left; exact Hb).
Qed.
