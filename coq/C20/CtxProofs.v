(* Invariants of the context LTS (CtxLTS.v), by induction over runs. *)
From V Require Import Common.Base C20.CtxLTS.
Local Close Scope Z_scope.
Local Open Scope nat_scope.

(* classification of program counters *)
Definition phase_of (p : pc) : option nat :=
  match p with
  | PRbOnStart b | PRbPoll b | PRbLoad b | PRbEnd b _ | PRbPublish b => Some b
  | _ => None
  end.
Definition done_of (p : pc) : option nat := match p with PRbDone b => Some b | _ => None end.
Definition ref_of (p : pc) : option nat :=
  match p with
  | PRbJoin b | PRbOnStart b | PRbPoll b | PRbLoad b | PRbEnd b _ | PRbPublish b | PRbDone b
  | PCaSet b | PCaWait b | PDiStop (Some b) | PDiStopWait (Some b) | PDiWait b | PWfWait b => Some b
  | _ => None
  end.
Definition is_ret (p : pc) : bool := match p with PRet _ => true | _ => false end.

Definition rb_pc (p : pc) : bool :=
  match p with
  | PRbStart | PRbJoin _ | PRbOnStart _ | PRbPoll _ | PRbLoad _ | PRbEnd _ _ | PRbPublish _ | PRbDone _ => true
  | _ => false
  end.
Definition pc_ok (k : kind) (p : pc) : bool :=
  match k with
  | KClient OpRebuild => rb_pc p || is_ret p
  | KClient OpCancel => match p with PCaStart | PCaSet _ | PCaWait _ | PRet _ => true | _ => false end
  | KClient OpDispose => match p with PDiStart | PDiStop _ | PDiStopWait _ | PDiWait _ | PRet _ => true | _ => false end
  | KClient OpWatch => match p with PWaStart | PWaRet _ | PRet _ => true | _ => false end
  | KWatchFirst => rb_pc p || is_ret p || match p with PWfStart | PWfWait _ => true | _ => false end
  | KWatcher => rb_pc p || match p with PWlCheck | PWlSleep => true | PRet _ => true | _ => false end
  end.

Record SInv (s : state) : Prop := mkSInv {
  i_act_nb : forall b, active s = Some b -> S b = nb s;
  i_act_owner : forall b, active s = Some b ->
      b_owner (blds s b) < nt s /\ phase_of (t_pc (thr s (b_owner (blds s b)))) = Some b;
  i_act_undone : forall b, active s = Some b -> b_done (blds s b) = false;
  i_phase : forall t b, t < nt s -> phase_of (t_pc (thr s t)) = Some b ->
      active s = Some b /\ b_owner (blds s b) = t;
  i_donepc : forall t b, t < nt s -> done_of (t_pc (thr s t)) = Some b ->
      b < nb s /\ b_owner (blds s b) = t /\ b_done (blds s b) = false /\ active s <> Some b;
  i_undone : forall b, b < nb s -> b_done (blds s b) = false ->
      b_owner (blds s b) < nt s /\
      (phase_of (t_pc (thr s (b_owner (blds s b)))) = Some b \/
       done_of (t_pc (thr s (b_owner (blds s b)))) = Some b);
  i_refs : forall t b, t < nt s -> ref_of (t_pc (thr s t)) = Some b -> b < nb s;
  i_kind : forall t, t < nt s -> pc_ok (t_kind (thr s t)) (t_pc (thr s t)) = true;
  i_watcher : watcher s = true -> wtid s < nt s /\ t_kind (thr s (wtid s)) = KWatcher;
  i_wlive : watcher s = true -> wexited s = false -> is_ret (t_pc (thr s (wtid s))) = false;
  i_wuniq : forall t, t < nt s -> t_kind (thr s t) = KWatcher -> watcher s = true /\ t = wtid s }.

Lemma sinv_init : SInv init.
Proof.
  constructor; simpl; intros; try discriminate; try lia.
Qed.

(* generic simplification after a step has been exposed *)
Ltac upd_simpl :=
  repeat (unfold set_pc, set_thr, set_bld, upd, ret, finish_rebuild, result_of in *; simpl in *).

Ltac eqb_cases :=
  repeat match goal with
         | |- context [Nat.eqb ?a ?b] => destruct (Nat.eqb_spec a b); subst
         | H : context [Nat.eqb ?a ?b] |- _ => destruct (Nat.eqb_spec a b); subst
         end.

(* expose the effect of one action *)
Ltac step_cases H :=
  match type of H with
  | exec ?s ?a = Some _ =>
      destruct a as [o | | d | t]; simpl in H;
      [ inversion H; subst; clear H
      | inversion H; subst; clear H
      | destruct (watcher s) eqn:Hw; [| discriminate];
        destruct (t_pc (thr s (wtid s))) eqn:Hpc; try discriminate;
        inversion H; subst; clear H
      | unfold exec_step in H;
        destruct (t <? nt s) eqn:Hlt; simpl in H; [| discriminate];
        apply Nat.ltb_lt in Hlt;
        destruct (t_pc (thr s t)) eqn:Hpc; simpl in H;
        repeat match type of H with
               | (if ?c then _ else _) = _ => destruct c eqn:?
               | match ?c with _ => _ end = _ => destruct c eqn:?
               end;
        try discriminate; inversion H; subst; clear H ]
  end.


(* ---- preservation lemmas by shape of the step ---- *)

(* a step of thread t that keeps its build-phase classification and touches
   neither active/nb/nt nor the owner/done fields of any build *)
Lemma sinv_frame : forall s s' t,
  SInv s -> t < nt s ->
  active s' = active s -> nb s' = nb s -> nt s' = nt s ->
  watcher s' = watcher s -> wtid s' = wtid s ->
  (forall b, b_owner (blds s' b) = b_owner (blds s b) /\ b_done (blds s' b) = b_done (blds s b)) ->
  (forall t', t' <> t -> thr s' t' = thr s t') ->
  t_kind (thr s' t) = t_kind (thr s t) ->
  phase_of (t_pc (thr s' t)) = phase_of (t_pc (thr s t)) ->
  done_of (t_pc (thr s' t)) = done_of (t_pc (thr s t)) ->
  (forall b, ref_of (t_pc (thr s' t)) = Some b -> b < nb s) ->
  pc_ok (t_kind (thr s t)) (t_pc (thr s' t)) = true ->
  (watcher s = true -> wexited s' = false -> wexited s = false /\ (t = wtid s -> is_ret (t_pc (thr s' t)) = false)) ->
  SInv s'.
Proof.
  intros s s' t I Ht Ea En Et Ew Ewt Eb Eo Ek Ep Ed Er Eok Ewl.
  assert (Hthr : forall t', phase_of (t_pc (thr s' t')) = phase_of (t_pc (thr s t')) /\
                            done_of (t_pc (thr s' t')) = done_of (t_pc (thr s t')) /\
                            t_kind (thr s' t') = t_kind (thr s t')).
  { intros t'. destruct (Nat.eq_dec t' t) as [->|N]; [auto | rewrite (Eo _ N); auto]. }
  constructor; rewrite ?Ea, ?En, ?Et, ?Ew, ?Ewt.
  - intros b H. apply (i_act_nb _ I b H).
  - intros b H. destruct (Eb b) as [-> _]. destruct (Hthr (b_owner (blds s b))) as [-> _].
    apply (i_act_owner _ I b H).
  - intros b H. destruct (Eb b) as [_ ->]. apply (i_act_undone _ I b H).
  - intros t0 b H0 H. destruct (Hthr t0) as [E1 _]. rewrite E1 in H.
    destruct (Eb b) as [-> _]. apply (i_phase _ I t0 b H0 H).
  - intros t0 b H0 H. destruct (Hthr t0) as [_ [E1 _]]. rewrite E1 in H.
    destruct (Eb b) as [-> ->]. apply (i_donepc _ I t0 b H0 H).
  - intros b H0 H. destruct (Eb b) as [E1 E2]. rewrite E1, E2 in *.
    destruct (Hthr (b_owner (blds s b))) as [-> [-> _]]. apply (i_undone _ I b H0 H).
  - intros t0 b H0 H. destruct (Nat.eq_dec t0 t) as [->|N].
    + apply Er; assumption.
    + rewrite (Eo _ N) in H. apply (i_refs _ I t0 b H0 H).
  - intros t0 H0. destruct (Nat.eq_dec t0 t) as [->|N].
    + rewrite Ek. assumption.
    + rewrite (Eo _ N). apply (i_kind _ I t0 H0).
  - intros H. destruct (Hthr (wtid s)) as [_ [_ ->]]. apply (i_watcher _ I H).
  - intros H H1. destruct (Ewl H H1) as [H2 H3].
    destruct (Nat.eq_dec (wtid s) t) as [E|N].
    + rewrite E. apply H3. auto.
    + rewrite (Eo _ N). apply (i_wlive _ I H H2).
  - intros t0 H0 H. destruct (Hthr t0) as [_ [_ E1]]. rewrite E1 in H. apply (i_wuniq _ I t0 H0 H).
Qed.

Ltac inst I t b :=
  pose proof (i_act_nb _ I b); pose proof (i_act_owner _ I b); pose proof (i_act_undone _ I b);
  pose proof (i_phase _ I t b); pose proof (i_donepc _ I t b); pose proof (i_undone _ I b);
  pose proof (i_refs _ I t b); pose proof (i_kind _ I t); pose proof (i_wuniq _ I t);
  pose proof (i_watcher _ I); pose proof (i_wlive _ I).

Lemma rb_kind_ok : forall k p p', pc_ok k p = true -> rb_pc p = true -> rb_pc p' = true -> pc_ok k p' = true.
Proof.
  intros k p p' H1 H2 H3. destruct k as [[]| |]; simpl in *; rewrite ?H3; simpl; auto;
    destruct p; simpl in *; try discriminate.
Qed.

(* first critical section of rebuild(): a new build is allocated *)
Lemma sinv_alloc : forall s t dsp,
  SInv s -> t < nt s -> t_pc (thr s t) = PRbStart -> active s = None ->
  SInv (set_pc (mkState dsp (Some (nb s)) (recent s) (watcher s) (wtid s) (stopFlag s) (wexited s)
                        (edits s) (S (nb s)) (upd (blds s) (nb s) (mkBuild t false None false))
                        (nt s) (thr s) (ncalls s)) t (PRbOnStart (nb s))).
Proof.
  intros s t dsp I Ht Hpc Ha.
  constructor; upd_simpl.
  - intros b H. inversion H; subst. reflexivity.
  - intros b H. inversion H; subst. repeat (rewrite Nat.eqb_refl; simpl). auto.
  - intros b H. inversion H; subst. rewrite Nat.eqb_refl. reflexivity.
  - intros t0 b H0 H. destruct (Nat.eqb_spec t0 t) as [->|N]; simpl in H.
    + inversion H; subst. rewrite Nat.eqb_refl. auto.
    + destruct (i_phase _ I t0 b H0 H) as [E _]. congruence.
  - intros t0 b H0 H. destruct (Nat.eqb_spec t0 t) as [->|N]; simpl in H; [discriminate|].
    destruct (i_donepc _ I t0 b H0 H) as [E1 [E2 [E3 E4]]].
    destruct (Nat.eqb_spec b (nb s)); [lia|]. repeat split; auto; try lia. intros E; inversion E; lia.
  - intros b H0 H. destruct (Nat.eqb_spec b (nb s)) as [->|N]; simpl in *.
    + repeat (rewrite Nat.eqb_refl; simpl). auto.
    + assert (Hb : b < nb s) by lia.
      destruct (i_undone _ I b Hb H) as [E1 E2]. split; auto.
      destruct (Nat.eqb_spec (b_owner (blds s b)) t) as [E|N2]; auto.
      rewrite E, Hpc in E2. simpl in E2. destruct E2; discriminate.
  - intros t0 b H0 H. destruct (Nat.eqb_spec t0 t) as [->|N]; simpl in H.
    + inversion H; subst. lia.
    + pose proof (i_refs _ I t0 b H0 H). lia.
  - intros t0 H0. destruct (Nat.eqb_spec t0 t) as [->|N]; simpl.
    + pose proof (i_kind _ I t Ht) as K. rewrite Hpc in K. eapply rb_kind_ok; eauto.
    + apply (i_kind _ I t0 H0).
  - intros H. destruct (i_watcher _ I H) as [E1 E2]. split; auto.
    destruct (Nat.eqb_spec (wtid s) t) as [E|N]; simpl; auto. rewrite <- E; auto.
  - intros H H1. pose proof (i_wlive _ I H H1) as E.
    destruct (Nat.eqb_spec (wtid s) t) as [E'|N]; simpl; auto.
  - intros t0 H0 H. destruct (Nat.eqb_spec t0 t) as [->|N]; simpl in H; apply (i_wuniq _ I); auto.
Qed.

(* second critical section: activeBuild = nil *)
Lemma sinv_publish : forall s t b,
  SInv s -> t < nt s -> t_pc (thr s t) = PRbPublish b ->
  SInv (set_pc (mkState (disposed s) None (Some b) (watcher s) (wtid s) (stopFlag s) (wexited s)
                        (edits s) (nb s) (blds s) (nt s) (thr s) (ncalls s)) t (PRbDone b)).
Proof.
  intros s t b I Ht Hpc.
  assert (Hph : phase_of (t_pc (thr s t)) = Some b) by (rewrite Hpc; reflexivity).
  destruct (i_phase _ I t b Ht Hph) as [Ha Ho].
  pose proof (i_act_nb _ I b Ha) as Hnb.
  pose proof (i_act_undone _ I b Ha) as Hud.
  constructor; upd_simpl; try (intros; discriminate).
  - intros t0 b0 H0 H. destruct (Nat.eqb_spec t0 t) as [E|N]; simpl in H; [discriminate|].
    destruct (i_phase _ I t0 b0 H0 H) as [E1 E2]. rewrite Ha in E1. inversion E1; subst. congruence.
  - intros t0 b0 H0 H. destruct (Nat.eqb_spec t0 t) as [E|N]; simpl in H.
    + inversion H; subst. repeat split; auto; try lia. discriminate.
    + destruct (i_donepc _ I t0 b0 H0 H) as [E1 [E2 [E3 E4]]]. repeat split; auto. discriminate.
  - intros b0 H0 H. destruct (i_undone _ I b0 H0 H) as [E1 E2]. split; auto.
    destruct (Nat.eqb_spec (b_owner (blds s b0)) t) as [E|N]; simpl; auto.
    rewrite E, Hpc in E2. simpl in E2. destruct E2 as [E2|E2]; [|discriminate]. inversion E2; subst. auto.
  - intros t0 b0 H0 H. destruct (Nat.eqb_spec t0 t) as [E|N]; simpl in H.
    + inversion H; subst. lia.
    + apply (i_refs _ I t0 b0 H0 H).
  - intros t0 H0. destruct (Nat.eqb_spec t0 t) as [E|N]; simpl.
    + pose proof (i_kind _ I t Ht) as K. rewrite Hpc in K. eapply rb_kind_ok; eauto.
    + apply (i_kind _ I t0 H0).
  - intros H. destruct (i_watcher _ I H) as [E1 E2]. split; auto.
    destruct (Nat.eqb_spec (wtid s) t) as [E|N]; simpl; auto. rewrite <- E; auto.
  - intros H H1. pose proof (i_wlive _ I H H1) as E.
    destruct (Nat.eqb_spec (wtid s) t) as [E'|N]; simpl; auto.
  - intros t0 H0 H. destruct (Nat.eqb_spec t0 t) as [E|N]; simpl in H; apply (i_wuniq _ I); try rewrite E; auto.
Qed.

(* waitGroup.Done() and return *)
Lemma sinv_done : forall s t b x p',
  SInv s -> t < nt s -> t_pc (thr s t) = PRbDone b ->
  b_owner x = b_owner (blds s b) -> b_done x = true ->
  phase_of p' = None -> done_of p' = None -> ref_of p' = None ->
  pc_ok (t_kind (thr s t)) p' = true ->
  (t_kind (thr s t) = KWatcher -> is_ret p' = false) ->
  SInv (set_pc (set_bld s b x) t p').
Proof.
  intros s t b x p' I Ht Hpc Hxo Hxd P1 P2 P3 Pk Pw.
  assert (Hd : done_of (t_pc (thr s t)) = Some b) by (rewrite Hpc; reflexivity).
  destruct (i_donepc _ I t b Ht Hd) as [Hb [Ho [Hud Hna]]].
  constructor; upd_simpl.
  - apply (i_act_nb _ I).
  - intros b0 H. destruct (Nat.eqb_spec b0 b) as [E|N]; [subst; congruence|].
    destruct (i_act_owner _ I b0 H) as [E1 E2]. split; auto.
    destruct (Nat.eqb_spec (b_owner (blds s b0)) t) as [E|N2]; simpl; auto.
    rewrite E, Hpc in E2. discriminate.
  - intros b0 H. destruct (Nat.eqb_spec b0 b) as [E|N]; [subst; congruence|]. apply (i_act_undone _ I b0 H).
  - intros t0 b0 H0 H. destruct (Nat.eqb_spec t0 t) as [E|N]; simpl in H; [congruence|].
    destruct (i_phase _ I t0 b0 H0 H) as [E1 E2]. split; auto.
    destruct (Nat.eqb_spec b0 b) as [E|N2]; [subst; congruence|auto].
  - intros t0 b0 H0 H. destruct (Nat.eqb_spec t0 t) as [E|N]; simpl in H; [congruence|].
    destruct (i_donepc _ I t0 b0 H0 H) as [E1 [E2 [E3 E4]]].
    destruct (Nat.eqb_spec b0 b) as [E|N2]; [subst; congruence|auto].
  - intros b0 H0 H. destruct (Nat.eqb_spec b0 b) as [E|N]; [subst; congruence|].
    destruct (i_undone _ I b0 H0 H) as [E1 E2]. split; auto.
    destruct (Nat.eqb_spec (b_owner (blds s b0)) t) as [E|N2]; simpl; auto.
    rewrite E, Hpc in E2. simpl in E2. destruct E2 as [E2|E2]; [discriminate|]. inversion E2; subst. congruence.
  - intros t0 b0 H0 H. destruct (Nat.eqb_spec t0 t) as [E|N]; simpl in H; [congruence|].
    apply (i_refs _ I t0 b0 H0 H).
  - intros t0 H0. destruct (Nat.eqb_spec t0 t) as [E|N]; simpl; [auto|apply (i_kind _ I t0 H0)].
  - intros H. destruct (i_watcher _ I H) as [E1 E2]. split; auto.
    destruct (Nat.eqb_spec (wtid s) t) as [E|N]; simpl; auto. rewrite <- E; auto.
  - intros H H1. pose proof (i_wlive _ I H H1) as E.
    destruct (Nat.eqb_spec (wtid s) t) as [E'|N]; simpl; auto.
    apply Pw. rewrite <- E'. apply (i_watcher _ I H).
  - intros t0 H0 H. destruct (Nat.eqb_spec t0 t) as [E|N]; simpl in H; apply (i_wuniq _ I); try rewrite E; auto.
Qed.

(* a new client call *)
Lemma sinv_call : forall s o,
  SInv s ->
  SInv (mkState (disposed s) (active s) (recent s) (watcher s) (wtid s) (stopFlag s) (wexited s)
                (edits s) (nb s) (blds s) (S (nt s))
                (upd (thr s) (nt s) (mkThread (KClient o) (ncalls s) (start_pc o))) (S (ncalls s))).
Proof.
  intros s o I.
  assert (P1 : phase_of (start_pc o) = None) by (destruct o; reflexivity).
  assert (P2 : done_of (start_pc o) = None) by (destruct o; reflexivity).
  assert (P3 : ref_of (start_pc o) = None) by (destruct o; reflexivity).
  constructor; upd_simpl.
  - apply (i_act_nb _ I).
  - intros b H. destruct (i_act_owner _ I b H) as [E1 E2]. split; [lia|].
    destruct (Nat.eqb_spec (b_owner (blds s b)) (nt s)); [lia|auto].
  - apply (i_act_undone _ I).
  - intros t0 b H0 H. destruct (Nat.eqb_spec t0 (nt s)) as [E|N]; simpl in H; [congruence|].
    apply (i_phase _ I t0 b); auto; lia.
  - intros t0 b H0 H. destruct (Nat.eqb_spec t0 (nt s)) as [E|N]; simpl in H; [congruence|].
    apply (i_donepc _ I t0 b); auto; lia.
  - intros b H0 H. destruct (i_undone _ I b H0 H) as [E1 E2]. split; [lia|].
    destruct (Nat.eqb_spec (b_owner (blds s b)) (nt s)); [lia|auto].
  - intros t0 b H0 H. destruct (Nat.eqb_spec t0 (nt s)) as [E|N]; simpl in H; [congruence|].
    apply (i_refs _ I t0 b); auto; lia.
  - intros t0 H0. destruct (Nat.eqb_spec t0 (nt s)) as [E|N]; simpl.
    + destruct o; reflexivity.
    + apply (i_kind _ I t0). lia.
  - intros H. destruct (i_watcher _ I H) as [E1 E2]. split; [lia|].
    destruct (Nat.eqb_spec (wtid s) (nt s)); [lia|auto].
  - intros H H1. pose proof (i_wlive _ I H H1) as E. destruct (i_watcher _ I H) as [E1 E2].
    destruct (Nat.eqb_spec (wtid s) (nt s)); [lia|auto].
  - intros t0 H0 H. destruct (Nat.eqb_spec t0 (nt s)) as [E|N]; simpl in H; [discriminate|].
    apply (i_wuniq _ I); auto; lia.
Qed.

(* Watch succeeds: the watcher goroutine and the first-build goroutine are started *)
Lemma sinv_watch : forall s t dsp,
  SInv s -> t < nt s -> t_pc (thr s t) = PWaStart -> watcher s = false ->
  SInv (set_pc (mkState dsp (active s) (recent s) true (nt s) (stopFlag s) (wexited s)
                        (edits s) (nb s) (blds s) (S (S (nt s)))
                        (upd (upd (thr s) (nt s) (mkThread KWatcher 0 PWlCheck)) (S (nt s)) (mkThread KWatchFirst 0 PWfStart))
                        (ncalls s)) t (PWaRet RvUnit)).
Proof.
  intros s t dsp I Ht Hpc Hw.
  assert (Kt : t_kind (thr s t) <> KWatcher).
  { intros E. destruct (i_wuniq _ I t Ht E). congruence. }
  constructor; upd_simpl.
  all: destruct (Nat.eqb_spec t (S (nt s))) as [?|Nt1]; [lia|]; destruct (Nat.eqb_spec t (nt s)) as [?|Nt2]; [lia|].
  - apply (i_act_nb _ I).
  - intros b H. destruct (i_act_owner _ I b H) as [E1 E2]. split; [lia|].
    destruct (Nat.eqb_spec (b_owner (blds s b)) t) as [E|N]; simpl.
    + rewrite E, Hpc in E2. discriminate.
    + destruct (Nat.eqb_spec (b_owner (blds s b)) (S (nt s))); [lia|].
      destruct (Nat.eqb_spec (b_owner (blds s b)) (nt s)); [lia|auto].
  - apply (i_act_undone _ I).
  - intros t0 b H0 H. destruct (Nat.eqb_spec t0 t) as [E|N]; simpl in H; [discriminate|].
    destruct (Nat.eqb_spec t0 (S (nt s))) as [E|N1]; simpl in H; [discriminate|].
    destruct (Nat.eqb_spec t0 (nt s)) as [E|N2]; simpl in H; [discriminate|].
    apply (i_phase _ I t0 b); auto; lia.
  - intros t0 b H0 H. destruct (Nat.eqb_spec t0 t) as [E|N]; simpl in H; [discriminate|].
    destruct (Nat.eqb_spec t0 (S (nt s))) as [E|N1]; simpl in H; [discriminate|].
    destruct (Nat.eqb_spec t0 (nt s)) as [E|N2]; simpl in H; [discriminate|].
    apply (i_donepc _ I t0 b); auto; lia.
  - intros b H0 H. destruct (i_undone _ I b H0 H) as [E1 E2]. split; [lia|].
    destruct (Nat.eqb_spec (b_owner (blds s b)) t) as [E|N]; simpl.
    + rewrite E, Hpc in E2. simpl in E2. destruct E2; discriminate.
    + destruct (Nat.eqb_spec (b_owner (blds s b)) (S (nt s))); [lia|].
      destruct (Nat.eqb_spec (b_owner (blds s b)) (nt s)); [lia|auto].
  - intros t0 b H0 H. destruct (Nat.eqb_spec t0 t) as [E|N]; simpl in H; [discriminate|].
    destruct (Nat.eqb_spec t0 (S (nt s))) as [E|N1]; simpl in H; [discriminate|].
    destruct (Nat.eqb_spec t0 (nt s)) as [E|N2]; simpl in H; [discriminate|].
    apply (i_refs _ I t0 b); auto; lia.
  - intros t0 H0. destruct (Nat.eqb_spec t0 t) as [E|N]; simpl.
    + pose proof (i_kind _ I t Ht) as K. rewrite Hpc in K.
      destruct (t_kind (thr s t)) as [[]| |]; simpl in *; auto.
    + destruct (Nat.eqb_spec t0 (S (nt s))) as [E|N1]; simpl; [reflexivity|].
      destruct (Nat.eqb_spec t0 (nt s)) as [E|N2]; simpl; [reflexivity|].
      apply (i_kind _ I t0). lia.
  - intros _. split; [lia|].
    destruct (Nat.eqb_spec (nt s) t) as [E|N]; [lia|].
    destruct (Nat.eqb_spec (nt s) (S (nt s))); [lia|]. rewrite Nat.eqb_refl. reflexivity.
  - intros _ _.
    destruct (Nat.eqb_spec (nt s) t) as [E|N]; [lia|].
    destruct (Nat.eqb_spec (nt s) (S (nt s))); [lia|]. rewrite Nat.eqb_refl. reflexivity.
  - intros t0 H0 H. split; auto.
    destruct (Nat.eqb_spec t0 t) as [E|N]; simpl in H; [subst; congruence|].
    destruct (Nat.eqb_spec t0 (S (nt s))) as [E|N1]; simpl in H; [discriminate|].
    destruct (Nat.eqb_spec t0 (nt s)) as [E|N2]; simpl in H; [auto|].
    assert (t0 < nt s) by lia. destruct (i_wuniq _ I t0 H1 H). congruence.
Qed.

Ltac kind_contra I t Ht Hpc :=
  let K := fresh "K" in
  pose proof (i_kind _ I t Ht) as K; rewrite Hpc in K;
  destruct (t_kind (thr _ t)) as [[]| |] eqn:?; simpl in K; try discriminate.

Ltac side :=
  upd_simpl; intros; eqb_cases; simpl in *; try reflexivity; try congruence; try lia; auto.

Ltac kind_tac I :=
  match goal with
  | Hl : ?t0 < nt ?s0, Hp : t_pc (thr ?s0 ?t0) = _ |- _ =>
      let K := fresh "K" in pose proof (i_kind _ I t0 Hl) as K; rewrite Hp in K;
      try match goal with Hk : t_kind (thr s0 t0) = _ |- _ => rewrite Hk in * end;
      try (destruct (t_kind (thr s0 t0)) as [[]| |]);
      try match goal with o : op |- _ => destruct o end;
      simpl in *; try discriminate; try congruence; auto
  end.

Lemma sinv_step : forall s a s' l, SInv s -> exec s a = Some (s', l) -> SInv s'.
Proof.
  intros s a s' l I H.
  step_cases H.
  1: solve [apply sinv_call; auto].
  1: solve [destruct I; constructor; simpl; auto].
  1: { (* tick *)
    destruct (i_watcher _ I Hw) as [W1 W2].
    eapply sinv_frame with (t := wtid s); eauto; try solve [side].
    all: upd_simpl; rewrite ?Nat.eqb_refl; simpl; rewrite ?Hpc, ?W2; destruct d; simpl; intros; try discriminate; auto. }
  all: try (unfold finish_rebuild, ret in *).
  all: repeat match goal with
              | H1 : (match ?k with _ => _ end) = (_, _) |- _ => destruct k eqn:?
              end.
  all: repeat match goal with
              | H1 : (_, _) = (_, _) |- _ => inversion H1; subst; clear H1
              end.
  all: try solve [apply sinv_alloc; auto].
  all: try solve [eapply sinv_publish; eauto].
  all: try solve [apply sinv_watch; auto].
  all: repeat match goal with Hk : t_kind (thr (set_bld _ _ _) _) = _ |- _ => simpl in Hk end.
  all: try solve [eapply sinv_done; [exact I | eassumption | eassumption | ..]; simpl; try reflexivity; try congruence; kind_tac I].
  all: match goal with Hl : ?t0 < nt ?s0 |- _ => eapply sinv_frame with (t := t0); [exact I | exact Hl | ..] end; try solve [side].
  all: upd_simpl; rewrite ?Nat.eqb_refl; simpl; rewrite ?Hpc; simpl; try reflexivity.
  all: try solve [kind_tac I].
  all: try solve [intros b0 Hb0; inversion Hb0; subst;
                  first [ match goal with Ha : active _ = Some _ |- _ => pose proof (i_act_nb _ I _ Ha); lia end
                        | match goal with Hl : ?t0 < nt ?s0, Hp : t_pc (thr ?s0 ?t0) = _ |- _ =>
                            let R := fresh "R" in pose proof (i_refs _ I t0 b0 Hl) as R; rewrite Hp in R; simpl in R; auto end ]].
  all: try solve [intros Hw Hx; split; [assumption|]; intros Et;
                  let Wk := fresh "Wk" in destruct (i_watcher _ I Hw) as [_ Wk]; rewrite <- Et in Wk;
                  try congruence; kind_tac I].
  all: try solve [intros b0 Hb0; destruct (active s) eqn:Ha; inversion Hb0; subst; pose proof (i_act_nb _ I _ Ha); lia].
Qed.

Lemma sinv_run : forall s tr s', run s tr s' -> SInv s -> SInv s'.
Proof.
  intros s tr s' R. induction R as [s0 | s0 tr s1 a s2 l R IH E]; intros I; auto.
  apply (sinv_step s1 a s2 l); auto.
Qed.

Lemma sinv_reachable : forall s, reachable s -> SInv s.
Proof. intros s [tr R]. eapply sinv_run; eauto. apply sinv_init. Qed.

(* ---- at most one build runs at a time ---- *)
Lemma one_build_running : forall s, reachable s ->
  forall t1 t2 b1 b2, t1 < nt s -> t2 < nt s ->
    phase_of (t_pc (thr s t1)) = Some b1 -> phase_of (t_pc (thr s t2)) = Some b2 ->
    t1 = t2 /\ b1 = b2.
Proof.
  intros s R t1 t2 b1 b2 H1 H2 P1 P2. pose proof (sinv_reachable _ R) as I.
  destruct (i_phase _ I t1 b1 H1 P1) as [A1 O1].
  destruct (i_phase _ I t2 b2 H2 P2) as [A2 O2].
  rewrite A1 in A2. inversion A2; subst. split; auto.
Qed.

(* ---- progress (deadlock freedom) ---- *)
Lemma some_pair_ex : forall (x : state * label), exists s' l, Some x = Some (s', l).
Proof. intros [a b]. eauto. Qed.

Definition guard_free (p : pc) : bool :=
  match p with
  | PRbJoin _ | PCaWait _ | PDiWait _ | PWfWait _ | PDiStopWait _ | PWlSleep | PRet _ => false
  | _ => true
  end.

Lemma enabled_nonguard : forall s t, t < nt s -> guard_free (t_pc (thr s t)) = true ->
  exists s' l, exec s (AStep t) = Some (s', l).
Proof.
  intros s t Ht G. simpl. unfold exec_step.
  apply Nat.ltb_lt in Ht. rewrite Ht. simpl.
  destruct (t_pc (thr s t)); simpl in *; try discriminate;
    repeat match goal with
           | |- context [if ?c then _ else _] => destruct c
           | |- context [match ?c with _ => _ end] => destruct c
           end; eauto using some_pair_ex.
Qed.

Lemma owner_enabled : forall s b, SInv s -> b < nb s -> b_done (blds s b) = false ->
  exists s' l, exec s (AStep (b_owner (blds s b))) = Some (s', l).
Proof.
  intros s b I Hb Hd. destruct (i_undone _ I b Hb Hd) as [Ho [P|P]];
    apply enabled_nonguard; auto;
    destruct (t_pc (thr s (b_owner (blds s b)))); simpl in *; try discriminate; auto.
Qed.

Lemma wait_enabled : forall s t b, SInv s -> t < nt s -> ref_of (t_pc (thr s t)) = Some b ->
  (b_done (blds s b) = true -> exists s' l, exec s (AStep t) = Some (s', l)) ->
  exists a s' l, system a = true /\ exec s a = Some (s', l).
Proof.
  intros s t b I Ht Hr Hen.
  destruct (b_done (blds s b)) eqn:Hd.
  - destruct (Hen eq_refl) as [s' [l E]]. exists (AStep t), s', l. auto.
  - pose proof (i_refs _ I t b Ht Hr) as Hb.
    destruct (owner_enabled s b I Hb Hd) as [s' [l E]]. exists (AStep (b_owner (blds s b))), s', l. auto.
Qed.

Lemma step_if_done : forall s t, t < nt s ->
  forall b, (t_pc (thr s t) = PRbJoin b \/ t_pc (thr s t) = PCaWait b \/ t_pc (thr s t) = PDiWait b \/ t_pc (thr s t) = PWfWait b) ->
  b_done (blds s b) = true -> exists s' l, exec s (AStep t) = Some (s', l).
Proof.
  intros s t Ht b Hp Hd. simpl. unfold exec_step. apply Nat.ltb_lt in Ht. rewrite Ht. simpl.
  destruct Hp as [E|[E|[E|E]]]; rewrite E; rewrite Hd; eauto using some_pair_ex.
Qed.

Lemma thread_progress : forall s t, SInv s -> t < nt s -> is_ret (t_pc (thr s t)) = false ->
  (t_pc (thr s t) <> PWlSleep) ->
  (forall ob, t_pc (thr s t) <> PDiStopWait ob) ->
  exists a s' l, system a = true /\ exec s a = Some (s', l).
Proof.
  intros s t I Ht Hr Hs Hd.
  destruct (guard_free (t_pc (thr s t))) eqn:G.
  - destruct (enabled_nonguard s t Ht G) as [s' [l E]]. exists (AStep t), s', l. auto.
  - destruct (t_pc (thr s t)) eqn:Hpc; simpl in *; try discriminate; try congruence.
    + eapply wait_enabled with (t := t) (b := b); eauto. rewrite Hpc; reflexivity.
      intros. eapply step_if_done; eauto.
    + eapply wait_enabled with (t := t) (b := b); eauto. rewrite Hpc; reflexivity.
      intros. eapply step_if_done; eauto.
    + eapply wait_enabled with (t := t) (b := b); eauto. rewrite Hpc; reflexivity.
      intros. eapply step_if_done; eauto.
    + eapply wait_enabled with (t := t) (b := b); eauto. rewrite Hpc; reflexivity.
      intros. eapply step_if_done; eauto 6.
Qed.

Lemma progress_inv : forall s, SInv s ->
  forall t, t < nt s -> is_ret (t_pc (thr s t)) = false ->
  exists a s' l, system a = true /\ exec s a = Some (s', l).
Proof.
  intros s I t Ht Hr.
  destruct (t_pc (thr s t)) eqn:Hpc;
    try (apply (thread_progress s t I Ht); rewrite ?Hpc; auto; intros; congruence).
  - (* PDiStopWait: watcher.stop() waits for the watcher goroutine *)
    destruct (watcher s && negb (wexited s)) eqn:W.
    + apply andb_true_iff in W as [W1 W2]. apply negb_true_iff in W2.
      destruct (i_watcher _ I W1) as [Hw Kw].
      pose proof (i_wlive _ I W1 W2) as Lw.
      destruct (t_pc (thr s (wtid s))) eqn:Hwp;
        try (apply (thread_progress s (wtid s) I Hw); rewrite ?Hwp; auto; intros; congruence).
      * pose proof (i_kind _ I _ Hw) as K. rewrite Kw, Hwp in K. discriminate.
      * exists (ATick false). simpl. rewrite W1, Hwp. eauto.
    + exists (AStep t). simpl. unfold exec_step. apply Nat.ltb_lt in Ht. rewrite Ht. simpl.
      rewrite Hpc, W. destruct ob; [eauto|]. destruct (ret s t RvUnit) as [s1 l1]. eauto.
  - (* PWlSleep: time passes *)
    pose proof (i_kind _ I t Ht) as K. rewrite Hpc in K.
    destruct (t_kind (thr s t)) as [[]| |] eqn:Kt; simpl in K; try discriminate.
    destruct (i_wuniq _ I t Ht Kt) as [W E]. subst t.
    exists (ATick false). simpl. rewrite W, Hpc. eauto.
Qed.
