(* Invariants of the context LTS (CtxLTS.v), by induction over runs. *)
From V Require Import Common.Base C20.CtxLTS.
Local Close Scope Z_scope.
Local Open Scope nat_scope.

(* classification of program counters *)
Definition phase_of (p : pc) : option nat :=
  match p with
  | PRbOnStart b | PRbPoll b | PRbLoad b | PRbEnd b _ | PRbPublish b => Some b
  | _ => None
  end.
Definition done_of (p : pc) : option nat := match p with PRbDone b => Some b | _ => None end.
Definition ref_of (p : pc) : option nat :=
  match p with
  | PRbJoin b | PRbOnStart b | PRbPoll b | PRbLoad b | PRbEnd b _ | PRbPublish b | PRbDone b
  | PCaSet b | PCaWait b | PDiStop (Some b) | PDiStopWait (Some b) | PDiWait b | PWfWait b => Some b
  | _ => None
  end.
Definition is_ret (p : pc) : bool := match p with PRet _ => true | _ => false end.

Definition rb_pc (p : pc) : bool :=
  match p with
  | PRbStart | PRbJoin _ | PRbOnStart _ | PRbPoll _ | PRbLoad _ | PRbEnd _ _ | PRbPublish _ | PRbDone _ => true
  | _ => false
  end.
Definition pc_ok (k : kind) (p : pc) : bool :=
  match k with
  | KClient OpRebuild => rb_pc p || is_ret p
  | KClient OpCancel => match p with PCaStart | PCaSet _ | PCaWait _ | PRet _ => true | _ => false end
  | KClient OpDispose => match p with PDiStart | PDiStop _ | PDiStopWait _ | PDiWait _ | PRet _ => true | _ => false end
  | KClient OpWatch => match p with PWaStart | PRet _ => true | _ => false end
  | KWatchFirst => rb_pc p || is_ret p || match p with PWfStart | PWfWait _ => true | _ => false end
  | KWatcher => rb_pc p || match p with PWlCheck | PWlSleep => true | PRet _ => true | _ => false end
  end.

Record SInv (s : state) : Prop := mkSInv {
  i_act_nb : forall b, active s = Some b -> S b = nb s;
  i_act_owner : forall b, active s = Some b ->
      b_owner (blds s b) < nt s /\ phase_of (t_pc (thr s (b_owner (blds s b)))) = Some b;
  i_act_undone : forall b, active s = Some b -> b_done (blds s b) = false;
  i_phase : forall t b, t < nt s -> phase_of (t_pc (thr s t)) = Some b ->
      active s = Some b /\ b_owner (blds s b) = t;
  i_donepc : forall t b, t < nt s -> done_of (t_pc (thr s t)) = Some b ->
      b < nb s /\ b_owner (blds s b) = t /\ b_done (blds s b) = false /\ active s <> Some b;
  i_undone : forall b, b < nb s -> b_done (blds s b) = false ->
      b_owner (blds s b) < nt s /\
      (phase_of (t_pc (thr s (b_owner (blds s b)))) = Some b \/
       done_of (t_pc (thr s (b_owner (blds s b)))) = Some b);
  i_refs : forall t b, t < nt s -> ref_of (t_pc (thr s t)) = Some b -> b < nb s;
  i_kind : forall t, t < nt s -> pc_ok (t_kind (thr s t)) (t_pc (thr s t)) = true;
  i_watcher : watcher s = true -> wtid s < nt s /\ t_kind (thr s (wtid s)) = KWatcher;
  i_wlive : watcher s = true -> wexited s = false -> is_ret (t_pc (thr s (wtid s))) = false;
  i_wuniq : forall t, t < nt s -> t_kind (thr s t) = KWatcher -> watcher s = true /\ t = wtid s }.

Lemma sinv_init : SInv init.
Proof.
  constructor; simpl; intros; try discriminate; try lia.
Qed.

(* generic simplification after a step has been exposed *)
Ltac upd_simpl :=
  repeat (unfold set_pc, set_thr, set_bld, upd, ret, finish_rebuild, result_of in *; simpl in *).

Ltac eqb_cases :=
  repeat match goal with
         | |- context [Nat.eqb ?a ?b] => destruct (Nat.eqb_spec a b); subst
         | H : context [Nat.eqb ?a ?b] |- _ => destruct (Nat.eqb_spec a b); subst
         end.

(* expose the effect of one action *)
Ltac step_cases H :=
  match type of H with
  | exec ?s ?a = Some _ =>
      destruct a as [o | | d | t]; simpl in H;
      [ inversion H; subst; clear H
      | inversion H; subst; clear H
      | destruct (watcher s) eqn:Hw; [| discriminate];
        destruct (t_pc (thr s (wtid s))) eqn:Hpc; try discriminate;
        inversion H; subst; clear H
      | unfold exec_step in H;
        destruct (t <? nt s) eqn:Hlt; simpl in H; [| discriminate];
        apply Nat.ltb_lt in Hlt;
        destruct (t_pc (thr s t)) eqn:Hpc; simpl in H;
        repeat match type of H with
               | (if ?c then _ else _) = _ => destruct c eqn:?
               | match ?c with _ => _ end = _ => destruct c eqn:?
               end;
        try discriminate; inversion H; subst; clear H ]
  end.

Lemma sinv_step : forall s a s' l, SInv s -> exec s a = Some (s', l) -> SInv s'.
Proof.
  intros s a s' l I H.
  step_cases H.
  all: idtac.
Abort.
