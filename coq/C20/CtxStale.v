(* The order "clear activeBuild, THEN release the waiters" matters: once the
   waiters of build b have been released (b_done), no thread can take a
   reference to b any more, so a Rebuild call made afterwards never returns b. *)
From V Require Import Common.Base C20.CtxLTS C20.CtxProofs.
Local Close Scope Z_scope.
Local Open Scope nat_scope.

Definition ret_build (p : pc) : option nat :=
  match p with PRet (RvBuild b _ _) | PWaRet (RvBuild b _ _) => Some b | _ => None end.

Ltac expose_all :=
  try (unfold finish_rebuild, ret, result_of in *);
  repeat match goal with
         | H1 : (match ?k with _ => _ end) = (_, _) |- _ => destruct k eqn:?
         end;
  repeat match goal with
         | H1 : (_, _) = (_, _) |- _ => inversion H1; subst; clear H1
         end.

(* a step gives a thread a reference to b only if b is still undone (it is the
   active build) or freshly allocated; a thread returns b only if it held a
   reference to b *)
Lemma step_ref : forall s a s' l, SInv s -> exec s a = Some (s', l) ->
  forall t b, t < nt s' ->
    (ref_of (t_pc (thr s' t)) = Some b \/ ret_build (t_pc (thr s' t)) = Some b) ->
    (t < nt s /\ (ref_of (t_pc (thr s t)) = Some b \/ ret_build (t_pc (thr s t)) = Some b))
    \/ (b < nb s /\ b_done (blds s b) = false) \/ b = nb s.
Proof.
  intros s a s' l I H.
  step_cases H; expose_all; intros t0 b0 Ht0 Hr; upd_simpl.
  all: repeat match goal with
              | H : context [Nat.eqb ?x ?y] |- _ => destruct (Nat.eqb_spec x y); subst; simpl in H
              end.
  all: repeat match goal with
              | H : context [match b_result ?x with _ => _ end] |- _ => destruct (b_result x) as [[? ?]|] eqn:?; simpl in H
              end.
  all: try (destruct d; simpl in Hr).
  all: try (left; split; [lia|assumption]; fail).
  all: try (destruct Hr as [Hr|Hr]; simpl in Hr; discriminate).
  all: try (destruct Hr as [Hr|Hr]; simpl in Hr; try discriminate; inversion Hr; subst;
            first [ right; right; reflexivity
                  | right; left;
                    match goal with Ha : active _ = Some ?n |- _ =>
                      split; [pose proof (i_act_nb _ I n Ha); lia | apply (i_act_undone _ I n Ha)] end
                  | left; split; [assumption|]; rewrite Hpc; simpl; auto ]; fail).
  1: { destruct o; destruct Hr as [Hr|Hr]; discriminate. }
  destruct (active s) as [n|] eqn:Ha; destruct Hr as [Hr|Hr]; try discriminate. inversion Hr; subst.
  right. left. split; [pose proof (i_act_nb _ I b0 Ha); lia | apply (i_act_undone _ I b0 Ha)].
Qed.

(* released waiters stay released; builds are never de-allocated *)
Lemma step_done_mono : forall s a s' l, exec s a = Some (s', l) ->
  nb s <= nb s' /\ forall b, b < nb s -> b_done (blds s b) = true -> b_done (blds s' b) = true.
Proof.
  intros s a s' l H.
  step_cases H; expose_all; upd_simpl; split; try lia; intros b0 Hb Hd;
    repeat match goal with
           | |- context [Nat.eqb ?x ?y] => destruct (Nat.eqb_spec x y); subst; simpl
           end; auto; try lia.
Qed.

(* the invariant carried from the state in which b's waiters were released *)
Lemma no_stale_join_run : forall s1 tr s2, run s1 tr s2 -> SInv s1 ->
  forall b, b < nb s1 -> b_done (blds s1 b) = true ->
  SInv s2 /\ b < nb s2 /\ b_done (blds s2 b) = true /\
  forall t, nt s1 <= t -> t < nt s2 ->
    ref_of (t_pc (thr s2 t)) <> Some b /\ ret_build (t_pc (thr s2 t)) <> Some b.
Proof.
  intros s1 tr s2 R. induction R as [s1 | s1 tr s2 a s3 l R IH E]; intros I b Hb Hd.
  - split; auto. split; auto. split; auto. intros t H1 H2. lia.
  - destruct (IH I b Hb Hd) as [I2 [Hb2 [Hd2 Hth]]].
    destruct (step_done_mono _ _ _ _ E) as [Hn Hm].
    split; [eapply sinv_step; eauto|]. split; [lia|]. split; [apply Hm; auto|].
    intros t Ht1 Ht3.
    assert (Q : ~ (ref_of (t_pc (thr s3 t)) = Some b \/ ret_build (t_pc (thr s3 t)) = Some b)).
    { intros Hr. destruct (step_ref _ _ _ _ I2 E t b Ht3 Hr) as [[Ht2 Hr2]|[[_ Hu]|Hf]].
      - destruct (Hth t Ht1 Ht2) as [N1 N2]. destruct Hr2; contradiction.
      - congruence.
      - lia. }
    split; intros X; apply Q; auto.
Qed.

