(* C20 specification side for plugin callbacks within ONE build, as an
   executable checker over the recorded callback trace (written from the
   property statement):
     - every on-start callback runs, each once; all of them have finished
       before any on-resolve / on-load / on-end callback begins;
     - each module identity is loaded at most once; the imports of a file are
       resolved after the file was loaded, and each (kind, specifier,
       attributes) of one file is resolved at most once (parseFile's resolver
       cache);
     - on-end callbacks run one after the other in registration order, each at
       most once, after the outputs are written; all of them unless an earlier
       one fails; no resolve/load after they began. *)
From V Require Import Common.Base.
Local Close Scope Z_scope.
Local Open Scope nat_scope.

Inductive pevent :=
| PSB (i : nat)                    (* on-start callback i begins *)
| PSE (i : nat)                    (* on-start callback i ends *)
| PRes                             (* an on-resolve callback runs (entry point, inject path, re-entrant build.Resolve) *)
| PResK (importer key : nat)       (* the on-resolve callback for import `key` (kind, specifier, attributes) of the loaded file `importer` *)
| PLoad (id : nat)                 (* the on-load callback runs for module identity id *)
| PEB (i : nat) (written : bool)   (* on-end callback i begins; were this build's outputs on disk? *)
| PEE (i : nat) (failed : bool).   (* on-end callback i ends *)

Fixpoint memn (k : nat) (l : list nat) : bool :=
  match l with [] => false | x :: r => Nat.eqb k x || memn k r end.

Record pmon := mkPM {
  pm_sb : list nat;        (* on-start callbacks begun *)
  pm_se : list nat;        (* on-start callbacks ended *)
  pm_loaded : list nat;    (* identities loaded *)
  pm_endNext : nat;        (* next on-end callback *)
  pm_endOpen : bool;
  pm_endStopped : bool;
  pm_endSeen : bool;
  pm_resolved : list (nat * nat) }.  (* (importer, key) already resolved *)

Fixpoint memp (a b : nat) (l : list (nat * nat)) : bool :=
  match l with [] => false | (x, y) :: r => (Nat.eqb a x && Nat.eqb b y) || memp a b r end.

Definition pmon0 := mkPM [] [] [] 0 false false false [].

Definition pm_step (nS nE : nat) (m : pmon) (e : pevent) : option pmon :=
  match e with
  | PSB i =>
      if (i <? nS) && negb (memn i (pm_sb m)) && negb (pm_endSeen m)
      then Some (mkPM (i :: pm_sb m) (pm_se m) (pm_loaded m) (pm_endNext m) (pm_endOpen m) (pm_endStopped m) (pm_endSeen m) (pm_resolved m))
      else None
  | PSE i =>
      if memn i (pm_sb m) && negb (memn i (pm_se m))
      then Some (mkPM (pm_sb m) (i :: pm_se m) (pm_loaded m) (pm_endNext m) (pm_endOpen m) (pm_endStopped m) (pm_endSeen m) (pm_resolved m))
      else None
  | PRes =>
      if Nat.eqb (length (pm_se m)) nS && negb (pm_endSeen m) then Some m else None
  | PResK imp key =>
      if Nat.eqb (length (pm_se m)) nS && negb (pm_endSeen m) && memn imp (pm_loaded m)
         && negb (memp imp key (pm_resolved m))
      then Some (mkPM (pm_sb m) (pm_se m) (pm_loaded m) (pm_endNext m) (pm_endOpen m) (pm_endStopped m) (pm_endSeen m)
                      ((imp, key) :: pm_resolved m))
      else None
  | PLoad id =>
      if Nat.eqb (length (pm_se m)) nS && negb (pm_endSeen m) && negb (memn id (pm_loaded m))
      then Some (mkPM (pm_sb m) (pm_se m) (id :: pm_loaded m) (pm_endNext m) (pm_endOpen m) (pm_endStopped m) (pm_endSeen m) (pm_resolved m))
      else None
  | PEB i w =>
      if Nat.eqb (length (pm_se m)) nS && negb (pm_endOpen m) && negb (pm_endStopped m)
         && Nat.eqb i (pm_endNext m) && (i <? nE) && w
      then Some (mkPM (pm_sb m) (pm_se m) (pm_loaded m) (pm_endNext m) true (pm_endStopped m) true (pm_resolved m))
      else None
  | PEE i f =>
      if pm_endOpen m && Nat.eqb i (pm_endNext m)
      then Some (mkPM (pm_sb m) (pm_se m) (pm_loaded m) (S (pm_endNext m)) false f (pm_endSeen m) (pm_resolved m))
      else None
  end.

Fixpoint pm_run (nS nE : nat) (m : pmon) (tr : list pevent) : option pmon :=
  match tr with
  | [] => Some m
  | e :: r => match pm_step nS nE m e with Some m' => pm_run nS nE m' r | None => None end
  end.

(* a trace prefix is acceptable *)
Definition build_trace_prefix_ok (nS nE : nat) (tr : list pevent) : bool :=
  match pm_run nS nE pmon0 tr with Some _ => true | None => false end.

(* a complete build: additionally, once on-end callbacks began and none is
   open, all of them ran unless one failed *)
Definition build_trace_ok (nS nE : nat) (tr : list pevent) : bool :=
  match pm_run nS nE pmon0 tr with
  | Some m =>
      if pm_endSeen m && negb (pm_endOpen m) && negb (pm_endStopped m)
      then Nat.eqb (pm_endNext m) nE else true
  | None => false
  end.
