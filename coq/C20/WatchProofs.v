(* Invariants of the watch/serve model for all interleavings. *)
From V Require Import Common.Base C20.WatchServe.
Local Close Scope Z_scope.
Local Open Scope nat_scope.

Definition client_build (c : wcl) : option nat :=
  match c with CNone => None | CStarted b _ | CRead b _ _ => Some b end.

Record WInv (s : ws) : Prop := mkWI {
  k_watched : w_watched s <= w_edits s;
  k_tick : w_lastTick s <= w_edits s;
  k_builds : w_wbuilds s <= w_lastTick s;
  k_idle : (w_wpc s = WCheck \/ w_wpc s = WSleep) -> w_lastTick s <= w_watched s;
  k_cread : forall b cw v, w_client s = CRead b cw v -> w_lastTick s <= v /\ v <= w_edits s;
  k_wread : forall b v, w_wpc s = WOwnRead b v -> w_lastTick s <= v /\ v <= w_edits s;
  k_wset : forall v, w_wpc s = WSet v -> w_lastTick s <= v /\ v <= w_edits s;
  k_wjoin : forall b v, w_wpc s = WJoin b -> w_fver s b = Some v -> w_lastTick s <= v /\ v <= w_edits s;
  k_one : watcher_owns (w_wpc s) = true -> w_client s = CNone;
  k_active : forall b, client_build (w_client s) = Some b -> S b = w_nb s /\ w_fver s b = None;
  k_wactive : forall b, (w_wpc s = WOwn b \/ exists v, w_wpc s = WOwnRead b v) -> S b = w_nb s /\ w_fver s b = None;
  k_fin : forall b v, w_fver s b = Some v -> b < w_nb s;
  k_recent : forall b, w_recent s = Some b -> w_fver s b <> None /\ forall b' v, w_fver s b' = Some v -> b' <= b;
  k_disp : w_dispRet s = true ->
           w_disposed s = true /\ w_client s = CNone /\ (w_wpc s = WOff \/ w_wpc s = WExited);
  k_disp2 : w_disposed s = true -> w_recent s = None;
  k_off : w_wpc s = WOff -> w_lastTick s = 0;
  k_data : watching (w_wpc s) = true -> w_first s = false ->
           w_hasData s = true \/ exists b, w_client s = CStarted b true \/ exists v, w_client s = CRead b true v }.

Lemma winv0 : WInv ws0.
Proof.
  constructor; simpl; auto; try lia; intros; try discriminate;
    try (destruct H as [H|[? H]]; discriminate); try (destruct H; discriminate).
Qed.

(* try every old invariant on the goal *)
Ltac wold :=
  match goal with
  | K : (?p = WCheck \/ ?p = WSleep) -> _ |- _ => let H := fresh in intros H; specialize (K H); lia
  | K : forall b cw v, _ = CRead b cw v -> _ |- forall b cw v, _ = CRead b cw v -> _ =>
      let b := fresh in let cw := fresh in let v := fresh in let H := fresh in
      intros b cw v H; destruct (K b cw v H); split; lia
  | K : forall b v, _ = WOwnRead b v -> _ |- forall b v, _ = WOwnRead b v -> _ =>
      let b := fresh in let v := fresh in let H := fresh in intros b v H; destruct (K b v H); split; lia
  | K : forall v, _ = WSet v -> _ |- forall v, _ = WSet v -> _ =>
      let v := fresh in let H := fresh in intros v H; destruct (K v H); split; lia
  | K : forall b v, _ = WJoin b -> _ -> _ |- forall b v, _ = WJoin b -> _ -> _ =>
      let b := fresh in let v := fresh in let H := fresh in let H2 := fresh in
      intros b v H H2; destruct (K b v H H2); split; lia
  end.

Ltac kdata :=
  let Hwt := fresh "Hwt" in let Hf := fresh "Hf" in
  intros Hwt Hf; simpl in *; try discriminate;
  first [ left; reflexivity
        | match goal with K : watching _ = true -> _ = false -> _ |- _ =>
            let X := fresh "X" in let b0 := fresh "b0" in let v0 := fresh "v0" in
            destruct (K ltac:(first [assumption | reflexivity]) Hf) as [X|[b0 [X|[v0 X]]]];
            [ left; rewrite ?X; auto; repeat match goal with |- context [if ?c then _ else _] => destruct c end; auto
            | first [ congruence | right; exists b0; left; congruence
                    | inversion X; subst; right; eexists; right; eexists; reflexivity
                    | inversion X; subst; left; reflexivity ]
            | first [ congruence | right; exists b0; right; exists v0; congruence
                    | inversion X; subst; left; reflexivity ] ]
          end ].

Lemma wexec_inv : forall s a s' l, WInv s -> wexec s a = Some (s', l) -> WInv s'.
Proof.
  intros s a s' l I H. pose proof I as I0. destruct I.
  destruct a; simpl in H.
  - (* edit *) inversion H; subst; clear H. constructor; simpl; auto; try lia; try wold.
  - (* expire *) inversion H; subst; clear H. constructor; simpl; auto. intros; discriminate.
  - (* watch *)
    destruct (negb (w_disposed s) && negb (watching (w_wpc s))) eqn:C; [|discriminate].
    inversion H; subst; clear H. apply andb_true_iff in C as [C1 C2]. apply negb_true_iff in C1, C2.
    destruct (w_wpc s) eqn:P; simpl in C2; try discriminate.
    constructor; simpl; auto; try (intros; discriminate).
      all: try solve [kdata].
    + intros _. rewrite (k_off0 eq_refl). lia.
    + intros b [Hx|[v Hx]]; discriminate.
    + intros Hd. destruct (k_disp0 Hd) as [D _]. congruence.
  - (* client start *)
    destruct (w_client s) eqn:Cc; try discriminate.
    destruct (negb (w_disposed s) && negb (watcher_owns (w_wpc s))) eqn:C; [|discriminate].
    inversion H; subst; clear H. apply andb_true_iff in C as [C1 C2]. apply negb_true_iff in C1, C2.
    constructor; simpl; auto; try (intros; discriminate); try wold.
      all: try solve [kdata].
    all: try solve [intros X; congruence].
    all: try solve [intros b Hb; inversion Hb; subst; split; auto;
                    destruct (w_fver s (w_nb s)) eqn:F; auto; apply k_fin0 in F; lia].
    all: try solve [intros b Hb; exfalso; destruct Hb as [Hb|[v Hb]]; rewrite Hb in C2; discriminate].
    all: try solve [intros b v F; apply k_fin0 in F; lia].
    all: try solve [intros Hd; destruct (k_disp0 Hd) as [D _]; congruence].
  - (* client read *)
    destruct (w_client s) eqn:Cc; try discriminate.
    inversion H; subst; clear H.
    constructor; simpl; auto; try wold.
      all: try solve [kdata].
    all: try solve [intros b0 cw0 v0 E; inversion E; subst; split; auto].
    all: try solve [intros X; specialize (k_one0 X); discriminate].
    all: try solve [intros b0 Hb; inversion Hb; subst; apply k_active0; reflexivity].
    all: try solve [intros Hd; destruct (k_disp0 Hd) as [_ [D _]]; discriminate].
  - (* client finish *)
    destruct (w_client s) eqn:Cc; try discriminate.
    inversion H; subst; clear H.
    destruct (k_cread0 b cw v eq_refl) as [R1 R2].
    destruct (k_active0 b eq_refl) as [A1 A2].
    constructor; simpl; auto; try (intros; discriminate); try wold.
      all: try solve [kdata].
    all: try solve [destruct cw; lia].
    all: try solve [intros Hi; specialize (k_idle0 Hi); destruct cw; lia].
    all: try solve [intros b0 v0 Hj; unfold updf; destruct (Nat.eqb_spec b0 b); intros E;
                    [inversion E; subst; split; lia | apply (k_wjoin0 b0 v0 Hj E)]].
    all: try solve [intros b0 Hb; destruct (k_wactive0 b0 Hb) as [W1 W2]; split; auto; unfold updf;
                    destruct (Nat.eqb_spec b0 b); auto; subst; exfalso;
                    assert (O : watcher_owns (w_wpc s) = true) by (destruct Hb as [Hb|[x Hb]]; rewrite Hb; reflexivity);
                    specialize (k_one0 O); discriminate].
    all: try solve [intros b0 v0; unfold updf; destruct (Nat.eqb_spec b0 b); intros E; [lia|eauto]].
    all: try solve [destruct (w_disposed s); [intros; discriminate|]; intros b0 E; inversion E; subst b0; unfold updf; split;
                    [rewrite Nat.eqb_refl; discriminate |
                     intros b' v'; destruct (Nat.eqb_spec b' b); intros F; [lia|]; apply k_fin0 in F; lia]].
    all: try solve [intros Hd; destruct (k_disp0 Hd) as [_ [D _]]; discriminate].
    all: try solve [intros D; rewrite D; reflexivity].
  - (* the first watch-mode build starts: no build is in flight *)
    destruct (w_client s) eqn:Cc; try discriminate.
    destruct (w_first s && negb (w_disposed s) && negb (watcher_owns (w_wpc s))) eqn:C; [|discriminate].
    inversion H; subst; clear H. apply andb_true_iff in C as [C C2]. apply andb_true_iff in C as [C0 C1].
    apply negb_true_iff in C1, C2.
    constructor; simpl; auto; try (intros; discriminate); try wold.
    all: try solve [intros X; congruence].
    all: try solve [intros b Hb; inversion Hb; subst; split; auto;
                    destruct (w_fver s (w_nb s)) eqn:F; auto; apply k_fin0 in F; lia].
    all: try solve [intros b Hb; exfalso; destruct Hb as [Hb|[v Hb]]; rewrite Hb in C2; discriminate].
    all: try solve [intros b v F; apply k_fin0 in F; lia].
    all: try solve [intros Hd; destruct (k_disp0 Hd) as [D _]; congruence].
    all: try solve [intros _ _; right; eexists; left; reflexivity].
  - (* serve from the recent build *)
    destruct (w_client s); try discriminate. destruct (w_recent s); try discriminate.
    destruct (watcher_owns (w_wpc s)); [discriminate|]. inversion H; subst; clear H.
    exact I0.
  - (* the watcher goroutine *)
    destruct (w_wpc s) eqn:P; try discriminate.
    + (* WCheck *)
      inversion H; subst; clear H.
      constructor; simpl; auto; try wold; try (destruct (w_stop s); intros; discriminate).
        all: try solve [kdata].
      all: try solve [destruct (w_stop s); intros [X|X]; try discriminate; apply k_idle0; auto].
      all: try solve [destruct (w_stop s); intros X; simpl in X; discriminate].
      all: try solve [intros b [X|[v X]]; destruct (w_stop s); discriminate].
      all: try solve [intros Hd; destruct (k_disp0 Hd) as [_ [_ [X|X]]]; discriminate].
    + (* WSleep: a tick *)
      destruct (w_hasData s && (w_watched s <? w_edits s)) eqn:Dirty.
      * apply andb_true_iff in Dirty as [HasD Dirty]. apply Nat.ltb_lt in Dirty.
        destruct (w_disposed s) eqn:Dsp.
        -- inversion H; subst; clear H. constructor; simpl; auto; try wold; try (intros; discriminate).
          all: try solve [kdata].
           all: try solve [intros b [X|[v X]]; discriminate].
           all: try solve [intros Hd; destruct (k_disp0 Hd) as [_ [_ [X|X]]]; discriminate].
        -- assert (Li : w_lastTick s <= w_watched s) by (apply k_idle0; auto).
           destruct (w_client s) eqn:Cc; inversion H; subst; clear H.
           ++ (* its own build *)
              constructor; simpl; auto; try lia; try (intros; discriminate).
                all: try solve [kdata].
              all: try solve [intros [X|X]; discriminate].
              all: try solve [intros b [X|[v X]]; try discriminate; inversion X; subst; split; auto;
                              destruct (w_fver s (w_nb s)) eqn:F; auto; apply k_fin0 in F; lia].
              all: try solve [intros b v F; apply k_fin0 in F; lia].
              all: try solve [intros Hd; destruct (k_disp0 Hd) as [D _]; congruence].
           ++ constructor; simpl; auto; try wold; try (intros; discriminate).
             all: try solve [kdata].
              all: try solve [intros [X|X]; discriminate].
              all: try solve [intros b0 v0 E F; inversion E; subst b0; destruct (k_active0 b eq_refl) as [_ N]; congruence].
              all: try solve [intros b0 [X|[v X]]; discriminate].
              all: try solve [intros Hd; destruct (k_disp0 Hd) as [_ [D _]]; discriminate].
           ++ constructor; simpl; auto; try wold; try (intros; discriminate).
             all: try solve [kdata].
              all: try solve [intros [X|X]; discriminate].
              all: try solve [intros b0 v0 E F; inversion E; subst b0; destruct (k_active0 b eq_refl) as [_ N]; congruence].
              all: try solve [intros b0 [X|[v0 X]]; discriminate].
              all: try solve [intros Hd; destruct (k_disp0 Hd) as [_ [D _]]; discriminate].
      * inversion H; subst; clear H. constructor; simpl; auto; try wold; try (intros; discriminate).
        all: try solve [kdata].
        all: try solve [intros _; apply k_idle0; auto].
        all: try solve [intros b [X|[v X]]; discriminate].
        all: try solve [intros Hd; destruct (k_disp0 Hd) as [_ [_ [X|X]]]; discriminate].
    + (* WOwn: read *)
      inversion H; subst; clear H.
      constructor; simpl; auto; try wold; try (intros; discriminate).
        all: try solve [kdata].
      all: try solve [intros [X|X]; discriminate].
      all: try solve [intros b0 v0 E; inversion E; subst; split; auto].
      all: try solve [intros _; apply k_one0; reflexivity].
      all: try solve [intros b0 [X|[v X]]; [discriminate|]; inversion X; subst; apply k_wactive0; auto].
      all: try solve [intros Hd; destruct (k_disp0 Hd) as [_ [_ [X|X]]]; discriminate].
    + (* WOwnRead: the owner records the watch data and publishes *)
      inversion H; subst; clear H.
      destruct (k_wread0 b v eq_refl) as [R1 R2].
      destruct (k_wactive0 b (or_intror (ex_intro _ v eq_refl))) as [A1 A2].
      constructor; simpl; auto; try lia; try wold; try (intros; discriminate).
        all: try solve [kdata].
      all: try solve [intros [X|X]; discriminate].
      all: try solve [intros v0 E; inversion E; subst; split; auto].
      all: try solve [intros b0 Hb; destruct (k_active0 b0 Hb) as [W1 W2]; split; auto; unfold updf;
                      destruct (Nat.eqb_spec b0 b); auto; subst; exfalso;
                      specialize (k_one0 eq_refl); rewrite k_one0 in Hb; discriminate].
      all: try solve [intros b0 [X|[v0 X]]; discriminate].
      all: try solve [intros b0 v0; unfold updf; destruct (Nat.eqb_spec b0 b); intros E; [lia|eauto]].
      all: try solve [destruct (w_disposed s); [intros; discriminate|]; intros b0 E; inversion E; subst b0; unfold updf; split;
                      [rewrite Nat.eqb_refl; discriminate |
                       intros b' v'; destruct (Nat.eqb_spec b' b); intros F; [lia|]; apply k_fin0 in F; lia]].
      all: try solve [intros Hd; destruct (k_disp0 Hd) as [_ [_ [X|X]]]; discriminate].
      all: try solve [intros D; rewrite D; reflexivity].
    + (* WJoin *)
      destruct (w_fver s b) eqn:F; [|discriminate]. inversion H; subst; clear H.
      constructor; simpl; auto; try wold; try (intros; discriminate).
        all: try solve [kdata].
      all: try solve [intros [X|X]; discriminate].
      all: try solve [intros v0 E; inversion E; subst; apply (k_wjoin0 b v0 eq_refl F)].
      all: try solve [intros b0 [X|[v0 X]]; discriminate].
      all: try solve [intros Hd; destruct (k_disp0 Hd) as [_ [_ [X|X]]]; discriminate].
    + (* WSet: the watcher goroutine records the watch data again *)
      inversion H; subst; clear H.
      destruct (k_wset0 v eq_refl) as [R1 R2].
      constructor; simpl; auto; try lia; try wold; try (intros; discriminate).
        all: try solve [kdata].
      all: try solve [intros b0 [X|[v0 X]]; discriminate].
      all: try solve [intros Hd; destruct (k_disp0 Hd) as [_ [_ [X|X]]]; discriminate].
  - (* dispose starts *)
    destruct (w_disposed s) eqn:Dsp; [discriminate|]. inversion H; subst; clear H.
    constructor; simpl; auto; try wold; try (intros; discriminate).
      all: try solve [kdata].
    all: try solve [intros Hd; destruct (k_disp0 Hd) as [D _]; congruence].
  - (* dispose returns *)
    destruct (w_disposed s && match w_wpc s with WOff | WExited => true | _ => false end
              && match w_client s with CNone => true | _ => false end) eqn:C; [|discriminate].
    inversion H; subst; clear H.
    apply andb_true_iff in C as [C C3]. apply andb_true_iff in C as [C1 C2].
    constructor; simpl; auto.
      all: try solve [kdata].
    intros _. split; auto. split.
    + destruct (w_client s); auto; discriminate.
    + destruct (w_wpc s); auto; discriminate.
Qed.

Lemma wrun_inv : forall acts s s' tr, WInv s -> wrun s acts = Some (s', tr) -> WInv s'.
Proof.
  induction acts as [|a r IH]; intros s s' tr I H; simpl in H.
  - inversion H; subst; auto.
  - destruct (wexec s a) as [[s1 l]|] eqn:E; [|discriminate].
    destruct (wrun s1 r) as [[s2 tr2]|] eqn:R; [|discriminate]. inversion H; subst.
    apply (IH s1 s' tr2); auto. eapply wexec_inv; eauto.
Qed.

(* coalescing: the watcher starts a build only for a change it has not built
   yet - never more builds than edits, in every prefix of every run *)
Lemma wrun_trace : forall acts s s' tr, WInv s -> wrun s acts = Some (s', tr) ->
  wtrace_go 0 (w_wbuilds s) (w_edits s) tr = true.
Proof.
  induction acts as [|a r IH]; intros s s' tr I H; simpl in H.
  - inversion H; subst. reflexivity.
  - destruct (wexec s a) as [[s1 l]|] eqn:E; [|discriminate].
    destruct (wrun s1 r) as [[s2 tr2]|] eqn:R; [|discriminate]. inversion H; subst; clear H.
    pose proof (wexec_inv _ _ _ _ I E) as I1. specialize (IH _ _ _ I1 R).
    assert (Hl : (l = WEdit /\ w_wbuilds s1 = w_wbuilds s /\ w_edits s1 = S (w_edits s)) \/
                 ((exists b, l = WBuild b) /\ w_wbuilds s1 = S (w_wbuilds s) /\ w_edits s1 = w_edits s) \/
                 ((l = WTau \/ exists b, l = WServed b) /\ w_wbuilds s1 = w_wbuilds s /\ w_edits s1 = w_edits s)).
    { destruct a; simpl in E;
        repeat match type of E with
               | (if ?c then _ else _) = _ => destruct c
               | match ?c with _ => _ end = _ => destruct c
               end; try discriminate; inversion E; subst; simpl; eauto 8. }
    destruct Hl as [[-> [E1 E2]]|[[[b ->] [E1 E2]]|[[->|[b ->]] [E1 E2]]]]; cbn [wtrace_go]; rewrite E1, E2 in IH; auto.
    rewrite IH, andb_true_r. apply Nat.leb_le.
    pose proof (k_builds _ I1). pose proof (k_tick _ I1). lia.
Qed.

Theorem watch_builds_coalesced : forall acts s' tr, wrun ws0 acts = Some (s', tr) ->
  wtrace_ok 0 tr = true /\ w_wbuilds s' <= w_edits s'.
Proof.
  intros acts s' tr H. split.
  - exact (wrun_trace acts ws0 s' tr winv0 H).
  - pose proof (wrun_inv _ _ _ _ winv0 H) as I. pose proof (k_builds _ I). pose proof (k_tick _ I). lia.
Qed.

(* the recorded watch data never runs ahead of the inputs; at most one build at a time *)
Theorem watch_safety : forall acts s' tr, wrun ws0 acts = Some (s', tr) ->
  w_watched s' <= w_edits s' /\ (watcher_owns (w_wpc s') = true -> w_client s' = CNone).
Proof.
  intros acts s' tr H. pose proof (wrun_inv _ _ _ _ winv0 H) as I. split; [apply (k_watched _ I)|apply (k_one _ I)].
Qed.

(* Dispose returns only after the watcher goroutine has exited and no build is
   active, and from then on nothing is ever built or served *)
Theorem dispose_stops_watcher_all : forall acts s tr, wrun ws0 acts = Some (s, tr) -> w_dispRet s = true ->
  (w_wpc s = WOff \/ w_wpc s = WExited) /\ w_client s = CNone /\ w_recent s = None /\
  forall a s' l, wexec s a = Some (s', l) -> (forall b, l <> WBuild b) /\ (forall b, l <> WServed b) /\ w_nb s' = w_nb s.
Proof.
  intros acts s tr H D. pose proof (wrun_inv _ _ _ _ winv0 H) as I.
  destruct (k_disp _ I D) as [Dd [Cc Wp]]. pose proof (k_disp2 _ I Dd) as Rc.
  repeat split; auto; destruct a; simpl in H0; rewrite ?Dd, ?Cc, ?Rc in H0; simpl in H0;
    destruct Wp as [Wp|Wp]; rewrite ?Wp in H0; simpl in H0; rewrite ?andb_false_r in H0; simpl in H0;
    repeat match type of H0 with
           | (if ?c then _ else _) = _ => destruct c
           | match ?c with _ => _ end = _ => destruct c
           end; try discriminate; inversion H0; subst; simpl; auto; intros; discriminate.
Qed.

(* the dev server's "recent build" is always the most recently finished build *)
Theorem serve_recent_is_latest_all : forall acts s tr b, wrun ws0 acts = Some (s, tr) -> w_recent s = Some b ->
  w_fver s b <> None /\ forall b' v, w_fver s b' = Some v -> b' <= b.
Proof.
  intros acts s tr b H R. pose proof (wrun_inv _ _ _ _ winv0 H) as I. apply (k_recent _ I b R).
Qed.

(* The first watch-mode build starts only when no build is in flight (that is
   what `if build != nil { build.waitGroup.Wait() }` in Watch's goroutine is
   for), and it is a build begun after watch mode was switched on *)
Theorem first_build_after_inflight : forall s s' l, wexec s XFirstStart = Some (s', l) ->
  w_client s = CNone /\ w_client s' = CStarted (w_nb s) true /\ w_first s' = false.
Proof.
  intros s s' l H. simpl in H. destruct (w_client s); try discriminate.
  destruct (w_first s && negb (w_disposed s) && negb (watcher_owns (w_wpc s))); [|discriminate].
  inversion H; subst; simpl. auto.
Qed.

(* ... therefore, once that build is over, the watcher has watch data: *)
Theorem watch_data_after_first_build : forall acts s tr, wrun ws0 acts = Some (s, tr) ->
  watching (w_wpc s) = true -> w_first s = false -> w_client s = CNone -> w_hasData s = true.
Proof.
  intros acts s tr H Hw Hf Hc. pose proof (wrun_inv _ _ _ _ winv0 H) as I.
  destruct (k_data _ I Hw Hf) as [X|[b [X|[v X]]]]; auto; congruence.
Qed.

(* a change is never missed: whenever the watcher goroutine sleeps on a live
   context whose first watch-mode build is over, with no client build in flight
   and the recorded watch data behind the inputs, its next tick starts a build *)
Theorem change_is_noticed : forall acts s tr, wrun ws0 acts = Some (s, tr) ->
  w_wpc s = WSleep -> w_disposed s = false -> w_client s = CNone -> w_first s = false ->
  w_watched s < w_edits s -> exists s', wexec s XWatcher = Some (s', WBuild (w_nb s)).
Proof.
  intros acts s tr H P D C F L.
  assert (Hd : w_hasData s = true).
  { eapply watch_data_after_first_build; eauto. rewrite P. reflexivity. }
  simpl. rewrite P. apply Nat.ltb_lt in L. rewrite Hd, L, D, C. simpl. eauto.
Qed.

(* without the first watch-mode build the watcher has nothing to poll: a Watch
   switched on while a (non-watch) build is in flight records no data from
   that build, and a later edit is not noticed until the first build has run *)
Example no_data_no_build :
  option_map (fun x => wexec (fst x) XWatcher)
             (wrun ws0 [XClientStart; XWatch; XClientRead; XClientFinish; XEdit; XWatcher])
  = option_map (fun x => Some (mkW false false CNone WCheck (Some 0) 1 0 1 (w_fver (fst x)) 0 0 false false true, WTau))
               (wrun ws0 [XClientStart; XWatch; XClientRead; XClientFinish; XEdit; XWatcher]).
Proof. vm_compute. reflexivity. Qed.

(* but a change can be built twice: the watcher goroutine's second
   setWatchData (after rebuild() returned) may overwrite the newer watch data
   of a client build that ran in between, and the next tick rebuilds although
   the latest finished build already contains the current inputs *)
Definition wit_redundant : list wact :=
  [XWatch; XFirstStart; XClientRead; XClientFinish; XEdit; XWatcher; XWatcher; XWatcher; XWatcher; XEdit;
   XClientStart; XClientRead; XClientFinish; XWatcher; XWatcher].
Theorem redundant_watch_build_possible :
  exists s tr s' b, wrun ws0 wit_redundant = Some (s, tr) /\
    w_fver s b = Some (w_edits s) /\ w_client s = CNone /\
    wexec s XWatcher = Some (s', WBuild (w_nb s)).
Proof.
  destruct (wrun ws0 wit_redundant) as [[s tr]|] eqn:R; [|vm_compute in R; discriminate].
  vm_compute in R. inversion R; subst; clear R.
  eexists. eexists. eexists. exists 2. repeat split; vm_compute; reflexivity.
Qed.
