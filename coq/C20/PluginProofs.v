(* Every callback trace of the build model (Plugin.v) satisfies the
   specification checker (PluginSpec.v). *)
From V Require Import Common.Base C20.PluginSpec C20.Plugin.
Local Close Scope Z_scope.
Local Open Scope nat_scope.

Lemma memn_In : forall k l, memn k l = true <-> In k l.
Proof.
  induction l as [|x r IH]; simpl; [split; [discriminate|contradiction]|].
  rewrite orb_true_iff, IH, Nat.eqb_eq. split; intros [H|H]; auto.
Qed.

Lemma remove1_In : forall k x l, In x (remove1 k l) -> In x l.
Proof.
  induction l as [|y r IH]; simpl; auto. destruct (Nat.eqb_spec k y); auto.
  intros [H|H]; auto.
Qed.

Lemma remove1_In_or : forall k x l, In x l -> k = x \/ In x (remove1 k l).
Proof.
  induction l as [|y r IH]; simpl; intros H; [contradiction|].
  destruct (Nat.eqb_spec k y) as [E|N].
  - destruct H; [left; congruence | right; auto].
  - destruct H; [right; left; auto|]. destruct (IH H); auto. right. right. auto.
Qed.

Lemma remove1_NoDup : forall k l, NoDup l -> NoDup (remove1 k l) /\ ~ In k (remove1 k l).
Proof.
  induction l as [|y r IH]; simpl; intros H; [split; [constructor|auto]|].
  inversion H; subst. destruct (Nat.eqb_spec k y) as [E|N].
  - subst. auto.
  - destruct (IH H3) as [I1 I2]. split.
    + constructor; auto. intros C. apply H2. eapply remove1_In; eauto.
    + intros [C|C]; auto.
Qed.

(* relation between the model state and the monitor state *)
Record BInv (nS nE : nat) (s : bst) (m : pmon) : Prop := mkBInv {
  v_sb : pm_sb m = b_sb s;
  v_se : pm_se m = b_se s;
  v_loaded : pm_loaded m = b_loaded s;
  v_endNext : pm_endNext m = b_endNext s;
  v_endOpen : pm_endOpen m = b_endOpen s;
  v_endStopped : pm_endStopped m = b_endStopped s;
  v_seen : pm_endSeen m = true -> b_written s = true;
  v_sblt : forall x, In x (b_sb s) -> x < nS;
  v_sesub : forall x, In x (b_se s) -> In x (b_sb s);
  v_senodup : NoDup (b_se s);
  v_barrier : b_barrier s = true -> length (b_se s) = nS;
  v_written : b_written s = true -> b_barrier s = true /\ b_pending s = [] /\ b_parsing s = [];
  v_nodup : NoDup (b_pending s);
  v_disj : forall x, In x (b_pending s) -> ~ In x (b_loaded s);
  v_open : b_endOpen s = true -> b_written s = true /\ b_endNext s < nE;
  v_vis : forall x, In x (b_pending s) \/ In x (b_loaded s) -> In x (b_visited s);
  v_pbar : forall x, In x (b_pending s) -> b_barrier s = true;
  v_resolved : pm_resolved m = b_resolved s;
  v_parl : forall x, In x (b_parsing s) -> In x (b_loaded s) /\ b_barrier s = true;
  v_allvis : forall x, In x (b_visited s) -> In x (b_pending s) \/ In x (b_loaded s) }.

Lemma binv0 : forall nS nE, BInv nS nE bst0 pmon0.
Proof.
  intros. constructor; simpl; auto; try discriminate; try constructor; try contradiction.
  - intros x [H|H]; contradiction.
Qed.

(* all on-start callbacks have ended once the barrier is passed *)
Lemma all_ended : forall nS l i, NoDup l -> (forall x, In x l -> x < nS) -> length l = nS -> i < nS -> In i l.
Proof.
  intros nS l i ND B L Hi.
  assert (Inc : incl (seq 0 nS) l).
  { apply NoDup_length_incl; auto.
    - rewrite seq_length. lia.
    - intros x Hx. apply in_seq. specialize (B x Hx). lia. }
  apply Inc. apply in_seq. lia.
Qed.

Lemma bexec_sound : forall nS nE s m a s' oe,
  BInv nS nE s m -> bexec nS nE s a = Some (s', oe) ->
  exists m', (match oe with Some e => pm_step nS nE m e | None => Some m end) = Some m' /\ BInv nS nE s' m'.
Proof.
  intros nS nE s m a s' oe I H. destruct I.
  assert (ES : b_written s = false -> pm_endSeen m = false).
  { intros W. destruct (pm_endSeen m) eqn:E; auto. rewrite (v_seen0 eq_refl) in W. discriminate. }
  destruct a; simpl in H.
  - (* start begin *)
    destruct ((i <? nS) && negb (memn i (b_sb s)) && negb (b_barrier s)) eqn:C; [|discriminate].
    inversion H; subst; clear H. apply andb_true_iff in C as [C C3]. apply andb_true_iff in C as [C1 C2].
    apply negb_true_iff in C3.
    assert (W : b_written s = false).
    { destruct (b_written s) eqn:E; auto. destruct (v_written0 eq_refl). congruence. }
    eexists. split.
    + simpl. rewrite v_sb0, C1, C2, (ES W). simpl. reflexivity.
    + constructor; simpl; auto; try congruence.
      all: try solve [intros x Hx; destruct (v_parl0 x Hx); auto].
      all: try solve [intros x Hx; destruct (v_allvis0 x Hx); auto].
      all: try solve [intros Hw; destruct (v_written0 Hw) as [? [? ?]]; auto; congruence].
      all: try solve [intros x [E|Hx]; [subst; apply Nat.ltb_lt; auto|auto]].
  - (* start end *)
    destruct (memn i (b_sb s) && negb (memn i (b_se s))) eqn:C; [|discriminate].
    inversion H; subst; clear H.
    apply andb_true_iff in C as [C1 C2]. apply negb_true_iff in C2.
    assert (Hi : In i (b_sb s)) by (apply memn_In; auto).
    assert (Hn : ~ In i (b_se s)) by (intros X; apply memn_In in X; congruence).
    assert (NB : b_barrier s = false).
    { destruct (b_barrier s) eqn:E; auto. exfalso. apply Hn.
      apply (all_ended nS); auto. }
    eexists. split.
    + simpl. rewrite v_sb0, v_se0, C1, C2. reflexivity.
    + constructor; simpl; auto; try congruence.
      all: try solve [intros x Hx; destruct (v_parl0 x Hx); auto].
      all: try solve [intros x Hx; destruct (v_allvis0 x Hx); auto].
      all: try solve [intros Hw; destruct (v_written0 Hw) as [? [? ?]]; auto; congruence].
      all: try solve [intros x [E|Hx]; [subst; auto|auto]].
      all: try solve [constructor; auto].
      all: try solve [intros Hw; destruct (v_written0 Hw); congruence].
  - (* barrier *)
    destruct (Nat.eqb_spec (length (b_se s)) nS) as [E|N]; [|discriminate].
    inversion H; subst; clear H. exists m. split; auto.
    constructor; simpl; auto.
      all: try solve [intros x Hx; destruct (v_parl0 x Hx); auto].
      all: try solve [intros x Hx; destruct (v_allvis0 x Hx); auto].
      all: try solve [intros Hw; destruct (v_written0 Hw) as [? [? ?]]; auto; congruence].
    all: try solve [intros Hw; destruct (v_written0 Hw); auto].
  - (* visit *)
    destruct (b_barrier s && negb (b_written s)) eqn:C; [|discriminate].
    apply andb_true_iff in C as [C1 C2]. apply negb_true_iff in C2.
    destruct (memn id (b_visited s)) eqn:V; inversion H; subst; clear H; exists m; split; auto.
    + constructor; auto.
      all: try solve [intros x Hx; destruct (v_parl0 x Hx); auto].
      all: try solve [intros x Hx; destruct (v_allvis0 x Hx); auto].
      all: try solve [intros Hw; destruct (v_written0 Hw) as [? [? ?]]; auto; congruence].
    + assert (NV : ~ In id (b_visited s)) by (intros X; apply memn_In in X; congruence).
      constructor; simpl; auto; try congruence.
      all: try solve [intros x Hx; destruct (v_parl0 x Hx); auto].
      all: try solve [intros x Hx; destruct (v_allvis0 x Hx); auto].
      all: try solve [intros Hw; destruct (v_written0 Hw) as [? [? ?]]; auto; congruence].
      all: try solve [constructor; auto; intros X; apply NV; apply v_vis0; auto].
      all: try solve [intros x [E|Hx]; [subst; intros X; apply NV; apply v_vis0; auto | auto]].
      all: try solve [intros x [[E|Hx]|Hx]; auto].
      all: try solve [intros x [E|Hx]; [auto | destruct (v_allvis0 x Hx); auto]].
  - (* resolve *)
    destruct (b_barrier s && negb (b_written s)) eqn:C; [|discriminate].
    apply andb_true_iff in C as [C1 C2]. apply negb_true_iff in C2.
    inversion H; subst; clear H. exists m. split.
    + simpl. rewrite v_se0, (v_barrier0 C1), Nat.eqb_refl, (ES C2). reflexivity.
    + constructor; auto.
      all: try solve [intros x Hx; destruct (v_parl0 x Hx); auto].
      all: try solve [intros x Hx; destruct (v_allvis0 x Hx); auto].
      all: try solve [intros Hw; destruct (v_written0 Hw) as [? [? ?]]; auto; congruence].
  - (* load *)
    destruct (memn id (b_pending s)) eqn:C; [|discriminate].
    inversion H; subst; clear H.
    assert (Hp : In id (b_pending s)) by (apply memn_In; auto).
    assert (W : b_written s = false).
    { destruct (b_written s) eqn:E; auto. destruct (v_written0 eq_refl) as [_ [P _]]. rewrite P in Hp. contradiction. }
    pose proof (v_pbar0 id Hp) as B.
    assert (NL : memn id (b_loaded s) = false).
    { destruct (memn id (b_loaded s)) eqn:E; auto. apply memn_In in E. exfalso. eapply v_disj0; eauto. }
    destruct (remove1_NoDup id (b_pending s) v_nodup0) as [R1 R2].
    eexists. split.
    + simpl. rewrite v_se0, (v_barrier0 B), Nat.eqb_refl, (ES W), v_loaded0, NL. simpl. reflexivity.
    + constructor; simpl; auto; try congruence.
      all: try solve [intros x Hx; destruct (v_parl0 x Hx); auto].
      all: try solve [intros x Hx; destruct (v_allvis0 x Hx); auto].
      all: try solve [intros Hw; destruct (v_written0 Hw) as [? [? ?]]; auto; congruence].
      all: try solve [intros x Hx [E|Hl]; [rewrite <- E in Hx; exact (R2 Hx) | apply (v_disj0 x); auto; eapply remove1_In; eauto]].
      all: try solve [intros x [Hx|[E|Hx]]; auto; [apply v_vis0; left; eapply remove1_In; eauto | subst; apply v_vis0; auto]].
      all: try solve [intros x Hx; eapply v_pbar0; eapply remove1_In; eauto].
      all: try solve [intros x [E|Hx]; [subst; split; auto | destruct (v_parl0 x Hx); auto]].
      all: try solve [intros x Hx; destruct (v_allvis0 x Hx) as [Hq|Hq]; auto; destruct (remove1_In_or id x _ Hq); auto].
  - (* write *)
    destruct (b_barrier s && negb (b_written s) && match b_pending s with [] => true | _ => false end
              && match b_parsing s with [] => true | _ => false end) eqn:C; [|discriminate].
    inversion H; subst; clear H.
    apply andb_true_iff in C as [C C4]. apply andb_true_iff in C as [C C3]. apply andb_true_iff in C as [C1 C2].
    apply negb_true_iff in C2.
    destruct (b_pending s) eqn:P; [|discriminate]. destruct (b_parsing s) eqn:Pp; [|discriminate].
    exists m. split; auto.
    constructor; simpl; auto; try (rewrite P; auto; fail); try (rewrite Pp; auto; fail).
    all: try solve [intros Ho; destruct (v_open0 Ho); congruence].
    all: try solve [rewrite P in *; auto].
    all: try solve [intros x Hx; contradiction].
  - (* on-end begin *)
    destruct (b_written s && negb (b_endOpen s) && negb (b_endStopped s) && (b_endNext s <? nE)) eqn:C; [|discriminate].
    inversion H; subst; clear H.
    apply andb_true_iff in C as [C C4]. apply andb_true_iff in C as [C C3]. apply andb_true_iff in C as [C1 C2].
    destruct (v_written0 C1) as [B _].
    eexists. split.
    + simpl. rewrite v_se0, (v_barrier0 B), Nat.eqb_refl, v_endOpen0, v_endStopped0, v_endNext0, C2, C3, Nat.eqb_refl, C4.
      simpl. reflexivity.
    + constructor; simpl; auto.
      all: try solve [intros x Hx; destruct (v_parl0 x Hx); auto].
      all: try solve [intros x Hx; destruct (v_allvis0 x Hx); auto].
      all: try solve [intros Hw; destruct (v_written0 Hw) as [? [? ?]]; auto; congruence].
      all: try solve [intros _; split; auto; apply Nat.ltb_lt; auto].
  - (* on-end end *)
    destruct (b_endOpen s) eqn:C; [|discriminate].
    inversion H; subst; clear H.
    eexists. split.
    + simpl. rewrite v_endOpen0, v_endNext0, Nat.eqb_refl. simpl. reflexivity.
    + constructor; simpl; auto; try congruence.
      all: try solve [intros x Hx; destruct (v_parl0 x Hx); auto].
      all: try solve [intros x Hx; destruct (v_allvis0 x Hx); auto].
      all: try solve [intros Hw; destruct (v_written0 Hw) as [? [? ?]]; auto; congruence].
      all: try discriminate.
      all: try solve [intros _; destruct (v_open0 eq_refl); auto].
  - (* inject: resolve *)
    destruct (b_barrier s && negb (b_written s)) eqn:C; [|discriminate].
    apply andb_true_iff in C as [C1 C2]. apply negb_true_iff in C2.
    inversion H; subst; clear H. exists m. split.
    + simpl. rewrite v_se0, (v_barrier0 C1), Nat.eqb_refl, (ES C2). reflexivity.
    + constructor; auto.
      all: try solve [intros x Hx; destruct (v_parl0 x Hx); auto].
      all: try solve [intros x Hx; destruct (v_allvis0 x Hx); auto].
      all: try solve [intros Hw; destruct (v_written0 Hw) as [? [? ?]]; auto; congruence].
  - (* inject: visit *)
    destruct (b_barrier s && negb (b_written s)) eqn:C; [|discriminate].
    apply andb_true_iff in C as [C1 C2]. apply negb_true_iff in C2.
    destruct (memn id (b_visited s)) eqn:V; inversion H; subst; clear H; exists m; split; auto.
    + constructor; auto.
      all: try solve [intros x Hx; destruct (v_parl0 x Hx); auto].
      all: try solve [intros x Hx; destruct (v_allvis0 x Hx); auto].
      all: try solve [intros Hw; destruct (v_written0 Hw) as [? [? ?]]; auto; congruence].
    + assert (NV : ~ In id (b_visited s)) by (intros X; apply memn_In in X; congruence).
      constructor; simpl; auto; try congruence.
      all: try solve [intros x Hx; destruct (v_parl0 x Hx); auto].
      all: try solve [intros x Hx; destruct (v_allvis0 x Hx); auto].
      all: try solve [intros Hw; destruct (v_written0 Hw) as [? [? ?]]; auto; congruence].
      all: try solve [constructor; auto; intros X; apply NV; apply v_vis0; auto].
      all: try solve [intros x [E|Hx]; [subst; intros X; apply NV; apply v_vis0; auto | auto]].
      all: try solve [intros x [[E|Hx]|Hx]; auto].
      all: try solve [intros x [E|Hx]; [auto | destruct (v_allvis0 x Hx); auto]].
  - (* resolve the imports of a loaded file *)
    destruct (memn id (b_parsing s) && negb (memp id key (b_resolved s))) eqn:C; [|discriminate].
    inversion H; subst; clear H.
    apply andb_true_iff in C as [C1 C2].
    assert (Hp : In id (b_parsing s)) by (apply memn_In; auto).
    destruct (v_parl0 id Hp) as [Hl B].
    assert (W : b_written s = false).
    { destruct (b_written s) eqn:E; auto. destruct (v_written0 eq_refl) as [_ [_ P]]. rewrite P in Hp. contradiction. }
    assert (ML : memn id (b_loaded s) = true) by (apply memn_In; auto).
    eexists. split.
    + simpl. rewrite v_se0, (v_barrier0 B), Nat.eqb_refl, (ES W), v_loaded0, ML, v_resolved0, C2. simpl. reflexivity.
    + constructor; simpl; auto; try congruence.
  - (* the scan loop receives a parse result *)
    destruct (memn id (b_parsing s)) eqn:C; [|discriminate].
    inversion H; subst; clear H. exists m. split; auto.
    constructor; simpl; auto.
    + intros Hw. destruct (v_written0 Hw) as [? [? P]]. rewrite P. auto.
    + intros x Hx. apply v_parl0. eapply remove1_In; eauto.
Qed.

(* every trace of the build model is accepted by the checker *)
Lemma brun_sound : forall nS nE acts s m s' tr,
  BInv nS nE s m -> brun nS nE s acts = Some (s', tr) ->
  exists m', pm_run nS nE m tr = Some m' /\ BInv nS nE s' m'.
Proof.
  induction acts as [|a r IH]; intros s m s' tr I H; simpl in H.
  - inversion H; subst. exists m. split; auto.
  - destruct (bexec nS nE s a) as [[s1 oe]|] eqn:E; [|discriminate].
    destruct (brun nS nE s1 r) as [[s2 tr2]|] eqn:R; [|discriminate].
    inversion H; subst; clear H.
    destruct (bexec_sound _ _ _ _ _ _ _ I E) as [m1 [St I1]].
    destruct (IH _ _ _ _ I1 R) as [m2 [Rn I2]].
    exists m2. split; auto.
    destruct oe as [e|]; simpl.
    + rewrite St. exact Rn.
    + inversion St; subst. exact Rn.
Qed.

Theorem build_prefix_sound : forall nS nE acts s' tr,
  brun nS nE bst0 acts = Some (s', tr) -> build_trace_prefix_ok nS nE tr = true.
Proof.
  intros nS nE acts s' tr H. destruct (brun_sound _ _ _ _ _ _ _ (binv0 nS nE) H) as [m' [R _]].
  unfold build_trace_prefix_ok. rewrite R. reflexivity.
Qed.

(* a finished build: all on-end callbacks ran unless one failed *)
Theorem build_complete_sound : forall nS nE acts s' tr,
  brun nS nE bst0 acts = Some (s', tr) -> bdone nE s' = true -> build_trace_ok nS nE tr = true.
Proof.
  intros nS nE acts s' tr H D. destruct (brun_sound _ _ _ _ _ _ _ (binv0 nS nE) H) as [m' [R I]].
  unfold build_trace_ok. rewrite R. destruct I.
  unfold bdone in D. apply andb_true_iff in D as [D D3]. apply andb_true_iff in D as [D1 D2].
  rewrite v_endOpen0, v_endStopped0, v_endNext0.
  destruct (pm_endSeen m'); simpl; auto. rewrite D2. simpl.
  destruct (b_endStopped s'); simpl in *; auto.
Qed.

(* consequences in the vocabulary of the property *)
Lemma pm_run_loads_nodup : forall nS nE tr m m', pm_run nS nE m tr = Some m' ->
  NoDup (pm_loaded m) -> NoDup (pm_loaded m').
Proof.
  induction tr as [|e r IH]; intros m m' H ND; simpl in H.
  - inversion H; subst; auto.
  - destruct (pm_step nS nE m e) as [m1|] eqn:S; [|discriminate].
    apply (IH m1 m' H). destruct e; simpl in S;
      match type of S with (if ?c then _ else _) = _ => destruct c eqn:C; [|discriminate] end;
      inversion S; subst; simpl; auto.
    constructor; auto.
    apply andb_true_iff in C as [_ C]. apply negb_true_iff in C. intros X. apply memn_In in X. congruence.
Qed.

(* the identities loaded in a trace *)
Fixpoint loads (tr : list pevent) : list nat :=
  match tr with
  | [] => []
  | PLoad id :: r => id :: loads r
  | _ :: r => loads r
  end.

Lemma pm_run_loaded : forall nS nE tr m m', pm_run nS nE m tr = Some m' ->
  pm_loaded m' = rev (loads tr) ++ pm_loaded m.
Proof.
  induction tr as [|e r IH]; intros m m' H; simpl in H.
  - inversion H; subst; reflexivity.
  - destruct (pm_step nS nE m e) as [m1|] eqn:S; [|discriminate].
    rewrite (IH m1 m' H).
    destruct e; simpl in S;
      match type of S with (if ?c then _ else _) = _ => destruct c eqn:C; [|discriminate] end;
      inversion S; subst; simpl; auto.
    rewrite <- app_assoc. reflexivity.
Qed.

Theorem accepted_loads_once : forall nS nE tr, build_trace_prefix_ok nS nE tr = true -> NoDup (loads tr).
Proof.
  intros nS nE tr H. unfold build_trace_prefix_ok in H.
  destruct (pm_run nS nE pmon0 tr) as [m'|] eqn:R; [|discriminate].
  pose proof (pm_run_loads_nodup nS nE tr pmon0 m' R (NoDup_nil _)) as ND.
  rewrite (pm_run_loaded nS nE tr pmon0 m' R) in ND. simpl in ND. rewrite app_nil_r in ND.
  apply NoDup_rev in ND. rewrite rev_involutive in ND. exact ND.
Qed.

(* ---- resolver cache: each import of a file is resolved once ---- *)
Fixpoint resolves (tr : list pevent) : list (nat * nat) :=
  match tr with
  | [] => []
  | PResK i k :: r => (i, k) :: resolves r
  | _ :: r => resolves r
  end.

Lemma memp_In : forall a b l, memp a b l = true <-> In (a, b) l.
Proof.
  induction l as [|[x y] r IH]; simpl; [split; [discriminate|contradiction]|].
  rewrite orb_true_iff, IH, andb_true_iff, !Nat.eqb_eq. split.
  - intros [[E1 E2]|H]; [left; congruence | auto].
  - intros [E|H]; [left; inversion E; auto | auto].
Qed.

Lemma pm_run_resolved : forall nS nE tr m m', pm_run nS nE m tr = Some m' ->
  NoDup (pm_resolved m) -> NoDup (pm_resolved m') /\ pm_resolved m' = rev (resolves tr) ++ pm_resolved m.
Proof.
  induction tr as [|e r IH]; intros m m' H ND; simpl in H.
  - inversion H; subst; auto.
  - destruct (pm_step nS nE m e) as [m1|] eqn:S; [|discriminate].
    destruct e; simpl in S;
      match type of S with (if ?c then _ else _) = _ => destruct c eqn:C; [|discriminate] end;
      inversion S; subst; clear S; simpl in *;
      try (destruct (IH _ _ H ND) as [N E]; split; [exact N | exact E]).
    assert (ND1 : NoDup ((importer, key) :: pm_resolved m)).
    { constructor; auto. apply andb_true_iff in C as [_ C]. apply negb_true_iff in C.
      intros X. apply memp_In in X. congruence. }
    destruct (IH _ _ H ND1) as [N E]. split; auto. simpl in E. rewrite E. rewrite <- app_assoc. reflexivity.
Qed.

Theorem accepted_resolves_once : forall nS nE tr, build_trace_prefix_ok nS nE tr = true -> NoDup (resolves tr).
Proof.
  intros nS nE tr H. unfold build_trace_prefix_ok in H.
  destruct (pm_run nS nE pmon0 tr) as [m'|] eqn:R; [|discriminate].
  destruct (pm_run_resolved nS nE tr pmon0 m' R (NoDup_nil _)) as [ND E].
  rewrite E in ND. simpl in ND. rewrite app_nil_r in ND.
  apply NoDup_rev in ND. rewrite rev_involutive in ND. exact ND.
Qed.

(* ---- on-end callbacks come after every load and every resolve ---- *)
Definition scan_event (e : pevent) : bool :=
  match e with PRes | PResK _ _ | PLoad _ | PSB _ => true | _ => false end.

Lemma pm_seen_stays : forall nS nE tr m m', pm_run nS nE m tr = Some m' -> pm_endSeen m = true ->
  forallb (fun e => negb (scan_event e)) tr = true.
Proof.
  induction tr as [|e r IH]; intros m m' H Sn; simpl in *; auto.
  destruct (pm_step nS nE m e) as [m1|] eqn:S; [|discriminate].
  destruct e; simpl in S; rewrite ?Sn in S; simpl in S; rewrite ?andb_false_r in S; simpl in S; try discriminate;
    match type of S with (if ?c then _ else _) = _ => destruct c eqn:C; [|discriminate] end;
    inversion S; subst; clear S; simpl; eapply IH; eauto.
Qed.

Lemma pm_run_app : forall nS nE a b m, pm_run nS nE m (a ++ b) =
  match pm_run nS nE m a with Some m' => pm_run nS nE m' b | None => None end.
Proof. induction a as [|x a IH]; intros b m; simpl; auto. destruct (pm_step nS nE m x); auto. Qed.

Theorem accepted_onend_after_scan : forall nS nE pre i w post,
  build_trace_prefix_ok nS nE (pre ++ PEB i w :: post) = true ->
  forallb (fun e => negb (scan_event e)) post = true.
Proof.
  intros nS nE pre i w post H. unfold build_trace_prefix_ok in H. rewrite pm_run_app in H.
  destruct (pm_run nS nE pmon0 pre) as [m1|]; [|discriminate]. cbn [pm_run] in H.
  destruct (pm_step nS nE m1 (PEB i w)) as [m2|] eqn:S; [|discriminate].
  destruct (pm_run nS nE m2 post) as [m3|] eqn:R; [|discriminate].
  eapply pm_seen_stays; eauto.
  simpl in S. match type of S with (if ?c then _ else _) = _ => destruct c; [|discriminate] end.
  inversion S; reflexivity.
Qed.

(* ---- in the model: when the outputs are written every file that was ever
   visited has been loaded (and loaded once: NoDup), for every schedule ---- *)
Lemma brun_binv : forall nS nE acts s' tr, brun nS nE bst0 acts = Some (s', tr) ->
  exists m', BInv nS nE s' m'.
Proof.
  intros nS nE acts s' tr H. destruct (brun_sound _ _ _ _ _ _ _ (binv0 nS nE) H) as [m' [_ I]]. eauto.
Qed.

Theorem all_visited_loaded_at_write : forall nS nE acts s' tr,
  brun nS nE bst0 acts = Some (s', tr) -> b_written s' = true ->
  forall x, In x (b_visited s') -> In x (b_loaded s').
Proof.
  intros nS nE acts s' tr H W x Hx. destruct (brun_binv _ _ _ _ _ H) as [m' I].
  destruct (v_written _ _ _ _ I W) as [_ [P _]].
  destruct (v_allvis _ _ _ _ I x Hx) as [Q|Q]; auto. rewrite P in Q. contradiction.
Qed.
