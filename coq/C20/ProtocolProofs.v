(* Lemmas about the packet codec model (Protocol.v). *)
From V Require Import Common.Base C20.Protocol.

Lemma read32_le32 : forall n r, read32 (le32 n ++ r) = Some (n mod 4294967296, r).
Proof.
  intros n r. unfold le32, read32. cbn [app]. f_equal. f_equal. lia.
Qed.
