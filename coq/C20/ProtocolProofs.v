(* Lemmas about the packet codec model (Protocol.v): every well-formed packet
   decodes to itself. *)
From V Require Import Common.Base C20.Protocol.

Lemma read32_le32 : forall n r, read32 (le32 n ++ r) = Some (n mod 4294967296, r).
Proof.
  intros n r. unfold le32, read32. cbn [app]. f_equal. f_equal. lia.
Qed.

Lemma read32_le32_small : forall n r, 0 <= n < 4294967296 -> read32 (le32 n ++ r) = Some (n, r).
Proof. intros n r H. rewrite read32_le32. rewrite Z.mod_small; auto. Qed.

Lemma zlen_nonneg : forall A (l : list A), 0 <= zlen l.
Proof. intros. unfold zlen. lia. Qed.

Lemma zlen_app : forall A (a b : list A), zlen (a ++ b) = zlen a + zlen b.
Proof. intros. unfold zlen. rewrite app_length. lia. Qed.

Lemma readLP_app : forall s rest, zlen s < 4294967296 ->
  readLP (le32 (zlen s) ++ s ++ rest) = Some (s, rest).
Proof.
  intros s rest H. unfold readLP.
  rewrite read32_le32_small by (pose proof (zlen_nonneg _ s); lia).
  rewrite zlen_app.
  assert (E : zlen s <=? zlen s + zlen rest = true).
  { apply Z.leb_le. pose proof (zlen_nonneg _ rest). lia. }
  rewrite E. unfold zlen. rewrite Nat2Z.id.
  rewrite firstn_app, Nat.sub_diag, firstn_all. simpl. rewrite app_nil_r.
  rewrite skipn_app, Nat.sub_diag, skipn_all. simpl. reflexivity.
Qed.

(* ---- induction principle for the nested type ---- *)
Section ValueInd.
  Variable P : value -> Prop.
  Hypothesis Hnull : P VNull.
  Hypothesis Hbool : forall b, P (VBool b).
  Hypothesis Hint : forall n, P (VInt n).
  Hypothesis Hstr : forall s, P (VStr s).
  Hypothesis Hbytes : forall s, P (VBytes s).
  Hypothesis Harr : forall l, Forall P l -> P (VArr l).
  Hypothesis Hmap : forall m, Forall (fun kv => P (snd kv)) m -> P (VMap m).

  Fixpoint value_ind' (v : value) : P v :=
    match v with
    | VNull => Hnull
    | VBool b => Hbool b
    | VInt n => Hint n
    | VStr s => Hstr s
    | VBytes s => Hbytes s
    | VArr l =>
        Harr l ((fix go (l : list value) : Forall P l :=
                   match l with
                   | [] => Forall_nil _
                   | x :: r => Forall_cons _ (value_ind' x) (go r)
                   end) l)
    | VMap m =>
        Hmap m ((fix go (m : list (bytes * value)) : Forall (fun kv => P (snd kv)) m :=
                   match m with
                   | [] => Forall_nil _
                   | kv :: r => Forall_cons _ (value_ind' (snd kv)) (go r)
                   end) m)
    end.
End ValueInd.

(* nesting depth *)
Fixpoint depth (v : value) : nat :=
  match v with
  | VArr l => S (fold_right (fun x acc => Nat.max (depth x) acc) O l)
  | VMap m => S (fold_right (fun kv acc => Nat.max (depth (snd kv)) acc) O m)
  | _ => 1%nat
  end.

(* ---- order on keys ---- *)
Lemma bytes_ltb_asym : forall a b, bytes_ltb a b = true -> bytes_ltb b a = false.
Proof.
  induction a as [|x a IH]; intros [|y b] H; simpl in *; try discriminate; auto.
  destruct (x <? y) eqn:E1.
  - assert (E2 : y <? x = false) by lia. rewrite E2.
    destruct (x <? y); [reflexivity|discriminate].
  - destruct (y <? x) eqn:E2; [discriminate|]. auto.
Qed.

Lemma ins_entry_head : forall B (e : bytes * B) l,
  forallb (fun e' => bytes_ltb (fst e) (fst e')) l = true -> ins_entry e l = e :: l.
Proof.
  intros B e [|h t] H; simpl in *; auto.
  apply andb_true_iff in H as [H1 _]. rewrite H1. reflexivity.
Qed.

Lemma sort_entries_sorted : forall B (l : list (bytes * B)), ssorted l = true -> sort_entries l = l.
Proof.
  induction l as [|e r IH]; simpl; intros H; auto.
  apply andb_true_iff in H as [H1 H2]. rewrite (IH H2). apply ins_entry_head; auto.
Qed.

Lemma ssorted_map : forall (m : list (bytes * value)),
  ssorted (map (fun kv : bytes * value => (fst kv, enc (snd kv))) m) = ssorted m.
Proof.
  induction m as [|e r IH]; simpl; auto. rewrite IH. f_equal.
  clear. induction r as [|x r IH]; simpl; auto. rewrite IH. reflexivity.
Qed.

Lemma map_insert_last : forall k v acc,
  forallb (fun e => bytes_ltb (fst e) k) acc = true -> map_insert k v acc = acc ++ [(k, v)].
Proof.
  induction acc as [|[k' v'] r IH]; simpl; intros H; auto.
  apply andb_true_iff in H as [H1 H2]. simpl in H1.
  rewrite (bytes_ltb_asym _ _ H1), H1, (IH H2). reflexivity.
Qed.

(* ---- the decoder inverts the encoder ---- *)
Lemma enc_length_pos : forall v, (1 <= length (enc v))%nat.
Proof. destruct v; simpl; lia. Qed.

Lemma flat_map_enc_length : forall l, (length l <= length (flat_map enc l))%nat.
Proof.
  induction l as [|x r IH]; simpl; auto. rewrite app_length. pose proof (enc_length_pos x). lia.
Qed.

Definition dec_ok_at (f : nat) (x : value) : Prop :=
  forall rest, dec f (enc x ++ rest) = DOk (x, rest).

Lemma dec_items_ok : forall f l k acc rest,
  Forall (dec_ok_at f) l -> (length l < k)%nat ->
  dec_items (dec f) k (zlen l) (flat_map enc l ++ rest) acc = DOk (VArr (rev acc ++ l), rest).
Proof.
  induction l as [|x r IH]; intros k acc rest HF Hk.
  - destruct k; simpl; rewrite app_nil_r; reflexivity.
  - inversion HF as [|? ? Hx Hr]; subst.
    destruct k as [|k]; [simpl in Hk; lia|].
    cbn [dec_items].
    assert (E : zlen (x :: r) <=? 0 = false).
    { apply Z.leb_gt. unfold zlen. simpl length. lia. }
    rewrite E. cbn [flat_map]. rewrite <- app_assoc. rewrite (Hx (flat_map enc r ++ rest)).
    assert (E2 : zlen (x :: r) - 1 = zlen r) by (unfold zlen; simpl length; lia).
    rewrite E2. rewrite IH; auto; [|simpl in Hk; lia].
    simpl. rewrite <- app_assoc. reflexivity.
Qed.

Definition entry_bytes (kv : bytes * value) : bytes := le32 (zlen (fst kv)) ++ fst kv ++ enc (snd kv).

Lemma dec_entries_ok : forall f m k acc rest,
  Forall (fun kv => dec_ok_at f (snd kv)) m ->
  forallb (fun kv : bytes * value => zlen (fst kv) <? 4294967296) m = true ->
  ssorted m = true ->
  forallb (fun e => forallb (fun e' => bytes_ltb (fst e) (fst e')) m) acc = true ->
  (length m < k)%nat ->
  dec_entries (dec f) k (zlen m) (flat_map entry_bytes m ++ rest) acc = DOk (VMap (acc ++ m), rest).
Proof.
  induction m as [|[key v] r IH]; intros k acc rest HF HL HS HA Hk.
  - destruct k; simpl; rewrite app_nil_r; reflexivity.
  - inversion HF as [|? ? Hx Hr]; subst. simpl in Hx.
    simpl in HL. apply andb_true_iff in HL as [HL1 HL2].
    simpl in HS. apply andb_true_iff in HS as [HS1 HS2].
    destruct k as [|k]; [simpl in Hk; lia|].
    cbn [dec_entries].
    assert (E : zlen ((key, v) :: r) <=? 0 = false).
    { apply Z.leb_gt. unfold zlen. simpl length. lia. }
    rewrite E. cbn [flat_map]. unfold entry_bytes at 1. cbn [fst snd].
    rewrite <- !app_assoc. rewrite readLP_app by lia.
    rewrite (Hx (flat_map entry_bytes r ++ rest)).
    assert (E2 : zlen ((key, v) :: r) - 1 = zlen r) by (unfold zlen; simpl length; lia).
    rewrite E2.
    assert (HI : map_insert key v acc = acc ++ [(key, v)]).
    { apply map_insert_last. rewrite forallb_forall in HA |- *. intros e He.
      specialize (HA e He). simpl in HA. apply andb_true_iff in HA as [HA1 _]. exact HA1. }
    rewrite HI. rewrite IH; auto; [| |simpl in Hk; lia].
    + rewrite <- app_assoc. reflexivity.
    + rewrite forallb_app. apply andb_true_iff. split.
      * rewrite forallb_forall in HA |- *. intros e He. specialize (HA e He). simpl in HA.
        apply andb_true_iff in HA as [_ HA2]. exact HA2.
      * simpl. rewrite HS1. reflexivity.
Qed.

Lemma wf_map_parts : forall m, wf (VMap m) = true ->
  forallb (fun kv : bytes * value => zlen (fst kv) <? 4294967296) m = true /\
  Forall (fun kv => wf (snd kv) = true) m /\ ssorted m = true /\ 0 <= zlen m < 4294967296.
Proof.
  intros m H. simpl in H. apply andb_true_iff in H as [H H3]. apply andb_true_iff in H as [H1 H2].
  repeat split; auto.
  - rewrite forallb_forall in H1 |- *. intros kv Hkv. specialize (H1 kv Hkv).
    apply andb_true_iff in H1 as [B _]. unfold bytes_ok in B. apply andb_true_iff in B as [_ B]. exact B.
  - apply Forall_forall. intros kv Hkv. rewrite forallb_forall in H1. specialize (H1 kv Hkv).
    apply andb_true_iff in H1 as [_ W]. exact W.
  - apply zlen_nonneg.
  - lia.
Qed.

Lemma depth_fold_le : forall (l : list value) x, In x l ->
  (depth x <= fold_right (fun x acc => Nat.max (depth x) acc) O l)%nat.
Proof.
  induction l as [|y r IH]; simpl; intros x H; [contradiction|].
  destruct H as [->|H]; [lia|]. specialize (IH x H). lia.
Qed.
Lemma depth_fold_le_map : forall (m : list (bytes * value)) kv, In kv m ->
  (depth (snd kv) <= fold_right (fun kv acc => Nat.max (depth (snd kv)) acc) O m)%nat.
Proof.
  induction m as [|y r IH]; simpl; intros x H; [contradiction|].
  destruct H as [->|H]; [lia|]. specialize (IH x H). lia.
Qed.

Lemma dec_enc : forall v, wf v = true -> forall fuel, (depth v <= fuel)%nat -> dec_ok_at fuel v.
Proof.
  induction v using value_ind'; intros W fuel Hf rest; (destruct fuel as [|f]; [simpl in Hf; lia|]).
  - reflexivity.
  - simpl. destruct b; reflexivity.
  - simpl in W. cbn [enc app dec]. simpl (2 =? 0). simpl (2 =? 1). simpl (2 =? 2). cbv iota.
    rewrite read32_le32_small by lia. reflexivity.
  - simpl in W. unfold bytes_ok in W. apply andb_true_iff in W as [_ W].
    cbn [enc app dec]. simpl (3 =? 0). simpl (3 =? 1). simpl (3 =? 2). simpl (3 =? 3). cbv iota.
    rewrite <- app_assoc. rewrite readLP_app by lia. reflexivity.
  - simpl in W. unfold bytes_ok in W. apply andb_true_iff in W as [_ W].
    cbn [enc app dec]. simpl (4 =? 0). simpl (4 =? 1). simpl (4 =? 2). simpl (4 =? 3). simpl (4 =? 4). cbv iota.
    rewrite <- app_assoc. rewrite readLP_app by lia. reflexivity.
  - simpl in W. apply andb_true_iff in W as [W1 W2].
    cbn [enc app dec]. simpl (5 =? 0). simpl (5 =? 1). simpl (5 =? 2). simpl (5 =? 3). simpl (5 =? 4). simpl (5 =? 5). cbv iota.
    rewrite <- app_assoc. rewrite read32_le32_small by (pose proof (zlen_nonneg _ l); lia).
    rewrite dec_items_ok.
    + reflexivity.
    + apply Forall_forall. intros x Hx. rewrite Forall_forall in H.
      apply H; auto.
      * rewrite forallb_forall in W1. auto.
      * simpl in Hf. pose proof (depth_fold_le l x Hx). lia.
    + rewrite app_length. pose proof (flat_map_enc_length l). lia.
  - destruct (wf_map_parts m W) as [P1 [P2 [P3 P4]]].
    cbn [enc app dec]. simpl (6 =? 0). simpl (6 =? 1). simpl (6 =? 2). simpl (6 =? 3). simpl (6 =? 4). simpl (6 =? 5). simpl (6 =? 6). cbv iota.
    rewrite sort_entries_sorted by (rewrite ssorted_map; auto).
    rewrite flat_map_concat_map, map_map, <- flat_map_concat_map.
    change (flat_map (fun x : bytes * value => le32 (zlen (fst (fst x, enc (snd x)))) ++ fst (fst x, enc (snd x)) ++ snd (fst x, enc (snd x))) m)
      with (flat_map entry_bytes m).
    rewrite <- app_assoc. rewrite read32_le32_small by lia.
    rewrite (dec_entries_ok f m _ [] rest); auto.
    + apply Forall_forall. intros kv Hkv. rewrite Forall_forall in H, P2.
      apply H; auto. simpl in Hf. pose proof (depth_fold_le_map m kv Hkv). lia.
    + rewrite app_length.
      assert (length m <= length (flat_map entry_bytes m))%nat.
      { clear. unfold entry_bytes. induction m as [|kv r IH]; simpl; auto.
        rewrite !app_length. simpl in *. lia. }
      lia.
Qed.

Lemma flat_map_ins_length : forall B (g : bytes * B -> bytes) e l,
  length (flat_map g (ins_entry e l)) = (length (g e) + length (flat_map g l))%nat.
Proof.
  intros B g e l. induction l as [|h t IH]; simpl.
  - rewrite app_length. reflexivity.
  - destruct (bytes_ltb (fst e) (fst h)); simpl; rewrite !app_length; [reflexivity|].
    rewrite IH. lia.
Qed.

Lemma flat_map_sort_length : forall B (g : bytes * B -> bytes) l,
  length (flat_map g (sort_entries l)) = length (flat_map g l).
Proof.
  intros B g l. induction l as [|e r IH]; simpl; auto.
  rewrite flat_map_ins_length, app_length, IH. reflexivity.
Qed.

Lemma depth_le_enc : forall v, (depth v <= length (enc v))%nat.
Proof.
  induction v using value_ind'; try (simpl; lia).
  - cbn [depth enc length]. rewrite app_length.
    assert (fold_right (fun x acc => Nat.max (depth x) acc) O l <= length (flat_map enc l))%nat.
    { induction H as [|x r Hx Hr IH]; simpl; auto. rewrite app_length. lia. }
    lia.
  - cbn [depth enc length]. rewrite app_length. rewrite flat_map_sort_length.
    assert (fold_right (fun kv acc => Nat.max (depth (snd kv)) acc) O m <=
            length (flat_map (fun e : bytes * bytes => le32 (zlen (fst e)) ++ fst e ++ snd e)
                             (map (fun kv : bytes * value => (fst kv, enc (snd kv))) m)))%nat.
    { induction H as [|kv r Hx Hr IH]; [simpl; auto|].
      cbn [fold_right map flat_map fst snd]. rewrite !app_length. lia. }
    lia.
Qed.

Lemma packet_roundtrip_all : forall p, wf_packet p = true -> decodePacket (encodeBody p) = DOk p.
Proof.
  intros [id isreq v] W. unfold wf_packet in W. simpl in W.
  apply andb_true_iff in W as [W W3]. apply andb_true_iff in W as [W1 W2].
  unfold decodePacket, encodeBody. cbn [p_id p_isRequest p_value].
  rewrite read32_le32_small by (destruct isreq; lia).
  pose proof (dec_enc v W3 (S (length (enc v)))) as D.
  specialize (D ltac:(pose proof (depth_le_enc v); lia) []).
  rewrite app_nil_r in D. rewrite D.
  f_equal. destruct isreq.
  - replace (2 * id + 0) with (id * 2) by lia. rewrite Z.div_mul by lia. rewrite Z.mod_mul by lia. reflexivity.
  - replace ((2 * id + 1) / 2) with id by lia. replace ((2 * id + 1) mod 2) with 1 by lia. reflexivity.
Qed.

(* runService's framing: the length prefix written by encodePacket delimits the body *)
Lemma packet_framing_all : forall p rest, zlen (encodeBody p) < 4294967296 ->
  readLP (encodePacket p ++ rest) = Some (encodeBody p, rest).
Proof.
  intros p rest H. unfold encodePacket. cbv zeta. rewrite <- app_assoc. apply readLP_app; auto.
Qed.
