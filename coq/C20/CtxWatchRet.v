(* Watch's return is a separate step: what links the threads that have set (or
   failed to set) the watcher flag but have not returned yet to the monitor. *)
From V Require Import Common.Base C20.CtxLTS C20.CtxSpec C20.CtxProofs.
Local Close Scope Z_scope.
Local Open Scope nat_scope.

Record WCl (s : state) (m : mon) : Prop := mkWCl {
  c_unit : forall t, t < nt s -> t_pc (thr s t) = PWaRet RvUnit -> watcher s = true /\ m_watchOk m = false;
  c_uniq : forall t1 t2, t1 < nt s -> t2 < nt s ->
           t_pc (thr s t1) = PWaRet RvUnit -> t_pc (thr s t2) = PWaRet RvUnit -> t1 = t2;
  c_err : forall t, t < nt s -> t_pc (thr s t) = PWaRet RvErr -> watcher s = true;
  c_set : watcher s = true -> m_watchOk m = true \/ exists t, t < nt s /\ t_pc (thr s t) = PWaRet RvUnit;
  c_val : forall t v, t < nt s -> t_pc (thr s t) = PWaRet v -> v = RvUnit \/ v = RvErr }.

Lemma wcl0 : WCl init mon0.
Proof. constructor; simpl; intros; try lia; discriminate. Qed.

Lemma mon_step_watchOk : forall m l m', mon_step m l = Some m' ->
  m_watchOk m' = m_watchOk m \/ (exists c, l = LRet c OpWatch RvUnit /\ m_watchOk m' = true /\ m_watchOk m = false).
Proof.
  intros m l m' H. destruct l; simpl in H;
    repeat match type of H with
           | (if ?c then _ else _) = _ => destruct c eqn:?
           | match ?c with _ => _ end = _ => destruct c eqn:?
           end; try discriminate; inversion H; subst; simpl; auto.
  right. eexists. split; [reflexivity|]. split; auto.
  apply andb_true_iff in Heqb0 as [_ X]. apply negb_true_iff in X. exact X.
Qed.

Ltac expose_ret :=
  try (unfold finish_rebuild, ret, result_of in *);
  repeat match goal with
         | H1 : (match ?k with _ => _ end) = (_, _) |- _ => destruct k eqn:?
         end;
  repeat match goal with
         | H1 : (_, _) = (_, _) |- _ => inversion H1; subst; clear H1
         end.

(* which threads are at PWaRet after a step *)
Lemma step_waret : forall s a s' l, SInv s -> exec s a = Some (s', l) ->
  (watcher s = true -> watcher s' = true) /\
  (forall t v, t < nt s' -> t_pc (thr s' t) = PWaRet v ->
     t < nt s /\ (t_pc (thr s t) = PWaRet v \/
                  (t_pc (thr s t) = PWaStart /\ l = LTau /\
                   ((v = RvUnit /\ watcher s = false /\ watcher s' = true) \/ (v = RvErr /\ watcher s = true))))) /\
  (forall t v, t < nt s -> t_pc (thr s t) = PWaRet v ->
     t_pc (thr s' t) = PWaRet v \/ (exists c, l = LRet c OpWatch v)) /\
  (watcher s' = true -> watcher s = true \/ exists t, t < nt s /\ t_pc (thr s t) = PWaStart /\ t_pc (thr s' t) = PWaRet RvUnit) /\
  nt s <= nt s'.
Proof.
  intros s a s' l I H.
  step_cases H; expose_ret; upd_simpl.
  all: repeat split; try lia.
  all: intros.
  all: repeat match goal with
              | H : context [Nat.eqb ?a ?b] |- _ => destruct (Nat.eqb_spec a b); subst; simpl in H
              | |- context [Nat.eqb ?a ?b] => destruct (Nat.eqb_spec a b); subst; simpl
              end.
  all: try discriminate; try lia; try congruence; auto.
  all: try (destruct o; discriminate).
  all: try (destruct d; discriminate).
  all: try solve [inversion H0; subst; right; repeat split; auto].
  all: try solve [right; exists t; rewrite Nat.eqb_refl; simpl; auto].
  right. pose proof (i_kind _ I t Hlt) as K. rewrite Hpc in K. rewrite Hpc in H0. inversion H0; subst.
  destruct (t_kind (thr s t)) as [[]| |]; simpl in K; try discriminate. eexists. reflexivity.
Qed.

(* one step changes the program counter of at most one existing thread; a
   successful Watch return comes from a thread at PWaRet RvUnit *)
Lemma step_one_thread : forall s a s' l, SInv s -> exec s a = Some (s', l) ->
  (forall t1 t2, t1 < nt s -> t2 < nt s ->
     t_pc (thr s' t1) <> t_pc (thr s t1) -> t_pc (thr s' t2) <> t_pc (thr s t2) -> t1 = t2) /\
  (forall c, l = LRet c OpWatch RvUnit ->
     exists t, t < nt s /\ t_pc (thr s t) = PWaRet RvUnit /\ is_ret (t_pc (thr s' t)) = true).
Proof.
  intros s a s' l I H.
  step_cases H; expose_ret; upd_simpl.
  all: split; intros.
  all: repeat match goal with
              | H : context [Nat.eqb ?a ?b] |- _ => destruct (Nat.eqb_spec a b); subst; simpl in H
              | |- context [Nat.eqb ?a ?b] => destruct (Nat.eqb_spec a b); subst; simpl
              end.
  all: try discriminate; try lia; try congruence; auto.
  all: try (destruct d; discriminate).
  all: try solve [exfalso; auto].
  all: try solve [repeat match goal with
                         | H : context [match b_result ?x with _ => _ end] |- _ => destruct (b_result x) as [[? ?]|]
                         end; discriminate].
  all: try solve [match goal with H : LRet _ _ _ = LRet _ _ _ |- _ => inversion H; subst end;
                  match goal with Hl : ?t0 < nt ?s0, Hp : t_pc (thr ?s0 ?t0) = _ |- _ =>
                    exists t0; rewrite Nat.eqb_refl; simpl; auto end].
  all: try solve [exfalso;
                  match goal with Hl : ?t0 < nt ?s0, Hp : t_pc (thr ?s0 ?t0) = _ |- _ =>
                    let K := fresh in pose proof (i_kind _ I t0 Hl) as K; rewrite Hp in K;
                    destruct (t_kind (thr s0 t0)) as [[]| |]; simpl in K; try discriminate end].
  all: try solve [match goal with Hl : ?t0 < nt ?s0, Hp : t_pc (thr ?s0 ?t0) = PWaRet ?v |- _ =>
                    let K := fresh in pose proof (i_kind _ I t0 Hl) as K; rewrite Hp in K;
                    destruct (t_kind (thr s0 t0)) as [[]| |]; simpl in K; try discriminate;
                    match goal with H : LRet _ _ _ = LRet _ _ _ |- _ => inversion H; subst end;
                    exists t0; rewrite Nat.eqb_refl; simpl; auto end].
Qed.

Lemma mon_step_watch_unit : forall m c m', mon_step m (LRet c OpWatch RvUnit) = Some m' ->
  m_watchOk m' = true /\ m_watchOk m = false.
Proof.
  intros m c m' H. simpl in H.
  repeat match type of H with
         | (if ?c then _ else _) = _ => destruct c eqn:?
         | match ?c with _ => _ end = _ => destruct c eqn:?
         end; try discriminate; inversion H; subst; simpl. split; auto.
  apply andb_true_iff in Heqb0 as [_ X]. apply negb_true_iff in X. exact X.
Qed.

(* the clauses are preserved by every step *)
Lemma wcl_step : forall s m a s' l m', SInv s -> WCl s m -> (m_watchOk m = true -> watcher s = true) ->
  exec s a = Some (s', l) -> mon_step m l = Some m' -> WCl s' m'.
Proof.
  intros s m a s' l m' I W RW E St.
  destruct (step_waret _ _ _ _ I E) as [Wm [Hin [Hout [Hset Hnt]]]].
  destruct (step_one_thread _ _ _ _ I E) as [Hone Hlab].
  destruct W as [Cu Cq Ce Cs Cv].
  assert (Unit : forall c, l = LRet c OpWatch RvUnit ->
            m_watchOk m' = true /\ forall t, t < nt s' -> t_pc (thr s' t) <> PWaRet RvUnit).
  { intros c El. subst l. destruct (mon_step_watch_unit _ _ _ St) as [O1 O0]. split; auto.
    intros t Ht Hp. destruct (Hlab c eq_refl) as [t0 [H0 [P0 R0]]].
    destruct (Hin t RvUnit Ht Hp) as [Ht0 [Hp0|[_ [X _]]]]; [|discriminate].
    assert (t = t0) by (apply Cq; auto). subst t0. rewrite Hp in R0. discriminate. }
  assert (Keep : (forall c, l <> LRet c OpWatch RvUnit) -> m_watchOk m' = m_watchOk m).
  { intros N. destruct (mon_step_watchOk _ _ _ St) as [Ok|[c [El _]]]; auto. exfalso. eapply N; eauto. }
  constructor.
  - (* c_unit *)
    intros t Ht Hp.
    assert (N : forall c, l <> LRet c OpWatch RvUnit).
    { intros c El. destruct (Unit c El) as [_ U]. eapply U; eauto. }
    rewrite (Keep N).
    destruct (Hin t RvUnit Ht Hp) as [Ht0 [Hp0|[Hp0 [_ [[_ [W0 W1]]|[X _]]]]]]; try discriminate.
    + destruct (Cu t Ht0 Hp0). split; auto.
    + split; auto. destruct (m_watchOk m) eqn:Om; auto. specialize (RW eq_refl). congruence.
  - (* c_uniq *)
    intros t1 t2 H1 H2 P1 P2.
    destruct (Hin t1 RvUnit H1 P1) as [L1 [O1|[N1 [_ [[_ [W0 _]]|[X _]]]]]]; try discriminate;
    destruct (Hin t2 RvUnit H2 P2) as [L2 [O2|[N2 [_ [[_ [W0' _]]|[X _]]]]]]; try discriminate.
    + apply Cq; auto.
    + destruct (Cu t1 L1 O1). congruence.
    + destruct (Cu t2 L2 O2). congruence.
    + apply Hone; auto; congruence.
  - (* c_err *)
    intros t Ht Hp.
    destruct (Hin t RvErr Ht Hp) as [Ht0 [Hp0|[Hp0 [_ [[X _]|[_ W0]]]]]]; try discriminate; auto.
    apply Wm. apply (Ce t Ht0 Hp0).
  - (* c_set *)
    intros Hw. destruct (Hset Hw) as [W0|[t [Ht [_ Hp]]]].
    + destruct (Cs W0) as [Ok|[t [Ht Hp]]].
      * left. destruct (mon_step_watchOk _ _ _ St) as [Ok'|[c [_ [Ok' _]]]]; congruence.
      * destruct (Hout t RvUnit Ht Hp) as [Hp'|[c El]].
        -- right. exists t. split; auto. lia.
        -- left. apply (Unit c El).
    + right. exists t. split; auto. lia.
  - (* c_val *)
    intros t v Ht Hp. destruct (Hin t v Ht Hp) as [Ht0 [Hp0|[_ [_ [[X _]|[X _]]]]]]; auto. eapply Cv; eauto.
Qed.
