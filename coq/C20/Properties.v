(* C20 property theorems: statements closed by [exact lemma] + Print Assumptions. *)
From V Require Import Common.Base C20.Protocol C20.ProtocolProofs C20.CtxLTS C20.CtxSpec C20.CtxProofs
  C20.CtxMonA C20.CtxMonB C20.CtxMonC C20.CtxStale C20.WatchServe C20.WatchProofs C20.ServiceSpec C20.ServiceLTS C20.ServiceProofs C20.PluginSpec C20.Plugin C20.PluginProofs.

(* writeUint32 / readUint32: little-endian round trip modulo 2^32, any trailing bytes *)
Theorem uint32_roundtrip : forall n r, read32 (le32 n ++ r) = Some (n mod 4294967296, r).
Proof. exact read32_le32. Qed.
Print Assumptions uint32_roundtrip.

(* encodePacket / decodePacket: every well-formed packet (ids below 2^31, ints
   in [0,2^32), lengths below 2^32, map keys distinct = strictly sorted in the
   canonical representation) decodes to itself; nesting is unbounded *)
Theorem packet_roundtrip : forall p, wf_packet p = true -> decodePacket (encodeBody p) = DOk p.
Proof. exact packet_roundtrip_all. Qed.
Print Assumptions packet_roundtrip.

(* runService's framing: the length prefix written by encodePacket delimits
   exactly the body, whatever follows in the stream *)
Theorem packet_framing : forall p rest, zlen (encodeBody p) < 4294967296 ->
  readLP (encodePacket p ++ rest) = Some (encodeBody p, rest).
Proof. exact packet_framing_all. Qed.
Print Assumptions packet_framing.

(* In every reachable state of the context LTS (any number of threads, any
   interleaving of Rebuild/Cancel/Dispose/Watch calls, edits and watcher
   ticks) at most one thread is inside rebuildImpl, and for one build only. *)
Theorem at_most_one_build_running : forall s, reachable s ->
  forall t1 t2 b1 b2, (t1 < nt s)%nat -> (t2 < nt s)%nat ->
    phase_of (t_pc (thr s t1)) = Some b1 -> phase_of (t_pc (thr s t2)) = Some b2 ->
    t1 = t2 /\ b1 = b2.
Proof. exact one_build_running. Qed.
Print Assumptions at_most_one_build_running.

(* Deadlock freedom: in every reachable state, as long as some thread has not
   returned, the system itself (a thread step or the passing of time in the
   watcher goroutine; no new call, no edit) can take a step.  The termination
   of rebuildImpl is built into the model: the owner's phase steps are always
   enabled. *)
Theorem deadlock_free : forall s, reachable s ->
  forall t, (t < nt s)%nat -> is_ret (t_pc (thr s t)) = false ->
  exists a s' l, system a = true /\ exec s a = Some (s', l).
Proof. intros s R. exact (progress_inv s (sinv_reachable s R)). Qed.
Print Assumptions deadlock_free.

(* Every trace of the LTS - any number of client calls, any interleaving -
   satisfies the executable specification history_ok (rules S1-S9 of
   CtxSpec.v): Rebuild returns the complete result of exactly one build that
   had not been returned before the call (rebuild_returns_one_build), a
   sequential Rebuild starts a new build that sees all earlier edits
   (sequential_rebuild_sees_edits), Cancel and Dispose return only after the
   builds started before the call have ended, nothing happens after a Dispose
   returned.  history_ok is the very function evaluated on the histories
   recorded from the real pkg/api code. *)
Theorem history_checker_sound : forall tr s, run init tr s -> history_ok tr = true.
Proof. exact history_sound. Qed.
Print Assumptions history_checker_sound.

(* The order "clear activeBuild, then release the waiters" of rebuild() is what
   makes this hold: once the waiters of build b have been released (b_done in
   state s1), a thread created afterwards (any API call made later, or a
   goroutine started by a later Watch) never holds a reference to b and never
   returns b - a Rebuild that starts after b's waiters were released never
   returns b.  Rule S2 of history_ok ("the returned build had not been
   returned to anybody when the call was made") is the observable form of this
   statement; it is what rejects the histories recorded when Done() is moved
   before the critical section that clears activeBuild. *)
Theorem no_stale_join : forall tr1 s1 tr2 s2 b,
  run init tr1 s1 -> (b < nb s1)%nat -> b_done (blds s1 b) = true -> run s1 tr2 s2 ->
  forall t, (nt s1 <= t)%nat -> (t < nt s2)%nat ->
    ref_of (t_pc (thr s2 t)) <> Some b /\ ret_build (t_pc (thr s2 t)) <> Some b.
Proof.
  intros tr1 s1 tr2 s2 b R1 Hb Hd R2.
  exact (proj2 (proj2 (proj2 (no_stale_join_run s1 tr2 s2 R2 (sinv_reachable s1 (ex_intro _ tr1 R1)) b Hb Hd)))).
Qed.
Print Assumptions no_stale_join.

(* When a Dispose call returns - whichever of several concurrent Dispose
   calls it is - the context is disposed, no build is active and no thread is
   inside rebuildImpl. *)
Theorem dispose_returns_after_end : forall tr s a s' c v,
  run init tr s -> exec s a = Some (s', LRet c OpDispose v) ->
  disposed s' = true /\ active s' = None /\
  (forall t b, (t < nt s')%nat -> phase_of (t_pc (thr s' t)) = Some b -> False).
Proof. exact dispose_return_state. Qed.
Print Assumptions dispose_returns_after_end.

(* A disposed context stays disposed and never starts another build. *)
Theorem disposed_starts_nothing : forall s a s' l,
  disposed s = true -> exec s a = Some (s', l) -> nb s' = nb s /\ disposed s' = true.
Proof. exact disposed_no_new_build. Qed.
Print Assumptions disposed_starts_nothing.

(* Plugin callbacks within one build.  Every callback trace of the build model
   (any scheduling of the on-start goroutines and parse goroutines, any import
   graph, any failing on-end callback) is accepted by the specification checker
   build_trace_prefix_ok, the function also evaluated on the callback traces
   recorded from real builds: all on-start callbacks have ended before any
   on-resolve/on-load/on-end begins (onstart_before_load), no identity is
   loaded twice (load_once_per_identity), on-end callbacks run after the write,
   in registration order, each once, none after a failed one
   (onend_after_write_in_order). *)
Theorem plugin_trace_sound : forall nS nE acts s' tr,
  brun nS nE bst0 acts = Some (s', tr) -> build_trace_prefix_ok nS nE tr = true.
Proof. exact build_prefix_sound. Qed.
Print Assumptions plugin_trace_sound.

(* ... and when the build is over, all on-end callbacks ran unless one failed *)
Theorem plugin_trace_complete_sound : forall nS nE acts s' tr,
  brun nS nE bst0 acts = Some (s', tr) -> bdone nE s' = true -> build_trace_ok nS nE tr = true.
Proof. exact build_complete_sound. Qed.
Print Assumptions plugin_trace_complete_sound.

(* what acceptance means for loads: in an accepted trace the loaded module
   identities are pairwise distinct *)
Theorem load_once_per_identity : forall nS nE tr,
  build_trace_prefix_ok nS nE tr = true -> NoDup (loads tr).
Proof. exact accepted_loads_once. Qed.
Print Assumptions load_once_per_identity.

(* the per-file resolver cache of parseFile: in an accepted trace each import
   (kind, specifier, attributes) of one file reaches the on-resolve callbacks
   at most once - and (by the checker's PResK rule) only after that file was
   loaded *)
Theorem resolve_once_per_import : forall nS nE tr,
  build_trace_prefix_ok nS nE tr = true -> NoDup (resolves tr).
Proof. exact accepted_resolves_once. Qed.
Print Assumptions resolve_once_per_import.

(* on-end callbacks come after ALL loads and resolves: once the first on-end
   callback has begun, an accepted trace contains no further on-start,
   on-resolve or on-load callback *)
Theorem onend_after_all_loads : forall nS nE pre i w post,
  build_trace_prefix_ok nS nE (pre ++ PEB i w :: post) = true ->
  forallb (fun e => negb (scan_event e)) post = true.
Proof. exact accepted_onend_after_scan. Qed.
Print Assumptions onend_after_all_loads.

(* in the model, for every schedule: when the outputs are written (hence
   before any on-end callback) every file that was ever visited has run its
   on-load callback *)
Theorem all_visited_loaded_before_write : forall nS nE acts s' tr,
  brun nS nE bst0 acts = Some (s', tr) -> b_written s' = true ->
  forall x, In x (b_visited s') -> In x (b_loaded s').
Proof. exact all_visited_loaded_at_write. Qed.
Print Assumptions all_visited_loaded_before_write.

(* ---- the service layer (cmd/esbuild/service.go) as an LTS over packets ---- *)

(* every run of the service model - any interleaving of arriving requests,
   handler goroutines, callbacks to the client, stdin closing, exit - produces
   a packet trace accepted by svc_trace_ok, the checker that Coq also evaluates
   on every transcript recorded from the real `esbuild --service` process *)
Theorem service_trace_sound : forall acts s' tr, srun sst0 acts = Some (s', tr) -> svc_trace_ok tr = true.
Proof. exact ServiceProofs.service_trace_sound. Qed.
Print Assumptions service_trace_sound.

(* in every prefix of an accepted trace, no request id has more responses than requests *)
Theorem no_response_without_request : forall pre post id,
  svc_trace_ok (pre ++ post) = true -> (n_sresp id pre <= n_creq id pre)%nat.
Proof. exact accepted_no_response_without_request. Qed.
Print Assumptions no_response_without_request.

(* a request id is outstanding at most once ... *)
Theorem request_outstanding_at_most_once : forall pre post id,
  svc_trace_ok (pre ++ post) = true -> (n_creq id pre <= n_sresp id pre + 1)%nat.
Proof. exact accepted_at_most_one_outstanding. Qed.
Print Assumptions request_outstanding_at_most_once.

(* ... and when the process exits every request has been answered: together,
   exactly one response per request.  For all interleavings of the model: *)
Theorem every_request_answered_once : forall acts s' pre post id,
  srun sst0 acts = Some (s', pre ++ EExit :: post) ->
  n_sresp id pre = n_creq id pre /\ (forall p1 p2, pre = p1 ++ p2 -> (n_sresp id p1 <= n_creq id p1 <= n_sresp id p1 + 1)%nat).
Proof.
  intros acts s' pre post id H. pose proof (ServiceProofs.service_trace_sound _ _ _ H) as A. split.
  - exact (accepted_all_answered_at_exit pre post id A).
  - intros p1 p2 E. subst pre. rewrite <- app_assoc in A. split.
    + exact (accepted_no_response_without_request p1 _ id A).
    + exact (accepted_at_most_one_outstanding p1 _ id A).
Qed.
Print Assumptions every_request_answered_once.

(* Cancel / Dispose over the service, for all interleavings (service.go after
   929126c: disposeDone / respondAfterDispose): the response to a cancel or
   dispose request whose context was known to the service when the request
   arrived - alive, or with a dispose pending - is sent only when no build of
   that context is running.  (Before the fix this statement was refuted by the
   two recorded transcripts; they are now must-pass scenarios of the corpus.) *)
Theorem service_cancel_dispose_wait_for_build : forall s id h k s' oe,
  find_h id (s_hs s) = Some h ->
  (h_kind h = HCancel k true \/ h_kind h = HDispose k true \/ h_kind h = HAfterDispose k) ->
  sexec s (SRespond id) = Some (s', oe) -> ctx_building k (s_cs s) = false.
Proof. exact cancel_dispose_answered_after_build_end. Qed.
Print Assumptions service_cancel_dispose_wait_for_build.

(* ... and a cancel/dispose is put on the "answer at once" path only when the
   service has no entry for the context at all (so no build of it exists) *)
Theorem service_answer_at_once_only_without_context : forall s id c s' oe,
  sexec s (SRecv id c) = Some (s', oe) ->
  exists h, find_h id (s_hs s') = Some h /\
    (forall k, (h_kind h = HCancel k false \/ h_kind h = HDispose k false) -> find_c k (s_cs s) = None).
Proof. exact recv_kind. Qed.
Print Assumptions service_answer_at_once_only_without_context.

(* ---- watch mode and the dev server's view of a context (WatchServe.v) ---- *)

(* Coalescing, for every interleaving of edits, client builds, watcher ticks,
   serve requests and Dispose: the watcher goroutine starts a build only for a
   change it has not built yet - in every prefix of every run the builds it
   started number at most the edits so far.  (The same trace specification,
   with one extra build allowed for Watch's unconditional first build, is
   evaluated on the real histories: Harness.watch_hist_ok.) *)
Theorem watch_builds_coalesced : forall acts s' tr, wrun ws0 acts = Some (s', tr) ->
  wtrace_ok 0 tr = true /\ (w_wbuilds s' <= w_edits s')%nat.
Proof. exact WatchProofs.watch_builds_coalesced. Qed.
Print Assumptions watch_builds_coalesced.

(* the recorded watch data never runs ahead of the inputs, and the watcher
   never builds while a client build is active *)
Theorem watch_data_safe : forall acts s' tr, wrun ws0 acts = Some (s', tr) ->
  (w_watched s' <= w_edits s')%nat /\ (watcher_owns (w_wpc s') = true -> w_client s' = CNone).
Proof. exact watch_safety. Qed.
Print Assumptions watch_data_safe.

(* Dispose returns only after the watcher goroutine has exited and no build is
   active; afterwards no action starts a build or serves a result *)
Theorem dispose_stops_watcher : forall acts s tr, wrun ws0 acts = Some (s, tr) -> w_dispRet s = true ->
  (w_wpc s = WOff \/ w_wpc s = WExited) /\ w_client s = CNone /\ w_recent s = None /\
  forall a s' l, wexec s a = Some (s', l) -> (forall b, l <> WBuild b) /\ (forall b, l <> WServed b) /\ w_nb s' = w_nb s.
Proof. exact dispose_stops_watcher_all. Qed.
Print Assumptions dispose_stops_watcher.

(* what the dev server answers from ctx.recentBuild is the most recently finished build *)
Theorem serve_recent_is_latest : forall acts s tr b, wrun ws0 acts = Some (s, tr) -> w_recent s = Some b ->
  w_fver s b <> None /\ forall b' v, w_fver s b' = Some v -> (b' <= b)%nat.
Proof. exact serve_recent_is_latest_all. Qed.
Print Assumptions serve_recent_is_latest.

(* Watch's goroutine starts the first watch-mode build only when no build is
   in flight - "the first watch build starts after the builds in flight at the
   call have ended" - and that build is begun with watch mode on ... *)
Theorem first_watch_build_after_inflight : forall s s' l, wexec s XFirstStart = Some (s', l) ->
  w_client s = CNone /\ w_client s' = CStarted (w_nb s) true /\ w_first s' = false.
Proof. exact first_build_after_inflight. Qed.
Print Assumptions first_watch_build_after_inflight.

(* ... so that, once it is over, the watcher has paths to poll *)
Theorem watch_data_after_first_build : forall acts s tr, wrun ws0 acts = Some (s, tr) ->
  watching (w_wpc s) = true -> w_first s = false -> w_client s = CNone -> w_hasData s = true.
Proof. exact WatchProofs.watch_data_after_first_build. Qed.
Print Assumptions watch_data_after_first_build.

(* "a change during a build triggers exactly one more build": at least one - a
   change is never missed once the first watch-mode build is over (this rests
   on the two theorems above: a watcher without recorded data polls nothing) *)
Theorem watch_change_is_noticed : forall acts s tr, wrun ws0 acts = Some (s, tr) ->
  w_wpc s = WSleep -> w_disposed s = false -> w_client s = CNone -> w_first s = false ->
  (w_watched s < w_edits s)%nat -> exists s', wexec s XWatcher = Some (s', WBuild (w_nb s)).
Proof. exact change_is_noticed. Qed.
Print Assumptions watch_change_is_noticed.

(* ... at most one per change by watch_builds_coalesced as far as the watcher's
   own builds are concerned; but "no build unless the latest result is out of
   date" is FALSE of the faithful model: the watcher goroutine's second
   setWatchData can overwrite the newer data of a client build that ran in
   between (witness below; it needs the watcher goroutine to be preempted
   between `w.rebuild()` returning and `w.setWatchData`, while a complete client
   build runs - not reproducible by a test on the real code, so it is recorded
   as an observation about the model, not as a finding: the effect is one
   redundant build, never a missed change) *)
Theorem watch_no_redundant_build_refuted :
  exists s tr s' b, wrun ws0 wit_redundant = Some (s, tr) /\
    w_fver s b = Some (w_edits s) /\ w_client s = CNone /\
    wexec s XWatcher = Some (s', WBuild (w_nb s)).
Proof. exact redundant_watch_build_possible. Qed.
Print Assumptions watch_no_redundant_build_refuted.
