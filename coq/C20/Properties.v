(* C20 property theorems: statements closed by [exact lemma] + Print Assumptions. *)
From V Require Import Common.Base C20.Protocol C20.ProtocolProofs C20.CtxLTS C20.CtxProofs.

(* writeUint32 / readUint32: little-endian round trip modulo 2^32, any trailing bytes *)
Theorem uint32_roundtrip : forall n r, read32 (le32 n ++ r) = Some (n mod 4294967296, r).
Proof. exact read32_le32. Qed.
Print Assumptions uint32_roundtrip.

(* In every reachable state of the context LTS (any number of threads, any
   interleaving of Rebuild/Cancel/Dispose/Watch calls, edits and watcher
   ticks) at most one thread is inside rebuildImpl, and for one build only. *)
Theorem at_most_one_build_running : forall s, reachable s ->
  forall t1 t2 b1 b2, (t1 < nt s)%nat -> (t2 < nt s)%nat ->
    phase_of (t_pc (thr s t1)) = Some b1 -> phase_of (t_pc (thr s t2)) = Some b2 ->
    t1 = t2 /\ b1 = b2.
Proof. exact one_build_running. Qed.
Print Assumptions at_most_one_build_running.

(* Deadlock freedom: in every reachable state, as long as some thread has not
   returned, the system itself (a thread step or the passing of time in the
   watcher goroutine; no new call, no edit) can take a step.  The termination
   of rebuildImpl is built into the model: the owner's phase steps are always
   enabled. *)
Theorem deadlock_free : forall s, reachable s ->
  forall t, (t < nt s)%nat -> is_ret (t_pc (thr s t)) = false ->
  exists a s' l, system a = true /\ exec s a = Some (s', l).
Proof. intros s R. exact (progress_inv s (sinv_reachable s R)). Qed.
Print Assumptions deadlock_free.
