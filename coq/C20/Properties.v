(* C20 property theorems: statements closed by [exact lemma] + Print Assumptions. *)
From V Require Import Common.Base C20.Protocol C20.ProtocolProofs.

(* writeUint32 / readUint32: little-endian round trip modulo 2^32, any trailing bytes *)
Theorem uint32_roundtrip : forall n r, read32 (le32 n ++ r) = Some (n mod 4294967296, r).
Proof. exact read32_le32. Qed.
Print Assumptions uint32_roundtrip.
