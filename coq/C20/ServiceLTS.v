(* C20 model (d): the service layer of /repo/cmd/esbuild/service.go as a
   labelled transition system over packets:
     runService (main loop: packets are decoded one after the other; stdin
       closed ends the loop; the process exits when keepAliveWaitGroup drops
       to zero),
     handleIncomingPacket (what is decided synchronously when a request
       arrives - in particular `build.ctx = nil` for 'dispose' - and the
       goroutine that later sends the response),
     sendRequest / the callbacks table (nextRequestID, one pending callback
       per service request id),
     createActiveBuild / destroyActiveBuild (a context keeps the process
       alive until it is disposed),
     the keep-alive reference counting (one reference for the main loop, one
       per request being handled, one per live context).
   One transition = one packet or one bookkeeping step of a handler goroutine.
   Builds are abstract: a rebuild handler starts its build, may exchange any
   number of callbacks with the client, ends it.  Executable definitions only. *)
From V Require Import Common.Base C20.ServiceSpec.

Inductive scmd :=
| CPlain                 (* transform, format-msgs, analyze-metafile, one-shot build, errors: no shared state *)
| CCreate (k : Z)        (* build with context: true *)
| CRebuild (k : Z) | CCancel (k : Z) | CDispose (k : Z).

(* what the synchronous part of handleIncomingPacket decided for the request *)
Inductive hkind :=
| HPlain
| HCreate (k : Z)
| HRebuild (k : Z) (live : bool)    (* live: the context existed and build.ctx != nil *)
| HCancel (k : Z) (live : bool)
| HDispose (k : Z) (live : bool)
| HAfterDispose (k : Z).            (* respondAfterDispose: a cancel/dispose that arrived while a dispose of k was pending *)

Inductive hstate :=
| HRun                   (* may answer / may send a callback request *)
| HWait (rid : Z)        (* sendRequest: blocked until the client answers rid *)
| HBuild                 (* rebuild: inside ctx.Rebuild(), the build is running *)
| HBuildWait (rid : Z)   (* the running build waits for a plugin callback / on-end *)
| HDone.                 (* rebuild: ctx.Rebuild() returned *)

Record handler := mkH { h_id : Z; h_kind : hkind; h_st : hstate }.
Record cst := mkC { c_key : Z; c_live : bool; c_building : bool }.

Record sst := mkS {
  s_closed : bool;           (* stdin reached EOF: the main loop is over *)
  s_exited : bool;
  s_keep : Z;                (* keepAliveWaitGroup counter *)
  s_next : Z;                (* nextRequestID *)
  s_cbs : list Z;            (* service.callbacks: ids with a pending callback *)
  s_hs : list handler;       (* goroutines handling client requests *)
  s_cs : list cst }.         (* service.activeBuilds (contexts only) *)

Definition sst0 := mkS false false 1 0 [] [] [].

Inductive sact :=
| SRecv (id : Z) (c : scmd)     (* a request packet arrives and is dispatched *)
| SRespond (id : Z)             (* the handler of request id sends its response *)
| SCallback (id : Z)            (* the handler of request id sends a request to the client *)
| SCResp (rid : Z)              (* the client's answer to service request rid arrives *)
| SBuildStart (id : Z) | SBuildEnd (id : Z)
| SClose | SExit.

Fixpoint find_h (id : Z) (l : list handler) : option handler :=
  match l with [] => None | h :: r => if id =? h_id h then Some h else find_h id r end.
Fixpoint remove_h (id : Z) (l : list handler) : list handler :=
  match l with [] => [] | h :: r => if id =? h_id h then r else h :: remove_h id r end.
Fixpoint set_h (id : Z) (st : hstate) (l : list handler) : list handler :=
  match l with
  | [] => []
  | h :: r => if id =? h_id h then mkH (h_id h) (h_kind h) st :: r else h :: set_h id st r
  end.
Fixpoint find_c (k : Z) (l : list cst) : option cst :=
  match l with [] => None | c :: r => if k =? c_key c then Some c else find_c k r end.
Fixpoint remove_c (k : Z) (l : list cst) : list cst :=
  match l with [] => [] | c :: r => if k =? c_key c then r else c :: remove_c k r end.
Fixpoint set_c (k : Z) (live building : bool) (l : list cst) : list cst :=
  match l with
  | [] => []
  | c :: r => if k =? c_key c then mkC k live building :: r else c :: set_c k live building r
  end.
Definition ctx_live (k : Z) (l : list cst) : bool :=
  match find_c k l with Some c => c_live c | None => false end.
Definition ctx_building (k : Z) (l : list cst) : bool :=
  match find_c k l with Some c => c_building c | None => false end.
(* rebuild goroutines that hold the context's disposeWaitGroup *)
Definition rebuilds_of (k : Z) (l : list handler) : bool :=
  existsb (fun h => match h_kind h with HRebuild k' true => k =? k' | _ => false end) l.
(* the handler blocked on service request rid *)
Fixpoint waiter_of (rid : Z) (l : list handler) : option handler :=
  match l with
  | [] => None
  | h :: r => match h_st h with
              | HWait x | HBuildWait x => if rid =? x then Some h else waiter_of rid r
              | _ => waiter_of rid r
              end
  end.

Definition upd_s (s : sst) keep next cbs hs cs :=
  mkS (s_closed s) (s_exited s) keep next cbs hs cs.

Definition sexec (s : sst) (a : sact) : option (sst * option sev) :=
  if s_exited s then None else
  match a with
  | SRecv id c =>
      if s_closed s || (match find_h id (s_hs s) with Some _ => true | None => false end) then None else
      match c with
      | CPlain =>
          Some (upd_s s (s_keep s + 1) (s_next s) (s_cbs s) (mkH id HPlain HRun :: s_hs s) (s_cs s), Some (ECReq id))
      | CCreate k =>
          (* createActiveBuild panics on a duplicate key: the client never reuses a live key *)
          match find_c k (s_cs s) with
          | Some _ => None
          | None => Some (upd_s s (s_keep s + 1) (s_next s) (s_cbs s) (mkH id (HCreate k) HRun :: s_hs s) (s_cs s), Some (ECReq id))
          end
      | CRebuild k =>
          Some (upd_s s (s_keep s + 1) (s_next s) (s_cbs s)
                      (mkH id (HRebuild k (ctx_live k (s_cs s))) HRun :: s_hs s) (s_cs s), Some (ECReq id))
      | CCancel k =>
          (* ctx != nil: the goroutine calls ctx.Cancel(); ctx == nil with a pending
             dispose (disposeDone != nil): respondAfterDispose; no entry: answered at once *)
          let kind := match find_c k (s_cs s) with
                      | None => HCancel k false
                      | Some c => if c_live c then HCancel k true else HAfterDispose k
                      end in
          Some (upd_s s (s_keep s + 1) (s_next s) (s_cbs s) (mkH id kind HRun :: s_hs s) (s_cs s), Some (ECReq id))
      | CDispose k =>
          (* `build.ctx = nil` and `build.disposeDone = make(chan)` happen here, synchronously *)
          match find_c k (s_cs s) with
          | None =>
              Some (upd_s s (s_keep s + 1) (s_next s) (s_cbs s) (mkH id (HDispose k false) HRun :: s_hs s) (s_cs s), Some (ECReq id))
          | Some c =>
              if c_live c
              then Some (upd_s s (s_keep s + 1) (s_next s) (s_cbs s) (mkH id (HDispose k true) HRun :: s_hs s)
                               (set_c k false (c_building c) (s_cs s)), Some (ECReq id))
              else Some (upd_s s (s_keep s + 1) (s_next s) (s_cbs s) (mkH id (HAfterDispose k) HRun :: s_hs s) (s_cs s), Some (ECReq id))
          end
      end
  | SRespond id =>
      match find_h id (s_hs s) with
      | None => None
      | Some h =>
          let gone := remove_h id (s_hs s) in
          match h_kind h, h_st h with
          | HPlain, HRun => Some (upd_s s (s_keep s - 1) (s_next s) (s_cbs s) gone (s_cs s), Some (ESResp id))
          | HCreate k, HRun =>
              (* the context now exists and holds one keep-alive reference *)
              Some (upd_s s (s_keep s - 1 + 1) (s_next s) (s_cbs s) gone (mkC k true false :: s_cs s), Some (ESResp id))
          | HRebuild k true, HDone => Some (upd_s s (s_keep s - 1) (s_next s) (s_cbs s) gone (s_cs s), Some (ESResp id))
          | HRebuild k false, HRun => Some (upd_s s (s_keep s - 1) (s_next s) (s_cbs s) gone (s_cs s), Some (ESResp id))
          | HCancel k true, HRun =>
              (* ctx.Cancel() returns only when no build is running *)
              if ctx_building k (s_cs s) then None
              else Some (upd_s s (s_keep s - 1) (s_next s) (s_cbs s) gone (s_cs s), Some (ESResp id))
          | HCancel k false, HRun => Some (upd_s s (s_keep s - 1) (s_next s) (s_cbs s) gone (s_cs s), Some (ESResp id))
          | HDispose k true, HRun =>
              (* disposeWaitGroup.Wait(), ctx.Dispose(), destroyActiveBuild *)
              (* destroyActiveBuild panics if the entry is missing; it never is (one
                 live dispose per context), the model simply disables the step *)
              if rebuilds_of k (s_hs s) || ctx_building k (s_cs s)
                 || (match find_c k (s_cs s) with Some _ => false | None => true end) then None
              else Some (upd_s s (s_keep s - 1 - 1) (s_next s) (s_cbs s) gone (remove_c k (s_cs s)), Some (ESResp id))
          | HDispose k false, HRun => Some (upd_s s (s_keep s - 1) (s_next s) (s_cbs s) gone (s_cs s), Some (ESResp id))
          | HAfterDispose k, HRun =>
              (* <-disposeDone: closed right after destroyActiveBuild removed the entry.
                 (If the client re-creates the same key at once the model waits
                 longer than the code; the model then has fewer behaviours.) *)
              match find_c k (s_cs s) with
              | Some _ => None
              | None => Some (upd_s s (s_keep s - 1) (s_next s) (s_cbs s) gone (s_cs s), Some (ESResp id))
              end
          | _, _ => None
          end
      end
  | SCallback id =>
      match find_h id (s_hs s) with
      | None => None
      | Some h =>
          let rid := s_next s in
          match h_st h with
          | HRun =>
              match h_kind h with
              | HPlain | HCreate _ =>
                  Some (upd_s s (s_keep s) (rid + 1) (rid :: s_cbs s) (set_h id (HWait rid) (s_hs s)) (s_cs s), Some (ESReq rid))
              | _ => None
              end
          | HBuild =>
              Some (upd_s s (s_keep s) (rid + 1) (rid :: s_cbs s) (set_h id (HBuildWait rid) (s_hs s)) (s_cs s), Some (ESReq rid))
          | _ => None
          end
      end
  | SCResp rid =>
      if s_closed s || negb (zmem rid (s_cbs s)) then None else
      match waiter_of rid (s_hs s) with
      | None => None
      | Some h =>
          Some (upd_s s (s_keep s) (s_next s) (zremove rid (s_cbs s))
                      (set_h (h_id h) (match h_st h with HBuildWait _ => HBuild | _ => HRun end) (s_hs s)) (s_cs s),
                Some (ECResp rid))
      end
  | SBuildStart id =>
      match find_h id (s_hs s) with
      | Some h =>
          match h_kind h, h_st h with
          | HRebuild k true, HRun =>
              if ctx_building k (s_cs s) then None
              else Some (upd_s s (s_keep s) (s_next s) (s_cbs s) (set_h id HBuild (s_hs s))
                               (set_c k (ctx_live k (s_cs s)) true (s_cs s)), None)
          | _, _ => None
          end
      | None => None
      end
  | SBuildEnd id =>
      match find_h id (s_hs s) with
      | Some h =>
          match h_kind h, h_st h with
          | HRebuild k true, HBuild =>
              Some (upd_s s (s_keep s) (s_next s) (s_cbs s) (set_h id HDone (s_hs s))
                          (set_c k (ctx_live k (s_cs s)) false (s_cs s)), None)
          | _, _ => None
          end
      | None => None
      end
  | SClose =>
      if s_closed s then None
      else Some (mkS true false (s_keep s - 1) (s_next s) (s_cbs s) (s_hs s) (s_cs s), Some (EClose))
  | SExit =>
      if s_closed s && (s_keep s =? 0)
      then Some (mkS true true (s_keep s) (s_next s) (s_cbs s) (s_hs s) (s_cs s), Some (EExit)) else None
  end.

Fixpoint srun (s : sst) (acts : list sact) : option (sst * list sev) :=
  match acts with
  | [] => Some (s, [])
  | a :: r =>
      match sexec s a with
      | None => None
      | Some (s1, oe) =>
          match srun s1 r with
          | None => None
          | Some (s2, tr) => Some (s2, match oe with Some e => e :: tr | None => tr end)
          end
      end
  end.

