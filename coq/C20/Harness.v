(* Checkers evaluated by the correspondence run (vm_compute on generated case
   files).  Each returns the indices of the failing cases. *)
From V Require Import Common.Base C20.Protocol.

Fixpoint mism_from {A} (f : A -> bool) (l : list A) (i : nat) : list nat :=
  match l with
  | [] => []
  | x :: r => if f x then mism_from f r (S i) else i :: mism_from f r (S i)
  end.
Definition mismatches {A} (f : A -> bool) (l : list A) : list nat := mism_from f l 0.

(* One packet that crossed the pipe of the real `esbuild --service`:
   (body bytes, id, isRequest, value as decoded by the harness codec).
   - bytes written by the real encodePacket: the model decodes them to that
     value and re-encodes the value to exactly those bytes;
   - bytes written by the harness codec and accepted by the real
     decodePacket: same two checks. *)
Definition pkt_ok (c : bytes * Z * bool * value) : bool :=
  let '(body, id, isreq, v) := c in
  match decodePacket body with
  | DOk p => (p_id p =? id) && Bool.eqb (p_isRequest p) isreq && value_eqb (p_value p) v
  | _ => false
  end
  && zlist_eqb (encodeBody (mkPacket id isreq v)) body.
Definition check_pkt := mismatches pkt_ok.

(* the stream as the service wrote it / as the harness wrote it, and the
   bodies the harness framed: runService's framing loop must agree *)
Definition stream_ok (c : bytes * list bytes * bytes) : bool :=
  let '(stream, bodies, tail) := c in
  let '(l, t) := split_stream stream in
  list_eqb zlist_eqb l bodies && zlist_eqb t tail.
Definition check_stream := mismatches stream_ok.

(* ---- contexts: recorded histories of one real api.BuildContext ---- *)
From V Require Import C20.CtxLTS C20.CtxSpec C20.PluginSpec.
Definition check_hist := mismatches history_ok.

(* ---- plugin callback trace of one real build: (nS, nE, trace) ---- *)
Definition trace_ok (c : nat * nat * list pevent) : bool :=
  let '(nS, nE, tr) := c in build_trace_ok nS nE tr.
Definition check_trace := mismatches trace_ok.

(* ---- the packet transcript of one real `esbuild --service` process ---- *)
From V Require Import C20.ServiceSpec.
Definition check_svc := mismatches svc_trace_ok.

(* ---- watch mode on real histories: the builds that start while no client
   Rebuild is pending (started by the watcher goroutine or by Watch's first
   build) are projected to the vocabulary of the watch model and must satisfy
   its trace specification, with one extra build allowed for the unconditional
   first watch-mode build (which the watch model does not contain) ---- *)
From V Require Import C20.WatchServe.
Fixpoint wproj_go (pending : nat) (h : list label) : list wlabel :=
  match h with
  | [] => []
  | LEdit :: r => WEdit :: wproj_go pending r
  | LCall _ OpRebuild :: r => wproj_go (S pending) r
  | LRet _ OpRebuild _ :: r => wproj_go (pred pending) r
  | LStart b :: r => match pending with O => WBuild b :: wproj_go pending r | _ => wproj_go pending r end
  | _ :: r => wproj_go pending r
  end.
Definition watch_hist_ok (h : list label) : bool := wtrace_ok 1 (wproj_go 0 h).
Definition check_watch := mismatches watch_hist_ok.
