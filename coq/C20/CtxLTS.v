(* C20 model (a): the build-context state machine of /repo/pkg/api/api_impl.go
     internalContext.rebuild / Rebuild / Cancel / Dispose / Watch,
     buildInProgress{state, waitGroup, cancel}, and the watcher goroutine of
     /repo/pkg/api/watcher.go (start / stop),
   as a labelled transition system for ANY number of threads.

   One transition = one atomic block of the Go code: a critical section of
   ctx.mutex, one atomic flag access (config.CancelFlag, watcher.shouldStop),
   waitGroup.Done, or one phase of rebuildImpl (on-start callbacks, the cancel
   poll between phases, reading the module contents, the final cancel poll with
   the on-end callbacks).  waitGroup.Wait / stopWaitGroup.Wait are enabledness
   guards.  rebuildImpl's termination is built in: the owner's phase
   transitions are always enabled.

   Executable definitions only.  [exec s a] is the (deterministic) effect of
   action [a]; all nondeterminism is in the choice of the action:
     ACall o   a client starts a new API call (any number, any time)
     AEdit     the environment edits an input file
     ATick d   100 ms pass in the watcher goroutine; d = a dirty path was found
     AStep t   thread t executes its next atomic block.  *)
From V Require Import Common.Base.
Local Close Scope Z_scope.
Local Open Scope nat_scope.

Inductive op := OpRebuild | OpCancel | OpDispose | OpWatch.

(* what an API call returns.  A build result is identified by the build it
   belongs to, whether it carries "The build was canceled", and the version of
   the inputs it read (None: cancelled before anything was read) *)
Inductive retv :=
| RvEmpty                                            (* Rebuild on a disposed context: rebuildState{} *)
| RvBuild (b : nat) (cancelled : bool) (ver : option nat)
| RvUnit                                             (* Cancel / Dispose / Watch = nil *)
| RvErr.                                             (* Watch error *)

Inductive kind :=
| KClient (o : op)      (* an API call made by a client *)
| KWatchFirst           (* the goroutine started by Watch for the first watch-mode build *)
| KWatcher.             (* the watcher goroutine (watcher.start) *)

Inductive pc :=
(* ctx.rebuild() *)
| PRbStart                              (* first critical section *)
| PRbJoin (b : nat)                     (* build.waitGroup.Wait() *)
| PRbOnStart (b : nat)                  (* rebuildImpl: on-start callbacks *)
| PRbPoll (b : nat)                     (* CancelFlag.DidCancel() before scanning *)
| PRbLoad (b : nat)                     (* scan: the inputs are read *)
| PRbEnd (b : nat) (ver : option nat)   (* final DidCancel(), write, on-end callbacks *)
| PRbPublish (b : nat)                  (* second critical section *)
| PRbDone (b : nat)                     (* build.waitGroup.Done(); return build.state *)
(* Cancel *)
| PCaStart | PCaSet (b : nat) | PCaWait (b : nat)
(* Dispose *)
| PDiStart | PDiStop (ob : option nat) | PDiStopWait (ob : option nat) | PDiWait (b : nat)
(* Watch: the whole function is one critical section (PWaStart); the call
   returns later (PWaRet), so that other calls may be observed to return in
   between *)
| PWaStart | PWaRet (v : retv)
| PWfStart | PWfWait (b : nat)
| PWlCheck | PWlSleep
| PRet (v : retv).

Record thread := mkThread { t_kind : kind; t_cid : nat; t_pc : pc }.

Record build := mkBuild {
  b_owner : nat;
  b_cancel : bool;                          (* build.cancel *)
  b_result : option (bool * option nat);    (* build.state, written by the owner before publishing *)
  b_done : bool }.                          (* waitGroup counter reached zero *)

Record state := mkState {
  disposed : bool;            (* ctx.didDispose *)
  active : option nat;        (* ctx.activeBuild *)
  recent : option nat;        (* ctx.recentBuild *)
  watcher : bool;             (* ctx.watcher != nil *)
  wtid : nat;                 (* thread id of the watcher goroutine *)
  stopFlag : bool;            (* watcher.shouldStop *)
  wexited : bool;             (* watcher.stopWaitGroup reached zero *)
  edits : nat;                (* version of the inputs *)
  nb : nat; blds : nat -> build;
  nt : nat; thr : nat -> thread;
  ncalls : nat }.

Inductive label :=
| LCall (c : nat) (o : op)
| LRet (c : nat) (o : op) (v : retv)
| LStart (b : nat)                   (* on-start callbacks of build b run *)
| LLoad (b : nat) (ver : nat)        (* build b reads its inputs at version ver *)
| LEnd (b : nat) (cancelled : bool)  (* on-end callbacks of build b run *)
| LEdit
| LTau.

Inductive action := ACall (o : op) | AEdit | ATick (dirty : bool) | AStep (t : nat).

Definition upd {A} (f : nat -> A) (k : nat) (v : A) : nat -> A :=
  fun x => if Nat.eqb x k then v else f x.

Definition dummy_build := mkBuild 0 false None false.
Definition dummy_thread := mkThread KWatchFirst 0 (PRet RvUnit).

Definition init : state :=
  mkState false None None false 0 false false 0 0 (fun _ => dummy_build) 0 (fun _ => dummy_thread) 0.

Definition start_pc (o : op) : pc :=
  match o with OpRebuild => PRbStart | OpCancel => PCaStart | OpDispose => PDiStart | OpWatch => PWaStart end.

(* field updates *)
Definition set_thr (s : state) (t : nat) (th : thread) : state :=
  mkState (disposed s) (active s) (recent s) (watcher s) (wtid s) (stopFlag s) (wexited s) (edits s)
          (nb s) (blds s) (nt s) (upd (thr s) t th) (ncalls s).
Definition set_pc (s : state) (t : nat) (p : pc) : state :=
  set_thr s t (mkThread (t_kind (thr s t)) (t_cid (thr s t)) p).
Definition set_bld (s : state) (b : nat) (x : build) : state :=
  mkState (disposed s) (active s) (recent s) (watcher s) (wtid s) (stopFlag s) (wexited s) (edits s)
          (nb s) (upd (blds s) b x) (nt s) (thr s) (ncalls s).

(* an API call of thread t returns v *)
Definition ret (s : state) (t : nat) (v : retv) : state * label :=
  (set_pc s t (PRet v),
   match t_kind (thr s t) with KClient o => LRet (t_cid (thr s t)) o v | _ => LTau end).

(* ctx.rebuild() returns in thread t: a client gets the value; the watcher
   goroutine calls setWatchData and loops *)
Definition finish_rebuild (s : state) (t : nat) (v : retv) : state * label :=
  match t_kind (thr s t) with
  | KWatcher => (set_pc s t PWlCheck, LTau)
  | _ => ret s t v
  end.

Definition result_of (s : state) (b : nat) : retv :=
  match b_result (blds s b) with
  | Some (c, ov) => RvBuild b c ov
  | None => RvEmpty
  end.

Definition exec_step (s : state) (t : nat) : option (state * label) :=
  if negb (t <? nt s) then None else
  match t_pc (thr s t) with
  | PRbStart =>
      if disposed s then Some (finish_rebuild s t RvEmpty)
      else match active s with
           | Some b => Some (set_pc s t (PRbJoin b), LTau)
           | None =>
               let b := nb s in
               let s1 := mkState (disposed s) (Some b) (recent s) (watcher s) (wtid s) (stopFlag s) (wexited s)
                                 (edits s) (S b) (upd (blds s) b (mkBuild t false None false))
                                 (nt s) (thr s) (ncalls s) in
               Some (set_pc s1 t (PRbOnStart b), LTau)
           end
  | PRbJoin b => if b_done (blds s b) then Some (finish_rebuild s t (result_of s b)) else None
  | PRbOnStart b => Some (set_pc s t (PRbPoll b), LStart b)
  | PRbPoll b =>
      if b_cancel (blds s b) then Some (set_pc s t (PRbEnd b None), LTau)
      else Some (set_pc s t (PRbLoad b), LTau)
  | PRbLoad b => Some (set_pc s t (PRbEnd b (Some (edits s))), LLoad b (edits s))
  | PRbEnd b ov =>
      let x := blds s b in
      let c := b_cancel x in
      Some (set_pc (set_bld s b (mkBuild (b_owner x) c (Some (c, ov)) (b_done x))) t (PRbPublish b), LEnd b c)
  | PRbPublish b =>
      let s1 := mkState (disposed s) None (Some b) (watcher s) (wtid s) (stopFlag s) (wexited s)
                        (edits s) (nb s) (blds s) (nt s) (thr s) (ncalls s) in
      Some (set_pc s1 t (PRbDone b), LTau)
  | PRbDone b =>
      let x := blds s b in
      let s1 := set_bld s b (mkBuild (b_owner x) (b_cancel x) (b_result x) true) in
      Some (finish_rebuild s1 t (result_of s1 b))
  | PCaStart =>
      if disposed s then
        (* disposed context: nothing is cancelled, but the call still waits
           for a build that an earlier Dispose is waiting for *)
        match active s with
        | Some b => Some (set_pc s t (PCaWait b), LTau)
        | None => Some (ret s t RvUnit)
        end
      else match active s with
           | Some b => Some (set_pc s t (PCaSet b), LTau)
           | None => Some (ret s t RvUnit)
           end
  | PCaSet b =>
      let x := blds s b in
      Some (set_pc (set_bld s b (mkBuild (b_owner x) true (b_result x) (b_done x))) t (PCaWait b), LTau)
  | PCaWait b => if b_done (blds s b) then Some (ret s t RvUnit) else None
  | PDiStart =>
      if disposed s then
        match active s with
        | Some b => Some (set_pc s t (PDiWait b), LTau)
        | None => Some (ret s t RvUnit)
        end
      else
        let s1 := mkState true (active s) None (watcher s) (wtid s) (stopFlag s) (wexited s)
                          (edits s) (nb s) (blds s) (nt s) (thr s) (ncalls s) in
        Some (set_pc s1 t (PDiStop (active s)), LTau)
  | PDiStop ob =>
      let s1 := mkState (disposed s) (active s) (recent s) (watcher s) (wtid s)
                        (if watcher s then true else stopFlag s) (wexited s)
                        (edits s) (nb s) (blds s) (nt s) (thr s) (ncalls s) in
      Some (set_pc s1 t (PDiStopWait ob), LTau)
  | PDiStopWait ob =>
      if watcher s && negb (wexited s) then None
      else match ob with
           | Some b => Some (set_pc s t (PDiWait b), LTau)
           | None => Some (ret s t RvUnit)
           end
  | PDiWait b => if b_done (blds s b) then Some (ret s t RvUnit) else None
  | PWaStart =>
      if disposed s then Some (ret s t RvErr)
      else if watcher s then Some (set_pc s t (PWaRet RvErr), LTau)
      else
        let w := nt s in
        let s1 := mkState (disposed s) (active s) (recent s) true w (stopFlag s) (wexited s)
                          (edits s) (nb s) (blds s) (S (S w))
                          (upd (upd (thr s) w (mkThread KWatcher 0 PWlCheck)) (S w) (mkThread KWatchFirst 0 PWfStart))
                          (ncalls s) in
        Some (set_pc s1 t (PWaRet RvUnit), LTau)
  | PWaRet v => Some (ret s t v)
  | PWfStart =>
      match active s with
      | Some b => Some (set_pc s t (PWfWait b), LTau)
      | None => Some (set_pc s t PRbStart, LTau)
      end
  | PWfWait b => if b_done (blds s b) then Some (set_pc s t PRbStart, LTau) else None
  | PWlCheck =>
      if stopFlag s then
        let s1 := mkState (disposed s) (active s) (recent s) (watcher s) (wtid s) (stopFlag s) true
                          (edits s) (nb s) (blds s) (nt s) (thr s) (ncalls s) in
        Some (set_pc s1 t (PRet RvUnit), LTau)
      else Some (set_pc s t PWlSleep, LTau)
  | PWlSleep => None
  | PRet _ => None
  end.

Definition exec (s : state) (a : action) : option (state * label) :=
  match a with
  | ACall o =>
      let t := nt s in
      let c := ncalls s in
      Some (mkState (disposed s) (active s) (recent s) (watcher s) (wtid s) (stopFlag s) (wexited s)
                    (edits s) (nb s) (blds s) (S t) (upd (thr s) t (mkThread (KClient o) c (start_pc o))) (S c),
            LCall c o)
  | AEdit =>
      Some (mkState (disposed s) (active s) (recent s) (watcher s) (wtid s) (stopFlag s) (wexited s)
                    (S (edits s)) (nb s) (blds s) (nt s) (thr s) (ncalls s), LEdit)
  | ATick dirty =>
      if watcher s then
        match t_pc (thr s (wtid s)) with
        | PWlSleep => Some (set_pc s (wtid s) (if dirty then PRbStart else PWlCheck), LTau)
        | _ => None
        end
      else None
  | AStep t => exec_step s t
  end.

(* steps taken by the system itself (threads and the passing of time), as
   opposed to new calls and edits *)
Definition system (a : action) : bool :=
  match a with AStep _ | ATick _ => true | _ => false end.

Inductive run : state -> list label -> state -> Prop :=
| run_nil : forall s, run s [] s
| run_snoc : forall s tr s1 a s2 l, run s tr s1 -> exec s1 a = Some (s2, l) -> run s (tr ++ [l]) s2.

Definition reachable (s : state) : Prop := exists tr, run init tr s.

(* run a list of actions (for examples and witnesses) *)
Fixpoint exec_all (s : state) (acts : list action) : option (state * list label) :=
  match acts with
  | [] => Some (s, [])
  | a :: r =>
      match exec s a with
      | None => None
      | Some (s1, l) =>
          match exec_all s1 r with
          | None => None
          | Some (s2, tr) => Some (s2, l :: tr)
          end
      end
  end.
