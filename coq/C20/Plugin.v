(* C20 model (c): the order of plugin callbacks within one build, mirroring
     /repo/internal/bundler/bundler.go  ScanBundle (on-start callbacks are
       started in goroutines, onStartWaitGroup.Wait() is the barrier before
       anything is scanned: preprocessInjectedFiles - which runs the on-resolve
       callbacks for every Inject path and starts their parse goroutines -,
       addEntryPoints and scanAllDependencies all come after it),
       scanner.maybeParseFile (the visited map decides
       whether a parse goroutine - which runs the on-load callback - is
       started), and
     /repo/pkg/api/api_impl.go  rebuildImpl (outputs are written, then the
       on-end callbacks run one after the other until one fails).
   One transition = one callback begin/end or one bookkeeping step; all
   nondeterminism (goroutine scheduling, which import is visited next) is in
   the choice of the action.  Executable definitions only. *)
From V Require Import Common.Base C20.PluginSpec.
Local Close Scope Z_scope.
Local Open Scope nat_scope.

Record bst := mkB {
  b_sb : list nat;          (* on-start callbacks begun *)
  b_se : list nat;          (* on-start callbacks ended (onStartWaitGroup.Done) *)
  b_barrier : bool;         (* onStartWaitGroup.Wait() returned *)
  b_visited : list nat;     (* keys of s.visited *)
  b_pending : list nat;     (* parse goroutines started whose on-load has not run yet *)
  b_loaded : list nat;      (* identities whose on-load ran *)
  b_written : bool;         (* outputs written *)
  b_endNext : nat; b_endOpen : bool; b_endStopped : bool;
  b_parsing : list nat;     (* parse goroutines past on-load: resolving the imports, result not yet received by the scan loop *)
  b_resolved : list (nat * nat) }.  (* parseFile's resolver caches: (file, key) already resolved *)

Definition bst0 := mkB [] [] false [] [] [] false 0 false false [] [].

Inductive bact :=
| AStartBegin (i : nat) | AStartEnd (i : nat) | ABarrier
| AVisit (id : nat)      (* maybeParseFile for a resolved import / entry point *)
| AResolve               (* an on-resolve callback runs (scan phase) *)
| ALoad (id : nat)       (* a parse goroutine runs the on-load callback *)
| AWrite                 (* scan finished, link, write outputs *)
| AEndBegin | AEndEnd (failed : bool)
| AInjectResolve         (* preprocessInjectedFiles: on-resolve callback for an Inject path *)
| AInjectVisit (id : nat)  (* preprocessInjectedFiles: maybeParseFile for a resolved Inject path *)
| AResolveIn (id key : nat) (* the parse goroutine of file id runs the on-resolve callbacks for one of its imports *)
| ADeliver (id : nat).      (* the scan loop receives the parse result of file id *)

Fixpoint remove1 (k : nat) (l : list nat) : list nat :=
  match l with [] => [] | x :: r => if Nat.eqb k x then r else x :: remove1 k r end.

Definition bexec (nS nE : nat) (s : bst) (a : bact) : option (bst * option pevent) :=
  match a with
  | AStartBegin i =>
      if (i <? nS) && negb (memn i (b_sb s)) && negb (b_barrier s)
      then Some (mkB (i :: b_sb s) (b_se s) (b_barrier s) (b_visited s) (b_pending s) (b_loaded s)
                     (b_written s) (b_endNext s) (b_endOpen s) (b_endStopped s) (b_parsing s) (b_resolved s), Some (PSB i))
      else None
  | AStartEnd i =>
      if memn i (b_sb s) && negb (memn i (b_se s))
      then Some (mkB (b_sb s) (i :: b_se s) (b_barrier s) (b_visited s) (b_pending s) (b_loaded s)
                     (b_written s) (b_endNext s) (b_endOpen s) (b_endStopped s) (b_parsing s) (b_resolved s), Some (PSE i))
      else None
  | ABarrier =>
      if Nat.eqb (length (b_se s)) nS
      then Some (mkB (b_sb s) (b_se s) true (b_visited s) (b_pending s) (b_loaded s)
                     (b_written s) (b_endNext s) (b_endOpen s) (b_endStopped s) (b_parsing s) (b_resolved s), None)
      else None
  | AVisit id =>
      if b_barrier s && negb (b_written s) then
        if memn id (b_visited s) then Some (s, None)
        else Some (mkB (b_sb s) (b_se s) (b_barrier s) (id :: b_visited s) (id :: b_pending s) (b_loaded s)
                       (b_written s) (b_endNext s) (b_endOpen s) (b_endStopped s) (b_parsing s) (b_resolved s), None)
      else None
  | AResolve =>
      if b_barrier s && negb (b_written s) then Some (s, Some PRes) else None
  | ALoad id =>
      if memn id (b_pending s)
      then Some (mkB (b_sb s) (b_se s) (b_barrier s) (b_visited s) (remove1 id (b_pending s)) (id :: b_loaded s)
                     (b_written s) (b_endNext s) (b_endOpen s) (b_endStopped s) (id :: b_parsing s) (b_resolved s), Some (PLoad id))
      else None
  | AWrite =>
      if b_barrier s && negb (b_written s) && (match b_pending s with [] => true | _ => false end)
         && (match b_parsing s with [] => true | _ => false end)
      then Some (mkB (b_sb s) (b_se s) (b_barrier s) (b_visited s) (b_pending s) (b_loaded s)
                     true (b_endNext s) (b_endOpen s) (b_endStopped s) (b_parsing s) (b_resolved s), None)
      else None
  | AEndBegin =>
      if b_written s && negb (b_endOpen s) && negb (b_endStopped s) && (b_endNext s <? nE)
      then Some (mkB (b_sb s) (b_se s) (b_barrier s) (b_visited s) (b_pending s) (b_loaded s)
                     (b_written s) (b_endNext s) true (b_endStopped s) (b_parsing s) (b_resolved s), Some (PEB (b_endNext s) true))
      else None
  | AEndEnd f =>
      if b_endOpen s
      then Some (mkB (b_sb s) (b_se s) (b_barrier s) (b_visited s) (b_pending s) (b_loaded s)
                     (b_written s) (S (b_endNext s)) false f (b_parsing s) (b_resolved s), Some (PEE (b_endNext s) f))
      else None
  (* the inject phase is part of the scan: it is guarded by the barrier exactly
     like the resolution and the visit of ordinary imports *)
  | AInjectResolve =>
      if b_barrier s && negb (b_written s) then Some (s, Some PRes) else None
  | AInjectVisit id =>
      if b_barrier s && negb (b_written s) then
        if memn id (b_visited s) then Some (s, None)
        else Some (mkB (b_sb s) (b_se s) (b_barrier s) (id :: b_visited s) (id :: b_pending s) (b_loaded s)
                       (b_written s) (b_endNext s) (b_endOpen s) (b_endStopped s) (b_parsing s) (b_resolved s), None)
      else None
  (* imports are resolved in the parse goroutine, after the file was loaded;
     the per-file resolver cache makes each (kind, specifier, attributes) hit
     the plugins once *)
  | AResolveIn id key =>
      if memn id (b_parsing s) && negb (memp id key (b_resolved s))
      then Some (mkB (b_sb s) (b_se s) (b_barrier s) (b_visited s) (b_pending s) (b_loaded s)
                     (b_written s) (b_endNext s) (b_endOpen s) (b_endStopped s) (b_parsing s) ((id, key) :: b_resolved s),
                 Some (PResK id key))
      else None
  | ADeliver id =>
      if memn id (b_parsing s)
      then Some (mkB (b_sb s) (b_se s) (b_barrier s) (b_visited s) (b_pending s) (b_loaded s)
                     (b_written s) (b_endNext s) (b_endOpen s) (b_endStopped s) (remove1 id (b_parsing s)) (b_resolved s), None)
      else None
  end.

Fixpoint brun (nS nE : nat) (s : bst) (acts : list bact) : option (bst * list pevent) :=
  match acts with
  | [] => Some (s, [])
  | a :: r =>
      match bexec nS nE s a with
      | None => None
      | Some (s1, oe) =>
          match brun nS nE s1 r with
          | None => None
          | Some (s2, tr) => Some (s2, match oe with Some e => e :: tr | None => tr end)
          end
      end
  end.

(* the build is over: every on-end callback ran, or one failed *)
Definition bdone (nE : nat) (s : bst) : bool :=
  b_written s && negb (b_endOpen s) && (b_endStopped s || Nat.eqb (b_endNext s) nE).
