(* Non-vacuity / sanity: concrete values. *)
From V Require Import Common.Base C20.Protocol.

Definition ex_val : value :=
  VMap [([97], VInt 4294967295); ([97;98], VArr [VNull; VBool true; VStr [104;105]]); ([98], VBytes [0;255])].
Example ex_val_wf : wf ex_val = true. Proof. vm_compute. reflexivity. Qed.
Example ex_pkt_roundtrip :
  decodePacket (encodeBody (mkPacket 2147483647 false ex_val)) = DOk (mkPacket 2147483647 false ex_val).
Proof. vm_compute. reflexivity. Qed.
(* keys are sorted on encode *)
Example ex_sorted :
  enc (VMap [([98], VNull); ([97], VBool false)]) = [6; 2;0;0;0; 1;0;0;0; 97; 1;0; 1;0;0;0; 98; 0].
Proof. vm_compute. reflexivity. Qed.
(* negative ints wrap (Go's uint32(v)): detail = -1 is sent as 0xFFFFFFFF *)
Example ex_neg : enc (VInt (-1)) = [2; 255; 255; 255; 255]. Proof. vm_compute. reflexivity. Qed.

(* ---- context LTS: concrete runs (non-vacuity) ---- *)
From V Require Import C20.CtxLTS C20.CtxSpec.

(* two Rebuild calls; the second joins the build started by the first; a
   Cancel arrives while it runs *)
Definition ex_actions : list action :=
  [ACall OpRebuild; AStep 0%nat; AStep 0%nat;            (* call 0 starts build 0, on-start *)
   ACall OpRebuild; AStep 1%nat;                          (* call 1 joins *)
   AEdit; ACall OpCancel; AStep 2%nat; AStep 2%nat;       (* cancel: lock, set flag *)
   AStep 0%nat; AStep 0%nat; AStep 0%nat; AStep 0%nat;    (* poll (cancelled), end, publish, done+return *)
   AStep 1%nat; AStep 2%nat].                             (* joiner and Cancel return *)
Definition ex_trace : list label :=
  match exec_all init ex_actions with Some (_, tr) => tr | None => [] end.
Example ex_trace_val : ex_trace =
  [LCall 0 OpRebuild; LTau; LStart 0; LCall 1 OpRebuild; LTau; LEdit; LCall 2 OpCancel; LTau; LTau;
   LTau; LEnd 0 true; LTau; LRet 0 OpRebuild (RvBuild 0 true None);
   LRet 1 OpRebuild (RvBuild 0 true None); LRet 2 OpCancel RvUnit].
Proof. vm_compute. reflexivity. Qed.
Example ex_trace_ok : history_ok ex_trace = true. Proof. vm_compute. reflexivity. Qed.

(* the checker discriminates: histories of the code before the fix
   "Cancel and a second Dispose must wait for the running build" are rejected *)
Example ex_bad_cancel : history_ok
  [LCall 0 OpRebuild; LStart 0; LLoad 0 0; LCall 1 OpDispose; LCall 2 OpCancel; LRet 2 OpCancel RvUnit;
   LEnd 0 false; LRet 0 OpRebuild (RvBuild 0 false (Some 0%nat)); LRet 1 OpDispose RvUnit] = false.
Proof. vm_compute. reflexivity. Qed.
Example ex_bad_dispose : history_ok
  [LCall 0 OpRebuild; LStart 0; LLoad 0 0; LCall 1 OpDispose; LCall 2 OpDispose; LRet 2 OpDispose RvUnit;
   LEnd 0 false; LRet 0 OpRebuild (RvBuild 0 false (Some 0%nat)); LRet 1 OpDispose RvUnit] = false.
Proof. vm_compute. reflexivity. Qed.
(* a stale result (the build had been returned before the call was made) is rejected *)
Example ex_bad_stale : history_ok
  [LCall 0 OpRebuild; LStart 0; LLoad 0 0; LEnd 0 false; LRet 0 OpRebuild (RvBuild 0 false (Some 0%nat));
   LEdit; LCall 1 OpRebuild; LRet 1 OpRebuild (RvBuild 0 false (Some 0%nat))] = false.
Proof. vm_compute. reflexivity. Qed.
(* two overlapping builds are rejected *)
Example ex_bad_overlap : history_ok
  [LCall 0 OpRebuild; LCall 1 OpRebuild; LStart 0; LStart 1] = false.
Proof. vm_compute. reflexivity. Qed.

(* no_stale_join is not vacuous: after build 0's waiters were released, a later
   Rebuild call exists and returns build 1 *)
Definition ex_actions2 : list action :=
  [ACall OpRebuild; AStep 0%nat; AStep 0%nat; AStep 0%nat; AStep 0%nat; AStep 0%nat; AStep 0%nat; AStep 0%nat;
   AEdit; ACall OpRebuild; AStep 1%nat; AStep 1%nat; AStep 1%nat; AStep 1%nat; AStep 1%nat; AStep 1%nat; AStep 1%nat].
Example ex_later_call_gets_later_build :
  option_map (fun x => (b_done (blds (fst x) 0%nat), t_pc (thr (fst x) 1%nat))) (exec_all init ex_actions2)
  = Some (true, PRet (RvBuild 1 false (Some 1%nat))).
Proof. vm_compute. reflexivity. Qed.

(* ---- plugin callbacks: a concrete build of the model ---- *)
From V Require Import C20.PluginSpec C20.Plugin.
Definition ex_build : list bact :=
  [AStartBegin 1%nat; AStartBegin 0%nat; AStartEnd 0%nat; AStartEnd 1%nat; ABarrier;
   AInjectResolve; AInjectVisit 7%nat; ALoad 7%nat;
   AVisit 0%nat; AResolve; ALoad 0%nat; AResolveIn 0%nat 0%nat; AResolveIn 0%nat 1%nat; ADeliver 0%nat;
   AVisit 1%nat; AVisit 2%nat; AVisit 1%nat; ALoad 2%nat; ADeliver 2%nat; AResolve; ALoad 1%nat; AResolveIn 1%nat 0%nat; ADeliver 1%nat; AVisit 0%nat; ADeliver 7%nat;
   AWrite; AEndBegin; AEndEnd false; AEndBegin; AEndEnd true].
Example ex_build_trace :
  option_map snd (brun 2 3 bst0 ex_build) =
  Some [PSB 1; PSB 0; PSE 0; PSE 1; PRes; PLoad 7; PRes; PLoad 0; PResK 0 0; PResK 0 1; PLoad 2; PRes; PLoad 1; PResK 1 0; PEB 0 true; PEE 0 false; PEB 1 true; PEE 1 true].
Proof. vm_compute. reflexivity. Qed.
Example ex_build_ok : build_trace_ok 2 3 [PSB 1; PSB 0; PSE 0; PSE 1; PRes; PLoad 0; PLoad 2; PRes; PLoad 1; PEB 0 true; PEE 0 false; PEB 1 true; PEE 1 true] = true.
Proof. vm_compute. reflexivity. Qed.
(* the checker discriminates *)
Example ex_build_bad_barrier : build_trace_ok 2 1 [PSB 0; PSE 0; PSB 1; PLoad 0; PSE 1] = false.
Proof. vm_compute. reflexivity. Qed.
Example ex_build_bad_twice : build_trace_ok 1 1 [PSB 0; PSE 0; PLoad 3; PLoad 3] = false.
Proof. vm_compute. reflexivity. Qed.
Example ex_build_bad_onend : build_trace_ok 1 2 [PSB 0; PSE 0; PEB 0 true; PEE 0 true; PEB 1 true] = false.
Proof. vm_compute. reflexivity. Qed.
(* the inject phase cannot run before the on-start barrier in the model ... *)
Example ex_inject_needs_barrier :
  brun 1 1 bst0 [AStartBegin 0%nat; AInjectResolve] = None.
Proof. vm_compute. reflexivity. Qed.
(* ... and a trace where it does (the seeded change to ScanBundle) is rejected *)
Example ex_build_bad_inject : build_trace_ok 1 1 [PSB 0; PRes; PLoad 0; PSE 0] = false.
Proof. vm_compute. reflexivity. Qed.

(* ---- the service model: a complete session ---- *)
From V Require Import C20.ServiceSpec C20.ServiceLTS C20.ServiceProofs.
Definition ex_session : list sact :=
  [SRecv 10 CPlain; SRecv 1 (CCreate 7); SCallback 10; SRespond 1; SRecv 2 (CRebuild 7); SCResp 0; SRespond 10;
   SBuildStart 2; SCallback 2; SRecv 3 (CCancel 7); SCResp 1; SBuildEnd 2; SRespond 3; SRespond 2;
   SRecv 4 (CDispose 7); SRespond 4; SClose; SExit].
Example ex_session_trace : option_map snd (srun sst0 ex_session) =
  Some [ECReq 10; ECReq 1; ESReq 0; ESResp 1; ECReq 2; ECResp 0; ESResp 10; ESReq 1; ECReq 3; ECResp 1;
        ESResp 3; ESResp 2; ECReq 4; ESResp 4; EClose; EExit].
Proof. vm_compute. reflexivity. Qed.
(* the process cannot exit while a context is alive or a request is unanswered *)
Example ex_no_exit_with_context : srun sst0 [SRecv 1 (CCreate 7); SRespond 1; SClose; SExit] = None.
Proof. vm_compute. reflexivity. Qed.
Example ex_no_exit_unanswered : srun sst0 [SRecv 1 CPlain; SClose; SExit] = None.
Proof. vm_compute. reflexivity. Qed.
(* the checker discriminates *)
Example ex_svc_bad_unknown : svc_trace_ok [ECReq 1; ESResp 2] = false. Proof. vm_compute. reflexivity. Qed.
Example ex_svc_bad_twice : svc_trace_ok [ECReq 1; ESResp 1; ESResp 1] = false. Proof. vm_compute. reflexivity. Qed.
Example ex_svc_bad_exit : svc_trace_ok [ECReq 1; EClose; EExit] = false. Proof. vm_compute. reflexivity. Qed.
(* the former refutation witnesses are no longer runs: the second dispose and
   the cancel after dispose cannot answer while the build is running ... *)
Example ex_second_dispose_blocked : srun sst0 (wit_second_dispose ++ [SRespond 4]) = None.
Proof. vm_compute. reflexivity. Qed.
Example ex_cancel_after_dispose_blocked : srun sst0 (wit_cancel_after_dispose ++ [SRespond 4]) = None.
Proof. vm_compute. reflexivity. Qed.
(* ... they answer after the build ended and the first dispose finished *)
Example ex_second_dispose_later : option_map snd (srun sst0 (wit_second_dispose ++ [SCResp 0; SBuildEnd 2; SRespond 2; SRespond 3; SRespond 4])) =
  Some [ECReq 1; ESResp 1; ECReq 2; ESReq 0; ECReq 3; ECReq 4; ECResp 0; ESResp 2; ESResp 3; ESResp 4].
Proof. vm_compute. reflexivity. Qed.

(* ---- watch mode: a change during a build triggers one more build ---- *)
From V Require Import C20.WatchServe.
Definition ex_watch : list wact :=
  [XWatch; XFirstStart; XClientRead; XEdit; XClientFinish;           (* first watch-mode build reads v0, edit during it *)
   XWatcher; XWatcher; XWatcher; XWatcher; XWatcher;                  (* check, tick: dirty -> own build, read, publish, set *)
   XWatcher; XWatcher; XServeRecent;                                  (* check, tick: clean; the dev server answers from build 1 *)
   XDisposeStart; XWatcher; XDisposeReturn].
Example ex_watch_trace : option_map snd (wrun ws0 ex_watch) =
  Some [WTau; WTau; WTau; WEdit; WTau; WTau; WBuild 1; WTau; WTau; WTau; WTau; WTau; WServed 1; WTau; WTau; WTau].
Proof. vm_compute. reflexivity. Qed.
Example ex_watch_final : option_map (fun x => (w_watched (fst x), w_wbuilds (fst x), w_dispRet (fst x))) (wrun ws0 ex_watch)
  = Some (1%nat, 1%nat, true).
Proof. vm_compute. reflexivity. Qed.
(* Dispose cannot return while the watcher goroutine is still running *)
Example ex_dispose_waits_for_watcher : wrun ws0 [XWatch; XDisposeStart; XDisposeReturn] = None.
Proof. vm_compute. reflexivity. Qed.
(* the trace specification discriminates: a second watcher build without a new change *)
Example ex_watch_bad : wtrace_ok 0 [WEdit; WBuild 1; WBuild 2] = false.
Proof. vm_compute. reflexivity. Qed.

(* ---- two overlapping Watch calls: exactly one succeeds, and the one that
   fails may be observed to return first (the history of soak seed 3) ---- *)
Example ex_watch_overlap_ok : history_ok
  [LCall 0 OpWatch; LCall 1 OpWatch; LRet 1 OpWatch RvErr; LRet 0 OpWatch RvUnit;
   LCall 2 OpRebuild; LCall 3 OpDispose] = true.
Proof. vm_compute. reflexivity. Qed.
(* the model produces such a trace: call 0 sets the flag, call 1 fails and returns before call 0 returns *)
Example ex_watch_overlap_model :
  option_map snd (exec_all init [ACall OpWatch; ACall OpWatch; AStep 0%nat; AStep 1%nat; AStep 1%nat; AStep 0%nat]) =
  Some [LCall 0 OpWatch; LCall 1 OpWatch; LTau; LTau; LRet 1 OpWatch RvErr; LRet 0 OpWatch RvUnit].
Proof. vm_compute. reflexivity. Qed.
(* still tight: a lone failing Watch, two overlapping Watch calls that both fail, or both succeed *)
Example ex_watch_lone_fail : history_ok [LCall 0 OpWatch; LRet 0 OpWatch RvErr] = false.
Proof. vm_compute. reflexivity. Qed.
Example ex_watch_both_fail : history_ok [LCall 0 OpWatch; LCall 1 OpWatch; LRet 1 OpWatch RvErr; LRet 0 OpWatch RvErr] = false.
Proof. vm_compute. reflexivity. Qed.
Example ex_watch_both_succeed : history_ok [LCall 0 OpWatch; LCall 1 OpWatch; LRet 1 OpWatch RvUnit; LRet 0 OpWatch RvUnit] = false.
Proof. vm_compute. reflexivity. Qed.

(* Watch switched on while a non-watch build is in flight: that build records
   no watch data; the edit is noticed only after the first watch-mode build,
   which cannot start before the build in flight has ended *)
Example ex_first_build_waits : wrun ws0 [XClientStart; XWatch; XFirstStart] = None.
Proof. vm_compute. reflexivity. Qed.
Example ex_watch_during_build :
  option_map snd (wrun ws0 [XClientStart; XWatch; XClientRead; XClientFinish; XFirstStart; XClientRead; XClientFinish;
                            XEdit; XWatcher; XWatcher]) =
  Some [WTau; WTau; WTau; WTau; WTau; WTau; WTau; WEdit; WTau; WBuild 2].
Proof. vm_compute. reflexivity. Qed.
