(* Non-vacuity / sanity: concrete values. *)
From V Require Import Common.Base C20.Protocol.

Definition ex_val : value :=
  VMap [([97], VInt 4294967295); ([97;98], VArr [VNull; VBool true; VStr [104;105]]); ([98], VBytes [0;255])].
Example ex_val_wf : wf ex_val = true. Proof. vm_compute. reflexivity. Qed.
Example ex_pkt_roundtrip :
  decodePacket (encodeBody (mkPacket 2147483647 false ex_val)) = DOk (mkPacket 2147483647 false ex_val).
Proof. vm_compute. reflexivity. Qed.
(* keys are sorted on encode *)
Example ex_sorted :
  enc (VMap [([98], VNull); ([97], VBool false)]) = [6; 2;0;0;0; 1;0;0;0; 97; 1;0; 1;0;0;0; 98; 0].
Proof. vm_compute. reflexivity. Qed.
(* negative ints wrap (Go's uint32(v)): detail = -1 is sent as 0xFFFFFFFF *)
Example ex_neg : enc (VInt (-1)) = [2; 255; 255; 255; 255]. Proof. vm_compute. reflexivity. Qed.
