From V Require Import Common.Base C20.CtxLTS C20.CtxSpec C20.CtxProofs.
From V Require Import C20.CtxMonA C20.CtxMonB C20.CtxWatchRet.
Local Close Scope Z_scope.
Local Open Scope nat_scope.

Lemma mem_false_of : forall s m p b, MInv s m -> (forall b, mem b (p_ret p) = true -> mem b (m_ret m) = true) ->
  b_done (blds s b) = false -> mem b (p_ret p) = false.
Proof.
  intros s m p b M Q Hd. destruct (mem b (p_ret p)) eqn:E; auto.
  apply Q in E. destruct (r_ret _ _ M b E). congruence.
Qed.

Lemma next_le_active : forall s b, active s = Some b -> next_of s <= S b.
Proof. intros s b Ha. unfold next_of. rewrite Ha. destruct (owner_pc s b); lia. Qed.

(* run_of says the running build is the active one *)
Lemma run_active : forall s m b, MInv s m -> m_run m = Some b -> active s = Some b.
Proof.
  intros s m b M Hr. pose proof (r_run _ _ M) as R. rewrite Hr in R. unfold run_of in R.
  destruct (active s) as [b0|]; [|discriminate].
  destruct (owner_pc s b0); try discriminate; try (inversion R; subst; reflexivity).
  destruct ver; inversion R; subst; reflexivity.
Qed.

(* ---- the calling thread takes a reference to the active build ---- *)
Lemma pinv_acquire : forall s s' m t p b,
  SInv s -> MInv s m -> PInv s m t p ->
  active s = Some b -> active s' = Some b ->
  (disposed s = true -> disposed s' = true) ->
  ref_of (t_pc (thr s' t)) = Some b ->
  t_pc (thr s' t) <> PRbStart ->
  (forall ob, disp_target (t_pc (thr s' t)) = Some ob -> ob = Some b /\ disposed s' = true) ->
  (p_op p = OpRebuild -> t_pc (thr s t) = PRbStart) ->
  PInv s' m t p.
Proof.
  intros s s' m t p b I M Q Ha Ha' Hd Hr Hn Hdt Hrb.
  destruct Q as [Q1 Q2 Q3 Q4 Q5 Q6 Q7 Q8 Q9 Q10].
  constructor; auto.
  - intros H. destruct (Q4 H) as [_ [A _]]. congruence.
  - intros b0 Hb0. rewrite Hr in Hb0. inversion Hb0; subst b0.
    eapply mem_false_of; eauto. apply (i_act_undone _ I b Ha).
  - intros _ _ Hx. congruence.
  - intros Ho Hq b0 Hb0. rewrite Hr in Hb0. inversion Hb0; subst b0. apply (Q6 Ho Hq (Hrb Ho) b Ha).
  - intros _ b0 Hb0. rewrite Hr in Hb0. inversion Hb0; subst b0.
    pose proof (next_le_active s b Ha). rewrite <- (r_next _ _ M) in H. lia.
  - intros ob Ho. destruct (Hdt ob Ho) as [E D]. split; auto. intros b' Hb'. congruence.
Qed.

(* ---- returns ---- *)
Lemma sound_ret_plain : forall s m t o v p,
  SInv s -> MInv s m -> t < nt s -> t_kind (thr s t) = KClient o -> phase_of (t_pc (thr s t)) = None ->
  find_pend (t_cid (thr s t)) (m_pend m) = Some p -> p_op p = o ->
  mon_step m (LRet (t_cid (thr s t)) o v) = Some (upd_pend m (remove_pend (t_cid (thr s t)) (m_pend m))) ->
  exists m', mon_step m (LRet (t_cid (thr s t)) o v) = Some m' /\ MInv (set_pc s t (PRet v)) m'.
Proof.
  intros s m t o v p I M Ht K P0 F O E. eexists. split; [exact E|].
  eapply minv_ret; eauto; simpl; auto.
Qed.

(* what mon_step does on a return once the pending entry is known *)
Lemma mon_ret_unfold : forall m c o v p,
  find_pend c (m_pend m) = Some p -> p_op p = o ->
  mon_step m (LRet c o v) =
  (let pend := remove_pend c (m_pend m) in
   match o, v with
   | OpRebuild, RvEmpty => if m_dispCalled m then Some (upd_pend m pend) else None
   | OpRebuild, RvBuild b cc ver =>
       if (match lookup b (m_end m) with Some c' => Bool.eqb c' cc | None => false end)
          && optnat_eqb (lookup b (m_load m)) ver && negb (mem b (p_ret p)) && negb (p_dispRet p)
          && (negb (p_quiet p) || ((p_next p <=? b) && match ver with Some x => p_edits p <=? x | None => true end))
       then Some (mkMon (m_ncalls m) (m_next m) (m_run m) (m_loaded m) (m_load m) (m_end m) (b :: m_ret m) pend
                        (m_dispCalled m) (m_dispRet m) (m_watchCalled m) (m_watchOk m) (m_cancelCalled m) (m_edits m))
       else None
   | OpCancel, RvUnit =>
       if (match m_run m with Some b => p_next p <=? b | None => true end) then Some (upd_pend m pend) else None
   | OpDispose, RvUnit =>
       match m_run m with
       | Some _ => None
       | None => Some (mkMon (m_ncalls m) (m_next m) (m_run m) (m_loaded m) (m_load m) (m_end m) (m_ret m) pend
                             (m_dispCalled m) true (m_watchCalled m) (m_watchOk m) (m_cancelCalled m) (m_edits m))
       end
   | OpWatch, RvUnit =>
       if negb (p_dispRet p) && negb (m_watchOk m)
       then Some (mkMon (m_ncalls m) (m_next m) (m_run m) (m_loaded m) (m_load m) (m_end m) (m_ret m) pend
                        (m_dispCalled m) (m_dispRet m) (m_watchCalled m) true (m_cancelCalled m) (m_edits m))
       else None
   | OpWatch, RvErr => if m_dispCalled m || m_watchOk m || watch_pending pend then Some (upd_pend m pend) else None
   | _, _ => None
   end).
Proof.
  intros m c o v p F O. unfold mon_step. rewrite F, O, op_eqb_refl. simpl. reflexivity.
Qed.

Lemma optnat_eqb_refl : forall a, optnat_eqb a a = true.
Proof. destruct a; simpl; auto. apply Nat.eqb_refl. Qed.

Lemma pend_of : forall s m t o, MInv s m -> t < nt s -> t_kind (thr s t) = KClient o ->
  is_ret (t_pc (thr s t)) = false ->
  exists p, find_pend (t_cid (thr s t)) (m_pend m) = Some p /\ p_op p = o /\ PInv s m t p.
Proof. intros. eapply r_pend; eauto. Qed.

(* Rebuild on a disposed context *)
Lemma case_ret_empty : forall s m t,
  SInv s -> MInv s m -> t < nt s -> t_pc (thr s t) = PRbStart -> t_kind (thr s t) = KClient OpRebuild ->
  disposed s = true ->
  exists m', mon_step m (LRet (t_cid (thr s t)) OpRebuild RvEmpty) = Some m' /\ MInv (set_pc s t (PRet RvEmpty)) m'.
Proof.
  intros s m t I M Ht Hpc K Hd.
  destruct (pend_of s m t OpRebuild M Ht K) as [p [F [O Q]]]; [rewrite Hpc; reflexivity|].
  eapply sound_ret_plain; eauto. rewrite Hpc; reflexivity.
  rewrite (mon_ret_unfold m _ _ _ p F O). simpl. rewrite (r_disposed _ _ M Hd). reflexivity.
Qed.

(* a joiner returns the finished build *)
Lemma case_ret_join : forall s m t b,
  SInv s -> MInv s m -> t < nt s -> t_pc (thr s t) = PRbJoin b -> t_kind (thr s t) = KClient OpRebuild ->
  b_done (blds s b) = true ->
  exists m', mon_step m (LRet (t_cid (thr s t)) OpRebuild (result_of s b)) = Some m' /\
             MInv (set_pc s t (PRet (result_of s b))) m'.
Proof.
  intros s m t b I M Ht Hpc K Hd.
  destruct (pend_of s m t OpRebuild M Ht K) as [p [F [O Q]]]; [rewrite Hpc; reflexivity|].
  assert (Hb : b < nb s). { apply (i_refs _ I t b Ht). rewrite Hpc. reflexivity. }
  assert (Hres : b_result (blds s b) <> None) by (apply (r_hasres _ _ M b Hb); auto).
  unfold result_of. destruct (b_result (blds s b)) as [[c ov]|] eqn:R; [|congruence].
  destruct (r_result _ _ M b c ov Hb R) as [L1 L2].
  destruct Q as [Q1 Q2 Q3 Q4 Q5 Q6 Q7 Q8 Q9 Q10].
  assert (Rf : ref_of (t_pc (thr s t)) = Some b) by (rewrite Hpc; reflexivity).
  eexists. split.
  - rewrite (mon_ret_unfold m _ _ _ p F O). simpl.
    rewrite L1, L2, Bool.eqb_reflx, optnat_eqb_refl, (Q5 b Rf). simpl.
    destruct (p_dispRet p) eqn:D.
    { destruct (Q4 eq_refl) as [_ [_ E]]. rewrite Hpc, O in E. discriminate. }
    simpl. destruct (p_quiet p) eqn:Qq; simpl; [|reflexivity].
    assert (N1 : p_next p <= b) by (apply (Q7 O eq_refl b Rf)).
    apply Nat.leb_le in N1. rewrite N1. simpl.
    destruct ov as [x|]; [|reflexivity].
    assert (N2 : p_edits p <= x). { apply (Q8 b x); auto; apply Nat.leb_le; auto. }
    apply Nat.leb_le in N2. rewrite N2. reflexivity.
  - eapply minv_ret; eauto; simpl; auto.
    + rewrite Hpc; reflexivity.
    + intros b0 H. rewrite H. apply orb_true_r.
    + intros b0 H. apply orb_true_iff in H as [H|H]; auto. apply Nat.eqb_eq in H. subst b0. auto.
Qed.

(* Cancel returns *)
Lemma case_ret_cancel : forall s m t,
  SInv s -> MInv s m -> t < nt s -> t_kind (thr s t) = KClient OpCancel ->
  phase_of (t_pc (thr s t)) = None -> is_ret (t_pc (thr s t)) = false ->
  (active s = None \/ exists b, t_pc (thr s t) = PCaWait b /\ b_done (blds s b) = true) ->
  exists m', mon_step m (LRet (t_cid (thr s t)) OpCancel RvUnit) = Some m' /\ MInv (set_pc s t (PRet RvUnit)) m'.
Proof.
  intros s m t I M Ht K P0 R Hc.
  destruct (pend_of s m t OpCancel M Ht K R) as [p [F [O Q]]].
  eapply sound_ret_plain; eauto.
  rewrite (mon_ret_unfold m _ _ _ p F O). simpl.
  destruct (m_run m) as [b'|] eqn:Hr; [|reflexivity].
  pose proof (run_active s m b' M Hr) as Ha.
  destruct Hc as [Hn|[b [Hpc Hd]]]; [congruence|].
  assert (Rf : ref_of (t_pc (thr s t)) = Some b) by (rewrite Hpc; reflexivity).
  pose proof (i_refs _ I t b Ht Rf) as Hb.
  pose proof (i_act_nb _ I b' Ha) as Hnb.
  pose proof (i_act_undone _ I b' Ha) as Hu.
  assert (b <> b') by congruence.
  pose proof (q_cancel _ _ _ _ Q O b Rf) as Hq.
  assert (L : p_next p <= b') by lia. apply Nat.leb_le in L. rewrite L. reflexivity.
Qed.

(* Dispose returns: no build is running, and none will *)
Lemma case_ret_dispose : forall s m t,
  SInv s -> MInv s m -> t < nt s -> t_kind (thr s t) = KClient OpDispose ->
  phase_of (t_pc (thr s t)) = None -> is_ret (t_pc (thr s t)) = false ->
  disposed s = true -> active s = None ->
  exists m', mon_step m (LRet (t_cid (thr s t)) OpDispose RvUnit) = Some m' /\ MInv (set_pc s t (PRet RvUnit)) m'.
Proof.
  intros s m t I M Ht K P0 R Hd Ha.
  destruct (pend_of s m t OpDispose M Ht K R) as [p [F [O Q]]].
  assert (Hr : m_run m = None).
  { destruct (m_run m) as [b|] eqn:E; auto. pose proof (run_active s m b M E). congruence. }
  eexists. split.
  - rewrite (mon_ret_unfold m _ _ _ p F O). simpl. rewrite Hr. reflexivity.
  - eapply minv_ret; eauto; simpl; auto.
Qed.

(* Watch fails on a disposed context (the whole call is one step) *)
Lemma case_ret_watch_err : forall s m t,
  SInv s -> MInv s m -> t < nt s -> t_kind (thr s t) = KClient OpWatch -> t_pc (thr s t) = PWaStart ->
  disposed s = true ->
  exists m', mon_step m (LRet (t_cid (thr s t)) OpWatch RvErr) = Some m' /\ MInv (set_pc s t (PRet RvErr)) m'.
Proof.
  intros s m t I M Ht K Hpc Hd.
  destruct (pend_of s m t OpWatch M Ht K) as [p [F [O Q]]]; [rewrite Hpc; reflexivity|].
  eapply sound_ret_plain; eauto. rewrite Hpc; reflexivity.
  rewrite (mon_ret_unfold m _ _ _ p F O). simpl.
  rewrite (r_disposed _ _ M Hd). reflexivity.
Qed.

Lemma watch_pending_other : forall c c' l p, find_pend c' l = Some p -> p_op p = OpWatch -> c' <> c ->
  watch_pending (remove_pend c l) = true.
Proof.
  intros c c' l p F O N. unfold watch_pending.
  assert (F' : find_pend c' (remove_pend c l) = Some p) by (rewrite find_remove_other; auto).
  clear F. induction (remove_pend c l) as [|q r IH]; simpl in *; [discriminate|].
  destruct (Nat.eqb_spec (p_cid q) c').
  - inversion F'; subst. rewrite O. reflexivity.
  - rewrite (IH F'). apply orb_true_r.
Qed.

(* Watch found the flag already set and returns its error later: by then the
   call that set the flag has succeeded or is still pending *)
Lemma case_ret_watch_err2 : forall s m t,
  SInv s -> MInv s m -> WCl s m -> t < nt s -> t_kind (thr s t) = KClient OpWatch -> t_pc (thr s t) = PWaRet RvErr ->
  exists m', mon_step m (LRet (t_cid (thr s t)) OpWatch RvErr) = Some m' /\ MInv (set_pc s t (PRet RvErr)) m'.
Proof.
  intros s m t I M W Ht K Hpc.
  destruct (pend_of s m t OpWatch M Ht K) as [p [F [O Q]]]; [rewrite Hpc; reflexivity|].
  eapply sound_ret_plain; eauto. rewrite Hpc; reflexivity.
  rewrite (mon_ret_unfold m _ _ _ p F O). simpl.
  pose proof (c_err _ _ W t Ht Hpc) as Hw.
  destruct (c_set _ _ W Hw) as [Ok|[t' [Ht' Hp']]].
  - rewrite Ok, orb_true_r. reflexivity.
  - assert (K' : t_kind (thr s t') = KClient OpWatch).
    { pose proof (i_kind _ I t' Ht') as Kk. rewrite Hp' in Kk.
      destruct (t_kind (thr s t')) as [[]| |]; simpl in Kk; try discriminate; auto. }
    destruct (pend_of s m t' OpWatch M Ht' K') as [p' [F' [O' _]]]; [rewrite Hp'; reflexivity|].
    assert (N : t_cid (thr s t') <> t_cid (thr s t)).
    { intros C. assert (t' = t) by (apply (r_ciduniq _ _ M t' t Ht' Ht); auto; [rewrite K'|rewrite K]; reflexivity).
      subst t'. rewrite Hpc in Hp'. discriminate. }
    rewrite (watch_pending_other _ _ _ _ F' O' N). rewrite !orb_true_r. reflexivity.
Qed.

(* Watch returns its success *)
Lemma case_ret_watch_ok : forall s m t,
  SInv s -> MInv s m -> WCl s m -> t < nt s -> t_kind (thr s t) = KClient OpWatch -> t_pc (thr s t) = PWaRet RvUnit ->
  exists m', mon_step m (LRet (t_cid (thr s t)) OpWatch RvUnit) = Some m' /\ MInv (set_pc s t (PRet RvUnit)) m'.
Proof.
  intros s m t I M W Ht K Hpc.
  destruct (pend_of s m t OpWatch M Ht K) as [p [F [O Q]]]; [rewrite Hpc; reflexivity|].
  destruct (c_unit _ _ W t Ht Hpc) as [Hw Ok].
  eexists. split.
  - rewrite (mon_ret_unfold m _ _ _ p F O). simpl.
    destruct (p_dispRet p) eqn:D.
    { destruct (q_disp _ _ _ _ Q D) as [_ [_ E]]. rewrite Hpc, O in E. discriminate. }
    rewrite Ok. simpl. reflexivity.
  - eapply minv_ret; eauto; simpl; auto. rewrite Hpc; reflexivity.
Qed.

Lemma owner_facts : forall s t b, SInv s -> t < nt s -> phase_of (t_pc (thr s t)) = Some b ->
  active s = Some b /\ b_owner (blds s b) = t /\ owner_pc s b = t_pc (thr s t).
Proof.
  intros s t b I Ht P. destruct (i_phase _ I t b Ht P) as [A O]. repeat split; auto.
  unfold owner_pc. rewrite O. reflexivity.
Qed.

(* on-start callbacks *)
Lemma case_onstart : forall s m t b,
  SInv s -> MInv s m -> t < nt s -> t_pc (thr s t) = PRbOnStart b ->
  exists m', mon_step m (LStart b) = Some m' /\ MInv (set_pc s t (PRbPoll b)) m'.
Proof.
  intros s m t b I M Ht Hpc.
  assert (P : phase_of (t_pc (thr s t)) = Some b) by (rewrite Hpc; reflexivity).
  destruct (owner_facts s t b I Ht P) as [Ha [Ho Hop]].
  assert (Hn : m_next m = b). { rewrite (r_next _ _ M). unfold next_of. rewrite Ha, Hop, Hpc. reflexivity. }
  assert (Hr : m_run m = None /\ m_loaded m = false).
  { pose proof (r_run _ _ M) as R. unfold run_of in R. rewrite Ha, Hop, Hpc in R. inversion R; auto. }
  destruct Hr as [Hr Hl].
  assert (Hd : m_dispRet m = false).
  { destruct (m_dispRet m) eqn:D; auto. destruct (r_dispret _ _ M D). congruence. }
  assert (H8 : rebuild_pending (m_pend m) || m_watchCalled m = true).
  { destruct (is_client (t_kind (thr s t))) eqn:C.
    - pose proof (rb_phase_kind _ _ _ (i_kind _ I t Ht) P C) as K.
      destruct (pend_of s m t OpRebuild M Ht K) as [p [F [O _]]]; [rewrite Hpc; reflexivity|].
      rewrite (find_pend_rebuild _ _ _ F O). reflexivity.
    - pose proof (r_internal _ _ M t Ht C) as W.
      rewrite (r_watchc _ _ M W). apply orb_true_r. }
  eexists. split.
  - simpl. rewrite Hn, Nat.eqb_refl, Hr, Hd, H8. simpl. reflexivity.
  - eapply minv_owner_move with (b := b); eauto; simpl; auto; try (rewrite Hpc; reflexivity); try lia.
    + intros b0. destruct (Nat.eqb_spec b0 b) as [E|N]; auto. subst b0. simpl.
      apply (r_loadof _ _ M t b None Ht). rewrite Hpc. reflexivity.
Qed.

(* the cancel poll before scanning *)
Lemma case_poll : forall s m t b p',
  SInv s -> MInv s m -> t < nt s -> t_pc (thr s t) = PRbPoll b ->
  (p' = PRbLoad b \/ p' = PRbEnd b None) ->
  exists m', mon_step m LTau = Some m' /\ MInv (set_pc s t p') m'.
Proof.
  intros s m t b p' I M Ht Hpc Hp'.
  assert (P : phase_of (t_pc (thr s t)) = Some b) by (rewrite Hpc; reflexivity).
  destruct (owner_facts s t b I Ht P) as [Ha [Ho Hop]].
  assert (Hn : m_next m = S b). { rewrite (r_next _ _ M). unfold next_of. rewrite Ha, Hop, Hpc. reflexivity. }
  assert (Hr : (m_run m, m_loaded m) = (Some b, false)).
  { rewrite (r_run _ _ M). unfold run_of. rewrite Ha, Hop, Hpc. reflexivity. }
  exists m. split; [reflexivity|].
  eapply minv_owner_move with (b := b); eauto; try (rewrite Hpc; reflexivity).
  - destruct Hp'; subst; reflexivity.
  - rewrite Hn. destruct Hp'; subst; reflexivity.
  - rewrite Hr. destruct Hp'; subst; reflexivity.
  - intros b0. destruct (Nat.eqb_spec b0 b) as [E|N]; auto. subst b0.
    rewrite (r_loadof _ _ M t b None Ht); [|rewrite Hpc; reflexivity].
    destruct Hp'; subst; reflexivity.
Qed.

(* reading the inputs *)
Lemma case_load : forall s m t b,
  SInv s -> MInv s m -> t < nt s -> t_pc (thr s t) = PRbLoad b ->
  exists m', mon_step m (LLoad b (edits s)) = Some m' /\ MInv (set_pc s t (PRbEnd b (Some (edits s)))) m'.
Proof.
  intros s m t b I M Ht Hpc.
  assert (P : phase_of (t_pc (thr s t)) = Some b) by (rewrite Hpc; reflexivity).
  destruct (owner_facts s t b I Ht P) as [Ha [Ho Hop]].
  assert (Hn : m_next m = S b). { rewrite (r_next _ _ M). unfold next_of. rewrite Ha, Hop, Hpc. reflexivity. }
  assert (Hr : m_run m = Some b /\ m_loaded m = false).
  { pose proof (r_run _ _ M) as R. unfold run_of in R. rewrite Ha, Hop, Hpc in R. inversion R; auto. }
  destruct Hr as [Hr Hl].
  eexists. split.
  - simpl. rewrite Hr, Hl, (r_edits _ _ M). simpl. rewrite !Nat.eqb_refl. simpl. reflexivity.
  - eapply minv_owner_move with (b := b); eauto; simpl; auto; try (rewrite Hpc; reflexivity); try lia.
    all: try (symmetry; apply (r_edits _ _ M)).
    all: try (intros b0; destruct (Nat.eqb_spec b0 b) as [E|N]; auto; fail).
    all: try (intros b0 x; destruct (Nat.eqb_spec b0 b) as [E|N]; auto; intros Hx; inversion Hx; subst x; right; rewrite (r_edits _ _ M); lia).
Qed.

(* final poll and on-end callbacks *)
Lemma case_end : forall s m t b ov,
  SInv s -> MInv s m -> t < nt s -> t_pc (thr s t) = PRbEnd b ov ->
  exists m', mon_step m (LEnd b (b_cancel (blds s b))) = Some m' /\
    MInv (set_pc (set_bld s b (mkBuild (b_owner (blds s b)) (b_cancel (blds s b))
                                       (Some (b_cancel (blds s b), ov)) (b_done (blds s b)))) t (PRbPublish b)) m'.
Proof.
  intros s m t b ov I M Ht Hpc.
  assert (P : phase_of (t_pc (thr s t)) = Some b) by (rewrite Hpc; reflexivity).
  destruct (owner_facts s t b I Ht P) as [Ha [Ho Hop]].
  assert (Hr : m_run m = Some b).
  { pose proof (r_run _ _ M) as R. unfold run_of in R. rewrite Ha, Hop, Hpc in R. destruct ov; inversion R; auto. }
  assert (Hc : negb (b_cancel (blds s b)) || m_cancelCalled m = true).
  { destruct (b_cancel (blds s b)) eqn:C; auto. simpl.
    apply (r_cancel _ _ M b); auto. pose proof (i_act_nb _ I b Ha). lia. }
  eexists. split.
  - simpl. rewrite Hr. simpl. rewrite Nat.eqb_refl, Hc. simpl. reflexivity.
  - eapply minv_end; eauto; simpl; auto.
Qed.

Lemma case_publish : forall s m t b rc,
  SInv s -> MInv s m -> t < nt s -> t_pc (thr s t) = PRbPublish b ->
  exists m', mon_step m LTau = Some m' /\
    MInv (set_pc (mkState (disposed s) None rc (watcher s) (wtid s) (stopFlag s) (wexited s)
                          (edits s) (nb s) (blds s) (nt s) (thr s) (ncalls s)) t (PRbDone b)) m'.
Proof.
  intros. exists m. split; [reflexivity|]. apply minv_publish; auto.
Qed.

Lemma case_alloc : forall s m t,
  SInv s -> MInv s m -> t < nt s -> t_pc (thr s t) = PRbStart -> active s = None -> disposed s = false ->
  exists m', mon_step m LTau = Some m' /\
    MInv (set_pc (mkState false (Some (nb s)) (recent s) (watcher s) (wtid s) (stopFlag s) (wexited s)
                        (edits s) (S (nb s)) (upd (blds s) (nb s) (mkBuild t false None false))
                        (nt s) (thr s) (ncalls s)) t (PRbOnStart (nb s))) m'.
Proof.
  intros. exists m. split; [reflexivity|]. apply minv_alloc; auto.
Qed.

Definition done_state (s : state) (b : nat) : state :=
  set_bld s b (mkBuild (b_owner (blds s b)) (b_cancel (blds s b)) (b_result (blds s b)) true).

(* the owner returns its build *)
Lemma case_done_client : forall s m t b,
  SInv s -> MInv s m -> t < nt s -> t_pc (thr s t) = PRbDone b -> t_kind (thr s t) = KClient OpRebuild ->
  exists m', mon_step m (LRet (t_cid (thr s t)) OpRebuild (result_of (done_state s b) b)) = Some m' /\
             MInv (set_pc (done_state s b) t (PRet (result_of (done_state s b) b))) m'.
Proof.
  intros s m t b I M Ht Hpc K.
  destruct (pend_of s m t OpRebuild M Ht K) as [p [F [O Q]]]; [rewrite Hpc; reflexivity|].
  assert (Hd : done_of (t_pc (thr s t)) = Some b) by (rewrite Hpc; reflexivity).
  destruct (i_donepc _ I t b Ht Hd) as [Hb [Ho [Hud Hna]]].
  assert (Hres : b_result (blds s b) <> None) by (apply (r_hasres _ _ M b Hb); auto).
  destruct (b_result (blds s b)) as [[c ov]|] eqn:R; [|congruence].
  destruct (r_result _ _ M b c ov Hb R) as [L1 L2].
  assert (Er : result_of (done_state s b) b = RvBuild b c ov).
  { unfold result_of, done_state, set_bld, upd. simpl. rewrite Nat.eqb_refl. simpl. rewrite R. reflexivity. }
  rewrite Er.
  destruct Q as [Q1 Q2 Q3 Q4 Q5 Q6 Q7 Q8 Q9 Q10].
  assert (Rf : ref_of (t_pc (thr s t)) = Some b) by (rewrite Hpc; reflexivity).
  eexists. split.
  - rewrite (mon_ret_unfold m _ _ _ p F O). simpl.
    rewrite L1, L2, Bool.eqb_reflx, optnat_eqb_refl, (Q5 b Rf). simpl.
    destruct (p_dispRet p) eqn:D.
    { destruct (Q4 eq_refl) as [_ [_ E]]. rewrite Hpc, O in E. discriminate. }
    simpl. destruct (p_quiet p) eqn:Qq; simpl; [|reflexivity].
    assert (N1 : p_next p <= b) by (apply (Q7 O eq_refl b Rf)).
    apply Nat.leb_le in N1. rewrite N1. simpl.
    destruct ov as [x|]; [|reflexivity].
    assert (N2 : p_edits p <= x). { apply (Q8 b x); auto; apply Nat.leb_le; auto. }
    apply Nat.leb_le in N2. rewrite N2. reflexivity.
  - unfold done_state. eapply minv_done; eauto; simpl; auto.
    + intros _ c0 Hc0. apply find_remove_other; auto.
    + rewrite K. simpl. discriminate.
    + intros b0 H. rewrite H. apply orb_true_r.
    + intros b0 H. apply orb_true_iff in H as [H|H]; auto. apply Nat.eqb_eq in H. auto.
Qed.

Lemma case_done_internal : forall s m t b p',
  SInv s -> MInv s m -> t < nt s -> t_pc (thr s t) = PRbDone b -> is_client (t_kind (thr s t)) = false ->
  phase_of p' = None ->
  exists m', mon_step m LTau = Some m' /\ MInv (set_pc (done_state s b) t p') m'.
Proof.
  intros s m t b p' I M Ht Hpc K P. exists m. split; [reflexivity|].
  unfold done_state. eapply minv_done; eauto.
  all: try (rewrite K; discriminate).
  all: try (intros b0 H; left; auto).
Qed.

Ltac kind_of I t Ht Hpc :=
  let K := fresh "Kk" in pose proof (i_kind _ I t Ht) as K; rewrite Hpc in K.


Theorem mon_step_sound : forall s m a s' l, SInv s -> MInv s m -> WCl s m -> exec s a = Some (s', l) ->
  exists m', mon_step m l = Some m' /\ MInv s' m'.
Proof.
  intros s m a s' l I M W H.
  step_cases H.
  1: { (* call *)
    exists (call_mon m o). split; [|apply minv_call; auto].
    simpl. rewrite (r_ncalls _ _ M), Nat.eqb_refl. simpl. unfold call_mon. rewrite (r_ncalls _ _ M). reflexivity. }
  1: { (* edit *) eexists. split; [reflexivity|]. apply minv_edit; auto. }
  1: { (* tick *)
    destruct (i_watcher _ I Hw) as [W1 W2].
    exists m. split; [reflexivity|].
    eapply (minv_tau s _ m (wtid s) I M W1); simpl; auto.
    all: upd_simpl; rewrite ?Nat.eqb_refl; simpl; rewrite ?Hpc; auto.
    all: try (intros; eqb_cases; simpl; auto; congruence).
    all: try (destruct d; reflexivity).
    all: try (intros o p K; rewrite W2 in K; discriminate). }
  all: try (unfold finish_rebuild, ret in *).
  all: repeat match goal with
              | H1 : (match ?k with _ => _ end) = (_, _) |- _ => destruct k eqn:?
              end.
  all: repeat match goal with
              | H1 : (_, _) = (_, _) |- _ => inversion H1; subst; clear H1
              end.
  all: repeat match goal with Hk : t_kind (thr (set_bld _ _ _) _) = _ |- _ => simpl in Hk end.
  (* kinds forced by the program counter *)
  all: try match goal with
           | Hp : t_pc (thr ?s0 ?t0) = ?p, Hl : ?t0 < nt ?s0 |- _ =>
               lazymatch p with
               | PCaStart => idtac | PCaSet _ => idtac | PCaWait _ => idtac
               | PDiStart => idtac | PDiStop _ => idtac | PDiStopWait _ => idtac | PDiWait _ => idtac
               | PWaStart => idtac | PWaRet _ => idtac
               end;
               let Kk := fresh "Kk" in
               pose proof (i_kind _ I t0 Hl) as Kk; rewrite Hp in Kk;
               destruct (t_kind (thr s0 t0)) as [[]| |] eqn:Kt; simpl in Kk; try discriminate; clear Kk
           end.
  (* silent steps outside the build phases *)
  all: try (match goal with |- exists m', mon_step _ LTau = _ /\ _ => idtac end;
            match goal with Hp : t_pc (thr _ ?t0) = ?p |- _ =>
              lazymatch p with
              | PRbOnStart _ => fail | PRbPoll _ => fail | PRbLoad _ => fail | PRbEnd _ _ => fail
              | PRbPublish _ => fail | PRbDone _ => fail | _ => idtac end end;
            match goal with Hp0 : t_pc _ = PRbStart, Ha0 : active _ = None |- _ => fail 1 | _ => idtac end;
            match goal with Hp0 : t_pc _ = PWaStart, Hw0 : watcher _ = false |- _ => fail 1 | _ => idtac end;
            match goal with Hl : ?t0 < nt ?s0, M0 : MInv ?s0 ?m0 |- _ => exists m0; split; [reflexivity|]; eapply (minv_tau s0 _ m0 t0 I M0 Hl) end; simpl; auto;
            try (upd_simpl; rewrite ?Nat.eqb_refl; simpl; rewrite ?Hpc; auto; fail);
            try (upd_simpl; intros; eqb_cases; simpl; auto; congruence)).
  (* a client thread inside rebuild() is a Rebuild call *)
  all: try match goal with
           | Hk : t_kind (thr ?s0 ?t0) = KClient ?o, Hl : ?t0 < nt ?s0, Hp : t_pc (thr ?s0 ?t0) = _ |- _ =>
               is_var o;
               let Kk := fresh in pose proof (i_kind _ I t0 Hl) as Kk; rewrite Hp, Hk in Kk;
               destruct o; simpl in Kk; try discriminate; clear Kk
           end.
  (* returns and owner steps: the case lemmas *)
  all: try solve [eapply case_ret_empty; eauto;
                  match goal with Hk : t_kind _ = KClient ?o, Hl : ?t0 < nt ?s0, Hp : t_pc (thr ?s0 ?t0) = _ |- _ =>
                    let Kk := fresh in pose proof (i_kind _ I t0 Hl) as Kk; rewrite Hp, Hk in Kk; destruct o; simpl in Kk; try discriminate; auto end].
  all: try solve [match goal with Hk : t_kind _ = KClient ?o, Hl : ?t0 < nt ?s0, Hp : t_pc (thr ?s0 ?t0) = _ |- _ =>
                    let Kk := fresh in pose proof (i_kind _ I t0 Hl) as Kk; rewrite Hp, Hk in Kk; destruct o; simpl in Kk; try discriminate end;
                  first [ eapply case_ret_join; eauto | eapply case_done_client; eauto ]].
  all: try solve [eapply case_onstart; eauto].
  all: try solve [eapply case_poll; eauto].
  all: try solve [eapply case_load; eauto].
  all: try solve [eapply case_end; eauto].
  all: try solve [eapply case_publish; eauto].
  all: try solve [eapply case_alloc; eauto].
  all: try solve [eapply (case_done_internal _ _ _ _ _ I M); eauto;
                  match goal with Hk : t_kind _ = _ |- _ => rewrite Hk; reflexivity end].
  all: try solve [eapply case_ret_cancel; eauto; try (rewrite Hpc; reflexivity); eauto].
  all: try solve [eapply case_ret_watch_err; eauto].
  all: try solve [match goal with Hp0 : t_pc (thr ?s0 ?t0) = PWaRet ?v, Hl : ?t0 < nt ?s0 |- _ =>
                    destruct (c_val _ _ W t0 v Hl Hp0); subst v end;
                  [eapply case_ret_watch_ok; eauto | eapply case_ret_watch_err2; eauto]].
  all: try solve [exists m; split; [reflexivity|]; apply minv_watch; auto].
  all: try solve [eapply case_ret_dispose; eauto; try (rewrite Hpc; reflexivity);
                  match goal with
                  | Hp : t_pc (thr ?s0 ?t0) = _, Hl : ?t0 < nt ?s0 |- _ =>
                      destruct (pend_of s0 m t0 OpDispose M Hl Kt) as [p0 [F0 [O0 Q0]]]; [rewrite Hp; reflexivity|];
                      let D := fresh in
                      assert (D : disp_target (t_pc (thr s0 t0)) = Some _) by (rewrite Hp; reflexivity);
                      destruct (q_dispose _ _ _ _ Q0 _ D) as [D1 D2]; auto;
                      destruct (active s0) as [b'|] eqn:Ha'; auto;
                      pose proof (D2 b' eq_refl) as D3; try discriminate;
                      inversion D3; subst; pose proof (i_act_undone _ I _ Ha'); congruence
                  end].
  (* internal goroutines are not clients *)
  all: try solve [intros o0 p0 K0; exfalso;
                  match goal with Hl : ?t0 < nt ?s0, Hp : t_pc (thr ?s0 ?t0) = _ |- _ =>
                    let Kk := fresh in pose proof (i_kind _ I t0 Hl) as Kk; rewrite Hp, K0 in Kk; destruct o0; discriminate end].
  (* the caller takes a reference to the active build *)
  all: try solve [intros o0 p0 K0 _ F0 O0 Q0;
                  match goal with Ha : active _ = Some ?n |- _ =>
                    eapply pinv_acquire with (b := n); eauto; simpl; upd_simpl; rewrite ?Nat.eqb_refl; simpl; auto;
                    try discriminate;
                    try (intros ob Hob; inversion Hob; split; auto; fail);
                    try (intros ob Hob; discriminate);
                    try (intros Ho; rewrite O0 in Ho; congruence)
                  end].
  (* same reference as before *)
  all: try solve [intros o0 p0 K0 _ F0 O0 Q0;
                  eapply pinv_frame; eauto; simpl; upd_simpl; rewrite ?Nat.eqb_refl; simpl; rewrite ?Hpc; auto; try lia;
                  try discriminate;
                  try (intros; destruct (p_op p0); discriminate);
                  try (intros b0 Hb0; left; exact Hb0)].
  - (* PCaSet: only the cancel flag changes, and a Cancel call exists *)
    intros b0. unfold upd. destruct (Nat.eqb_spec b0 b) as [E|N]; simpl; [subst b0|]; repeat split; auto.
    intros _. right. apply (r_cancelk _ _ M t Hlt Kt).
  - intros _. right. apply (r_disposek _ _ M t Hlt Kt).
  - (* Dispose marks the context disposed and remembers the active build *)
    intros o0 p0 K0 _ F0 O0 Q0.
    destruct (active s) as [n|] eqn:Ha.
    + eapply pinv_acquire with (b := n); eauto; simpl; upd_simpl; rewrite ?Nat.eqb_refl; simpl; auto; try discriminate.
      all: try (intros ob Hob; inversion Hob; split; auto; fail).
      all: try (intros Ho; exfalso; congruence).
    + destruct Q0 as [Q1 Q2 Q3 Q4 Q5 Q6 Q7 Q8 Q9 Q10].
      constructor; auto; simpl; upd_simpl; rewrite ?Nat.eqb_refl; simpl; try (intros; discriminate).
      all: try (intros H; destruct (Q4 H) as [D _]; congruence).
      all: try (intros ob Hob; inversion Hob; split; auto; intros b' Hb'; discriminate).
      all: try (intros Ho; exfalso; congruence).
  - (* Watch finds the flag already set: it will return the error later *)
    intros o0 p0 K0 _ F0 O0 Q0.
    destruct Q0 as [Q1 Q2 Q3 Q4 Q5 Q6 Q7 Q8 Q9 Q10].
    constructor; auto; simpl; upd_simpl; rewrite ?Nat.eqb_refl; simpl; try (intros; discriminate).
    all: try (intros H; destruct (Q4 H) as [D _]; congruence).
    all: try (intros Ho; exfalso; congruence).
Qed.

(* ---- every run of the LTS is accepted by the monitor ---- *)
Lemma mon_run_app : forall h m l, mon_run m (h ++ [l]) =
  match mon_run m h with Some m' => mon_step m' l | None => None end.
Proof.
  induction h as [|x h IH]; intros m l; simpl.
  - destruct (mon_step m l); reflexivity.
  - destruct (mon_step m x); auto.
Qed.

Lemma run_monitored : forall tr s, run init tr s ->
  SInv s /\ exists m, mon_run mon0 tr = Some m /\ MInv s m /\ WCl s m.
Proof.
  intros tr s R.
  remember init as s0 eqn:E. induction R as [s0 | s0 tr s1 a s2 l R IH Ex]; subst.
  - split; [apply sinv_init|]. exists mon0. split; [reflexivity|]. split; [apply minv_init|apply wcl0].
  - destruct (IH eq_refl) as [I [m [Hm [M W]]]].
    split; [eapply sinv_step; eauto|].
    destruct (mon_step_sound _ _ _ _ _ I M W Ex) as [m' [St M']].
    exists m'. split; [rewrite mon_run_app, Hm; exact St|]. split; auto.
    eapply wcl_step; eauto. apply (r_watch _ _ M).
Qed.

Theorem history_sound : forall tr s, run init tr s -> history_ok tr = true.
Proof.
  intros tr s R. destruct (run_monitored tr s R) as [_ [m [Hm _]]].
  unfold history_ok. rewrite Hm. reflexivity.
Qed.

(* when a Dispose call returns, the context is disposed and no build is
   active (hence none is running), in the state reached *)
Lemma dispose_return_state : forall tr s a s' c v,
  run init tr s -> exec s a = Some (s', LRet c OpDispose v) ->
  disposed s' = true /\ active s' = None /\
  (forall t b, t < nt s' -> phase_of (t_pc (thr s' t)) = Some b -> False).
Proof.
  intros tr s a s' c v R Ex.
  destruct (run_monitored tr s R) as [I [m [Hm [M W]]]].
  destruct (mon_step_sound _ _ _ _ _ I M W Ex) as [m' [St M']].
  assert (D : m_dispRet m' = true).
  { simpl in St. destruct (find_pend c (m_pend m)); [|discriminate].
    destruct (negb (op_eqb (p_op p) OpDispose)); [discriminate|].
    destruct v; try discriminate. destruct (m_run m); [discriminate|]. inversion St; reflexivity. }
  destruct (r_dispret _ _ M' D) as [D1 D2]. split; auto. split; auto.
  intros t b Ht P. pose proof (sinv_step _ _ _ _ I Ex) as I'.
  destruct (i_phase _ I' t b Ht P). congruence.
Qed.

(* a disposed context never allocates a build *)
Lemma disposed_no_new_build : forall s a s' l,
  disposed s = true -> exec s a = Some (s', l) -> nb s' = nb s /\ disposed s' = true.
Proof.
  intros s a s' l D H.
  step_cases H; simpl; auto; try congruence.
  all: unfold finish_rebuild, ret in *.
  all: repeat match goal with
              | H1 : (match ?k with _ => _ end) = (_, _) |- _ => destruct k
              end.
  all: repeat match goal with
              | H1 : (_, _) = (_, _) |- _ => inversion H1; subst; clear H1
              end.
  all: simpl; auto.
Qed.
