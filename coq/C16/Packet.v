(* C16 model: cmd/esbuild/stdio_protocol.go readUint32,
   readLengthPrefixedSlice, decodePacket, with checked accesses and fuel.
   (The stdio service is the subject of C20; here only the byte-level decoder
   is modelled.  decodePacket is NOT total on hostile bytes: see
   decodePacket_total_refuted.) *)
From V Require Import Common.Base C16.Checked.

(* if len(bytes) >= 4 { return binary.LittleEndian.Uint32(bytes), bytes[4:], true }; return 0, bytes, false *)
Definition readUint32 (bs : list Z) : res (Z * list Z * bool) :=
  if 4 <=? len bs then
    b0 <- idx bs 0 ;; b1 <- idx bs 1 ;; b2 <- idx bs 2 ;; b3 <- idx bs 3 ;;
    rest <- from bs 4 ;;
    Ok (b0 + 256 * b1 + 65536 * b2 + 16777216 * b3, rest, true)
  else Ok (0, bs, false).

(* if length, after, ok := readUint32(bytes); ok && uint(len(after)) >= uint(length) {
     return after[:length], after[length:], true }; return []byte{}, bytes, false *)
Definition readLengthPrefixedSlice (bs : list Z) : res (list Z * list Z * bool) :=
  '(length, after, ok) <- readUint32 bs ;;
  if ok && (length <=? len after) then
    s <- upto after length ;; l <- from after length ;; Ok (s, l, true)
  else Ok ([], bs, false).

Inductive pval :=
| PNull | PBool (b : bool) | PInt (v : Z) | PStr (s : list Z) | PBytes (s : list Z)
| PArr (l : list pval) | PDict (l : list (list Z * pval)).

(* the loops "for i := 0; i < int(count); i++" of the array and map cases; [vis] is the recursive visit.
   One unit of fuel per iteration. *)
Fixpoint items (vis : list Z -> res (option (pval * list Z))) (g : nat) (k : Z) (bs : list Z) (acc : list pval)
  : res (option (pval * list Z)) :=
  if k <=? 0 then Ok (Some (PArr (rev acc), bs)) else
  match g with
  | O => Hang
  | S g' =>
    r <- vis bs ;;
    match r with
    | None => Ok None
    | Some (v, bs') => items vis g' (k - 1) bs' (v :: acc)
    end
  end.

Fixpoint entries (vis : list Z -> res (option (pval * list Z))) (g : nat) (k : Z) (bs : list Z) (acc : list (list Z * pval))
  : res (option (pval * list Z)) :=
  if k <=? 0 then Ok (Some (PDict (rev acc), bs)) else
  match g with
  | O => Hang
  | S g' =>
    '(key, next, ok) <- readLengthPrefixedSlice bs ;;
    if negb ok then Ok None else
    r <- vis next ;;
    match r with
    | None => Ok None
    | Some (v, bs') => entries vis g' (k - 1) bs' ((key, v) :: acc)
    end
  end.

(* visit: None = (nil, false).  One unit of fuel per call. *)
Fixpoint visit (fuel : nat) (bs : list Z) : res (option (pval * list Z)) :=
  match fuel with
  | O => Hang
  | S f =>
    kind <- idx bs 0 ;;            (* kind := bytes[0]  -- unguarded in the Go text *)
    bs <- from bs 1 ;;
    if kind =? 0 then Ok (Some (PNull, bs))
    else if kind =? 1 then
      v <- idx bs 0 ;; bs <- from bs 1 ;; Ok (Some (PBool (negb (v =? 0)), bs))
    else if kind =? 2 then
      '(v, next, ok) <- readUint32 bs ;;
      if ok then Ok (Some (PInt v, next)) else Ok None
    else if kind =? 3 then
      '(s, next, ok) <- readLengthPrefixedSlice bs ;;
      if ok then Ok (Some (PStr s, next)) else Ok None
    else if kind =? 4 then
      '(s, next, ok) <- readLengthPrefixedSlice bs ;;
      if ok then Ok (Some (PBytes s, next)) else Ok None
    else if kind =? 5 then
      '(count, next, ok) <- readUint32 bs ;;
      if negb ok then Ok None else items (visit f) f count next []
    else if kind =? 6 then
      '(count, next, ok) <- readUint32 bs ;;
      if negb ok then Ok None else entries (visit f) f count next []
    else Crash                     (* panic("Invalid packet") *)
  end.

(* (id, isRequest, value); None = (packet{}, false) *)
Definition decodePacket (bs : list Z) : res (option (Z * bool * pval)) :=
  '(id, bs', ok) <- readUint32 bs ;;
  if negb ok then Ok None else
  r <- visit (S (S (length bs))) bs' ;;
  match r with
  | None => Ok None
  | Some (v, rest) =>
    if negb (len rest =? 0) then Ok None
    else Ok (Some (Z.shiftr id 1, Z.land id 1 =? 0, v))
  end.
