(* C16 proofs: parseHex, mangleNumber never crash and never hang. *)
From V Require Import Common.Base C16.Checked C16.Vlq16 C16.CssNum C16.Wtf8Proofs.

Lemma parseHex_loop_range runes : forall hex, 0 <= hex < 2 ^ 32 ->
  0 <= fst (parseHex_loop runes hex) < 2 ^ 32.
Proof.
  induction runes as [|c r IH]; intros hex Hh; cbn [parseHex_loop fst]; [exact Hh|].
  pose proof (wrap_u32_range (hex * 16)).
  repeat match goal with
         | |- context [if ?b then _ else _] => destruct b
         end; cbn [fst]; try lia;
    apply IH; apply lor_bound; try lia; apply wrap_u32_range.
Qed.

Lemma parseHex_total runes : exists v ok, parseHex runes = Ok (v, ok) /\ 0 <= v < 2 ^ 32.
Proof.
  unfold parseHex. destruct (parseHex_loop runes 0) as [v ok] eqn:E.
  exists v, ok. split; [reflexivity|].
  pose proof (parseHex_loop_range runes 0 ltac:(lia)) as H. rewrite E in H. exact H.
Qed.

Lemma index_byte_spec l c : forall i,
  index_byte l c i = -1 \/
  (i <= index_byte l c i < i + len l /\ nth_error l (Z.to_nat (index_byte l c i - i)) = Some c).
Proof.
  induction l as [|x r IH]; intros i; cbn [index_byte]; [left; reflexivity|].
  destruct (x =? c) eqn:E.
  - right. rewrite len_cons. pose proof (len_nonneg r). split; [lia|].
    replace (i - i) with 0 by lia. cbn. f_equal. lia.
  - destruct (IH (i + 1)) as [H|[H1 H2]]; [left; exact H|right].
    rewrite len_cons. split; [lia|].
    replace (Z.to_nat (index_byte r c (i + 1) - i)) with (S (Z.to_nat (index_byte r c (i + 1) - (i + 1)))) by lia.
    exact H2.
Qed.

Lemma nth_error_firstn_lt {A} (l : list A) : forall n k, (k < n)%nat -> nth_error (firstn n l) k = nth_error l k.
Proof.
  induction l as [|x r IH]; intros n k H.
  - rewrite firstn_nil. reflexivity.
  - destruct n as [|n]; [lia|]. destruct k as [|k]; [reflexivity|]. cbn. apply IH. lia.
Qed.

(* the '.' found by IndexByte survives the removal of trailing zeros *)
Lemma strip_trailing_keeps fuel : forall t dot,
  (length t < fuel)%nat -> 0 <= dot -> nth_error t (Z.to_nat dot) = Some 46 ->
  exists t', strip_trailing_zeros fuel t = Ok t' /\ dot < len t' <= len t.
Proof.
  induction fuel as [|f IH]; intros t dot Hf Hd Hn; [lia|].
  assert (Hlt : dot < len t).
  { assert (nth_error t (Z.to_nat dot) <> None) as NN by congruence.
    apply nth_error_Some in NN. unfold len. lia. }
  cbn [strip_trailing_zeros]. destruct (0 <? len t) eqn:E0; [|lia].
  destruct (idx_ok t (len t - 1) ltac:(lia)) as [c [-> Hc]]. cbn [bind].
  destruct (c =? 48) eqn:E1; [|exists t; split; [reflexivity|lia]].
  assert (dot <> len t - 1).
  { intros ->. rewrite Hn in Hc. inversion Hc. lia. }
  rewrite upto_ok by lia. cbn [bind].
  destruct (IH (firstn (Z.to_nat (len t - 1)) t) dot) as [t' [E Ht]].
  - rewrite firstn_length. unfold len in *. lia.
  - exact Hd.
  - rewrite nth_error_firstn_lt by lia. exact Hn.
  - exists t'. split; [exact E|]. rewrite len_firstn in Ht. lia.
Qed.

Lemma mangleNumber_total original : safe (mangleNumber original).
Proof.
  unfold mangleNumber, safe.
  destruct (index_byte_spec original 46 0) as [E|[H1 H2]].
  { rewrite E. change (-1 =? -1) with true. cbn [orb]. eexists; reflexivity. }
  set (dot := index_byte original 46 0) in *.
  destruct (dot =? -1) eqn:E0; [eexists; reflexivity|]. cbn [orb].
  destruct (existsb _ original); [eexists; reflexivity|].
  replace (dot - 0) with dot in H2 by lia.
  destruct (strip_trailing_keeps (S (length original)) original dot ltac:(lia) ltac:(lia) H2) as [t [-> Ht]].
  cbn [bind].
  destruct (dot + 1 =? len t) eqn:E1.
  { rewrite upto_ok by lia. cbn [bind]. eexists; reflexivity. }
  (* leading zero cases: every index is guarded by the length test before it *)
  destruct (3 <=? len t) eqn:E3.
  - destruct (idx_ok' t 0 ltac:(lia)) as [a Ea]. destruct (idx_ok' t 1 ltac:(lia)) as [b Eb].
    destruct (idx_ok' t 2 ltac:(lia)) as [c Ec]. rewrite Ea, Eb, Ec. cbn [bind].
    destruct (4 <=? len t) eqn:E4.
    + destruct (idx_ok' t 3 ltac:(lia)) as [d Ed]. rewrite Ed.
      destruct (negb (a =? 48)); cbn [bind];
        [|destruct (negb (b =? 46)); cbn [bind]; [|destruct (is_digit c)]];
        rewrite ?from_ok by lia; cbn [bind]; try (eexists; reflexivity);
        (destruct (negb ((a =? 43) || (a =? 45))); cbn [bind];
         [|destruct (negb (b =? 48)); cbn [bind];
           [|destruct (negb (c =? 46)); cbn [bind]; [|destruct (is_digit d)]]]);
        rewrite ?slice_ok by lia; cbn [bind]; rewrite ?from_ok by lia; cbn [bind];
        eexists; reflexivity.
    + destruct (negb (a =? 48)); cbn [bind];
        [|destruct (negb (b =? 46)); cbn [bind]; [|destruct (is_digit c)]];
        rewrite ?from_ok by lia; cbn [bind]; eexists; reflexivity.
  - cbn [bind]. destruct (4 <=? len t) eqn:E4; [lia|]. cbn [bind]. eexists; reflexivity.
Qed.

Lemma strip_leading_total fuel : forall text dot, (length text < fuel)%nat ->
  exists t d, strip_leading_zeros fuel text dot = Ok (t, d).
Proof.
  induction fuel as [|f IH]; intros text dot Hf; [lia|].
  cbn [strip_leading_zeros]. destruct ((0 <? len text) && (0 <? dot)) eqn:E; [|eexists; eexists; reflexivity].
  destruct (idx_ok' text 0 ltac:(lia)) as [c ->]. cbn [bind].
  destruct (c =? 48); [|eexists; eexists; reflexivity].
  rewrite from_ok by lia. cbn [bind]. apply IH. rewrite skipn_length. unfold len in *. lia.
Qed.

Lemma strip_after_total fuel : forall text dot, (length text < fuel)%nat ->
  exists t, strip_zeros_after fuel text dot = Ok t.
Proof.
  induction fuel as [|f IH]; intros text dot Hf; [lia|].
  cbn [strip_zeros_after]. destruct ((0 <? len text) && (dot <? len text)) eqn:E; [|eexists; reflexivity].
  destruct (idx_ok' text (len text - 1) ltac:(lia)) as [c ->]. cbn [bind].
  destruct (c =? 48); [|eexists; reflexivity].
  rewrite upto_ok by lia. cbn [bind]. apply IH. rewrite firstn_length. unfold len in *. lia.
Qed.

(* every byte string and EVERY dot offset (the callers use +3 and -3) *)
Lemma shiftDot_total text0 dotOffset : safe (shiftDot text0 dotOffset).
Proof.
  unfold shiftDot, safe.
  destruct (existsb _ text0); [eexists; reflexivity|].
  assert (Hs : exists sign text, (if 0 <? len text0 then
                      c <- idx text0 0 ;;
                      if (c =? 45) || (c =? 43) then s <- upto text0 1 ;; t <- from text0 1 ;; Ok (s, t)
                      else Ok ([], text0)
                    else Ok ([], text0)) = Ok (sign, text)).
  { destruct (0 <? len text0) eqn:E; [|eexists; eexists; reflexivity].
    destruct (idx_ok' text0 0 ltac:(lia)) as [c ->]. cbn [bind].
    destruct ((c =? 45) || (c =? 43)); [|eexists; eexists; reflexivity].
    rewrite upto_ok by lia. cbn [bind]. rewrite from_ok by lia. cbn [bind]. eexists; eexists; reflexivity. }
  destruct Hs as (sign & text & ->). cbn [bind].
  assert (Hd : exists text1 dot1, (if index_byte text 46 0 =? -1 then Ok (text, len text)
                   else a <- upto text (index_byte text 46 0) ;; b <- from text (index_byte text 46 0 + 1) ;;
                        Ok (a ++ b, index_byte text 46 0)) = Ok (text1, dot1)).
  { destruct (index_byte_spec text 46 0) as [E|[H1 _]].
    - rewrite E. change (-1 =? -1) with true. cbv iota. eexists; eexists; reflexivity.
    - destruct (index_byte text 46 0 =? -1); [eexists; eexists; reflexivity|].
      rewrite upto_ok by lia. cbn [bind]. rewrite from_ok by lia. cbn [bind]. eexists; eexists; reflexivity. }
  destruct Hd as (text1 & dot1 & ->). cbn [bind].
  destruct (strip_leading_total (S (length text1)) text1 (dot1 + dotOffset) ltac:(lia)) as (t2 & d2 & ->).
  cbn [bind].
  destruct (strip_after_total (S (length t2)) t2 d2 ltac:(lia)) as (t3 & ->). cbn [bind].
  destruct (len t3 <=? d2) eqn:E1.
  - unfold repeat_checked. destruct (d2 - len t3 <? 0) eqn:E2; [lia|]. cbn [bind]. eexists; reflexivity.
  - destruct (d2 <? 0) eqn:E2.
    + unfold repeat_checked. destruct (- d2 <? 0) eqn:E3; [lia|]. cbn [bind].
      pose proof (len_nonneg (repeat 48 (Z.to_nat (- d2)) ++ t3)).
      rewrite upto_ok by lia. cbn [bind]. rewrite from_ok by lia. cbn [bind]. eexists; reflexivity.
    + cbn [bind]. rewrite upto_ok by lia. cbn [bind]. rewrite from_ok by lia. cbn [bind]. eexists; reflexivity.
Qed.
