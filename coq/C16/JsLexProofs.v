(* C16 proofs: the js_lexer string/template scan (with the slice that takes the literal's
   text) and ScanRegExp never index out of range and always terminate; each loop iteration
   returns or strictly decreases 2*(len - current) + [codePoint <> eof]. *)
From V Require Import Common.Base C16.Checked C16.Wtf8 C16.Wtf8Proofs C16.CssIdent C16.CssIdentProofs
  C16.CssLex C16.CssLexProofs C16.JsLex.

Section JsLexProofs.
  Variable text : list Z.
  Hypothesis Hb : bytes_ok text.
  Let n := len text.
  Notation wf := (wf text).
  Notation mu := (mu text).

  Lemma utf8_decode_nonneg t : bytes_ok t -> 0 <= fst (utf8_decode t).
  Proof.
    intros Ht. destruct t as [|a r]; [cbn; unfold RuneError; lia|].
    unfold utf8_decode. destruct (decode_spec (a :: r) ltac:(discriminate) Ht) as (c & w & -> & _ & _ & Hc).
    destruct ((55296 <=? c) && (c <=? 57343)); cbn [fst]; unfold RuneError; lia.
  Qed.

  (* step, with the facts about the token end (rlen) and about eof *)
  Lemma step_spec2 l : wf l ->
    exists l', step text l = Ok l' /\ wf l' /\ rlen l' = cur l /\ mu l' <= mu l /\
               (cp l <> eof -> mu l' < mu l) /\ (cp l' <> eof -> rlen l' + 1 <= cur l') /\
               (cur l = n -> cp l' = eof) /\ (cp l' = eof -> cur l = n) /\ cur l <= cur l'.
  Proof.
    intros Hw. destruct (step_spec text Hb l Hw) as (l' & E & Hw' & Hc & Hr & Hm & Hs & Hp).
    exists l'. split; [exact E|]. split; [exact Hw'|]. split; [exact Hr|]. split; [exact Hm|]. split; [exact Hs|].
    unfold step in E. unfold CssLexProofs.wf in Hw. rewrite from_ok in E by lia. cbn [bind] in E.
    destruct (utf8_decode_any text (cur l) Hb ltac:(lia)) as (c & w & Ed & Hw1 & Hw2).
    pose proof (utf8_decode_nonneg (skipn (Z.to_nat (cur l)) text) (bytes_ok_skipn _ _ Hb)) as Hnn.
    rewrite Ed in E, Hnn. cbn [fst] in Hnn.
    inversion E; subst l'; clear E. cbn [cur cp rlen] in *. fold n in Hw1, Hw2.
    destruct (w =? 0) eqn:E0.
    - split; [congruence|]. split; [reflexivity|]. split; [intros _; lia|lia].
    - split; [lia|]. split; [intros Hn; lia|]. split; [unfold eof; intros Hc'; lia|lia].
  Qed.

  Ltac do_step l Hw l' E Hw' Hr Hm Hs Hq Hmono :=
    destruct (step_spec2 l Hw) as (l' & E & Hw' & Hr & Hm & Hs & Hq & _ & _ & Hmono); rewrite E; cbn [bind].

  (* the token-end invariant: the current code point starts at rlen >= 1 and is not empty *)
  Definition inv (l : lx) : Prop := 1 <= rlen l /\ rlen l <= cur l /\ (cp l <> eof -> rlen l + 1 <= cur l).

  Lemma inv_step l l' : inv l -> rlen l' = cur l -> cur l <= cur l' -> (cp l' <> eof -> rlen l' + 1 <= cur l') ->
    inv l' /\ rlen l <= rlen l'.
  Proof.
    unfold inv. intros (H1 & H2 & H3) Hr Hm Hq. split; [split; [lia|split; [lia|exact Hq]]|lia].
  Qed.

  Definition jstr_post (r : option (Z * lx)) : Prop :=
    match r with
    | None => True
    | Some (s, l) => wf l /\ rlen l <= n /\ ((s = 1 /\ 2 <= rlen l) \/ (s = 2 /\ 3 <= rlen l))
    end.

  Lemma jstr_loop_spec fuel : forall quote l, wf l -> inv l -> quote <> eof -> (Z.to_nat (mu l) < fuel)%nat ->
    exists r, jstr_loop text fuel quote l = Ok r /\ jstr_post r.
  Proof.
    induction fuel as [|f IH]; intros quote l Hw Hi Hq Hf; [lia|].
    pose proof (mu_nonneg text l Hw) as Hm0. cbn [jstr_loop].
    destruct (cp l =? 92) eqn:E92.
    { assert (Hne : cp l <> eof) by (unfold eof; lia).
      do_step l Hw l1 E1 Hw1 Hr1 Hm1 Hs1 Hq1 Hmnl1. specialize (Hs1 Hne).
      destruct (inv_step l l1 Hi Hr1 Hmnl1 Hq1) as [Hi1 _]. pose proof (mu_nonneg text l1 Hw1).
      destruct (cp l1 =? 13).
      - do_step l1 Hw1 l2 E2 Hw2 Hr2 Hm2 Hs2 Hq2 Hmnl2.
        destruct (inv_step l1 l2 Hi1 Hr2 Hmnl2 Hq2) as [Hi2 _]. pose proof (mu_nonneg text l2 Hw2).
        destruct (cp l2 =? 10).
        + do_step l2 Hw2 l3 E3 Hw3 Hr3 Hm3 Hs3 Hq3 Hmnl3.
          destruct (inv_step l2 l3 Hi2 Hr3 Hmnl3 Hq3) as [Hi3 _]. pose proof (mu_nonneg text l3 Hw3).
          apply IH; [exact Hw3|exact Hi3|exact Hq|lia].
        + cbn [bind]. apply IH; [exact Hw2|exact Hi2|exact Hq|lia].
      - do_step l1 Hw1 l2 E2 Hw2 Hr2 Hm2 Hs2 Hq2 Hmnl2.
        destruct (inv_step l1 l2 Hi1 Hr2 Hmnl2 Hq2) as [Hi2 _]. pose proof (mu_nonneg text l2 Hw2).
        apply IH; [exact Hw2|exact Hi2|exact Hq|lia]. }
    destruct (cp l =? eof) eqn:Eeof; [exists None; split; [reflexivity|exact I]|].
    assert (Hne : cp l <> eof) by lia.
    destruct ((cp l =? 13) || (cp l =? 10)).
    { destruct (negb (quote =? 96)); [exists None; split; [reflexivity|exact I]|].
      do_step l Hw l1 E1 Hw1 Hr1 Hm1 Hs1 Hq1 Hmnl1. specialize (Hs1 Hne).
      destruct (inv_step l l1 Hi Hr1 Hmnl1 Hq1) as [Hi1 _]. pose proof (mu_nonneg text l1 Hw1).
      apply IH; [exact Hw1|exact Hi1|exact Hq|lia]. }
    destruct ((cp l =? 36) && (quote =? 96)).
    { do_step l Hw l1 E1 Hw1 Hr1 Hm1 Hs1 Hq1 Hmnl1. specialize (Hs1 Hne).
      destruct (inv_step l l1 Hi Hr1 Hmnl1 Hq1) as [Hi1 Hle1]. pose proof (mu_nonneg text l1 Hw1).
      destruct (cp l1 =? 123) eqn:E123.
      - assert (Hne1 : cp l1 <> eof) by (unfold eof; lia).
        do_step l1 Hw1 l2 E2 Hw2 Hr2 Hm2 Hs2 Hq2 Hmnl2.
        exists (Some (2, l2)). split; [reflexivity|]. cbn [jstr_post].
        destruct Hi as (Ha & Ha2 & Hb2). specialize (Hb2 Hne). destruct Hi1 as (Hc & Hc2 & Hd). specialize (Hd Hne1).
        unfold CssLexProofs.wf, n in *. split; [exact Hw2|]. split; [lia|]. right. split; [reflexivity|lia].
      - apply IH; [exact Hw1|exact Hi1|exact Hq|lia]. }
    destruct (cp l =? quote).
    { do_step l Hw l1 E1 Hw1 Hr1 Hm1 Hs1 Hq1 Hmnl1.
      exists (Some (1, l1)). split; [reflexivity|]. cbn [jstr_post].
      destruct Hi as (Ha & Ha2 & Hb2). specialize (Hb2 Hne). unfold CssLexProofs.wf, n in *.
      split; [exact Hw1|]. split; [lia|]. left. split; [reflexivity|lia]. }
    do_step l Hw l1 E1 Hw1 Hr1 Hm1 Hs1 Hq1 Hmnl1. specialize (Hs1 Hne).
    destruct (inv_step l l1 Hi Hr1 Hmnl1 Hq1) as [Hi1 _]. pose proof (mu_nonneg text l1 Hw1).
    apply IH; [exact Hw1|exact Hi1|exact Hq|lia].
  Qed.

  Lemma jstr_loop_eof fuel quote l : cp l = eof -> jstr_loop text (S fuel) quote l = Ok None.
  Proof. intros E. cbn [jstr_loop]. rewrite E. reflexivity. Qed.

  Lemma run_jsstring_total : safe (run_jsstring text).
  Proof.
    unfold run_jsstring, safe, lex_start.
    assert (Hw00 : wf (mkLx 0 0 0)) by (unfold CssLexProofs.wf; cbn [cur]; pose proof (len_nonneg text); lia).
    destruct (step_spec2 _ Hw00) as (l0 & -> & Hw0 & Hr0 & _ & _ & Hq0 & _ & He0 & _). cbn [bind cur] in *.
    destruct (step_spec2 l0 Hw0) as (l1 & -> & Hw1 & Hr1 & Hm1 & Hs1 & Hq1 & Hn1 & _ & Hmn1). cbn [bind].
    destruct (Z.eq_dec (cp l0) eof) as [Ee|Ene].
    - (* empty text: the cursor stays at eof and the scan reports a syntax error *)
      specialize (He0 Ee). (* 0 = n *)
      assert (Hl0 : cur l0 = n) by (unfold CssLexProofs.wf in Hw0; fold n in Hw0; lia).
      specialize (Hn1 Hl0). unfold lex_fuel. rewrite jstr_loop_eof by exact Hn1. cbn [bind]. eexists; reflexivity.
    - specialize (Hq0 Ene).
      assert (Hi1 : inv l1) by (unfold inv; split; [lia|split; [lia|exact Hq1]]).
      destruct (jstr_loop_spec (lex_fuel text) (cp l0) l1 Hw1 Hi1 Ene (mu_bound text l1 Hw1)) as (r & -> & Hpost).
      cbn [bind]. destruct r as [[s l2]|]; [|eexists; reflexivity].
      cbn [jstr_post] in Hpost. destruct Hpost as (Hw2 & Hle & Hs).
      rewrite slice_ok by (fold n; destruct Hs as [[-> ?]|[-> ?]]; lia). cbn [bind]. eexists; reflexivity.
  Qed.

  Lemma run_jstemplate_tail_total : 1 <= n -> safe (run_jstemplate_tail text).
  Proof.
    intros Hn. unfold run_jstemplate_tail, safe.
    assert (Hw0 : wf (mkLx 1 96 0)) by (unfold CssLexProofs.wf; cbn [cur]; fold n; lia).
    destruct (step_spec2 _ Hw0) as (l1 & -> & Hw1 & Hr1 & _ & _ & Hq1 & _ & _ & Hmn1). cbn [bind cur] in *.
    assert (Hi1 : inv l1) by (unfold inv; split; [lia|split; [lia|exact Hq1]]).
    destruct (jstr_loop_spec (lex_fuel text) 96 l1 Hw1 Hi1 ltac:(unfold eof; lia) (mu_bound text l1 Hw1)) as (r & -> & Hpost).
    cbn [bind]. destruct r as [[s l2]|]; [|eexists; reflexivity].
    cbn [jstr_post] in Hpost. destruct Hpost as (Hw2 & Hle & Hs).
    rewrite slice_ok by (fold n; destruct Hs as [[-> ?]|[-> ?]]; lia). cbn [bind]. eexists; reflexivity.
  Qed.

  (* ---- ScanRegExp ---- *)
  Variable idc : Z -> bool.
  Hypothesis idc_eof : idc eof = false.

  Definition rok (l : lx) : Prop := wf l /\ 0 <= rlen l <= n.

  Lemma rok_step l : rok l -> exists l', step text l = Ok l' /\ rok l' /\ mu l' <= mu l /\ (cp l <> eof -> mu l' < mu l).
  Proof.
    intros [Hw Hr]. destruct (step_spec2 l Hw) as (l' & E & Hw' & Hr' & Hm & Hs & _).
    exists l'. split; [exact E|]. split; [|split; [exact Hm|exact Hs]].
    split; [exact Hw'|]. unfold CssLexProofs.wf in Hw. fold n in Hw. lia.
  Qed.

  Lemma validateAndStep_spec l : rok l ->
    exists r, validateAndStep text l = Ok r /\ match r with None => True | Some l' => rok l' /\ mu l' < mu l end.
  Proof.
    intros Hk. unfold validateAndStep.
    assert (H1 : exists l1, (if cp l =? 92 then step text l else Ok l) = Ok l1 /\ rok l1 /\ mu l1 <= mu l /\ (cp l1 <> eof -> l1 = l \/ mu l1 < mu l)).
    { destruct (cp l =? 92) eqn:E.
      - destruct (rok_step l Hk) as (l1 & E1 & Hk1 & Hm1 & Hs1). exists l1. split; [exact E1|]. split; [exact Hk1|]. split; [exact Hm1|].
        intros _. right. apply Hs1. unfold eof. lia.
      - exists l. split; [reflexivity|]. split; [exact Hk|]. split; [lia|]. intros _. left. reflexivity. }
    destruct H1 as (l1 & -> & Hk1 & Hm1 & Hc1). cbn [bind].
    destruct ((cp l1 =? eof) || (cp l1 =? 13) || (cp l1 =? 10) || (cp l1 =? 8232) || (cp l1 =? 8233)) eqn:Et.
    { exists None. split; [reflexivity|exact I]. }
    assert (Hne : cp l1 <> eof) by lia.
    destruct (rok_step l1 Hk1) as (l2 & -> & Hk2 & Hm2 & Hs2). cbn [bind].
    exists (Some l2). split; [reflexivity|]. split; [exact Hk2|]. specialize (Hs2 Hne). lia.
  Qed.

  Lemma class_loop_spec fuel : forall l, rok l -> (Z.to_nat (mu l) < fuel)%nat ->
    exists r, class_loop text fuel l = Ok r /\ match r with None => True | Some l' => rok l' /\ mu l' <= mu l end.
  Proof.
    induction fuel as [|f IH]; intros l Hk Hf; [lia|].
    pose proof (mu_nonneg text l (proj1 Hk)). cbn [class_loop].
    destruct (cp l =? 93); [exists (Some l); split; [reflexivity|split; [exact Hk|lia]]|].
    destruct (validateAndStep_spec l Hk) as (r & -> & Hr). cbn [bind].
    destruct r as [l1|]; [|exists None; split; [reflexivity|exact I]].
    destruct Hr as [Hk1 Hm1]. pose proof (mu_nonneg text l1 (proj1 Hk1)).
    destruct (IH l1 Hk1 ltac:(lia)) as (r & E & Hr). exists r. split; [exact E|].
    destruct r; [|exact I]. destruct Hr. split; [assumption|lia].
  Qed.

  Lemma dup_scan_ok fuel : forall i stop c, 0 <= i -> stop <= n -> (Z.to_nat (stop - i) < fuel)%nat ->
    exists j, dup_scan text fuel i stop c = Ok j.
  Proof.
    induction fuel as [|f IH]; intros i stop c Hi Hs Hf; [lia|].
    cbn [dup_scan]. destruct (i <? stop) eqn:E; [|eexists; reflexivity].
    destruct (idx_ok' text i ltac:(fold n; lia)) as [b ->]. cbn [bind].
    destruct (negb (b =? c)); [apply IH; lia|eexists; reflexivity].
  Qed.

  Lemma flags_loop_spec fuel : forall l bits, rok l -> (Z.to_nat (mu l) < fuel)%nat ->
    exists r, flags_loop idc text fuel l bits = Ok r.
  Proof.
    induction fuel as [|f IH]; intros l bits Hk Hf; [lia|].
    pose proof (mu_nonneg text l (proj1 Hk)). cbn [flags_loop].
    destruct (idc (cp l)) eqn:Ei; [|eexists; reflexivity].
    assert (Hne : cp l <> eof) by (intros E; rewrite E, idc_eof in Ei; discriminate).
    destruct (is_flag (cp l)); [|eexists; reflexivity].
    assert (Hb' : exists b', (if negb (Z.land (Z.shiftl 1 (cp l - 97)) bits =? 0)
                    then _ <- dup_scan text (S (length text)) 0 (rlen l) (cp l) ;; Ok bits
                    else Ok (Z.lor bits (Z.shiftl 1 (cp l - 97)))) = Ok b').
    { destruct (negb _); [|eexists; reflexivity].
      destruct (dup_scan_ok (S (length text)) 0 (rlen l) (cp l)) as [j ->]; [lia|destruct Hk as [_ Hr]; lia| |].
      - destruct Hk as [_ Hr]. unfold n, len in Hr. lia.
      - cbn [bind]. eexists; reflexivity. }
    destruct Hb' as [b' ->]. cbn [bind].
    destruct (rok_step l Hk) as (l1 & -> & Hk1 & Hm1 & Hs1). cbn [bind]. specialize (Hs1 Hne).
    pose proof (mu_nonneg text l1 (proj1 Hk1)). apply IH; [exact Hk1|lia].
  Qed.

  Lemma re_loop_spec fuel : forall l, rok l -> (Z.to_nat (mu l) < fuel)%nat ->
    exists r, re_loop idc text fuel l = Ok r.
  Proof.
    induction fuel as [|f IH]; intros l Hk Hf; [lia|].
    pose proof (mu_nonneg text l (proj1 Hk)). cbn [re_loop].
    destruct (cp l =? 47) eqn:E47.
    { destruct (rok_step l Hk) as (l1 & -> & Hk1 & _). cbn [bind].
      apply flags_loop_spec; [exact Hk1|apply mu_bound; exact (proj1 Hk1)]. }
    destruct (cp l =? 91) eqn:E91.
    { assert (Hne : cp l <> eof) by (unfold eof; lia).
      destruct (rok_step l Hk) as (l1 & -> & Hk1 & Hm1 & Hs1). cbn [bind]. specialize (Hs1 Hne).
      destruct (class_loop_spec (lex_fuel text) l1 Hk1 (mu_bound text l1 (proj1 Hk1))) as (r & -> & Hr). cbn [bind].
      destruct r as [l2|]; [|eexists; reflexivity]. destruct Hr as [Hk2 Hm2].
      destruct (rok_step l2 Hk2) as (l3 & -> & Hk3 & Hm3 & _). cbn [bind].
      pose proof (mu_nonneg text l3 (proj1 Hk3)). apply IH; [exact Hk3|lia]. }
    destruct (validateAndStep_spec l Hk) as (r & -> & Hr). cbn [bind].
    destruct r as [l1|]; [|eexists; reflexivity]. destruct Hr as [Hk1 Hm1].
    pose proof (mu_nonneg text l1 (proj1 Hk1)). apply IH; [exact Hk1|lia].
  Qed.

  Lemma run_regexp_total : safe (run_regexp idc text).
  Proof.
    unfold run_regexp, safe, lex_start.
    assert (Hk00 : rok (mkLx 0 0 0)).
    { unfold rok, CssLexProofs.wf. cbn [cur rlen]. pose proof (len_nonneg text). fold n in H. lia. }
    destruct (rok_step _ Hk00) as (l0 & -> & Hk0 & _). cbn [bind].
    destruct (rok_step l0 Hk0) as (l1 & -> & Hk1 & _). cbn [bind].
    apply re_loop_spec; [exact Hk1|apply mu_bound; exact (proj1 Hk1)].
  Qed.
End JsLexProofs.
