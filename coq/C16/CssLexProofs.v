(* C16 proofs: the CSS lexer's cursor and consumers never index out of range
   and always terminate: every loop iteration either returns or strictly
   decreases the measure 2*(len - current) + [codePoint <> eof]. *)
From V Require Import Common.Base C16.Checked C16.Wtf8 C16.Wtf8Proofs C16.CssIdent C16.CssIdentProofs C16.CssLex.

Section LexProofs.
  Variable text : list Z.
  Hypothesis Hb : bytes_ok text.
  Let n := len text.

  Definition wf (l : lx) : Prop := 0 <= cur l <= n.
  Definition mu (l : lx) : Z := 2 * (n - cur l) + (if cp l =? eof then 0 else 1).

  Lemma mu_nonneg l : wf l -> 0 <= mu l.
  Proof. unfold wf, mu. destruct (cp l =? eof); lia. Qed.

  (* step: in range, never moves backwards, and makes progress unless already at eof *)
  Lemma step_spec l : wf l ->
    exists l', step text l = Ok l' /\ wf l' /\ cur l <= cur l' /\ rlen l' = cur l /\
               mu l' <= mu l /\ (cp l <> eof -> mu l' < mu l) /\ (cur l < n -> cur l < cur l').
  Proof.
    intros Hw. unfold step, wf in *. rewrite from_ok by (fold n; lia). cbn [bind].
    destruct (utf8_decode_any text (cur l) Hb ltac:(fold n; lia)) as (c & w & -> & Hw1 & Hw2).
    fold n in Hw1, Hw2. eexists. split; [reflexivity|]. unfold mu. cbn [cur cp rlen].
    assert (Hcase : (w = 0 /\ cur l = n) \/ 1 <= w) by lia.
    destruct (cp l =? eof) eqn:Ecp; destruct (w =? 0) eqn:E0;
      try (change (eof =? eof) with true; cbv iota);
      try destruct (c =? eof);
      (split; [lia|]); (split; [lia|]); (split; [reflexivity|]); (split; [lia|]);
      (split; [intros Hne; lia|intros Hlt; lia]).
  Qed.

  Ltac do_step l Hw l' E Hw' Hc Hr Hm Hs Hp :=
    destruct (step_spec l Hw) as (l' & E & Hw' & Hc & Hr & Hm & Hs & Hp); rewrite E; cbn [bind].

  Lemma isValidEscape_ok l : wf l -> exists b, isValidEscape text l = Ok b.
  Proof.
    intros Hw. unfold isValidEscape. destruct (negb (cp l =? 92)); [eexists; reflexivity|].
    unfold wf in Hw. rewrite from_ok by (fold n; lia). cbn [bind].
    destruct (utf8_decode _) as [c w]. eexists; reflexivity.
  Qed.

  Lemma isValidEscape_backslash l b : isValidEscape text l = Ok b -> b = true -> cp l = 92.
  Proof.
    unfold isValidEscape. destruct (cp l =? 92) eqn:E; cbn [negb]; [intros _ _; lia|].
    intros H1 H2. inversion H1. congruence.
  Qed.

  Lemma escape_digits_spec k : forall hex l, wf l ->
    exists hex' l', escape_digits text k hex l = Ok (hex', l') /\ wf l' /\ mu l' <= mu l.
  Proof.
    induction k as [|k IH]; intros hex l Hw; cbn [escape_digits].
    - exists hex, l. split; [reflexivity|]. split; [exact Hw|lia].
    - destruct (isHex (cp l)); [|exists hex, l; split; [reflexivity|split; [exact Hw|lia]]].
      do_step l Hw l1 E1 Hw1 Hc1 Hr1 Hm1 Hs1 Hp1.
      destruct (IH (hex * 16 + hexval (cp l)) l1 Hw1) as (h2 & l2 & E2 & Hw2 & Hm2).
      exists h2, l2. split; [exact E2|]. split; [exact Hw2|lia].
  Qed.

  Lemma consumeEscape_spec l : wf l ->
    exists r l', consumeEscape text l = Ok (r, l') /\ wf l' /\ mu l' <= mu l /\ (cp l <> eof -> mu l' < mu l).
  Proof.
    intros Hw. unfold consumeEscape.
    do_step l Hw l1 E1 Hw1 Hc1 Hr1 Hm1 Hs1 Hp1.
    destruct (isHex (cp l1)).
    - do_step l1 Hw1 l2 E2 Hw2 Hc2 Hr2 Hm2 Hs2 Hp2.
      destruct (escape_digits_spec 5 (hexval (cp l1)) l2 Hw2) as (hex & l3 & -> & Hw3 & Hm3). cbn [bind].
      assert (Hl4 : exists l4, (if isWhitespace (cp l3) then step text l3 else Ok l3) = Ok l4 /\ wf l4 /\ mu l4 <= mu l3).
      { destruct (isWhitespace (cp l3)).
        - destruct (step_spec l3 Hw3) as (l4 & E4 & Hw4 & _ & _ & Hm4 & _). exists l4. auto.
        - exists l3. split; [reflexivity|]. split; [exact Hw3|lia]. }
      destruct Hl4 as (l4 & -> & Hw4 & Hm4). cbn [bind].
      destruct ((hex =? 0) || ((55296 <=? hex) && (hex <=? 57343)) || (1114111 <? hex));
        eexists; exists l4; (split; [reflexivity|]); (split; [exact Hw4|]); (split; [lia|]); intros H; specialize (Hs1 H); lia.
    - destruct (cp l1 =? eof).
      + eexists; exists l1. split; [reflexivity|]. split; [exact Hw1|]. split; [lia|exact Hs1].
      + do_step l1 Hw1 l2 E2 Hw2 Hc2 Hr2 Hm2 Hs2 Hp2.
        eexists; exists l2. split; [reflexivity|]. split; [exact Hw2|]. split; [lia|]. intros H; specialize (Hs1 H); lia.
  Qed.

  Lemma string_loop_spec fuel : forall quote l, wf l -> (Z.to_nat (mu l) < fuel)%nat ->
    exists k l', string_loop text fuel quote l = Ok (k, l') /\ wf l'.
  Proof.
    induction fuel as [|f IH]; intros quote l Hw Hf; [lia|].
    pose proof (mu_nonneg l Hw) as Hm0.
    cbn [string_loop].
    destruct (cp l =? 92) eqn:E92.
    { assert (Hne : cp l <> eof) by (unfold eof; lia).
      do_step l Hw l1 E1 Hw1 Hc1 Hr1 Hm1 Hs1 Hp1. specialize (Hs1 Hne).
      pose proof (mu_nonneg l1 Hw1).
      destruct (cp l1 =? 13).
      - do_step l1 Hw1 l2 E2 Hw2 Hc2 Hr2 Hm2 Hs2 Hp2.
        destruct (cp l2 =? 10).
        + do_step l2 Hw2 l3 E3 Hw3 Hc3 Hr3 Hm3 Hs3 Hp3. pose proof (mu_nonneg l3 Hw3). apply IH; [exact Hw3|lia].
        + cbn [bind]. pose proof (mu_nonneg l2 Hw2). apply IH; [exact Hw2|lia].
      - do_step l1 Hw1 l2 E2 Hw2 Hc2 Hr2 Hm2 Hs2 Hp2. pose proof (mu_nonneg l2 Hw2). apply IH; [exact Hw2|lia]. }
    destruct ((cp l =? eof) || (cp l =? 10) || (cp l =? 13) || (cp l =? 12)) eqn:Eend.
    { exists 2, l. split; [reflexivity|exact Hw]. }
    assert (Hne : cp l <> eof) by lia.
    destruct (cp l =? quote).
    - do_step l Hw l1 E1 Hw1 Hc1 Hr1 Hm1 Hs1 Hp1. exists 1, l1. split; [reflexivity|exact Hw1].
    - do_step l Hw l1 E1 Hw1 Hc1 Hr1 Hm1 Hs1 Hp1. specialize (Hs1 Hne). pose proof (mu_nonneg l1 Hw1).
      apply IH; [exact Hw1|lia].
  Qed.

  Lemma mu_bound l : wf l -> (Z.to_nat (mu l) < lex_fuel text)%nat.
  Proof.
    intros Hw. unfold lex_fuel, mu, wf, n, len in *.
    destruct (cp l =? eof); lia.
  Qed.

  Lemma consumeString_total l : wf l -> exists k l', consumeString text l = Ok (k, l') /\ wf l'.
  Proof.
    intros Hw. unfold consumeString.
    do_step l Hw l1 E1 Hw1 Hc1 Hr1 Hm1 Hs1 Hp1.
    apply string_loop_spec; [exact Hw1|apply mu_bound; exact Hw1].
  Qed.

  Lemma skip_ws_spec fuel : forall l, wf l -> (Z.to_nat (mu l) < fuel)%nat ->
    exists l', skip_ws text fuel l = Ok l' /\ wf l' /\ mu l' <= mu l.
  Proof.
    induction fuel as [|f IH]; intros l Hw Hf; [lia|].
    pose proof (mu_nonneg l Hw). cbn [skip_ws].
    destruct (isWhitespace (cp l)) eqn:Ews; [|exists l; split; [reflexivity|split; [exact Hw|lia]]].
    assert (Hne : cp l <> eof).
    { intros E. rewrite E in Ews. discriminate. }
    do_step l Hw l1 E1 Hw1 Hc1 Hr1 Hm1 Hs1 Hp1. specialize (Hs1 Hne). pose proof (mu_nonneg l1 Hw1).
    destruct (IH l1 Hw1 ltac:(lia)) as (l2 & E2 & Hw2 & Hm2). exists l2. split; [exact E2|]. split; [exact Hw2|lia].
  Qed.

  Lemma badurl_loop_spec fuel : forall l, wf l -> (Z.to_nat (mu l) < fuel)%nat ->
    exists k l', badurl_loop text fuel l = Ok (k, l') /\ wf l'.
  Proof.
    induction fuel as [|f IH]; intros l Hw Hf; [lia|].
    pose proof (mu_nonneg l Hw). cbn [badurl_loop].
    destruct ((cp l =? 41) || (cp l =? eof)) eqn:Eend.
    { do_step l Hw l1 E1 Hw1 Hc1 Hr1 Hm1 Hs1 Hp1. exists 4, l1. split; [reflexivity|exact Hw1]. }
    assert (Hne : cp l <> eof) by lia.
    assert (Hmid : exists l1, (if cp l =? 92 then
              v <- isValidEscape text l ;;
              if v then '(_, l') <- consumeEscape text l ;; Ok l' else Ok l
            else Ok l) = Ok l1 /\ wf l1 /\ (l1 = l \/ mu l1 < mu l)).
    { destruct (cp l =? 92); [|exists l; split; [reflexivity|split; [exact Hw|left; reflexivity]]].
      destruct (isValidEscape_ok l Hw) as [v ->]. cbn [bind].
      destruct v; [|exists l; split; [reflexivity|split; [exact Hw|left; reflexivity]]].
      destruct (consumeEscape_spec l Hw) as (r & l1 & -> & Hw1 & Hm1 & Hs1). cbn [bind].
      exists l1. split; [reflexivity|]. split; [exact Hw1|]. right. apply Hs1. exact Hne. }
    destruct Hmid as (l1 & -> & Hw1 & Hcase). cbn [bind].
    do_step l1 Hw1 l2 E2 Hw2 Hc2 Hr2 Hm2 Hs2 Hp2. pose proof (mu_nonneg l2 Hw2).
    apply IH; [exact Hw2|].
    destruct Hcase as [->|Hlt]; [specialize (Hs2 Hne); lia|lia].
  Qed.

  Lemma url_loop_spec fuel : forall l, wf l -> (Z.to_nat (mu l) < fuel)%nat ->
    exists r l', url_loop text fuel l = Ok (r, l') /\ wf l'.
  Proof.
    induction fuel as [|f IH]; intros l Hw Hf; [lia|].
    pose proof (mu_nonneg l Hw). cbn [url_loop].
    destruct (cp l =? 41).
    { do_step l Hw l1 E1 Hw1 Hc1 Hr1 Hm1 Hs1 Hp1. eexists; exists l1. split; [reflexivity|exact Hw1]. }
    destruct (cp l =? eof) eqn:Eeof.
    { eexists; exists l. split; [reflexivity|exact Hw]. }
    assert (Hne : cp l <> eof) by lia.
    destruct (isWhitespace (cp l)).
    { do_step l Hw l1 E1 Hw1 Hc1 Hr1 Hm1 Hs1 Hp1.
      destruct (skip_ws_spec (lex_fuel text) l1 Hw1 (mu_bound l1 Hw1)) as (l2 & -> & Hw2 & Hm2). cbn [bind].
      destruct (negb (cp l2 =? 41)).
      - destruct (cp l2 =? eof); eexists; exists l2; (split; [reflexivity|exact Hw2]).
      - do_step l2 Hw2 l3 E3 Hw3 Hc3 Hr3 Hm3 Hs3 Hp3. eexists; exists l3. split; [reflexivity|exact Hw3]. }
    destruct ((cp l =? 34) || (cp l =? 39) || (cp l =? 40)).
    { eexists; exists l. split; [reflexivity|exact Hw]. }
    destruct (cp l =? 92).
    { destruct (isValidEscape_ok l Hw) as [v ->]. cbn [bind].
      destruct v; cbn [negb]; [|eexists; exists l; split; [reflexivity|exact Hw]].
      destruct (consumeEscape_spec l Hw) as (r & l1 & -> & Hw1 & Hm1 & Hs1). cbn [bind].
      specialize (Hs1 Hne). pose proof (mu_nonneg l1 Hw1). apply IH; [exact Hw1|lia]. }
    destruct (isNonPrintable (cp l)).
    { eexists; exists l. split; [reflexivity|exact Hw]. }
    do_step l Hw l1 E1 Hw1 Hc1 Hr1 Hm1 Hs1 Hp1. specialize (Hs1 Hne). pose proof (mu_nonneg l1 Hw1).
    apply IH; [exact Hw1|lia].
  Qed.

  Lemma consumeURL_total l : wf l -> exists k l', consumeURL text l = Ok (k, l') /\ wf l'.
  Proof.
    intros Hw. unfold consumeURL.
    destruct (url_loop_spec (lex_fuel text) l Hw (mu_bound l Hw)) as (r & l1 & -> & Hw1). cbn [bind].
    destruct r as [k|].
    - exists k, l1. split; [reflexivity|exact Hw1].
    - apply badurl_loop_spec; [exact Hw1|apply mu_bound; exact Hw1].
  Qed.

  Lemma name_bytes_spec fuel : forall i, 0 <= i <= n -> (Z.to_nat (n - i) < fuel)%nat ->
    exists j, name_bytes text fuel i = Ok j /\ i <= j <= n.
  Proof.
    induction fuel as [|f IH]; intros i Hi Hf; [lia|].
    cbn [name_bytes]. fold n. destruct (i <? n) eqn:E; [|exists i; split; [reflexivity|lia]].
    destruct (idx_ok' text i ltac:(fold n; lia)) as [b ->]. cbn [bind].
    destruct (IsNameContinue b); [|exists i; split; [reflexivity|lia]].
    destruct (IH (i + 1)) as (j & Ej & Hj); [lia|lia|]. exists j. split; [exact Ej|lia].
  Qed.

  Lemma IsNameContinue_eof : IsNameContinue eof = false.
  Proof. reflexivity. Qed.

  Lemma name_loop_spec fuel : forall acc l, wf l -> (Z.to_nat (mu l) < fuel)%nat ->
    exists out l', name_loop text fuel acc l = Ok (out, l') /\ wf l'.
  Proof.
    induction fuel as [|f IH]; intros acc l Hw Hf; [lia|].
    pose proof (mu_nonneg l Hw). cbn [name_loop].
    destruct (IsNameContinue (cp l)) eqn:Enc.
    { assert (Hne : cp l <> eof) by (intros E; rewrite E in Enc; discriminate).
      do_step l Hw l1 E1 Hw1 Hc1 Hr1 Hm1 Hs1 Hp1. specialize (Hs1 Hne). pose proof (mu_nonneg l1 Hw1).
      apply IH; [exact Hw1|lia]. }
    destruct (isValidEscape_ok l Hw) as [v Ev]. rewrite Ev. cbn [bind].
    destruct v; [|exists acc, l; split; [reflexivity|exact Hw]].
    assert (Hne : cp l <> eof) by (rewrite (isValidEscape_backslash l true Ev eq_refl); unfold eof; lia).
    destruct (consumeEscape_spec l Hw) as (r & l1 & -> & Hw1 & Hm1 & Hs1). cbn [bind].
    specialize (Hs1 Hne). pose proof (mu_nonneg l1 Hw1). apply IH; [exact Hw1|lia].
  Qed.

  Lemma consumeName_total l : wf l -> 0 <= rlen l <= n ->
    exists out l', consumeName text l = Ok (out, l') /\ wf l'.
  Proof.
    intros Hw Hr. unfold consumeName.
    assert (H1 : exists l1, (if IsNameContinue (cp l) then
          i <- name_bytes text (S (length text)) (cur l) ;;
          step text (mkLx i (cp l) (rlen l))
        else Ok l) = Ok l1 /\ wf l1 /\ 0 <= rlen l1 <= n).
    { destruct (IsNameContinue (cp l)); [|exists l; split; [reflexivity|split; assumption]].
      destruct (name_bytes_spec (S (length text)) (cur l) Hw) as (j & -> & Hj); [unfold n, len; unfold wf, n, len in Hw; lia|].
      cbn [bind].
      assert (Hwj : wf (mkLx j (cp l) (rlen l))) by (unfold wf; cbn [cur]; unfold wf in Hw; lia).
      destruct (step_spec _ Hwj) as (l1 & E1 & Hw1 & Hc1 & Hr1 & _). cbn [cur] in *.
      exists l1. split; [exact E1|]. split; [exact Hw1|]. rewrite Hr1. unfold wf in Hw. lia. }
    destruct H1 as (l1 & -> & Hw1 & Hr1). cbn [bind].
    rewrite slice_ok by (fold n; lia). cbn [bind].
    destruct (isValidEscape_ok l1 Hw1) as [v ->]. cbn [bind].
    destruct v; cbn [negb]; [|eexists; exists l1; split; [reflexivity|exact Hw1]].
    destruct (consumeEscape_spec l1 Hw1) as (r & l2 & -> & Hw2 & _). cbn [bind].
    apply name_loop_spec; [exact Hw2|apply mu_bound; exact Hw2].
  Qed.

  Lemma lex_start_ok : exists l, lex_start text = Ok l /\ wf l /\ rlen l = 0.
  Proof.
    unfold lex_start.
    assert (Hw0 : wf (mkLx 0 0 0)) by (unfold wf; cbn [cur]; pose proof (len_nonneg text); fold n in H; lia).
    destruct (step_spec _ Hw0) as (l & E & Hw & _ & Hr & _). exists l. split; [exact E|]. split; [exact Hw|exact Hr].
  Qed.
End LexProofs.

Lemma run_escape_total text : bytes_ok text -> safe (run_escape text).
Proof.
  intros Hb. unfold run_escape, safe. destruct (lex_start_ok text Hb) as (l & -> & Hw & _). cbn [bind].
  destruct (consumeEscape_spec text Hb l Hw) as (r & l' & E & _). exists (r, l'). exact E.
Qed.
Lemma run_string_total text : bytes_ok text -> safe (run_string text).
Proof.
  intros Hb. unfold run_string, safe. destruct (lex_start_ok text Hb) as (l & -> & Hw & _). cbn [bind].
  destruct (consumeString_total text Hb l Hw) as (k & l' & E & _). exists (k, l'). exact E.
Qed.
Lemma run_url_total text : bytes_ok text -> safe (run_url text).
Proof.
  intros Hb. unfold run_url, safe. destruct (lex_start_ok text Hb) as (l & -> & Hw & _). cbn [bind].
  destruct (consumeURL_total text Hb l Hw) as (k & l' & E & _). exists (k, l'). exact E.
Qed.
Lemma run_name_total text : bytes_ok text -> safe (run_name text).
Proof.
  intros Hb. unfold run_name, safe. destruct (lex_start_ok text Hb) as (l & -> & Hw & Hr). cbn [bind].
  destruct (consumeName_total text Hb l Hw) as (o & l' & E & _).
  { rewrite Hr. pose proof (len_nonneg text). lia. }
  exists (o, l'). exact E.
Qed.
