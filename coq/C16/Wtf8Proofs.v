(* C16 proofs: DecodeWTF8Rune and internalQuote never crash and never hang. *)
From V Require Import Common.Base C16.Checked C16.Wtf8.

Definition bytes_ok (s : list Z) : Prop := Forall (fun b => 0 <= b < 256) s.

(* ---- bit-operation bounds ---- *)
Lemma land_ones_bound x k : 0 <= k -> 0 <= Z.land x (Z.ones k) < 2 ^ k.
Proof. intros Hk. rewrite Z.land_ones by lia. apply Z.mod_pos_bound. apply Z.pow_pos_nonneg; lia. Qed.

Lemma lor_bound a b k : 0 < k -> 0 <= a < 2 ^ k -> 0 <= b < 2 ^ k -> 0 <= Z.lor a b < 2 ^ k.
Proof.
  intros Hk Ha Hb. split; [apply Z.lor_nonneg; lia|].
  assert (La : Z.log2 a < k).
  { destruct (Z.eq_dec a 0) as [->|Na]; [cbn; lia|]. apply Z.log2_lt_pow2; lia. }
  assert (Lb : Z.log2 b < k).
  { destruct (Z.eq_dec b 0) as [->|Nb]; [cbn; lia|]. apply Z.log2_lt_pow2; lia. }
  destruct (Z.eq_dec (Z.lor a b) 0) as [E|N].
  - rewrite E. apply Z.pow_pos_nonneg; lia.
  - assert (0 <= Z.lor a b) by (apply Z.lor_nonneg; lia).
    apply Z.log2_lt_pow2; [lia|]. rewrite Z.log2_lor by lia. lia.
Qed.

Lemma shiftl_bound a n k : 0 <= n -> 0 <= a < 2 ^ k -> 0 <= k -> 0 <= Z.shiftl a n < 2 ^ (k + n).
Proof.
  intros Hn Ha Hk. rewrite Z.shiftl_mul_pow2 by lia. rewrite Z.pow_add_r by lia.
  assert (0 < 2 ^ n) by (apply Z.pow_pos_nonneg; lia). nia.
Qed.

Lemma land31 x : 0 <= Z.land x 31 < 32.
Proof. change 31 with (Z.ones 5). change 32 with (2 ^ 5). apply land_ones_bound; lia. Qed.
Lemma land63 x : 0 <= Z.land x 63 < 64.
Proof. change 63 with (Z.ones 6). change 64 with (2 ^ 6). apply land_ones_bound; lia. Qed.
Lemma land15 x : 0 <= Z.land x 15 < 16.
Proof. change 15 with (Z.ones 4). change 16 with (2 ^ 4). apply land_ones_bound; lia. Qed.
Lemma land7 x : 0 <= Z.land x 7 < 8.
Proof. change 7 with (Z.ones 3). change 8 with (2 ^ 3). apply land_ones_bound; lia. Qed.
Lemma land1023 x : 0 <= Z.land x 1023 < 1024.
Proof. change 1023 with (Z.ones 10). change 1024 with (2 ^ 10). apply land_ones_bound; lia. Qed.

Lemma cp2_bound s0 s1 : 0 <= Z.lor (Z.shiftl (Z.land s0 31) 6) (Z.land s1 63) < 2 ^ 11.
Proof.
  apply lor_bound; [lia| |].
  - pose proof (shiftl_bound (Z.land s0 31) 6 5 ltac:(lia) (land31 s0) ltac:(lia)). exact H.
  - pose proof (land63 s1). lia.
Qed.

Lemma cp3_bound s0 s1 s2 :
  0 <= Z.lor (Z.lor (Z.shiftl (Z.land s0 15) 12) (Z.shiftl (Z.land s1 63) 6)) (Z.land s2 63) < 2 ^ 16.
Proof.
  apply lor_bound; [lia| |].
  - apply lor_bound; [lia| |].
    + exact (shiftl_bound (Z.land s0 15) 12 4 ltac:(lia) (land15 s0) ltac:(lia)).
    + pose proof (shiftl_bound (Z.land s1 63) 6 6 ltac:(lia) (land63 s1) ltac:(lia)). lia.
  - pose proof (land63 s2). lia.
Qed.

Lemma cp4_nonneg s0 s1 s2 s3 :
  0 <= Z.lor (Z.lor (Z.lor (Z.shiftl (Z.land s0 7) 18) (Z.shiftl (Z.land s1 63) 12))
                    (Z.shiftl (Z.land s2 63) 6)) (Z.land s3 63).
Proof.
  pose proof (land7 s0). pose proof (land63 s1). pose proof (land63 s2). pose proof (land63 s3).
  assert (0 <= Z.shiftl (Z.land s0 7) 18) by (apply Z.shiftl_nonneg; lia).
  assert (0 <= Z.shiftl (Z.land s1 63) 12) by (apply Z.shiftl_nonneg; lia).
  assert (0 <= Z.shiftl (Z.land s2 63) 6) by (apply Z.shiftl_nonneg; lia).
  apply Z.lor_nonneg; split; [|lia]. apply Z.lor_nonneg; split; [|lia].
  apply Z.lor_nonneg; split; lia.
Qed.

(* ---- DecodeWTF8Rune ---- *)
Lemma idx0 a l : idx (a :: l) 0 = Ok a.
Proof. reflexivity. Qed.
Lemma idx1 a b l : idx (a :: b :: l) 1 = Ok b.
Proof. reflexivity. Qed.
Lemma idx2 a b c l : idx (a :: b :: c :: l) 2 = Ok c.
Proof. reflexivity. Qed.
Lemma idx3 a b c d l : idx (a :: b :: c :: d :: l) 3 = Ok d.
Proof. reflexivity. Qed.

Ltac split_ifs :=
  repeat (cbv beta iota zeta; cbn [bind negb orb andb];
          rewrite ?idx0, ?idx1, ?idx2, ?idx3;
          match goal with
          | |- context [if ?c then _ else _] =>
            lazymatch c with true => fail | false => fail | _ => destruct c eqn:? end
          end).

(* the decoder never indexes out of range, whatever the width returned on truncation;
   the width is between 0 and 4 and never exceeds the input, the rune is a code point *)
Ltac decode_cases a r :=
  rewrite len_cons; pose proof (len_nonneg r);
  destruct (1 + len r <? 1) eqn:?; [lia|];
  rewrite idx0; cbn [bind];
  destruct (a <? 128) eqn:?;
  [| destruct (Z.land a 224 =? 192) eqn:?;
     [| destruct (Z.land a 240 =? 224) eqn:?;
        [| destruct (Z.land a 248 =? 240) eqn:?]];
     cbv beta iota zeta; change (0 =? 0) with true; change (2 =? 0) with false;
     change (3 =? 0) with false; change (4 =? 0) with false; cbv beta iota ].

Lemma decode_gen_total tw s :
  exists c w, DecodeWTF8Rune_gen tw s = Ok (c, w).
Proof.
  unfold DecodeWTF8Rune_gen.
  destruct s as [|a r]; [eexists; eexists; reflexivity|].
  decode_cases a r; try (eexists; eexists; reflexivity);
    destruct r as [|b [|c0 [|d t]]];
    repeat rewrite len_cons in *; rewrite ?len_nil in *;
    try pose proof (len_nonneg t);
    split_ifs; cbn [bind];
    try (eexists; eexists; reflexivity); try lia.
Qed.

Lemma decode_spec s :
  s <> [] -> bytes_ok s ->
  exists c w, DecodeWTF8Rune s = Ok (c, w) /\ 1 <= w <= 4 /\ w <= len s /\ 0 <= c <= 1114111.
Proof.
  intros Hne Hb. unfold DecodeWTF8Rune, DecodeWTF8Rune_gen.
  destruct s as [|a r]; [congruence|].
  assert (Ha : 0 <= a < 256) by (inversion Hb; assumption).
  pose proof (cp2_bound a) as B2. pose proof (cp3_bound a) as B3. pose proof (cp4_nonneg a) as B4.
  decode_cases a r;
    try (eexists; eexists; split; [reflexivity|]; unfold RuneError; lia);
    destruct r as [|b [|c0 [|d t]]];
    repeat rewrite len_cons in *; rewrite ?len_nil in *;
    try pose proof (len_nonneg t);
    try specialize (B2 b); try specialize (B3 b c0); try specialize (B4 b c0 d);
    split_ifs; cbn [bind];
    try (eexists; eexists; split; [reflexivity|]; unfold RuneError; lia); try lia.
Qed.

(* the old behaviour: a truncated sequence yields width 0 on a non-empty input *)
Lemma decode_old_zero_width : DecodeWTF8Rune_old [195] = Ok (RuneError, 0).
Proof. reflexivity. Qed.

(* ---- hex4 ---- *)
Lemma hex4_ok c : 0 <= c <= 65535 -> exists h, hex4 c = Ok h /\ len h = 6.
Proof.
  intros Hc. unfold hex4.
  assert (H1 : 0 <= Z.shiftr c 12 < 16).
  { rewrite Z.shiftr_div_pow2 by lia. change (2 ^ 12) with 4096. lia. }
  pose proof (land15 (Z.shiftr c 8)) as H2. pose proof (land15 (Z.shiftr c 4)) as H3.
  pose proof (land15 c) as H4.
  destruct (idx_ok' hexChars _ H1) as [h1 ->].
  destruct (idx_ok' hexChars _ H2) as [h2 ->].
  destruct (idx_ok' hexChars _ H3) as [h3 ->].
  destruct (idx_ok' hexChars _ H4) as [h4 ->].
  cbn [bind]. eexists; split; reflexivity.
Qed.

(* ---- internalQuote ---- *)
Section QuoteProofs.
  Variable dec : list Z -> res (Z * Z).
  Variable text : list Z.
  Variable asciiOnly : bool.
  Variable quoteChar : Z.
  (* what the loops need from the decoder: it consumes at least one byte *)
  Hypothesis dec_progress : forall t, t <> [] -> (exists k, t = skipn k text) ->
    exists c w, dec t = Ok (c, w) /\ 1 <= w <= len t /\ 0 <= c <= 1114111.

  Let n := len text.

  Lemma suffix_nonempty i : 0 <= i < n -> skipn (Z.to_nat i) text <> [] /\ len (skipn (Z.to_nat i) text) = n - i.
  Proof.
    intros H. assert (L : len (skipn (Z.to_nat i) text) = n - i).
    { rewrite len_skipn. unfold n in *. lia. }
    split; [|exact L]. intros E. rewrite E in L. rewrite len_nil in L. lia.
  Qed.

  Lemma run_end_ok fuel : forall i, 0 <= i <= n -> (Z.to_nat (n - i) < fuel)%nat ->
    exists e, run_end dec text asciiOnly fuel i = Ok e /\ i <= e <= n.
  Proof.
    induction fuel as [|f IH]; intros i Hi Hf; [lia|].
    cbn [run_end]. fold n. destruct (i <? n) eqn:Ei; [|exists i; split; [reflexivity|lia]].
    rewrite from_ok by (fold n; lia). cbn [bind].
    destruct (suffix_nonempty i ltac:(lia)) as [Hne Hl].
    destruct (dec_progress _ Hne (ex_intro _ _ eq_refl)) as [c [w [E [Hw Hc]]]].
    rewrite E. cbn [bind].
    destruct (canPrintWithoutEscape c asciiOnly && negb (isInvalidByte c w)).
    - destruct (IH (i + w)) as [e [Ee He]]; [lia|lia|]. exists e. split; [exact Ee|lia].
    - exists i. split; [reflexivity|lia].
  Qed.

  Lemma qloop_ok fuel : forall i acc, 0 <= i <= n -> (Z.to_nat (n - i) < fuel)%nat ->
    exists out, qloop dec text asciiOnly quoteChar fuel i acc = Ok out.
  Proof.
    induction fuel as [|f IH]; intros i acc Hi Hf; [lia|].
    cbn [qloop]. fold n. destruct (i <? n) eqn:Ei; [|eexists; reflexivity].
    rewrite from_ok by (fold n; lia). cbn [bind].
    destruct (suffix_nonempty i ltac:(lia)) as [Hne Hl].
    destruct (dec_progress _ Hne (ex_intro _ _ eq_refl)) as [c [w [E [Hw Hc]]]].
    rewrite E. cbn [bind].
    destruct (canPrintWithoutEscape c asciiOnly && negb (isInvalidByte c w)).
    { destruct (run_end_ok f (i + w)) as [e [Ee He]]; [lia|lia|].
      rewrite Ee. cbn [bind]. rewrite slice_ok by (fold n; lia). cbn [bind].
      apply IH; lia. }
    repeat match goal with
           | |- context [if (c =? ?k) then _ else _] => destruct (c =? k); [apply IH; lia|]
           end.
    destruct (c <=? 65535) eqn:Ec.
    - destruct (hex4_ok c ltac:(lia)) as [h [-> _]]. cbn [bind]. apply IH; lia.
    - pose proof (land1023 (Z.shiftr (c - 65536) 10)). pose proof (land1023 (c - 65536)).
      destruct (hex4_ok (55296 + Z.land (Z.shiftr (c - 65536) 10) 1023) ltac:(lia)) as [h1 [-> _]].
      destruct (hex4_ok (56320 + Z.land (c - 65536) 1023) ltac:(lia)) as [h2 [-> _]].
      cbn [bind]. apply IH; lia.
  Qed.

  Lemma internalQuote_fuel_ok : exists out, internalQuote_fuel dec text asciiOnly quoteChar (quote_fuel text) = Ok out.
  Proof.
    unfold internalQuote_fuel, quote_fuel. apply qloop_ok; [pose proof (len_nonneg text); fold n; lia|].
    unfold n, len. lia.
  Qed.
End QuoteProofs.

Lemma bytes_ok_skipn s k : bytes_ok s -> bytes_ok (skipn k s).
Proof.
  unfold bytes_ok. revert s. induction k as [|k IH]; intros s H; [exact H|].
  destruct s as [|a s]; [constructor|]. cbn [skipn]. apply IH. inversion H; assumption.
Qed.

(* every byte string, both escaping modes, every quote character *)
Lemma internalQuote_total text asciiOnly q : bytes_ok text -> safe (internalQuote text asciiOnly q).
Proof.
  intros Hb. unfold internalQuote, safe. apply internalQuote_fuel_ok.
  intros t Hne [k ->]. destruct (decode_spec _ Hne (bytes_ok_skipn _ k Hb)) as [c [w [E [Hw [Hl Hc]]]]].
  exists c, w. split; [exact E|]. lia.
Qed.

(* the OLD decoder (width 0 on truncation) made the loop spin: for every
   amount of fuel the run on the one-byte text [0xC3] is Hang, in both modes *)
(* with the old decoder the truncated byte has width 0: it counts as an invalid byte, is written
   as \uFFFD by the default case, and i += 0 - in both escaping modes *)
Lemma qloop_old_hangs fuel ao q : forall acc, qloop DecodeWTF8Rune_old [195] ao q fuel 0 acc = Hang.
Proof.
  induction fuel as [|f IH]; intros acc; [reflexivity|].
  destruct ao.
  - change (qloop DecodeWTF8Rune_old [195] true q (S f) 0 acc)
      with (qloop DecodeWTF8Rune_old [195] true q f 0 (acc ++ [92; 117; 70; 70; 70; 68])). apply IH.
  - change (qloop DecodeWTF8Rune_old [195] false q (S f) 0 acc)
      with (qloop DecodeWTF8Rune_old [195] false q f 0 (acc ++ [92; 117; 70; 70; 70; 68])). apply IH.
Qed.

Lemma internalQuote_old_hangs_fast fuel q : internalQuote_fuel DecodeWTF8Rune_old [195] false q fuel = Hang.
Proof. unfold internalQuote_fuel. apply qloop_old_hangs. Qed.

Lemma qloop_old_hangs_ascii fuel q : forall acc, qloop DecodeWTF8Rune_old [195] true q fuel 0 acc = Hang.
Proof. apply qloop_old_hangs. Qed.
