From V Require Import Common.Base C16.Checked C16.Spec C16.ClosingTag.

Lemma index_range t : -1 <= index_lt_slash t < len t \/ (index_lt_slash t = -1).
Proof.
  induction t as [|c r IH]; cbn [index_lt_slash]; [right; reflexivity|].
  rewrite len_cons. pose proof (len_nonneg r).
  destruct ((c =? 60) && _); [left; lia|].
  destruct (index_lt_slash r <? 0) eqn:E; [right; reflexivity|]. left. lia.
Qed.

Lemma index_bounds t : index_lt_slash t = -1 \/ 0 <= index_lt_slash t /\ index_lt_slash t + 2 <= len t.
Proof.
  induction t as [|c r IH]; cbn [index_lt_slash]; [left; reflexivity|].
  rewrite len_cons.
  destruct ((c =? 60) && _) eqn:E.
  - right. destruct r as [|d r']; [rewrite andb_false_r in E; discriminate|].
    rewrite len_cons. pose proof (len_nonneg r'). lia.
  - destruct (index_lt_slash r <? 0) eqn:E2; [left; reflexivity|]. right. lia.
Qed.

(* text = firstn i text ++ '<' :: '/' :: ..., and no "</" starts before i *)
Lemma esc_spec_skip tag t :
  index_lt_slash t = -1 -> esc_spec tag t = t.
Proof.
  induction t as [|c r IH]; cbn [index_lt_slash esc_spec]; [reflexivity|].
  destruct ((c =? 60) && _) eqn:E; [discriminate|]. cbn [andb].
  destruct (index_lt_slash r <? 0) eqn:E2.
  - intros _. f_equal. apply IH. destruct (index_bounds r) as [H|H]; [exact H|lia].
  - intros H. destruct (index_bounds r) as [H1|H1]; lia.
Qed.

Lemma esc_spec_at tag t i : 0 <= i -> index_lt_slash t = i ->
  esc_spec tag t = firstn (Z.to_nat (i + 1)) t ++
    (if starts_fold tag (skipn (Z.to_nat (i + 1)) t) then [92] else []) ++ esc_spec tag (skipn (Z.to_nat (i + 1)) t).
Proof.
  revert i. induction t as [|c r IH]; intros i Hi; cbn [index_lt_slash]; [lia|].
  destruct ((c =? 60) && _) eqn:E.
  - intros <-. change (Z.to_nat (0 + 1)) with 1%nat. cbn [firstn skipn esc_spec]. rewrite E. cbn [andb].
    destruct (starts_fold tag r); reflexivity.
  - destruct (index_lt_slash r <? 0) eqn:E2; [lia|]. intros H.
    assert (Hk : index_lt_slash r = i - 1) by lia.
    replace (Z.to_nat (i + 1)) with (S (Z.to_nat (i - 1 + 1))) by lia.
    cbn [firstn skipn esc_spec]. rewrite E. cbn [andb app]. f_equal.
    apply IH; lia.
Qed.

Lemma loop_is_spec tag : tag <> [] -> forall fuel b text i,
  (length text < fuel)%nat -> 0 <= i -> index_lt_slash text = i ->
  ect_loop fuel tag b text i = Ok (b ++ esc_spec tag text).
Proof.
  intros Htag. induction fuel as [|fuel IH]; intros b text i Hf Hi Hidx; [lia|].
  cbn [ect_loop].
  destruct (index_bounds text) as [Hb|Hb]; [lia|]. rewrite Hidx in Hb.
  unfold upto at 1. replace ((0 <=? i + 1) && (i + 1 <=? len text)) with true by lia. cbn [bind].
  unfold from. replace ((0 <=? i + 1) && (i + 1 <=? len text)) with true by lia. cbn [bind].
  set (text1 := skipn (Z.to_nat (i + 1)) text).
  assert (Hl1 : len text1 = len text - (i + 1)) by (unfold text1; rewrite len_skipn; lia).
  rewrite (esc_spec_at tag text i Hi Hidx). fold text1.
  unfold starts_fold.
  destruct (len tag <=? len text1) eqn:El; cbn [andb].
  - unfold upto. replace ((0 <=? len tag) && (len tag <=? len text1)) with true
      by (pose proof (len_nonneg tag); lia). cbn [bind].
    replace (Z.to_nat (len tag)) with (length tag) by (unfold len; lia).
    assert (Hlt : (length text1 < fuel)%nat) by (unfold len in *; lia).
    destruct (fold_eq (firstn (length tag) text1) tag).
    + destruct (index_lt_slash text1 <? 0) eqn:E3.
      * rewrite esc_spec_skip by (destruct (index_bounds text1); lia). now rewrite <- !app_assoc.
      * rewrite (IH _ text1 (index_lt_slash text1)) by (auto; lia). now rewrite <- !app_assoc.
    + destruct (index_lt_slash text1 <? 0) eqn:E3.
      * rewrite esc_spec_skip by (destruct (index_bounds text1); lia). now rewrite <- !app_assoc.
      * rewrite (IH _ text1 (index_lt_slash text1)) by (auto; lia). now rewrite <- !app_assoc.
  - cbn [bind].
    assert (Hlt : (length text1 < fuel)%nat) by (unfold len in *; lia).
    destruct (index_lt_slash text1 <? 0) eqn:E3.
    + rewrite esc_spec_skip by (destruct (index_bounds text1); lia). now rewrite <- !app_assoc.
    + rewrite (IH _ text1 (index_lt_slash text1)) by (auto; lia). now rewrite <- !app_assoc.
Qed.

(* the Go function computes the specification, for every tag and every text *)
Lemma EscapeClosingTag_is_spec tag text :
  EscapeClosingTag tag text = Ok (match tag with [] => text | _ => esc_spec tag text end).
Proof.
  unfold EscapeClosingTag, EscapeClosingTag_fuel. destruct tag as [|t0 tag']; [reflexivity|].
  destruct (index_lt_slash text <? 0) eqn:E.
  - rewrite esc_spec_skip; [reflexivity|]. destruct (index_bounds text); lia.
  - rewrite (loop_is_spec (t0 :: tag') ltac:(discriminate) _ [] text (index_lt_slash text)); auto; lia.
Qed.

Lemma total_EscapeClosingTag tag : total_on (fun _ => True) (EscapeClosingTag tag).
Proof. intros text _. rewrite EscapeClosingTag_is_spec. split; discriminate. Qed.

Example escapes_script_tag :
  EscapeClosingTag [47;115;99;114;105;112;116] [97;60;47;83;67;82;73;80;84;62;60;47;115;60;47;115;99;114;105;112;116]
  = Ok [97;60;92;47;83;67;82;73;80;84;62;60;47;115;60;92;47;115;99;114;105;112;116].
Proof. vm_compute. reflexivity. Qed.
