(* C16 proofs: scanForPragmaArg never crashes and never hangs when the text starts with the pragma. *)
From V Require Import Common.Base C16.Checked C16.Wtf8 C16.Wtf8Proofs C16.CssIdent C16.CssIdentProofs C16.JsPragma.

Section PragmaProofs.
  Variable ws : Z -> bool.

  Lemma decode_whole t : bytes_ok t -> t <> [] -> exists c w, utf8_decode t = (c, w) /\ 1 <= w <= len t.
  Proof. exact (utf8_decode_spec t). Qed.

  Lemma pragma_skip_ok fuel : forall t start, bytes_ok t -> t <> [] -> (length t < fuel)%nat ->
    exists r, pragma_skip ws fuel t start = Ok r /\
              match r with None => True | Some (t', _) => bytes_ok t' /\ t' <> [] end.
  Proof.
    induction fuel as [|f IH]; intros t start Hb Hne Hf; [lia|].
    cbn [pragma_skip]. destruct (decode_whole t Hb Hne) as (c & w & -> & Hw).
    destruct (ws c); [|exists (Some (t, start)); split; [reflexivity|split; assumption]].
    rewrite from_ok by lia. cbn [bind].
    destruct (len (skipn (Z.to_nat w) t) =? 0) eqn:E0; [exists None; split; [reflexivity|exact I]|].
    apply IH.
    - apply bytes_ok_skipn. exact Hb.
    - intros E. rewrite E in E0. discriminate.
    - rewrite skipn_length. unfold len in Hw. lia.
  Qed.

  Lemma pragma_arg_ok fuel : forall t i, bytes_ok t -> 0 <= i < len t -> (Z.to_nat (len t - i) < fuel)%nat ->
    exists j, pragma_arg ws fuel t i = Ok j /\ 0 <= j <= len t.
  Proof.
    induction fuel as [|f IH]; intros t i Hb Hi Hf; [lia|].
    cbn [pragma_arg]. rewrite from_ok by lia. cbn [bind].
    destruct (utf8_decode_any t i Hb ltac:(lia)) as (c & w & -> & Hw & Hw1). specialize (Hw1 ltac:(lia)).
    destruct (ws c); [exists i; split; [reflexivity|lia]|].
    destruct (len t <=? i + w) eqn:E; [exists (i + w); split; [reflexivity|lia]|].
    apply IH; [exact Hb|lia|lia].
  Qed.

  Lemma scanForPragmaArg_total skip start plen text :
    bytes_ok text -> 0 <= plen <= len text -> safe (scanForPragmaArg ws skip start plen text).
  Proof.
    intros Hb Hp. unfold scanForPragmaArg, safe. rewrite from_ok by lia. cbn [bind].
    set (t := skipn (Z.to_nat plen) text).
    assert (Hbt : bytes_ok t) by (apply bytes_ok_skipn; exact Hb).
    destruct (len t =? 0) eqn:E0; [eexists; reflexivity|].
    assert (Hne : t <> []) by (intros E; rewrite E in E0; discriminate).
    assert (H1 : exists r, (if skip then
            let '(c, _) := utf8_decode t in
            if negb (ws c) then Ok None else pragma_skip ws (S (length t)) t (start + plen)
          else Ok (Some (t, start + plen))) = Ok r /\
          match r with None => True | Some (t', _) => bytes_ok t' /\ t' <> [] end).
    { destruct skip; [|exists (Some (t, start + plen)); split; [reflexivity|split; assumption]].
      destruct (utf8_decode t) as [c w]. destruct (negb (ws c)); [exists None; split; [reflexivity|exact I]|].
      apply pragma_skip_ok; [exact Hbt|exact Hne|lia]. }
    destruct H1 as (r & -> & Hr). cbn [bind]. destruct r as [[t' s']|]; [|eexists; reflexivity].
    destruct Hr as [Hb' Hne'].
    assert (0 < len t') by (destruct t'; [congruence|rewrite len_cons; pose proof (len_nonneg t'); lia]).
    destruct (pragma_arg_ok (S (length t')) t' 0 Hb' ltac:(lia)) as (j & -> & Hj); [unfold len; lia|].
    cbn [bind]. rewrite upto_ok by lia. cbn [bind]. eexists; reflexivity.
  Qed.
End PragmaProofs.
