(* C16: obligations over the inventory regenerated from the Go sources by
   translator T8 (gen/cmd/t8panics -> coq/gen/PanicSitesGen.v) on every run.
   The domain is the finite generated list; each statement is decided by
   vm_compute over the whole list and lifted with forallb_forall. *)
From Coq Require Import List String Bool Arith.
From V Require Import gen.PanicSitesGen.
Import ListNotations.
Open Scope string_scope.

Definition runs_parser_or_printer (s : spawn) : bool :=
  match sp_sinks s with [] => false | _ => true end.

Fixpoint strs_eqb (a b : list string) : bool :=
  match a, b with
  | [], [] => true
  | x :: a', y :: b' => String.eqb x y && strs_eqb a' b'
  | _, _ => false
  end.

(* the one goroutine that parses without a recover wrapper parses only the
   embedded runtime library (trusted text, not an input): bundler.ScanBundle *)
Definition exempt (s : spawn) : bool :=
  String.eqb (sp_pkg s) "internal/bundler" && String.eqb (sp_func s) "ScanBundle" &&
  String.eqb (sp_target s) "func" && strs_eqb (sp_sinks s) ["js_parser.Parse"].

Definition spawn_ok (s : spawn) : bool :=
  negb (runs_parser_or_printer s) || exempt s || (sp_resolved s && Nat.leb 1 (sp_recover s)).

Lemma all_spawns_ok : forallb spawn_ok spawn_sites = true.
Proof. vm_compute. reflexivity. Qed.

Lemma every_goroutine_recovers_all : forall s, In s spawn_sites ->
  runs_parser_or_printer s = true -> exempt s = false ->
  sp_resolved s = true /\ (1 <= sp_recover s)%nat.
Proof.
  intros s Hin Hr He. pose proof (proj1 (forallb_forall _ _) all_spawns_ok s Hin) as H.
  unfold spawn_ok in H. rewrite Hr, He in H. cbn [negb orb] in H.
  apply andb_true_iff in H as [H1 H2]. split; [exact H1|]. apply Nat.leb_le. exact H2.
Qed.

(* exactly one exempt site, and exactly one site whose recover is deferred
   conditionally (the CSS printing literal of generateChunkCSS defers
   recoverInternalError only for source-index entries) *)
Lemma exempt_sites_are : map sp_func (filter exempt spawn_sites) = ["ScanBundle"].
Proof. vm_compute. reflexivity. Qed.
Lemma conditional_recover_sites_are :
  map sp_func (filter (fun s => runs_parser_or_printer s && Nat.eqb (sp_recover s) 1) spawn_sites)
  = ["linkerContext.generateChunkCSS"].
Proof. vm_compute. reflexivity. Qed.

(* a spawned function whose body could not be found syntactically (a function value) exists only in pkg/api *)
Lemma unresolved_only_in_api : forall s, In s spawn_sites -> sp_resolved s = false -> sp_pkg s = "pkg/api".
Proof.
  assert (H : forallb (fun s => sp_resolved s || String.eqb (sp_pkg s) "pkg/api") spawn_sites = true) by (vm_compute; reflexivity).
  intros s Hin Hr. pose proof (proj1 (forallb_forall _ _) H s Hin) as H1. cbv beta in H1.
  rewrite Hr in H1. cbn [orb] in H1. apply String.eqb_eq. exact H1.
Qed.

(* every function that constructs a JS lexer defers the typed LexerPanic recover first *)
Lemma lexer_entries_all : forall e, In e lexer_entries -> en_recover_before e = true.
Proof.
  assert (H : forallb en_recover_before lexer_entries = true) by (vm_compute; reflexivity).
  intros e Hin. exact (proj1 (forallb_forall _ _) H e Hin).
Qed.
Lemma lexer_entries_present :
  forallb (fun n => existsb (fun e => String.eqb (en_func e) n && String.eqb (en_pkg e) "internal/js_parser") lexer_entries)
          ["Parse"; "ParseJSON"; "ParseGlobalName"] = true.
Proof. vm_compute. reflexivity. Qed.

(* the typed panic is raised only inside the two packages whose entry points recover it *)
Lemma lexer_panic_confined_all : forall p, In p panic_sites -> pa_typed p = true ->
  pa_pkg p = "internal/js_lexer" \/ pa_pkg p = "internal/js_parser".
Proof.
  assert (H : forallb (fun p => negb (pa_typed p) || String.eqb (pa_pkg p) "internal/js_lexer" || String.eqb (pa_pkg p) "internal/js_parser") panic_sites = true)
    by (vm_compute; reflexivity).
  intros p Hin Ht. pose proof (proj1 (forallb_forall _ _) H p Hin) as H1. cbv beta in H1.
  rewrite Ht in H1. cbn [negb orb] in H1. apply orb_true_iff in H1 as [H1|H1]; [left|right]; apply String.eqb_eq; exact H1.
Qed.

Definition n_panics_typed : nat := List.length (filter pa_typed panic_sites).
Definition n_panics_other : nat := List.length (filter (fun p => negb (pa_typed p)) panic_sites).

(* ---- API layer and stdio service (pkg/api, cmd/esbuild, pkg/cli) ----
   [service_spawn_sites] lists their goroutines with BUILD-level sinks (api.Build/Transform/Context,
   bundler.ScanBundle, Compile, linker.Link, Rebuild/Watch/Serve/Dispose/Cancel, option parsing).
   None of them defers a recover wrapper: the API layer relies on the recover wrappers of the
   bundler (parseFile) and the linker (recoverInternalError); a panic raised in pkg/api or cmd/esbuild
   code itself inside one of these goroutines terminates the process.  The functions that spawn
   build-running goroutines without a wrapper are pinned: a new one breaks the obligation. *)
Definition runs_build (s : spawn) : bool := match sp_sinks s with [] => false | _ => true end.

Definition known_unprotected_spawners : list string :=
  ["internalContext.Watch"; "internalContext.Serve"; "watcher.start";
   "serviceType.handleIncomingPacket"; "serviceType.handleBuildRequest"].

Definition service_spawn_ok (s : spawn) : bool :=
  negb (runs_build s) || Nat.leb 1 (sp_recover s) || existsb (String.eqb (sp_func s)) known_unprotected_spawners.

Lemma service_goroutines_all : forall s, In s service_spawn_sites -> runs_build s = true ->
  (1 <= sp_recover s)%nat \/ In (sp_func s) known_unprotected_spawners.
Proof.
  assert (H : forallb service_spawn_ok service_spawn_sites = true) by (vm_compute; reflexivity).
  intros s Hin Hr. pose proof (proj1 (forallb_forall _ _) H s Hin) as H1.
  unfold service_spawn_ok in H1. rewrite Hr in H1. cbn [negb orb] in H1.
  apply orb_true_iff in H1 as [H1|H1].
  - left. apply Nat.leb_le. exact H1.
  - right. apply existsb_exists in H1 as [x [Hx E]]. apply String.eqb_eq in E. subst x. exact Hx.
Qed.

(* the current state, kept visible: no goroutine of the API/service layer has a recover wrapper *)
Lemma service_goroutines_none_recovers :
  forallb (fun s => Nat.eqb (sp_recover s) 0) service_spawn_sites = true.
Proof. vm_compute. reflexivity. Qed.

(* ---- regexp compile sites ----
   [regexp_sites]: every regexp.MustCompile / regexp.Compile (and the POSIX variants) in the scanned
   packages, whether it is the panicking Must form and whether its argument is a string literal.
   A MustCompile whose argument is not a constant is a panic site reachable from input unless the
   pattern is always well-formed.  There were two (resolver parsePackageJSON on the output of
   globstarToEscapedRegexp, resolver ResolveGlob on a QuoteMeta'd import pattern); both panicked on
   patterns holding invalid UTF-8 (finding C16-regexp-invalid-utf8) and were turned into regexp.Compile
   by fix commits dfdee39 and dbc750e.  Now there is none, and a new one breaks the obligation. *)
Definition nonconst_mustcompile (s : regexpsite) : bool := re_must s && negb (re_const s).

Lemma mustcompile_sites_none : filter nonconst_mustcompile regexp_sites = [].
Proof. vm_compute. reflexivity. Qed.

(* the input-derived patterns are compiled with the error-returning form *)
Lemma input_patterns_use_compile :
  forallb (fun n => existsb (fun s => String.eqb (re_func s) n && negb (re_must s)) regexp_sites)
          ["resolverQuery.parsePackageJSON"; "Resolver.ResolveGlob"; "validateRegex"; "compileFilter"] = true.
Proof. vm_compute. reflexivity. Qed.
