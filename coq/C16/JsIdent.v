(* C16 model: internal/js_lexer/js_lexer.go RangeOfIdentifier (range of an identifier or
   private name for a diagnostic, with "\u{...}" escapes) and its fallback
   internal/logger/logger.go Source.RangeOfString, with checked accesses and fuel.
   The identifier classifications are parameters (js_ast.IsIdentifierStart / Continue). *)
From V Require Import Common.Base C16.Checked C16.Wtf8 C16.CssIdent.

(* for i := 1; i < len(text); i++ { c := text[i]; if c == quote { return i+1 } else if c == '\\' { i += 1 }
     else if tmpl && c == '$' && i+1 < len(text) && text[i+1] == '{' { break } } *)
Fixpoint ros_loop (fuel : nat) (text : list Z) (quote : Z) (tmpl : bool) (i : Z) : res (option Z) :=
  match fuel with
  | O => Hang
  | S f =>
    if i <? len text then
      c <- idx text i ;;
      if c =? quote then Ok (Some (i + 1))
      else if c =? 92 then ros_loop f text quote tmpl (i + 1 + 1)
      else if tmpl && (c =? 36) && (i + 1 <? len text) then
        c1 <- idx text (i + 1) ;;
        if c1 =? 123 then Ok None else ros_loop f text quote tmpl (i + 1)
      else ros_loop f text quote tmpl (i + 1)
    else Ok None
  end.

Definition RangeOfString (text : list Z) : res Z :=
  if len text =? 0 then Ok 0 else
  quote <- idx text 0 ;;
  r1 <- (if (quote =? 34) || (quote =? 39) then ros_loop (S (length text)) text quote false 1 else Ok None) ;;
  match r1 with
  | Some n => Ok n
  | None =>
    r2 <- (if quote =? 96 then ros_loop (S (length text)) text quote true 1 else Ok None) ;;
    match r2 with Some n => Ok n | None => Ok 0 end
  end.

Section JsROI.
  Variables ids idc : Z -> bool.

  (* for i < len(text) { if text[i] == '}' { i++; break }; i++ } *)
  Fixpoint brace_loop (fuel : nat) (text : list Z) (i : Z) : res Z :=
    match fuel with
    | O => Hang
    | S f =>
      if i <? len text then
        c <- idx text i ;; if c =? 125 then Ok (i + 1) else brace_loop f text (i + 1)
      else Ok i
    end.

  Fixpoint jroi_loop (fuel : nat) (text : list Z) (i : Z) : res (option Z) :=
    match fuel with
    | O => Hang
    | S f =>
      if i <? len text then
        t <- from text i ;;
        let '(c2, w2) := utf8_decode t in
        if c2 =? 92 then
          let i := i + w2 in
          if i + 2 <? len text then
            a <- idx text i ;;
            b <- idx text (i + 1) ;;
            if (a =? 117) && (b =? 123) then
              j <- brace_loop (S (length text)) text (i + 2) ;; jroi_loop f text j
            else jroi_loop f text i
          else jroi_loop f text i
        else if negb (idc c2) then Ok (Some i)
        else jroi_loop f text (i + w2)
      else Ok None
    end.

  Definition jsRangeOfIdentifier (text : list Z) : res Z :=
    if len text =? 0 then Ok 0 else
    t0 <- from text 0 ;;
    let '(c, _) := utf8_decode t0 in
    '(i, c) <- (if c =? 35 then t1 <- from text 1 ;; let '(c1, _) := utf8_decode t1 in Ok (1, c1) else Ok (0, c)) ;;
    if ids c || (c =? 92) then
      r <- jroi_loop (S (length text)) text i ;;
      match r with Some k => Ok k | None => RangeOfString text end
    else RangeOfString text.
End JsROI.

(* classification used by the correspondence run (ASCII exact; beyond ASCII only generated code points) *)
Definition ids_sample (c : Z) : bool :=
  ((97 <=? c) && (c <=? 122)) || ((65 <=? c) && (c <=? 90)) || (c =? 95) || (c =? 36) || (c =? 233).
Definition idc_sample2 (c : Z) : bool :=
  ids_sample c || ((48 <=? c) && (c <=? 57)) || (c =? 8204) || (c =? 8205).
