(* C16 model: internal/css_lexer/css_lexer.go - the cursor primitive [step] and
   the consumers that run over hostile bytes: isValidEscape, consumeEscape,
   consumeString, consumeURL, consumeName - with checked accesses and fuel.
   A lexer state is (current, codePoint, Token.Range.Len) with the token
   starting at 0 (as set up by the correspondence hook); eof = -1.
   Diagnostics (log.AddID...) are not modelled: they do not touch the cursor. *)
From V Require Import Common.Base C16.Checked C16.Wtf8 C16.CssIdent.

Definition eof : Z := -1.
Record lx := mkLx { cur : Z; cp : Z; rlen : Z }.

(* codePoint, width := utf8.DecodeRuneInString(contents[current:]); if width == 0 { codePoint = eof };
   Token.Range.Len = current - start; current += width *)
Definition step (text : list Z) (l : lx) : res lx :=
  t <- from text (cur l) ;;
  let '(c, w) := utf8_decode t in
  Ok (mkLx (cur l + w) (if w =? 0 then eof else c) (cur l)).

Definition isValidEscape (text : list Z) (l : lx) : res bool :=
  if negb (cp l =? 92) then Ok false else
  t <- from text (cur l) ;;
  let '(c, _) := utf8_decode t in Ok (negb (isNewline c)).

Definition hexval (c : Z) : Z :=
  if (48 <=? c) && (c <=? 57) then c - 48
  else if (97 <=? c) && (c <=? 102) then c - 87 else c - 55.

(* for i := 0; i < 5; i++ { if next, ok := isHex(codePoint); ok { step(); hex = hex*16 + next } else { break } } *)
Fixpoint escape_digits (text : list Z) (k : nat) (hex : Z) (l : lx) : res (Z * lx) :=
  match k with
  | O => Ok (hex, l)
  | S k' =>
    if isHex (cp l) then
      let next := hexval (cp l) in
      l' <- step text l ;; escape_digits text k' (hex * 16 + next) l'
    else Ok (hex, l)
  end.

Definition consumeEscape (text : list Z) (l : lx) : res (Z * lx) :=
  l <- step text l ;;            (* skip the backslash *)
  let c := cp l in
  if isHex c then
    l <- step text l ;;
    '(hex, l) <- escape_digits text 5 (hexval c) l ;;
    l <- (if isWhitespace (cp l) then step text l else Ok l) ;;
    if (hex =? 0) || ((55296 <=? hex) && (hex <=? 57343)) || (1114111 <? hex)
    then Ok (RuneError, l) else Ok (hex, l)
  else if c =? eof then Ok (RuneError, l)
  else l <- step text l ;; Ok (c, l).

(* token kinds reported to the harness: 1 TString, 2 TUnterminatedString, 3 TURL, 4 TBadURL *)
Fixpoint string_loop (text : list Z) (fuel : nat) (quote : Z) (l : lx) : res (Z * lx) :=
  match fuel with
  | O => Hang
  | S f =>
    let c := cp l in
    if c =? 92 then
      l <- step text l ;;
      if cp l =? 13 then
        l <- step text l ;;
        l <- (if cp l =? 10 then step text l else Ok l) ;;
        string_loop text f quote l
      else l <- step text l ;; string_loop text f quote l
    else if (c =? eof) || (c =? 10) || (c =? 13) || (c =? 12) then Ok (2, l)
    else if c =? quote then l <- step text l ;; Ok (1, l)
    else l <- step text l ;; string_loop text f quote l
  end.

Definition lex_fuel (text : list Z) : nat := S (S (S (2 * length text))).

Definition consumeString (text : list Z) (l : lx) : res (Z * lx) :=
  let quote := cp l in
  l <- step text l ;; string_loop text (lex_fuel text) quote l.

Definition isNonPrintable (c : Z) : bool :=
  (c <=? 8) || (c =? 11) || ((14 <=? c) && (c <=? 31)) || (c =? 127).

(* for isWhitespace(codePoint) { step() } *)
Fixpoint skip_ws (text : list Z) (fuel : nat) (l : lx) : res lx :=
  match fuel with
  | O => Hang
  | S f => if isWhitespace (cp l) then l' <- step text l ;; skip_ws text f l' else Ok l
  end.

(* the second loop of consumeURL: the remnants of a bad url *)
Fixpoint badurl_loop (text : list Z) (fuel : nat) (l : lx) : res (Z * lx) :=
  match fuel with
  | O => Hang
  | S f =>
    let c := cp l in
    if (c =? 41) || (c =? eof) then l <- step text l ;; Ok (4, l)
    else
      l <- (if c =? 92 then
              v <- isValidEscape text l ;;
              if v then '(_, l') <- consumeEscape text l ;; Ok l' else Ok l
            else Ok l) ;;
      l <- step text l ;; badurl_loop text f l
  end.

(* the first loop; [None] = "break validURL" *)
Fixpoint url_loop (text : list Z) (fuel : nat) (l : lx) : res (option Z * lx) :=
  match fuel with
  | O => Hang
  | S f =>
    let c := cp l in
    if c =? 41 then l <- step text l ;; Ok (Some 3, l)
    else if c =? eof then Ok (Some 3, l)
    else if isWhitespace c then
      l <- step text l ;;
      l <- skip_ws text (lex_fuel text) l ;;
      if negb (cp l =? 41) then
        (if cp l =? eof then Ok (Some 3, l) else Ok (None, l))
      else l <- step text l ;; Ok (Some 3, l)
    else if (c =? 34) || (c =? 39) || (c =? 40) then Ok (None, l)
    else if c =? 92 then
      v <- isValidEscape text l ;;
      if negb v then Ok (None, l)
      else '(_, l) <- consumeEscape text l ;; url_loop text f l
    else if isNonPrintable c then Ok (None, l)
    else l <- step text l ;; url_loop text f l
  end.

Definition consumeURL (text : list Z) (l : lx) : res (Z * lx) :=
  '(r, l) <- url_loop text (lex_fuel text) l ;;
  match r with
  | Some k => Ok (k, l)
  | None => badurl_loop text (lex_fuel text) l
  end.

(* strings.Builder.WriteRune *)
Definition utf8_encode (r : Z) : list Z :=
  let r := if (r <? 0) || (1114111 <? r) || ((55296 <=? r) && (r <=? 57343)) then RuneError else r in
  if r <? 128 then [r]
  else if r <? 2048 then [192 + Z.shiftr r 6; 128 + Z.land r 63]
  else if r <? 65536 then [224 + Z.shiftr r 12; 128 + Z.land (Z.shiftr r 6) 63; 128 + Z.land r 63]
  else [240 + Z.shiftr r 18; 128 + Z.land (Z.shiftr r 12) 63; 128 + Z.land (Z.shiftr r 6) 63; 128 + Z.land r 63].

(* for i < n && IsNameContinue(rune(contents[i])) { i++ } *)
Fixpoint name_bytes (text : list Z) (fuel : nat) (i : Z) : res Z :=
  match fuel with
  | O => Hang
  | S f =>
    if i <? len text then
      b <- idx text i ;;
      if IsNameContinue b then name_bytes text f (i + 1) else Ok i
    else Ok i
  end.

Fixpoint name_loop (text : list Z) (fuel : nat) (acc : list Z) (l : lx) : res (list Z * lx) :=
  match fuel with
  | O => Hang
  | S f =>
    if IsNameContinue (cp l) then
      l' <- step text l ;; name_loop text f (acc ++ utf8_encode (cp l)) l'
    else
      v <- isValidEscape text l ;;
      if v then '(r, l') <- consumeEscape text l ;; name_loop text f (acc ++ utf8_encode r) l'
      else Ok (acc, l)
  end.

Definition consumeName (text : list Z) (l : lx) : res (list Z * lx) :=
  l <- (if IsNameContinue (cp l) then
          i <- name_bytes text (S (length text)) (cur l) ;;
          step text (mkLx i (cp l) (rlen l))
        else Ok l) ;;
  raw <- slice text 0 (rlen l) ;;
  v <- isValidEscape text l ;;
  if negb v then Ok (raw, l) else
  '(r, l) <- consumeEscape text l ;;
  name_loop text (lex_fuel text) (raw ++ utf8_encode r) l.

(* the state of a fresh lexer after its first step() *)
Definition lex_start (text : list Z) : res lx := step text (mkLx 0 0 0).

(* the runs the correspondence hook performs: a fresh lexer stepped once, then one consumer *)
Definition run_escape (text : list Z) : res (Z * lx) := l <- lex_start text ;; consumeEscape text l.
Definition run_string (text : list Z) : res (Z * lx) := l <- lex_start text ;; consumeString text l.
Definition run_url (text : list Z) : res (Z * lx) := l <- lex_start text ;; consumeURL text l.
Definition run_name (text : list Z) : res (list Z * lx) := l <- lex_start text ;; consumeName text l.

