(* C16: obligation over the inventory of rune-decoder calls inside loops,
   regenerated from the Go sources by translator gen/cmd/t8decodeloops on every
   run.  Both hangs found by this check (C16-truncated-utf8-hang,
   C16-css-identifier-range-hang) were a decoder returning width 0 at the end
   of the input inside a loop that had no end-of-input test.  A site is
   syntactically GUARDED when its innermost loop is a range loop, has a loop
   condition, exits on a comparison before the decode, or compares the returned
   width with 0/1.  The unguarded sites are pinned one by one with the reason
   why they terminate; a new unguarded site breaks the obligation. *)
From Coq Require Import List String Bool.
From V Require Import gen.DecodeLoopsGen.
Import ListNotations.
Open Scope string_scope.

Definition unguarded (s : decloop) : bool := String.eqb (dl_guard s) "none".

(* reviewed by hand:
   - js_lexer Lexer.tryToDecodeEscapeSequences, the variable-length "\u{...}" loop: at the end of
     the text the decoder returns RuneError, which is not a hex digit nor '}', so the switch
     returns; every other iteration consumes one hex digit;
   - logger LineColumnTracker.scanTo (forward and backward scan): terminates iff
     0 <= offset <= len(contents); this is a CALLER INVARIANT (every diagnostic location lies
     inside its source) - a location past the end or negative makes the diagnostic spin
     (confirmed on the real code; no input producing such a location was found by the search) *)
Definition reviewed (s : decloop) : bool :=
  (String.eqb (dl_pkg s) "internal/js_lexer" && String.eqb (dl_func s) "Lexer.tryToDecodeEscapeSequences") ||
  (String.eqb (dl_pkg s) "internal/logger" && String.eqb (dl_func s) "LineColumnTracker.scanTo").

Lemma decode_loops_all : forall s, In s decode_loop_sites -> unguarded s = true -> reviewed s = true.
Proof.
  assert (H : forallb (fun s => negb (unguarded s) || reviewed s) decode_loop_sites = true) by (vm_compute; reflexivity).
  intros s Hin Hu. pose proof (proj1 (forallb_forall _ _) H s Hin) as H1. cbv beta in H1.
  rewrite Hu in H1. cbn [negb orb] in H1. exact H1.
Qed.

Lemma unguarded_sites_are :
  map (fun s => (dl_func s, dl_decoder s)) (filter unguarded decode_loop_sites) =
  [("Lexer.tryToDecodeEscapeSequences", "utf8.DecodeRuneInString");
   ("LineColumnTracker.scanTo", "utf8.DecodeRuneInString");
   ("LineColumnTracker.scanTo", "utf8.DecodeLastRuneInString")].
Proof. vm_compute. reflexivity. Qed.

(* the two repaired loops are now classified guarded by their loop condition *)
Lemma repaired_loops_guarded :
  forallb (fun s => negb ((String.eqb (dl_func s) "RangeOfIdentifier" || String.eqb (dl_func s) "internalQuote")) || String.eqb (dl_guard s) "cond")
          decode_loop_sites = true.
Proof. vm_compute. reflexivity. Qed.
