(* C16 proofs: decodeJSXEntities with the guard "length > 0" never crashes and
   never hangs, for every byte string and every entity table; with the guard
   "length != -1" it crashes on "&;". *)
From V Require Import Common.Base C16.Checked C16.Wtf8 C16.Wtf8Proofs C16.Vlq16 C16.CssNumProofs
  C16.CssIdent C16.CssIdentProofs C16.JsxEntities.

Section JSXProofs.
  Variable lookup : list Z -> option Z.
  Variable text : list Z.
  Hypothesis Hb : bytes_ok text.
  Let n := len text.

  Lemma djx_ok fuel : forall i acc, 0 <= i <= n -> (Z.to_nat (n - i) < fuel)%nat ->
    exists out, djx true lookup fuel text i acc = Ok out.
  Proof.
    induction fuel as [|f IH]; intros i acc Hi Hf; [lia|].
    cbn [djx]. fold n.
    destruct (i <? n) eqn:Ei; cbn [negb]; [|eexists; reflexivity].
    rewrite from_ok by (fold n; lia). cbn [bind].
    destruct (utf8_decode_any text i Hb ltac:(fold n; lia)) as (c & w & -> & Hw & Hw1).
    fold n in Hw, Hw1. specialize (Hw1 ltac:(lia)).
    destruct (c =? 38); [|cbn [bind]; apply IH; lia].
    rewrite from_ok by (fold n; lia). cbn [bind].
    set (t2 := skipn (Z.to_nat (i + w)) text).
    assert (Lt2 : len t2 = n - (i + w)) by (unfold t2; rewrite len_skipn; fold n; lia).
    destruct (index_byte_spec t2 59 0) as [E|[H1 _]].
    { rewrite E. change (0 <? -1) with false. cbv iota. cbn [bind]. apply IH; lia. }
    set (length := index_byte t2 59 0) in *.
    destruct (0 <? length) eqn:El; [|cbn [bind]; apply IH; lia].
    rewrite slice_ok by (fold n; lia). cbn [bind].
    set (entity := firstn (Z.to_nat (i + w + length - (i + w))) (skipn (Z.to_nat (i + w)) text)).
    assert (Le : len entity = length).
    { unfold entity. rewrite len_firstn. fold t2. lia. }
    destruct (idx_ok' entity 0 ltac:(lia)) as [e0 ->]. cbn [bind].
    destruct (e0 =? 35).
    - rewrite from_ok by lia. cbn [bind].
      set (number := skipn (Z.to_nat 1) entity).
      assert (Ln : len number = length - 1) by (unfold number; rewrite len_skipn; lia).
      destruct (1 <? len number) eqn:E1.
      + destruct (idx_ok' number 0 ltac:(lia)) as [n0 ->]. cbn [bind].
        destruct (n0 =? 120).
        * rewrite from_ok by lia. cbn [bind].
          destruct (ParseInt32 _ 16); cbn [bind]; apply IH; lia.
        * cbn [bind]. destruct (ParseInt32 _ 10); cbn [bind]; apply IH; lia.
      + cbn [bind]. destruct (ParseInt32 _ 10); cbn [bind]; apply IH; lia.
    - destruct (lookup entity); cbn [bind]; apply IH; lia.
  Qed.

  Lemma decodeJSXEntities_total : safe (decodeJSXEntities true lookup text).
  Proof.
    unfold decodeJSXEntities, safe. apply djx_ok.
    - pose proof (len_nonneg text). fold n. lia.
    - unfold n, len. lia.
  Qed.
End JSXProofs.

(* "&;" with the guard "length != -1": entity is empty and entity[0] is out of range *)
Lemma decodeJSXEntities_weak_guard_crashes : forall lookup, decodeJSXEntities false lookup [38; 59] = Crash.
Proof. intros lookup. vm_compute. reflexivity. Qed.
