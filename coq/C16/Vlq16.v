(* C16 model: internal/sourcemap/sourcemap.go DecodeVLQUTF16 and the "mappings"
   loop of internal/js_parser/sourcemap_parser.go ParseSourceMap (one loop per
   section, sections chained), with checked accesses, fuel and explicit int32
   wrap-around.  UTF-16 units are Z. *)
From V Require Import Common.Base C16.Checked.

(* "ABCDEFGHIJKLMNOPQRSTUVWXYZabcdefghijklmnopqrstuvwxyz0123456789+/" *)
Definition base64 : list Z :=
  [65;66;67;68;69;70;71;72;73;74;75;76;77;78;79;80;81;82;83;84;85;86;87;88;89;90;
   97;98;99;100;101;102;103;104;105;106;107;108;109;110;111;112;113;114;115;116;117;118;119;120;121;122;
   48;49;50;51;52;53;54;55;56;57;43;47].

(* bytes.IndexByte *)
Fixpoint index_byte (l : list Z) (c : Z) (i : Z) : Z :=
  match l with
  | [] => -1
  | x :: r => if x =? c then i else index_byte r c (i + 1)
  end.

(* int32(x) << s for a non-negative int s: Go yields 0 once s >= 32 *)
Definition shl32 (x s : Z) : Z := if 32 <=? s then 0 else wrap_i32 (Z.shiftl x s).

(* the scan loop; returns (value, consumed, ok) *)
Fixpoint vlq_loop (fuel : nat) (enc : list Z) (current shift vlq : Z) : res (Z * Z * bool) :=
  match fuel with
  | O => Hang
  | S f =>
    if len enc <=? current then Ok (0, 0, false) else
    u <- idx enc current ;;
    (* byte(encoded[current]): the unit is truncated to its low 8 bits *)
    let index := index_byte base64 (u mod 256) 0 in
    if index <? 0 then Ok (0, 0, false) else
    let vlq' := Z.lor vlq (shl32 (Z.land index 31) shift) in
    let current' := current + 1 in
    if Z.land index 32 =? 0 then
      let value := Z.shiftr vlq' 1 in
      let value := if negb (Z.land vlq' 1 =? 0) then wrap_i32 (- value) else value in
      Ok (value, current', true)
    else vlq_loop f enc current' (shift + 5) vlq'
  end.

Definition DecodeVLQUTF16 (enc : list Z) : res (Z * Z * bool) :=
  if len enc =? 0 then Ok (0, 0, false) else vlq_loop (S (length enc)) enc 0 0 0.

(* ---- the mappings loop ---- *)
Record mstate := mkM { gl : Z; gc : Z; si : Z; ol : Z; oc : Z; on : Z }.
(* (generatedLine, generatedColumn, sourceIndex, originalLine, originalColumn, name or -1) *)
Definition mapping := (Z * Z * Z * Z * Z * Z)%type.

(* error codes, in the order of the Go text:
   1 Missing generated column   2 Invalid generated column value (value)
   3 Missing source index       4 Invalid source index value (value)
   5 Missing original line      6 Invalid original line value (value)
   7 Missing original column    8 Invalid original column value (value)
   9 Invalid name index value (value)   10 Invalid character after mapping *)
Inductive mresult :=
| MErr (code : Z) (value : Z) (errorLen : Z) (current : Z)
| MDone (st : mstate) (maps : list mapping).   (* maps in reverse order *)

Section Loop.
  Variable raw : list Z.
  Variables lineOffset columnOffset sourceOffset nameOffset sourcesLen namesLen : Z.

  Fixpoint mloop (fuel : nat) (st : mstate) (current : Z) (acc : list mapping) : res mresult :=
    match fuel with
    | O => Hang
    | S f =>
      if negb (current <? len raw) then Ok (MDone st acc) else
      c0 <- idx raw current ;;
      if c0 =? 59 then mloop f (mkM (wrap_i32 (gl st + 1)) 0 (si st) (ol st) (oc st) (on st)) (current + 1) acc else
      (* generated column *)
      t <- from raw current ;;
      '(d, i, ok) <- DecodeVLQUTF16 t ;;
      if negb ok then Ok (MErr 1 0 i current) else
      let gc' := wrap_i32 (gc st + d) in
      if ((gl st =? lineOffset) && (gc' <? columnOffset)) || (gc' <? 0) then Ok (MErr 2 gc' i current) else
      let current := current + i in
      if current =? len raw then Ok (MDone (mkM (gl st) gc' (si st) (ol st) (oc st) (on st)) acc) else
      c1 <- idx raw current ;;
      if c1 =? 44 then mloop f (mkM (gl st) gc' (si st) (ol st) (oc st) (on st)) (current + 1) acc else
      if c1 =? 59 then mloop f (mkM (gl st) gc' (si st) (ol st) (oc st) (on st)) current acc else
      (* source index *)
      t <- from raw current ;;
      '(d, i, ok) <- DecodeVLQUTF16 t ;;
      if negb ok then Ok (MErr 3 0 i current) else
      let si' := wrap_i32 (si st + d) in
      if (si' <? sourceOffset) || (wrap_i32 (sourceOffset + wrap_i32 sourcesLen) <=? si') then Ok (MErr 4 si' i current) else
      let current := current + i in
      (* original line *)
      t <- from raw current ;;
      '(d, i, ok) <- DecodeVLQUTF16 t ;;
      if negb ok then Ok (MErr 5 0 i current) else
      let ol' := wrap_i32 (ol st + d) in
      if ol' <? 0 then Ok (MErr 6 ol' i current) else
      let current := current + i in
      (* original column *)
      t <- from raw current ;;
      '(d, i, ok) <- DecodeVLQUTF16 t ;;
      if negb ok then Ok (MErr 7 0 i current) else
      let oc' := wrap_i32 (oc st + d) in
      if oc' <? 0 then Ok (MErr 8 oc' i current) else
      let current := current + i in
      (* optional name *)
      t <- from raw current ;;
      '(d, i, ok) <- DecodeVLQUTF16 t ;;
      let on' := if ok then wrap_i32 (on st + d) else on st in
      if ok && ((on' <? nameOffset) || (wrap_i32 (nameOffset + wrap_i32 namesLen) <=? on')) then Ok (MErr 9 on' i current) else
      let name := if ok then on' else -1 in
      let current := if ok then current + i else current in
      let st' := mkM (gl st) gc' si' ol' oc' on' in
      let m : mapping := (gl st, gc', si', ol', oc', name) in
      (* next character *)
      if current <? len raw then
        c2 <- idx raw current ;;
        if c2 =? 44 then mloop f st' (current + 1) (m :: acc)
        else if negb (c2 =? 59) then
          (* the message quotes mappingsRaw[current:current+1] *)
          _ <- slice raw current (current + 1) ;;
          Ok (MErr 10 c2 1 current)
        else mloop f st' current (m :: acc)
      else mloop f st' current (m :: acc)
    end.
End Loop.

(* one section: (lineOffset, columnOffset, sourcesLen, namesLen, mappingsRaw); version 3 present *)
Definition section := (Z * Z * Z * Z * list Z)%type.

Inductive presult :=
| PErr (section_index : Z) (code value errorLen current : Z)
| PNil                                   (* "pointless" map: nil *)
| PMap (nsources nnames : Z) (maps : list mapping).   (* len(Sources), len(Names), Mappings *)

(* the section loop of ParseSourceMap: sources/names counts accumulate, a
   section with empty mappings or no sources is skipped *)
Fixpoint psections (secs : list section) (k : Z) (nsrc nnames : Z) (acc : list mapping) : res presult :=
  match secs with
  | [] => Ok (if (nsrc =? 0) || (match acc with [] => true | _ => false end) then PNil else PMap nsrc nnames (rev acc))
  | (lo, co, sl, nl, raw) :: rest =>
    if (len raw =? 0) || (sl =? 0) then psections rest (k + 1) nsrc nnames acc else
    let sourceOffset := wrap_i32 nsrc in
    let nameOffset := wrap_i32 nnames in
    r <- mloop raw lo co sourceOffset nameOffset sl nl (S (length raw))
               (mkM lo co sourceOffset 0 0 nameOffset) 0 acc ;;
    match r with
    | MErr code v el cur => Ok (PErr k code v el cur)
    | MDone _ acc' => psections rest (k + 1) (nsrc + sl) (nnames + nl) acc'
    end
  end.

Definition ParseMappings (secs : list section) : res presult := psections secs 0 0 0 [].
