(* C16 model: internal/js_lexer/js_lexer.go scanForPragmaArg (the argument of a comment pragma such as
   "//# sourceMappingURL=" or "@jsx "), with checked accesses and fuel. [plen] = len(pragma); the callers
   only pass a text that starts with the pragma (hasPrefixWithWordBoundary), i.e. plen <= len(text). *)
From V Require Import Common.Base C16.Checked C16.Wtf8 C16.CssIdent.

(* js_ast.IsWhitespace *)
Definition js_ws (c : Z) : bool :=
  (c =? 9) || (c =? 11) || (c =? 12) || (c =? 32) || (c =? 160) || (c =? 5760) ||
  ((8192 <=? c) && (c <=? 8202)) || (c =? 8239) || (c =? 8287) || (c =? 12288) || (c =? 65279).

Section Pragma.
  Variable ws : Z -> bool.

  (* for IsWhitespace(c) { text = text[width:]; start += width; if text == "" { return }; c, width = decode(text) } *)
  Fixpoint pragma_skip (fuel : nat) (t : list Z) (start : Z) : res (option (list Z * Z)) :=
    match fuel with
    | O => Hang
    | S f =>
      let '(c, w) := utf8_decode t in
      if ws c then
        t' <- from t w ;;
        if len t' =? 0 then Ok None else pragma_skip f t' (start + w)
      else Ok (Some (t, start))
    end.

  (* for !IsWhitespace(c) { i += width; if i >= len(text) { break }; c, width = decode(text[i:]); if IsWhitespace(c) { break } } *)
  Fixpoint pragma_arg (fuel : nat) (t : list Z) (i : Z) : res Z :=
    match fuel with
    | O => Hang
    | S f =>
      t' <- from t i ;;
      let '(c, w) := utf8_decode t' in
      if ws c then Ok i else
      let i' := i + w in
      if len t <=? i' then Ok i' else pragma_arg f t i'
    end.

  (* Some (span text, span start, span length) *)
  Definition scanForPragmaArg (skipSpaceFirst : bool) (start plen : Z) (text : list Z) : res (option (list Z * Z * Z)) :=
    text <- from text plen ;;
    let start := start + plen in
    if len text =? 0 then Ok None else
    r <- (if skipSpaceFirst then
            let '(c, _) := utf8_decode text in
            if negb (ws c) then Ok None else pragma_skip (S (length text)) text start
          else Ok (Some (text, start))) ;;
    match r with
    | None => Ok None
    | Some (text, start) =>
      i <- pragma_arg (S (length text)) text 0 ;;
      s <- upto text i ;;
      Ok (Some (s, start, i))
    end.
End Pragma.
