(* Checkers evaluated by the correspondence run (vm_compute): each returns the
   indices of the cases on which model and implementation differ.
   Encoding of the outcome observed on the Go side: status 0 = returned,
   1 = Go panic (recovered by the harness), 2 = did not return in time. *)
From V Require Import Common.Base C16.Checked C16.Wtf8.

Fixpoint mism_from {A} (f : A -> bool) (l : list A) (i : nat) : list nat :=
  match l with
  | [] => []
  | x :: r => if f x then mism_from f r (S i) else i :: mism_from f r (S i)
  end.
Definition mismatches {A} (f : A -> bool) (l : list A) : list nat := mism_from f l 0.

Definition status_of {A} (r : res A) : Z := match r with Ok _ => 0 | Crash => 1 | Hang => 2 end.

(* DecodeWTF8Rune: (input, status, rune, width) *)
Definition wtf8_ok (c : bytes * Z * Z * Z) : bool :=
  let '(s, st, r, w) := c in
  match DecodeWTF8Rune s with
  | Ok (r', w') => (st =? 0) && (r =? r') && (w =? w')
  | x => st =? status_of x
  end.
Definition check_wtf8 := mismatches wtf8_ok.

(* internalQuote: (text, asciiOnly, quoteChar, status, output) *)
Definition quote_ok (c : bytes * bool * Z * Z * bytes) : bool :=
  let '(s, ao, q, st, out) := c in
  match internalQuote s ao q with
  | Ok o => (st =? 0) && zlist_eqb o out
  | x => st =? status_of x
  end.
Definition check_quote := mismatches quote_ok.

From V Require Import C16.Vlq16 C16.CssNum C16.Pieces C16.Packet.

(* DecodeVLQUTF16: (units, status, value, consumed, ok) *)
Definition vlq16_ok (c : list Z * Z * Z * Z * bool) : bool :=
  let '(u, st, v, i, ok) := c in
  match DecodeVLQUTF16 u with
  | Ok (v', i', ok') => (st =? 0) && (v =? v') && (i =? i') && Bool.eqb ok ok'
  | x => st =? status_of x
  end.
Definition check_vlq16 := mismatches vlq16_ok.

(* canonical order on mappings (the Go side sorts with sort.Stable and a
   non-strict Less when columns go backwards; both sides are compared after a
   canonical lexicographic sort) *)
Definition mapping_leb (a b : mapping) : bool :=
  let '(a1, a2, a3, a4, a5, a6) := a in
  let '(b1, b2, b3, b4, b5, b6) := b in
  if a1 <? b1 then true else if b1 <? a1 then false else
  if a2 <? b2 then true else if b2 <? a2 then false else
  if a3 <? b3 then true else if b3 <? a3 then false else
  if a4 <? b4 then true else if b4 <? a4 then false else
  if a5 <? b5 then true else if b5 <? a5 then false else a6 <=? b6.
Fixpoint insert_m (x : mapping) (l : list mapping) : list mapping :=
  match l with [] => [x] | y :: r => if mapping_leb x y then x :: l else y :: insert_m x r end.
Definition sort_m (l : list mapping) : list mapping := fold_right insert_m [] l.
Definition mapping_eqb (a b : mapping) : bool :=
  let '(a1, a2, a3, a4, a5, a6) := a in
  let '(b1, b2, b3, b4, b5, b6) := b in
  (a1 =? b1) && (a2 =? b2) && (a3 =? b3) && (a4 =? b4) && (a5 =? b5) && (a6 =? b6).

(* ParseSourceMap mappings: (sections, status, kind, err, maps)
   kind 0 = nil result without message, 1 = "Bad mappings" message with err = [code; value; current],
   2 = a source map with maps (canonically sorted) and err = [len(Sources); len(Names)]; value is compared only for the codes whose message prints it *)
Definition maps_ok (c : list section * Z * Z * list Z * list mapping) : bool :=
  let '(secs, st, kind, err, maps) := c in
  match ParseMappings secs with
  | Ok PNil => (st =? 0) && (kind =? 0)
  | Ok (PErr _ code v _ cur) =>
    (st =? 0) && (kind =? 1) &&
    match err with
    | [code'; v'; cur'] => (code =? code') && (cur =? cur') &&
                           (if (code =? 2) || (code =? 4) || (code =? 6) || (code =? 8) || (code =? 9) || (code =? 10) then v =? v' else true)
    | _ => false
    end
  | Ok (PMap ns nn ms) =>
    (st =? 0) && (kind =? 2) && list_eqb mapping_eqb (sort_m ms) (sort_m maps) &&
    (* err carries [len(sm.Sources); len(sm.Names)] of the real result *)
    match err with [ns'; nn'] => (ns =? ns') && (nn =? nn') | _ => false end
  | x => st =? status_of x
  end.
Definition check_maps := mismatches maps_ok.

(* parseHex: (runes, status, value, ok) *)
Definition hex_ok (c : list Z * Z * Z * bool) : bool :=
  let '(r, st, v, ok) := c in
  match parseHex r with
  | Ok (v', ok') => (st =? 0) && (v =? v') && Bool.eqb ok ok'
  | x => st =? status_of x
  end.
Definition check_hex := mismatches hex_ok.

(* mangleNumber: (bytes, status, out, changed) *)
Definition mangle_ok (c : bytes * Z * bytes * bool) : bool :=
  let '(t, st, out, ch) := c in
  match mangleNumber t with
  | Ok (o, ch') => (st =? 0) && zlist_eqb o out && Bool.eqb ch ch'
  | x => st =? status_of x
  end.
Definition check_mangle := mismatches mangle_ok.

(* shiftDot: (bytes, offset, status, out, ok) *)
Definition shift_ok (c : bytes * Z * Z * bytes * bool) : bool :=
  let '(t, off, st, out, ok) := c in
  match shiftDot t off with
  | Ok (o, ok') => (st =? 0) && zlist_eqb o out && Bool.eqb ok ok'
  | x => st =? status_of x
  end.
Definition check_shift := mismatches shift_ok.

Definition piece_eqb (a b : piece) : bool :=
  let '(d1, i1, k1) := a in let '(d2, i2, k2) := b in zlist_eqb d1 d2 && (i1 =? i2) && (k1 =? k2).

(* breakOutputIntoPieces: (output, prefix, nfiles, nchunks, status, pieces) *)
Definition pieces_ok (c : bytes * bytes * Z * Z * Z * list piece) : bool :=
  let '(o, p, nf, nc, st, ps) := c in
  match breakOutputIntoPieces o p nf nc with
  | Ok ps' => (st =? 0) && list_eqb piece_eqb ps' ps
  | x => st =? status_of x
  end.
Definition check_pieces := mismatches pieces_ok.

(* decodePacket: (bytes, status, ok, id, isRequest) *)
Definition packet_ok (c : bytes * Z * bool * Z * bool) : bool :=
  let '(b, st, ok, id, rq) := c in
  match decodePacket b with
  | Ok None => (st =? 0) && negb ok
  | Ok (Some (id', rq', _)) => (st =? 0) && ok && (id =? id') && Bool.eqb rq rq'
  | x => st =? status_of x
  end.
Definition check_packet := mismatches packet_ok.

From V Require Import C16.CssIdent.
(* css_lexer.RangeOfIdentifier: (text, status, Len); status 2 = no result in time (model: Hang) *)
Definition roi_ok (c : bytes * Z * Z) : bool :=
  let '(t, st, l) := c in
  match RangeOfIdentifier_current t with
  | Ok l' => (st =? 0) && (l =? l')
  | x => st =? status_of x
  end.
Definition check_roi := mismatches roi_ok.

From V Require Import C16.JsxEntities.
(* js_lexer.decodeJSXEntities: (text, status, decoded units); entity names restricted to small_entity_table *)
Definition jsxent_ok (c : bytes * Z * list Z) : bool :=
  let '(t, st, out) := c in
  match decodeJSXEntities true small_entity_table t with
  | Ok o => (st =? 0) && zlist_eqb o out
  | x => st =? status_of x
  end.
Definition check_jsxent := mismatches jsxent_ok.

From V Require Import C16.CssLex.
(* css_lexer consumers on a fresh lexer: (which, text, status, result rune / kind, name, current, codePoint, Range.Len)
   which: 0 consumeEscape, 1 consumeString, 2 consumeURL, 3 consumeName *)
Definition lx_eqb (l : lx) (c p r : Z) : bool := (cur l =? c) && (cp l =? p) && (rlen l =? r).
Definition csslex_ok (c : Z * bytes * Z * Z * bytes * Z * Z * Z) : bool :=
  let '(which, t, st, v, name, c1, p1, r1) := c in
  if which =? 0 then
    match run_escape t with Ok (r, l) => (st =? 0) && (v =? r) && lx_eqb l c1 p1 r1 | x => st =? status_of x end
  else if which =? 1 then
    match run_string t with Ok (k, l) => (st =? 0) && (v =? k) && lx_eqb l c1 p1 r1 | x => st =? status_of x end
  else if which =? 2 then
    match run_url t with Ok (k, l) => (st =? 0) && (v =? k) && lx_eqb l c1 p1 r1 | x => st =? status_of x end
  else
    match run_name t with Ok (o, l) => (st =? 0) && zlist_eqb o name && lx_eqb l c1 p1 r1 | x => st =? status_of x end.
Definition check_csslex := mismatches csslex_ok.

From V Require Import C16.Globstar.
(* resolver.globstarToEscapedRegexp: (glob, status, pattern, hadWildcard) *)
Definition globstar_ok (c : bytes * Z * bytes * bool) : bool :=
  let '(g, st, pat, had) := c in
  match globstarToEscapedRegexp g with
  | Ok (p, h) => (st =? 0) && zlist_eqb p pat && Bool.eqb h had
  | x => st =? status_of x
  end.
Definition check_globstar := mismatches globstar_ok.

From V Require Import C16.JsLex.
(* js_lexer: (which, text, status, a, b, c, d)   status 3 = the typed LexerPanic (syntax error)
   which 0 string/template first token: a = token kind (1 string, 2 no-substitution template, 3 template head),
           b = lexer.end, c = len(text slice), d unused
   which 1 ScanRegExp: a = lexer.end, b = lexer.current, c = lexer.codePoint
   which 2 RescanCloseBraceAsTemplateToken on a text starting with '}': a = 4 template tail / 5 template middle, b, c as for 0 *)
Definition jslex_ok (x : Z * bytes * Z * Z * Z * Z) : bool :=
  let '(which, t, st, a, b, c) := x in
  if which =? 0 then
    match run_jsstring t with
    | Ok (Some (k, e, n)) => (st =? 0) && (a =? k) && (b =? e) && (c =? n)
    | Ok None => st =? 3
    | r => st =? status_of r
    end
  else if which =? 2 then
    match run_jstemplate_tail t with
    | Ok (Some (k, e, n)) => (st =? 0) && (a =? k) && (b =? e) && (c =? n)
    | Ok None => st =? 3
    | r => st =? status_of r
    end
  else
    match run_regexp idc_sample t with
    | Ok (Some l) => (st =? 0) && (a =? rlen l) && (b =? cur l) && (c =? cp l)
    | Ok None => st =? 3
    | r => st =? status_of r
    end.
Definition check_jslex := mismatches jslex_ok.

From V Require Import C16.JsIdent.
(* js_lexer.RangeOfIdentifier at offset 0: (text, status, Len) *)
Definition jsroi_ok (x : bytes * Z * Z) : bool :=
  let '(t, st, l) := x in
  match jsRangeOfIdentifier ids_sample idc_sample2 t with
  | Ok l' => (st =? 0) && (l =? l')
  | r => st =? status_of r
  end.
Definition check_jsroi := mismatches jsroi_ok.

From V Require Import C16.JsPragma.
(* js_lexer.scanForPragmaArg: (skipSpaceFirst, start, len(pragma), text, status, ok, span text, span start, span len) *)
Definition pragma_ok (x : bool * Z * Z * bytes * Z * bool * bytes * Z * Z) : bool :=
  let '(sk, start, plen, t, st, ok, stext, sstart, slen) := x in
  match scanForPragmaArg js_ws sk start plen t with
  | Ok (Some (s, s0, n)) => (st =? 0) && ok && zlist_eqb s stext && (s0 =? sstart) && (n =? slen)
  | Ok None => (st =? 0) && negb ok
  | r => st =? status_of r
  end.
Definition check_pragma := mismatches pragma_ok.

From V Require Import C16.ClosingTag.
(* helpers.EscapeClosingTag: (slashTag, text, status, output) *)
Definition closingtag_ok (c : bytes * bytes * Z * bytes) : bool :=
  let '(tag, t, st, out) := c in
  match EscapeClosingTag tag t with
  | Ok o => (st =? 0) && zlist_eqb o out
  | x => st =? status_of x
  end.
Definition check_closingtag := mismatches closingtag_ok.
