(* C16/C13 glue: after helpers.EscapeClosingTag no '<' followed by the tag is left,
   for every tag that starts with '/' and contains no '<' ("/script", "/style"). *)
From V Require Import Common.Base C16.Checked C16.Spec C16.ClosingTag C16.ClosingTagProofs.

Definition no_lt (l : list Z) : bool := forallb (fun c => negb (c =? 60)) l.

(* does '<' followed by a case-insensitive occurrence of the tag occur anywhere? *)
Fixpoint has_closing (tag t : list Z) : bool :=
  match t with
  | [] => false
  | c :: r => ((c =? 60) && starts_fold tag r) || has_closing tag r
  end.

Lemma fold_eq_length a b : fold_eq a b = true -> length a = length b.
Proof.
  revert b; induction a as [|x a IH]; intros [|y b]; cbn [fold_eq length]; try discriminate; [reflexivity|].
  intros H. apply andb_prop in H as [_ H]. f_equal. now apply IH.
Qed.

Lemma fold_eq_no_lt a b : fold_eq a b = true -> no_lt b = true -> no_lt a = true.
Proof.
  revert b; induction a as [|x a IH]; intros [|y b]; cbn [fold_eq no_lt forallb]; try discriminate; [reflexivity|].
  intros H Hb. apply andb_prop in H as [H1 H2]. apply andb_prop in Hb as [Hb1 Hb2].
  apply andb_true_intro; split; [|exact (IH b H2 Hb2)].
  unfold lower in H1.
  destruct ((65 <=? x) && (x <=? 90)) eqn:Ex; destruct ((65 <=? y) && (y <=? 90)) eqn:Ey; lia.
Qed.

Lemma firstn_esc_no_lt tag n : forall r,
  no_lt (firstn n (esc_spec tag r)) = true -> firstn n (esc_spec tag r) = firstn n r.
Proof.
  induction n as [|n IH]; intros r; [reflexivity|].
  destruct r as [|c r']; [reflexivity|]. cbn [esc_spec].
  destruct ((c =? 60) && _ && starts_fold tag r') eqn:E.
  - cbn [firstn no_lt forallb]. intros H. apply andb_prop in H as [H _].
    apply andb_prop in E as [E _]. apply andb_prop in E as [E _]. lia.
  - cbn [firstn no_lt forallb]. intros H. apply andb_prop in H as [_ H]. f_equal. now apply IH.
Qed.

Lemma starts_fold_esc tag r : no_lt tag = true ->
  starts_fold tag (esc_spec tag r) = true -> starts_fold tag r = true.
Proof.
  unfold starts_fold. intros Ht H. apply andb_prop in H as [_ H].
  pose proof (fold_eq_no_lt _ _ H Ht) as Hn.
  pose proof (fold_eq_length _ _ H) as Hl.
  rewrite (firstn_esc_no_lt tag _ r Hn) in H, Hl.
  rewrite H, andb_true_r. rewrite firstn_length in Hl. unfold len. lia.
Qed.

Lemma starts_fold_head tag' r : starts_fold (47 :: tag') r = true -> exists r', r = 47 :: r'.
Proof.
  unfold starts_fold. intros H. apply andb_prop in H as [_ H].
  destruct r as [|d r']; cbn [length firstn fold_eq] in H; [discriminate|].
  apply andb_prop in H as [H _]. unfold lower in H.
  destruct ((65 <=? d) && (d <=? 90)) eqn:E; cbn in H; [lia|]. exists r'. f_equal. lia.
Qed.

Lemma esc_no_closing tag' t : no_lt tag' = true ->
  has_closing (47 :: tag') (esc_spec (47 :: tag') t) = false.
Proof.
  intros Ht. assert (Ht2 : no_lt (47 :: tag') = true) by (unfold no_lt in *; cbn [forallb]; rewrite Ht; reflexivity).
  induction t as [|c r IH]; [reflexivity|]. cbn [esc_spec].
  destruct ((c =? 60) && _ && starts_fold (47 :: tag') r) eqn:E.
  - cbn [has_closing]. rewrite IH.
    destruct (starts_fold (47 :: tag') (92 :: esc_spec (47 :: tag') r)) eqn:S.
    + apply starts_fold_head in S as [r' S]. discriminate.
    + rewrite andb_false_r. reflexivity.
  - cbn [has_closing]. rewrite IH, orb_false_r.
    destruct (c =? 60) eqn:Ec; [|reflexivity]. cbn [andb] in *.
    destruct (starts_fold (47 :: tag') (esc_spec (47 :: tag') r)) eqn:S; [|reflexivity].
    apply (starts_fold_esc _ _ Ht2) in S. rewrite S, andb_true_r in E.
    destruct (starts_fold_head _ _ S) as [r' ->]. discriminate.
Qed.

(* stated on the Go function *)
Lemma EscapeClosingTag_no_closing tag' text : no_lt tag' = true ->
  exists out, EscapeClosingTag (47 :: tag') text = Ok out /\ has_closing (47 :: tag') out = false.
Proof.
  intros Ht. rewrite EscapeClosingTag_is_spec. eexists; split; [reflexivity|]. now apply esc_no_closing.
Qed.

(* the callers' tags meet the hypothesis, and the predicate is not vacuous *)
Example script_tag_ok : no_lt [115;99;114;105;112;116] = true /\ no_lt [115;116;121;108;101] = true /\
  has_closing [47;115;99;114;105;112;116] [97;60;47;83;67;82;73;80;84;62] = true.
Proof. vm_compute. auto. Qed.
