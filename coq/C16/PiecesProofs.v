(* C16 proofs: breakOutputIntoPieces never crashes and never hangs, for every
   output, every key prefix (even empty) and every file/chunk count. *)
From V Require Import Common.Base C16.Checked C16.Pieces.

Lemma bytes_index_range l p : forall i, bytes_index l p i = -1 \/ i <= bytes_index l p i.
Proof.
  induction l as [|x r IH]; intros i; cbn [bytes_index].
  - destruct (has_prefix p []); [right; lia|left; reflexivity].
  - destruct (has_prefix p (x :: r)); [right; lia|].
    destruct (IH (i + 1)) as [E|E]; [left; exact E|right; lia].
Qed.

Lemma digits_ok js output start boundary : forall index,
  0 <= start -> start + 9 <= len output -> Forall (fun j => 0 <= j < 9) js ->
  exists b i, digits js output start boundary index = Ok (b, i) /\ (b = boundary \/ b = -1).
Proof.
  induction js as [|j r IH]; intros index Hs Hl Hj; cbn [digits].
  - eexists; eexists; split; [reflexivity|left; reflexivity].
  - inversion Hj as [|? ? Hj1 Hj2]; subst.
    destruct (idx_ok' output (start + j) ltac:(lia)) as [c ->]. cbn [bind].
    destruct ((c <? 48) || (57 <? c)).
    + eexists; eexists; split; [reflexivity|right; reflexivity].
    + apply IH; assumption.
Qed.

Lemma bloop_total fuel : forall output prefix nfiles nchunks acc,
  (length output < fuel)%nat -> exists r, bloop fuel output prefix nfiles nchunks acc = Ok r.
Proof.
  induction fuel as [|f IH]; intros output prefix nfiles nchunks acc Hf; [lia|].
  cbn [bloop].
  pose proof (len_nonneg prefix) as Hp.
  destruct (bytes_index_range output prefix 0) as [Eb|Eb].
  { rewrite Eb. cbn [Z.eqb bind]. change (-1 =? -1) with true. cbn [bind].
    change (0 =? 1) with false. change (0 =? 2) with false. cbv iota. change (-1 =? -1) with true. cbv iota.
    eexists; reflexivity. }
  set (boundary := bytes_index output prefix 0) in *.
  destruct (boundary =? -1) eqn:E1.
  { cbn [bind]. change (0 =? 1) with false. change (0 =? 2) with false. cbv iota. change (-1 =? -1) with true. cbv iota.
    eexists; reflexivity. }
  destruct (len output <? boundary + len prefix + 9) eqn:E2.
  { cbn [bind]. change (0 =? 1) with false. change (0 =? 2) with false. cbv iota. change (-1 =? -1) with true. cbv iota.
    eexists; reflexivity. }
  destruct (idx_ok' output (boundary + len prefix) ltac:(lia)) as [c ->]. cbn [bind].
  destruct (digits_ok [1;2;3;4;5;6;7;8] output (boundary + len prefix) boundary 0)
    as (b & i & Ed & Hb); [lia|lia|repeat constructor; lia|].
  rewrite Ed. cbn [bind].
  remember (if c =? 65 then 1 else if c =? 67 then 2 else 0) as kind eqn:Ek. clear Ek.
  match goal with
  | |- context [upto output ?x] =>
    assert (Hx : x = -1 \/ x = boundary);
      [ destruct (kind =? 1);
        [ destruct (wrap_u32 nfiles <=? i)
        | destruct (kind =? 2); [ destruct (wrap_u32 nchunks <=? i) | ] ];
        destruct Hb as [Hb|Hb]; rewrite ?Hb; auto
      | set (bd := x) in *; clearbody bd ]
  end.
  destruct Hx as [-> | ->].
  - change (-1 =? -1) with true. cbv iota. eexists; reflexivity.
  - rewrite E1. rewrite upto_ok by lia. cbn [bind]. rewrite from_ok by lia. cbn [bind].
    apply IH. rewrite skipn_length. unfold len in *. lia.
Qed.

Lemma breakOutputIntoPieces_total output prefix nfiles nchunks :
  safe (breakOutputIntoPieces output prefix nfiles nchunks).
Proof. unfold breakOutputIntoPieces, safe. apply bloop_total. lia. Qed.
