(* C16 proofs: DecodeVLQUTF16 and the mappings loop never crash and never hang,
   for every sequence of units and every offset/length parameter. *)
From V Require Import Common.Base C16.Checked C16.Vlq16.

Lemma vlq_loop_spec fuel : forall enc current shift vlq,
  0 <= current <= len enc -> (Z.to_nat (len enc - current) < fuel)%nat ->
  exists v i ok, vlq_loop fuel enc current shift vlq = Ok (v, i, ok) /\
                 (ok = true -> current + 1 <= i <= len enc) /\ (ok = false -> i = 0).
Proof.
  induction fuel as [|f IH]; intros enc current shift vlq Hc Hf; [lia|].
  cbn [vlq_loop].
  destruct (len enc <=? current) eqn:E1.
  { exists 0, 0, false. split; [reflexivity|split; [discriminate|reflexivity]]. }
  destruct (idx_ok' enc current ltac:(lia)) as [u ->]. cbn [bind].
  destruct (index_byte base64 (u mod 256) 0 <? 0).
  { exists 0, 0, false. split; [reflexivity|split; [discriminate|reflexivity]]. }
  destruct (Z.land (index_byte base64 (u mod 256) 0) 32 =? 0).
  - eexists; eexists; exists true. split; [reflexivity|]. split; [intros _; lia|discriminate].
  - destruct (IH enc (current + 1) (shift + 5)
                 (Z.lor vlq (shl32 (Z.land (index_byte base64 (u mod 256) 0) 31) shift)))
      as (v & i & ok & E & H1 & H2); [lia|lia|].
    exists v, i, ok. split; [exact E|]. split; [intros Hk; specialize (H1 Hk); lia|exact H2].
Qed.

Lemma DecodeVLQUTF16_spec enc :
  exists v i ok, DecodeVLQUTF16 enc = Ok (v, i, ok) /\
                 (ok = true -> 1 <= i <= len enc) /\ (ok = false -> i = 0).
Proof.
  unfold DecodeVLQUTF16. destruct (len enc =? 0) eqn:E.
  - exists 0, 0, false. split; [reflexivity|split; [discriminate|reflexivity]].
  - destruct (vlq_loop_spec (S (length enc)) enc 0 0 0) as (v & i & ok & Ev & H1 & H2).
    + pose proof (len_nonneg enc); lia.
    + unfold len; lia.
    + exists v, i, ok. split; [exact Ev|]. split; [intros Hk; specialize (H1 Hk); lia|exact H2].
Qed.

Section LoopProofs.
  Variable raw : list Z.
  Variables lineOffset columnOffset sourceOffset nameOffset sourcesLen namesLen : Z.

  Let n := len raw.

  Lemma len_suffix i : 0 <= i <= n -> len (skipn (Z.to_nat i) raw) = n - i.
  Proof. intros H. rewrite len_skipn. unfold n in *. lia. Qed.

  Ltac finish := eexists; reflexivity.

  (* decode at position [cur] (0 <= cur <= n): never crashes; consumed width within the rest *)
  Ltac step_dec cur d i ok E H1 H2 :=
    rewrite (from_ok raw cur) by (fold n; lia); cbn [bind];
    destruct (DecodeVLQUTF16_spec (skipn (Z.to_nat cur) raw)) as (d & i & ok & E & H1 & H2);
    rewrite E; cbn [bind];
    rewrite (len_suffix cur) in H1 by lia.

  Lemma mloop_total fuel : forall st current acc,
    0 <= current <= n -> (Z.to_nat (n - current) < fuel)%nat ->
    exists r, mloop raw lineOffset columnOffset sourceOffset nameOffset sourcesLen namesLen fuel st current acc = Ok r.
  Proof.
    induction fuel as [|f IH]; intros st current acc Hc Hf; [lia|].
    cbn [mloop]. fold n.
    destruct (current <? n) eqn:E0; cbn [negb]; [|finish].
    destruct (idx_ok' raw current ltac:(fold n; lia)) as [c0 ->]. cbn [bind].
    destruct (c0 =? 59); [apply IH; lia|].
    step_dec current d1 i1 ok1 E1 H1 H1'.
    destruct ok1; cbn [negb]; [specialize (H1 eq_refl)|finish].
    match goal with |- context [if ?c then _ else _] => destruct c; [finish|] end.
    destruct (current + i1 =? n) eqn:E2; [finish|].
    destruct (idx_ok' raw (current + i1) ltac:(fold n; lia)) as [c1 ->]. cbn [bind].
    destruct (c1 =? 44); [apply IH; lia|].
    destruct (c1 =? 59); [apply IH; lia|].
    step_dec (current + i1) d2 i2 ok2 E3 H2 H2'.
    destruct ok2; cbn [negb]; [specialize (H2 eq_refl)|finish].
    match goal with |- context [if ?c then _ else _] => destruct c; [finish|] end.
    step_dec (current + i1 + i2) d3 i3 ok3 E4 H3 H3'.
    destruct ok3; cbn [negb]; [specialize (H3 eq_refl)|finish].
    match goal with |- context [if ?c then _ else _] => destruct c; [finish|] end.
    step_dec (current + i1 + i2 + i3) d4 i4 ok4 E5 H4 H4'.
    destruct ok4; cbn [negb]; [specialize (H4 eq_refl)|finish].
    match goal with |- context [if ?c then _ else _] => destruct c; [finish|] end.
    step_dec (current + i1 + i2 + i3 + i4) d5 i5 ok5 E6 H5 H5'.
    destruct ok5; cbn [andb].
    - specialize (H5 eq_refl).
      match goal with |- context [if ?c then _ else _] => destruct c; [finish|] end.
      destruct (current + i1 + i2 + i3 + i4 + i5 <? n) eqn:E7; [|apply IH; lia].
      destruct (idx_ok' raw (current + i1 + i2 + i3 + i4 + i5) ltac:(fold n; lia)) as [c2 ->]. cbn [bind].
      destruct (c2 =? 44); [apply IH; lia|].
      destruct (c2 =? 59); cbn [negb]; [apply IH; lia|].
      rewrite slice_ok by (fold n; lia). cbn [bind]. finish.
    - destruct (current + i1 + i2 + i3 + i4 <? n) eqn:E7; [|apply IH; lia].
      destruct (idx_ok' raw (current + i1 + i2 + i3 + i4) ltac:(fold n; lia)) as [c2 ->]. cbn [bind].
      destruct (c2 =? 44); [apply IH; lia|].
      destruct (c2 =? 59); cbn [negb]; [apply IH; lia|].
      rewrite slice_ok by (fold n; lia). cbn [bind]. finish.
  Qed.
End LoopProofs.

Lemma psections_total secs : forall k nsrc nnames acc, exists r, psections secs k nsrc nnames acc = Ok r.
Proof.
  induction secs as [|[[[[lo co] sl] nl] raw] rest IH]; intros k nsrc nnames acc.
  - cbn [psections]. eexists; reflexivity.
  - cbn [psections]. destruct ((len raw =? 0) || (sl =? 0)); [apply IH|].
    destruct (mloop_total raw lo co (wrap_i32 nsrc) (wrap_i32 nnames) sl nl (S (length raw))
                (mkM lo co (wrap_i32 nsrc) 0 0 (wrap_i32 nnames)) 0 acc) as [r ->].
    + pose proof (len_nonneg raw); lia.
    + unfold len; lia.
    + cbn [bind]. destruct r; [eexists; reflexivity|apply IH].
Qed.

Lemma DecodeVLQUTF16_total enc : safe (DecodeVLQUTF16 enc).
Proof. destruct (DecodeVLQUTF16_spec enc) as (v & i & ok & E & _). exists (v, i, ok). exact E. Qed.

Lemma DecodeVLQUTF16_progress enc v i :
  DecodeVLQUTF16 enc = Ok (v, i, true) -> 1 <= i <= len enc.
Proof.
  intros E. destruct (DecodeVLQUTF16_spec enc) as (v' & i' & ok' & E' & H1 & _).
  rewrite E in E'. inversion E'; subst. apply H1. reflexivity.
Qed.

Lemma DecodeVLQUTF16_int32 enc v i ok :
  DecodeVLQUTF16 enc = Ok (v, i, ok) -> True.
Proof. trivial. Qed.

Lemma ParseMappings_total secs : safe (ParseMappings secs).
Proof. unfold ParseMappings, safe. apply psections_total. Qed.

(* ---- the parsed map only contains indices that are in range ---- *)
(* a mapping is good for (ns, nn): what the printer and linker index with *)
Definition good_mapping (ns nn : Z) (m : mapping) : Prop :=
  let '(_, gcol, src, oline, ocol, name) := m in
  0 <= gcol /\ 0 <= src < ns /\ 0 <= oline /\ 0 <= ocol /\ (name = -1 \/ 0 <= name < nn).

Lemma good_mapping_mono ns nn ns' nn' m : ns <= ns' -> nn <= nn' -> good_mapping ns nn m -> good_mapping ns' nn' m.
Proof. destruct m as [[[[[a b] c] d] e] f]. unfold good_mapping. intros. lia. Qed.

Lemma wrap_i32_id x : - 2 ^ 31 <= x < 2 ^ 31 -> wrap_i32 x = x.
Proof. intros H. unfold wrap_i32. rewrite Z.mod_small by lia. lia. Qed.

Section LoopInv.
  Variable raw : list Z.
  Variables lineOffset columnOffset sourceOffset nameOffset sourcesLen namesLen : Z.
  Hypothesis HSO : 0 <= sourceOffset. Hypothesis HSL : 0 <= sourcesLen.
  Hypothesis HS : sourceOffset + sourcesLen < 2 ^ 31.
  Hypothesis HNO : 0 <= nameOffset. Hypothesis HNL : 0 <= namesLen.
  Hypothesis HN : nameOffset + namesLen < 2 ^ 31.

  Let good := good_mapping (sourceOffset + sourcesLen) (nameOffset + namesLen).
  Definition post (r : mresult) : Prop :=
    match r with MErr _ _ _ _ => True | MDone _ acc => Forall good acc end.

  Ltac step :=
    match goal with
    | |- forall r, bind ?e _ = Ok r -> _ =>
      let v := fresh "v" in destruct e as [v| |] eqn:?; cbn [bind];
                            [|intros ? ?; discriminate|intros ? ?; discriminate]
    | |- forall r, (let '(_, _) := ?p in _) = Ok r -> _ => destruct p
    | |- forall r, (if ?c then _ else _) = Ok r -> _ => destruct c eqn:?
    | |- forall r, Ok _ = Ok r -> _ =>
      let H := fresh in intros ? H; inversion H; subst; clear H; cbn [post]
    end.

  Lemma mloop_post fuel : forall st current acc, Forall good acc ->
    forall r, mloop raw lineOffset columnOffset sourceOffset nameOffset sourcesLen namesLen fuel st current acc = Ok r -> post r.
  Proof.
    induction fuel as [|f IH]; intros st current acc Hacc; [intros r H; discriminate|].
    cbn [mloop].
    assert (Wsl : wrap_i32 sourcesLen = sourcesLen) by (apply wrap_i32_id; lia).
    assert (Wnl : wrap_i32 namesLen = namesLen) by (apply wrap_i32_id; lia).
    assert (Ws : wrap_i32 (sourceOffset + sourcesLen) = sourceOffset + sourcesLen) by (apply wrap_i32_id; lia).
    assert (Wn : wrap_i32 (nameOffset + namesLen) = nameOffset + namesLen) by (apply wrap_i32_id; lia).
    rewrite Wsl, Wnl, Ws, Wn.
    repeat (first [ step | (apply IH; assumption) | exact I | exact Hacc ]).
    all: apply IH; constructor; [|assumption]; unfold good, good_mapping;
      repeat match goal with
             | b : bool |- _ => match goal with |- context [if b then _ else _] => destruct b end
             end;
      cbn [negb andb orb] in *; lia.
  Qed.
End LoopInv.

Definition sections_ok (secs : list section) : Prop :=
  Forall (fun s => let '(_, _, sl, nl, _) := s in 0 <= sl /\ 0 <= nl) secs.
Fixpoint total_sources (secs : list section) : Z :=
  match secs with [] => 0 | (_, _, sl, _, _) :: r => sl + total_sources r end.
Fixpoint total_names (secs : list section) : Z :=
  match secs with [] => 0 | (_, _, _, nl, _) :: r => nl + total_names r end.

Lemma total_sources_nonneg secs : sections_ok secs -> 0 <= total_sources secs /\ 0 <= total_names secs.
Proof.
  induction 1 as [|[[[[lo co] sl] nl] raw] r H _ IH]; cbn [total_sources total_names]; cbv beta iota in *; lia.
Qed.

Lemma psections_post secs : forall k nsrc nnames acc r,
  sections_ok secs -> 0 <= nsrc -> 0 <= nnames ->
  nsrc + total_sources secs < 2 ^ 31 -> nnames + total_names secs < 2 ^ 31 ->
  Forall (good_mapping nsrc nnames) acc ->
  psections secs k nsrc nnames acc = Ok r ->
  match r with
  | PMap ns nn ms => Forall (good_mapping ns nn) ms
  | _ => True
  end.
Proof.
  induction secs as [|[[[[lo co] sl] nl] raw] rest IH]; intros k nsrc nnames acc r Hok Hs Hn Hts Htn Hacc E.
  - cbn [psections] in E. inversion E; subst; clear E.
    match goal with |- context [if ?c then _ else _] => destruct c end; [exact I|]. apply Forall_rev. exact Hacc.
  - inversion Hok as [|? ? Hhd Hrest]; subst. cbv beta iota in Hhd. destruct Hhd as [Hsl Hnl].
    destruct (total_sources_nonneg rest Hrest) as [T1 T2].
    cbn [total_sources total_names] in Hts, Htn.
    cbn [psections] in E. destruct ((len raw =? 0) || (sl =? 0)) eqn:Esk.
    + (* skipped section: the counts do not change (sl may be non-zero when the mappings are empty) *)
      eapply IH; [exact Hrest|exact Hs|exact Hn| | |exact Hacc|exact E]; lia.
    + rewrite (wrap_i32_id nsrc) in E by lia. rewrite (wrap_i32_id nnames) in E by lia.
      destruct (mloop raw lo co nsrc nnames sl nl (S (length raw)) (mkM lo co nsrc 0 0 nnames) 0 acc) as [mr| |] eqn:Em;
        cbn [bind] in E; try discriminate.
      pose proof (mloop_post raw lo co nsrc nnames sl nl Hs Hsl ltac:(lia) Hn Hnl ltac:(lia) (S (length raw))
                    (mkM lo co nsrc 0 0 nnames) 0 acc) as P.
      assert (Hacc' : Forall (good_mapping (nsrc + sl) (nnames + nl)) acc).
      { eapply Forall_impl; [|exact Hacc]. intros m. apply good_mapping_mono; lia. }
      specialize (P Hacc' mr Em). destruct mr as [code v el cur|st' acc'].
      * inversion E; subst. exact I.
      * cbn [post] in P. eapply IH; [exact Hrest| | | | |exact P|exact E]; lia.
Qed.

(* the invariant the printer and the linker rely on: every mapping of a parsed
   source map indexes inside Sources / Names and has non-negative positions *)
Lemma parsed_map_indices_in_range_all secs ns nn ms :
  sections_ok secs -> total_sources secs < 2 ^ 31 -> total_names secs < 2 ^ 31 ->
  ParseMappings secs = Ok (PMap ns nn ms) -> Forall (good_mapping ns nn) ms.
Proof.
  intros Hok Hs Hn E. unfold ParseMappings in E.
  exact (psections_post secs 0 0 0 [] (PMap ns nn ms) Hok ltac:(lia) ltac:(lia) ltac:(lia) ltac:(lia) (Forall_nil _) E).
Qed.
