(* C16 property theorems. This file contains only statements closed by
   [exact lemma] and Print Assumptions.  [total_on dom f] (Spec.v) says: for
   EVERY x in dom, the checked-access run f x is neither Crash (an index/slice
   out of range or an explicit panic) nor Hang (fuel = one unit per loop
   iteration, len+1 given). *)
From V Require Import Common.Base C16.Checked C16.Spec C16.Wtf8 C16.Vlq16 C16.CssNum C16.Pieces C16.Packet C16.CssIdent C16.JsxEntities C16.CssLex C16.Globstar C16.JsLex C16.JsIdent C16.JsPragma
  C16.Proofs C16.Vlq16Proofs C16.GlobstarProofs C16.PanicSites C16.DecodeLoops.
From V Require Import gen.PanicSitesGen gen.DecodeLoopsGen.
From V Require Import C16.ClosingTag C16.ClosingTagProofs C16.ClosingTagNoTag.
From Coq Require Import String.

(* helpers.DecodeWTF8Rune: every list of integers, whatever width is returned on truncation *)
Theorem decoder_total_DecodeWTF8Rune : forall tw, total_on (fun _ => True) (DecodeWTF8Rune_gen tw).
Proof. exact total_DecodeWTF8Rune. Qed.
Print Assumptions decoder_total_DecodeWTF8Rune.

(* ... the current decoder consumes between 1 and len bytes of every non-empty byte string
   (the progress every consuming loop needs; violated before fix 8cccdcd) *)
Theorem DecodeWTF8Rune_progress : progresses all_bytes DecodeWTF8Rune.
Proof. exact progress_DecodeWTF8Rune. Qed.
Print Assumptions DecodeWTF8Rune_progress.

Theorem DecodeWTF8Rune_code_point : forall s c w, all_bytes s -> s <> [] ->
  DecodeWTF8Rune s = Ok (c, w) -> is_code_point c /\ 1 <= w <= 4.
Proof. exact code_point_DecodeWTF8Rune. Qed.
Print Assumptions DecodeWTF8Rune_code_point.

(* helpers.internalQuote (QuoteForJSON / QuoteSingle): every byte string, both modes, every quote character *)
Theorem decoder_total_internalQuote : forall asciiOnly q, total_on all_bytes (fun text => internalQuote text asciiOnly q).
Proof. exact total_internalQuote. Qed.
Print Assumptions decoder_total_internalQuote.

(* the repaired defect C16-truncated-utf8-hang, kept visible: with the OLD decoder (width 0 on a
   truncated sequence) the run on the text [0xC3] is Hang for EVERY amount of fuel, in both modes *)
Theorem internalQuote_total_refuted_for_old_decoder : forall fuel q,
  internalQuote_fuel DecodeWTF8Rune_old [195] false q fuel = Hang /\
  internalQuote_fuel DecodeWTF8Rune_old [195] true q fuel = Hang.
Proof. exact old_decoder_hangs. Qed.
Print Assumptions internalQuote_total_refuted_for_old_decoder.

(* sourcemap.DecodeVLQUTF16: every unit sequence (int32 wrap explicit) *)
Theorem decoder_total_DecodeVLQUTF16 : total_on (fun _ => True) DecodeVLQUTF16.
Proof. exact total_DecodeVLQUTF16. Qed.
Print Assumptions decoder_total_DecodeVLQUTF16.

Theorem DecodeVLQUTF16_progress : forall enc v i, DecodeVLQUTF16 enc = Ok (v, i, true) -> 1 <= i <= len enc.
Proof. exact progress_DecodeVLQUTF16. Qed.
Print Assumptions DecodeVLQUTF16_progress.

(* the mappings loop of ParseSourceMap over any list of sections: every unit
   sequence, every line/column offset and every sources/names length *)
Theorem decoder_total_sourcemap_mappings : total_on (fun _ => True) ParseMappings.
Proof. exact total_ParseMappings. Qed.
Print Assumptions decoder_total_sourcemap_mappings.

(* the invariant that the printer (ChunkBuilder.appendMapping, SourceMap.Find) and the linker index with:
   every mapping of a parsed source map has 0 <= source < len(Sources), name absent or
   0 <= name < len(Names), and non-negative generated column / original line / original column -
   for every list of sections whose raw "sources"/"names" array lengths are non-negative and sum to
   less than 2^31 (JSON arrays; non-string entries COUNT, they become "") *)
Theorem parsed_map_indices_in_range : forall secs ns nn ms,
  sections_ok secs -> total_sources secs < 2 ^ 31 -> total_names secs < 2 ^ 31 ->
  ParseMappings secs = Ok (PMap ns nn ms) -> Forall (good_mapping ns nn) ms.
Proof. exact parsed_map_indices_in_range_all. Qed.
Print Assumptions parsed_map_indices_in_range.

(* css parseHex: every rune sequence; the value stays a uint32 *)
Theorem decoder_total_parseHex : forall runes, exists v ok, parseHex runes = Ok (v, ok) /\ 0 <= v < 2 ^ 32.
Proof. exact total_parseHex. Qed.
Print Assumptions decoder_total_parseHex.

(* css mangleNumber / shiftDot: every byte string (and every dot offset) *)
Theorem decoder_total_mangleNumber : total_on (fun _ => True) mangleNumber.
Proof. exact total_mangleNumber. Qed.
Print Assumptions decoder_total_mangleNumber.

Theorem decoder_total_shiftDot : forall dotOffset, total_on (fun _ => True) (fun t => shiftDot t dotOffset).
Proof. exact total_shiftDot. Qed.
Print Assumptions decoder_total_shiftDot.

(* linker breakOutputIntoPieces: every output, every key prefix, every file/chunk count *)
Theorem decoder_total_breakOutputIntoPieces : forall prefix nfiles nchunks,
  total_on (fun _ => True) (fun output => breakOutputIntoPieces output prefix nfiles nchunks).
Proof. exact total_breakOutputIntoPieces. Qed.
Print Assumptions decoder_total_breakOutputIntoPieces.

(* stdio protocol decodePacket: it is NOT crash-free (decodePacket_total_refuted below), but for every byte
   string it terminates: each array/map iteration and each nested visit consumes at least the kind byte *)
Theorem decodePacket_never_hangs_partial : forall bs, all_bytes bs -> decodePacket bs <> Hang.
Proof. exact decodePacket_no_hang. Qed.
Print Assumptions decodePacket_never_hangs_partial.

(* css_lexer.RangeOfIdentifier (range of an identifier for a diagnostic) with the
   end-of-text test in its scan loop: every byte string *)
Theorem decoder_total_RangeOfIdentifier : total_on all_bytes (RangeOfIdentifier true).
Proof. exact total_RangeOfIdentifier. Qed.
Print Assumptions decoder_total_RangeOfIdentifier.

(* finding C16-css-identifier-range-hang kept visible: WITHOUT the end-of-text test
   (the pinned snapshot) the scan of the one-byte text "x" is Hang for EVERY amount of fuel *)
Theorem RangeOfIdentifier_total_refuted_without_end_test : forall fuel, RangeOfIdentifier_fuel false [120] fuel = Hang.
Proof. exact unguarded_RangeOfIdentifier_hangs. Qed.
Print Assumptions RangeOfIdentifier_total_refuted_without_end_test.

(* the CSS lexer's cursor: step() stays inside the text, never moves backwards, moves forward
   unless at the end, where it yields the eof sentinel (what every consumer loop relies on) *)
Theorem css_lexer_step_progress : forall text l, all_bytes text -> 0 <= cur l <= len text ->
  exists l', step text l = Ok l' /\ cur l <= cur l' <= len text /\
             (cur l < len text -> cur l < cur l') /\ (cur l = len text -> cp l' = eof).
Proof. exact css_step_progress. Qed.
Print Assumptions css_lexer_step_progress.

(* the CSS lexer's escape / string / url / name consumers (on a fresh lexer, as run by the
   correspondence hook): every byte string; each loop iteration returns or strictly decreases
   2*(len - current) + [codePoint <> eof] *)
Theorem decoder_total_css_consumeEscape : total_on all_bytes run_escape.
Proof. exact total_css_consumeEscape. Qed.
Print Assumptions decoder_total_css_consumeEscape.
Theorem decoder_total_css_consumeString : total_on all_bytes run_string.
Proof. exact total_css_consumeString. Qed.
Print Assumptions decoder_total_css_consumeString.
Theorem decoder_total_css_consumeURL : total_on all_bytes run_url.
Proof. exact total_css_consumeURL. Qed.
Print Assumptions decoder_total_css_consumeURL.
Theorem decoder_total_css_consumeName : total_on all_bytes run_name.
Proof. exact total_css_consumeName. Qed.
Print Assumptions decoder_total_css_consumeName.

(* the JS lexer's string / template literal scan inside Lexer.Next (quotes, backslash line
   continuations incl. CRLF, "${") TOGETHER WITH the slice Contents[start+1 : end-suffixLen] that takes
   the literal's text: every byte string; the result is a token or the typed LexerPanic (syntax error) *)
Theorem decoder_total_js_string_template : total_on all_bytes run_jsstring.
Proof. exact total_js_string_template. Qed.
Print Assumptions decoder_total_js_string_template.

(* ... and the same scan re-entered by RescanCloseBraceAsTemplateToken (template middle / tail after "}") *)
Theorem decoder_total_js_template_rescan : total_on (fun t => all_bytes t /\ 1 <= len t) run_jstemplate_tail.
Proof. exact total_js_template_rescan. Qed.
Print Assumptions decoder_total_js_template_rescan.

(* Lexer.ScanRegExp (class brackets, escapes, flags incl. the duplicate-flag scan): every byte string and
   every identifier-continue classification that rejects the eof sentinel *)
Theorem decoder_total_js_ScanRegExp : forall idc, idc eof = false -> total_on all_bytes (run_regexp idc).
Proof. exact total_js_ScanRegExp. Qed.
Print Assumptions decoder_total_js_ScanRegExp.

(* js_lexer.RangeOfIdentifier (identifier / private name with "\u{...}" escapes, for diagnostics) and its
   fallback logger.Source.RangeOfString: every byte string, every identifier classification *)
Theorem decoder_total_js_RangeOfIdentifier : forall ids idc, total_on all_bytes (jsRangeOfIdentifier ids idc).
Proof. exact total_js_RangeOfIdentifier. Qed.
Print Assumptions decoder_total_js_RangeOfIdentifier.
Theorem decoder_total_RangeOfString : total_on (fun _ => True) RangeOfString.
Proof. exact total_RangeOfString. Qed.
Print Assumptions decoder_total_RangeOfString.

(* js_lexer.scanForPragmaArg (argument of "//# sourceMappingURL=", "@jsx" ... comment pragmas): every byte
   string that starts with the pragma (0 <= len(pragma) <= len(text), the callers' prefix test), every
   whitespace classification *)
Theorem decoder_total_js_scanForPragmaArg : forall ws skip start plen text,
  all_bytes text -> 0 <= plen <= len text ->
  scanForPragmaArg ws skip start plen text <> Crash /\ scanForPragmaArg ws skip start plen text <> Hang.
Proof. exact total_scanForPragmaArg. Qed.
Print Assumptions decoder_total_js_scanForPragmaArg.

(* js_lexer.decodeJSXEntities (JSX text and attribute strings) with the guard "length > 0" in front of
   entity[0]: every byte string, every entity table *)
Theorem decoder_total_decodeJSXEntities : forall lookup, total_on all_bytes (decodeJSXEntities true lookup).
Proof. exact total_decodeJSXEntities. Qed.
Print Assumptions decoder_total_decodeJSXEntities.

(* ... and that guard is necessary: with "length != -1" the empty entity "&;" crashes at entity[0] *)
Theorem decodeJSXEntities_total_refuted_with_weak_guard : forall lookup, decodeJSXEntities false lookup [38; 59] = Crash.
Proof. exact weak_guard_decodeJSXEntities_crashes. Qed.
Print Assumptions decodeJSXEntities_total_refuted_with_weak_guard.

(* stdio protocol: readLengthPrefixedSlice is total on bytes ... *)
Theorem decoder_total_readLengthPrefixedSlice : total_on all_bytes readLengthPrefixedSlice.
Proof. exact total_readLengthPrefixedSlice. Qed.
Print Assumptions decoder_total_readLengthPrefixedSlice.

(* ... but decodePacket is not (truncated packet; the protocol peer is esbuild's own
   JS library and the service is the subject of C20: recorded, not a C16 violation) *)
Theorem decodePacket_total_refuted : exists bs, all_bytes bs /\ decodePacket bs = Crash.
Proof. exact decodePacket_refuted. Qed.
Print Assumptions decodePacket_total_refuted.

(* T8 obligations over the inventory regenerated from the Go sources on every run *)
Theorem every_goroutine_recovers : forall s, In s spawn_sites ->
  runs_parser_or_printer s = true -> exempt s = false ->
  sp_resolved s = true /\ (1 <= sp_recover s)%nat.
Proof. exact every_goroutine_recovers_all. Qed.
Print Assumptions every_goroutine_recovers.

Theorem goroutine_exemptions_are_exactly : map sp_func (filter exempt spawn_sites) = ["ScanBundle"%string] /\
  map sp_func (filter (fun s => runs_parser_or_printer s && Nat.eqb (sp_recover s) 1) spawn_sites)
  = ["linkerContext.generateChunkCSS"%string].
Proof. exact (conj exempt_sites_are conditional_recover_sites_are). Qed.
Print Assumptions goroutine_exemptions_are_exactly.

Theorem lexer_panic_caught_at_entry : forall e, In e lexer_entries -> en_recover_before e = true.
Proof. exact lexer_entries_all. Qed.
Print Assumptions lexer_panic_caught_at_entry.

Theorem lexer_panic_confined : forall p, In p panic_sites -> pa_typed p = true ->
  pa_pkg p = "internal/js_lexer"%string \/ pa_pkg p = "internal/js_parser"%string.
Proof. exact lexer_panic_confined_all. Qed.
Print Assumptions lexer_panic_confined.

(* T8b obligation: every rune-decoder call inside a loop (css_lexer, css_parser, js_lexer, js_parser,
   helpers, logger) is syntactically guarded against a width-0 decode at the end of the input, or is one
   of the three reviewed sites pinned below *)
Theorem every_decode_loop_is_guarded : forall s, In s decode_loop_sites -> unguarded s = true -> reviewed s = true.
Proof. exact decode_loops_all. Qed.
Print Assumptions every_decode_loop_is_guarded.

Theorem unguarded_decode_loops_are_exactly :
  map (fun s => (dl_func s, dl_decoder s)) (filter unguarded decode_loop_sites) =
  [("Lexer.tryToDecodeEscapeSequences", "utf8.DecodeRuneInString");
   ("LineColumnTracker.scanTo", "utf8.DecodeRuneInString");
   ("LineColumnTracker.scanTo", "utf8.DecodeLastRuneInString")]%string.
Proof. exact unguarded_sites_are. Qed.
Print Assumptions unguarded_decode_loops_are_exactly.

(* T8 extended to the API layer and the stdio service: every goroutine of pkg/api, cmd/esbuild, pkg/cli that
   runs a build either defers a recover wrapper or is spawned by one of five pinned functions *)
Theorem service_goroutines_unprotected_are_known : forall s, In s service_spawn_sites -> runs_build s = true ->
  (1 <= sp_recover s)%nat \/ In (sp_func s) known_unprotected_spawners.
Proof. exact service_goroutines_all. Qed.
Print Assumptions service_goroutines_unprotected_are_known.

(* ... and at present none of them has one (a panic in pkg/api or cmd/esbuild code inside such a goroutine
   terminates the process; the parser/printer goroutines below them do recover: every_goroutine_recovers) *)
Theorem every_service_goroutine_recovers_refuted :
  forallb (fun s => Nat.eqb (sp_recover s) 0) service_spawn_sites = true.
Proof. exact service_goroutines_none_recovers. Qed.
Print Assumptions every_service_goroutine_recovers_refuted.

(* resolver.globstarToEscapedRegexp (package.json "sideEffects" globs -> the pattern given to
   regexp.MustCompile): for EVERY byte string the run returns, and the pattern is ^ item* $ where every
   item is an escaped special byte, '.', [^/]*, (?:[^/]*(?:/|$))* or a literal byte that is not special
   in RE2 - balanced and fully escaped.  (Bytes >= 0x80 are copied unchanged: the pattern is valid UTF-8
   only if the glob is - finding C16-regexp-invalid-utf8.) *)
Theorem globstar_regexp_wellformed : forall glob, exists p h, globstarToEscapedRegexp glob = Ok (p, h) /\ wf_pattern p.
Proof. exact globstar_wellformed. Qed.
Print Assumptions globstar_regexp_wellformed.

(* T8: no regexp.MustCompile on a non-constant argument remains (the two that existed panicked on invalid
   UTF-8 and were repaired by dfdee39 / dbc750e); the input-derived patterns go through regexp.Compile *)
Theorem mustcompile_sites_are_exactly : filter nonconst_mustcompile regexp_sites = [] /\
  forallb (fun n => existsb (fun s => String.eqb (re_func s) n && negb (re_must s)) regexp_sites)
          ["resolverQuery.parsePackageJSON"; "Resolver.ResolveGlob"; "validateRegex"; "compileFilter"]%string = true.
Proof. exact (conj mustcompile_sites_none input_patterns_use_compile). Qed.
Print Assumptions mustcompile_sites_are_exactly.

(* helpers.EscapeClosingTag (raw bytes of legal comments, package paths, printed comments;
   tag "/script", "/style" or ""): every tag, every text - the slice text[:len(slashTag)] is
   guarded and every loop iteration consumes at least the '<' it found *)
Theorem decoder_total_EscapeClosingTag : forall tag, total_on (fun _ => True) (EscapeClosingTag tag).
Proof. exact total_EscapeClosingTag. Qed.
Print Assumptions decoder_total_EscapeClosingTag.

(* ... and what it computes: one left-to-right pass that puts a backslash after every '<'
   followed by '/' and an ASCII-case-insensitive occurrence of the tag; nothing else changes *)
Theorem EscapeClosingTag_is_one_pass_spec : forall tag text,
  EscapeClosingTag tag text = Ok (match tag with [] => text | _ => esc_spec tag text end).
Proof. exact EscapeClosingTag_is_spec. Qed.
Print Assumptions EscapeClosingTag_is_one_pass_spec.

(* ... and what it is for: for every tag that starts with '/' and contains no '<' (the callers'
   "/script" and "/style", Example script_tag_ok), NO '<' followed by a case-insensitive occurrence
   of the tag is left anywhere in the output, whatever the text *)
Theorem EscapeClosingTag_leaves_no_closing_tag : forall tag' text, no_lt tag' = true ->
  exists out, EscapeClosingTag (47 :: tag') text = Ok out /\ has_closing (47 :: tag') out = false.
Proof. exact EscapeClosingTag_no_closing. Qed.
Print Assumptions EscapeClosingTag_leaves_no_closing_tag.
