(* C16 model: internal/linker/linker.go breakOutputIntoPieces, with checked
   accesses and fuel.  The output bytes of a chunk contain whatever the input
   files contained (string literals, comments), so the scan for unique-key
   placeholders runs over hostile bytes. *)
From V Require Import Common.Base C16.Checked.

Fixpoint has_prefix (p l : list Z) : bool :=
  match p, l with
  | [], _ => true
  | x :: p', y :: l' => (x =? y) && has_prefix p' l'
  | _ :: _, [] => false
  end.

(* bytes.Index(l, p), counted from i *)
Fixpoint bytes_index (l p : list Z) (i : Z) : Z :=
  if has_prefix p l then i else
  match l with
  | [] => -1
  | _ :: r => bytes_index r p (i + 1)
  end.

(* (data, index, kind)  kind: 0 none, 1 asset, 2 chunk *)
Definition piece := (list Z * Z * Z)%type.

(* for j := 1; j < 9; j++ { c := output[start+j]; if c < '0' || c > '9' { boundary = -1; break }; index = index*10 + uint32(c) - '0' } *)
Fixpoint digits (js : list Z) (output : list Z) (start boundary index : Z) : res (Z * Z) :=
  match js with
  | [] => Ok (boundary, index)
  | j :: r =>
    c <- idx output (start + j) ;;
    if (c <? 48) || (57 <? c) then Ok (-1, index)
    else digits r output start boundary (wrap_u32 (wrap_u32 (index * 10 + c) - 48))
  end.

Fixpoint bloop (fuel : nat) (output prefix : list Z) (nfiles nchunks : Z) (acc : list piece) : res (list piece) :=
  match fuel with
  | O => Hang
  | S f =>
    let boundary := bytes_index output prefix 0 in
    r <- (if boundary =? -1 then Ok (-1, 0, 0) else
          let start := boundary + len prefix in
          if len output <? start + 9 then Ok (-1, 0, 0) else
          c <- idx output start ;;
          let kind := if c =? 65 then 1 else if c =? 67 then 2 else 0 in
          '(b, index) <- digits [1;2;3;4;5;6;7;8] output start boundary 0 ;;
          Ok (b, kind, index)) ;;
    let '(boundary, kind, index) := r in
    let boundary :=
        if kind =? 1 then (if wrap_u32 nfiles <=? index then -1 else boundary)
        else if kind =? 2 then (if wrap_u32 nchunks <=? index then -1 else boundary)
        else -1 in
    if boundary =? -1 then Ok (rev ((output, 0, 0) :: acc)) else
    d <- upto output boundary ;;
    rest <- from output (boundary + len prefix + 9) ;;
    bloop f rest prefix nfiles nchunks ((d, index, kind) :: acc)
  end.

Definition breakOutputIntoPieces (output prefix : list Z) (nfiles nchunks : Z) : res (list piece) :=
  bloop (S (length output)) output prefix nfiles nchunks [].
