(* C16 proofs: js RangeOfIdentifier and Source.RangeOfString never crash and never hang. *)
From V Require Import Common.Base C16.Checked C16.Wtf8 C16.Wtf8Proofs C16.CssIdent C16.CssIdentProofs C16.JsIdent.

Lemma ros_loop_ok fuel : forall text quote tmpl i, 0 <= i -> (Z.to_nat (len text - i) < fuel)%nat ->
  exists r, ros_loop fuel text quote tmpl i = Ok r.
Proof.
  induction fuel as [|f IH]; intros text quote tmpl i Hi Hf; [lia|].
  cbn [ros_loop]. destruct (i <? len text) eqn:E; [|eexists; reflexivity].
  destruct (idx_ok' text i ltac:(lia)) as [c ->]. cbn [bind].
  destruct (c =? quote); [eexists; reflexivity|].
  destruct (c =? 92); [apply IH; lia|].
  destruct (tmpl && (c =? 36) && (i + 1 <? len text)) eqn:E2; [|apply IH; lia].
  destruct (idx_ok' text (i + 1) ltac:(lia)) as [c1 ->]. cbn [bind].
  destruct (c1 =? 123); [eexists; reflexivity|apply IH; lia].
Qed.

Lemma RangeOfString_total text : safe (RangeOfString text).
Proof.
  unfold RangeOfString, safe. destruct (len text =? 0) eqn:E0; [eexists; reflexivity|].
  pose proof (len_nonneg text).
  destruct (idx_ok' text 0 ltac:(lia)) as [q ->]. cbn [bind].
  assert (H1 : exists r1, (if (q =? 34) || (q =? 39) then ros_loop (S (length text)) text q false 1 else Ok None) = Ok r1).
  { destruct ((q =? 34) || (q =? 39)); [apply ros_loop_ok; [lia|unfold len; lia]|eexists; reflexivity]. }
  destruct H1 as [r1 ->]. cbn [bind]. destruct r1; [eexists; reflexivity|].
  assert (H2 : exists r2, (if q =? 96 then ros_loop (S (length text)) text q true 1 else Ok None) = Ok r2).
  { destruct (q =? 96); [apply ros_loop_ok; [lia|unfold len; lia]|eexists; reflexivity]. }
  destruct H2 as [r2 ->]. cbn [bind]. destruct r2; eexists; reflexivity.
Qed.

Section JsROIProofs.
  Variables ids idc : Z -> bool.
  Variable text : list Z.
  Hypothesis Hb : bytes_ok text.
  Let n := len text.

  Lemma brace_loop_ok fuel : forall i, 0 <= i <= n -> (Z.to_nat (n - i) < fuel)%nat ->
    exists j, brace_loop fuel text i = Ok j /\ i <= j <= n.
  Proof.
    induction fuel as [|f IH]; intros i Hi Hf; [lia|].
    cbn [brace_loop]. fold n. destruct (i <? n) eqn:E; [|exists i; split; [reflexivity|lia]].
    destruct (idx_ok' text i ltac:(fold n; lia)) as [c ->]. cbn [bind].
    destruct (c =? 125); [exists (i + 1); split; [reflexivity|lia]|].
    destruct (IH (i + 1)) as (j & Ej & Hj); [lia|lia|]. exists j. split; [exact Ej|lia].
  Qed.

  Lemma jroi_loop_ok fuel : forall i, 0 <= i <= n -> (Z.to_nat (n - i) < fuel)%nat ->
    exists r, jroi_loop idc fuel text i = Ok r.
  Proof.
    induction fuel as [|f IH]; intros i Hi Hf; [lia|].
    cbn [jroi_loop]. fold n. destruct (i <? n) eqn:E; [|eexists; reflexivity].
    rewrite from_ok by (fold n; lia). cbn [bind].
    destruct (utf8_decode_any text i Hb ltac:(fold n; lia)) as (c2 & w2 & -> & Hw & Hw1).
    fold n in Hw, Hw1. specialize (Hw1 ltac:(lia)).
    destruct (c2 =? 92).
    - destruct (i + w2 + 2 <? n) eqn:E2; [|apply IH; lia].
      destruct (idx_ok' text (i + w2) ltac:(fold n; lia)) as [a ->].
      destruct (idx_ok' text (i + w2 + 1) ltac:(fold n; lia)) as [b ->]. cbn [bind].
      destruct ((a =? 117) && (b =? 123)); [|apply IH; lia].
      destruct (brace_loop_ok (S (length text)) (i + w2 + 2) ltac:(lia)) as (j & -> & Hj); [unfold n, len; lia|].
      cbn [bind]. apply IH; lia.
    - destruct (negb (idc c2)); [eexists; reflexivity|apply IH; lia].
  Qed.

  Lemma jsRangeOfIdentifier_total : safe (jsRangeOfIdentifier ids idc text).
  Proof.
    unfold jsRangeOfIdentifier, safe. fold n. destruct (n =? 0) eqn:E0; [eexists; reflexivity|].
    pose proof (len_nonneg text) as Hn. fold n in Hn.
    rewrite from_ok by (fold n; lia). cbn [bind].
    destruct (utf8_decode _) as [c w].
    assert (H1 : exists i c', (if c =? 35 then t1 <- from text 1 ;; let '(c1, _) := utf8_decode t1 in Ok (1, c1) else Ok (0, c)) = Ok (i, c') /\ 0 <= i <= n).
    { destruct (c =? 35).
      - rewrite from_ok by (fold n; lia). cbn [bind]. destruct (utf8_decode _) as [c1 w1]. exists 1, c1. split; [reflexivity|lia].
      - exists 0, c. split; [reflexivity|lia]. }
    destruct H1 as (i & c' & -> & Hi). cbn [bind].
    destruct (ids c' || (c' =? 92)); [|apply RangeOfString_total].
    destruct (jroi_loop_ok (S (length text)) i Hi) as [r ->]; [unfold n, len; lia|]. cbn [bind].
    destruct r; [eexists; reflexivity|apply RangeOfString_total].
  Qed.
End JsROIProofs.
