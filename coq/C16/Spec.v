(* C16 specification side (independent of esbuild's code).
   The property is a statement about runs: a run must produce a value
   ([Ok]); it must not abort on a run-time check ([Crash]) and must not fail
   to terminate ([Hang]).  For decoders that are called in a consuming loop
   the specification additionally demands PROGRESS: on a non-empty input the
   decoder reports a consumed width of at least one unit and at most the
   input length - otherwise the calling loop cannot terminate / would slice
   out of range.  These are the predicates the theorems in Properties.v are
   stated with. *)
From V Require Import Common.Base C16.Checked.

(* a function from byte strings never crashes and never hangs *)
Definition total_on {A B} (dom : A -> Prop) (f : A -> res B) : Prop :=
  forall x, dom x -> f x <> Crash /\ f x <> Hang.

Definition all_bytes (s : list Z) : Prop := Forall (fun b => 0 <= b < 256) s.
Definition all_units (s : list Z) : Prop := Forall (fun u => 0 <= u < 65536) s.

(* progress of a (value, width) decoder used in a consuming loop *)
Definition progresses {V} (dom : list Z -> Prop) (f : list Z -> res (V * Z)) : Prop :=
  forall s, dom s -> s <> [] -> exists v w, f s = Ok (v, w) /\ 1 <= w <= len s.

(* Unicode: what a WTF-8 decoder may return *)
Definition is_code_point (c : Z) : Prop := 0 <= c <= 1114111.

(* ---- a fully escaped, balanced RE2 pattern (for globstar_regexp_wellformed) ----
   RE2 syntax (https://github.com/google/re2/wiki/Syntax): the bytes with a meaning
   outside a character class are  \ ^ $ . | ? * + ( ) [ ] { } ; any punctuation may be
   escaped with a backslash.  A pattern that is ^ item* $ with the items below parses:
   every group and class is opened and closed inside one item. *)
Definition re_special (c : Z) : bool :=
  (c =? 92) || (c =? 94) || (c =? 36) || (c =? 46) || (c =? 124) || (c =? 63) || (c =? 42) || (c =? 43) ||
  (c =? 40) || (c =? 41) || (c =? 91) || (c =? 93) || (c =? 123) || (c =? 125).

Inductive re_item : list Z -> Prop :=
| re_escaped c : re_special c = true -> re_item [92; c]            (* \c *)
| re_any : re_item [46]                                            (* .  *)
| re_segment : re_item [91;94;47;93;42]                            (* [^/]* *)
| re_globstar : re_item [40;63;58;91;94;47;93;42;40;63;58;47;124;36;41;41;42]   (* (?:[^/]*(?:/|$))* *)
| re_literal c : re_special c = false -> re_item [c].

Definition wf_pattern (p : list Z) : Prop :=
  exists items, Forall re_item items /\ p = [94] ++ concat items ++ [36].
