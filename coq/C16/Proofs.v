(* C16: the lemmas in the exact shape of the property theorems. *)
From V Require Import Common.Base C16.Checked C16.Spec C16.Wtf8 C16.Wtf8Proofs C16.Vlq16 C16.Vlq16Proofs
  C16.CssNum C16.CssNumProofs C16.Pieces C16.PiecesProofs C16.Packet C16.PacketProofs C16.CssIdent C16.CssIdentProofs C16.JsxEntities C16.JsxEntitiesProofs C16.CssLex C16.CssLexProofs C16.Globstar C16.GlobstarProofs C16.JsLex C16.JsLexProofs C16.JsIdent C16.JsIdentProofs C16.JsPragma C16.JsPragmaProofs.

Lemma all_bytes_bytes_ok s : all_bytes s <-> bytes_ok s.
Proof. reflexivity. Qed.

Lemma total_DecodeWTF8Rune : forall tw, total_on (fun _ => True) (DecodeWTF8Rune_gen tw).
Proof.
  intros tw s _. apply safe_not_crash_hang. destruct (decode_gen_total tw s) as [c [w E]]. exists (c, w). exact E.
Qed.

Lemma progress_DecodeWTF8Rune : progresses all_bytes DecodeWTF8Rune.
Proof.
  intros s Hb Hne. destruct (decode_spec s Hne Hb) as (c & w & E & Hw & Hl & _). exists c, w. split; [exact E|lia].
Qed.

Lemma code_point_DecodeWTF8Rune : forall s c w, all_bytes s -> s <> [] -> DecodeWTF8Rune s = Ok (c, w) -> is_code_point c /\ 1 <= w <= 4.
Proof.
  intros s c w Hb Hne E. destruct (decode_spec s Hne Hb) as (c' & w' & E' & Hw & _ & Hc).
  rewrite E in E'. inversion E'; subst. split; [exact Hc|exact Hw].
Qed.

Lemma total_internalQuote : forall asciiOnly q, total_on all_bytes (fun text => internalQuote text asciiOnly q).
Proof. intros ao q text Hb. apply safe_not_crash_hang. exact (internalQuote_total text ao q Hb). Qed.

Lemma old_decoder_hangs : forall fuel q,
  internalQuote_fuel DecodeWTF8Rune_old [195] false q fuel = Hang /\
  internalQuote_fuel DecodeWTF8Rune_old [195] true q fuel = Hang.
Proof. intros fuel q. split; [apply internalQuote_old_hangs_fast | apply qloop_old_hangs_ascii]. Qed.

Lemma total_DecodeVLQUTF16 : total_on (fun _ => True) DecodeVLQUTF16.
Proof. intros enc _. apply safe_not_crash_hang. apply DecodeVLQUTF16_total. Qed.

Lemma progress_DecodeVLQUTF16 : forall enc v i, DecodeVLQUTF16 enc = Ok (v, i, true) -> 1 <= i <= len enc.
Proof. exact DecodeVLQUTF16_progress. Qed.

Lemma total_ParseMappings : total_on (fun _ => True) ParseMappings.
Proof. intros secs _. apply safe_not_crash_hang. apply ParseMappings_total. Qed.

Lemma total_parseHex : forall runes, exists v ok, parseHex runes = Ok (v, ok) /\ 0 <= v < 2 ^ 32.
Proof. exact parseHex_total. Qed.

Lemma total_mangleNumber : total_on (fun _ => True) mangleNumber.
Proof. intros t _. apply safe_not_crash_hang. apply mangleNumber_total. Qed.

Lemma total_shiftDot : forall dotOffset, total_on (fun _ => True) (fun t => shiftDot t dotOffset).
Proof. intros off t _. apply safe_not_crash_hang. apply shiftDot_total. Qed.

Lemma total_breakOutputIntoPieces : forall prefix nfiles nchunks,
  total_on (fun _ => True) (fun output => breakOutputIntoPieces output prefix nfiles nchunks).
Proof. intros p nf nc o _. apply safe_not_crash_hang. apply breakOutputIntoPieces_total. Qed.

Lemma total_readLengthPrefixedSlice : total_on all_bytes readLengthPrefixedSlice.
Proof. intros bs Hb. apply safe_not_crash_hang. apply readLengthPrefixedSlice_total. exact Hb. Qed.

Lemma decodePacket_refuted : exists bs, all_bytes bs /\ decodePacket bs = Crash.
Proof. exists [0; 0; 0; 0]. split; [repeat constructor; lia|exact decodePacket_crash_id_only]. Qed.

Lemma total_RangeOfIdentifier : total_on all_bytes (RangeOfIdentifier true).
Proof. intros t Hb. apply safe_not_crash_hang. apply RangeOfIdentifier_guarded_total. exact Hb. Qed.

Lemma unguarded_RangeOfIdentifier_hangs : forall fuel, RangeOfIdentifier_fuel false [120] fuel = Hang.
Proof. exact RangeOfIdentifier_unguarded_hangs. Qed.

Lemma total_decodeJSXEntities : forall lookup, total_on all_bytes (decodeJSXEntities true lookup).
Proof. intros lk t Hb. apply safe_not_crash_hang. apply decodeJSXEntities_total. exact Hb. Qed.

Lemma weak_guard_decodeJSXEntities_crashes : forall lookup, decodeJSXEntities false lookup [38; 59] = Crash.
Proof. exact decodeJSXEntities_weak_guard_crashes. Qed.

Lemma total_css_consumeEscape : total_on all_bytes run_escape.
Proof. intros t Hb. apply safe_not_crash_hang. apply run_escape_total. exact Hb. Qed.
Lemma total_css_consumeString : total_on all_bytes run_string.
Proof. intros t Hb. apply safe_not_crash_hang. apply run_string_total. exact Hb. Qed.
Lemma total_css_consumeURL : total_on all_bytes run_url.
Proof. intros t Hb. apply safe_not_crash_hang. apply run_url_total. exact Hb. Qed.
Lemma total_css_consumeName : total_on all_bytes run_name.
Proof. intros t Hb. apply safe_not_crash_hang. apply run_name_total. exact Hb. Qed.

(* the progress lemma of the cursor, in the shape used by Properties.v *)
Lemma css_step_progress : forall text l, all_bytes text -> 0 <= cur l <= len text ->
  exists l', step text l = Ok l' /\ cur l <= cur l' <= len text /\
             (cur l < len text -> cur l < cur l') /\ (cur l = len text -> cp l' = eof).
Proof.
  intros text l Hb Hw. destruct (step_spec text Hb l Hw) as (l' & E & Hw' & Hc & Hr & Hm & Hs & Hp).
  exists l'. split; [exact E|]. unfold wf in Hw'. split; [lia|]. split; [exact Hp|].
  intros Heq. unfold step in E. rewrite from_ok in E by lia. cbn [bind] in E.
  rewrite Heq in E. unfold len in E. rewrite Nat2Z.id in E. rewrite skipn_all in E.
  change (utf8_decode []) with (RuneError, 0) in E. cbv beta iota in E. inversion E. reflexivity.
Qed.

Lemma total_js_string_template : total_on all_bytes run_jsstring.
Proof. intros t Hb. apply safe_not_crash_hang. apply run_jsstring_total. exact Hb. Qed.

Lemma total_js_ScanRegExp : forall idc, idc eof = false -> total_on all_bytes (run_regexp idc).
Proof. intros idc He t Hb. apply safe_not_crash_hang. apply run_regexp_total; assumption. Qed.

Lemma total_js_RangeOfIdentifier : forall ids idc, total_on all_bytes (jsRangeOfIdentifier ids idc).
Proof. intros ids idc t Hb. apply safe_not_crash_hang. apply jsRangeOfIdentifier_total. exact Hb. Qed.

Lemma total_RangeOfString : total_on (fun _ => True) RangeOfString.
Proof. intros t _. apply safe_not_crash_hang. apply RangeOfString_total. Qed.

Lemma total_scanForPragmaArg : forall ws skip start plen text,
  all_bytes text -> 0 <= plen <= len text ->
  scanForPragmaArg ws skip start plen text <> Crash /\ scanForPragmaArg ws skip start plen text <> Hang.
Proof. intros. apply safe_not_crash_hang. apply scanForPragmaArg_total; assumption. Qed.

Lemma total_js_template_rescan : total_on (fun t => all_bytes t /\ 1 <= len t) run_jstemplate_tail.
Proof. intros t [Hb Hn]. apply safe_not_crash_hang. apply run_jstemplate_tail_total; assumption. Qed.

Lemma decodePacket_no_hang : forall bs, all_bytes bs -> decodePacket bs <> Hang.
Proof. exact decodePacket_nohang. Qed.
