(* C16 model: internal/resolver/package_json.go globstarToEscapedRegexp (the
   translation of a package.json "sideEffects" glob into the pattern handed to
   regexp.MustCompile), with checked accesses and fuel; bytes are Z. *)
From V Require Import Common.Base C16.Checked.

(* case '\\', '^', '$', '.', '+', '|', '(', ')', '[', ']', '{', '}' *)
Definition gs_escaped (c : Z) : bool :=
  (c =? 92) || (c =? 94) || (c =? 36) || (c =? 46) || (c =? 43) || (c =? 124) ||
  (c =? 40) || (c =? 41) || (c =? 91) || (c =? 93) || (c =? 123) || (c =? 125).

(* "(?:[^/]*(?:/|$))*"  and  "[^/]*" *)
Definition gs_globstar : list Z := [40;63;58;91;94;47;93;42;40;63;58;47;124;36;41;41;42].
Definition gs_segment : list Z := [91;94;47;93;42].

(* for i+1 < n && glob[i+1] == '*' { starCount++; i++ } *)
Fixpoint gs_stars (fuel : nat) (glob : list Z) (i count : Z) : res (Z * Z) :=
  match fuel with
  | O => Hang
  | S f =>
    if i + 1 <? len glob then
      c <- idx glob (i + 1) ;;
      if c =? 42 then gs_stars f glob (i + 1) (count + 1) else Ok (i, count)
    else Ok (i, count)
  end.

Fixpoint gs_loop (fuel : nat) (glob : list Z) (i : Z) (acc : list Z) (had : bool) : res (list Z * bool) :=
  match fuel with
  | O => Hang
  | S f =>
    if negb (i <? len glob) then Ok (acc ++ [36], had) else
    c <- idx glob i ;;
    if gs_escaped c then gs_loop f glob (i + 1) (acc ++ [92; c]) had
    else if c =? 63 then gs_loop f glob (i + 1) (acc ++ [46]) true
    else if c =? 42 then
      prev <- (if 0 <? i then idx glob (i - 1) else Ok (-1)) ;;
      '(i, stars) <- gs_stars (S (length glob)) glob i 1 ;;
      next <- (if i + 1 <? len glob then idx glob (i + 1) else Ok (-1)) ;;
      let isGlobstar := (1 <? stars) && ((prev =? 47) || (prev =? -1)) && ((next =? 47) || (next =? -1)) in
      if isGlobstar then gs_loop f glob (i + 1 + 1) (acc ++ gs_globstar) true
      else gs_loop f glob (i + 1) (acc ++ gs_segment) true
    else gs_loop f glob (i + 1) (acc ++ [c]) had
  end.

Definition globstarToEscapedRegexp (glob : list Z) : res (list Z * bool) :=
  gs_loop (S (length glob)) glob 0 [94] false.
