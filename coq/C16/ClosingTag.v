(* C16: helpers.EscapeClosingTag (internal/helpers/comment.go) with CHECKED slices.
   It receives the raw bytes of legal comments, of package paths and of printed
   comments/strings (js_printer, css_printer, linker.maybeAppendLegalComments) and a
   tag ("/script", "/style" or "").  strings.EqualFold is modelled as ASCII case
   folding of equal-length byte strings, which is exact when the tag is ASCII (a
   non-ASCII rune of the text takes >= 2 bytes, so the rune counts differ and
   EqualFold is false, as is the byte-wise comparison). *)
From V Require Import Common.Base C16.Checked.

(* strings.Index(text, "</"), -1 when absent *)
Fixpoint index_lt_slash (t : list Z) : Z :=
  match t with
  | [] => -1
  | c :: r =>
    if (c =? 60) && (match r with d :: _ => d =? 47 | [] => false end) then 0
    else let k := index_lt_slash r in if k <? 0 then -1 else 1 + k
  end.

Definition lower (c : Z) : Z := if (65 <=? c) && (c <=? 90) then c + 32 else c.
Fixpoint fold_eq (a b : list Z) : bool :=
  match a, b with
  | [], [] => true
  | x :: a', y :: b' => (lower x =? lower y) && fold_eq a' b'
  | _, _ => false
  end.

(* the for loop; b = the strings.Builder, i = the index found last *)
Fixpoint ect_loop (fuel : nat) (tag b text : list Z) (i : Z) : res (list Z) :=
  match fuel with
  | O => Hang
  | S fuel' =>
    pre <- upto text (i + 1) ;;
    text1 <- from text (i + 1) ;;
    let b1 := b ++ pre in
    b2 <- (if len tag <=? len text1 then
             head <- upto text1 (len tag) ;;
             Ok (if fold_eq head tag then b1 ++ [92] else b1)
           else Ok b1) ;;
    let i' := index_lt_slash text1 in
    if i' <? 0 then Ok (b2 ++ text1) else ect_loop fuel' tag b2 text1 i'
  end.

Definition EscapeClosingTag_fuel (fuel : nat) (tag text : list Z) : res (list Z) :=
  match tag with
  | [] => Ok text
  | _ =>
    let i := index_lt_slash text in
    if i <? 0 then Ok text else ect_loop fuel tag [] text i
  end.
Definition EscapeClosingTag (tag text : list Z) : res (list Z) :=
  EscapeClosingTag_fuel (S (length text)) tag text.

(* the specification: one pass, a backslash after every '<' that is followed by '/'
   and by a case-insensitive occurrence of the tag *)
Definition starts_fold (tag r : list Z) : bool :=
  (len tag <=? len r) && fold_eq (firstn (length tag) r) tag.
Fixpoint esc_spec (tag t : list Z) : list Z :=
  match t with
  | [] => []
  | c :: r =>
    if (c =? 60) && (match r with d :: _ => d =? 47 | [] => false end) && starts_fold tag r
    then c :: 92 :: esc_spec tag r else c :: esc_spec tag r
  end.
