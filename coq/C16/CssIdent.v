(* C16 model: internal/css_lexer/css_lexer.go RangeOfIdentifier (the scan that
   computes the source range of an identifier for a diagnostic), with checked
   accesses and fuel.  [guarded] says whether the scan loop tests the end of
   the text ("for i < n"): the pinned snapshot did not (finding
   C16-css-identifier-range-hang, repaired by fix commit e50bb17: at the end of the text
   utf8.DecodeRuneInString returns (RuneError, 0), IsNameContinue(RuneError)
   is true, and the loop never advanced). *)
From V Require Import Common.Base C16.Checked C16.Wtf8.

(* utf8.DecodeRuneInString: as the WTF-8 decoder, but surrogate code points are
   invalid (RuneError, 1); ("", RuneError, 0) *)
Definition utf8_decode (s : list Z) : Z * Z :=
  match DecodeWTF8Rune s with
  | Ok (c, w) => if (55296 <=? c) && (c <=? 57343) then (RuneError, 1) else (c, w)
  | _ => (RuneError, 1)
  end.

Definition IsNameStart (c : Z) : bool :=
  ((97 <=? c) && (c <=? 122)) || ((65 <=? c) && (c <=? 90)) || (c =? 95) || (128 <=? c) || (c =? 0).
Definition IsNameContinue (c : Z) : bool := IsNameStart c || ((48 <=? c) && (c <=? 57)) || (c =? 45).
Definition isNewline (c : Z) : bool := (c =? 10) || (c =? 13) || (c =? 12).
Definition isWhitespace (c : Z) : bool := (c =? 32) || (c =? 9) || (c =? 10) || (c =? 13) || (c =? 12).
Definition isHex (c : Z) : bool :=
  ((48 <=? c) && (c <=? 57)) || ((97 <=? c) && (c <=? 102)) || ((65 <=? c) && (c <=? 70)).

Section ROI.
  Variable guarded : bool.
  Variable text : list Z.

  (* for j := 0; j < 5; j++ { if !isHex(c) { break }; i += width; c, width = decode(text[i:]) } *)
  Fixpoint hex5 (k : nat) (i c w : Z) : res (Z * Z * Z) :=
    match k with
    | O => Ok (i, c, w)
    | S k' =>
      if negb (isHex c) then Ok (i, c, w) else
      t <- from text (i + w) ;;
      let '(c', w') := utf8_decode t in
      hex5 k' (i + w) c' w'
    end.

  Fixpoint roi_loop (fuel : nat) (i : Z) : res Z :=
    match fuel with
    | O => Hang
    | S f =>
      if guarded && negb (i <? len text) then Ok i else
      t <- from text i ;;
      let '(c, w) := utf8_decode t in
      if IsNameContinue c then roi_loop f (i + w) else
      esc <- (if (c =? 92) && (i + 1 <? len text)
              then c1 <- idx text (i + 1) ;; Ok (negb (isNewline c1)) else Ok false) ;;
      if esc then
        let i := i + w in
        t <- from text i ;;
        let '(c, w) := utf8_decode t in
        if isHex c then
          let i := i + w in
          t <- from text i ;;
          let '(c, w) := utf8_decode t in
          '(i, c, w) <- hex5 5 i c w ;;
          roi_loop f (if isWhitespace c then i + w else i)
        else roi_loop f i
      else Ok i
    end.

  (* Len of the returned range *)
  Definition RangeOfIdentifier_fuel (fuel : nat) : res Z :=
    if len text =? 0 then Ok 0 else
    i <- roi_loop fuel 0 ;;
    if 0 <? i then
      c <- idx text (i - 1) ;;
      Ok (if isWhitespace c then i - 1 else i)
    else Ok i.
End ROI.

Definition RangeOfIdentifier (guarded : bool) (text : list Z) : res Z :=
  RangeOfIdentifier_fuel guarded text (S (length text)).

(* which of the two loops the CURRENT source has: fix commit e50bb17 added the test ("for i < n") *)
Definition current_loop_tests_end_of_text : bool := true.
Definition RangeOfIdentifier_current : list Z -> res Z := RangeOfIdentifier current_loop_tests_end_of_text.
