(* C16: results of runs with CHECKED accesses.
   Every model in this directory mirrors a Go function that receives hostile
   bytes.  Go's run-time checks are made explicit: an index or slice
   expression whose bounds are violated yields [Crash] (Go would panic with
   "index out of range"/"slice bounds out of range"), an explicit
   [panic(...)] in the Go text also yields [Crash], and a loop that runs out
   of fuel yields [Hang].  The theorems then say that, for ALL inputs, a run
   is neither. *)
From V Require Import Common.Base.

Inductive res (A : Type) : Type :=
| Ok : A -> res A
| Crash : res A
| Hang : res A.
Arguments Ok {A} _.
Arguments Crash {A}.
Arguments Hang {A}.

Definition bind {A B} (r : res A) (f : A -> res B) : res B :=
  match r with Ok a => f a | Crash => Crash | Hang => Hang end.
Notation "x <- e ;; k" := (bind e (fun x => k)) (at level 61, e at next level, right associativity).
Notation "' p <- e ;; k" := (bind e (fun p => k)) (at level 61, p pattern, e at next level, right associativity).

Definition safe {A} (r : res A) : Prop := exists a, r = Ok a.
Definition is_ok {A} (r : res A) : bool := match r with Ok _ => true | _ => false end.
Definition is_crash {A} (r : res A) : bool := match r with Crash => true | _ => false end.
Definition is_hang {A} (r : res A) : bool := match r with Hang => true | _ => false end.

Lemma safe_not_crash_hang {A} (r : res A) : safe r <-> (r <> Crash /\ r <> Hang).
Proof.
  split.
  - intros [a ->]; split; discriminate.
  - destruct r; intros [H1 H2]; [eexists; reflexivity | congruence | congruence].
Qed.

Definition len {A} (l : list A) : Z := Z.of_nat (length l).

(* l[i] *)
Definition idx (l : list Z) (i : Z) : res Z :=
  if (i <? 0) then Crash else
  match nth_error l (Z.to_nat i) with Some v => Ok v | None => Crash end.

(* l[i:] *)
Definition from (l : list Z) (i : Z) : res (list Z) :=
  if (0 <=? i) && (i <=? len l) then Ok (skipn (Z.to_nat i) l) else Crash.
(* l[:j] *)
Definition upto (l : list Z) (j : Z) : res (list Z) :=
  if (0 <=? j) && (j <=? len l) then Ok (firstn (Z.to_nat j) l) else Crash.
(* l[i:j] *)
Definition slice (l : list Z) (i j : Z) : res (list Z) :=
  if (0 <=? i) && (i <=? j) && (j <=? len l)
  then Ok (firstn (Z.to_nat (j - i)) (skipn (Z.to_nat i) l)) else Crash.

Lemma len_nonneg {A} (l : list A) : 0 <= len l.
Proof. unfold len; lia. Qed.
Lemma len_cons {A} (x : A) l : len (x :: l) = 1 + len l.
Proof. unfold len; cbn [length]; lia. Qed.
Lemma len_nil {A} : len (@nil A) = 0.
Proof. reflexivity. Qed.
Lemma len_app {A} (a b : list A) : len (a ++ b) = len a + len b.
Proof. unfold len; rewrite app_length; lia. Qed.
Lemma len_skipn {A} (l : list A) n : len (skipn n l) = len l - Z.min (Z.of_nat n) (len l).
Proof. unfold len; rewrite skipn_length; lia. Qed.
Lemma len_firstn {A} (l : list A) n : len (firstn n l) = Z.min (Z.of_nat n) (len l).
Proof. unfold len; rewrite firstn_length; lia. Qed.

Lemma idx_ok l i : 0 <= i < len l -> exists v, idx l i = Ok v /\ nth_error l (Z.to_nat i) = Some v.
Proof.
  intros H. unfold idx. destruct (i <? 0) eqn:E; [lia|].
  destruct (nth_error l (Z.to_nat i)) eqn:N.
  - eauto.
  - apply nth_error_None in N. unfold len in H. lia.
Qed.
Lemma idx_ok' l i : 0 <= i < len l -> exists v, idx l i = Ok v.
Proof. intros H; destruct (idx_ok l i H) as [v [E _]]; eauto. Qed.
Lemma idx_crash l i : ~ (0 <= i < len l) -> idx l i = Crash.
Proof.
  intros H. unfold idx. destruct (i <? 0) eqn:E; [reflexivity|].
  destruct (nth_error l (Z.to_nat i)) eqn:N; [|reflexivity].
  assert (nth_error l (Z.to_nat i) <> None) as NN by congruence.
  apply nth_error_Some in NN. unfold len in H. lia.
Qed.
Lemma from_ok l i : 0 <= i <= len l -> from l i = Ok (skipn (Z.to_nat i) l).
Proof. intros H; unfold from. destruct ((0 <=? i) && (i <=? len l)) eqn:E; [reflexivity | lia]. Qed.
Lemma upto_ok l j : 0 <= j <= len l -> upto l j = Ok (firstn (Z.to_nat j) l).
Proof. intros H; unfold upto. destruct ((0 <=? j) && (j <=? len l)) eqn:E; [reflexivity | lia]. Qed.
Lemma slice_ok l i j : 0 <= i <= j -> j <= len l ->
  slice l i j = Ok (firstn (Z.to_nat (j - i)) (skipn (Z.to_nat i) l)).
Proof. intros H1 H2; unfold slice. destruct ((0 <=? i) && (i <=? j) && (j <=? len l)) eqn:E; [reflexivity | lia]. Qed.

(* Go fixed-width integer wrap-around *)
Definition wrap_u32 (x : Z) : Z := x mod 2 ^ 32.
Definition wrap_i32 (x : Z) : Z := (x + 2 ^ 31) mod 2 ^ 32 - 2 ^ 31.
Lemma wrap_u32_range x : 0 <= wrap_u32 x < 2 ^ 32.
Proof. unfold wrap_u32. apply Z.mod_pos_bound. reflexivity. Qed.
Lemma wrap_i32_range x : - 2 ^ 31 <= wrap_i32 x < 2 ^ 31.
Proof. unfold wrap_i32. pose proof (Z.mod_pos_bound (x + 2 ^ 31) (2 ^ 32) eq_refl). lia. Qed.
