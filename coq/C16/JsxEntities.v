(* C16 model: internal/js_lexer/js_lexer.go decodeJSXEntities (JSX text and
   attribute strings: "&name;", "&#123;", "&#x7B;"), with checked accesses and
   fuel.  [length_guard_positive] is the guard in front of entity[0]:
   the code has "length > 0" (true); with "length != -1" (false) the EMPTY
   entity "&;" reaches entity[0] and crashes.  The entity table and
   strconv.ParseInt(_, base, 32) are modelled: the table as a parameter
   (a map lookup cannot crash), ParseInt as [ParseInt32]. *)
From V Require Import Common.Base C16.Checked C16.Wtf8 C16.Vlq16 C16.CssIdent.

Definition digit_val (base c : Z) : option Z :=
  let d := if (48 <=? c) && (c <=? 57) then c - 48
           else if (97 <=? c) && (c <=? 122) then c - 87
           else if (65 <=? c) && (c <=? 90) then c - 55 else 99 in
  if d <? base then Some d else None.

Fixpoint parse_digits (base : Z) (l : list Z) (acc : Z) : option Z :=
  match l with
  | [] => Some acc
  | c :: r => match digit_val base c with Some d => parse_digits base r (acc * base + d) | None => None end
  end.

(* strconv.ParseInt(s, base, 32) for base 10/16: Some v iff err == nil *)
Definition ParseInt32 (s : list Z) (base : Z) : option Z :=
  match s with
  | [] => None
  | c :: r =>
    let '(neg, ds) := if c =? 43 then (false, r) else if c =? 45 then (true, r) else (false, s) in
    match ds with
    | [] => None
    | _ => match parse_digits base ds 0 with
           | None => None
           | Some u => if neg then (if u <=? 2 ^ 31 then Some (- u) else None)
                       else (if u <? 2 ^ 31 then Some u else None)
           end
    end
  end.

Definition wrap_u16 (x : Z) : Z := x mod 65536.

Section JSX.
  Variable length_guard_positive : bool.
  Variable lookup : list Z -> option Z.      (* jsxEntity[entity] *)

  Fixpoint djx (fuel : nat) (text : list Z) (i : Z) (acc : list Z) : res (list Z) :=
    match fuel with
    | O => Hang
    | S f =>
      if negb (i <? len text) then Ok acc else
      t <- from text i ;;
      let '(c, w) := utf8_decode t in
      let i := i + w in
      '(c, i) <- (if c =? 38 then
                    t2 <- from text i ;;
                    let length := index_byte t2 59 0 in
                    if (if length_guard_positive then 0 <? length else negb (length =? -1)) then
                      entity <- slice text i (i + length) ;;
                      e0 <- idx entity 0 ;;
                      if e0 =? 35 then
                        number <- from entity 1 ;;
                        '(number, base) <- (if 1 <? len number then
                                              n0 <- idx number 0 ;;
                                              if n0 =? 120 then n' <- from number 1 ;; Ok (n', 16) else Ok (number, 10)
                                            else Ok (number, 10)) ;;
                        match ParseInt32 number base with
                        | Some v => Ok (v, i + length + 1)
                        | None => Ok (c, i)
                        end
                      else match lookup entity with
                           | Some v => Ok (v, i + length + 1)
                           | None => Ok (c, i)
                           end
                    else Ok (c, i)
                  else Ok (c, i)) ;;
      let units := if c <=? 65535 then [wrap_u16 c]
                   else let c' := c - 65536 in
                        [wrap_u16 (55296 + Z.land (Z.shiftr c' 10) 1023); wrap_u16 (56320 + Z.land c' 1023)] in
      djx f text i (acc ++ units)
    end.

  Definition decodeJSXEntities (text : list Z) : res (list Z) := djx (S (length text)) text 0 [].
End JSX.

(* the entities used by the correspondence run (the harness only generates these
   names or names that are not in the real table) *)
Definition small_entity_table (e : list Z) : option Z :=
  if zlist_eqb e [97;109;112] then Some 38          (* amp *)
  else if zlist_eqb e [108;116] then Some 60        (* lt *)
  else if zlist_eqb e [103;116] then Some 62        (* gt *)
  else if zlist_eqb e [113;117;111;116] then Some 34 (* quot *)
  else if zlist_eqb e [110;98;115;112] then Some 160 (* nbsp *)
  else if zlist_eqb e [99;111;112;121] then Some 169 (* copy *)
  else None.
