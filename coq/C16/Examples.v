(* C16 non-vacuity: concrete non-trivial values meeting each theorem's hypotheses. *)
From V Require Import Common.Base C16.Checked C16.Spec C16.Wtf8 C16.Wtf8Proofs.

Example ex_decode_4byte : DecodeWTF8Rune [240; 159; 152; 128; 65] = Ok (128512, 4).
Proof. vm_compute. reflexivity. Qed.
Example ex_decode_truncated : DecodeWTF8Rune [240; 159; 152] = Ok (RuneError, 1).
Proof. vm_compute. reflexivity. Qed.
Example ex_decode_lone_surrogate : DecodeWTF8Rune [237; 160; 128] = Ok (55296, 3).
Proof. vm_compute. reflexivity. Qed.
Example ex_bytes_ok : bytes_ok [97; 34; 195; 169; 10; 240; 159; 152; 128; 195].
Proof. repeat constructor; lia. Qed.
(* the text a, quote, e-acute, newline, U+1F600, then a truncated sequence; JSON quoting, UTF-8 mode *)
Example ex_quote : QuoteForJSON [97; 34; 195; 169; 10; 240; 159; 152; 128; 195] false
  = Ok [34; 97; 92; 34; 195; 169; 92; 110; 240; 159; 152; 128; 92;117;70;70;70;68; 34].
Proof. vm_compute. reflexivity. Qed.
Example ex_quote_ascii : QuoteForJSON [240; 159; 152; 128; 195] true
  = Ok [34; 92;117;68;56;51;68; 92;117;68;69;48;48; 92;117;70;70;70;68; 34].
Proof. vm_compute. reflexivity. Qed.

From V Require Import C16.Vlq16 C16.CssNum C16.Pieces C16.Packet C16.PanicSites.
From V Require Import gen.PanicSitesGen.

(* DecodeVLQUTF16: "gggggggggB" has shift 45 at the last digit (zero shifts), "/////D" wraps int32;
   unit 0x141 is truncated to the byte 'A' *)
Example ex_vlq_small : DecodeVLQUTF16 [67; 44] = Ok (1, 1, true).
Proof. vm_compute. reflexivity. Qed.
Example ex_vlq_long : DecodeVLQUTF16 [103;103;103;103;103;103;103;103;103;66] = Ok (0, 10, true).
Proof. vm_compute. reflexivity. Qed.
Example ex_vlq_trunc_unit : DecodeVLQUTF16 [321] = Ok (0, 1, true).
Proof. vm_compute. reflexivity. Qed.
Example ex_vlq_bad : DecodeVLQUTF16 [103; 33] = Ok (0, 0, false).
Proof. vm_compute. reflexivity. Qed.

(* mappings "AAAA,CACA;AAgB" with one source: two mappings then an out-of-range line? no: three mappings *)
Example ex_maps : exists ms, ParseMappings [(0, 0, 1, 0, [65;65;65;65;44;67;65;67;65;59;65;65;103;66;65])] = Ok (PMap 1 0 ms) /\ length ms = 3%nat.
Proof. eexists. vm_compute. split; reflexivity. Qed.
Example ex_maps_err : ParseMappings [(0, 0, 1, 0, [65;67;65;65])] = Ok (PErr 0 4 1 1 1).
Proof. vm_compute. reflexivity. Qed.
Example ex_maps_neg_col : ParseMappings [(0, 0, 1, 0, [68])] = Ok (PErr 0 2 (-1) 1 0).
Proof. vm_compute. reflexivity. Qed.

Example ex_hex : parseHex [49; 65; 102; 70] = Ok (6911, true).
Proof. vm_compute. reflexivity. Qed.
Example ex_hex_wrap : parseHex [49;50;51;52;53;54;55;56;57] = Ok (591751049, true).
Proof. vm_compute. reflexivity. Qed.
(* "-0.50" -> "-.5" ; "1.0" -> "1" ; "0.0" -> "0" *)
Example ex_mangle : mangleNumber [45;48;46;53;48] = Ok ([45;46;53], true).
Proof. vm_compute. reflexivity. Qed.
Example ex_mangle2 : mangleNumber [46;48] = Ok ([48], true).
Proof. vm_compute. reflexivity. Qed.
(* shiftDot "-1.5" by -3 = "-.0015"; "1500" by -3 = "1.5"; "0.25" by 3 = "250" *)
Example ex_shift : shiftDot [45;49;46;53] (-3) = Ok ([45;46;48;48;49;53], true).
Proof. vm_compute. reflexivity. Qed.
Example ex_shift2 : shiftDot [48;46;50;53] 3 = Ok ([50;53;48], true).
Proof. vm_compute. reflexivity. Qed.

(* pieces: "xKEYC00000001y" with prefix KEY and two chunks; then a boundary that is too short *)
Example ex_pieces : breakOutputIntoPieces [120;75;69;89;67;48;48;48;48;48;48;48;49;121] [75;69;89] 0 2
  = Ok [([120], 1, 2); ([121], 0, 0)].
Proof. vm_compute. reflexivity. Qed.
Example ex_pieces_short : breakOutputIntoPieces [120;75;69;89;67;48;48] [75;69;89] 0 2 = Ok [([120;75;69;89;67;48;48], 0, 0)].
Proof. vm_compute. reflexivity. Qed.

(* packets: id 1 request with value [true, "a"] decodes; an id-only packet crashes *)
Example ex_packet : decodePacket [2;0;0;0; 5; 2;0;0;0; 1;1; 3; 1;0;0;0; 97]
  = Ok (Some (1, true, PArr [PBool true; PStr [97]])).
Proof. vm_compute. reflexivity. Qed.
Example ex_packet_crash : decodePacket [2;0;0;0] = Crash.
Proof. vm_compute. reflexivity. Qed.
Example ex_rlps : readLengthPrefixedSlice [2;0;0;0;7;8;9] = Ok ([7;8], [9], true).
Proof. vm_compute. reflexivity. Qed.

(* the generated inventory is not empty and contains protected parser/printer goroutines *)
Example ex_spawns : existsb (fun s => runs_parser_or_printer s && Nat.eqb (sp_recover s) 2) spawn_sites = true.
Proof. vm_compute. reflexivity. Qed.
Example ex_entries : (3 <= List.length lexer_entries)%nat.
Proof. vm_compute. repeat constructor. Qed.
Example ex_panics : (10 <= n_panics_typed)%nat /\ (10 <= n_panics_other)%nat.
Proof. vm_compute. split; repeat constructor. Qed.
(* int32 wrap: "//////D" accumulates 2^32-1 = -1 as int32, value -(-1 >> 1) = 1 *)
Example ex_vlq_wrap : DecodeVLQUTF16 [47;47;47;47;47;47;68] = Ok (1, 7, true).
Proof. vm_compute. reflexivity. Qed.

From V Require Import C16.CssIdent.
(* "ab\\41 c {}": the identifier is ab, escape 41, its terminating space is not part of the range *)
Example ex_roi : RangeOfIdentifier true [97;98;92;52;49;32;99;32;123;125] = Ok 7.
Proof. vm_compute. reflexivity. Qed.
(* an identifier that extends to the very end of the text *)
Example ex_roi_eof : RangeOfIdentifier true [120] = Ok 1.
Proof. vm_compute. reflexivity. Qed.
Example ex_roi_trunc : RangeOfIdentifier true [97;195] = Ok 2.
Proof. vm_compute. reflexivity. Qed.

From V Require Import C16.JsxEntities.
(* "a&amp;&#x41;&#66;&;&zz;&" : amp, two numeric entities, the empty entity and an unknown one stay as text *)
Example ex_jsxent : decodeJSXEntities true small_entity_table
  [97; 38;97;109;112;59; 38;35;120;52;49;59; 38;35;54;54;59; 38;59; 38;122;122;59; 38]
  = Ok [97; 38; 65; 66; 38;59; 38;122;122;59; 38].
Proof. vm_compute. reflexivity. Qed.
(* a code point above the BMP becomes a surrogate pair; an out-of-range number stays as text *)
Example ex_jsxent_astral : decodeJSXEntities true small_entity_table [38;35;120;49;70;54;48;48;59] = Ok [55357; 56832].
Proof. vm_compute. reflexivity. Qed.
Example ex_parseint_range : ParseInt32 [50;49;52;55;52;56;51;54;52;56] 10 = None /\ ParseInt32 [45;50;49;52;55;52;56;51;54;52;56] 10 = Some (-2147483648).
Proof. vm_compute. split; reflexivity. Qed.

From V Require Import C16.Vlq16Proofs.
(* two sections (3 sources + 2 names, then 1 source + 1 name): hypotheses of parsed_map_indices_in_range hold and
   the second section's indices are offset by the first section's counts: "AAAAC" -> source 0, name 1; "AAAAA" -> source 3, name 2 *)
Example ex_sections_ok : sections_ok [(0, 0, 3, 2, [65;65;65;65;67]); (1, 0, 1, 1, [65;65;65;65;65])] /\
  ParseMappings [(0, 0, 3, 2, [65;65;65;65;67]); (1, 0, 1, 1, [65;65;65;65;65])]
  = Ok (PMap 4 3 [(0, 0, 0, 0, 0, 1); (1, 0, 3, 0, 0, 2)]).
Proof. split; [repeat constructor; lia | vm_compute; reflexivity]. Qed.

From Coq Require Import String.
(* the service inventory contains goroutines that run builds (hypothesis of service_goroutines_unprotected_are_known) *)
Example ex_service_spawns : existsb (fun s => runs_build s && String.eqb (sp_pkg s) "cmd/esbuild"%string) service_spawn_sites = true
  /\ existsb (fun s => runs_build s && String.eqb (sp_pkg s) "pkg/api"%string) service_spawn_sites = true.
Proof. vm_compute. split; reflexivity. Qed.

From V Require Import C16.CssLex.
(* the escape of a code point above U+10FFFF at the end of the input: RuneError, cursor at eof *)
Example ex_css_escape : run_escape [92;49;49;48;48;48;48] = Ok (RuneError, mkLx 7 eof 7).
Proof. vm_compute. reflexivity. Qed.
(* an unterminated string whose last byte is a backslash *)
Example ex_css_string : run_string [34;97;92] = Ok (2, mkLx 3 eof 3).
Proof. vm_compute. reflexivity. Qed.
Example ex_css_string_ok : run_string [39;97;92;39;98;39;99] = Ok (1, mkLx 7 99 6).
Proof. vm_compute. reflexivity. Qed.
(* a url body with a quote becomes a bad url consumed up to the parenthesis *)
Example ex_css_url : run_url [97;34;98;41;99] = Ok (4, mkLx 5 99 4).
Proof. vm_compute. reflexivity. Qed.
(* the name a, escape 41 (A), b : "aAb" *)
Example ex_css_name : exists l, run_name [97;92;52;49;32;98;59] = Ok ([97;65;98], l).
Proof. eexists. vm_compute. reflexivity. Qed.

From V Require Import C16.Globstar C16.GlobstarProofs.
(* the glob "**/*.{css,scss" : globstar, segment, escaped dot and brace, literals *)
Example ex_globstar : globstarToEscapedRegexp [42;42;47;42;46;123;99;115;115;44;115;99;115;115]
  = Ok (([94] ++ gs_globstar ++ gs_segment ++ [92;46;92;123;99;115;115;44;115;99;115;115;36])%list, true).
Proof. vm_compute. reflexivity. Qed.
(* the WTF-8 bytes of a lone surrogate are copied unchanged: structurally well-formed, not valid UTF-8 -
   the real regexp package rejects it (finding C16-regexp-invalid-utf8; since dfdee39 the caller uses regexp.Compile and skips the entry) *)
Example ex_globstar_surrogate : globstarToEscapedRegexp [237;160;128;46;106;115] = Ok ([94;237;160;128;92;46;106;115;36], false).
Proof. vm_compute. reflexivity. Qed.
Example ex_regexp_sites : existsb (fun s => negb (re_must s) && negb (re_const s)) regexp_sites = true.
Proof. vm_compute. reflexivity. Qed.

From V Require Import C16.JsLex.
(* 'a\<CR><LF>b' : a line continuation inside a string literal: token 1, end 7, text of 5 bytes *)
Example ex_js_string : run_jsstring [39;97;92;13;10;98;39] = Ok (Some (1, 7, 5)).
Proof. vm_compute. reflexivity. Qed.
(* `a${ : a template head: the text slice excludes the two-byte suffix *)
Example ex_js_template_head : run_jsstring [96;97;36;123;120] = Ok (Some (3, 4, 1)).
Proof. vm_compute. reflexivity. Qed.
(* an unterminated string ending in a backslash is the typed syntax error *)
Example ex_js_string_unterminated : run_jsstring [34;97;92] = Ok None.
Proof. vm_compute. reflexivity. Qed.
(* /[/]\//gi : a slash inside a class, an escaped slash, two flags *)
Example ex_js_regexp : exists l, run_regexp idc_sample [47;91;47;93;92;47;47;103;105] = Ok (Some l) /\ cur l = 9.
Proof. eexists. vm_compute. split; reflexivity. Qed.
Example ex_js_regexp_dupflag : exists l, run_regexp idc_sample [47;97;47;103;103] = Ok (Some l).
Proof. eexists. vm_compute. reflexivity. Qed.
Example ex_idc_sample_eof : idc_sample eof = false.
Proof. reflexivity. Qed.

From V Require Import C16.JsIdent.
(* #a\u{62}c = : a private name with a bracketed escape: 10 bytes *)
Example ex_js_roi : jsRangeOfIdentifier ids_sample idc_sample2 [35;97;92;117;123;54;50;125;99;32;61] = Ok 9.
Proof. vm_compute. reflexivity. Qed.
(* not an identifier: the fallback measures a string literal, 'a\'b' is 6 bytes *)
Example ex_js_roi_string : jsRangeOfIdentifier ids_sample idc_sample2 [39;97;92;39;98;39;59] = Ok 6.
Proof. vm_compute. reflexivity. Qed.
(* an escape whose brace never closes runs to the end of the text and falls back *)
Example ex_js_roi_open_brace : jsRangeOfIdentifier ids_sample idc_sample2 [97;92;117;123;54;50] = Ok 0.
Proof. vm_compute. reflexivity. Qed.

From V Require Import C16.JsPragma.
(* "@jsx  h.x y" with pragma "@jsx" (4 bytes), skipping spaces first: the argument is "h.x" at offset 16 *)
Example ex_pragma : scanForPragmaArg js_ws true 10 4 [64;106;115;120;32;32;104;46;120;32;121] = Ok (Some ([104;46;120], 16, 3)).
Proof. vm_compute. reflexivity. Qed.
(* the argument runs to the end of the text and ends in a truncated UTF-8 byte *)
Example ex_pragma_eof : scanForPragmaArg js_ws false 0 1 [61;97;195] = Ok (Some ([97;195], 1, 2)).
Proof. vm_compute. reflexivity. Qed.

(* }b${ : a template middle; }b` : a template tail; }b : unterminated (syntax error) *)
Example ex_js_template_middle : run_jstemplate_tail [125;98;36;123;99] = Ok (Some (5, 4, 1)).
Proof. vm_compute. reflexivity. Qed.
Example ex_js_template_tail : run_jstemplate_tail [125;98;96;59] = Ok (Some (4, 3, 1)).
Proof. vm_compute. reflexivity. Qed.
Example ex_js_template_unterminated : run_jstemplate_tail [125;98] = Ok None.
Proof. vm_compute. reflexivity. Qed.

(* hypothesis of decodePacket_never_hangs_partial on a nested packet (array in a map) *)
Example ex_packet_nested_bytes : all_bytes [2;0;0;0; 6; 1;0;0;0; 1;0;0;0; 107; 5; 1;0;0;0; 0] /\
  decodePacket [2;0;0;0; 6; 1;0;0;0; 1;0;0;0; 107; 5; 1;0;0;0; 0] = Ok (Some (1, true, PDict [([107], PArr [PNull])])).
Proof. split; [repeat constructor; lia|vm_compute; reflexivity]. Qed.
