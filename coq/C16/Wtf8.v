(* C16 model: internal/helpers/utf.go DecodeWTF8Rune and
   internal/helpers/quote.go canPrintWithoutEscape / internalQuote
   (QuoteForJSON, QuoteSingle), with checked accesses and fuel.

   DecodeWTF8Rune_gen tw: [tw] is the width returned for a truncated
   multi-byte sequence ("if n < sz { return utf8.RuneError, tw }").  The
   pinned snapshot returned 0 there, which made internalQuote loop forever
   (finding C16-truncated-utf8-hang, repaired by fix commit 8cccdcd: now 1).
   [DecodeWTF8Rune] is the current code (tw = 1); [DecodeWTF8Rune_old] (tw = 0)
   is kept only to state the refutation of the old behaviour. *)
From V Require Import Common.Base C16.Checked.

Definition RuneError : Z := 65533.

Definition DecodeWTF8Rune_gen (tw : Z) (s : list Z) : res (Z * Z) :=
  let n := len s in
  if n <? 1 then Ok (RuneError, 0) else
  s0 <- idx s 0 ;;
  if s0 <? 128 then Ok (s0, 1) else
  let sz := if Z.land s0 224 =? 192 then 2
            else if Z.land s0 240 =? 224 then 3
            else if Z.land s0 248 =? 240 then 4 else 0 in
  if sz =? 0 then Ok (RuneError, 1) else
  if n <? sz then Ok (RuneError, tw) else
  s1 <- idx s 1 ;;
  if negb (Z.land s1 192 =? 128) then Ok (RuneError, 1) else
  if sz =? 2 then
    let cp := Z.lor (Z.shiftl (Z.land s0 31) 6) (Z.land s1 63) in
    if cp <? 128 then Ok (RuneError, 1) else Ok (cp, 2)
  else
  s2 <- idx s 2 ;;
  if negb (Z.land s2 192 =? 128) then Ok (RuneError, 1) else
  if sz =? 3 then
    let cp := Z.lor (Z.lor (Z.shiftl (Z.land s0 15) 12) (Z.shiftl (Z.land s1 63) 6)) (Z.land s2 63) in
    if cp <? 2048 then Ok (RuneError, 1) else Ok (cp, 3)
  else
  s3 <- idx s 3 ;;
  if negb (Z.land s3 192 =? 128) then Ok (RuneError, 1) else
  let cp := Z.lor (Z.lor (Z.lor (Z.shiftl (Z.land s0 7) 18) (Z.shiftl (Z.land s1 63) 12))
                         (Z.shiftl (Z.land s2 63) 6)) (Z.land s3 63) in
  if (cp <? 65536) || (1114111 <? cp) then Ok (RuneError, 1) else Ok (cp, 4).

Definition DecodeWTF8Rune := DecodeWTF8Rune_gen 1.
Definition DecodeWTF8Rune_old := DecodeWTF8Rune_gen 0.

Definition canPrintWithoutEscape (c : Z) (asciiOnly : bool) : bool :=
  if c <=? 126 then (32 <=? c) && negb (c =? 92) && negb (c =? 34)
  else negb asciiOnly && negb (c =? 65279) && ((c <? 55296) || (57343 <? c)).

(* fix commit 6fea80b: an invalid byte (RuneError with width <= 1) is never copied, it is written as \uFFFD *)
Definition isInvalidByte (c w : Z) : bool := (c =? RuneError) && (w <=? 1).

(* "0123456789ABCDEF" *)
Definition hexChars : list Z := [48;49;50;51;52;53;54;55;56;57;65;66;67;68;69;70].

(* '\\','u', hexChars[c>>12], hexChars[(c>>8)&15], hexChars[(c>>4)&15], hexChars[c&15] *)
Definition hex4 (c : Z) : res (list Z) :=
  h1 <- idx hexChars (Z.shiftr c 12) ;;
  h2 <- idx hexChars (Z.land (Z.shiftr c 8) 15) ;;
  h3 <- idx hexChars (Z.land (Z.shiftr c 4) 15) ;;
  h4 <- idx hexChars (Z.land c 15) ;;
  Ok [92; 117; h1; h2; h3; h4].

Section Quote.
  Variable dec : list Z -> res (Z * Z).   (* DecodeWTF8Rune *)
  Variable text : list Z.
  Variable asciiOnly : bool.
  Variable quoteChar : Z.

  (* the inner fast-path loop: "for i < n { c, width = Decode(text[i:]);
     if !canPrint(c) { break }; i += width }", returns the final i *)
  Fixpoint run_end (fuel : nat) (i : Z) : res Z :=
    match fuel with
    | O => Hang
    | S f =>
      if i <? len text then
        t <- from text i ;;
        '(c, w) <- dec t ;;
        if canPrintWithoutEscape c asciiOnly && negb (isInvalidByte c w) then run_end f (i + w) else Ok i
      else Ok i
    end.

  (* the outer loop "for i < n" *)
  Fixpoint qloop (fuel : nat) (i : Z) (acc : list Z) : res (list Z) :=
    match fuel with
    | O => Hang
    | S f =>
      if i <? len text then
        t <- from text i ;;
        '(c, w) <- dec t ;;
        if canPrintWithoutEscape c asciiOnly && negb (isInvalidByte c w) then
          e <- run_end f (i + w) ;;
          seg <- slice text i e ;;
          qloop f e (acc ++ seg)
        else if c =? 8 then qloop f (i + 1) (acc ++ [92; 98])
        else if c =? 12 then qloop f (i + 1) (acc ++ [92; 102])
        else if c =? 10 then qloop f (i + 1) (acc ++ [92; 110])
        else if c =? 13 then qloop f (i + 1) (acc ++ [92; 114])
        else if c =? 9 then qloop f (i + 1) (acc ++ [92; 116])
        else if c =? 92 then qloop f (i + 1) (acc ++ [92; 92])
        else if c =? 34 then
          qloop f (i + 1) (acc ++ (if quoteChar =? 34 then [92; 34] else [34]))
        else if c =? 39 then
          qloop f (i + 1) (acc ++ (if quoteChar =? 39 then [92; 39] else [39]))
        else
          if c <=? 65535 then
            h <- hex4 c ;; qloop f (i + w) (acc ++ h)
          else
            let c' := c - 65536 in
            let lo := 55296 + Z.land (Z.shiftr c' 10) 1023 in
            let hi := 56320 + Z.land c' 1023 in
            h1 <- hex4 lo ;; h2 <- hex4 hi ;; qloop f (i + w) (acc ++ h1 ++ h2)
      else Ok (acc ++ [quoteChar])
    end.

  Definition internalQuote_fuel (fuel : nat) : res (list Z) := qloop fuel 0 [quoteChar].
End Quote.

(* fuel: one unit per loop iteration; len+1 always suffices (theorem) *)
Definition quote_fuel (text : list Z) : nat := S (length text).
Definition internalQuote (text : list Z) (asciiOnly : bool) (quoteChar : Z) : res (list Z) :=
  internalQuote_fuel DecodeWTF8Rune text asciiOnly quoteChar (quote_fuel text).
Definition QuoteForJSON text asciiOnly := internalQuote text asciiOnly 34.
Definition QuoteSingle text asciiOnly := internalQuote text asciiOnly 39.
