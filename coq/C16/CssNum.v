(* C16 model: internal/css_parser/css_decls_color.go parseHex and
   internal/css_parser/css_parser.go mangleNumber / shiftDot, with checked
   accesses and fuel.  parseHex ranges over the runes of the text; the other
   two work on bytes. *)
From V Require Import Common.Base C16.Checked C16.Vlq16.

(* for _, c := range text { hex <<= 4; switch {...} } over uint32 *)
Fixpoint parseHex_loop (runes : list Z) (hex : Z) : Z * bool :=
  match runes with
  | [] => (hex, true)
  | c :: r =>
    let hex := wrap_u32 (hex * 16) in
    if (48 <=? c) && (c <=? 57) then parseHex_loop r (Z.lor hex (wrap_u32 (c - 48)))
    else if (97 <=? c) && (c <=? 102) then parseHex_loop r (Z.lor hex (wrap_u32 (c - 87)))
    else if (65 <=? c) && (c <=? 70) then parseHex_loop r (Z.lor hex (wrap_u32 (c - 55)))
    else (0, false)
  end.
Definition parseHex (runes : list Z) : res (Z * bool) := Ok (parseHex_loop runes 0).

(* for len(t) > 0 && t[len(t)-1] == '0' { t = t[:len(t)-1] } *)
Fixpoint strip_trailing_zeros (fuel : nat) (t : list Z) : res (list Z) :=
  match fuel with
  | O => Hang
  | S f =>
    if 0 <? len t then
      c <- idx t (len t - 1) ;;
      if c =? 48 then t' <- upto t (len t - 1) ;; strip_trailing_zeros f t' else Ok t
    else Ok t
  end.

Definition is_digit (c : Z) : bool := (48 <=? c) && (c <=? 57).

Definition mangleNumber (original : list Z) : res (list Z * bool) :=
  let dot := index_byte original 46 0 in
  (* dot != -1 && !strings.ContainsAny(t, "eE")   (the second conjunct: fix commit 4a7b5a3) *)
  if (dot =? -1) || existsb (fun c => (c =? 101) || (c =? 69)) original then Ok (original, false) else
  t <- strip_trailing_zeros (S (length original)) original ;;
  t <- (if dot + 1 =? len t then
          t <- upto t dot ;;
          Ok (if zlist_eqb t [] || zlist_eqb t [43] || zlist_eqb t [45] then t ++ [48] else t)
        else
          (* len(t) >= 3 && t[0]=='0' && t[1]=='.' && t[2] is a digit *)
          lead1 <- (if 3 <=? len t then
                      a <- idx t 0 ;; if negb (a =? 48) then Ok false else
                      b <- idx t 1 ;; if negb (b =? 46) then Ok false else
                      c <- idx t 2 ;; Ok (is_digit c)
                    else Ok false) ;;
          if lead1 then from t 1 else
          lead2 <- (if 4 <=? len t then
                      a <- idx t 0 ;; if negb ((a =? 43) || (a =? 45)) then Ok false else
                      b <- idx t 1 ;; if negb (b =? 48) then Ok false else
                      c <- idx t 2 ;; if negb (c =? 46) then Ok false else
                      d <- idx t 3 ;; Ok (is_digit d)
                    else Ok false) ;;
          if lead2 then h <- slice t 0 1 ;; r <- from t 2 ;; Ok (h ++ r) else Ok t) ;;
  Ok (t, negb (zlist_eqb t original)).

(* strings.Repeat panics on a negative count *)
Definition repeat_checked (c : Z) (k : Z) : res (list Z) :=
  if k <? 0 then Crash else Ok (repeat c (Z.to_nat k)).

(* for len(text) > 0 && dot > 0 && text[0] == '0' { text = text[1:]; dot-- } *)
Fixpoint strip_leading_zeros (fuel : nat) (text : list Z) (dot : Z) : res (list Z * Z) :=
  match fuel with
  | O => Hang
  | S f =>
    if (0 <? len text) && (0 <? dot) then
      c <- idx text 0 ;;
      if c =? 48 then t' <- from text 1 ;; strip_leading_zeros f t' (dot - 1) else Ok (text, dot)
    else Ok (text, dot)
  end.

(* for len(text) > 0 && len(text) > dot && text[len(text)-1] == '0' { text = text[:len(text)-1] } *)
Fixpoint strip_zeros_after (fuel : nat) (text : list Z) (dot : Z) : res (list Z) :=
  match fuel with
  | O => Hang
  | S f =>
    if (0 <? len text) && (dot <? len text) then
      c <- idx text (len text - 1) ;;
      if c =? 48 then t' <- upto text (len text - 1) ;; strip_zeros_after f t' dot else Ok text
    else Ok text
  end.

Definition shiftDot (text0 : list Z) (dotOffset : Z) : res (list Z * bool) :=
  if existsb (fun c => (c =? 101) || (c =? 69)) text0 then Ok ([], false) else
  '(sign, text) <- (if 0 <? len text0 then
                      c <- idx text0 0 ;;
                      if (c =? 45) || (c =? 43) then s <- upto text0 1 ;; t <- from text0 1 ;; Ok (s, t)
                      else Ok ([], text0)
                    else Ok ([], text0)) ;;
  let dot := index_byte text 46 0 in
  '(text, dot) <- (if dot =? -1 then Ok (text, len text)
                   else a <- upto text dot ;; b <- from text (dot + 1) ;; Ok (a ++ b, dot)) ;;
  let dot := dot + dotOffset in
  '(text, dot) <- strip_leading_zeros (S (length text)) text dot ;;
  text <- strip_zeros_after (S (length text)) text dot ;;
  if len text <=? dot then
    z <- repeat_checked 48 (dot - len text) ;;
    (* fix commit 0f05885: keep one digit when every digit was a stripped zero *)
    let z := if zlist_eqb text [] && zlist_eqb z [] then [48] else z in
    Ok (sign ++ text ++ z, true)
  else
    '(text, dot) <- (if dot <? 0 then z <- repeat_checked 48 (- dot) ;; Ok (z ++ text, 0) else Ok (text, dot)) ;;
    a <- upto text dot ;; b <- from text dot ;;
    Ok (sign ++ a ++ [46] ++ b, true).
