(* C16 model: internal/js_lexer/js_lexer.go - the string / template literal scan
   inside Lexer.Next (quotes, backslash line continuations, "${"), the slice that
   takes the literal's text, and Lexer.ScanRegExp (class brackets, escapes, flags),
   with checked accesses and fuel.  The cursor primitive is the same as the CSS
   lexer's (CssLex.step: codePoint = -1 at the end, end = current, current += width).
   [None] = the typed LexerPanic (an ordinary syntax error, caught at the parse entry). *)
From V Require Import Common.Base C16.Checked C16.Wtf8 C16.CssIdent C16.CssLex.

(* stringLiteral: for { switch codePoint {...}; step() } ; Some (suffixLen, state) *)
Fixpoint jstr_loop (text : list Z) (fuel : nat) (quote : Z) (l : lx) : res (option (Z * lx)) :=
  match fuel with
  | O => Hang
  | S f =>
    let c := cp l in
    if c =? 92 then
      l <- step text l ;;
      if cp l =? 13 then
        l <- step text l ;;
        l <- (if cp l =? 10 then step text l else Ok l) ;;
        jstr_loop text f quote l
      else l <- step text l ;; jstr_loop text f quote l
    else if c =? eof then Ok None
    else if (c =? 13) || (c =? 10) then
      if negb (quote =? 96) then Ok None else l <- step text l ;; jstr_loop text f quote l
    else if (c =? 36) && (quote =? 96) then
      l <- step text l ;;
      if cp l =? 123 then l <- step text l ;; Ok (Some (2, l))
      else jstr_loop text f quote l
    else if c =? quote then l <- step text l ;; Ok (Some (1, l))
    else l <- step text l ;; jstr_loop text f quote l
  end.

(* the first token of a text that starts with a quote or a backtick:
   Some (token kind 1 string / 2 no-substitution template / 3 template head, end, len(text slice)) *)
Definition run_jsstring (text : list Z) : res (option (Z * Z * Z)) :=
  l <- lex_start text ;;
  let quote := cp l in
  l <- step text l ;;
  r <- jstr_loop text (lex_fuel text) quote l ;;
  match r with
  | None => Ok None
  | Some (suffixLen, l) =>
    (* text := Contents[start+1 : end-suffixLen] *)
    t <- slice text 1 (rlen l - suffixLen) ;;
    Ok (Some (if negb (quote =? 96) then 1 else if suffixLen =? 2 then 3 else 2, rlen l, len t))
  end.

Section RegExp.
  Variable idc : Z -> bool.      (* js_ast.IsIdentifierContinue *)

  Definition validateAndStep (text : list Z) (l : lx) : res (option lx) :=
    l <- (if cp l =? 92 then step text l else Ok l) ;;
    let c := cp l in
    if (c =? eof) || (c =? 13) || (c =? 10) || (c =? 8232) || (c =? 8233) then Ok None
    else l' <- step text l ;; Ok (Some l').

  (* for codePoint != ']' { validateAndStep() } *)
  Fixpoint class_loop (text : list Z) (fuel : nat) (l : lx) : res (option lx) :=
    match fuel with
    | O => Hang
    | S f =>
      if cp l =? 93 then Ok (Some l) else
      r <- validateAndStep text l ;;
      match r with None => Ok None | Some l' => class_loop text f l' end
    end.

  Definition is_flag (c : Z) : bool :=
    (c =? 100) || (c =? 103) || (c =? 105) || (c =? 109) || (c =? 115) || (c =? 117) || (c =? 118) || (c =? 121).

  (* for r1.Start < r2.Start && Contents[r1.Start] != byte(codePoint) { r1.Start++ } *)
  Fixpoint dup_scan (text : list Z) (fuel : nat) (i stop c : Z) : res Z :=
    match fuel with
    | O => Hang
    | S f =>
      if i <? stop then b <- idx text i ;; if negb (b =? c) then dup_scan text f (i + 1) stop c else Ok i
      else Ok i
    end.

  Fixpoint flags_loop (text : list Z) (fuel : nat) (l : lx) (bits : Z) : res (option lx) :=
    match fuel with
    | O => Hang
    | S f =>
      if idc (cp l) then
        if is_flag (cp l) then
          let bit := Z.shiftl 1 (cp l - 97) in
          bits' <- (if negb (Z.land bit bits =? 0)
                    then _ <- dup_scan text (S (length text)) 0 (rlen l) (cp l) ;; Ok bits
                    else Ok (Z.lor bits bit)) ;;
          l' <- step text l ;; flags_loop text f l' bits'
        else Ok None                      (* lexer.SyntaxError() *)
      else Ok (Some l)
    end.

  Fixpoint re_loop (text : list Z) (fuel : nat) (l : lx) : res (option lx) :=
    match fuel with
    | O => Hang
    | S f =>
      if cp l =? 47 then l <- step text l ;; flags_loop text (lex_fuel text) l 0
      else if cp l =? 91 then
        l <- step text l ;;
        r <- class_loop text (lex_fuel text) l ;;
        match r with
        | None => Ok None
        | Some l => l <- step text l ;; re_loop text f l
        end
      else
        r <- validateAndStep text l ;;
        match r with None => Ok None | Some l' => re_loop text f l' end
    end.

  (* a text that starts with '/': Next() consumes the slash (token TSlash), then ScanRegExp *)
  Definition run_regexp (text : list Z) : res (option lx) :=
    l <- lex_start text ;; l <- step text l ;; re_loop text (lex_fuel text) l.
End RegExp.

(* the classification used by the correspondence run: ASCII exactly as js_ast.IsIdentifierContinue;
   beyond ASCII only the code points the harness generates (e-acute, ZWNJ, ZWJ are continue;
   U+2028, U+FFFD, U+1F600 are not) *)
Definition idc_sample (c : Z) : bool :=
  ((97 <=? c) && (c <=? 122)) || ((65 <=? c) && (c <=? 90)) || ((48 <=? c) && (c <=? 57)) || (c =? 95) || (c =? 36) ||
  (c =? 233) || (c =? 8204) || (c =? 8205).

(* RescanCloseBraceAsTemplateToken on a text that starts with '}' (token TCloseBrace, start 0, end 1):
   codePoint = '`'; current = end; end -= 1; Next() - the same scan with the backtick as quote, the token
   starting at the brace.  Some (kind 4 template tail / 5 template middle, end, len(text slice)) *)
Definition run_jstemplate_tail (text : list Z) : res (option (Z * Z * Z)) :=
  l <- step text (mkLx 1 96 0) ;;
  r <- jstr_loop text (lex_fuel text) 96 l ;;
  match r with
  | None => Ok None
  | Some (suffixLen, l) =>
    t <- slice text 1 (rlen l - suffixLen) ;;
    Ok (Some (if suffixLen =? 2 then 5 else 4, rlen l, len t))
  end.
