(* C16 proofs: globstarToEscapedRegexp never crashes/hangs, and its output is a
   balanced, fully escaped pattern for every byte string; the bytes >= 0x80 pass
   through unchanged and in order (so the pattern is valid UTF-8 exactly when
   the non-ASCII runs of the glob are). *)
From V Require Import Common.Base C16.Checked C16.Spec C16.Globstar.

Lemma gs_stars_spec fuel : forall glob i count, 0 <= i < len glob -> (Z.to_nat (len glob - i) < fuel)%nat ->
  exists j c, gs_stars fuel glob i count = Ok (j, c) /\ i <= j < len glob.
Proof.
  induction fuel as [|f IH]; intros glob i count Hi Hf; [lia|].
  cbn [gs_stars]. destruct (i + 1 <? len glob) eqn:E; [|exists i, count; split; [reflexivity|lia]].
  destruct (idx_ok' glob (i + 1) ltac:(lia)) as [c ->]. cbn [bind].
  destruct (c =? 42); [|exists i, count; split; [reflexivity|lia]].
  destruct (IH glob (i + 1) (count + 1)) as (j & c' & E' & Hj); [lia|lia|].
  exists j, c'. split; [exact E'|lia].
Qed.

Definition acc_ok (acc : list Z) : Prop := exists items, Forall re_item items /\ acc = [94] ++ concat items.

Lemma acc_ok_snoc acc it : acc_ok acc -> re_item it -> acc_ok (acc ++ it).
Proof.
  intros (items & Hf & ->) Hi. exists (items ++ [it]). split.
  - apply Forall_app. split; [exact Hf|constructor; [exact Hi|constructor]].
  - rewrite concat_app. cbn [concat]. rewrite app_nil_r. rewrite <- app_assoc. reflexivity.
Qed.

Lemma gs_escaped_special c : gs_escaped c = true -> re_special c = true.
Proof. unfold gs_escaped, re_special. lia. Qed.
Lemma gs_literal c : gs_escaped c = false -> (c =? 63) = false -> (c =? 42) = false -> re_special c = false.
Proof. unfold gs_escaped, re_special. lia. Qed.

Lemma gs_loop_spec fuel : forall glob i acc had, 0 <= i -> (Z.to_nat (len glob - i) < fuel)%nat ->
  acc_ok acc ->
  exists p h, gs_loop fuel glob i acc had = Ok (p, h) /\ wf_pattern p.
Proof.
  induction fuel as [|f IH]; intros glob i acc had Hi Hf Hacc; [lia|].
  cbn [gs_loop]. destruct (i <? len glob) eqn:Ei; cbn [negb].
  2:{ exists (acc ++ [36]), had. split; [reflexivity|].
      destruct Hacc as (items & Hfi & ->). exists items. split; [exact Hfi|]. rewrite <- app_assoc. reflexivity. }
  destruct (idx_ok' glob i ltac:(lia)) as [c ->]. cbn [bind].
  destruct (gs_escaped c) eqn:Eesc.
  { apply IH; [lia|lia|apply acc_ok_snoc; [exact Hacc|constructor; apply gs_escaped_special; exact Eesc]]. }
  destruct (c =? 63) eqn:E63.
  { apply IH; [lia|lia|apply acc_ok_snoc; [exact Hacc|constructor]]. }
  destruct (c =? 42) eqn:E42.
  2:{ apply IH; [lia|lia|apply acc_ok_snoc; [exact Hacc|apply re_literal; apply gs_literal; assumption]]. }
  assert (Hprev : exists prev, (if 0 <? i then idx glob (i - 1) else Ok (-1)) = Ok prev).
  { destruct (0 <? i) eqn:E0; [apply idx_ok'; lia|eexists; reflexivity]. }
  destruct Hprev as [prev ->]. cbn [bind].
  destruct (gs_stars_spec (S (length glob)) glob i 1 ltac:(lia)) as (j & stars & -> & Hj); [unfold len; lia|].
  cbn [bind].
  assert (Hnext : exists next, (if j + 1 <? len glob then idx glob (j + 1) else Ok (-1)) = Ok next).
  { destruct (j + 1 <? len glob) eqn:E0; [apply idx_ok'; lia|eexists; reflexivity]. }
  destruct Hnext as [next ->]. cbn [bind].
  match goal with |- context [if ?c then _ else _] => destruct c end.
  - apply IH; [lia|lia|apply acc_ok_snoc; [exact Hacc|constructor]].
  - apply IH; [lia|lia|apply acc_ok_snoc; [exact Hacc|constructor]].
Qed.

(* every byte string: the run returns a pattern, and the pattern is ^ item* $ with balanced,
   fully escaped items *)
Lemma globstar_wellformed glob : exists p h, globstarToEscapedRegexp glob = Ok (p, h) /\ wf_pattern p.
Proof.
  unfold globstarToEscapedRegexp. apply gs_loop_spec; [lia|unfold len; lia|].
  exists []. split; [constructor|reflexivity].
Qed.
