(* C16 proofs: readUint32/readLengthPrefixedSlice are total on bytes;
   decodePacket is refuted (crashes on truncated packets and unknown kinds). *)
From V Require Import Common.Base C16.Checked C16.Packet C16.Wtf8Proofs.

Lemma bytes_ok_nth s i v : bytes_ok s -> nth_error s i = Some v -> 0 <= v < 256.
Proof.
  unfold bytes_ok. intros H. revert i. induction H as [|x l Hx Hl IH]; intros i E.
  - destruct i; discriminate.
  - destruct i as [|i]; [inversion E; subst; exact Hx|exact (IH i E)].
Qed.

Lemma readUint32_spec bs : bytes_ok bs ->
  exists v rest ok, readUint32 bs = Ok (v, rest, ok) /\ 0 <= v < 2 ^ 32 /\ bytes_ok rest /\
                    (ok = true -> len rest = len bs - 4) /\ (ok = false -> rest = bs).
Proof.
  intros Hb. unfold readUint32. destruct (4 <=? len bs) eqn:E.
  - destruct (idx_ok bs 0 ltac:(lia)) as [b0 [-> N0]]. destruct (idx_ok bs 1 ltac:(lia)) as [b1 [-> N1]].
    destruct (idx_ok bs 2 ltac:(lia)) as [b2 [-> N2]]. destruct (idx_ok bs 3 ltac:(lia)) as [b3 [-> N3]].
    cbn [bind]. rewrite from_ok by lia. cbn [bind].
    pose proof (bytes_ok_nth _ _ _ Hb N0). pose proof (bytes_ok_nth _ _ _ Hb N1).
    pose proof (bytes_ok_nth _ _ _ Hb N2). pose proof (bytes_ok_nth _ _ _ Hb N3).
    eexists; eexists; exists true. split; [reflexivity|]. split; [lia|]. split; [apply bytes_ok_skipn; exact Hb|].
    split; [intros _; rewrite len_skipn; lia|discriminate].
  - exists 0, bs, false. split; [reflexivity|]. split; [lia|]. split; [exact Hb|]. split; [discriminate|reflexivity].
Qed.

Lemma readLengthPrefixedSlice_spec bs : bytes_ok bs ->
  exists s rest ok, readLengthPrefixedSlice bs = Ok (s, rest, ok) /\ bytes_ok rest /\
                    (ok = true -> len rest + 4 <= len bs) /\ (ok = false -> rest = bs).
Proof.
  intros Hb. unfold readLengthPrefixedSlice.
  destruct (readUint32_spec bs Hb) as (v & after & ok & -> & Hv & Ha & H1 & H2). cbn [bind].
  destruct ok; cbn [andb].
  - specialize (H1 eq_refl). destruct (v <=? len after) eqn:E.
    + rewrite upto_ok by lia. cbn [bind]. rewrite from_ok by lia. cbn [bind].
      eexists; eexists; exists true. split; [reflexivity|]. split; [apply bytes_ok_skipn; exact Ha|].
      split; [intros _; rewrite len_skipn; lia|discriminate].
    + exists [], bs, false. split; [reflexivity|]. split; [exact Hb|]. split; [discriminate|reflexivity].
  - exists [], bs, false. split; [reflexivity|]. split; [exact Hb|]. split; [discriminate|reflexivity].
Qed.

Lemma readLengthPrefixedSlice_total bs : bytes_ok bs -> safe (readLengthPrefixedSlice bs).
Proof.
  intros Hb. destruct (readLengthPrefixedSlice_spec bs Hb) as (s & rest & ok & E & _).
  exists (s, rest, ok). exact E.
Qed.

(* the full statement "decodePacket never crashes" is false of the faithful model:
   an id-only packet (visit reads bytes[0] of an empty slice), a truncated
   bool, and an unknown kind byte all crash *)
Lemma decodePacket_crash_id_only : decodePacket [0; 0; 0; 0] = Crash.
Proof. vm_compute. reflexivity. Qed.
Lemma decodePacket_crash_truncated_bool : decodePacket [2; 0; 0; 0; 1] = Crash.
Proof. vm_compute. reflexivity. Qed.
Lemma decodePacket_crash_unknown_kind : decodePacket [2; 0; 0; 0; 7] = Crash.
Proof. vm_compute. reflexivity. Qed.
Lemma decodePacket_crash_truncated_array : decodePacket [2; 0; 0; 0; 5; 2; 0; 0; 0; 0] = Crash.
Proof. vm_compute. reflexivity. Qed.

(* ---- decodePacket never hangs (it may crash, see the crash witnesses above) ---- *)
Definition VSpec (vis : list Z -> res (option (pval * list Z))) (F : nat) : Prop :=
  forall bs, bytes_ok bs -> (length bs < F)%nat ->
    vis bs <> Hang /\
    forall v rest, vis bs = Ok (Some (v, rest)) -> bytes_ok rest /\ (length rest < length bs)%nat.

Ltac crashy := split; [discriminate | intros ? ? HH; discriminate HH].

Lemma items_spec vis F : VSpec vis F -> forall g k bs acc, bytes_ok bs -> (length bs < F)%nat -> (length bs < g)%nat ->
  items vis g k bs acc <> Hang /\
  forall v rest, items vis g k bs acc = Ok (Some (v, rest)) -> bytes_ok rest /\ (length rest <= length bs)%nat.
Proof.
  intros HV g. induction g as [|g IH]; intros k bs acc Hb HF Hg; [lia|].
  cbn [items]. destruct (k <=? 0).
  { split; [discriminate|]. intros v rest E. inversion E; subst. split; [exact Hb|lia]. }
  destruct (HV bs Hb HF) as [Hnh Hpost].
  destruct (vis bs) as [r| |] eqn:Ev; cbn [bind]; [|crashy|congruence].
  destruct r as [[v bs']|]; [|crashy].
  destruct (Hpost v bs' eq_refl) as [Hb' Hl'].
  destruct (IH (k - 1) bs' (v :: acc) Hb' ltac:(lia) ltac:(lia)) as [H1 H2].
  split; [exact H1|]. intros v0 rest E. destruct (H2 v0 rest E) as [H3 H4]. split; [exact H3|lia].
Qed.

Lemma rlps_nat bs s rest : bytes_ok bs -> readLengthPrefixedSlice bs = Ok (s, rest, true) ->
  bytes_ok rest /\ (length rest + 4 <= length bs)%nat.
Proof.
  intros Hb E. destruct (readLengthPrefixedSlice_spec bs Hb) as (s' & rest' & ok' & E' & Hr & H1 & _).
  rewrite E in E'. inversion E'; subst. specialize (H1 eq_refl). unfold len in H1. split; [exact Hr|lia].
Qed.

Lemma ru32_nat bs v rest : bytes_ok bs -> readUint32 bs = Ok (v, rest, true) ->
  bytes_ok rest /\ (length rest + 4 = length bs)%nat.
Proof.
  intros Hb E. destruct (readUint32_spec bs Hb) as (v' & rest' & ok' & E' & _ & Hr & H1 & _).
  rewrite E in E'. inversion E'; subst. specialize (H1 eq_refl). unfold len in H1. split; [exact Hr|lia].
Qed.

Lemma entries_spec vis F : VSpec vis F -> forall g k bs acc, bytes_ok bs -> (length bs < F)%nat -> (length bs < g)%nat ->
  entries vis g k bs acc <> Hang /\
  forall v rest, entries vis g k bs acc = Ok (Some (v, rest)) -> bytes_ok rest /\ (length rest <= length bs)%nat.
Proof.
  intros HV g. induction g as [|g IH]; intros k bs acc Hb HF Hg; [lia|].
  cbn [entries]. destruct (k <=? 0).
  { split; [discriminate|]. intros v rest E. inversion E; subst. split; [exact Hb|lia]. }
  destruct (readLengthPrefixedSlice_spec bs Hb) as (key & next & ok & Er & _). rewrite Er. cbn [bind].
  destruct ok; cbn [negb]; [|crashy].
  destruct (rlps_nat bs key next Hb Er) as [Hbn Hln].
  destruct (HV next Hbn ltac:(lia)) as [Hnh Hpost].
  destruct (vis next) as [r| |] eqn:Ev; cbn [bind]; [|crashy|congruence].
  destruct r as [[v bs']|]; [|crashy].
  destruct (Hpost v bs' eq_refl) as [Hb' Hl'].
  destruct (IH (k - 1) bs' ((key, v) :: acc) Hb' ltac:(lia) ltac:(lia)) as [H1 H2].
  split; [exact H1|]. intros v0 rest E. destruct (H2 v0 rest E) as [H3 H4]. split; [exact H3|lia].
Qed.

Lemma idx_nohang l i : idx l i <> Hang.
Proof. unfold idx. destruct (i <? 0); [discriminate|]. destruct (nth_error l (Z.to_nat i)); discriminate. Qed.

Lemma visit_spec fuel : VSpec (visit fuel) fuel.
Proof.
  induction fuel as [|f IH]; intros bs Hb Hf; [lia|].
  cbn [visit].
  destruct bs as [|kind bs1].
  { cbn. crashy. }
  assert (Hb1 : bytes_ok bs1) by (inversion Hb; assumption).
  change (idx (kind :: bs1) 0) with (Ok kind : res Z). cbn [bind].
  change (from (kind :: bs1) 1) with (if (0 <=? 1) && (1 <=? len (kind :: bs1)) then Ok (skipn (Z.to_nat 1) (kind :: bs1)) else Crash).
  rewrite len_cons. pose proof (len_nonneg bs1).
  destruct ((0 <=? 1) && (1 <=? 1 + len bs1)) eqn:E1; [|lia].
  change (skipn (Z.to_nat 1) (kind :: bs1)) with bs1. cbn [bind length] in *.
  destruct (kind =? 0).
  { split; [discriminate|]. intros v rest E. inversion E; subst. split; [exact Hb1|lia]. }
  destruct (kind =? 1).
  { destruct bs1 as [|b bs2]; [cbn; crashy|].
    change (idx (b :: bs2) 0) with (Ok b : res Z). cbn [bind].
    unfold from. rewrite len_cons. pose proof (len_nonneg bs2).
    destruct ((0 <=? 1) && (1 <=? 1 + len bs2)) eqn:E2; [|lia]. cbn [bind].
    split; [discriminate|]. intros v rest E. inversion E; subst. cbn [skipn Z.to_nat Pos.to_nat Pos.iter_op Nat.add]. 
    split; [inversion Hb1; assumption|cbn [length]; lia]. }
  destruct (kind =? 2).
  { destruct (readUint32_spec bs1 Hb1) as (v & next & ok & Er & _). rewrite Er. cbn [bind].
    destruct ok; [|crashy]. destruct (ru32_nat bs1 v next Hb1 Er) as [Hbn Hln].
    split; [discriminate|]. intros v0 rest E. inversion E; subst. split; [exact Hbn|lia]. }
  destruct (kind =? 3).
  { destruct (readLengthPrefixedSlice_spec bs1 Hb1) as (s & next & ok & Er & _). rewrite Er. cbn [bind].
    destruct ok; [|crashy]. destruct (rlps_nat bs1 s next Hb1 Er) as [Hbn Hln].
    split; [discriminate|]. intros v0 rest E. inversion E; subst. split; [exact Hbn|lia]. }
  destruct (kind =? 4).
  { destruct (readLengthPrefixedSlice_spec bs1 Hb1) as (s & next & ok & Er & _). rewrite Er. cbn [bind].
    destruct ok; [|crashy]. destruct (rlps_nat bs1 s next Hb1 Er) as [Hbn Hln].
    split; [discriminate|]. intros v0 rest E. inversion E; subst. split; [exact Hbn|lia]. }
  destruct (kind =? 5).
  { destruct (readUint32_spec bs1 Hb1) as (count & next & ok & Er & _). rewrite Er. cbn [bind].
    destruct ok; cbn [negb]; [|crashy]. destruct (ru32_nat bs1 count next Hb1 Er) as [Hbn Hln].
    destruct (items_spec (visit f) f IH f count next [] Hbn ltac:(lia) ltac:(lia)) as [H1 H2].
    split; [exact H1|]. intros v0 rest E. destruct (H2 v0 rest E). split; [assumption|lia]. }
  destruct (kind =? 6).
  { destruct (readUint32_spec bs1 Hb1) as (count & next & ok & Er & _). rewrite Er. cbn [bind].
    destruct ok; cbn [negb]; [|crashy]. destruct (ru32_nat bs1 count next Hb1 Er) as [Hbn Hln].
    destruct (entries_spec (visit f) f IH f count next [] Hbn ltac:(lia) ltac:(lia)) as [H1 H2].
    split; [exact H1|]. intros v0 rest E. destruct (H2 v0 rest E). split; [assumption|lia]. }
  crashy.
Qed.

(* every byte string: decodePacket terminates (with a value, a refusal, or - see above - a crash) *)
Lemma decodePacket_nohang bs : bytes_ok bs -> decodePacket bs <> Hang.
Proof.
  intros Hb. unfold decodePacket.
  destruct (readUint32_spec bs Hb) as (id & bs' & ok & Er & _). rewrite Er. cbn [bind].
  destruct ok; cbn [negb]; [|discriminate].
  destruct (ru32_nat bs id bs' Hb Er) as [Hb' Hl'].
  destruct (visit_spec (S (S (length bs))) bs' Hb' ltac:(lia)) as [Hnh _].
  destruct (visit (S (S (length bs))) bs') as [r| |]; cbn [bind]; [|discriminate|congruence].
  destruct r as [[v rest]|]; [|discriminate]. destruct (negb (len rest =? 0)); discriminate.
Qed.
