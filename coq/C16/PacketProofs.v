(* C16 proofs: readUint32/readLengthPrefixedSlice are total on bytes;
   decodePacket is refuted (crashes on truncated packets and unknown kinds). *)
From V Require Import Common.Base C16.Checked C16.Packet C16.Wtf8Proofs.

Lemma bytes_ok_nth s i v : bytes_ok s -> nth_error s i = Some v -> 0 <= v < 256.
Proof.
  unfold bytes_ok. intros H. revert i. induction H as [|x l Hx Hl IH]; intros i E.
  - destruct i; discriminate.
  - destruct i as [|i]; [inversion E; subst; exact Hx|exact (IH i E)].
Qed.

Lemma readUint32_spec bs : bytes_ok bs ->
  exists v rest ok, readUint32 bs = Ok (v, rest, ok) /\ 0 <= v < 2 ^ 32 /\ bytes_ok rest /\
                    (ok = true -> len rest = len bs - 4) /\ (ok = false -> rest = bs).
Proof.
  intros Hb. unfold readUint32. destruct (4 <=? len bs) eqn:E.
  - destruct (idx_ok bs 0 ltac:(lia)) as [b0 [-> N0]]. destruct (idx_ok bs 1 ltac:(lia)) as [b1 [-> N1]].
    destruct (idx_ok bs 2 ltac:(lia)) as [b2 [-> N2]]. destruct (idx_ok bs 3 ltac:(lia)) as [b3 [-> N3]].
    cbn [bind]. rewrite from_ok by lia. cbn [bind].
    pose proof (bytes_ok_nth _ _ _ Hb N0). pose proof (bytes_ok_nth _ _ _ Hb N1).
    pose proof (bytes_ok_nth _ _ _ Hb N2). pose proof (bytes_ok_nth _ _ _ Hb N3).
    eexists; eexists; exists true. split; [reflexivity|]. split; [lia|]. split; [apply bytes_ok_skipn; exact Hb|].
    split; [intros _; rewrite len_skipn; lia|discriminate].
  - exists 0, bs, false. split; [reflexivity|]. split; [lia|]. split; [exact Hb|]. split; [discriminate|reflexivity].
Qed.

Lemma readLengthPrefixedSlice_spec bs : bytes_ok bs ->
  exists s rest ok, readLengthPrefixedSlice bs = Ok (s, rest, ok) /\ bytes_ok rest /\
                    (ok = true -> len rest + 4 <= len bs) /\ (ok = false -> rest = bs).
Proof.
  intros Hb. unfold readLengthPrefixedSlice.
  destruct (readUint32_spec bs Hb) as (v & after & ok & -> & Hv & Ha & H1 & H2). cbn [bind].
  destruct ok; cbn [andb].
  - specialize (H1 eq_refl). destruct (v <=? len after) eqn:E.
    + rewrite upto_ok by lia. cbn [bind]. rewrite from_ok by lia. cbn [bind].
      eexists; eexists; exists true. split; [reflexivity|]. split; [apply bytes_ok_skipn; exact Ha|].
      split; [intros _; rewrite len_skipn; lia|discriminate].
    + exists [], bs, false. split; [reflexivity|]. split; [exact Hb|]. split; [discriminate|reflexivity].
  - exists [], bs, false. split; [reflexivity|]. split; [exact Hb|]. split; [discriminate|reflexivity].
Qed.

Lemma readLengthPrefixedSlice_total bs : bytes_ok bs -> safe (readLengthPrefixedSlice bs).
Proof.
  intros Hb. destruct (readLengthPrefixedSlice_spec bs Hb) as (s & rest & ok & E & _).
  exists (s, rest, ok). exact E.
Qed.

(* the full statement "decodePacket never crashes" is false of the faithful model:
   an id-only packet (visit reads bytes[0] of an empty slice), a truncated
   bool, and an unknown kind byte all crash *)
Lemma decodePacket_crash_id_only : decodePacket [0; 0; 0; 0] = Crash.
Proof. vm_compute. reflexivity. Qed.
Lemma decodePacket_crash_truncated_bool : decodePacket [2; 0; 0; 0; 1] = Crash.
Proof. vm_compute. reflexivity. Qed.
Lemma decodePacket_crash_unknown_kind : decodePacket [2; 0; 0; 0; 7] = Crash.
Proof. vm_compute. reflexivity. Qed.
Lemma decodePacket_crash_truncated_array : decodePacket [2; 0; 0; 0; 5; 2; 0; 0; 0; 0] = Crash.
Proof. vm_compute. reflexivity. Qed.
