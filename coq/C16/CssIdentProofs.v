(* C16 proofs: RangeOfIdentifier with the end-of-text test never crashes and
   never hangs; without it (pinned snapshot) it hangs on the one-byte text "x". *)
From V Require Import Common.Base C16.Checked C16.Wtf8 C16.Wtf8Proofs C16.CssIdent.

Lemma utf8_decode_nil : utf8_decode [] = (RuneError, 0).
Proof. reflexivity. Qed.

Lemma utf8_decode_spec t : bytes_ok t -> t <> [] ->
  exists c w, utf8_decode t = (c, w) /\ 1 <= w <= len t.
Proof.
  intros Hb Hne. unfold utf8_decode.
  destruct (decode_spec t Hne Hb) as (c & w & -> & Hw & Hl & _).
  destruct ((55296 <=? c) && (c <=? 57343)).
  - exists RuneError, 1. split; [reflexivity|]. lia.
  - exists c, w. split; [reflexivity|]. lia.
Qed.

(* any position: width between 0 and the rest *)
Lemma utf8_decode_any text i : bytes_ok text -> 0 <= i <= len text ->
  exists c w, utf8_decode (skipn (Z.to_nat i) text) = (c, w) /\ 0 <= w <= len text - i /\
              (i < len text -> 1 <= w).
Proof.
  intros Hb Hi.
  assert (L : len (skipn (Z.to_nat i) text) = len text - i) by (rewrite len_skipn; lia).
  destruct (skipn (Z.to_nat i) text) as [|a r] eqn:E.
  - exists RuneError, 0. split; [reflexivity|]. rewrite len_nil in L. lia.
  - destruct (utf8_decode_spec (a :: r)) as (c & w & Ed & Hw).
    + rewrite <- E. apply bytes_ok_skipn. exact Hb.
    + discriminate.
    + exists c, w. split; [exact Ed|]. lia.
Qed.

Section ROIProofs.
  Variable text : list Z.
  Hypothesis Hb : bytes_ok text.
  Let n := len text.

  Lemma hex5_ok k : forall i c w, 0 <= i -> 0 <= w -> i + w <= n ->
    exists i' c' w', hex5 text k i c w = Ok (i', c', w') /\ i <= i' /\ 0 <= w' /\ i' + w' <= n.
  Proof.
    induction k as [|k IH]; intros i c w Hi Hw Hl; cbn [hex5].
    - exists i, c, w. split; [reflexivity|lia].
    - destruct (negb (isHex c)); [exists i, c, w; split; [reflexivity|lia]|].
      rewrite from_ok by (fold n; lia). cbn [bind].
      destruct (utf8_decode_any text (i + w) Hb ltac:(fold n; lia)) as (c' & w' & -> & Hw' & _).
      destruct (IH (i + w) c' w') as (i2 & c2 & w2 & E & H1 & H2 & H3); [lia|lia|fold n in Hw'; lia|].
      exists i2, c2, w2. split; [exact E|lia].
  Qed.

  Lemma roi_loop_ok fuel : forall i, 0 <= i <= n -> (Z.to_nat (n - i) < fuel)%nat ->
    exists e, roi_loop true text fuel i = Ok e /\ i <= e <= n.
  Proof.
    induction fuel as [|f IH]; intros i Hi Hf; [lia|].
    cbn [roi_loop andb]. fold n.
    destruct (i <? n) eqn:Ei; cbn [negb]; [|exists i; split; [reflexivity|lia]].
    rewrite from_ok by (fold n; lia). cbn [bind].
    destruct (utf8_decode_any text i Hb ltac:(fold n; lia)) as (c & w & -> & Hw & Hw1).
    fold n in Hw, Hw1. specialize (Hw1 ltac:(lia)).
    destruct (IsNameContinue c).
    { destruct (IH (i + w)) as (e & E & He); [lia|lia|]. exists e. split; [exact E|lia]. }
    destruct ((c =? 92) && (i + 1 <? n)) eqn:Eesc.
    2:{ cbn [bind]. exists i. split; [reflexivity|lia]. }
    destruct (idx_ok' text (i + 1) ltac:(fold n; lia)) as [c1 ->]. cbn [bind].
    destruct (negb (isNewline c1)); [|exists i; split; [reflexivity|lia]].
    rewrite from_ok by (fold n; lia). cbn [bind].
    destruct (utf8_decode_any text (i + w) Hb ltac:(fold n; lia)) as (c2 & w2 & -> & Hw2 & _).
    fold n in Hw2.
    destruct (isHex c2).
    - rewrite from_ok by (fold n; lia). cbn [bind].
      destruct (utf8_decode_any text (i + w + w2) Hb ltac:(fold n; lia)) as (c3 & w3 & -> & Hw3 & _).
      fold n in Hw3.
      destruct (hex5_ok 5 (i + w + w2) c3 w3) as (i4 & c4 & w4 & -> & H1 & H2 & H3); [lia|lia|lia|].
      cbn [bind].
      destruct (isWhitespace c4).
      + destruct (IH (i4 + w4)) as (e & E & He); [lia|lia|]. exists e. split; [exact E|lia].
      + destruct (IH i4) as (e & E & He); [lia|lia|]. exists e. split; [exact E|lia].
    - destruct (IH (i + w)) as (e & E & He); [lia|lia|]. exists e. split; [exact E|lia].
  Qed.

  Lemma RangeOfIdentifier_guarded_total : safe (RangeOfIdentifier true text).
  Proof.
    unfold RangeOfIdentifier, RangeOfIdentifier_fuel, safe. fold n.
    destruct (n =? 0) eqn:E0; [eexists; reflexivity|].
    pose proof (len_nonneg text) as Hn. fold n in Hn.
    destruct (roi_loop_ok (S (length text)) 0 ltac:(lia)) as (e & -> & He).
    { unfold n, len. lia. }
    cbn [bind]. destruct (0 <? e) eqn:E1; [|eexists; reflexivity].
    destruct (idx_ok' text (e - 1) ltac:(fold n; lia)) as [c ->]. cbn [bind]. eexists; reflexivity.
  Qed.
End ROIProofs.

(* the unguarded loop (pinned snapshot): on the text "x" the scan reaches the
   end of the text and stays there: Hang for every amount of fuel *)
Lemma roi_unguarded_spins fuel : roi_loop false [120] fuel 1 = Hang.
Proof.
  induction fuel as [|f IH]; [reflexivity|].
  change (roi_loop false [120] (S f) 1) with (roi_loop false [120] f (1 + 0)). exact IH.
Qed.

Lemma RangeOfIdentifier_unguarded_hangs fuel : RangeOfIdentifier_fuel false [120] fuel = Hang.
Proof.
  unfold RangeOfIdentifier_fuel. change (len [120] =? 0) with false. cbv iota.
  destruct fuel as [|f]; [reflexivity|].
  change (roi_loop false [120] (S f) 0) with (roi_loop false [120] f (0 + 1)).
  change (0 + 1) with 1. rewrite roi_unguarded_spins. reflexivity.
Qed.
