(* findReachableFiles (DFS post-order) lists no file twice; hence no chunk lists a file twice. *)
From V Require Import Common.Base C10.BitSet C10.Renamer C10.Split C10.BitSetProofs C10.RenamerProofs C10.ListLemmas C10.SplitProofs.
From Coq Require Import Permutation.

Definition st_inv (st : list nat * list nat) : Prop := NoDup (snd st) /\ incl (snd st) (fst st).
Definition st_step (s0 s1 : list nat * list nat) : Prop :=
  incl (fst s0) (fst s1) /\ (st_inv s0 -> st_inv s1) /\
  (forall x, In x (snd s1) -> In x (snd s0) \/ ~ In x (fst s0)).

Lemma st_step_refl s : st_step s s.
Proof. split; [apply incl_refl|]. split; [tauto|]. intros x Hx. left. exact Hx. Qed.
Lemma st_step_trans s0 s1 s2 : st_step s0 s1 -> st_step s1 s2 -> st_step s0 s2.
Proof.
  intros [A1 [B1 C1]] [A2 [B2 C2]]. split; [eapply incl_tran; eauto|]. split.
  - intros H; apply B2, B1; exact H.
  - intros x Hx. destruct (C2 x Hx) as [H|H]; [apply C1; exact H|]. right. intro Hc. apply H. apply A1. exact Hc.
Qed.

Lemma fold_step {A} (F : A -> list nat * list nat -> list nat * list nat) (l : list A) :
  (forall x s, In x l -> st_step s (F x s)) -> forall s, st_step s (fold_left (fun s x => F x s) l s).
Proof.
  induction l as [|x l IH]; intros H s; simpl; [apply st_step_refl|].
  eapply st_step_trans; [apply H; left; reflexivity|]. apply IH. intros y s' Hy. apply H. right. exact Hy.
Qed.

Lemma gvisit_step succ : forall fuel f s, st_step s (gvisit fuel succ f s).
Proof.
  induction fuel as [|k IH]; intros f [vis ord]; simpl; [apply st_step_refl|].
  destruct (memn f vis) eqn:E; [apply st_step_refl|].
  apply memn_false in E.
  pose proof (fold_step (fun y s => gvisit k succ y s) (succ f)
                (fun x s _ => IH x s) (f :: vis, ord)) as [A [B C]].
  destruct (fold_left _ (succ f) (f :: vis, ord)) as [vis' ord'] eqn:EF. simpl in *.
  unfold st_step, st_inv in *; simpl in *. split; [|split].
  - intros x Hx. apply A. right. exact Hx.
  - intros [ND IN].
    destruct B as [ND' IN']; [split; [exact ND | intros x Hx; right; apply IN; exact Hx]|].
    split.
    + apply nodup_app; [exact ND' | constructor; [intros [] | constructor] |].
      intros x Hx [Ex|[]]. subst x. destruct (C f Hx) as [H|H]; [apply E, IN; exact H | apply H; left; reflexivity].
    + intros x Hx. apply in_app_or in Hx as [Hx|[<-|[]]]; [apply IN'; exact Hx | apply A; left; reflexivity].
  - intros x Hx. apply in_app_or in Hx as [Hx|[<-|[]]].
    + destruct (C x Hx) as [H|H]; [left; exact H | right; intro Hc; apply H; right; exact Hc].
    + right. exact E.
Qed.

(* the post-order walk never lists a node twice (any graph, any fuel) *)
Lemma postorder_nodup fuel succ roots : NoDup (postorder fuel succ roots).
Proof.
  unfold postorder.
  pose proof (fold_step (fun e s => gvisit fuel succ e s) roots
                (fun x s _ => gvisit_step succ fuel x s) ([], [])) as [_ [B _]].
  destruct B as [ND _]; [split; simpl; [constructor | intros x []]|]. exact ND.
Qed.

Lemma reachable_files_nodup g : NoDup (reachable_files g).
Proof. apply postorder_nodup. Qed.

Lemma chunk_files_nodup_lemma g a c : analyse g = Some a -> In c (a_chunks a) -> NoDup (c_files c).
Proof.
  intros H Hc. apply (chunk_In _ _ _ H) in Hc. unfold pre_chunks in Hc.
  apply in_map_iff in Hc as [c0 [E _]]. subst c. unfold fill; simpl.
  apply NoDup_filter. unfold lfiles. apply NoDup_filter.
  destruct (analyse_inv _ _ H) as [HO _]. rewrite HO. apply reachable_files_nodup.
Qed.

Theorem chunk_files_nodup_all g r c : split g = Some r -> In c (a_chunks (r_analysis r)) -> NoDup (c_files c).
Proof. intro H. apply split_inv in H as [A _]. apply (chunk_files_nodup_lemma g). exact A. Qed.

(* ------------------------------------------------------------------ *)
(* soundness of the layered closure: everything in it is reachable from a root *)
Lemma new_layer_sound succ ok seen layer t :
  In t (new_layer succ ok seen layer) -> In t (flat_map succ layer) /\ ok t = true.
Proof.
  unfold new_layer.
  assert (G : forall l acc, (forall x, In x acc -> In x (flat_map succ layer) /\ ok x = true) ->
            incl l (flat_map succ layer) ->
            forall x, In x (fold_left (fun acc t => if ok t && negb (memn t seen) && negb (memn t acc) then acc ++ [t] else acc) l acc) ->
            In x (flat_map succ layer) /\ ok x = true).
  { induction l as [|y l IH]; intros acc HA HI x Hx; simpl in Hx; [apply HA; exact Hx|].
    apply (IH (if ok y && negb (memn y seen) && negb (memn y acc) then acc ++ [y] else acc)); [| intros z Hz; apply HI; right; exact Hz | exact Hx].
    intros z Hz. destruct (ok y && negb (memn y seen) && negb (memn y acc)) eqn:E; [|apply HA; exact Hz].
    apply in_app_or in Hz as [Hz|[<-|[]]]; [apply HA; exact Hz|].
    split; [apply HI; left; reflexivity|]. apply andb_true_iff in E as [E _]. apply andb_true_iff in E as [E _]. exact E. }
  apply (G (flat_map succ layer) []); [intros x [] | apply incl_refl].
Qed.

Lemma bfs_sound succ ok (R : nat -> Prop) :
  (forall y t, R y -> In t (succ y) -> ok t = true -> R t) ->
  forall fuel seen layer d acc,
    (forall y, In y layer -> R y) -> (forall p, In p acc -> R (fst p)) ->
    forall p, In p (bfs fuel succ ok seen layer d acc) -> R (fst p).
Proof.
  intros HR. induction fuel as [|k IH]; intros seen layer d acc HL HA p Hp; simpl in Hp; [apply HA; exact Hp|].
  destruct (new_layer succ ok seen layer) as [|y next] eqn:E; [apply HA; exact Hp|].
  assert (HN : forall t, In t (y :: next) -> R t).
  { intros t Ht. rewrite <- E in Ht. apply new_layer_sound in Ht as [Ht Hok].
    apply in_flat_map in Ht as [z [Hz Ht]]. eapply HR; eauto. }
  apply (IH _ _ _ _ HN) in Hp; [exact Hp|].
  intros q Hq. apply in_app_or in Hq as [Hq|Hq]; [apply HA; exact Hq|].
  change ((y, S d) :: map (fun t : nat => (t, S d)) next) with (map (fun t : nat => (t, S d)) (y :: next)) in Hq.
  apply in_map_iff in Hq as [t [<- Ht]]. simpl. apply HN. exact Ht.
Qed.

Lemma closure_sound fuel succ ok roots r x : closure fuel succ ok roots = Some r -> In x (map fst r) ->
  exists root, In root roots /\ path succ ok root x.
Proof.
  unfold closure. intros H Hx. destruct (closedb succ ok _); [|discriminate]. inversion H; subst; clear H.
  apply in_map_iff in Hx as [p [<- Hp]].
  apply (bfs_sound succ ok (fun x => exists root, In root roots /\ path succ ok root x)) in Hp; [exact Hp | | |].
  - intros y t [root [Hr HP]] Ht Hok. exists root. split; [exact Hr|]. eapply path_step; eauto.
  - intros y Hy. apply (proj1 (dedupe_In _ _)) in Hy. apply filter_In in Hy as [Hy _]. exists y. split; [exact Hy | apply path_refl].
  - intros q Hq. apply in_map_iff in Hq as [t [<- Ht]]. simpl.
    apply (proj1 (dedupe_In _ _)) in Ht. apply filter_In in Ht as [Ht _]. exists t. split; [exact Ht | apply path_refl].
Qed.

(* bit j of a file is set exactly when the file is reachable from entry point j
   (over live files, not following import() of other entry points) *)
Lemma bits_iff_reachable_lemma g a f j : analyse g = Some a -> (j < length (a_entries a))%nat ->
  (HasBit (file_bits a f) j = true <->
   path (split_succ g (a_entries a)) (is_live a) (nth j (a_entries a) O) f).
Proof.
  intros H Hj. rewrite (file_bits_spec g) by assumption. rewrite memn_In. split.
  - intro Hin. destruct (analyse_inv _ _ H) as [_ [HE [_ [_ AS]]]].
    pose proof (all_some_nth _ _ j [] AS) as N. rewrite map_length in N. rewrite HE in Hj. specialize (N Hj).
    set (F := fun e => closure (S (nfiles g)) (split_succ g (entries g)) (fun t => memn t (a_live a)) [e]) in *.
    rewrite (nth_indep _ None (F O)) in N by (rewrite map_length; exact Hj).
    rewrite map_nth in N. unfold F in N.
    destruct (closure_sound _ _ _ _ _ f N Hin) as [root [[<-|[]] HP]]. rewrite HE. exact HP.
  - intro HP. destruct (reach_closed _ _ j H Hj) as [C R].
    eapply closed_path; [exact C | apply R; apply (entry_is_live g); assumption | exact HP].
Qed.

Theorem bits_iff_reachable_all g r f j : split g = Some r ->
  let a := r_analysis r in
  (j < length (a_entries a))%nat ->
  (HasBit (file_bits a f) j = true <->
   path (split_succ g (a_entries a)) (is_live a) (nth j (a_entries a) O) f).
Proof. intro H. apply split_inv in H as [A _]. simpl. apply (bits_iff_reachable_lemma g). exact A. Qed.
