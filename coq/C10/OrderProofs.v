(* findReachableFiles (DFS post-order) lists no file twice; hence no chunk lists a file twice. *)
From V Require Import Common.Base C10.BitSet C10.Renamer C10.Split C10.BitSetProofs C10.RenamerProofs C10.ListLemmas C10.SplitProofs.
From Coq Require Import Permutation.

Definition st_inv (st : list nat * list nat) : Prop := NoDup (snd st) /\ incl (snd st) (fst st).
Definition st_step (s0 s1 : list nat * list nat) : Prop :=
  incl (fst s0) (fst s1) /\ (st_inv s0 -> st_inv s1) /\
  (forall x, In x (snd s1) -> In x (snd s0) \/ ~ In x (fst s0)).

Lemma st_step_refl s : st_step s s.
Proof. split; [apply incl_refl|]. split; [tauto|]. intros x Hx. left. exact Hx. Qed.
Lemma st_step_trans s0 s1 s2 : st_step s0 s1 -> st_step s1 s2 -> st_step s0 s2.
Proof.
  intros [A1 [B1 C1]] [A2 [B2 C2]]. split; [eapply incl_tran; eauto|]. split.
  - intros H; apply B2, B1; exact H.
  - intros x Hx. destruct (C2 x Hx) as [H|H]; [apply C1; exact H|]. right. intro Hc. apply H. apply A1. exact Hc.
Qed.

Lemma fold_step {A} (F : A -> list nat * list nat -> list nat * list nat) (l : list A) :
  (forall x s, In x l -> st_step s (F x s)) -> forall s, st_step s (fold_left (fun s x => F x s) l s).
Proof.
  induction l as [|x l IH]; intros H s; simpl; [apply st_step_refl|].
  eapply st_step_trans; [apply H; left; reflexivity|]. apply IH. intros y s' Hy. apply H. right. exact Hy.
Qed.

Lemma visit_step g : forall fuel f s, st_step s (visit fuel g f s).
Proof.
  induction fuel as [|k IH]; intros f [vis ord]; simpl; [apply st_step_refl|].
  destruct (memn f vis) eqn:E; [apply st_step_refl|].
  apply memn_false in E.
  pose proof (fold_step (fun (r : nat * bool) s => visit k g (fst r) s) (f_recs (getf g f))
                (fun x s _ => IH (fst x) s) (f :: vis, ord)) as [A [B C]].
  destruct (fold_left _ (f_recs (getf g f)) (f :: vis, ord)) as [vis' ord'] eqn:EF. simpl in *.
  unfold st_step, st_inv in *; simpl in *. split; [|split].
  - intros x Hx. apply A. right. exact Hx.
  - intros [ND IN].
    destruct B as [ND' IN']; [split; [exact ND | intros x Hx; right; apply IN; exact Hx]|].
    split.
    + apply nodup_app; [exact ND' | constructor; [intros [] | constructor] |].
      intros x Hx [Ex|[]]. subst x. destruct (C f Hx) as [H|H]; [apply E, IN; exact H | apply H; left; reflexivity].
    + intros x Hx. apply in_app_or in Hx as [Hx|[<-|[]]]; [apply IN'; exact Hx | apply A; left; reflexivity].
  - intros x Hx. apply in_app_or in Hx as [Hx|[<-|[]]].
    + destruct (C x Hx) as [H|H]; [left; exact H | right; intro Hc; apply H; right; exact Hc].
    + right. exact E.
Qed.

Lemma reachable_files_nodup g : NoDup (reachable_files g).
Proof.
  unfold reachable_files.
  pose proof (fold_step (fun e s => visit (S (nfiles g)) g e s) (0%nat :: g_user g)
                (fun x s _ => visit_step g (S (nfiles g)) x s) ([], [])) as [_ [B _]].
  destruct B as [ND _]; [split; simpl; [constructor | intros x []]|]. exact ND.
Qed.

Lemma chunk_files_nodup_lemma g a c : analyse g = Some a -> In c (a_chunks a) -> NoDup (c_files c).
Proof.
  intros H Hc. apply (chunk_In _ _ _ H) in Hc. unfold pre_chunks in Hc.
  apply in_map_iff in Hc as [c0 [E _]]. subst c. unfold fill; simpl.
  apply NoDup_filter. unfold lfiles. apply NoDup_filter.
  destruct (analyse_inv _ _ H) as [HO _]. rewrite HO. apply reachable_files_nodup.
Qed.

Theorem chunk_files_nodup_all g r c : split g = Some r -> In c (a_chunks (r_analysis r)) -> NoDup (c_files c).
Proof. intro H. apply split_inv in H as [A _]. apply (chunk_files_nodup_lemma g). exact A. Qed.
