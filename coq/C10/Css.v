(* The CSS side of code splitting (internal/linker/linker.go):
     computeChunks: every JS entry point that reaches CSS gets ONE CSS chunk of its own
       (key = the entry point's singleton bit set); a CSS file imported from several entry
       points is therefore DUPLICATED into each of their CSS chunks (by design);
     findImportedCSSFilesInJSOrder: memoised depth-first walk over the JS files from the entry
       point, import records in part order, collecting the CSS file of every JS stub in post-order;
     findImportedFilesInCSSOrder: NON-memoised walk over the internal "@import" rules from those
       roots (a file is skipped only when it is already on the current import chain), post-order,
       then all but the LAST copy of every file are dropped.
   Fragment: JS entry points; unconditional internal "@import" rules; no "@layer", no external
   imports, no "composes".  Executable definitions only. *)
From V Require Import Common.Base C10.BitSet C10.Renamer C10.Split.

Record cfile := mkCFile {
  cf_css : bool;                (* the file is a CSS file (CSSRepr) *)
  cf_recs : list nat;           (* JS: targets of the valid import records in part order;
                                   CSS: targets of the internal "@import" rules in rule order *)
  cf_stub : option nat          (* JS stub of a CSS file: JSRepr.CSSSourceIndex *)
}.
Definition cgraph := list cfile.
Definition nocfile := mkCFile false [] None.
Definition getc (g : cgraph) (f : nat) : cfile := nth f g nocfile.

(* findImportedCSSFilesInJSOrder *)
Definition js_succ (g : cgraph) (f : nat) : list nat :=
  filter (fun t => negb (cf_css (getc g t))) (cf_recs (getc g f)).
Definition css_roots (g : cgraph) (e : nat) : list nat :=
  flat_map (fun f => match cf_stub (getc g f) with Some c => [c] | None => [] end)
           (postorder (S (length g)) (js_succ g) [e]).

(* findImportedFilesInCSSOrder: visit(sourceIndex, visited chain) *)
Fixpoint css_walk (fuel : nat) (g : cgraph) (f : nat) (chain : list nat) : list nat :=
  match fuel with
  | O => []
  | S k =>
    if memn f chain then [] else
    flat_map (fun t => css_walk k g t (chain ++ [f])) (cf_recs (getc g f)) ++ [f]
  end.
(* the initial chain is a slice of sixteen zeros in the Go code (source index 0, the runtime,
   counts as already visited) *)
Definition css_order (g : cgraph) (roots : list nat) : list nat :=
  flat_map (fun r => css_walk (S (length g)) g r [0%nat]) roots.
(* "replace all but the last copy" *)
Definition keep_last (l : list nat) : list nat :=
  fold_right (fun x acc => if memn x acc then acc else x :: acc) [] l.

Definition css_chunk_files (g : cgraph) (e : nat) : list nat := keep_last (css_order g (css_roots g e)).

(* the CSS chunks: (entry point bit, entry file, files in order), sorted by chunk key *)
Definition css_chunks_unsorted (g : cgraph) (ents : list nat) : list (nat * nat * list nat) :=
  flat_map (fun ie => match css_roots g (snd ie) with
                      | [] => []
                      | _ => [(fst ie, snd ie, css_chunk_files g (snd ie))]
                      end) (combine (seq 0 (length ents)) ents).
Definition css_key (n : nat) (c : nat * nat * list nat) : bytes := String (SetBit (NewBitSet n) (fst (fst c))).
Fixpoint insert_css (n : nat) (c : nat * nat * list nat) (l : list (nat * nat * list nat)) :=
  match l with
  | [] => [c]
  | x :: r => if bytes_ltb (css_key n c) (css_key n x) then c :: l else x :: insert_css n c r
  end.
Definition css_chunks (g : cgraph) (ents : list nat) : list (nat * nat * list nat) :=
  fold_right (insert_css (length ents)) [] (css_chunks_unsorted g ents).

(* well-formedness of the CSS-side dump: record targets and stub indices are file indices *)
Definition wf_cgraphb (g : cgraph) : bool :=
  forallb (fun f => forallb (fun t => (t <? length g)%nat) (cf_recs f) &&
                    match cf_stub f with Some c => (c <? length g)%nat | None => true end) g.

(* no "@import" points at file 0 (the runtime) *)
Definition no_zero_targetb (g : cgraph) : bool := forallb (fun f => negb (memn 0%nat (cf_recs f))) g.
