(* Proofs about the CSS side of code splitting (Css.v). *)
From V Require Import Common.Base C10.BitSet C10.Renamer C10.Split C10.BitSetProofs C10.RenamerProofs
  C10.ListLemmas C10.SplitProofs C10.OrderProofs C10.CrossProofs C10.TotalProofs C10.DfsProofs C10.Css.
From Coq Require Import Permutation.

(* ---- keep_last ---- *)
Lemma keep_last_In l x : In x (keep_last l) <-> In x l.
Proof.
  induction l as [|y l IH]; simpl; [tauto|].
  destruct (memn y (keep_last l)) eqn:E.
  - apply memn_In in E. rewrite IH. split; [tauto|]. intros [<-|H]; [apply IH; exact E | exact H].
  - simpl. rewrite IH. tauto.
Qed.
Lemma keep_last_nodup l : NoDup (keep_last l).
Proof.
  induction l as [|y l IH]; simpl; [constructor|].
  destruct (memn y (keep_last l)) eqn:E; [exact IH|]. constructor; [apply memn_false; exact E | exact IH].
Qed.

(* ---- well-formed CSS graphs ---- *)
Lemma wf_crecs g f t : wf_cgraphb g = true -> In t (cf_recs (getc g f)) -> (t < length g)%nat.
Proof.
  unfold wf_cgraphb. intros W Ht. rewrite forallb_forall in W.
  destruct (Nat.ltb_spec f (length g)) as [Hf|Hf].
  - specialize (W (getc g f) (nth_In _ _ Hf)). apply andb_true_iff in W as [W _]. rewrite forallb_forall in W.
    apply Nat.ltb_lt. apply W. exact Ht.
  - unfold getc in Ht. rewrite nth_overflow in Ht by exact Hf. destruct Ht.
Qed.

(* ---- the "@import" walk ---- *)
(* x is reached from f along "@import" edges without passing through a file twice and without
   touching [avoid] (the files already on the import chain) *)
Inductive spath (g : cgraph) : list nat -> nat -> nat -> Prop :=
| sp_here avoid f : ~ In f avoid -> spath g avoid f f
| sp_step avoid f t x : ~ In f avoid -> In t (cf_recs (getc g f)) -> spath g (f :: avoid) t x -> spath g avoid f x.

Lemma spath_avoid_ext g a1 f x : spath g a1 f x -> forall a2, (forall y, In y a2 -> In y a1) -> spath g a2 f x.
Proof.
  intro P. induction P as [avoid f H|avoid f t x H Ht P IH]; intros a2 Hs.
  - apply sp_here. intro Hc. apply H, Hs, Hc.
  - eapply sp_step; [intro Hc; apply H, Hs, Hc | exact Ht |].
    apply IH. intros y [<-|Hy]; [left; reflexivity | right; apply Hs; exact Hy].
Qed.

Lemma css_walk_sound g : forall fuel f chain x, In x (css_walk fuel g f chain) ->
  spath g chain f x.
Proof.
  induction fuel as [|k IH]; intros f chain x H; simpl in H; [destruct H|].
  destruct (memn f chain) eqn:E; [destruct H|]. apply memn_false in E.
  apply in_app_or in H as [H|[Ex|[]]]; [|subst x; apply sp_here; exact E].
  apply in_flat_map in H as [t [Ht H]]. apply IH in H.
  eapply sp_step; [exact E | exact Ht |].
  eapply spath_avoid_ext; [exact H|]. intros y [Ey|Hy]; apply in_or_app; [right; left; exact Ey | left; exact Hy].
Qed.

Lemma css_walk_complete g : wf_cgraphb g = true ->
  forall fuel f chain x, spath g chain f x ->
    NoDup chain -> (forall y, In y chain -> (y < length g)%nat) -> (f < length g)%nat ->
    (length g < fuel + length chain)%nat ->
    In x (css_walk fuel g f chain).
Proof.
  intro W. induction fuel as [|k IH]; intros f chain x P ND HB Hf HF.
  - exfalso. simpl in HF.
    assert (incl chain (seq 0 (length g))) by (intros y Hy; apply in_seq; specialize (HB y Hy); lia).
    pose proof (NoDup_incl_length ND H) as L. rewrite seq_length in L. lia.
  - simpl. destruct P as [chain f H|chain f t x H Ht P'].
    + replace (memn f chain) with false by (symmetry; apply memn_false; exact H).
      apply in_or_app. right. left. reflexivity.
    + replace (memn f chain) with false by (symmetry; apply memn_false; exact H).
      apply in_or_app. left. apply in_flat_map. exists t. split; [exact Ht|].
      apply IH.
      * eapply spath_avoid_ext; [exact P'|]. intros y Hy. apply in_app_or in Hy as [Hy|[Ey|[]]]; [right; exact Hy | left; exact Ey].
      * apply nodup_app; [exact ND | constructor; [intros [] | constructor] |]. intros y Hy [Ey|[]]. subst y. contradiction.
      * intros y Hy. apply in_app_or in Hy as [Hy|[Ey|[]]]; [apply HB; exact Hy | subst y; exact Hf].
      * eapply wf_crecs; eauto.
      * rewrite app_length. simpl. lia.
Qed.

(* ---- the JS walk that finds the CSS roots ---- *)
Inductive jreach (g : cgraph) (e : nat) : nat -> Prop :=
| jr_refl : jreach g e e
| jr_step f t : jreach g e f -> In t (js_succ g f) -> jreach g e t.

Lemma js_succ_bounded g f t : wf_cgraphb g = true -> In t (js_succ g f) -> (t < length g)%nat.
Proof. intros W H. unfold js_succ in H. apply filter_In in H as [H _]. eapply wf_crecs; eauto. Qed.

Lemma css_roots_spec g e c : wf_cgraphb g = true -> (e < length g)%nat ->
  (In c (css_roots g e) <-> exists f, jreach g e f /\ cf_stub (getc g f) = Some c).
Proof.
  intros W He. unfold css_roots.
  destruct (postorder_spec (js_succ g) (length g) (jreach g e)
              (fun x y => js_succ_bounded g x y W) (fun x y Hx Hy => jr_step g e x y Hx Hy) [e]) as [A [B C]].
  { intros x [<-|[]]. split; [exact He | apply jr_refl]. }
  split.
  - intro H. apply in_flat_map in H as [f [Hf H]]. exists f. split; [apply C; exact Hf|].
    destruct (cf_stub (getc g f)) as [c'|]; [|destruct H]. destruct H as [<-|[]]. reflexivity.
  - intros [f [Hr Hs]]. apply in_flat_map. exists f. split; [|rewrite Hs; left; reflexivity].
    clear Hs. induction Hr as [|f t Hr IH Ht]; [apply A; left; reflexivity | apply (B f t IH Ht)].
Qed.

(* ---- the CSS chunk of an entry point ---- *)
Theorem css_chunk_exact_all g e c : wf_cgraphb g = true -> (e < length g)%nat ->
  (In c (css_chunk_files g e) <->
   exists f root, jreach g e f /\ cf_stub (getc g f) = Some root /\ spath g [0%nat] root c).
Proof.
  intros W He. unfold css_chunk_files. rewrite keep_last_In. unfold css_order. rewrite in_flat_map. split.
  - intros [root [Hr Hc]]. apply (css_roots_spec g e root W He) in Hr as [f [Hf Hs]].
    exists f, root. split; [exact Hf|]. split; [exact Hs|]. eapply css_walk_sound; eauto.
  - intros [f [root [Hf [Hs P]]]]. exists root. split; [apply (css_roots_spec g e root W He); exists f; auto|].
    apply (css_walk_complete g W); try assumption.
    + constructor; [intros [] | constructor].
    + intros y [<-|[]]. lia.
    + unfold wf_cgraphb in W. rewrite forallb_forall in W.
      destruct (Nat.ltb_spec f (length g)) as [Hfl|Hfl].
      * specialize (W (getc g f) (nth_In _ _ Hfl)). apply andb_true_iff in W as [_ W]. rewrite Hs in W. apply Nat.ltb_lt. exact W.
      * unfold getc in Hs. rewrite nth_overflow in Hs by exact Hfl. discriminate.
    + simpl. lia.
Qed.

Theorem css_chunk_nodup_all g e : NoDup (css_chunk_files g e).
Proof. apply keep_last_nodup. Qed.

(* shared CSS is duplicated (by design): a CSS file reached from two entry points is in both CSS chunks *)
Theorem css_shared_duplicated_all g e1 e2 f1 f2 r1 r2 c : wf_cgraphb g = true ->
  (e1 < length g)%nat -> (e2 < length g)%nat ->
  jreach g e1 f1 -> cf_stub (getc g f1) = Some r1 -> spath g [0%nat] r1 c ->
  jreach g e2 f2 -> cf_stub (getc g f2) = Some r2 -> spath g [0%nat] r2 c ->
  In c (css_chunk_files g e1) /\ In c (css_chunk_files g e2).
Proof.
  intros W H1 H2 J1 S1 P1 J2 S2 P2. split; apply css_chunk_exact_all; try assumption; eauto.
Qed.

(* ---- one CSS chunk per entry point that reaches CSS ---- *)
Lemma insert_css_perm n c l : Permutation (c :: l) (insert_css n c l).
Proof.
  induction l as [|x l IH]; simpl; [apply Permutation_refl|].
  destruct (bytes_ltb _ _); [apply Permutation_refl|].
  eapply perm_trans; [apply perm_swap|]. apply perm_skip. exact IH.
Qed.
Lemma css_chunks_perm g ents : Permutation (css_chunks_unsorted g ents) (css_chunks g ents).
Proof.
  unfold css_chunks. generalize (css_chunks_unsorted g ents) as l. induction l as [|x l IH]; simpl; [constructor|].
  eapply perm_trans; [apply perm_skip; exact IH|]. apply insert_css_perm.
Qed.

Lemma combine_seq_In {A} (l : list A) k i x : In (i, x) (combine (seq k (length l)) l) <->
  (k <= i)%nat /\ nth_error l (i - k) = Some x.
Proof.
  revert k; induction l as [|y l IH]; intro k; simpl.
  - split; [tauto|]. intros [_ H]. destruct (i - k)%nat; discriminate.
  - rewrite IH. split.
    + intros [H|[H1 H2]]; [inversion H; subst; rewrite Nat.sub_diag; split; [lia | reflexivity]|].
      split; [lia|]. replace (i - k)%nat with (S (i - S k)) by lia. exact H2.
    + intros [H1 H2]. destruct (Nat.eq_dec i k) as [->|Hne].
      * rewrite Nat.sub_diag in H2. simpl in H2. inversion H2. left. reflexivity.
      * right. split; [lia|]. replace (i - k)%nat with (S (i - S k)) in H2 by lia. exact H2.
Qed.

Theorem css_one_chunk_per_entry_all g ents i e fs :
  In (i, e, fs) (css_chunks g ents) <->
  nth_error ents i = Some e /\ css_roots g e <> [] /\ fs = css_chunk_files g e.
Proof.
  assert (P : In (i, e, fs) (css_chunks g ents) <-> In (i, e, fs) (css_chunks_unsorted g ents)).
  { split; intro H; [eapply Permutation_in; [apply Permutation_sym; apply css_chunks_perm | exact H]
                    | eapply Permutation_in; [apply css_chunks_perm | exact H]]. }
  rewrite P. unfold css_chunks_unsorted. rewrite in_flat_map. split.
  - intros [[i' e'] [Hc H]]. simpl in H. apply combine_seq_In in Hc as [_ Hn]. rewrite Nat.sub_0_r in Hn.
    destruct (css_roots g e') as [|r rs] eqn:ER; [destruct H|]. destruct H as [H|[]]. inversion H; subst.
    split; [exact Hn|]. split; [rewrite ER; discriminate | reflexivity].
  - intros [Hn [Hr ->]]. exists (i, e). split; [apply combine_seq_In; split; [lia | rewrite Nat.sub_0_r; exact Hn]|].
    simpl. destruct (css_roots g e); [contradiction | left; reflexivity].
Qed.

Theorem css_chunk_bits_nodup_all g ents : NoDup (map (fun c => fst (fst c)) (css_chunks g ents)).
Proof.
  eapply Permutation_NoDup; [apply Permutation_map; apply css_chunks_perm|].
  unfold css_chunks_unsorted.
  assert (G : forall k l, NoDup (map (fun c : nat * nat * list nat => fst (fst c))
             (flat_map (fun ie : nat * nat => match css_roots g (snd ie) with [] => [] | _ => [(fst ie, snd ie, css_chunk_files g (snd ie))] end)
                       (combine (seq k (length l)) l))) /\
            forall x, In x (map (fun c : nat * nat * list nat => fst (fst c))
             (flat_map (fun ie : nat * nat => match css_roots g (snd ie) with [] => [] | _ => [(fst ie, snd ie, css_chunk_files g (snd ie))] end)
                       (combine (seq k (length l)) l))) -> (k <= x)%nat).
  { intros k l. revert k. induction l as [|y l IH]; intro k; simpl; [split; [constructor | intros x []]|].
    destruct (IH (S k)) as [ND LB]. destruct (css_roots g y); simpl.
    - split; [exact ND | intros x Hx; specialize (LB x Hx); lia].
    - split; [constructor; [intro Hc; specialize (LB k Hc); lia | exact ND] | intros x [<-|Hx]; [lia | specialize (LB x Hx); lia]]. }
  apply G.
Qed.
