(* Proofs about the CSS side of code splitting (Css.v). *)
From V Require Import Common.Base C10.BitSet C10.Renamer C10.Split C10.BitSetProofs C10.RenamerProofs
  C10.ListLemmas C10.SplitProofs C10.OrderProofs C10.CrossProofs C10.TotalProofs C10.DfsProofs C10.Css.
From Coq Require Import Permutation.

(* ---- keep_last ---- *)
Lemma keep_last_In l x : In x (keep_last l) <-> In x l.
Proof.
  induction l as [|y l IH]; simpl; [tauto|].
  destruct (memn y (keep_last l)) eqn:E.
  - apply memn_In in E. rewrite IH. split; [tauto|]. intros [<-|H]; [apply IH; exact E | exact H].
  - simpl. rewrite IH. tauto.
Qed.
Lemma keep_last_nodup l : NoDup (keep_last l).
Proof.
  induction l as [|y l IH]; simpl; [constructor|].
  destruct (memn y (keep_last l)) eqn:E; [exact IH|]. constructor; [apply memn_false; exact E | exact IH].
Qed.

(* ---- well-formed CSS graphs ---- *)
Lemma wf_crecs g f t : wf_cgraphb g = true -> In t (cf_recs (getc g f)) -> (t < length g)%nat.
Proof.
  unfold wf_cgraphb. intros W Ht. rewrite forallb_forall in W.
  destruct (Nat.ltb_spec f (length g)) as [Hf|Hf].
  - specialize (W (getc g f) (nth_In _ _ Hf)). apply andb_true_iff in W as [W _]. rewrite forallb_forall in W.
    apply Nat.ltb_lt. apply W. exact Ht.
  - unfold getc in Ht. rewrite nth_overflow in Ht by exact Hf. destruct Ht.
Qed.

(* ---- the "@import" walk ---- *)
(* x is reached from f along "@import" edges without passing through a file twice and without
   touching [avoid] (the files already on the import chain) *)
Inductive spath (g : cgraph) : list nat -> nat -> nat -> Prop :=
| sp_here avoid f : ~ In f avoid -> spath g avoid f f
| sp_step avoid f t x : ~ In f avoid -> In t (cf_recs (getc g f)) -> spath g (f :: avoid) t x -> spath g avoid f x.

Lemma spath_avoid_ext g a1 f x : spath g a1 f x -> forall a2, (forall y, In y a2 -> In y a1) -> spath g a2 f x.
Proof.
  intro P. induction P as [avoid f H|avoid f t x H Ht P IH]; intros a2 Hs.
  - apply sp_here. intro Hc. apply H, Hs, Hc.
  - eapply sp_step; [intro Hc; apply H, Hs, Hc | exact Ht |].
    apply IH. intros y [<-|Hy]; [left; reflexivity | right; apply Hs; exact Hy].
Qed.

Lemma css_walk_sound g : forall fuel f chain x, In x (css_walk fuel g f chain) ->
  spath g chain f x.
Proof.
  induction fuel as [|k IH]; intros f chain x H; simpl in H; [destruct H|].
  destruct (memn f chain) eqn:E; [destruct H|]. apply memn_false in E.
  apply in_app_or in H as [H|[Ex|[]]]; [|subst x; apply sp_here; exact E].
  apply in_flat_map in H as [t [Ht H]]. apply IH in H.
  eapply sp_step; [exact E | exact Ht |].
  eapply spath_avoid_ext; [exact H|]. intros y [Ey|Hy]; apply in_or_app; [right; left; exact Ey | left; exact Hy].
Qed.

Lemma css_walk_complete g : wf_cgraphb g = true ->
  forall fuel f chain x, spath g chain f x ->
    NoDup chain -> (forall y, In y chain -> (y < length g)%nat) -> (f < length g)%nat ->
    (length g < fuel + length chain)%nat ->
    In x (css_walk fuel g f chain).
Proof.
  intro W. induction fuel as [|k IH]; intros f chain x P ND HB Hf HF.
  - exfalso. simpl in HF.
    assert (incl chain (seq 0 (length g))) by (intros y Hy; apply in_seq; specialize (HB y Hy); lia).
    pose proof (NoDup_incl_length ND H) as L. rewrite seq_length in L. lia.
  - simpl. destruct P as [chain f H|chain f t x H Ht P'].
    + replace (memn f chain) with false by (symmetry; apply memn_false; exact H).
      apply in_or_app. right. left. reflexivity.
    + replace (memn f chain) with false by (symmetry; apply memn_false; exact H).
      apply in_or_app. left. apply in_flat_map. exists t. split; [exact Ht|].
      apply IH.
      * eapply spath_avoid_ext; [exact P'|]. intros y Hy. apply in_app_or in Hy as [Hy|[Ey|[]]]; [right; exact Hy | left; exact Ey].
      * apply nodup_app; [exact ND | constructor; [intros [] | constructor] |]. intros y Hy [Ey|[]]. subst y. contradiction.
      * intros y Hy. apply in_app_or in Hy as [Hy|[Ey|[]]]; [apply HB; exact Hy | subst y; exact Hf].
      * eapply wf_crecs; eauto.
      * rewrite app_length. simpl. lia.
Qed.

(* ---- the JS walk that finds the CSS roots ---- *)
Inductive jreach (g : cgraph) (e : nat) : nat -> Prop :=
| jr_refl : jreach g e e
| jr_step f t : jreach g e f -> In t (js_succ g f) -> jreach g e t.

Lemma js_succ_bounded g f t : wf_cgraphb g = true -> In t (js_succ g f) -> (t < length g)%nat.
Proof. intros W H. unfold js_succ in H. apply filter_In in H as [H _]. eapply wf_crecs; eauto. Qed.

Lemma css_roots_spec g e c : wf_cgraphb g = true -> (e < length g)%nat ->
  (In c (css_roots g e) <-> exists f, jreach g e f /\ cf_stub (getc g f) = Some c).
Proof.
  intros W He. unfold css_roots.
  destruct (postorder_spec (js_succ g) (length g) (jreach g e)
              (fun x y => js_succ_bounded g x y W) (fun x y Hx Hy => jr_step g e x y Hx Hy) [e]) as [A [B C]].
  { intros x [<-|[]]. split; [exact He | apply jr_refl]. }
  split.
  - intro H. apply in_flat_map in H as [f [Hf H]]. exists f. split; [apply C; exact Hf|].
    destruct (cf_stub (getc g f)) as [c'|]; [|destruct H]. destruct H as [<-|[]]. reflexivity.
  - intros [f [Hr Hs]]. apply in_flat_map. exists f. split; [|rewrite Hs; left; reflexivity].
    clear Hs. induction Hr as [|f t Hr IH Ht]; [apply A; left; reflexivity | apply (B f t IH Ht)].
Qed.

(* ---- the CSS chunk of an entry point ---- *)
Theorem css_chunk_exact_all g e c : wf_cgraphb g = true -> (e < length g)%nat ->
  (In c (css_chunk_files g e) <->
   exists f root, jreach g e f /\ cf_stub (getc g f) = Some root /\ spath g [0%nat] root c).
Proof.
  intros W He. unfold css_chunk_files. rewrite keep_last_In. unfold css_order. rewrite in_flat_map. split.
  - intros [root [Hr Hc]]. apply (css_roots_spec g e root W He) in Hr as [f [Hf Hs]].
    exists f, root. split; [exact Hf|]. split; [exact Hs|]. eapply css_walk_sound; eauto.
  - intros [f [root [Hf [Hs P]]]]. exists root. split; [apply (css_roots_spec g e root W He); exists f; auto|].
    apply (css_walk_complete g W); try assumption.
    + constructor; [intros [] | constructor].
    + intros y [<-|[]]. lia.
    + unfold wf_cgraphb in W. rewrite forallb_forall in W.
      destruct (Nat.ltb_spec f (length g)) as [Hfl|Hfl].
      * specialize (W (getc g f) (nth_In _ _ Hfl)). apply andb_true_iff in W as [_ W]. rewrite Hs in W. apply Nat.ltb_lt. exact W.
      * unfold getc in Hs. rewrite nth_overflow in Hs by exact Hfl. discriminate.
    + simpl. lia.
Qed.

Theorem css_chunk_nodup_all g e : NoDup (css_chunk_files g e).
Proof. apply keep_last_nodup. Qed.

(* shared CSS is duplicated (by design): a CSS file reached from two entry points is in both CSS chunks *)
Theorem css_shared_duplicated_all g e1 e2 f1 f2 r1 r2 c : wf_cgraphb g = true ->
  (e1 < length g)%nat -> (e2 < length g)%nat ->
  jreach g e1 f1 -> cf_stub (getc g f1) = Some r1 -> spath g [0%nat] r1 c ->
  jreach g e2 f2 -> cf_stub (getc g f2) = Some r2 -> spath g [0%nat] r2 c ->
  In c (css_chunk_files g e1) /\ In c (css_chunk_files g e2).
Proof.
  intros W H1 H2 J1 S1 P1 J2 S2 P2. split; apply css_chunk_exact_all; try assumption; eauto.
Qed.

(* ---- one CSS chunk per entry point that reaches CSS ---- *)
Lemma insert_css_perm n c l : Permutation (c :: l) (insert_css n c l).
Proof.
  induction l as [|x l IH]; simpl; [apply Permutation_refl|].
  destruct (bytes_ltb _ _); [apply Permutation_refl|].
  eapply perm_trans; [apply perm_swap|]. apply perm_skip. exact IH.
Qed.
Lemma css_chunks_perm g ents : Permutation (css_chunks_unsorted g ents) (css_chunks g ents).
Proof.
  unfold css_chunks. generalize (css_chunks_unsorted g ents) as l. induction l as [|x l IH]; simpl; [constructor|].
  eapply perm_trans; [apply perm_skip; exact IH|]. apply insert_css_perm.
Qed.

Lemma combine_seq_In {A} (l : list A) k i x : In (i, x) (combine (seq k (length l)) l) <->
  (k <= i)%nat /\ nth_error l (i - k) = Some x.
Proof.
  revert k; induction l as [|y l IH]; intro k; simpl.
  - split; [tauto|]. intros [_ H]. destruct (i - k)%nat; discriminate.
  - rewrite IH. split.
    + intros [H|[H1 H2]]; [inversion H; subst; rewrite Nat.sub_diag; split; [lia | reflexivity]|].
      split; [lia|]. replace (i - k)%nat with (S (i - S k)) by lia. exact H2.
    + intros [H1 H2]. destruct (Nat.eq_dec i k) as [->|Hne].
      * rewrite Nat.sub_diag in H2. simpl in H2. inversion H2. left. reflexivity.
      * right. split; [lia|]. replace (i - k)%nat with (S (i - S k)) in H2 by lia. exact H2.
Qed.

Theorem css_one_chunk_per_entry_all g ents i e fs :
  In (i, e, fs) (css_chunks g ents) <->
  nth_error ents i = Some e /\ css_roots g e <> [] /\ fs = css_chunk_files g e.
Proof.
  assert (P : In (i, e, fs) (css_chunks g ents) <-> In (i, e, fs) (css_chunks_unsorted g ents)).
  { split; intro H; [eapply Permutation_in; [apply Permutation_sym; apply css_chunks_perm | exact H]
                    | eapply Permutation_in; [apply css_chunks_perm | exact H]]. }
  rewrite P. unfold css_chunks_unsorted. rewrite in_flat_map. split.
  - intros [[i' e'] [Hc H]]. simpl in H. apply combine_seq_In in Hc as [_ Hn]. rewrite Nat.sub_0_r in Hn.
    destruct (css_roots g e') as [|r rs] eqn:ER; [destruct H|]. destruct H as [H|[]]. inversion H; subst.
    split; [exact Hn|]. split; [rewrite ER; discriminate | reflexivity].
  - intros [Hn [Hr ->]]. exists (i, e). split; [apply combine_seq_In; split; [lia | rewrite Nat.sub_0_r; exact Hn]|].
    simpl. destruct (css_roots g e); [contradiction | left; reflexivity].
Qed.

Theorem css_chunk_bits_nodup_all g ents : NoDup (map (fun c => fst (fst c)) (css_chunks g ents)).
Proof.
  eapply Permutation_NoDup; [apply Permutation_map; apply css_chunks_perm|].
  unfold css_chunks_unsorted.
  assert (G : forall k l, NoDup (map (fun c : nat * nat * list nat => fst (fst c))
             (flat_map (fun ie : nat * nat => match css_roots g (snd ie) with [] => [] | _ => [(fst ie, snd ie, css_chunk_files g (snd ie))] end)
                       (combine (seq k (length l)) l))) /\
            forall x, In x (map (fun c : nat * nat * list nat => fst (fst c))
             (flat_map (fun ie : nat * nat => match css_roots g (snd ie) with [] => [] | _ => [(fst ie, snd ie, css_chunk_files g (snd ie))] end)
                       (combine (seq k (length l)) l))) -> (k <= x)%nat).
  { intros k l. revert k. induction l as [|y l IH]; intro k; simpl; [split; [constructor | intros x []]|].
    destruct (IH (S k)) as [ND LB]. destruct (css_roots g y); simpl.
    - split; [exact ND | intros x Hx; specialize (LB x Hx); lia].
    - split; [constructor; [intro Hc; specialize (LB k Hc); lia | exact ND] | intros x [<-|Hx]; [lia | specialize (LB x Hx); lia]]. }
  apply G.
Qed.

(* ------------------------------------------------------------------ *)
(* loop removal: ordinary reachability along "@import" edges gives a path without repetition,
   so the chunk holds everything that is reachable in the usual sense *)
Fixpoint chainp (g : cgraph) (f : nat) (l : list nat) : Prop :=
  match l with
  | [] => True
  | t :: r => In t (cf_recs (getc g f)) /\ chainp g t r
  end.

Inductive creach (g : cgraph) : nat -> nat -> Prop :=
| cr_refl f : creach g f f
| cr_step f t x : In t (cf_recs (getc g f)) -> creach g t x -> creach g f x.

Lemma last_cons_indep (l : list nat) a d d' : last (a :: l) d = last (a :: l) d'.
Proof. revert a. induction l as [|y l IH]; intro a; [reflexivity|]. change (last (y :: l) d = last (y :: l) d'). apply IH. Qed.

Lemma creach_chain g f x : creach g f x -> exists l, chainp g f l /\ last l f = x.
Proof.
  intro H. induction H as [f|f t x Ht H [l [Hc Hl]]]; [exists []; split; [exact I | reflexivity]|].
  exists (t :: l). split; [split; assumption|]. destruct l as [|y l]; [exact Hl|].
  change (last (y :: l) f = x). rewrite (last_cons_indep l y f t). exact Hl.
Qed.

Lemma last_occurrence (f : nat) l : In f l -> exists l1 l2, l = l1 ++ f :: l2 /\ ~ In f l2.
Proof.
  induction l as [|y l IH]; intro H; [destruct H|].
  destruct (in_dec Nat.eq_dec f l) as [Hl|Hl].
  - destruct (IH Hl) as [l1 [l2 [E N]]]. exists (y :: l1), l2. split; [rewrite E; reflexivity | exact N].
  - destruct H as [->|H]; [|contradiction]. exists [], l. split; [reflexivity | exact Hl].
Qed.

Lemma chainp_suffix g : forall l1 f t l2, chainp g f (l1 ++ t :: l2) -> chainp g t l2.
Proof.
  induction l1 as [|y l1 IH]; intros f t l2 H; simpl in H; [tauto|]. destruct H as [_ H]. eapply IH; eauto.
Qed.
Lemma last_suffix (l1 : list nat) t l2 d : last (l1 ++ t :: l2) d = last l2 t.
Proof.
  induction l1 as [|y l1 IH]; simpl.
  - destruct l2 as [|n l2]; [reflexivity|]. change (last (n :: l2) d = last (n :: l2) t). apply last_cons_indep.
  - destruct (l1 ++ t :: l2) eqn:E; [destruct l1; discriminate|]. exact IH.
Qed.

Lemma loop_removal g : forall n l f avoid, (length l <= n)%nat -> chainp g f l ->
  ~ In f avoid -> (forall y, In y l -> ~ In y avoid) -> spath g avoid f (last l f).
Proof.
  induction n as [|n IH]; intros l f avoid HL HC Hf Hl.
  - destruct l; [apply sp_here; exact Hf | simpl in HL; lia].
  - destruct (in_dec Nat.eq_dec f l) as [Hin|Hin].
    + destruct (last_occurrence f l Hin) as [l1 [l2 [E N]]]. subst l.
      rewrite last_suffix. apply IH.
      * rewrite app_length in HL. simpl in HL. lia.
      * eapply chainp_suffix; eauto.
      * exact Hf.
      * intros y Hy. apply Hl. apply in_or_app. right. right. exact Hy.
    + destruct l as [|t r]; [apply sp_here; exact Hf|].
      simpl in HC. destruct HC as [Ht HC].
      eapply sp_step; [exact Hf | exact Ht |].
      replace (last (t :: r) f) with (last r t) by (destruct r as [|y r]; [reflexivity | change (last (y :: r) t = last (y :: r) f); apply last_cons_indep]).
      apply IH.
      * simpl in HL. lia.
      * exact HC.
      * intros [Hc|Hc]; [apply Hin; left; symmetry; exact Hc | apply (Hl t (or_introl eq_refl)); exact Hc].
      * intros y Hy [Hc|Hc]; [apply Hin; right; rewrite Hc; exact Hy | apply (Hl y (or_intror Hy)); exact Hc].
Qed.


Lemma chain_nonzero g : no_zero_targetb g = true -> forall l f, chainp g f l -> forall y, In y l -> y <> 0%nat.
Proof.
  intros Z. induction l as [|t r IH]; intros f HC y Hy; [destruct Hy|].
  simpl in HC. destruct HC as [Ht HC]. destruct Hy as [<-|Hy]; [|eapply IH; eauto].
  intro E. subst t. unfold no_zero_targetb in Z. rewrite forallb_forall in Z.
  destruct (Nat.ltb_spec f (length g)) as [Hf|Hf].
  - specialize (Z (getc g f) (nth_In _ _ Hf)). apply negb_true_iff in Z. apply memn_false in Z. contradiction.
  - unfold getc in Ht. rewrite nth_overflow in Ht by exact Hf. destruct Ht.
Qed.

Theorem css_chunk_reachable_all g e c : wf_cgraphb g = true -> no_zero_targetb g = true -> (e < length g)%nat ->
  (In c (css_chunk_files g e) <->
   exists f root, jreach g e f /\ cf_stub (getc g f) = Some root /\ root <> 0%nat /\ creach g root c).
Proof.
  intros W Z He. rewrite (css_chunk_exact_all g e c W He). split.
  - intros [f [root [Hf [Hs P]]]]. exists f, root. split; [exact Hf|]. split; [exact Hs|].
    assert (G : forall avoid a b, spath g avoid a b -> ~ In a avoid /\ creach g a b).
    { intros avoid a b Q. induction Q as [av a H|av a t b H Ht Q [_ IH]]; split; auto; [apply cr_refl | eapply cr_step; eauto]. }
    destruct (G _ _ _ P) as [N R]. split; [intro E; apply N; left; symmetry; exact E | exact R].
  - intros [f [root [Hf [Hs [Hn R]]]]]. exists f, root. split; [exact Hf|]. split; [exact Hs|].
    destruct (creach_chain _ _ _ R) as [l [HC <-]].
    apply (loop_removal g (length l) l root [0%nat] (le_n _) HC).
    + intros [E|[]]. apply Hn. symmetry. exact E.
    + intros y Hy [E|[]]. apply (chain_nonzero g Z l root HC y Hy). symmetry. exact E.
Qed.
