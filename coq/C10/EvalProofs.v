(* The generic post-order walk lists every successor before its predecessor on acyclic
   graphs; consequences for the chunk graph; refutation of the full order claim. *)
From V Require Import Common.Base C10.BitSet C10.Renamer C10.Split C10.BitSetProofs C10.RenamerProofs
  C10.ListLemmas C10.SplitProofs C10.OrderProofs C10.CrossProofs C10.Eval C10.Harness.
From Coq Require Import Permutation Relations.

Section DFS.
Variable succ : nat -> list nat.
Variable n : nat.
Definition E (x y : nat) : Prop := In y (succ x).
Hypothesis acyclic : forall x, ~ clos_trans nat E x x.
Hypothesis bounded : forall x y, E x y -> (y < n)%nat.

Lemma before_app_r x y l m : before x y l -> before x y (l ++ m).
Proof. intros [l1 [l2 [l3 ->]]]. exists l1, l2, (l3 ++ m). rewrite <- !app_assoc. reflexivity. Qed.
Lemma before_last x y l : In x l -> before x y (l ++ [y]).
Proof.
  intro H. apply in_split in H as [l1 [l2 ->]]. exists l1, l2, []. rewrite <- !app_assoc. reflexivity.
Qed.

(* state invariant, with the stack of nodes being visited as a ghost *)
Definition inv (gray vis out : list nat) : Prop :=
  (forall v, In v vis -> In v out \/ In v gray) /\
  (forall v, In v out -> In v vis) /\
  (forall v w, In v out -> E v w -> In w out /\ before w v out).

Definition post (gray : list nat) (x : nat) (st st' : list nat * list nat) : Prop :=
  inv gray (fst st') (snd st') /\ In x (snd st') /\ incl (fst st) (fst st') /\
  exists ext, snd st' = snd st ++ ext.

Lemma fold_post k x gray :
  (forall y st, E x y -> inv (x :: gray) (fst st) (snd st) -> In x (fst st) ->
     post (x :: gray) y st (gvisit k succ y st)) ->
  forall l st, incl l (succ x) -> inv (x :: gray) (fst st) (snd st) -> In x (fst st) ->
    let st' := fold_left (fun s y => gvisit k succ y s) l st in
    inv (x :: gray) (fst st') (snd st') /\ In x (fst st') /\ incl (fst st) (fst st') /\
    (exists ext, snd st' = snd st ++ ext) /\ (forall y, In y l -> In y (snd st')).
Proof.
  intros HV. induction l as [|y l IH]; intros st Hl HI Hx; simpl.
  - split; [exact HI|]. split; [exact Hx|]. split; [apply incl_refl|]. split; [exists []; rewrite app_nil_r; reflexivity | intros y []].
  - assert (Ey : E x y) by (apply Hl; left; reflexivity).
    destruct (HV y st Ey HI Hx) as [I1 [Iy [Inc [ext Eext]]]].
    destruct (IH (gvisit k succ y st)) as [J1 [Jx [JInc [[ext2 Eext2] Jall]]]];
      [intros z Hz; apply Hl; right; exact Hz | exact I1 | apply Inc; exact Hx |].
    split; [exact J1|]. split; [exact Jx|]. split; [eapply incl_tran; eauto|]. split.
    + exists (ext ++ ext2). rewrite Eext2, Eext, app_assoc. reflexivity.
    + intros z [<-|Hz]; [rewrite Eext2; apply in_or_app; left; exact Iy | apply Jall; exact Hz].
Qed.

Lemma gvisit_post : forall fuel x gray st,
  NoDup gray -> (forall v, In v gray -> (v < n)%nat /\ clos_trans nat E v x) ->
  (x < n)%nat -> (S n <= fuel + length gray)%nat ->
  inv gray (fst st) (snd st) ->
  post gray x st (gvisit fuel succ x st).
Proof.
  induction fuel as [|k IH]; intros x gray [vis out] ND HG Hx HF HI.
  - exfalso. simpl in HF.
    assert (incl gray (seq 0 n)) by (intros v Hv; apply in_seq; destruct (HG v Hv); lia).
    pose proof (NoDup_incl_length ND H) as L. rewrite seq_length in L. lia.
  - simpl in *. destruct HI as [I1 [I2 I3]].
    destruct (memn x vis) eqn:EV.
    + apply memn_In in EV. unfold post; simpl. split; [exact (conj I1 (conj I2 I3))|].
      split; [|split; [apply incl_refl | exists []; rewrite app_nil_r; reflexivity]].
      destruct (I1 x EV) as [H|H]; [exact H|]. exfalso. destruct (HG x H) as [_ P]. exact (acyclic x P).
    + apply memn_false in EV.
      assert (HI' : inv (x :: gray) (fst (x :: vis, out)) (snd (x :: vis, out))).
      { simpl. split; [|split].
        - intros v [<-|Hv]; [right; left; reflexivity|]. destruct (I1 v Hv); [left | right; right]; assumption.
        - intros v Hv. right. apply I2. exact Hv.
        - exact I3. }
      assert (HV : forall y st, E x y -> inv (x :: gray) (fst st) (snd st) -> In x (fst st) ->
                     post (x :: gray) y st (gvisit k succ y st)).
      { intros y st Ey HIy _. apply IH; try assumption.
        - constructor; [|exact ND]. intro Hc. destruct (HG x Hc) as [_ P]. exact (acyclic x P).
        - intros v [<-|Hv]; [split; [exact Hx | apply t_step; exact Ey]|].
          destruct (HG v Hv) as [Hv1 Hv2]. split; [exact Hv1 | eapply t_trans; [exact Hv2 | apply t_step; exact Ey]].
        - eapply bounded; eauto.
        - simpl. lia. }
      pose proof (fold_post k x gray HV (succ x) (x :: vis, out) (incl_refl _) HI' (or_introl eq_refl)) as FP.
      destruct (fold_left (fun s y => gvisit k succ y s) (succ x) (x :: vis, out)) as [vis' out'] eqn:EF.
      simpl in FP. destruct FP as [[J1 [J2 J3]] [Jx [JInc [[ext Eext] Jall]]]].
      unfold post; simpl. split; [|split; [apply in_or_app; right; left; reflexivity | split]].
      * split; [|split].
        -- intros v Hv. destruct (J1 v Hv) as [H|[<-|H]]; [left; apply in_or_app; left; exact H | left; apply in_or_app; right; left; reflexivity | right; exact H].
        -- intros v Hv. apply in_app_or in Hv as [Hv|[<-|[]]]; [apply J2; exact Hv | exact Jx].
        -- intros v w Hv Hvw. apply in_app_or in Hv as [Hv|[<-|[]]].
           ++ destruct (J3 v w Hv Hvw) as [K1 K2]. split; [apply in_or_app; left; exact K1 | apply before_app_r; exact K2].
           ++ split; [apply in_or_app; left; apply Jall; exact Hvw | apply before_last; apply Jall; exact Hvw].
      * intros v Hv. apply JInc. right. exact Hv.
      * exists (ext ++ [x]). rewrite Eext, app_assoc. reflexivity.
Qed.

(* the walk from one root: every node in the output has all its successors before it *)
Lemma postorder_respects x : (x < n)%nat ->
  let out := postorder (S n) succ [x] in
  In x out /\ forall v w, In v out -> E v w -> In w out /\ before w v out.
Proof.
  intro Hx. unfold postorder. simpl fold_left.
  destruct (gvisit_post (S n) x [] ([], [])) as [[_ [_ I3]] [Ix _]].
  - constructor.
  - intros v [].
  - exact Hx.
  - simpl. lia.
  - simpl. split; [intros v []|]. split; intros v; [intros [] | intros w []].
  - split; [exact Ix | exact I3].
Qed.
End DFS.

(* ------------------------------------------------------------------ *)
(* the chunk graph: loading an entry chunk evaluates every statically imported chunk first *)
Lemma chunk_eval_respects_imports_lemma g r ci : split g = Some r ->
  (ci < length (a_chunks (r_analysis r)))%nat ->
  let out := chunk_eval_order r ci in
  In ci out /\ forall A B, In A out -> sedge (r_cross r) A B -> In B out /\ before B A out.
Proof.
  intros H Hci. pose proof (deps_cover_holds g) as HD. pose proof (static_chunk_graph_acyclic_all _ _ H) as AC.
  pose proof (split_inv _ _ H) as [A X]. pose proof (cross_chunk_length _ _ _ X) as L.
  unfold chunk_eval_order.
  apply (postorder_respects (static_succ (r_cross r)) (length (r_cross r))).
  - exact AC.
  - intros x y Exy. destruct (sedge_spec _ _ _ _ _ A X HD Exy) as [_ [Hy _]]. rewrite L. exact Hy.
  - rewrite L. exact Hci.
Qed.

Lemma static_succ_imports xs A : static_succ xs A = map i_chunk (static_imports (nth A xs dcross)).
Proof. reflexivity. Qed.

(* a symbol used by the code of chunk A and declared in another chunk B: B is evaluated before A *)
Theorem binding_chunk_evaluated_first_all g r ci A B s : split g = Some r ->
  let a := r_analysis r in
  (ci < length (a_chunks a))%nat -> In A (chunk_eval_order r ci) ->
  (A < length (a_chunks a))%nat ->
  In s (chunk_uses g (nth A (a_chunks a) dchunk)) -> chunk_of_sym g a s = Some B -> B <> A ->
  In B (chunk_eval_order r ci) /\ before B A (chunk_eval_order r ci).
Proof.
  intros H a Hci HA HAl Hs Hc Hne.
  destruct (chunk_eval_respects_imports_lemma g r ci H Hci) as [_ R].
  apply (R A B HA).
  destruct (cross_chunk_imports_exact_all g r A H HAl) as [Ex _].
  destruct (Ex s Hs) as [N|[N|[oi [im [al [E1 [E2 [E3 [E4 [E5 _]]]]]]]]]]; fold a in N || idtac.
  - fold a in N. congruence.
  - fold a in N. rewrite N in Hc. inversion Hc. congruence.
  - fold a in E1. rewrite E1 in Hc. inversion Hc; subst oi.
    unfold sedge. rewrite static_succ_imports. apply in_map_iff. exists im. auto.
Qed.

Lemma before_flat_map (F : nat -> list nat) x y l f f' :
  before x y l -> In f (F x) -> In f' (F y) -> before f f' (flat_map F l).
Proof.
  intros [l1 [l2 [l3 ->]]] Hf Hf'.
  apply in_split in Hf as [a1 [a2 Ea]]. apply in_split in Hf' as [b1 [b2 Eb]].
  rewrite !flat_map_app. simpl. rewrite !app_nil_r. rewrite Ea, Eb.
  exists (flat_map F l1 ++ a1), (a2 ++ flat_map F l2 ++ b1), (b2 ++ flat_map F l3).
  rewrite <- !app_assoc. reflexivity.
Qed.

(* ... and so is every file of B before every file of A *)
Theorem binding_file_evaluated_first_all g r ci A B s f f' : split g = Some r ->
  let a := r_analysis r in
  (ci < length (a_chunks a))%nat -> In A (chunk_eval_order r ci) ->
  (A < length (a_chunks a))%nat ->
  In s (chunk_uses g (nth A (a_chunks a) dchunk)) -> chunk_of_sym g a s = Some B -> B <> A ->
  In f (nth B (r_orders r) []) -> In f' (nth A (r_orders r) []) ->
  before f f' (split_order r ci).
Proof.
  intros H a Hci HA HAl Hs Hc Hne Hf Hf'.
  destruct (binding_chunk_evaluated_first_all g r ci A B s H Hci HA HAl Hs Hc Hne) as [_ Bf].
  unfold split_order. eapply before_flat_map; eauto.
Qed.

(* ------------------------------------------------------------------ *)
(* the full order claim is false: e0 (1) imports a (3) then s (4); e1 (2) imports s.
   ESM evaluates a, s, e0; the split output evaluates the shared chunk first: s, a, e0. *)
Definition order_witness : graph := mk_graph
  ([ ([], [], [], [], []);
     ([(3, false); (4, false)], [(true, [], [], [])], [], [], []);
     ([(4, false)], [(true, [], [], [])], [], [], []);
     ([], [(true, [], [], [])], [], [], []);
     ([], [(true, [], [], [])], [], [], []) ],
   [1; 2], false).

Lemma order_witness_computes :
  match split order_witness with
  | Some r => (native_order order_witness 1, split_order r 0, map c_entry (a_chunks (r_analysis r)))
              = ([3; 4; 1]%nat, [4; 3; 1]%nat, [Some (0, 1); Some (1, 2); None]%nat)
  | None => False
  end.
Proof. vm_compute. reflexivity. Qed.

Definition order_witness_result : result :=
  match split order_witness with
  | Some r => r
  | None => mkResult (mkAnalysis [] [] [] [] []) [] []
  end.

Theorem chunk_order_respects_evaluation_refuted_all :
  exists g r ci bit e f1 f2, split g = Some r /\
    nth_error (map c_entry (a_chunks (r_analysis r))) ci = Some (Some (bit, e)) /\
    beforeb f1 f2 (native_order g e) = true /\ beforeb f2 f1 (split_order r ci) = true.
Proof.
  exists order_witness, order_witness_result, 0%nat, 0%nat, 1%nat, 3%nat, 4%nat.
  split; [vm_compute; reflexivity|].
  split; [vm_compute; reflexivity|]. split; vm_compute; reflexivity.
Qed.

(* ------------------------------------------------------------------ *)
(* several roots *)
Section DFSroots.
Variable succ : nat -> list nat.
Variable n : nat.
Hypothesis acyclic : forall x, ~ clos_trans nat (E succ) x x.
Hypothesis bounded : forall x y, E succ x y -> (y < n)%nat.

Lemma postorder_respects_roots roots : (forall x, In x roots -> (x < n)%nat) ->
  let out := postorder (S n) succ roots in
  (forall x, In x roots -> In x out) /\
  forall v w, In v out -> E succ v w -> In w out /\ before w v out.
Proof.
  intro HR. unfold postorder.
  assert (G : forall l st, (forall x, In x l -> (x < n)%nat) -> inv succ [] (fst st) (snd st) ->
            let st' := fold_left (fun s x => gvisit (S n) succ x s) l st in
            inv succ [] (fst st') (snd st') /\ (forall x, In x l -> In x (snd st')) /\
            exists ext, snd st' = snd st ++ ext).
  { induction l as [|x l IH]; intros st Hl HI; cbv zeta; cbn [fold_left].
    - split; [exact HI|]. split; [intros x []|]. exists []. rewrite app_nil_r. reflexivity.
    - destruct (gvisit_post succ n acyclic bounded (S n) x [] st) as [I1 [Ix [_ [ext Eext]]]];
        [constructor | intros v [] | apply Hl; left; reflexivity | simpl; lia | exact HI |].
      pose proof (IH (gvisit (S n) succ x st)) as IH'. cbv zeta in IH'.
      destruct IH' as [J1 [Jall [ext2 Eext2]]];
        [intros y Hy; apply Hl; right; exact Hy | exact I1 |].
      split; [exact J1|]. split.
      + intros y [<-|Hy]; [rewrite Eext2; apply in_or_app; left; exact Ix | apply Jall; exact Hy].
      + exists (ext ++ ext2). rewrite Eext2, Eext, app_assoc. reflexivity. }
  destruct (G roots ([], []) HR) as [[_ [_ I3]] [Hall _]].
  - simpl. split; [intros v []|]. split; intros v; [intros [] | intros w []].
  - split; [exact Hall | exact I3].
Qed.
End DFSroots.

Lemma before_filter (p : nat -> bool) x y l : before x y l -> p x = true -> p y = true -> before x y (filter p l).
Proof.
  intros [l1 [l2 [l3 ->]]] Hx Hy. rewrite !filter_app. simpl. rewrite Hx, Hy.
  exists (filter p l1), (filter p l2), (filter p l3). reflexivity.
Qed.

(* inside a chunk: a file is emitted after every file of the chunk that it imports
   (statically, or by require()/import() that stays inside the chunk), provided the
   walked import graph has no cycle and import records point at existing files *)
Theorem chunk_order_respects_imports_all g a c f f' :
  (forall x, ~ clos_trans nat (E (osucc g a c)) x x) ->
  (forall x y, In y (osucc g a c x) -> (y < nfiles g)%nat) ->
  (forall x, In x (c_files c) -> (x < nfiles g)%nat) -> (0 < nfiles g)%nat ->
  In f (chunk_order g a c) -> In f' (osucc g a c f) -> in_chunk a c f' = true ->
  In f' (chunk_order g a c) /\ before f' f (chunk_order g a c).
Proof.
  intros AC BD HC H0 Hf Hs Hin. unfold chunk_order in *.
  set (roots := (0%nat :: fold_right (insert_by g a) [] (c_files c))) in *.
  assert (HR : forall x, In x roots -> (x < nfiles g)%nat).
  { intros x [<-|Hx]; [exact H0|]. apply HC.
    assert (P : forall l, Permutation l (fold_right (insert_by g a) [] l)).
    { induction l as [|y l IH]; simpl; [constructor|].
      eapply perm_trans; [apply perm_skip; exact IH|].
      generalize (fold_right (insert_by g a) [] l). intro m. induction m as [|z m IHm]; simpl; [apply Permutation_refl|].
      destruct (key_ltb _ _); [apply Permutation_refl|]. eapply perm_trans; [apply perm_swap|]. apply perm_skip. exact IHm. }
    eapply Permutation_in; [apply Permutation_sym; apply P | exact Hx]. }
  destruct (postorder_respects_roots (osucc g a c) (nfiles g) AC BD roots HR) as [_ R].
  apply filter_In in Hf as [Hf Hpf].
  destruct (R f f' Hf Hs) as [R1 R2].
  split; [apply filter_In; split; assumption | apply before_filter; assumption].
Qed.
