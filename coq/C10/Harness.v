(* Checkers evaluated by the correspondence run (vm_compute on generated case
   lists).  Each returns the indices of the cases on which the model and the
   output observed on the real Go code differ. *)
From V Require Import Common.Base C10.BitSet C10.Renamer C10.Split.

Fixpoint mism_from {A} (f : A -> bool) (l : list A) (i : nat) : list nat :=
  match l with
  | [] => []
  | x :: r => if f x then mism_from f r (S i) else i :: mism_from f r (S i)
  end.
Definition mismatches {A} (f : A -> bool) (l : list A) : list nat := mism_from f l 0.

(* ---- helpers.BitSet: (bitCount, bits set in order, Go String() bytes, probe bits, Go HasBit answers) ---- *)
Definition bitset_ok (c : Z * list Z * bytes * list Z * list bool) : bool :=
  let '(n, sets, str, probes, answers) := c in
  let bs := fold_left (fun b i => SetBit b (Z.to_nat i)) sets (NewBitSet (Z.to_nat n)) in
  zlist_eqb (String bs) str
  && list_eqb Bool.eqb (map (fun p => HasBit bs (Z.to_nat p)) probes) answers.
Definition check_bitset := mismatches bitset_ok.

(* ---- ExportRenamer: (names, Go NextRenamedName results) ; (count, Go NextMinifiedName results) ---- *)
Definition rename_ok (c : list bytes * list bytes) : bool :=
  let '(names, got) := c in
  match rename_all names with
  | Some l => list_eqb zlist_eqb l got
  | None => false
  end.
Definition check_rename := mismatches rename_ok.
Definition minname_ok (c : Z * list bytes) : bool :=
  let '(start, got) := c in
  list_eqb zlist_eqb (map (fun i => minified_name (Z.to_nat start + i)) (seq 0 (length got))) got.
Definition check_minname := mismatches minname_ok.

(* ---- whole splitting: the graph as the harness generated it and the chunks
        observed in the metafile / output text of api.Build ---- *)
Definition part_z := (bool * list Z * list (Z * Z) * list Z)%type.
Definition file_z := (list (Z * bool) * list part_z * list ((Z * Z) * (Z * Z)) * list (Z * bytes) * list (Z * Z))%type.
Definition graph_z := (list file_z * list Z * bool)%type.
(* (rep, files in output order without the runtime, static imports in text order
    (rep of target, item aliases in text order), dynamic import reps ascending,
    cross-chunk export aliases in text order) *)
Definition obs_z := (Z * list Z * list (Z * list bytes) * list Z * list bytes)%type.

Definition n2 (p : Z * Z) : nat * nat := (Z.to_nat (fst p), Z.to_nat (snd p)).
Definition mk_part (p : part_z) : part :=
  let '(live, deps, uses, decl) := p in mkPart live (map Z.to_nat deps) (map n2 uses) (map Z.to_nat decl).
Definition mk_file (f : file_z) : file :=
  let '(recs, parts, binds, names, exps) := f in
  mkFile (map (fun r => (Z.to_nat (fst r), snd r)) recs) (map mk_part parts)
         (map (fun b => (n2 (fst b), n2 (snd b))) binds) (map (fun x => (Z.to_nat (fst x), snd x)) names) (map n2 exps).
Definition mk_graph (g : graph_z) : graph :=
  let '(fs, user, mini) := g in mkGraph (map mk_file fs) (map Z.to_nat user) mini.

Definition chunk_rep (c : chunk) : Z :=
  match c_entry c with
  | Some (_, e) => 1000 + Z.of_nat e
  | None => fold_left (fun acc f => if (f =? 0)%nat then acc
                                    else if (acc =? 0) then Z.of_nat f else Z.min acc (Z.of_nat f)) (c_files c) 0
  end.

Fixpoint insert_z (x : Z) (l : list Z) : list Z :=
  match l with [] => [x] | y :: r => if x <? y then x :: l else y :: insert_z x r end.

Definition model_obs (r : result) : list obs_z :=
  let chunks := a_chunks (r_analysis r) in
  let rep_of := fun i => chunk_rep (nth i chunks (mkChunk [] None [])) in
  map (fun i =>
         let c := nth i chunks (mkChunk [] None []) in
         let x := nth i (r_cross r) (mkCross [] []) in
         let ord := nth i (r_orders r) [] in
         (chunk_rep c,
          map Z.of_nat (filter (fun f => negb (f =? 0)%nat) ord),
          map (fun im => (rep_of (i_chunk im), i_items im)) (filter (fun im => negb (i_dynamic im)) (x_imports x)),
          fold_right insert_z [] (map (fun im => rep_of (i_chunk im)) (filter i_dynamic (x_imports x))),
          map snd (x_exports x)))
      (seq 0 (length chunks)).

Definition imp_eqb (a b : Z * list bytes) : bool := (fst a =? fst b) && list_eqb zlist_eqb (snd a) (snd b).
Definition obs_eqb (a b : obs_z) : bool :=
  let '(r1, f1, s1, d1, e1) := a in
  let '(r2, f2, s2, d2, e2) := b in
  (r1 =? r2) && zlist_eqb f1 f2 && list_eqb imp_eqb s1 s2 && zlist_eqb d1 d2 && list_eqb zlist_eqb e1 e2.

Definition obs_rep (o : obs_z) : Z := let '(r, _, _, _, _) := o in r.
Definition find_obs (rep : Z) (l : list obs_z) : option obs_z := find (fun o => obs_rep o =? rep) l.

(* level 1: membership only (which files share a chunk) *)
Definition obs_files (o : obs_z) : list Z := let '(_, f, _, _, _) := o in f.
Definition members_ok (c : graph_z * list obs_z) : bool :=
  let '(gz, obs) := c in
  match split (mk_graph gz) with
  | None => false
  | Some r =>
    let m := model_obs r in
    (length m =? length obs)%nat &&
    forallb (fun mo => match find_obs (obs_rep mo) obs with
                       | Some o => zlist_eqb (fold_right insert_z [] (obs_files mo)) (fold_right insert_z [] (obs_files o))
                       | None => false end) m
  end.
Definition check_members := mismatches members_ok.

(* level 2: everything (file order, import edges in order with item aliases, exports) *)
Definition obs_part (r : result) (obs : list obs_z) : bool :=
  let m := model_obs r in
  (length m =? length obs)%nat &&
  forallb (fun mo => match find_obs (obs_rep mo) obs with
                     | Some o => obs_eqb mo o
                     | None => false end) m
  && negb (enforce_cycle_error (r_cross r)).
Definition split_ok (c : graph_z * list obs_z) : bool :=
  let '(gz, obs) := c in
  match split (mk_graph gz) with
  | None => false
  | Some r => obs_part r obs && deps_coverb (mk_graph gz)
  end.
Definition check_split := mismatches split_ok.

(* ---- comparison with the linker's own chunk data (dump taken inside Link by the C10 hook):
        per chunk, in chunk index order: (entry bits, entry file or -1, filesInChunkInOrder,
        importsFromOtherChunks as (chunk, refs, aliases), exportsToOtherChunks as (ref, alias),
        crossChunkImports as (is dynamic, chunk)) ---- *)
Definition dchunk_z := (bytes * Z * list Z * list (Z * list (Z * Z) * list bytes) * list ((Z * Z) * bytes) * list (bool * Z))%type.

Fixpoint list_eqb2 {A B} (eqb : A -> B -> bool) (a : list A) (b : list B) : bool :=
  match a, b with
  | [], [] => true
  | x :: a', y :: b' => eqb x y && list_eqb2 eqb a' b'
  | _, _ => false
  end.
Definition syms_same (a b : list sym) : bool :=
  (length a =? length b)%nat && forallb (fun x => mems x b) a && forallb (fun x => mems x a) b.
Definition dimp_eqb (m : nat * list sym * list bytes) (d : Z * list (Z * Z) * list bytes) : bool :=
  let '(mc, mr, ma) := m in let '(dc, dr, da) := d in
  (Z.of_nat mc =? dc) && syms_same mr (map n2 dr) && list_eqb zlist_eqb ma da.
Definition dexp_eqb (m : sym * bytes) (d : (Z * Z) * bytes) : bool :=
  sym_eqb (fst m) (n2 (fst d)) && zlist_eqb (snd m) (snd d).
Definition dcross_eqb (m : cimport) (d : bool * Z) : bool :=
  Bool.eqb (i_dynamic m) (fst d) && (Z.of_nat (i_chunk m) =? snd d).

Definition dump_part (g : graph) (r : result) (dump : list dchunk_z) : bool :=
  let a := r_analysis r in
  let chunks := a_chunks a in
  (length chunks =? length dump)%nat &&
  forallb (fun i =>
    let c := nth i chunks (mkChunk [] None []) in
    let x := nth i (r_cross r) (mkCross [] []) in
    let '(dbits, dentry, dfiles, dimps, dexps, dcross) := nth i dump ([], -1, [], [], [], []) in
    let statics := filter (fun im => negb (i_dynamic im)) (x_imports x) in
    let raws := raw_imports g a i c in
    zlist_eqb (c_bits c) dbits
    && (match c_entry c with Some (_, e) => Z.of_nat e | None => -1 end =? dentry)
    && zlist_eqb (map Z.of_nat (nth i (r_orders r) [])) dfiles
    && list_eqb2 dimp_eqb (map (fun p => (fst (fst p), snd (fst p), i_items (snd p))) (combine raws statics)) dimps
    && (length raws =? length statics)%nat
    && list_eqb2 dexp_eqb (x_exports x) dexps
    && list_eqb2 dcross_eqb (x_imports x) dcross)
  (seq 0 (length chunks)).
Definition dump_ok (c : graph_z * list dchunk_z) : bool :=
  let '(gz, dump) := c in
  let g := mk_graph gz in
  match split g with
  | None => false
  | Some r => dump_part g r dump && deps_coverb g && wf_graphb g
  end.
(* both comparisons on one evaluation of the model: (graph, emitted chunks, linker chunks) *)
Definition full_ok (c : graph_z * list obs_z * list dchunk_z) : bool :=
  let '(gz, obs, dump) := c in
  let g := mk_graph gz in
  match split g with
  | None => false
  | Some r => obs_part r obs && dump_part g r dump && deps_coverb g && wf_graphb g
  end.
Definition check_full := mismatches full_ok.
Definition check_dump := mismatches dump_ok.

(* debugging aid: what the model predicts *)
Definition predict (gz : graph_z) : option (list obs_z) :=
  match split (mk_graph gz) with Some r => Some (model_obs r) | None => None end.

(* ---- CSS chunks: (files as (is CSS, record targets, stub's CSS index or -1), entry points,
        the linker's CSS chunks in chunk order as (entry file, files in order),
        the emitted .css files as (entry file, files in text order)) ---- *)
From V Require Import C10.Css.
Definition cfile_z := (bool * list Z * Z)%type.
Definition mk_cfile (f : cfile_z) : cfile :=
  let '(css, recs, stub) := f in
  mkCFile css (map Z.to_nat recs) (if stub <? 0 then None else Some (Z.to_nat stub)).
Definition zchunk_eqb (a b : Z * list Z) : bool := (fst a =? fst b) && zlist_eqb (snd a) (snd b).
Definition css_ok (c : list cfile_z * list Z * list (Z * list Z) * list (Z * list Z)) : bool :=
  let '(fs, ents, dump, text) := c in
  let g := map mk_cfile fs in
  let m := map (fun c => (Z.of_nat (snd (fst c)), map Z.of_nat (snd c))) (css_chunks g (map Z.to_nat ents)) in
  wf_cgraphb g && no_zero_targetb g && forallb (fun e => (Z.to_nat e <? length g)%nat) ents &&
  list_eqb zchunk_eqb m dump
  && (length m =? length text)%nat
  && forallb (fun t => match find (fun x => fst x =? fst t) m with
                       | Some x => zlist_eqb (snd x) (snd t)
                       | None => false end) text.
Definition check_css := mismatches css_ok.
