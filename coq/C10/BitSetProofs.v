(* Lemmas about the BitSet model. *)
From V Require Import Common.Base C10.BitSet.

Lemma land_bitmask a k : 0 <= k ->
  negb (Z.land a (Z.shiftl 1 k) =? 0) = Z.testbit a k.
Proof.
  intro Hk.
  destruct (Z.testbit a k) eqn:E.
  - apply negb_true_iff. apply Z.eqb_neq. intro H.
    assert (T : Z.testbit (Z.land a (Z.shiftl 1 k)) k = true).
    { rewrite Z.land_spec, E. rewrite Z.shiftl_spec by lia. rewrite Z.sub_diag. reflexivity. }
    rewrite H in T. rewrite Z.bits_0 in T. discriminate.
  - apply negb_false_iff. apply Z.eqb_eq. apply Z.bits_inj'. intros n Hn.
    rewrite Z.land_spec, Z.bits_0.
    destruct (Z.eq_dec n k) as [->|Hne].
    + rewrite E. reflexivity.
    + rewrite Z.shiftl_spec by lia.
      replace (Z.testbit 1 (n - k)) with false. apply andb_false_r.
      symmetry. destruct (Z.ltb_spec n k).
      * apply Z.testbit_neg_r. lia.
      * change 1 with (2 ^ 0). apply Z.pow2_bits_false. lia.
Qed.

Lemma HasBit_testbit bs bit :
  HasBit bs bit = Z.testbit (nth (bit / 8) bs 0) (Z.of_nat (bit mod 8)).
Proof. unfold HasBit, bitmask. apply land_bitmask. lia. Qed.

Lemma nth_upd_same l i f d : (i < length l)%nat -> nth i (upd l i f) d = f (nth i l d).
Proof.
  revert i; induction l as [|x l IH]; intros [|i] H; simpl in *; try lia; auto.
  apply IH; lia.
Qed.
Lemma nth_upd_other l i j f d : i <> j -> nth j (upd l i f) d = nth j l d.
Proof.
  revert i j; induction l as [|x l IH]; intros [|i] [|j] H; simpl in *; try congruence; auto.
Qed.
Lemma length_upd l i f : length (upd l i f) = length l.
Proof. revert i; induction l as [|x l IH]; intros [|i]; simpl; auto. Qed.

Lemma div8_lt i n : (i < 8 * n)%nat -> (i / 8 < n)%nat.
Proof. intro H. apply Nat.div_lt_upper_bound; lia. Qed.

Lemma HasBit_SetBit bs i j : (i < 8 * length bs)%nat ->
  HasBit (SetBit bs i) j = (Nat.eqb i j || HasBit bs j).
Proof.
  intro Hi. rewrite !HasBit_testbit. unfold SetBit.
  destruct (Nat.eq_dec (i / 8) (j / 8)) as [Hq|Hq].
  - rewrite <- Hq. rewrite nth_upd_same by (apply div8_lt; exact Hi).
    rewrite Z.lor_spec. unfold bitmask. rewrite Z.shiftl_spec by lia.
    destruct (Nat.eq_dec (i mod 8) (j mod 8)) as [Hr|Hr].
    + assert (i = j).
      { rewrite (Nat.div_mod i 8), (Nat.div_mod j 8) by lia. rewrite Hq, Hr. reflexivity. }
      subst j. rewrite Nat.eqb_refl. rewrite Z.sub_diag. change (Z.testbit 1 0) with true. rewrite orb_true_r. reflexivity.
    + assert (i <> j) by (intro; subst; congruence).
      replace (Nat.eqb i j) with false by (symmetry; apply Nat.eqb_neq; assumption).
      cbn [orb]. replace (Z.testbit 1 (Z.of_nat (j mod 8) - Z.of_nat (i mod 8))) with false.
      apply orb_false_r.
      symmetry. destruct (Z.ltb_spec (Z.of_nat (j mod 8)) (Z.of_nat (i mod 8))).
      * apply Z.testbit_neg_r. lia.
      * change 1 with (2 ^ 0). apply Z.pow2_bits_false. lia.
  - rewrite nth_upd_other by assumption.
    assert (i <> j) by (intro; subst; congruence).
    replace (Nat.eqb i j) with false by (symmetry; apply Nat.eqb_neq; assumption).
    reflexivity.
Qed.

Lemma length_SetBit bs i : length (SetBit bs i) = length bs.
Proof. apply length_upd. Qed.

Lemma HasBit_New n j : HasBit (NewBitSet n) j = false.
Proof.
  rewrite HasBit_testbit. unfold NewBitSet.
  assert (E : nth (j / 8) (repeat 0 ((n + 7) / 8)) 0 = 0).
  { destruct (nth_in_or_default (j / 8) (repeat 0 ((n + 7) / 8)%nat) 0) as [H|H]; [|exact H].
    apply repeat_spec in H. exact H. }
  rewrite E. apply Z.bits_0.
Qed.

Lemma length_New n : (n <= 8 * length (NewBitSet n))%nat.
Proof.
  unfold NewBitSet. rewrite repeat_length.
  pose proof (Nat.div_mod (n + 7) 8). pose proof (Nat.mod_upper_bound (n + 7) 8). lia.
Qed.

Lemma HasBit_out bs j : (8 * length bs <= j)%nat -> HasBit bs j = false.
Proof.
  intro H. rewrite HasBit_testbit. rewrite nth_overflow. apply Z.bits_0.
  assert (length bs * 8 <= j)%nat by lia.
  apply Nat.div_le_lower_bound; lia.
Qed.

Lemma wf_New n : wf_bitset (NewBitSet n).
Proof. unfold wf_bitset, NewBitSet. apply Forall_forall. intros x H. apply repeat_spec in H. subst. lia. Qed.

Lemma log2_byte x : 0 < x < 256 -> Z.log2 x < 8.
Proof. intro H. apply Z.log2_lt_pow2; [lia|]. change (2 ^ 8) with 256. lia. Qed.

Lemma lor_byte a b : 0 <= a < 256 -> 0 <= b < 256 -> 0 <= Z.lor a b < 256.
Proof.
  intros Ha Hb. split; [apply Z.lor_nonneg; lia|].
  destruct (Z.eq_dec (Z.lor a b) 0) as [E|NE]; [lia|].
  assert (0 < Z.lor a b) by (pose proof (proj2 (Z.lor_nonneg a b) (conj (proj1 Ha) (proj1 Hb))); lia).
  change 256 with (2 ^ 8). apply Z.log2_lt_pow2; [assumption|].
  rewrite Z.log2_lor by lia.
  apply Z.max_lub_lt.
  - destruct (Z.eq_dec a 0); [subst; simpl; lia|]. apply log2_byte; lia.
  - destruct (Z.eq_dec b 0); [subst; simpl; lia|]. apply log2_byte; lia.
Qed.

Lemma bitmask_byte i : 0 <= bitmask i < 256.
Proof.
  unfold bitmask. rewrite Z.shiftl_1_l.
  pose proof (Nat.mod_upper_bound i 8).
  split; [apply Z.pow_nonneg; lia|].
  change 256 with (2 ^ 8). apply Z.pow_lt_mono_r; lia.
Qed.

Lemma Forall_upd (P : Z -> Prop) l i f : Forall P l -> (forall x, P x -> P (f x)) -> Forall P (upd l i f).
Proof.
  intros H Hf. revert i. induction H as [|x l Hx Hl IH]; intros [|i]; simpl; constructor; auto.
Qed.
Lemma wf_SetBit bs i : wf_bitset bs -> wf_bitset (SetBit bs i).
Proof.
  intro H. unfold wf_bitset, SetBit. apply Forall_upd; [exact H|].
  intros x Hx. apply lor_byte; [exact Hx | apply bitmask_byte].
Qed.

Lemma byte_ext a b : 0 <= a < 256 -> 0 <= b < 256 ->
  (forall k, (k < 8)%nat -> Z.testbit a (Z.of_nat k) = Z.testbit b (Z.of_nat k)) -> a = b.
Proof.
  intros Ha Hb H. apply Z.bits_inj'. intros n Hn.
  destruct (Z.ltb_spec n 8).
  - specialize (H (Z.to_nat n)). rewrite Z2Nat.id in H by lia. apply H. lia.
  - assert (forall x, 0 <= x < 256 -> Z.testbit x n = false) as HF.
    { intros x Hx. destruct (Z.eq_dec x 0) as [->|]; [apply Z.bits_0|].
      apply Z.bits_above_log2; [lia|].
      assert (Z.log2 x < 8) by (apply log2_byte; lia). lia. }
    rewrite !HF by assumption. reflexivity.
Qed.

(* equal as byte strings iff the same bits are set *)
Lemma bitset_ext a b : length a = length b -> wf_bitset a -> wf_bitset b ->
  (forall j, (j < 8 * length a)%nat -> HasBit a j = HasBit b j) -> a = b.
Proof.
  revert b. induction a as [|x a IH]; intros [|y b] HL Ha Hb H; simpl in HL; try discriminate; [reflexivity|].
  inversion Ha as [|? ? Hx Ha']; inversion Hb as [|? ? Hy Hb']; subst.
  f_equal.
  - apply byte_ext; try assumption. intros k Hk.
    specialize (H k). rewrite !HasBit_testbit in H.
    rewrite (Nat.div_small k 8) in H by lia. rewrite (Nat.mod_small k 8) in H by lia.
    simpl in H. apply H. lia.
  - apply IH; try assumption; [lia|].
    intros j Hj. specialize (H (8 + j)%nat). rewrite !HasBit_testbit in H.
    replace ((8 + j) / 8)%nat with (S (j / 8)) in H.
    2:{ replace (8 + j)%nat with (j + 1 * 8)%nat by lia. rewrite Nat.div_add by lia. lia. }
    replace ((8 + j) mod 8)%nat with (j mod 8)%nat in H.
    2:{ replace (8 + j)%nat with (j + 1 * 8)%nat by lia. rewrite Nat.mod_add by lia. reflexivity. }
    simpl in H. rewrite !HasBit_testbit. apply H. simpl. lia.
Qed.

(* cardinality *)
Lemma card_le a b n : (forall j, (j < n)%nat -> HasBit a j = true -> HasBit b j = true) ->
  (card a n <= card b n)%nat.
Proof.
  induction n as [|k IH]; intro H; simpl; [lia|].
  assert (card a k <= card b k)%nat by (apply IH; intros; apply H; [lia|assumption]).
  specialize (H k (Nat.lt_succ_diag_r k)).
  destruct (HasBit a k); destruct (HasBit b k); lia.
Qed.
Lemma card_subset_eq a b n : (forall j, (j < n)%nat -> HasBit a j = true -> HasBit b j = true) ->
  card a n = card b n -> forall j, (j < n)%nat -> HasBit a j = HasBit b j.
Proof.
  induction n as [|k IH]; intros H E j Hj; [lia|].
  simpl in E.
  assert (Hle : (card a k <= card b k)%nat) by (apply card_le; intros; apply H; [lia|assumption]).
  pose proof (H k (Nat.lt_succ_diag_r k)) as Hk.
  destruct (Nat.eq_dec j k) as [->|Hne].
  - destruct (HasBit a k); destruct (HasBit b k); try reflexivity; lia.
  - apply IH; [intros; apply H; [lia|assumption] | | lia].
    destruct (HasBit a k); destruct (HasBit b k); lia.
Qed.
