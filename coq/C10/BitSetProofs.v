(* Lemmas about the BitSet model. *)
From V Require Import Common.Base C10.BitSet.

Lemma land_bitmask a k : 0 <= k ->
  negb (Z.land a (Z.shiftl 1 k) =? 0) = Z.testbit a k.
Proof.
  intro Hk.
  destruct (Z.testbit a k) eqn:E.
  - apply negb_true_iff. apply Z.eqb_neq. intro H.
    assert (T : Z.testbit (Z.land a (Z.shiftl 1 k)) k = true).
    { rewrite Z.land_spec, E. rewrite Z.shiftl_spec by lia. rewrite Z.sub_diag. reflexivity. }
    rewrite H in T. rewrite Z.bits_0 in T. discriminate.
  - apply negb_false_iff. apply Z.eqb_eq. apply Z.bits_inj'. intros n Hn.
    rewrite Z.land_spec, Z.bits_0.
    destruct (Z.eq_dec n k) as [->|Hne].
    + rewrite E. reflexivity.
    + rewrite Z.shiftl_spec by lia.
      replace (Z.testbit 1 (n - k)) with false. apply andb_false_r.
      symmetry. destruct (Z.ltb_spec n k).
      * apply Z.testbit_neg_r. lia.
      * change 1 with (2 ^ 0). apply Z.pow2_bits_false. lia.
Qed.

Lemma HasBit_testbit bs bit :
  HasBit bs bit = Z.testbit (nth (bit / 8) bs 0) (Z.of_nat (bit mod 8)).
Proof. unfold HasBit, bitmask. apply land_bitmask. lia. Qed.

Lemma nth_upd_same l i f d : (i < length l)%nat -> nth i (upd l i f) d = f (nth i l d).
Proof.
  revert i; induction l as [|x l IH]; intros [|i] H; simpl in *; try lia; auto.
  apply IH; lia.
Qed.
Lemma nth_upd_other l i j f d : i <> j -> nth j (upd l i f) d = nth j l d.
Proof.
  revert i j; induction l as [|x l IH]; intros [|i] [|j] H; simpl in *; try congruence; auto.
Qed.
Lemma length_upd l i f : length (upd l i f) = length l.
Proof. revert i; induction l as [|x l IH]; intros [|i]; simpl; auto. Qed.

Lemma div8_lt i n : (i < 8 * n)%nat -> (i / 8 < n)%nat.
Proof. intro H. apply Nat.div_lt_upper_bound; lia. Qed.

Lemma HasBit_SetBit bs i j : (i < 8 * length bs)%nat ->
  HasBit (SetBit bs i) j = (Nat.eqb i j || HasBit bs j).
Proof.
  intro Hi. rewrite !HasBit_testbit. unfold SetBit.
  destruct (Nat.eq_dec (i / 8) (j / 8)) as [Hq|Hq].
  - rewrite <- Hq. rewrite nth_upd_same by (apply div8_lt; exact Hi).
    rewrite Z.lor_spec. unfold bitmask. rewrite Z.shiftl_spec by lia.
    destruct (Nat.eq_dec (i mod 8) (j mod 8)) as [Hr|Hr].
    + assert (i = j).
      { rewrite (Nat.div_mod i 8), (Nat.div_mod j 8) by lia. rewrite Hq, Hr. reflexivity. }
      subst j. rewrite Nat.eqb_refl. rewrite Z.sub_diag. change (Z.testbit 1 0) with true. rewrite orb_true_r. reflexivity.
    + assert (i <> j) by (intro; subst; congruence).
      replace (Nat.eqb i j) with false by (symmetry; apply Nat.eqb_neq; assumption).
      cbn [orb]. replace (Z.testbit 1 (Z.of_nat (j mod 8) - Z.of_nat (i mod 8))) with false.
      apply orb_false_r.
      symmetry. destruct (Z.ltb_spec (Z.of_nat (j mod 8)) (Z.of_nat (i mod 8))).
      * apply Z.testbit_neg_r. lia.
      * change 1 with (2 ^ 0). apply Z.pow2_bits_false. lia.
  - rewrite nth_upd_other by assumption.
    assert (i <> j) by (intro; subst; congruence).
    replace (Nat.eqb i j) with false by (symmetry; apply Nat.eqb_neq; assumption).
    reflexivity.
Qed.
