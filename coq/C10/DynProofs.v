(* import() under code splitting: every import() target is an entry point with its own entry
   chunk; an import() of another file resolves to the chunk whose entry point is that file;
   the import() of a file by itself is the exception (refuted, known finding). *)
From V Require Import Common.Base C10.BitSet C10.Renamer C10.Split C10.BitSetProofs C10.RenamerProofs
  C10.ListLemmas C10.SplitProofs C10.OrderProofs C10.CrossProofs C10.TotalProofs C10.DfsProofs C10.Harness.
From Coq Require Import Permutation.

Lemma dynamic_target_is_entry g f t : wf_graphb g = true ->
  In f (reachable_files g) -> In (t, true) (f_recs (getf g f)) -> In t (entries g).
Proof.
  intros W Hf Hr. destruct (reachable_files_closed g W) as [_ [_ RC]].
  unfold entries. destruct (memn t (g_user g)) eqn:EU; [apply in_or_app; left; apply memn_In; exact EU|].
  apply in_or_app. right. apply filter_In. split; [apply (RC f (t, true) Hf Hr)|].
  rewrite EU. simpl. rewrite andb_true_r. apply memn_In. unfold dyn_targets.
  apply in_flat_map. exists f. split; [exact Hf|]. apply in_map_iff. exists (t, true). split; [reflexivity|].
  apply filter_In. split; [exact Hr | reflexivity].
Qed.

Lemma entry_chunk_index_spec e : forall l i0 oi, entry_chunk_index e l i0 = Some oi ->
  (i0 <= oi)%nat /\ (oi - i0 < length l)%nat /\ exists bit, c_entry (nth (oi - i0) l dchunk) = Some (bit, e).
Proof.
  induction l as [|c l IH]; intros i0 oi H; simpl in H; [discriminate|].
  assert (K : entry_chunk_index e l (S i0) = Some oi ->
              (i0 <= oi)%nat /\ (oi - i0 < length (c :: l))%nat /\ exists bit, c_entry (nth (oi - i0) (c :: l) dchunk) = Some (bit, e)).
  { intro H'. apply IH in H' as [H1 [H2 [bit H3]]]. replace (oi - i0)%nat with (S (oi - S i0)) by lia. simpl.
    split; [lia|]. split; [lia|]. exists bit. exact H3. }
  destruct (c_entry c) as [[bit e']|] eqn:EC; [|apply K; exact H].
  destruct (Nat.eqb_spec e e') as [<-|Hne]; [|apply K; exact H].
  inversion H; subst. rewrite Nat.sub_diag. simpl. split; [lia|]. split; [lia|]. exists bit. exact EC.
Qed.

Lemma entry_chunk_index_total e : forall l i0, (exists c bit, In c l /\ c_entry c = Some (bit, e)) ->
  exists oi, entry_chunk_index e l i0 = Some oi.
Proof.
  induction l as [|c l IH]; intros i0 [c0 [bit [Hc HE]]]; [destruct Hc|]. simpl.
  destruct (c_entry c) as [[bit' e']|] eqn:EC.
  - destruct (Nat.eqb_spec e e') as [<-|Hne]; [eexists; reflexivity|].
    apply IH. destruct Hc as [<-|Hc]; [rewrite EC in HE; inversion HE; congruence | exists c0, bit; auto].
  - apply IH. destruct Hc as [<-|Hc]; [congruence | exists c0, bit; auto].
Qed.

(* every entry point (user-specified or import() target) has an entry chunk *)
Lemma every_entry_has_chunk g a e : analyse g = Some a -> In e (a_entries a) ->
  exists oi bit, entry_chunk_index e (a_chunks a) 0 = Some oi /\ (oi < length (a_chunks a))%nat /\
    c_entry (nth oi (a_chunks a) dchunk) = Some (bit, e) /\ (bit < length (a_entries a))%nat /\ nth bit (a_entries a) O = e.
Proof.
  intros H He. destruct (In_nth _ _ O He) as [j [Hj Ej]].
  set (n := length (a_entries a)).
  assert (EX : exists c bit, In c (a_chunks a) /\ c_entry c = Some (bit, e)).
  { set (c0 := nth j (entry_chunks n (a_entries a)) dchunk).
    assert (E0 : c0 = mkChunk (SetBit (NewBitSet n) j) (Some (j, e)) []).
    { unfold c0, entry_chunks. rewrite (mapi_from_nth _ 0 (a_entries a) j O dchunk Hj). simpl. rewrite Ej. reflexivity. }
    exists (fill a c0), j. split; [|rewrite E0; reflexivity].
    apply (chunk_In _ _ _ H). unfold pre_chunks. apply in_map. unfold pre_all. apply in_or_app. left.
    apply nth_In. unfold entry_chunks. rewrite mapi_from_length. exact Hj. }
  destruct (entry_chunk_index_total e (a_chunks a) 0 EX) as [oi EI].
  destruct (entry_chunk_index_spec e _ _ _ EI) as [_ [Hoi [bit HE]]]. rewrite Nat.sub_0_r in Hoi, HE.
  destruct (chunk_entry_shape _ _ _ _ _ H (nth_In _ _ Hoi) HE) as [Hb [Eb _]].
  exists oi, bit. repeat split; auto.
Qed.

(* import() of another file resolves to the entry chunk of that file: the chunk that holds the
   importing file either is that chunk or records a dynamic cross-chunk import of it *)
Theorem dynamic_import_resolves_lemma g a xs ci f t : analyse g = Some a -> cross_chunk g a = Some xs ->
  (ci < length (a_chunks a))%nat -> In f (c_files (nth ci (a_chunks a) dchunk)) ->
  In (t, true) (f_recs (getf g f)) -> In t (a_entries a) -> t <> f ->
  exists oi bit, entry_chunk_index t (a_chunks a) 0 = Some oi /\ (oi < length (a_chunks a))%nat /\
    c_entry (nth oi (a_chunks a) dchunk) = Some (bit, t) /\ nth bit (a_entries a) O = t /\
    (oi = ci \/ In (mkImp true oi []) (x_imports (nth ci xs dcross))).
Proof.
  intros H X Hci Hf Hr Ht Hne.
  destruct (every_entry_has_chunk g a t H Ht) as [oi [bit [EI [Hoi [HE [_ Eb]]]]]].
  exists oi, bit. repeat split; auto.
  destruct (Nat.eq_dec oi ci) as [->|Hd]; [left; reflexivity | right].
  destruct (cross_chunk_nth _ _ _ _ X Hci) as [exps [st [_ [N _]]]]. rewrite N. simpl.
  apply in_or_app. left. apply in_map_iff. exists oi. split; [reflexivity|]. unfold dynamic_imports. apply filter_In. split; [apply in_seq; lia|].
  apply memn_In. apply in_flat_map. exists t. split.
  - apply in_flat_map. exists f. split; [exact Hf|]. apply in_map_iff. exists (t, true). split; [reflexivity|].
    apply filter_In. split; [exact Hr|]. unfold is_external_dynamic. simpl.
    replace (memn t (a_entries a)) with true by (symmetry; apply memn_In; exact Ht).
    simpl. apply negb_true_iff. apply Nat.eqb_neq. exact Hne.
  - rewrite EI. destruct (Nat.eqb_spec oi ci); [contradiction | left; reflexivity].
Qed.

Theorem dynamic_import_resolves_all g r ci f t : split g = Some r -> wf_graphb g = true ->
  let a := r_analysis r in
  (ci < length (a_chunks a))%nat -> In f (c_files (nth ci (a_chunks a) dchunk)) ->
  In (t, true) (f_recs (getf g f)) -> t <> f ->
  In t (a_entries a) /\
  exists oi bit, entry_chunk_index t (a_chunks a) 0 = Some oi /\ (oi < length (a_chunks a))%nat /\
    c_entry (nth oi (a_chunks a) dchunk) = Some (bit, t) /\ nth bit (a_entries a) O = t /\
    (oi = ci \/ In (mkImp true oi []) (x_imports (nth ci (r_cross r) dcross))).
Proof.
  intros H W a Hci Hf Hr Hne. pose proof (split_inv _ _ H) as [A X].
  destruct (analyse_inv _ _ A) as [HO [HE _]].
  assert (Ht : In t (a_entries a)).
  { unfold a. rewrite HE. apply (dynamic_target_is_entry g f t W); [|exact Hr].
    rewrite <- HO. apply (chunk_files g (r_analysis r) (nth ci (a_chunks a) dchunk) f A (nth_In _ _ Hci)). exact Hf. }
  split; [exact Ht|]. apply (dynamic_import_resolves_lemma g (r_analysis r) (r_cross r) ci f t); assumption.
Qed.

(* the entry chunk of an import() target statically imports every chunk holding a file
   reachable from the target: entry_loads_all_reachable for dynamic entry points *)
Theorem dynamic_entry_loads_all_reachable_all g r f t oj f' : split g = Some r -> wf_graphb g = true ->
  let a := r_analysis r in
  In f (reachable_files g) -> In (t, true) (f_recs (getf g f)) ->
  (oj < length (a_chunks a))%nat -> In f' (c_files (nth oj (a_chunks a) dchunk)) ->
  path (split_succ g (a_entries a)) (is_live a) t f' ->
  exists oi bit, entry_chunk_index t (a_chunks a) 0 = Some oi /\
    c_entry (nth oi (a_chunks a) dchunk) = Some (bit, t) /\ (oj = oi \/ sedge (r_cross r) oi oj).
Proof.
  intros H W a Hf Hr Hoj Hf' HP. pose proof (split_inv _ _ H) as [A X].
  destruct (analyse_inv _ _ A) as [_ [HE _]].
  assert (Ht : In t (a_entries a)) by (unfold a; rewrite HE; eapply dynamic_target_is_entry; eauto).
  destruct (every_entry_has_chunk g a t A Ht) as [oi [bit [EI [Hoi [HC _]]]]].
  exists oi, bit. split; [exact EI|]. split; [exact HC|].
  eapply (entry_loads_lemma g a (r_cross r) oi oj bit t f'); eauto.
Qed.

(* REFUTED without [t <> f]: a file that import()s itself is an entry point, but its own
   import() is not resolved to a chunk reference (isExternalDynamicImport excludes
   record.SourceIndex == sourceIndex): no dynamic chunk import is recorded and the walk of
   findImportedPartsInJSOrder follows the record as an internal import.  On the real code the
   printer then emits a call to an undefined require_X (known finding C10-self-dynamic-import,
   replayed in every run). *)
Definition self_import_witness : graph := mk_graph
  ([ ([], [], [], [], []);
     ([(1, true)], [(true, [], [], [])], [], [], []) ],
   [1], false).

Theorem dynamic_import_self_refuted_all :
  exists g r ci f, split g = Some r /\ wf_graphb g = true /\
    In f (c_files (nth ci (a_chunks (r_analysis r)) dchunk)) /\ In (f, true) (f_recs (getf g f)) /\
    In f (a_entries (r_analysis r)) /\ entry_chunk_index f (a_chunks (r_analysis r)) 0 = Some ci /\
    is_external_dynamic (a_entries (r_analysis r)) f (f, true) = false /\
    x_imports (nth ci (r_cross r) dcross) = [] /\
    In f (osucc g (r_analysis r) (nth ci (a_chunks (r_analysis r)) dchunk) f).
Proof.
  exists self_import_witness,
    (match split self_import_witness with Some r => r | None => mkResult (mkAnalysis [] [] [] [] []) [] [] end), 0%nat, 1%nat.
  split; [vm_compute; reflexivity|]. split; [vm_compute; reflexivity|].
  split; [vm_compute; auto|]. split; [vm_compute; auto|]. split; [vm_compute; auto|].
  split; [vm_compute; reflexivity|]. split; [vm_compute; reflexivity|]. split; [vm_compute; reflexivity|].
  vm_compute. auto.
Qed.
