(* Model of /repo/internal/helpers/bitset.go (helpers.BitSet):
     NewBitSet, HasBit, SetBit, Equals, String.
   A bit set is its byte slice ([entries []byte]); bytes are Z in 0..255,
   bit indices are nat (Go: uint).  SetBit/HasBit on an index outside the
   slice panic in Go; here they are a no-op / false and every theorem
   states [bit < 8 * length]. *)
From V Require Import Common.Base.

Definition bitset := list Z.

Definition NewBitSet (bitCount : nat) : bitset := repeat 0 ((bitCount + 7) / 8)%nat.

(* 1 << (bit & 7) *)
Definition bitmask (bit : nat) : Z := Z.shiftl 1 (Z.of_nat (bit mod 8)).

(* (bs.entries[bit/8] & (1 << (bit & 7))) != 0 *)
Definition HasBit (bs : bitset) (bit : nat) : bool :=
  negb (Z.land (nth (bit / 8) bs 0) (bitmask bit) =? 0).

Fixpoint upd (l : list Z) (i : nat) (f : Z -> Z) : list Z :=
  match l, i with
  | [], _ => []
  | x :: r, O => f x :: r
  | x :: r, S j => x :: upd r j f
  end.

(* bs.entries[bit/8] |= 1 << (bit & 7) *)
Definition SetBit (bs : bitset) (bit : nat) : bitset :=
  upd bs (bit / 8) (fun b => Z.lor b (bitmask bit)).

(* bytes.Equal *)
Definition Equals (a b : bitset) : bool := zlist_eqb a b.

(* string(bs.entries): the chunk key *)
Definition String (bs : bitset) : bytes := bs.

(* Go string comparison (used by sort.Strings on the chunk keys): bytewise
   lexicographic, a proper prefix is smaller *)
Fixpoint bytes_ltb (a b : bytes) : bool :=
  match a, b with
  | [], [] => false
  | [], _ :: _ => true
  | _ :: _, [] => false
  | x :: a', y :: b' => if x <? y then true else if y <? x then false else bytes_ltb a' b'
  end.

(* bytes are in range *)
Definition wf_bitset (bs : bitset) : Prop := Forall (fun b => 0 <= b < 256) bs.

(* number of set bits among the first n bit positions *)
Fixpoint card (bs : bitset) (n : nat) : nat :=
  match n with
  | O => O
  | S k => ((if HasBit bs k then 1 else 0) + card bs k)%nat
  end.
