(* ExportRenamer: every name handed out is new (pairwise distinct aliases);
   NumberToMinifiedName is injective. *)
From V Require Import Common.Base C10.Renamer.
From Coq Require Import FinFun.

Lemma zeqb_refl a : zlist_eqb a a = true.
Proof. apply zlist_eqb_eq. reflexivity. Qed.

Lemma lookup_set_used x k v u :
  lookup_used x (set_used k v u) = if zlist_eqb x k then Some v else lookup_used x u.
Proof.
  induction u as [|[k' w] u IH]; simpl.
  - destruct (zlist_eqb x k); reflexivity.
  - destruct (zlist_eqb k k') eqn:E.
    + apply zlist_eqb_eq in E. subst k'. simpl. destruct (zlist_eqb x k); reflexivity.
    + simpl. destruct (zlist_eqb x k') eqn:E2.
      * apply zlist_eqb_eq in E2. subst k'.
        destruct (zlist_eqb x k) eqn:E3; [|reflexivity].
        apply zlist_eqb_eq in E3. subst. rewrite zeqb_refl in E. discriminate.
      * exact IH.
Qed.

Lemma find_free_fresh fuel prefix tries u name t :
  find_free fuel prefix tries u = Some (name, t) -> lookup_used name u = None.
Proof.
  revert tries; induction fuel as [|k IH]; intros tries H; simpl in H; [discriminate|].
  destruct (lookup_used (prefix ++ itoa (S tries)) u) eqn:E.
  - eapply IH; eassumption.
  - inversion H; subst. exact E.
Qed.

Lemma next_renamed_spec n u a u' :
  next_renamed n u = Some (a, u') ->
  lookup_used a u = None /\ lookup_used a u' <> None /\
  (forall x, lookup_used x u <> None -> lookup_used x u' <> None).
Proof.
  unfold next_renamed. intro H.
  destruct (lookup_used n u) as [tries|] eqn:E.
  - destruct (find_free (S (length u)) n tries u) as [[name' t']|] eqn:F; [|discriminate].
    inversion H; subst. apply find_free_fresh in F.
    repeat split; [exact F | rewrite lookup_set_used, zeqb_refl; discriminate |].
    intros x Hx. rewrite lookup_set_used. destruct (zlist_eqb x a); [discriminate | exact Hx].
  - inversion H; subst.
    repeat split; [exact E | rewrite lookup_set_used, zeqb_refl; discriminate |].
    intros x Hx. rewrite lookup_set_used. destruct (zlist_eqb x a); [discriminate | exact Hx].
Qed.

Lemma rename_from_spec names : forall u l,
  rename_from names u = Some l ->
  NoDup l /\ length l = length names /\ forall a, In a l -> lookup_used a u = None.
Proof.
  induction names as [|n names IH]; intros u l H; simpl in H.
  - inversion H. repeat split; [apply NoDup_nil | intros a []].
  - destruct (next_renamed n u) as [[a u']|] eqn:E; [|discriminate].
    destruct (rename_from names u') as [l'|] eqn:R; [|discriminate].
    inversion H; subst. apply next_renamed_spec in E as [Hfresh [Hin Hmono]].
    destruct (IH _ _ R) as [ND [HL Hall]].
    repeat split.
    + constructor; [|exact ND]. intro Hc. apply Hall in Hc. contradiction.
    + simpl. lia.
    + intros x [<-|Hx]; [exact Hfresh|].
      destruct (lookup_used x u) eqn:L; [|reflexivity].
      exfalso. apply (Hmono x); [rewrite L; discriminate | apply Hall; exact Hx].
Qed.

Lemma rename_all_nodup names l : rename_all names = Some l -> NoDup l /\ length l = length names.
Proof. intro H. apply rename_from_spec in H. tauto. Qed.

(* ---- minified names ---- *)
Lemma head_nodup : NoDup head_chars. 
Proof.
  assert (H : forallb (fun i => forallb (fun j => (i =? j)%nat || negb (nth i head_chars 0 =? nth j head_chars 0)) (seq 0 54)) (seq 0 54) = true)
    by (vm_compute; reflexivity).
  apply (proj2 (NoDup_nth head_chars 0)). intros i j Hi Hj E.
  change (length head_chars) with 54%nat in *.
  rewrite forallb_forall in H. specialize (H i). rewrite forallb_forall in H.
  specialize (H (proj2 (in_seq 54 0 i) (conj (Nat.le_0_l i) Hi)) j (proj2 (in_seq 54 0 j) (conj (Nat.le_0_l j) Hj))).
  apply orb_true_iff in H as [H|H]; [apply Nat.eqb_eq in H; exact H|].
  rewrite E in H. rewrite Z.eqb_refl in H. discriminate.
Qed.
Lemma tail_nodup : NoDup tail_chars.
Proof.
  assert (H : forallb (fun i => forallb (fun j => (i =? j)%nat || negb (nth i tail_chars 0 =? nth j tail_chars 0)) (seq 0 64)) (seq 0 64) = true)
    by (vm_compute; reflexivity).
  apply (proj2 (NoDup_nth tail_chars 0)). intros i j Hi Hj E.
  change (length tail_chars) with 64%nat in *.
  rewrite forallb_forall in H. specialize (H i). rewrite forallb_forall in H.
  specialize (H (proj2 (in_seq 64 0 i) (conj (Nat.le_0_l i) Hi)) j (proj2 (in_seq 64 0 j) (conj (Nat.le_0_l j) Hj))).
  apply orb_true_iff in H as [H|H]; [apply Nat.eqb_eq in H; exact H|].
  rewrite E in H. rewrite Z.eqb_refl in H. discriminate.
Qed.

Lemma div64_lt i : (i / 64 <= i)%nat.
Proof. apply Nat.div_le_upper_bound; lia. Qed.

(* with enough fuel the tail is a bijective base-64 numeral *)
Lemma min_tail_inj : forall fa fb a b, (a < fa)%nat -> (b < fb)%nat ->
  min_tail fa a = min_tail fb b -> a = b.
Proof.
  induction fa as [|fa IH]; intros fb a b Ha Hb E; [lia|].
  destruct fb as [|fb]; [lia|].
  destruct a as [|a']; destruct b as [|b']; simpl in E; try discriminate; [reflexivity|].
  inversion E as [[E1 E2]].
  assert (Hq : (a' / 64 = b' / 64)%nat).
  { apply (IH fb); [pose proof (div64_lt a'); lia | pose proof (div64_lt b'); lia | exact E2]. }
  assert (Hr : (a' mod 64 = b' mod 64)%nat).
  { apply (proj1 (NoDup_nth tail_chars 0) tail_nodup);
      try (change (length tail_chars) with 64%nat; apply Nat.mod_upper_bound; lia). exact E1. }
  rewrite (Nat.div_mod a' 64), (Nat.div_mod b' 64) by lia. rewrite Hq, Hr. reflexivity.
Qed.

Lemma minified_name_inj i j : minified_name i = minified_name j -> i = j.
Proof.
  unfold minified_name. intro E. inversion E as [[E1 E2]].
  assert (Hq : (i / 54 = j / 54)%nat).
  { apply (min_tail_inj (S i) (S j)); try exact E2.
    - assert (i / 54 <= i)%nat by (apply Nat.div_le_upper_bound; lia). lia.
    - assert (j / 54 <= j)%nat by (apply Nat.div_le_upper_bound; lia). lia. }
  assert (Hr : (i mod 54 = j mod 54)%nat).
  { apply (proj1 (NoDup_nth head_chars 0) head_nodup);
      try (change (length head_chars) with 54%nat; apply Nat.mod_upper_bound; lia). exact E1. }
  rewrite (Nat.div_mod i 54), (Nat.div_mod j 54) by lia. rewrite Hq, Hr. reflexivity.
Qed.

Lemma minified_names_nodup k n : NoDup (map minified_name (seq k n)).
Proof.
  apply Injective_map_NoDup; [intros x y; apply minified_name_inj | apply seq_NoDup].
Qed.
