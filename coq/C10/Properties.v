(* C10 property theorems. This file contains only statements closed by
   [exact lemma] and Print Assumptions.  [split g = Some r] excludes only fuel
   exhaustion of the model (never observed; every correspondence case is Some).
   [deps_cover g] is the assumption on the linker's input named in the config:
   a symbol used or exported across files is backed by a part dependency. *)
From V Require Import Common.Base C10.BitSet C10.Renamer C10.Split
  C10.BitSetProofs C10.RenamerProofs C10.ListLemmas C10.SplitProofs C10.OrderProofs.
From Coq Require Import Relations.

(* helpers.BitSet: HasBit after SetBit, every bit set of every size *)
Theorem bitset_set_has : forall bs i j, (i < 8 * length bs)%nat ->
  HasBit (SetBit bs i) j = (Nat.eqb i j || HasBit bs j).
Proof. exact HasBit_SetBit. Qed.
Print Assumptions bitset_set_has.

(* chunk keys: bit sets for n entry points are equal as strings iff they have the same members *)
Theorem bitset_string_injective : forall n a b, good_bits n a -> good_bits n b ->
  (String a = String b <-> forall j, (j < n)%nat -> HasBit a j = HasBit b j).
Proof. exact bitset_string_injective_lemma. Qed.
Print Assumptions bitset_string_injective.

(* markFileReachableForCodeSplitting: bit j of a file is set exactly when the file is
   reachable from entry point j over live files (import() of other entry points not followed) *)
Theorem bits_iff_reachable : forall g r f j, split g = Some r ->
  let a := r_analysis r in
  (j < length (a_entries a))%nat ->
  (HasBit (file_bits a f) j = true <->
   path (split_succ g (a_entries a)) (is_live a) (nth j (a_entries a) O) f).
Proof. exact bits_iff_reachable_all. Qed.
Print Assumptions bits_iff_reachable.

(* every live reachable file is in exactly one chunk, and chunks hold nothing else:
   with ES module semantics a module body therefore exists once per program *)
Theorem chunks_partition : forall g r, split g = Some r ->
  let a := r_analysis r in
  (forall f, In f (a_order a) -> is_live a f = true ->
     exists i, (i < length (a_chunks a))%nat /\ In f (c_files (nth i (a_chunks a) dchunk)) /\
       forall j, (j < length (a_chunks a))%nat -> In f (c_files (nth j (a_chunks a) dchunk)) -> j = i) /\
  (forall c f, In c (a_chunks a) -> In f (c_files c) -> In f (a_order a) /\ is_live a f = true).
Proof. exact chunks_partition_all. Qed.
Print Assumptions chunks_partition.

(* and no chunk lists a file twice *)
Theorem chunk_files_nodup : forall g r c, split g = Some r -> In c (a_chunks (r_analysis r)) -> NoDup (c_files c).
Proof. exact chunk_files_nodup_all. Qed.
Print Assumptions chunk_files_nodup.

(* a static cross-chunk import goes to a chunk whose entry-point set strictly
   contains the importer's *)
Theorem import_edge_superset : forall g r i j, split g = Some r -> deps_cover g ->
  let a := r_analysis r in
  sedge (r_cross r) i j ->
  (i < length (a_chunks a))%nat /\ (j < length (a_chunks a))%nat /\
  (forall b, (b < length (a_entries a))%nat ->
     HasBit (c_bits (nth i (a_chunks a) dchunk)) b = true -> HasBit (c_bits (nth j (a_chunks a) dchunk)) b = true) /\
  c_bits (nth i (a_chunks a) dchunk) <> c_bits (nth j (a_chunks a) dchunk).
Proof. exact import_edge_superset_all. Qed.
Print Assumptions import_edge_superset.

(* hence the static import graph of the chunks has no cycle *)
Theorem static_chunk_graph_acyclic : forall g r, split g = Some r -> deps_cover g ->
  forall i, ~ clos_trans nat (sedge (r_cross r)) i i.
Proof. exact static_chunk_graph_acyclic_all. Qed.
Print Assumptions static_chunk_graph_acyclic.

(* and the three-colour check of enforceNoCyclicChunkImports never reports an error *)
Theorem enforce_never_fires : forall g r, split g = Some r -> deps_cover g ->
  enforce_cycle_error (r_cross r) = false.
Proof. exact enforce_never_fires_all. Qed.
Print Assumptions enforce_never_fires.

(* an entry chunk statically imports every chunk holding a file reachable from
   its entry point (all of them are evaluated before the entry's own code) *)
Theorem entry_loads_all_reachable : forall g r ci oi bit e f, split g = Some r ->
  let a := r_analysis r in
  (ci < length (a_chunks a))%nat -> (oi < length (a_chunks a))%nat ->
  c_entry (nth ci (a_chunks a) dchunk) = Some (bit, e) ->
  In f (c_files (nth oi (a_chunks a) dchunk)) ->
  path (split_succ g (a_entries a)) (is_live a) e f ->
  oi = ci \/ sedge (r_cross r) ci oi.
Proof. exact entry_loads_all_reachable_all. Qed.
Print Assumptions entry_loads_all_reachable.

(* every item of a generated import statement is exported by the target chunk under that alias *)
Theorem exports_exist : forall g r ci im al, split g = Some r ->
  let a := r_analysis r in
  (ci < length (a_chunks a))%nat ->
  In im (x_imports (nth ci (r_cross r) dcross)) -> i_dynamic im = false -> In al (i_items im) ->
  (i_chunk im < length (a_chunks a))%nat /\ i_chunk im <> ci /\
  exists s, In (s, al) (x_exports (nth (i_chunk im) (r_cross r) dcross)).
Proof. exact exports_exist_all. Qed.
Print Assumptions exports_exist.

(* the export aliases of a chunk are pairwise distinct (renamed and minified) *)
Theorem export_aliases_distinct : forall g r oi, split g = Some r ->
  (oi < length (a_chunks (r_analysis r)))%nat ->
  NoDup (map snd (x_exports (nth oi (r_cross r) dcross))).
Proof. exact export_aliases_distinct_all. Qed.
Print Assumptions export_aliases_distinct.

(* ExportRenamer.NextRenamedName never hands out the same name twice *)
Theorem export_renamer_injective : forall names l, rename_all names = Some l ->
  NoDup l /\ length l = length names.
Proof. exact rename_all_nodup. Qed.
Print Assumptions export_renamer_injective.

(* NumberToMinifiedName is injective (NextMinifiedName never repeats) *)
Theorem minified_name_injective : forall i j, minified_name i = minified_name j -> i = j.
Proof. exact minified_name_inj. Qed.
Print Assumptions minified_name_injective.

(* no chunk imports from an entry chunk (entry chunks export only the entry's own
   exports); partial: the importing chunk's entry-point set is assumed non-empty *)
Theorem entry_chunk_no_importers_partial : forall g r i j bit e, split g = Some r -> deps_cover g ->
  let a := r_analysis r in
  sedge (r_cross r) i j -> c_entry (nth j (a_chunks a) dchunk) = Some (bit, e) ->
  (exists b, (b < length (a_entries a))%nat /\ HasBit (c_bits (nth i (a_chunks a) dchunk)) b = true) -> False.
Proof. exact entry_chunk_no_importers_partial_all. Qed.
Print Assumptions entry_chunk_no_importers_partial.
