(* C10 property theorems. This file contains only statements closed by
   [exact lemma] and Print Assumptions.  [split g = Some r] excludes only fuel
   exhaustion of the model (never observed; every correspondence case is Some).
   "Dependencies cover uses" (a symbol used or exported across files is backed by a part
   dependency) is no longer an assumption: see deps_cover_by_construction. *)
From V Require Import Common.Base C10.BitSet C10.Renamer C10.Split
  C10.BitSetProofs C10.RenamerProofs C10.ListLemmas C10.SplitProofs C10.OrderProofs C10.CrossProofs
  C10.Eval C10.EvalProofs C10.TotalProofs C10.DfsProofs C10.DynProofs C10.Css C10.CssProofs.
From Coq Require Import Permutation.
From Coq Require Import Relations.

(* scanImportsAndExports steps 5/6, as completed by the model (Split.part_deps, export_deps):
   every declared symbol a file uses, and every declared export target of an entry point, is
   backed by a dependency on the declaring file - for EVERY input, so none of the theorems
   below assumes it.  (The harness additionally checks on every linker dump that the dumped
   dependencies alone already have this property: Split.deps_coverb.) *)
Theorem deps_cover_by_construction : forall g,
  (forall f s, In s (f_uses (getf g f)) -> is_declared g s = true -> In (fst s) (f_deps g (getf g f))) /\
  (forall ents e s, In e ents -> In s (entry_exports g e) -> is_declared g s = true -> In (fst s) (export_deps g ents e)).
Proof. exact deps_cover_holds. Qed.
Print Assumptions deps_cover_by_construction.

(* totality: on a well-formed dump (there is a runtime file; import record targets, part
   dependencies and user entry points are file indices - checked on every linker dump by the
   harness) the model never runs out of fuel; [split g = Some r] below excludes nothing else *)
Theorem split_total : forall g, wf_graphb g = true -> exists r, split g = Some r.
Proof. exact split_total_all. Qed.
Print Assumptions split_total.

(* helpers.BitSet: HasBit after SetBit, every bit set of every size *)
Theorem bitset_set_has : forall bs i j, (i < 8 * length bs)%nat ->
  HasBit (SetBit bs i) j = (Nat.eqb i j || HasBit bs j).
Proof. exact HasBit_SetBit. Qed.
Print Assumptions bitset_set_has.

(* chunk keys: bit sets for n entry points are equal as strings iff they have the same members *)
Theorem bitset_string_injective : forall n a b, good_bits n a -> good_bits n b ->
  (String a = String b <-> forall j, (j < n)%nat -> HasBit a j = HasBit b j).
Proof. exact bitset_string_injective_lemma. Qed.
Print Assumptions bitset_string_injective.

(* markFileReachableForCodeSplitting: bit j of a file is set exactly when the file is
   reachable from entry point j over live files (import() of other entry points not followed) *)
Theorem bits_iff_reachable : forall g r f j, split g = Some r ->
  let a := r_analysis r in
  (j < length (a_entries a))%nat ->
  (HasBit (file_bits a f) j = true <->
   path (split_succ g (a_entries a)) (is_live a) (nth j (a_entries a) O) f).
Proof. exact bits_iff_reachable_all. Qed.
Print Assumptions bits_iff_reachable.

(* every live reachable file is in exactly one chunk, and chunks hold nothing else:
   with ES module semantics a module body therefore exists once per program *)
Theorem chunks_partition : forall g r, split g = Some r ->
  let a := r_analysis r in
  (forall f, In f (a_order a) -> is_live a f = true ->
     exists i, (i < length (a_chunks a))%nat /\ In f (c_files (nth i (a_chunks a) dchunk)) /\
       forall j, (j < length (a_chunks a))%nat -> In f (c_files (nth j (a_chunks a) dchunk)) -> j = i) /\
  (forall c f, In c (a_chunks a) -> In f (c_files c) -> In f (a_order a) /\ is_live a f = true).
Proof. exact chunks_partition_all. Qed.
Print Assumptions chunks_partition.

(* findReachableFiles lists the runtime and the user entry points and is closed under import records *)
Theorem reachable_files_closed_under_imports : forall g, wf_graphb g = true ->
  In O (reachable_files g) /\ (forall e, In e (g_user g) -> In e (reachable_files g)) /\
  (forall f r, In f (reachable_files g) -> In r (f_recs (getf g f)) -> In (fst r) (reachable_files g)).
Proof. exact reachable_files_closed. Qed.
Print Assumptions reachable_files_closed_under_imports.

(* findImportedPartsInJSOrder: the emitted order of a chunk is a permutation of the chunk's files
   (every file of the chunk is emitted, exactly once, and nothing else) *)
Theorem chunk_order_permutation : forall g r i, split g = Some r -> wf_graphb g = true ->
  (i < length (a_chunks (r_analysis r)))%nat ->
  Permutation (nth i (r_orders r) []) (c_files (nth i (a_chunks (r_analysis r)) dchunk)).
Proof. exact chunk_order_permutation_all. Qed.
Print Assumptions chunk_order_permutation.

(* and no chunk lists a file twice *)
Theorem chunk_files_nodup : forall g r c, split g = Some r -> In c (a_chunks (r_analysis r)) -> NoDup (c_files c).
Proof. exact chunk_files_nodup_all. Qed.
Print Assumptions chunk_files_nodup.

(* a static cross-chunk import goes to a chunk whose entry-point set strictly
   contains the importer's *)
Theorem import_edge_superset : forall g r i j, split g = Some r ->
  let a := r_analysis r in
  sedge (r_cross r) i j ->
  (i < length (a_chunks a))%nat /\ (j < length (a_chunks a))%nat /\
  (forall b, (b < length (a_entries a))%nat ->
     HasBit (c_bits (nth i (a_chunks a) dchunk)) b = true -> HasBit (c_bits (nth j (a_chunks a) dchunk)) b = true) /\
  c_bits (nth i (a_chunks a) dchunk) <> c_bits (nth j (a_chunks a) dchunk).
Proof. exact import_edge_superset_all. Qed.
Print Assumptions import_edge_superset.

(* hence the static import graph of the chunks has no cycle *)
Theorem static_chunk_graph_acyclic : forall g r, split g = Some r ->
  forall i, ~ clos_trans nat (sedge (r_cross r)) i i.
Proof. exact static_chunk_graph_acyclic_all. Qed.
Print Assumptions static_chunk_graph_acyclic.

(* and the three-colour check of enforceNoCyclicChunkImports never reports an error *)
Theorem enforce_never_fires : forall g r, split g = Some r ->
  enforce_cycle_error (r_cross r) = false.
Proof. exact enforce_never_fires_all. Qed.
Print Assumptions enforce_never_fires.

(* an entry chunk statically imports every chunk holding a file reachable from
   its entry point (all of them are evaluated before the entry's own code) *)
Theorem entry_loads_all_reachable : forall g r ci oi bit e f, split g = Some r ->
  let a := r_analysis r in
  (ci < length (a_chunks a))%nat -> (oi < length (a_chunks a))%nat ->
  c_entry (nth ci (a_chunks a) dchunk) = Some (bit, e) ->
  In f (c_files (nth oi (a_chunks a) dchunk)) ->
  path (split_succ g (a_entries a)) (is_live a) e f ->
  oi = ci \/ sedge (r_cross r) ci oi.
Proof. exact entry_loads_all_reachable_all. Qed.
Print Assumptions entry_loads_all_reachable.

(* every item of a generated import statement is exported by the target chunk under that alias *)
Theorem exports_exist : forall g r ci im al, split g = Some r ->
  let a := r_analysis r in
  (ci < length (a_chunks a))%nat ->
  In im (x_imports (nth ci (r_cross r) dcross)) -> i_dynamic im = false -> In al (i_items im) ->
  (i_chunk im < length (a_chunks a))%nat /\ i_chunk im <> ci /\
  exists s, In (s, al) (x_exports (nth (i_chunk im) (r_cross r) dcross)).
Proof. exact exports_exist_all. Qed.
Print Assumptions exports_exist.

(* the export aliases of a chunk are pairwise distinct (renamed and minified) *)
Theorem export_aliases_distinct : forall g r oi, split g = Some r ->
  (oi < length (a_chunks (r_analysis r)))%nat ->
  NoDup (map snd (x_exports (nth oi (r_cross r) dcross))).
Proof. exact export_aliases_distinct_all. Qed.
Print Assumptions export_aliases_distinct.

(* ExportRenamer.NextRenamedName never hands out the same name twice *)
Theorem export_renamer_injective : forall names l, rename_all names = Some l ->
  NoDup l /\ length l = length names.
Proof. exact rename_all_nodup. Qed.
Print Assumptions export_renamer_injective.

(* NumberToMinifiedName is injective (NextMinifiedName never repeats) *)
Theorem minified_name_injective : forall i j, minified_name i = minified_name j -> i = j.
Proof. exact minified_name_inj. Qed.
Print Assumptions minified_name_injective.

(* every live file is reached by some entry point, so no chunk has an empty entry-point set *)
Theorem live_file_reached_by_some_entry : forall g a f, analyse g = Some a -> is_live a f = true ->
  exists j, (j < length (a_entries a))%nat /\ HasBit (file_bits a f) j = true.
Proof. exact live_has_bit. Qed.
Print Assumptions live_file_reached_by_some_entry.

(* no chunk imports from an entry chunk: entry chunks export only the entry point's own
   exports (full statement; supersedes entry_chunk_no_importers_partial) *)
Theorem entry_chunk_no_importers : forall g r i j bit e, split g = Some r ->
  let a := r_analysis r in
  sedge (r_cross r) i j -> c_entry (nth j (a_chunks a) dchunk) = Some (bit, e) -> False.
Proof. exact entry_chunk_no_importers_all. Qed.
Print Assumptions entry_chunk_no_importers.

(* what the code of a chunk references (chunkMeta.imports of computeCrossChunkDependencies):
   the SymbolUses of the live parts of its files, each followed through the ImportsToBind
   table of the using file, plus, for an entry chunk, the entry point's export targets
   followed through the table of the file that resolved the export *)
Theorem chunk_uses_characterisation : forall g c s, In s (chunk_uses g c) <->
  (exists f p u, In f (c_files c) /\ In p (f_parts (getf g f)) /\ p_live p = true /\ In u (p_uses p) /\
                 s = resolve_in (getf g f) u) \/
  (exists bit e, c_entry c = Some (bit, e) /\ In s (entry_exports g e)).
Proof. exact chunk_uses_spec. Qed.
Print Assumptions chunk_uses_characterisation.

(* cross-chunk imports are exact: every symbol a chunk references is unbound (no top-level
   declaration in a live part), declared in the chunk, or imported - under the alias the
   exporting chunk gives it - from the one chunk that declares it; nothing else is imported;
   there is one import statement per imported chunk *)
Theorem cross_chunk_imports_exact : forall g r ci, split g = Some r ->
  let a := r_analysis r in
  (ci < length (a_chunks a))%nat ->
  let c := nth ci (a_chunks a) dchunk in
  let x := nth ci (r_cross r) dcross in
  (forall s, In s (chunk_uses g c) ->
     chunk_of_sym g a s = None \/ chunk_of_sym g a s = Some ci \/
     exists oi im al, chunk_of_sym g a s = Some oi /\ oi <> ci /\ (oi < length (a_chunks a))%nat /\
       In im (static_imports x) /\ i_chunk im = oi /\ In al (i_items im) /\
       lookup_alias s (x_exports (nth oi (r_cross r) dcross)) = Some al) /\
  (forall im al, In im (static_imports x) -> In al (i_items im) ->
     exists s, In s (chunk_uses g c) /\ chunk_of_sym g a s = Some (i_chunk im) /\
       lookup_alias s (x_exports (nth (i_chunk im) (r_cross r) dcross)) = Some al) /\
  NoDup (map i_chunk (static_imports x)).
Proof. exact cross_chunk_imports_exact_all. Qed.
Print Assumptions cross_chunk_imports_exact.

(* ---- evaluation order ----
   Full claim (FALSE, see the refutation below): loading an entry point evaluates the module
   bodies in the same relative order as ESM evaluation of the sources,
     forall g r ci bit e f1 f2, split g = Some r -> c_entry (nth ci chunks) = Some (bit, e) ->
       before f1 f2 (native_order g e) -> In f1 (split_order r ci) -> In f2 (split_order r ci) ->
       before f1 f2 (split_order r ci).
   What holds: chunks are evaluated after the chunks they import; a chunk that declares a
   binding is evaluated before every chunk whose code uses it; inside a chunk a file comes
   after the files of the chunk it imports. *)
Theorem chunk_order_respects_evaluation_refuted :
  exists g r ci bit e f1 f2, split g = Some r /\
    nth_error (map c_entry (a_chunks (r_analysis r))) ci = Some (Some (bit, e)) /\
    beforeb f1 f2 (native_order g e) = true /\ beforeb f2 f1 (split_order r ci) = true.
Proof. exact chunk_order_respects_evaluation_refuted_all. Qed.
Print Assumptions chunk_order_respects_evaluation_refuted.

Theorem chunk_eval_respects_imports : forall g r ci, split g = Some r ->
  (ci < length (a_chunks (r_analysis r)))%nat ->
  let out := chunk_eval_order r ci in
  In ci out /\ forall A B, In A out -> sedge (r_cross r) A B -> In B out /\ before B A out.
Proof. exact chunk_eval_respects_imports_lemma. Qed.
Print Assumptions chunk_eval_respects_imports.

Theorem binding_chunk_evaluated_first : forall g r ci A B s, split g = Some r ->
  let a := r_analysis r in
  (ci < length (a_chunks a))%nat -> In A (chunk_eval_order r ci) ->
  (A < length (a_chunks a))%nat ->
  In s (chunk_uses g (nth A (a_chunks a) dchunk)) -> chunk_of_sym g a s = Some B -> B <> A ->
  In B (chunk_eval_order r ci) /\ before B A (chunk_eval_order r ci).
Proof. exact binding_chunk_evaluated_first_all. Qed.
Print Assumptions binding_chunk_evaluated_first.

Theorem binding_file_evaluated_first : forall g r ci A B s f f', split g = Some r ->
  let a := r_analysis r in
  (ci < length (a_chunks a))%nat -> In A (chunk_eval_order r ci) ->
  (A < length (a_chunks a))%nat ->
  In s (chunk_uses g (nth A (a_chunks a) dchunk)) -> chunk_of_sym g a s = Some B -> B <> A ->
  In f (nth B (r_orders r) []) -> In f' (nth A (r_orders r) []) ->
  before f f' (split_order r ci).
Proof. exact binding_file_evaluated_first_all. Qed.
Print Assumptions binding_file_evaluated_first.

(* findImportedPartsInJSOrder: inside a chunk a file is emitted after the files of the chunk
   it imports (acyclic walked import graph, import records point at existing files) *)
Theorem chunk_order_respects_imports : forall g a c f f',
  (forall x, ~ clos_trans nat (E (osucc g a c)) x x) ->
  (forall x y, In y (osucc g a c x) -> (y < nfiles g)%nat) ->
  (forall x, In x (c_files c) -> (x < nfiles g)%nat) -> (0 < nfiles g)%nat ->
  In f (chunk_order g a c) -> In f' (osucc g a c f) -> in_chunk a c f' = true ->
  In f' (chunk_order g a c) /\ before f' f (chunk_order g a c).
Proof. exact chunk_order_respects_imports_all. Qed.
Print Assumptions chunk_order_respects_imports.

(* ---- import() under code splitting ---- *)
(* every entry point, user-specified or import() target, has an entry chunk *)
Theorem entry_point_has_entry_chunk : forall g a e, analyse g = Some a -> In e (a_entries a) ->
  exists oi bit, entry_chunk_index e (a_chunks a) 0 = Some oi /\ (oi < length (a_chunks a))%nat /\
    c_entry (nth oi (a_chunks a) dchunk) = Some (bit, e) /\ (bit < length (a_entries a))%nat /\ nth bit (a_entries a) O = e.
Proof. exact every_entry_has_chunk. Qed.
Print Assumptions entry_point_has_entry_chunk.

(* an import() of ANOTHER file makes that file an entry point and resolves to the chunk whose
   entry point (entry bit) is that file; the importing chunk is that chunk or records a dynamic
   cross-chunk import of it *)
Theorem dynamic_import_resolves_to_entry_chunk : forall g r ci f t, split g = Some r -> wf_graphb g = true ->
  let a := r_analysis r in
  (ci < length (a_chunks a))%nat -> In f (c_files (nth ci (a_chunks a) dchunk)) ->
  In (t, true) (f_recs (getf g f)) -> t <> f ->
  In t (a_entries a) /\
  exists oi bit, entry_chunk_index t (a_chunks a) 0 = Some oi /\ (oi < length (a_chunks a))%nat /\
    c_entry (nth oi (a_chunks a) dchunk) = Some (bit, t) /\ nth bit (a_entries a) O = t /\
    (oi = ci \/ In (mkImp true oi []) (x_imports (nth ci (r_cross r) dcross))).
Proof. exact dynamic_import_resolves_all. Qed.
Print Assumptions dynamic_import_resolves_to_entry_chunk.

(* the same statement without [t <> f] is false: the self import() (known finding
   C10-self-dynamic-import, replayed on the real code in every run) *)
Theorem dynamic_import_self_refuted :
  exists g r ci f, split g = Some r /\ wf_graphb g = true /\
    In f (c_files (nth ci (a_chunks (r_analysis r)) dchunk)) /\ In (f, true) (f_recs (getf g f)) /\
    In f (a_entries (r_analysis r)) /\ entry_chunk_index f (a_chunks (r_analysis r)) 0 = Some ci /\
    is_external_dynamic (a_entries (r_analysis r)) f (f, true) = false /\
    x_imports (nth ci (r_cross r) dcross) = [] /\
    In f (osucc g (r_analysis r) (nth ci (a_chunks (r_analysis r)) dchunk) f).
Proof. exact dynamic_import_self_refuted_all. Qed.
Print Assumptions dynamic_import_self_refuted.

(* entry_loads_all_reachable for import() targets *)
Theorem dynamic_entry_loads_all_reachable : forall g r f t oj f', split g = Some r -> wf_graphb g = true ->
  let a := r_analysis r in
  In f (reachable_files g) -> In (t, true) (f_recs (getf g f)) ->
  (oj < length (a_chunks a))%nat -> In f' (c_files (nth oj (a_chunks a) dchunk)) ->
  path (split_succ g (a_entries a)) (is_live a) t f' ->
  exists oi bit, entry_chunk_index t (a_chunks a) 0 = Some oi /\
    c_entry (nth oi (a_chunks a) dchunk) = Some (bit, t) /\ (oj = oi \/ sedge (r_cross r) oi oj).
Proof. exact dynamic_entry_loads_all_reachable_all. Qed.
Print Assumptions dynamic_entry_loads_all_reachable.

(* ---- the CSS side of code splitting (Css.v; JS entry points, unconditional internal @import) ---- *)
(* esbuild's guarantee for CSS is per entry point, not per file: there is exactly one CSS chunk
   for every entry point that reaches CSS (none otherwise), keyed by the entry point's bit *)
Theorem css_one_chunk_per_entry : forall g ents i e fs,
  In (i, e, fs) (css_chunks g ents) <->
  nth_error ents i = Some e /\ css_roots g e <> [] /\ fs = css_chunk_files g e.
Proof. exact css_one_chunk_per_entry_all. Qed.
Print Assumptions css_one_chunk_per_entry.

Theorem css_chunk_bits_nodup : forall g ents, NoDup (map (fun c => fst (fst c)) (css_chunks g ents)).
Proof. exact css_chunk_bits_nodup_all. Qed.
Print Assumptions css_chunk_bits_nodup.

(* the CSS chunk of an entry point holds exactly the CSS files reached from it: through the JS
   import graph to a JS stub of a CSS file, then along "@import" rules (a path that does not
   pass through a file twice) *)
Theorem css_chunk_exact : forall g e c, wf_cgraphb g = true -> (e < length g)%nat ->
  (In c (css_chunk_files g e) <->
   exists f root, jreach g e f /\ cf_stub (getc g f) = Some root /\ spath g [0%nat] root c).
Proof. exact css_chunk_exact_all. Qed.
Print Assumptions css_chunk_exact.

(* the same with ordinary reachability along "@import" edges (loop removal), given that no
   "@import" points at file 0, the runtime, which the Go walk treats as already visited *)
Theorem css_chunk_reachable : forall g e c, wf_cgraphb g = true -> no_zero_targetb g = true -> (e < length g)%nat ->
  (In c (css_chunk_files g e) <->
   exists f root, jreach g e f /\ cf_stub (getc g f) = Some root /\ root <> 0%nat /\ creach g root c).
Proof. exact css_chunk_reachable_all. Qed.
Print Assumptions css_chunk_reachable.

(* ... each of them once (all but the last copy are dropped) *)
Theorem css_chunk_nodup : forall g e, NoDup (css_chunk_files g e).
Proof. exact css_chunk_nodup_all. Qed.
Print Assumptions css_chunk_nodup.

(* shared CSS is duplicated by design: a CSS file reached from two entry points is in both CSS
   chunks (there is no partition on the CSS side) *)
Theorem css_shared_duplicated : forall g e1 e2 f1 f2 r1 r2 c, wf_cgraphb g = true ->
  (e1 < length g)%nat -> (e2 < length g)%nat ->
  jreach g e1 f1 -> cf_stub (getc g f1) = Some r1 -> spath g [0%nat] r1 c ->
  jreach g e2 f2 -> cf_stub (getc g f2) = Some r2 -> spath g [0%nat] r2 c ->
  In c (css_chunk_files g e1) /\ In c (css_chunk_files g e2).
Proof. exact css_shared_duplicated_all. Qed.
Print Assumptions css_shared_duplicated.
