(* C10 property theorems. This file contains only statements closed by
   [exact lemma] and Print Assumptions. *)
From V Require Import Common.Base C10.BitSet C10.BitSetProofs.

(* HasBit after SetBit, every bit set of every size *)
Theorem bitset_set_has : forall bs i j, (i < 8 * length bs)%nat ->
  HasBit (SetBit bs i) j = (Nat.eqb i j || HasBit bs j).
Proof. exact HasBit_SetBit. Qed.
Print Assumptions bitset_set_has.
