(* Executable model of the code-splitting core of esbuild.

   Mirrors (Go, /repo):
     internal/bundler/bundler.go   findReachableFiles            -> reachable_files
     internal/graph/graph.go       CloneLinkerGraph (dynamic imports become
                                   entry points, sorted by stable index)   -> entries
     internal/linker/linker.go     markFileLiveForTreeShaking (file level) -> live_set
                                   markFileReachableForCodeSplitting       -> reach_sets / file_bits / file_dist
                                   computeChunks                           -> chunk_keys / chunks
                                   findImportedPartsInJSOrder (file order) -> chunk_order
                                   computeCrossChunkDependencies           -> cross (imports, exports, aliases)
                                   enforceNoCyclicChunkImports             -> enforce_cycle_error
     internal/renamer/renamer.go   ExportRenamer                           -> Renamer.v

   Level of abstraction.  Files are numbered by the harness; file 0 is the
   runtime.  A file carries its import records in source order (static or
   import()), its parts (liveness, dependencies, raw symbol uses, top-level
   declarations), its ImportsToBind table, the names of its top-level symbols
   and its resolved exports, all as dumped from the real linker
   (internal/linker/export_verif_c10.go).  Part dependencies come twice: those of all parts
   (markFileReachableForCodeSplitting walks every part, live or not) and those
   of the live parts (tree shaking follows only these).  Every non-runtime file is assumed to have side
   effects (so file liveness is reachability) and to be ESM (never wrapped).
   markFileReachableForCodeSplitting is modelled as per-entry breadth-first
   reachability with the BFS layer as distance (the Go code re-traverses when a
   shorter distance is found, which computes exactly the minimum); the result
   is checked for closedness and [None] is returned if the fuel was too small
   (never observed; the theorems are about [Some]). *)
From V Require Import Common.Base C10.BitSet C10.Renamer.

Definition memn (x : nat) (l : list nat) : bool := existsb (Nat.eqb x) l.

Definition sym := (nat * nat)%type.  (* (declaring file, index into its f_names) *)
Definition sym_eqb (a b : sym) : bool := (fst a =? fst b)%nat && (snd a =? snd b)%nat.
Definition mems (x : sym) (l : list sym) : bool := existsb (sym_eqb x) l.

(* a part of a file (js_ast.Part), reduced to what code splitting reads *)
Record part := mkPart {
  p_live : bool;                (* Part.IsLive (result of tree shaking) *)
  p_deps : list nat;            (* Part.Dependencies: the files depended on *)
  p_uses : list sym;            (* keys of Part.SymbolUses (raw refs) *)
  p_declared : list nat         (* top-level DeclaredSymbols (inner indices) *)
}.
Record file := mkFile {
  f_recs : list (nat * bool);   (* import records in source order: (target, is import()) *)
  f_parts : list part;
  f_bind : list (sym * sym);    (* Meta.ImportsToBind: import ref -> the symbol it was bound to *)
  f_names : list (nat * bytes); (* OriginalName of the top-level symbols, by inner index *)
  f_rawexports : list sym       (* ResolvedExports (SourceIndex, Ref) in SortedAndFilteredExportAliases order *)
}.
Definition live_parts (fl : file) : list part := filter p_live (f_parts fl).
Fixpoint lookup_bind (s : sym) (l : list (sym * sym)) : option sym :=
  match l with
  | [] => None
  | (k, t) :: r => if sym_eqb s k then Some t else lookup_bind s r
  end.
(* "if importData, ok := repr.Meta.ImportsToBind[ref]; ok { ref = importData.Ref }" *)
Definition resolve_in (fl : file) (s : sym) : sym :=
  match lookup_bind s (f_bind fl) with Some t => t | None => s end.
(* symbols used by the live parts, after ImportsToBind of the using file *)
Definition f_uses (fl : file) : list sym := map (resolve_in fl) (flat_map p_uses (live_parts fl)).
(* top-level symbols declared by live parts: these get a Symbol.ChunkIndex *)
Definition declared_live (fl : file) : list nat := flat_map p_declared (live_parts fl).
Record graph := mkGraph {
  g_files : list file;
  g_user : list nat;            (* user-specified entry points in order *)
  g_minify : bool               (* MinifyIdentifiers *)
}.
Definition nofile := mkFile [] [] [] [] [].
Definition getf (g : graph) (f : nat) : file := nth f (g_files g) nofile.
(* export targets of an entry point: the bound symbol is looked up in the table of the
   file that resolved the export (c.graph.Files[export.SourceIndex]...ImportsToBind) *)
Definition entry_exports (g : graph) (e : nat) : list sym :=
  map (fun s => resolve_in (getf g (fst s)) s) (f_rawexports (getf g e)).

(* Part.Dependencies.  The dumped dependencies of a part are completed with what steps 5/6 of
   scanImportsAndExports add by construction: a dependency on the file of every part that
   declares a symbol the part uses (after ImportsToBind); the same for the dummy part of an
   entry point and its export targets.  On a real dump this adds nothing (the correspondence
   would show it); it makes "dependencies cover uses" a theorem instead of an assumption. *)
Definition declared_any (fl : file) : list nat := flat_map p_declared (f_parts fl).
Definition is_declared (g : graph) (s : sym) : bool := memn (snd s) (declared_any (getf g (fst s))).
Definition sym_deps (g : graph) (fl : file) (p : part) : list nat :=
  map fst (filter (is_declared g) (map (resolve_in fl) (p_uses p))).
Definition part_deps (g : graph) (fl : file) (p : part) : list nat := p_deps p ++ sym_deps g fl p.
(* dependencies of ALL parts (markFileReachableForCodeSplitting walks every part) *)
Definition f_deps (g : graph) (fl : file) : list nat := flat_map (part_deps g fl) (f_parts fl).
(* ... and of the LIVE parts only (tree shaking follows only these) *)
Definition f_ldeps (g : graph) (fl : file) : list nat := flat_map (part_deps g fl) (live_parts fl).
(* the entry point part depends on the parts declaring the export targets *)
Definition export_deps (g : graph) (ents : list nat) (e : nat) : list nat :=
  if memn e ents then map fst (filter (is_declared g) (entry_exports g e)) else [].
Definition nfiles (g : graph) : nat := length (g_files g).

(* ---- findReachableFiles: DFS post-order, runtime first, then the entry points ---- *)
(* generic depth-first post-order walk (visited set, output list) *)
Fixpoint gvisit (fuel : nat) (succ : nat -> list nat) (x : nat) (st : list nat * list nat) : list nat * list nat :=
  match fuel with
  | O => st
  | S k =>
    let '(vis, out) := st in
    if memn x vis then st else
    let '(vis', out') := fold_left (fun s y => gvisit k succ y s) (succ x) (x :: vis, out) in
    (vis', out' ++ [x])
  end.
Definition postorder (fuel : nat) (succ : nat -> list nat) (roots : list nat) : list nat :=
  snd (fold_left (fun s x => gvisit fuel succ x s) roots ([], [])).

Definition rec_targets (g : graph) (f : nat) : list nat := map fst (f_recs (getf g f)).
Definition reachable_files (g : graph) : list nat :=
  postorder (S (nfiles g)) (rec_targets g) (0%nat :: g_user g).

Fixpoint index_of (x : nat) (l : list nat) : nat :=
  match l with [] => O | y :: r => if (x =? y)%nat then O else S (index_of x r) end.
Definition stable_index (g : graph) (f : nat) : nat := index_of f (reachable_files g).

(* ---- CloneLinkerGraph: import() targets become entry points (code splitting) ---- *)
Definition dyn_targets (g : graph) : list nat :=
  flat_map (fun f => map fst (filter snd (f_recs (getf g f)))) (reachable_files g).
Definition entries (g : graph) : list nat :=
  let dyn := dyn_targets g in
  g_user g ++ filter (fun f => memn f dyn && negb (memn f (g_user g))) (reachable_files g).

(* ---- generic layered closure ---- *)
Definition new_layer (succ : nat -> list nat) (ok : nat -> bool) (seen layer : list nat) : list nat :=
  fold_left (fun acc t => if ok t && negb (memn t seen) && negb (memn t acc) then acc ++ [t] else acc)
            (flat_map succ layer) [].
Fixpoint bfs (fuel : nat) (succ : nat -> list nat) (ok : nat -> bool)
             (seen layer : list nat) (d : nat) (acc : list (nat * nat)) : list (nat * nat) :=
  match fuel with
  | O => acc
  | S k =>
    match new_layer succ ok seen layer with
    | [] => acc
    | next => bfs k succ ok (seen ++ next) next (S d) (acc ++ map (fun t => (t, S d)) next)
    end
  end.
Definition closedb (succ : nat -> list nat) (ok : nat -> bool) (R : list nat) : bool :=
  forallb (fun f => forallb (fun t => negb (ok t) || memn t R) (succ f)) R.
Definition dedupe (l : list nat) : list nat :=
  fold_left (fun acc t => if memn t acc then acc else acc ++ [t]) l [].
Definition closure (fuel : nat) (succ : nat -> list nat) (ok : nat -> bool) (roots : list nat)
  : option (list (nat * nat)) :=
  let r0 := dedupe (filter ok roots) in
  let r := bfs fuel succ ok r0 r0 0 (map (fun t => (t, O)) r0) in
  if closedb succ ok (map fst r) then Some r else None.

(* ---- markFileLiveForTreeShaking, at file granularity ---- *)
Definition live_succ (g : graph) (ents : list nat) (f : nat) : list nat :=
  map fst (filter (fun r => negb (snd r)) (f_recs (getf g f))) ++ (f_ldeps g (getf g f) ++ export_deps g ents f).

(* ---- markFileReachableForCodeSplitting ---- *)
(* isExternalDynamicImport: import() of an entry point other than the file itself *)
Definition is_external_dynamic (ents : list nat) (f : nat) (r : nat * bool) : bool :=
  snd r && memn (fst r) ents && negb (fst r =? f)%nat.
Definition split_succ (g : graph) (ents : list nat) (f : nat) : list nat :=
  map fst (filter (fun r => negb (is_external_dynamic ents f r)) (f_recs (getf g f)))
  ++ filter (fun t => negb (t =? f)%nat) (f_deps g (getf g f) ++ export_deps g ents f).

Fixpoint lookup_dist (f : nat) (r : list (nat * nat)) : option nat :=
  match r with
  | [] => None
  | (x, d) :: r' => if (x =? f)%nat then Some d else lookup_dist f r'
  end.

Fixpoint all_some {A} (l : list (option A)) : option (list A) :=
  match l with
  | [] => Some []
  | None :: _ => None
  | Some x :: r => match all_some r with Some r' => Some (x :: r') | None => None end
  end.

(* bit i is set on file f iff f is in the reach set of entry i *)
Fixpoint bits_from (f : nat) (rs : list (list (nat * nat))) (i : nat) (bs : bitset) : bitset :=
  match rs with
  | [] => bs
  | r :: rs' => bits_from f rs' (S i) (if memn f (map fst r) then SetBit bs i else bs)
  end.
Definition min_opt (a : option nat) (b : option nat) : option nat :=
  match a, b with
  | Some x, Some y => Some (Nat.min x y)
  | Some x, None => Some x
  | None, y => y
  end.
Definition dist_from (f : nat) (rs : list (list (nat * nat))) : option nat :=
  fold_left (fun acc r => min_opt acc (lookup_dist f r)) rs None.

(* ---- chunks ---- *)
Record chunk := mkChunk {
  c_bits : bitset;
  c_entry : option (nat * nat);     (* (entryPointBit, entry file) *)
  c_files : list nat                (* filesWithPartsInChunk, in ReachableFiles order *)
}.

Fixpoint key_mem (k : bytes) (l : list bytes) : bool :=
  match l with [] => false | x :: r => zlist_eqb k x || key_mem k r end.
Fixpoint insert_chunk (c : chunk) (l : list chunk) : list chunk :=
  match l with
  | [] => [c]
  | x :: r => if bytes_ltb (String (c_bits c)) (String (c_bits x)) then c :: l else x :: insert_chunk c r
  end.
Definition sort_chunks (l : list chunk) : list chunk := fold_right insert_chunk [] l.

Fixpoint mapi_from {A B} (f : nat -> A -> B) (i : nat) (l : list A) : list B :=
  match l with [] => [] | x :: r => f i x :: mapi_from f (S i) r end.

Record analysis := mkAnalysis {
  a_order : list nat;                  (* ReachableFiles *)
  a_entries : list nat;
  a_live : list nat;
  a_reach : list (list (nat * nat));   (* per entry point bit: (file, distance) *)
  a_chunks : list chunk                (* sorted by key: the index is the chunk index *)
}.

Definition file_bits (a : analysis) (f : nat) : bitset :=
  bits_from f (a_reach a) 0 (NewBitSet (length (a_entries a))).
Definition file_dist (a : analysis) (f : nat) : option nat := dist_from f (a_reach a).
Definition is_live (a : analysis) (f : nat) : bool := memn f (a_live a).

Definition entry_chunks (n : nat) (ents : list nat) : list chunk :=
  mapi_from (fun i e => mkChunk (SetBit (NewBitSet n) i) (Some (i, e)) []) 0 ents.

(* keys of the non-entry chunks, in order of first appearance *)
Definition extra_keys (ekeys : list bytes) (fkeys : list bytes) : list bytes :=
  fold_left (fun acc k => if key_mem k ekeys || key_mem k acc then acc else acc ++ [k]) fkeys [].

Definition analyse (g : graph) : option analysis :=
  let order := reachable_files g in
  let ents := entries g in
  let fuel := S (nfiles g) in
  match closure fuel (live_succ g ents) (fun _ => true) ents with
  | None => None
  | Some lv =>
    let live := map fst lv in
    match all_some (map (fun e => closure fuel (split_succ g ents) (fun t => memn t live) [e]) ents) with
    | None => None
    | Some rs =>
      let n := length ents in
      let bits := fun f => bits_from f rs 0 (NewBitSet n) in
      let lfiles := filter (fun f => memn f live) order in
      let echunks := entry_chunks n ents in
      let xkeys := extra_keys (map (fun c => String (c_bits c)) echunks) (map (fun f => String (bits f)) lfiles) in
      let all := echunks ++ map (fun k => mkChunk k None []) xkeys in
      let filled := map (fun c => mkChunk (c_bits c) (c_entry c)
                                   (filter (fun f => Equals (bits f) (c_bits c)) lfiles)) all in
      Some (mkAnalysis order ents live rs (sort_chunks filled))
    end
  end.

(* chunk index of a live file: the chunk whose bits equal the file's bits *)
Fixpoint find_chunk (bs : bitset) (l : list chunk) (i : nat) : option nat :=
  match l with
  | [] => None
  | c :: r => if Equals bs (c_bits c) then Some i else find_chunk bs r (S i)
  end.
Definition chunk_of_file (a : analysis) (f : nat) : option nat :=
  if is_live a f then find_chunk (file_bits a f) (a_chunks a) 0 else None.
(* Symbol.ChunkIndex: valid for declared top-level symbols of live files *)
Definition chunk_of_sym (g : graph) (a : analysis) (s : sym) : option nat :=
  if memn (snd s) (declared_live (getf g (fst s))) then chunk_of_file a (fst s) else None.
(* File.EntryPointChunkIndex *)
Fixpoint entry_chunk_index (e : nat) (l : list chunk) (i : nat) : option nat :=
  match l with
  | [] => None
  | c :: r => match c_entry c with
              | Some (_, e') => if (e =? e')%nat then Some i else entry_chunk_index e r (S i)
              | None => entry_chunk_index e r (S i)
              end
  end.

(* ---- findImportedPartsInJSOrder: order of the files inside a chunk ---- *)
Definition order_key (g : graph) (a : analysis) (f : nat) : nat * nat :=
  (match file_dist a f with Some d => d | None => S (nfiles g) end, index_of f (a_order a)).
Definition key_ltb (x y : nat * nat) : bool :=
  (fst x <? fst y)%nat || ((fst x =? fst y)%nat && (snd x <? snd y)%nat).
Fixpoint insert_by (g : graph) (a : analysis) (f : nat) (l : list nat) : list nat :=
  match l with
  | [] => [f]
  | x :: r => if key_ltb (order_key g a f) (order_key g a x) then f :: l else x :: insert_by g a f r
  end.
(* isFileInThisChunk (for a live part) *)
Definition in_chunk (a : analysis) (c : chunk) (f : nat) : bool :=
  is_live a f && Equals (c_bits c) (file_bits a f).
(* the files visit() recurses into from f: import statements always, require()/import() only
   from parts in this chunk, never an import() of another entry point *)
Definition osucc (g : graph) (a : analysis) (c : chunk) (f : nat) : list nat :=
  map fst (filter (fun r => (negb (snd r) || in_chunk a c f) && negb (is_external_dynamic (a_entries a) f r))
                  (f_recs (getf g f))).
(* visit(runtime), then the files of the chunk sorted by (distance, stable index); a file is
   emitted after everything it imports, and only if it belongs to this chunk *)
Definition chunk_order (g : graph) (a : analysis) (c : chunk) : list nat :=
  let sorted := fold_right (insert_by g a) [] (c_files c) in
  filter (in_chunk a c) (postorder (S (nfiles g)) (osucc g a c) (0%nat :: sorted)).

(* ---- computeCrossChunkDependencies ---- *)
Definition dedupe_syms (l : list sym) : list sym :=
  fold_left (fun acc t => if mems t acc then acc else acc ++ [t]) l [].

(* chunkMeta.imports of chunk number ci *)
Definition chunk_uses (g : graph) (c : chunk) : list sym :=
  dedupe_syms (flat_map (fun f => f_uses (getf g f)) (c_files c)
               ++ match c_entry c with Some (_, e) => entry_exports g e | None => [] end).

(* importsFromOtherChunks as (other chunk, refs); entry chunks also list every
   other chunk that has their bit, possibly with no items *)
Definition raw_imports (g : graph) (a : analysis) (ci : nat) (c : chunk) : list (nat * list sym) :=
  let us := chunk_uses g c in
  let n := length (a_chunks a) in
  flat_map (fun oi =>
    if (oi =? ci)%nat then [] else
    let items := filter (fun s => match chunk_of_sym g a s with Some x => (x =? oi)%nat | None => false end) us in
    let forced := match c_entry c with
                  | Some (bit, _) => HasBit (c_bits (nth oi (a_chunks a) (mkChunk [] None []))) bit
                  | None => false end in
    match items with
    | [] => if forced then [(oi, [])] else []
    | _ => [(oi, items)]
    end) (seq 0 n).

(* chunkMetas[oi].exports : every ref some other chunk imports from oi; sorted by
   (stable source index, inner index) *)
Definition sym_ltb (a : analysis) (x y : sym) : bool :=
  key_ltb (index_of (fst x) (a_order a), snd x) (index_of (fst y) (a_order a), snd y).
Fixpoint insert_sym (a : analysis) (s : sym) (l : list sym) : list sym :=
  match l with
  | [] => [s]
  | x :: r => if sym_ltb a s x then s :: l else x :: insert_sym a s r
  end.
Definition chunk_exports (a : analysis) (raw : list (list (nat * list sym))) (oi : nat) : list sym :=
  fold_right (insert_sym a) []
    (dedupe_syms (flat_map (fun imps => flat_map (fun p => if (fst p =? oi)%nat then snd p else []) imps) raw)).

Fixpoint lookup_name (i : nat) (l : list (nat * bytes)) : bytes :=
  match l with
  | [] => []
  | (k, n) :: r => if (i =? k)%nat then n else lookup_name i r
  end.
Definition sym_name (g : graph) (s : sym) : bytes := lookup_name (snd s) (f_names (getf g (fst s))).

(* exportsToOtherChunks: ref -> alias *)
Definition export_aliases (g : graph) (ex : list sym) : option (list (sym * bytes)) :=
  if g_minify g then Some (combine ex (map minified_name (seq 0 (length ex))))
  else match rename_all (map (sym_name g) ex) with
       | Some names => Some (combine ex names)
       | None => None
       end.

Fixpoint lookup_alias (s : sym) (l : list (sym * bytes)) : option bytes :=
  match l with
  | [] => None
  | (x, al) :: r => if sym_eqb s x then Some al else lookup_alias s r
  end.
Fixpoint insert_alias (x : bytes) (l : list bytes) : list bytes :=
  match l with
  | [] => [x]
  | y :: r => if bytes_ltb x y then x :: l else y :: insert_alias x r
  end.

Record cimport := mkImp { i_dynamic : bool; i_chunk : nat; i_items : list bytes }.
Record cross := mkCross {
  x_imports : list cimport;             (* chunk.crossChunkImports (dynamic first), with import item aliases *)
  x_exports : list (sym * bytes)        (* crossChunkSuffixStmts: export { ref as alias } *)
}.

Definition dynamic_imports (g : graph) (a : analysis) (ci : nat) (c : chunk) : list nat :=
  let targets := flat_map (fun f => map fst (filter (is_external_dynamic (a_entries a) f) (f_recs (getf g f)))) (c_files c) in
  let idxs := flat_map (fun t => match entry_chunk_index t (a_chunks a) 0 with
                                 | Some oi => if (oi =? ci)%nat then [] else [oi]
                                 | None => [] end) targets in
  filter (fun oi => memn oi idxs) (seq 0 (length (a_chunks a))).

Definition cross_chunk (g : graph) (a : analysis) : option (list cross) :=
  let raw := mapi_from (raw_imports g a) 0 (a_chunks a) in
  let n := length (a_chunks a) in
  match all_some (map (fun oi => export_aliases g (chunk_exports a raw oi)) (seq 0 n)) with
  | None => None
  | Some exps =>
    all_some (mapi_from (fun ci c =>
      let dyn := map (fun oi => mkImp true oi []) (dynamic_imports g a ci c) in
      match all_some (map (fun p =>
               match all_some (map (fun s => lookup_alias s (nth (fst p) exps [])) (snd p)) with
               | Some als => Some (mkImp false (fst p) (fold_right insert_alias [] als))
               | None => None
               end) (nth ci raw [])) with
      | Some st => Some (mkCross (dyn ++ st) (nth ci exps []))
      | None => None
      end) 0 (a_chunks a))
  end.

(* ---- enforceNoCyclicChunkImports: three-colour DFS over the static edges ---- *)
Definition static_succ (xs : list cross) (ci : nat) : list nat :=
  map i_chunk (filter (fun i => negb (i_dynamic i)) (x_imports (nth ci xs (mkCross [] [])))).
(* colours: absent = white; gray list; black list.  Returns (error, gray, black) *)
Fixpoint validate (fuel : nat) (xs : list cross) (ci : nat) (gray black : list nat) : bool * list nat :=
  match fuel with
  | O => (true, black)   (* out of fuel counts as an error: the theorem shows it does not happen *)
  | S k =>
    if memn ci gray then (true, black)
    else if memn ci black then (false, black)
    else
      let '(err, black') :=
        fold_left (fun (s : bool * list nat) oi =>
                     if fst s then s else validate k xs oi (ci :: gray) (snd s))
                  (static_succ xs ci) (false, black) in
      if err then (true, black') else (false, ci :: black')
  end.
Definition enforce_cycle_error (xs : list cross) : bool :=
  fst (fold_left (fun (s : bool * list nat) ci => if fst s then s else validate (S (length xs)) xs ci [] (snd s))
                 (seq 0 (length xs)) (false, [])).

(* ---- the whole thing ---- *)
Record result := mkResult { r_analysis : analysis; r_cross : list cross; r_orders : list (list nat) }.
Definition split (g : graph) : option result :=
  match analyse g with
  | None => None
  | Some a =>
    match cross_chunk g a with
    | None => None
    | Some xs => Some (mkResult a xs (map (chunk_order g a) (a_chunks a)))
    end
  end.

(* diagnostic evaluated on every linker dump: the DUMPED dependencies alone already cover
   the uses of declared symbols and the entry points' export targets *)
Definition raw_deps (fl : file) : list nat := flat_map p_deps (f_parts fl).
Definition deps_coverb (g : graph) : bool :=
  forallb (fun f =>
    forallb (fun s : sym => negb (is_declared g s) || (fst s =? f)%nat || memn (fst s) (raw_deps (getf g f))) (f_uses (getf g f)) &&
    (negb (memn f (entries g)) ||
     forallb (fun s : sym => negb (is_declared g s) || (fst s =? f)%nat || memn (fst s) (raw_deps (getf g f))) (entry_exports g f)))
    (seq 0 (nfiles g)).

(* well-formedness of a linker dump: there is a runtime file, and import record targets,
   part dependencies and user entry points are file indices *)
Definition wf_graphb (g : graph) : bool :=
  (0 <? nfiles g)%nat &&
  forallb (fun fl => forallb (fun r => (fst r <? nfiles g)%nat) (f_recs fl) &&
                     forallb (fun p => forallb (fun t => (t <? nfiles g)%nat) (p_deps p)) (f_parts fl)) (g_files g) &&
  forallb (fun e => (e <? nfiles g)%nat) (g_user g).
