(* Proofs about the code-splitting model Split.v (all graphs, no size bound). *)
From V Require Import Common.Base C10.BitSet C10.Renamer C10.Split C10.BitSetProofs C10.RenamerProofs C10.ListLemmas.
From Coq Require Import Permutation Relations.

Definition dchunk := mkChunk [] None [].
Definition dcross := mkCross [] [].

(* ------------------------------------------------------------------ *)
(* closure *)
Inductive path (succ : nat -> list nat) (ok : nat -> bool) : nat -> nat -> Prop :=
| path_refl x : path succ ok x x
| path_step x y z : path succ ok x y -> In z (succ y) -> ok z = true -> path succ ok x z.

Lemma closedb_spec succ ok R : closedb succ ok R = true ->
  forall f t, In f R -> In t (succ f) -> ok t = true -> In t R.
Proof.
  unfold closedb. intros H f t Hf Ht Hok.
  rewrite forallb_forall in H. specialize (H f Hf). rewrite forallb_forall in H.
  specialize (H t Ht). rewrite Hok in H. simpl in H. apply memn_In. exact H.
Qed.
Lemma closed_path succ ok R r f : closedb succ ok R = true -> In r R -> path succ ok r f -> In f R.
Proof.
  intros HC Hr HP. induction HP as [|x y z HP IH Hz Hok]; [assumption|].
  apply (closedb_spec succ ok R HC y z); auto.
Qed.

Lemma bfs_incl fuel succ ok : forall seen layer d acc x,
  In x acc -> In x (bfs fuel succ ok seen layer d acc).
Proof.
  induction fuel as [|k IH]; intros seen layer d acc x H; simpl; [assumption|].
  destruct (new_layer succ ok seen layer) as [|y next]; [assumption|].
  apply IH. apply in_or_app. left. assumption.
Qed.

Lemma closure_spec fuel succ ok roots r : closure fuel succ ok roots = Some r ->
  closedb succ ok (map fst r) = true /\ forall x, In x roots -> ok x = true -> In x (map fst r).
Proof.
  unfold closure. intro H.
  destruct (closedb succ ok (map fst _)) eqn:C; [|discriminate].
  inversion H; subst. split; [exact C|].
  intros x Hx Hok. apply in_map_iff. exists (x, O). split; [reflexivity|].
  apply bfs_incl. apply in_map_iff. exists x. split; [reflexivity|].
  apply dedupe_In. apply filter_In. split; assumption.
Qed.

(* ------------------------------------------------------------------ *)
(* what analyse returns *)
Definition lfiles (a : analysis) : list nat := filter (fun f => memn f (a_live a)) (a_order a).
Definition pre_all (a : analysis) : list chunk :=
  let n := length (a_entries a) in
  let echunks := entry_chunks n (a_entries a) in
  let xkeys := extra_keys (map (fun c => String (c_bits c)) echunks) (map (fun f => String (file_bits a f)) (lfiles a)) in
  echunks ++ map (fun k => mkChunk k None []) xkeys.
Definition fill (a : analysis) (c : chunk) : chunk :=
  mkChunk (c_bits c) (c_entry c) (filter (fun f => Equals (file_bits a f) (c_bits c)) (lfiles a)).
Definition pre_chunks (a : analysis) : list chunk := map (fill a) (pre_all a).
Definition reach_of (a : analysis) (j : nat) : list nat := map fst (nth j (a_reach a) []).

Lemma analyse_inv g a : analyse g = Some a ->
  a_order a = reachable_files g /\ a_entries a = entries g /\
  a_chunks a = sort_chunks (pre_chunks a) /\
  (exists lv, closure (S (nfiles g)) (live_succ g (entries g)) (fun _ => true) (entries g) = Some lv /\ a_live a = map fst lv) /\
  all_some (map (fun e => closure (S (nfiles g)) (split_succ g (entries g)) (fun t => memn t (a_live a)) [e]) (entries g)) = Some (a_reach a).
Proof.
  unfold analyse. intro H.
  destruct (closure (S (nfiles g)) (live_succ g (entries g)) (fun _ => true) (entries g)) as [lv|] eqn:CL; [|discriminate].
  destruct (all_some _) as [rs|] eqn:AS; [|discriminate].
  inversion H; subst; clear H. simpl.
  repeat split; try reflexivity.
  - exists lv. split; reflexivity.
  - exact AS.
Qed.

Lemma reach_length g a : analyse g = Some a -> length (a_reach a) = length (a_entries a).
Proof.
  intro H. destruct (analyse_inv _ _ H) as [_ [HE [_ [_ AS]]]].
  apply all_some_length in AS. rewrite map_length in AS. rewrite HE. exact AS.
Qed.

Lemma reach_closed g a j : analyse g = Some a -> (j < length (a_entries a))%nat ->
  closedb (split_succ g (a_entries a)) (is_live a) (reach_of a j) = true /\
  (is_live a (nth j (a_entries a) O) = true -> In (nth j (a_entries a) O) (reach_of a j)).
Proof.
  intros H Hj. destruct (analyse_inv _ _ H) as [_ [HE [_ [_ AS]]]].
  rewrite HE in *.
  pose proof (all_some_nth _ _ j [] AS) as N. rewrite map_length in N. specialize (N Hj).
  set (F := fun e => closure (S (nfiles g)) (split_succ g (entries g)) (fun t => memn t (a_live a)) [e]) in *.
  rewrite (nth_indep _ None (F O)) in N by (rewrite map_length; exact Hj).
  rewrite map_nth in N. unfold F in N. apply closure_spec in N as [C R].
  split; [exact C|]. intro L. apply R; [left; reflexivity | exact L].
Qed.

(* ------------------------------------------------------------------ *)
(* bits *)
Lemma bits_from_length f rs : forall i bs, length (bits_from f rs i bs) = length bs.
Proof.
  induction rs as [|r rs IH]; intros i bs; simpl; [reflexivity|].
  rewrite IH. destruct (memn f (map fst r)); [apply length_SetBit | reflexivity].
Qed.
Lemma bits_from_wf f rs : forall i bs, wf_bitset bs -> wf_bitset (bits_from f rs i bs).
Proof.
  induction rs as [|r rs IH]; intros i bs H; simpl; [exact H|].
  apply IH. destruct (memn f (map fst r)); [apply wf_SetBit; exact H | exact H].
Qed.

Lemma bits_from_spec f rs : forall i0 bs j, (i0 + length rs <= 8 * length bs)%nat ->
  HasBit (bits_from f rs i0 bs) j =
  ((i0 <=? j)%nat && (j <? i0 + length rs)%nat && memn f (map fst (nth (j - i0) rs []))) || HasBit bs j.
Proof.
  induction rs as [|r rs IH]; intros i0 bs j HL; cbn [bits_from length] in *.
  - destruct (Nat.leb_spec i0 j); [|reflexivity].
    replace (j <? i0 + 0)%nat with false by (symmetry; apply Nat.ltb_ge; lia). reflexivity.
  - rewrite IH by (destruct (memn f (map fst r)); [rewrite length_SetBit|]; lia).
    destruct (Nat.eq_dec j i0) as [->|Hne].
    + replace (S i0 <=? i0)%nat with false by (symmetry; apply Nat.leb_gt; lia).
      rewrite Nat.leb_refl. replace (i0 <? i0 + S (length rs))%nat with true by (symmetry; apply Nat.ltb_lt; lia).
      rewrite Nat.sub_diag. simpl.
      destruct (memn f (map fst r)); [|reflexivity].
      rewrite HasBit_SetBit by lia. rewrite Nat.eqb_refl. reflexivity.
    + assert (HB : HasBit (if memn f (map fst r) then SetBit bs i0 else bs) j = HasBit bs j).
      { destruct (memn f (map fst r)); [|reflexivity]. rewrite HasBit_SetBit by lia.
        replace (i0 =? j)%nat with false by (symmetry; apply Nat.eqb_neq; lia). reflexivity. }
      rewrite HB. f_equal.
      destruct (Nat.ltb_spec j i0).
      * replace (S i0 <=? j)%nat with false by (symmetry; apply Nat.leb_gt; lia).
        replace (i0 <=? j)%nat with false by (symmetry; apply Nat.leb_gt; lia). reflexivity.
      * replace (S i0 <=? j)%nat with true by (symmetry; apply Nat.leb_le; lia).
        replace (i0 <=? j)%nat with true by (symmetry; apply Nat.leb_le; lia).
        replace (j - i0)%nat with (S (j - S i0)) by lia.
        replace (j <? S i0 + length rs)%nat with (j <? i0 + S (length rs))%nat by (f_equal; lia).
        reflexivity.
Qed.

Lemma file_bits_spec g a f j : analyse g = Some a -> (j < length (a_entries a))%nat ->
  HasBit (file_bits a f) j = memn f (reach_of a j).
Proof.
  intros H Hj. unfold file_bits. pose proof (reach_length _ _ H) as RL.
  rewrite bits_from_spec by (rewrite RL; simpl; apply length_New).
  rewrite HasBit_New, orb_false_r. simpl. rewrite Nat.sub_0_r.
  replace (j <? length (a_reach a))%nat with true by (symmetry; apply Nat.ltb_lt; lia).
  reflexivity.
Qed.
Lemma file_bits_high g a f j : analyse g = Some a -> (length (a_entries a) <= j)%nat ->
  HasBit (file_bits a f) j = false.
Proof.
  intros H Hj. unfold file_bits. pose proof (reach_length _ _ H) as RL.
  rewrite bits_from_spec by (rewrite RL; simpl; apply length_New).
  rewrite HasBit_New, orb_false_r. simpl.
  replace (j <? length (a_reach a))%nat with false by (symmetry; apply Nat.ltb_ge; lia).
  reflexivity.
Qed.

(* a bit set of the shape used for n entry points *)
Definition good_bits (n : nat) (bs : bitset) : Prop :=
  length bs = length (NewBitSet n) /\ wf_bitset bs /\ forall j, (n <= j)%nat -> HasBit bs j = false.

Lemma good_file_bits g a f : analyse g = Some a -> good_bits (length (a_entries a)) (file_bits a f).
Proof.
  intro H. repeat split.
  - unfold file_bits. apply bits_from_length.
  - unfold file_bits. apply bits_from_wf. apply wf_New.
  - intros j Hj. eapply file_bits_high; eauto.
Qed.
Lemma good_singleton n i : (i < n)%nat -> good_bits n (SetBit (NewBitSet n) i).
Proof.
  intro Hi. pose proof (length_New n). repeat split.
  - apply length_SetBit.
  - apply wf_SetBit, wf_New.
  - intros j Hj. rewrite HasBit_SetBit by lia. rewrite HasBit_New.
    replace (i =? j)%nat with false by (symmetry; apply Nat.eqb_neq; lia). reflexivity.
Qed.

Lemma good_bits_ext n a b : good_bits n a -> good_bits n b ->
  (forall j, (j < n)%nat -> HasBit a j = HasBit b j) -> a = b.
Proof.
  intros [La [Wa Ha]] [Lb [Wb Hb]] H. apply bitset_ext; try assumption; [congruence|].
  intros j _. destruct (Nat.ltb_spec j n); [apply H; assumption|].
  rewrite Ha, Hb by assumption. reflexivity.
Qed.

Lemma good_bits_card_lt n a b : good_bits n a -> good_bits n b ->
  (forall j, (j < n)%nat -> HasBit a j = true -> HasBit b j = true) -> a <> b ->
  (card a n < card b n)%nat.
Proof.
  intros Ga Gb Hsub Hne.
  pose proof (card_le a b n Hsub) as Hle.
  destruct (Nat.eq_dec (card a n) (card b n)) as [E|NE]; [|lia].
  exfalso. apply Hne. eapply good_bits_ext; eauto. apply card_subset_eq; assumption.
Qed.

(* ------------------------------------------------------------------ *)
(* chunk structure *)
Lemma nodup_app {A} (l1 l2 : list A) : NoDup l1 -> NoDup l2 -> (forall x, In x l1 -> ~ In x l2) -> NoDup (l1 ++ l2).
Proof.
  intros H1 H2 HD. induction H1 as [|x l1 Hx H1 IH]; simpl; [exact H2|].
  constructor.
  - intro Hc. apply in_app_or in Hc as [Hc|Hc]; [contradiction | apply (HD x); [left; reflexivity | exact Hc]].
  - apply IH. intros y Hy. apply HD. right. exact Hy.
Qed.
Lemma nodup_map_in {A B} (f : A -> B) l : NoDup l ->
  (forall x y, In x l -> In y l -> f x = f y -> x = y) -> NoDup (map f l).
Proof.
  intros H Hinj. induction H as [|x l Hx H IH]; simpl; constructor.
  - intro Hc. apply in_map_iff in Hc as [y [E Hy]]. apply Hx.
    assert (y = x) by (apply Hinj; [right; exact Hy | left; reflexivity | exact E]). subst. exact Hy.
  - apply IH. intros a b Ha Hb. apply Hinj; right; assumption.
Qed.

Lemma entry_chunks_gen n ents k :
  mapi_from (fun i e => mkChunk (SetBit (NewBitSet n) i) (Some (i, e)) []) k ents =
  map (fun p => mkChunk (SetBit (NewBitSet n) (fst p)) (Some p) []) (combine (seq k (length ents)) ents).
Proof.
  revert k; induction ents as [|e ents IH]; intro k; simpl; [reflexivity|].
  f_equal. apply IH.
Qed.
Lemma entry_chunk_In n ents c : In c (entry_chunks n ents) ->
  exists i, (i < length ents)%nat /\ c = mkChunk (SetBit (NewBitSet n) i) (Some (i, nth i ents O)) [].
Proof.
  unfold entry_chunks. intro H. apply mapi_from_In in H as [i [x [Hi [Hn E]]]].
  exists i. split; [exact Hi|]. simpl in E. rewrite E.
  apply nth_error_nth with (d := O) in Hn. rewrite Hn. reflexivity.
Qed.
Lemma entry_keys n ents :
  map c_bits (entry_chunks n ents) = map (fun i => SetBit (NewBitSet n) i) (seq 0 (length ents)).
Proof.
  unfold entry_chunks. generalize 0%nat as k.
  induction ents as [|e ents IH]; intro k; simpl; [reflexivity|]. f_equal. apply IH.
Qed.
Lemma singleton_inj n i j : (i < n)%nat -> (j < n)%nat ->
  SetBit (NewBitSet n) i = SetBit (NewBitSet n) j -> i = j.
Proof.
  intros Hi Hj E. pose proof (length_New n).
  assert (T : HasBit (SetBit (NewBitSet n) i) i = true).
  { rewrite HasBit_SetBit by lia. rewrite Nat.eqb_refl. reflexivity. }
  rewrite E in T. rewrite HasBit_SetBit in T by lia. rewrite HasBit_New, orb_false_r in T.
  apply Nat.eqb_eq in T. congruence.
Qed.
Lemma entry_keys_nodup n ents : (length ents <= n)%nat -> NoDup (map c_bits (entry_chunks n ents)).
Proof.
  intro H. rewrite entry_keys. apply nodup_map_in; [apply seq_NoDup|].
  intros x y Hx Hy. apply in_seq in Hx, Hy. apply singleton_inj; lia.
Qed.

Lemma extra_keys_gen ek fk : forall acc,
  NoDup acc -> (forall k, In k acc -> ~ In k ek) ->
  let r := fold_left (fun acc k => if key_mem k ek || key_mem k acc then acc else acc ++ [k]) fk acc in
  NoDup r /\ (forall k, In k r -> ~ In k ek) /\ (forall k, In k r -> In k acc \/ In k fk) /\
  (forall k, In k acc \/ In k fk -> In k ek \/ In k r).
Proof.
  induction fk as [|x fk IH]; intros acc ND HD; simpl.
  - repeat split; auto. intros k [H|[]]. right. exact H.
  - destruct (key_mem x ek || key_mem x acc) eqn:E.
    + destruct (IH acc ND HD) as [R1 [R2 [R3 R4]]]. repeat split; auto.
      * intros k Hk. destruct (R3 k Hk); auto.
      * intros k [Hk|[Hk|Hk]]; [apply R4; auto | | apply R4; auto].
        subst k. apply orb_true_iff in E as [E|E]; apply key_mem_In in E; [left; exact E | apply R4; left; exact E].
    + apply orb_false_iff in E as [E1 E2].
      assert (N1 : ~ In x ek) by (intro Hc; apply key_mem_In in Hc; congruence).
      assert (N2 : ~ In x acc) by (intro Hc; apply key_mem_In in Hc; congruence).
      destruct (IH (acc ++ [x])) as [R1 [R2 [R3 R4]]].
      * apply nodup_app; [exact ND | constructor; [intros [] | constructor] |].
        intros k Hk [Hc|[]]. subst. contradiction.
      * intros k Hk. apply in_app_or in Hk as [Hk|[Hk|[]]]; [apply HD; exact Hk | subst; exact N1].
      * repeat split; auto.
        -- intros k Hk. destruct (R3 k Hk) as [H|H]; [|auto].
           apply in_app_or in H as [H|[H|[]]]; auto.
        -- intros k [Hk|[Hk|Hk]]; apply R4; [left; apply in_or_app; left; exact Hk | left; apply in_or_app; right; left; exact Hk | right; exact Hk].
Qed.
Lemma extra_keys_spec ek fk :
  NoDup (extra_keys ek fk) /\ (forall k, In k (extra_keys ek fk) -> ~ In k ek /\ In k fk) /\
  (forall k, In k fk -> In k ek \/ In k (extra_keys ek fk)).
Proof.
  unfold extra_keys. destruct (extra_keys_gen ek fk [] (NoDup_nil _)) as [R1 [R2 [R3 R4]]]; [intros k []|].
  split; [exact R1|]. split.
  - intros k Hk. split; [apply R2; exact Hk|]. destruct (R3 k Hk) as [[]|H]; exact H.
  - intros k Hk. apply R4. right. exact Hk.
Qed.

Lemma pre_all_keys a : map c_bits (pre_all a) =
  map c_bits (entry_chunks (length (a_entries a)) (a_entries a)) ++
  extra_keys (map (fun c => String (c_bits c)) (entry_chunks (length (a_entries a)) (a_entries a)))
             (map (fun f => String (file_bits a f)) (lfiles a)).
Proof. unfold pre_all. rewrite map_app, map_map. simpl. rewrite map_id. reflexivity. Qed.

Lemma pre_chunks_keys a : map c_bits (pre_chunks a) = map c_bits (pre_all a).
Proof. unfold pre_chunks. rewrite map_map. reflexivity. Qed.

Lemma pre_keys_nodup a : NoDup (map c_bits (pre_chunks a)).
Proof.
  rewrite pre_chunks_keys, pre_all_keys.
  destruct (extra_keys_spec (map (fun c => String (c_bits c)) (entry_chunks (length (a_entries a)) (a_entries a)))
             (map (fun f => String (file_bits a f)) (lfiles a))) as [R1 [R2 _]].
  apply nodup_app; [apply entry_keys_nodup; lia | exact R1 |].
  intros x Hx Hc. apply R2 in Hc as [Hc _]. apply Hc. exact Hx.
Qed.

Lemma chunks_perm g a : analyse g = Some a -> Permutation (pre_chunks a) (a_chunks a).
Proof. intro H. destruct (analyse_inv _ _ H) as [_ [_ [HC _]]]. rewrite HC. apply sort_chunks_perm. Qed.

Lemma chunk_keys_nodup g a : analyse g = Some a -> NoDup (map c_bits (a_chunks a)).
Proof.
  intro H. eapply Permutation_NoDup; [apply Permutation_map; apply (chunks_perm g); exact H | apply pre_keys_nodup].
Qed.

Lemma chunk_In g a c : analyse g = Some a -> (In c (a_chunks a) <-> In c (pre_chunks a)).
Proof.
  intro H. split; intro Hc.
  - eapply Permutation_in; [apply Permutation_sym; apply (chunks_perm g); exact H | exact Hc].
  - eapply Permutation_in; [apply (chunks_perm g); exact H | exact Hc].
Qed.

Lemma lfiles_In a f : In f (lfiles a) <-> In f (a_order a) /\ is_live a f = true.
Proof. unfold lfiles, is_live. rewrite filter_In. reflexivity. Qed.

(* the files of a chunk are exactly the live files whose bits are the chunk's *)
Lemma chunk_files g a c f : analyse g = Some a -> In c (a_chunks a) ->
  (In f (c_files c) <-> In f (a_order a) /\ is_live a f = true /\ file_bits a f = c_bits c).
Proof.
  intros H Hc. apply (chunk_In _ _ _ H) in Hc. unfold pre_chunks in Hc.
  apply in_map_iff in Hc as [c0 [E _]]. subst c. unfold fill; simpl.
  rewrite filter_In, lfiles_In, Equals_eq. tauto.
Qed.

(* shape of the chunk keys *)
Lemma chunk_bits_shape g a c : analyse g = Some a -> In c (a_chunks a) ->
  (exists i, (i < length (a_entries a))%nat /\ c_bits c = SetBit (NewBitSet (length (a_entries a))) i /\
             c_entry c = Some (i, nth i (a_entries a) O)) \/
  (c_entry c = None /\ exists f, In f (lfiles a) /\ c_bits c = file_bits a f).
Proof.
  intros H Hc. apply (chunk_In _ _ _ H) in Hc. unfold pre_chunks in Hc.
  apply in_map_iff in Hc as [c0 [E Hc0]]. subst c. unfold fill; simpl.
  unfold pre_all in Hc0. apply in_app_or in Hc0 as [Hc0|Hc0].
  - left. apply entry_chunk_In in Hc0 as [i [Hi E]]. exists i. subst c0. simpl. auto.
  - right. apply in_map_iff in Hc0 as [k [E Hk]]. subst c0. simpl. split; [reflexivity|].
    apply extra_keys_spec in Hk as [_ Hk]. apply in_map_iff in Hk as [f [E Hf]]. exists f. auto.
Qed.

Lemma chunk_good_bits g a c : analyse g = Some a -> In c (a_chunks a) ->
  good_bits (length (a_entries a)) (c_bits c).
Proof.
  intros H Hc. destruct (chunk_bits_shape _ _ _ H Hc) as [[i [Hi [E _]]]|[_ [f [_ E]]]]; rewrite E.
  - apply good_singleton. exact Hi.
  - eapply good_file_bits. exact H.
Qed.

Lemma chunk_entry_shape g a c bit e : analyse g = Some a -> In c (a_chunks a) -> c_entry c = Some (bit, e) ->
  (bit < length (a_entries a))%nat /\ e = nth bit (a_entries a) O /\
  c_bits c = SetBit (NewBitSet (length (a_entries a))) bit.
Proof.
  intros H Hc He. destruct (chunk_bits_shape _ _ _ H Hc) as [[i [Hi [E E2]]]|[E _]]; [|congruence].
  rewrite E2 in He. inversion He; subst. auto.
Qed.

(* every live reachable file is in a chunk *)
Lemma chunk_cover g a f : analyse g = Some a -> In f (a_order a) -> is_live a f = true ->
  exists c, In c (a_chunks a) /\ In f (c_files c).
Proof.
  intros H Ho Hl.
  assert (Hlf : In f (lfiles a)) by (apply lfiles_In; auto).
  assert (exists c0, In c0 (pre_all a) /\ c_bits c0 = file_bits a f) as [c0 [Hc0 E]].
  { assert (Hk : In (file_bits a f) (map c_bits (pre_all a))).
    { rewrite pre_all_keys. apply in_or_app.
      destruct (extra_keys_spec (map (fun c => String (c_bits c)) (entry_chunks (length (a_entries a)) (a_entries a)))
             (map (fun f => String (file_bits a f)) (lfiles a))) as [_ [_ R3]].
      destruct (R3 (file_bits a f)) as [R|R]; [apply in_map_iff; exists f; auto | left; exact R | right; exact R]. }
    apply in_map_iff in Hk as [c0 [E Hc0]]. exists c0. auto. }
  exists (fill a c0). split.
  - apply (chunk_In _ _ _ H). unfold pre_chunks. apply in_map. exact Hc0.
  - unfold fill; simpl. apply filter_In. split; [exact Hlf | apply Equals_eq; auto].
Qed.

Lemma In_nth_exists {A} (l : list A) x d : In x l -> exists i, (i < length l)%nat /\ nth i l d = x.
Proof. intro H. apply In_nth. exact H. Qed.

Lemma chunks_partition_lemma g a : analyse g = Some a ->
  (forall f, In f (a_order a) -> is_live a f = true ->
     exists i, (i < length (a_chunks a))%nat /\ In f (c_files (nth i (a_chunks a) dchunk)) /\
       forall j, (j < length (a_chunks a))%nat -> In f (c_files (nth j (a_chunks a) dchunk)) -> j = i) /\
  (forall c f, In c (a_chunks a) -> In f (c_files c) -> In f (a_order a) /\ is_live a f = true).
Proof.
  intro H. split.
  - intros f Ho Hl. destruct (chunk_cover _ _ _ H Ho Hl) as [c [Hc Hf]].
    destruct (In_nth_exists _ _ dchunk Hc) as [i [Hi E]]. exists i. split; [exact Hi|]. split; [rewrite E; exact Hf|].
    intros j Hj Hfj.
    assert (Bi : file_bits a f = c_bits (nth i (a_chunks a) dchunk)).
    { rewrite E. apply (chunk_files _ _ _ f H Hc). exact Hf. }
    assert (Bj : file_bits a f = c_bits (nth j (a_chunks a) dchunk)).
    { apply (chunk_files _ _ _ f H (nth_In _ _ Hj)). exact Hfj. }
    apply (NoDup_nth_inj (map c_bits (a_chunks a)) (c_bits dchunk)); [eapply chunk_keys_nodup; eauto | rewrite map_length; lia | rewrite map_length; lia |].
    rewrite !map_nth. congruence.
  - intros c f Hc Hf. apply (chunk_files _ _ _ f H Hc) in Hf. tauto.
Qed.

(* ------------------------------------------------------------------ *)
(* cross-chunk imports *)

(* dependencies cover uses: a declared symbol used from, or exported by an entry point from,
   another file is backed by a dependency on the declaring file.  This used to be an
   assumption on the input; it now holds by construction (Split.part_deps / export_deps
   complete the dumped dependencies the way scanImportsAndExports builds them). *)
Definition deps_cover (g : graph) : Prop :=
  (forall f s, In s (f_uses (getf g f)) -> is_declared g s = true -> In (fst s) (f_deps g (getf g f))) /\
  (forall ents e s, In e ents -> In s (entry_exports g e) -> is_declared g s = true -> In (fst s) (export_deps g ents e)).

Lemma deps_cover_holds g : deps_cover g.
Proof.
  split.
  - intros f s Hs Hd. unfold f_uses in Hs. apply in_map_iff in Hs as [u [E Hu]].
    apply in_flat_map in Hu as [p [Hp Hu]]. apply filter_In in Hp as [Hp _].
    unfold f_deps. apply in_flat_map. exists p. split; [exact Hp|].
    unfold part_deps. apply in_or_app. right. unfold sym_deps. apply in_map_iff. exists s. split; [reflexivity|].
    apply filter_In. split; [|exact Hd]. apply in_map_iff. exists u. auto.
  - intros ents e s He Hs Hd. unfold export_deps.
    replace (memn e ents) with true by (symmetry; apply memn_In; exact He).
    apply in_map_iff. exists s. split; [reflexivity|]. apply filter_In. auto.
Qed.

Lemma declared_live_any fl i : In i (declared_live fl) -> In i (declared_any fl).
Proof.
  unfold declared_live, declared_any, live_parts. intro H. apply in_flat_map in H as [p [Hp Hi]].
  apply filter_In in Hp as [Hp _]. apply in_flat_map. exists p. auto.
Qed.

Lemma find_chunk_spec bs : forall l i0 k, find_chunk bs l i0 = Some k ->
  (i0 <= k)%nat /\ (k - i0 < length l)%nat /\ bs = c_bits (nth (k - i0) l dchunk).
Proof.
  induction l as [|c l IH]; intros i0 k H; simpl in H; [discriminate|].
  destruct (Equals bs (c_bits c)) eqn:E.
  - inversion H; subst. rewrite Nat.sub_diag. simpl. apply Equals_eq in E. repeat split; [lia | lia | exact E].
  - apply IH in H as [H1 [H2 H3]]. replace (k - i0)%nat with (S (k - S i0)) by lia. simpl.
    repeat split; [lia | lia | exact H3].
Qed.

Lemma chunk_of_sym_declared g a s oi : chunk_of_sym g a s = Some oi -> is_declared g s = true.
Proof.
  unfold chunk_of_sym, is_declared. intro H.
  destruct (memn (snd s) (declared_live (getf g (fst s)))) eqn:E; [|discriminate].
  apply memn_In. apply declared_live_any. apply memn_In. exact E.
Qed.

Lemma chunk_of_sym_spec g a s oi : chunk_of_sym g a s = Some oi ->
  is_live a (fst s) = true /\ (oi < length (a_chunks a))%nat /\
  file_bits a (fst s) = c_bits (nth oi (a_chunks a) dchunk).
Proof.
  unfold chunk_of_sym, chunk_of_file. intro H.
  destruct (memn (snd s) (declared_live (getf g (fst s)))); [|discriminate].
  destruct (is_live a (fst s)) eqn:L; [|discriminate].
  apply find_chunk_spec in H as [_ [H2 H3]]. rewrite Nat.sub_0_r in *. auto.
Qed.

Lemma raw_imports_spec g a ci c oi items : In (oi, items) (raw_imports g a ci c) ->
  (oi < length (a_chunks a))%nat /\ oi <> ci /\
  ((exists s, In s items /\ In s (chunk_uses g c) /\ chunk_of_sym g a s = Some oi) \/
   (exists bit e, c_entry c = Some (bit, e) /\ HasBit (c_bits (nth oi (a_chunks a) dchunk)) bit = true)).
Proof.
  unfold raw_imports. intro H. apply in_flat_map in H as [o [Ho H]].
  apply in_seq in Ho.
  destruct (Nat.eqb_spec o ci) as [->|Hne]; [destruct H|].
  set (items' := filter _ (chunk_uses g c)) in H.
  destruct items' as [|s0 rest] eqn:EI.
  - destruct (c_entry c) as [[bit e]|] eqn:EC; [|destruct H].
    destruct (HasBit _ bit) eqn:HB; [|destruct H].
    destruct H as [H|[]]. inversion H; subst. split; [lia|]. split; [exact Hne|].
    right. exists bit, e. split; [reflexivity | exact HB].
  - destruct H as [H|[]]. inversion H; subst. split; [lia|]. split; [exact Hne|].
    left. exists s0.
    assert (Hin : In s0 items') by (rewrite EI; left; reflexivity).
    unfold items' in Hin. apply filter_In in Hin as [Hu Hc].
    split; [left; reflexivity|]. split; [exact Hu|].
    destruct (chunk_of_sym g a s0) as [x|]; [|discriminate]. apply Nat.eqb_eq in Hc. subst. reflexivity.
Qed.

Lemma raw_imports_forced g a ci c oi bit e :
  (oi < length (a_chunks a))%nat -> oi <> ci -> c_entry c = Some (bit, e) ->
  HasBit (c_bits (nth oi (a_chunks a) dchunk)) bit = true ->
  In oi (map fst (raw_imports g a ci c)).
Proof.
  intros Hoi Hne HE HB. unfold raw_imports. apply in_map_iff.
  set (items := filter (fun s => match chunk_of_sym g a s with Some x => (x =? oi)%nat | None => false end) (chunk_uses g c)).
  exists (oi, items). split; [reflexivity|].
  apply in_flat_map. exists oi. split; [apply in_seq; lia|].
  destruct (Nat.eqb_spec oi ci) as [->|_]; [contradiction|].
  fold items. rewrite HE. change (c_bits (nth oi (a_chunks a) {| c_bits := []; c_entry := None; c_files := [] |})) with (c_bits (nth oi (a_chunks a) dchunk)).
  rewrite HB. destruct items; left; reflexivity.
Qed.

Lemma split_succ_dep g ents f t : In t (f_deps g (getf g f) ++ export_deps g ents f) -> t <> f -> In t (split_succ g ents f).
Proof.
  intros H Hne. unfold split_succ. apply in_or_app. right. apply filter_In. split; [exact H|].
  apply negb_true_iff. apply Nat.eqb_neq. exact Hne.
Qed.

(* a file that has bit j passes it on to the declaring file of anything it depends on *)
Lemma dep_bits g a f t j : analyse g = Some a -> (j < length (a_entries a))%nat ->
  In t (f_deps g (getf g f) ++ export_deps g (a_entries a) f) -> is_live a t = true ->
  HasBit (file_bits a f) j = true -> HasBit (file_bits a t) j = true.
Proof.
  intros H Hj Hd Hl Hb.
  destruct (Nat.eq_dec t f) as [->|Hne]; [exact Hb|].
  rewrite (file_bits_spec g) in * by assumption.
  apply memn_In. apply memn_In in Hb.
  destruct (reach_closed _ _ j H Hj) as [C _].
  eapply closedb_spec; [exact C | exact Hb | apply split_succ_dep; assumption | exact Hl].
Qed.

Lemma singleton_bit n i j : (i < n)%nat -> HasBit (SetBit (NewBitSet n) i) j = true -> j = i.
Proof.
  intros Hi H. pose proof (length_New n). rewrite HasBit_SetBit in H by lia.
  rewrite HasBit_New, orb_false_r in H. apply Nat.eqb_eq in H. auto.
Qed.

Lemma entry_is_live g a i : analyse g = Some a -> (i < length (a_entries a))%nat ->
  is_live a (nth i (a_entries a) O) = true.
Proof.
  intros H Hi. destruct (analyse_inv _ _ H) as [_ [HE [_ [[lv [CL LV]] _]]]].
  unfold is_live. rewrite LV. apply memn_In.
  apply closure_spec in CL as [_ R]. apply R; [|reflexivity]. rewrite <- HE. apply nth_In. exact Hi.
Qed.

Theorem import_edge_superset_lemma g a ci oi items :
  analyse g = Some a -> deps_cover g -> (ci < length (a_chunks a))%nat ->
  In (oi, items) (raw_imports g a ci (nth ci (a_chunks a) dchunk)) ->
  (forall j, (j < length (a_entries a))%nat ->
     HasBit (c_bits (nth ci (a_chunks a) dchunk)) j = true ->
     HasBit (c_bits (nth oi (a_chunks a) dchunk)) j = true) /\
  c_bits (nth ci (a_chunks a) dchunk) <> c_bits (nth oi (a_chunks a) dchunk).
Proof.
  intros H [DU DE] Hci Hin.
  set (c := nth ci (a_chunks a) dchunk) in *.
  assert (Hc : In c (a_chunks a)) by (apply nth_In; exact Hci).
  apply raw_imports_spec in Hin as [Hoi [Hne Hcase]].
  split.
  - intros j Hj Hb. destruct Hcase as [[s [_ [Hu Hs]]]|[bit [e [HE HB]]]].
    + pose proof (chunk_of_sym_declared _ _ _ _ Hs) as Hdecl.
      apply chunk_of_sym_spec in Hs as [Hl [_ Hbits]]. rewrite <- Hbits.
      unfold chunk_uses in Hu. apply (proj1 (dedupe_syms_In _ _)) in Hu. apply in_app_or in Hu as [Hu|Hu].
      * apply in_flat_map in Hu as [f [Hf Hu]].
        apply (chunk_files _ _ _ f H Hc) in Hf as [_ [_ Hfb]].
        destruct (Nat.eq_dec (fst s) f) as [->|Hsf]; [rewrite Hfb; exact Hb|].
        eapply (dep_bits g a f); eauto; [apply in_or_app; left; apply DU; assumption | rewrite Hfb; exact Hb].
      * destruct (c_entry c) as [[bit e]|] eqn:HE; [|destruct Hu].
        destruct (chunk_entry_shape _ _ _ _ _ H Hc HE) as [Hbit [He Hcb]].
        rewrite Hcb in Hb. apply singleton_bit in Hb; [|exact Hbit]. subst j.
        assert (Heb : HasBit (file_bits a e) bit = true).
        { rewrite (file_bits_spec g) by assumption. apply memn_In.
          destruct (reach_closed _ _ bit H Hbit) as [_ R]. rewrite He. apply R. apply (entry_is_live g); assumption. }
        destruct (Nat.eq_dec (fst s) e) as [->|Hse]; [exact Heb|].
        eapply (dep_bits g a e); eauto. apply in_or_app. right. apply DE; try assumption.
        rewrite He. apply nth_In. exact Hbit.
    + destruct (chunk_entry_shape _ _ _ _ _ H Hc HE) as [Hbit [He Hcb]].
      rewrite Hcb in Hb. apply singleton_bit in Hb; [|exact Hbit]. subst j. exact HB.
  - intro E. apply Hne.
    apply (NoDup_nth_inj (map c_bits (a_chunks a)) (c_bits dchunk)); [eapply chunk_keys_nodup; eauto | rewrite map_length; lia | rewrite map_length; lia |].
    rewrite !map_nth. symmetry. exact E.
Qed.

(* ---- plumbing: the static imports in the result of cross_chunk are raw_imports ---- *)
Lemma all_some_map_imports exps raw : forall st,
  all_some (map (fun p : nat * list sym =>
             match all_some (map (fun s => lookup_alias s (nth (fst p) exps [])) (snd p)) with
             | Some als => Some (mkImp false (fst p) (fold_right insert_alias [] als))
             | None => None
             end) raw) = Some st ->
  map i_chunk st = map fst raw /\ Forall (fun im => i_dynamic im = false) st /\
  Forall2 (fun p im => i_chunk im = fst p /\
             exists als, all_some (map (fun s => lookup_alias s (nth (fst p) exps [])) (snd p)) = Some als /\
                         Permutation als (i_items im)) raw st.
Proof.
  induction raw as [|p raw IH]; intros st H; simpl in H.
  - inversion H. repeat split; constructor.
  - destruct (all_some (map (fun s => lookup_alias s (nth (fst p) exps [])) (snd p))) as [als|] eqn:EA; [|discriminate].
    destruct (all_some (map _ raw)) as [st'|] eqn:ER; [|discriminate].
    inversion H; subst. destruct (IH _ eq_refl) as [I1 [I2 I3]].
    repeat split; simpl.
    + f_equal. exact I1.
    + constructor; [reflexivity | exact I2].
    + constructor; [|exact I3]. split; [reflexivity|]. exists als. split; [exact EA | apply sort_alias_perm].
Qed.

Lemma filter_dyn_app (dyn st : list cimport) :
  Forall (fun im => i_dynamic im = true) dyn -> Forall (fun im => i_dynamic im = false) st ->
  filter (fun i => negb (i_dynamic i)) (dyn ++ st) = st.
Proof.
  intros Hd Hs. rewrite filter_app.
  replace (filter (fun i => negb (i_dynamic i)) dyn) with (@nil cimport).
  - simpl. induction Hs as [|x l Hx Hl IH]; simpl; [reflexivity|]. rewrite Hx. simpl. f_equal. exact IH.
  - induction Hd as [|x l Hx Hl IH]; simpl; [reflexivity|]. rewrite Hx. simpl. exact IH.
Qed.

Definition exps_of (g : graph) (a : analysis) : option (list (list (sym * bytes))) :=
  let raw := mapi_from (raw_imports g a) 0 (a_chunks a) in
  all_some (map (fun oi => export_aliases g (chunk_exports a raw oi)) (seq 0 (length (a_chunks a)))).

Lemma cross_chunk_nth g a xs ci : cross_chunk g a = Some xs -> (ci < length (a_chunks a))%nat ->
  exists exps st,
    exps_of g a = Some exps /\
    nth ci xs dcross = mkCross (map (fun oi => mkImp true oi []) (dynamic_imports g a ci (nth ci (a_chunks a) dchunk)) ++ st)
                               (nth ci exps []) /\
    map i_chunk st = map fst (raw_imports g a ci (nth ci (a_chunks a) dchunk)) /\
    Forall (fun im => i_dynamic im = false) st /\
    Forall2 (fun p im => i_chunk im = fst p /\
               exists als, all_some (map (fun s => lookup_alias s (nth (fst p) exps [])) (snd p)) = Some als /\
                           Permutation als (i_items im))
            (raw_imports g a ci (nth ci (a_chunks a) dchunk)) st.
Proof.
  unfold cross_chunk. intros H Hci.
  fold (exps_of g a) in H.
  destruct (exps_of g a) as [exps|] eqn:EE; [|discriminate].
  pose proof (all_some_nth _ _ ci dcross H) as N. rewrite mapi_from_length in N. specialize (N Hci).
  rewrite (mapi_from_nth _ 0 (a_chunks a) ci dchunk None Hci) in N. simpl in N.
  rewrite (mapi_from_nth (raw_imports g a) 0 (a_chunks a) ci dchunk [] Hci) in N. simpl in N.
  destruct (all_some (map _ (raw_imports g a ci (nth ci (a_chunks a) dchunk)))) as [st|] eqn:ES; [|discriminate].
  injection N as N'. exists exps, st. split; [reflexivity|]. split; [symmetry; exact N'|].
  apply all_some_map_imports in ES. exact ES.
Qed.

Lemma cross_chunk_length g a xs : cross_chunk g a = Some xs -> length xs = length (a_chunks a).
Proof.
  unfold cross_chunk. intro H. destruct (all_some _) as [exps|]; [|discriminate].
  apply all_some_length in H. rewrite mapi_from_length in H. exact H.
Qed.

Lemma static_succ_raw g a xs ci : cross_chunk g a = Some xs -> (ci < length (a_chunks a))%nat ->
  static_succ xs ci = map fst (raw_imports g a ci (nth ci (a_chunks a) dchunk)).
Proof.
  intros H Hci. destruct (cross_chunk_nth _ _ _ _ H Hci) as [exps [st [_ [N [M [F _]]]]]].
  unfold static_succ. fold dcross. rewrite N. simpl.
  rewrite filter_dyn_app; [exact M | | exact F].
  apply Forall_forall. intros x Hx. apply in_map_iff in Hx as [o [E _]]. subst. reflexivity.
Qed.

Lemma static_succ_out xs ci : (length xs <= ci)%nat -> static_succ xs ci = [].
Proof. intro H. unfold static_succ. rewrite nth_overflow by exact H. reflexivity. Qed.

(* ---- the static chunk graph ---- *)
Definition sedge (xs : list cross) (i j : nat) : Prop := In j (static_succ xs i).
Definition measure (a : analysis) (i : nat) : nat :=
  card (c_bits (nth i (a_chunks a) dchunk)) (length (a_entries a)).

Lemma sedge_spec g a xs i j : analyse g = Some a -> cross_chunk g a = Some xs -> deps_cover g ->
  sedge xs i j ->
  (i < length (a_chunks a))%nat /\ (j < length (a_chunks a))%nat /\
  (forall b, (b < length (a_entries a))%nat ->
     HasBit (c_bits (nth i (a_chunks a) dchunk)) b = true -> HasBit (c_bits (nth j (a_chunks a) dchunk)) b = true) /\
  c_bits (nth i (a_chunks a) dchunk) <> c_bits (nth j (a_chunks a) dchunk).
Proof.
  intros H HX HD E. unfold sedge in E.
  destruct (Nat.ltb_spec i (length (a_chunks a))) as [Hi|Hi].
  2:{ rewrite static_succ_out in E by (rewrite (cross_chunk_length _ _ _ HX); exact Hi). destruct E. }
  rewrite (static_succ_raw _ _ _ _ HX Hi) in E. apply in_map_iff in E as [[oi items] [E1 E2]]. simpl in E1. subst oi.
  split; [exact Hi|].
  pose proof (raw_imports_spec _ _ _ _ _ _ E2) as [Hj _]. split; [exact Hj|].
  eapply import_edge_superset_lemma; eauto.
Qed.

Lemma sedge_measure g a xs i j : analyse g = Some a -> cross_chunk g a = Some xs -> deps_cover g ->
  sedge xs i j -> (measure a i < measure a j)%nat.
Proof.
  intros H HX HD E. destruct (sedge_spec _ _ _ _ _ H HX HD E) as [Hi [Hj [Hsub Hne]]].
  unfold measure. apply good_bits_card_lt; try assumption; eapply chunk_good_bits; eauto; apply nth_In; assumption.
Qed.

Lemma static_acyclic_lemma g a xs : analyse g = Some a -> cross_chunk g a = Some xs -> deps_cover g ->
  forall i, ~ clos_trans nat (sedge xs) i i.
Proof.
  intros H HX HD.
  assert (M : forall i j, clos_trans nat (sedge xs) i j -> (measure a i < measure a j)%nat).
  { intros i j P. induction P as [i j E|i k j _ IH1 _ IH2]; [eapply sedge_measure; eauto | lia]. }
  intros i P. apply M in P. lia.
Qed.

(* ---- an entry chunk statically imports every chunk that holds a file it reaches ---- *)
Lemma entry_loads_lemma g a xs ci oi bit e f :
  analyse g = Some a -> cross_chunk g a = Some xs ->
  (ci < length (a_chunks a))%nat -> (oi < length (a_chunks a))%nat ->
  c_entry (nth ci (a_chunks a) dchunk) = Some (bit, e) ->
  In f (c_files (nth oi (a_chunks a) dchunk)) ->
  path (split_succ g (a_entries a)) (is_live a) e f ->
  oi = ci \/ sedge xs ci oi.
Proof.
  intros H HX Hci Hoi HE Hf HP.
  destruct (Nat.eq_dec oi ci) as [->|Hne]; [left; reflexivity | right].
  assert (Hc : In (nth ci (a_chunks a) dchunk) (a_chunks a)) by (apply nth_In; exact Hci).
  assert (Ho : In (nth oi (a_chunks a) dchunk) (a_chunks a)) by (apply nth_In; exact Hoi).
  destruct (chunk_entry_shape _ _ _ _ _ H Hc HE) as [Hbit [He _]].
  apply (chunk_files _ _ _ f H Ho) in Hf as [_ [_ Hfb]].
  assert (HB : HasBit (c_bits (nth oi (a_chunks a) dchunk)) bit = true).
  { rewrite <- Hfb. rewrite (file_bits_spec g) by assumption. apply memn_In.
    destruct (reach_closed _ _ bit H Hbit) as [C R].
    eapply closed_path; [exact C | | exact HP].
    rewrite He. apply R. apply (entry_is_live g); assumption. }
  unfold sedge. rewrite (static_succ_raw _ _ _ _ HX Hci).
  eapply raw_imports_forced; eauto.
Qed.

(* ---- every import item is exported by the target chunk under that alias ---- *)
Lemma lookup_alias_In s l al : lookup_alias s l = Some al -> In (s, al) l.
Proof.
  induction l as [|[x y] l IH]; simpl; [discriminate|].
  destruct (sym_eqb s x) eqn:E.
  - intro H. inversion H; subst. apply sym_eqb_eq in E. subst. left. reflexivity.
  - intro H. right. apply IH. exact H.
Qed.

Lemma all_some_map_In {A B} (f : A -> option B) l r y : all_some (map f l) = Some r -> In y r ->
  exists x, In x l /\ f x = Some y.
Proof.
  revert r; induction l as [|x l IH]; intros r H Hy; simpl in H.
  - inversion H; subst. destruct Hy.
  - destruct (f x) as [b|] eqn:E; [|discriminate].
    destruct (all_some (map f l)) as [r'|] eqn:ER; [|discriminate].
    inversion H; subst. destruct Hy as [<-|Hy]; [exists x; split; [left; reflexivity | exact E]|].
    destruct (IH _ eq_refl Hy) as [x' [Hx' E']]. exists x'. split; [right; exact Hx' | exact E'].
Qed.

Lemma exps_nth g a xs oi : cross_chunk g a = Some xs -> (oi < length (a_chunks a))%nat ->
  exists exps, exps_of g a = Some exps /\ x_exports (nth oi xs dcross) = nth oi exps [].
Proof.
  intros H Hoi. destruct (cross_chunk_nth _ _ _ _ H Hoi) as [exps [st [EE [N _]]]].
  exists exps. split; [exact EE|]. rewrite N. reflexivity.
Qed.

Lemma Forall2_in_r {A B} (R : A -> B -> Prop) l m y : Forall2 R l m -> In y m -> exists x, In x l /\ R x y.
Proof.
  intro H. induction H as [|x y' l m Hxy H IH]; intro Hy; [destruct Hy|].
  destruct Hy as [<-|Hy]; [exists x; split; [left; reflexivity | exact Hxy]|].
  destruct (IH Hy) as [x' [Hx' R']]. exists x'. split; [right; exact Hx' | exact R'].
Qed.

Lemma exports_exist_lemma g a xs ci im al :
  cross_chunk g a = Some xs -> (ci < length (a_chunks a))%nat ->
  In im (x_imports (nth ci xs dcross)) -> i_dynamic im = false -> In al (i_items im) ->
  (i_chunk im < length (a_chunks a))%nat /\ i_chunk im <> ci /\
  exists s, In (s, al) (x_exports (nth (i_chunk im) xs dcross)).
Proof.
  intros H Hci Him Hdyn Hal.
  destruct (cross_chunk_nth _ _ _ _ H Hci) as [exps [st [EE [N [M [F F2]]]]]].
  rewrite N in Him. simpl in Him. apply in_app_or in Him as [Him|Him].
  { apply in_map_iff in Him as [o [E _]]. subst im. discriminate. }
  destruct (Forall2_in_r _ _ _ _ F2 Him) as [p [Hp [E [als [EA PA]]]]].
  destruct p as [oi items]. simpl in *.
  pose proof (raw_imports_spec _ _ _ _ _ _ Hp) as [Hoi [Hne _]].
  rewrite E. split; [exact Hoi|]. split; [exact Hne|].
  apply (Permutation_in _ (Permutation_sym PA)) in Hal.
  destruct (all_some_map_In _ _ _ _ EA Hal) as [s [_ Hs]].
  exists s. destruct (exps_nth _ _ _ _ H Hoi) as [exps' [EE' X]]. rewrite EE in EE'. inversion EE'; subst exps'.
  rewrite X. apply lookup_alias_In. exact Hs.
Qed.

(* ---- export aliases of a chunk are pairwise distinct ---- *)
Lemma combine_snd {A B} (l : list A) (m : list B) : length l = length m -> map snd (combine l m) = m.
Proof.
  revert m; induction l as [|x l IH]; intros [|y m] H; simpl in *; try discriminate; [reflexivity|].
  f_equal. apply IH. lia.
Qed.

Lemma combine_fst {A B} (l : list A) (m : list B) : length l = length m -> map fst (combine l m) = l.
Proof.
  revert m; induction l as [|x l IH]; intros [|y m] H; simpl in *; try discriminate; [reflexivity|].
  f_equal. apply IH. lia.
Qed.

Lemma export_aliases_nodup g ex r : export_aliases g ex = Some r -> NoDup (map snd r) /\ map fst r = ex.
Proof.
  unfold export_aliases. destruct (g_minify g).
  - intro H. inversion H; subst.
    assert (L : length ex = length (map minified_name (seq 0 (length ex)))) by (rewrite map_length, seq_length; reflexivity).
    split; [rewrite combine_snd by exact L; apply minified_names_nodup | apply combine_fst; exact L].
  - destruct (rename_all (map (sym_name g) ex)) as [names|] eqn:R; [|discriminate].
    intro H. inversion H; subst. apply rename_all_nodup in R as [ND L]. rewrite map_length in L.
    split; [rewrite combine_snd by lia; exact ND | apply combine_fst; lia].
Qed.

Lemma export_aliases_nodup_lemma g a xs oi : cross_chunk g a = Some xs -> (oi < length (a_chunks a))%nat ->
  NoDup (map snd (x_exports (nth oi xs dcross))).
Proof.
  intros H Hoi. destruct (exps_nth _ _ _ _ H Hoi) as [exps [EE X]]. rewrite X.
  unfold exps_of in EE.
  pose proof (all_some_nth _ _ oi [] EE) as N. rewrite map_length, seq_length in N. specialize (N Hoi).
  rewrite (nth_indep _ None (export_aliases g (chunk_exports a (mapi_from (raw_imports g a) 0 (a_chunks a)) 0))) in N
    by (rewrite map_length, seq_length; exact Hoi).
  rewrite (map_nth (fun oi => export_aliases g (chunk_exports a (mapi_from (raw_imports g a) 0 (a_chunks a)) oi))) in N.
  apply export_aliases_nodup in N. tauto.
Qed.

(* ------------------------------------------------------------------ *)
(* enforceNoCyclicChunkImports never reports an error (and never runs out of fuel) *)
Lemma fold_no_error {A} (step : A -> list nat -> bool * list nat) (l : list A) :
  (forall x b, In x l -> fst (step x b) = false) ->
  forall b, fst (fold_left (fun (s : bool * list nat) x => if fst s then s else step x (snd s)) l (false, b)) = false.
Proof.
  induction l as [|x l IH]; intros H b; simpl; [reflexivity|].
  destruct (step x b) as [e b'] eqn:E.
  assert (e = false) by (pose proof (H x b (or_introl eq_refl)) as P; rewrite E in P; exact P). subst e.
  apply IH. intros y b0 Hy. apply H. right. exact Hy.
Qed.

Lemma validate_ok xs :
  (forall i, ~ clos_trans nat (sedge xs) i i) ->
  (forall i j, sedge xs i j -> (j < length xs)%nat) ->
  forall fuel ci gray black,
    NoDup gray -> (forall x, In x gray -> (x < length xs)%nat /\ clos_trans nat (sedge xs) x ci) ->
    (ci < length xs)%nat -> (S (length xs) <= fuel + length gray)%nat ->
    fst (validate fuel xs ci gray black) = false.
Proof.
  intros Hacyc Hbound. induction fuel as [|k IH]; intros ci gray black ND HG Hci HF.
  - exfalso. simpl in HF.
    assert (incl gray (seq 0 (length xs))) by (intros x Hx; apply in_seq; destruct (HG x Hx); lia).
    pose proof (NoDup_incl_length ND H) as L. rewrite seq_length in L. lia.
  - simpl. destruct (memn ci gray) eqn:EG.
    + exfalso. apply memn_In in EG. destruct (HG ci EG) as [_ P]. exact (Hacyc ci P).
    + destruct (memn ci black); [reflexivity|].
      assert (F : fst (fold_left (fun (s : bool * list nat) oi => if fst s then s else validate k xs oi (ci :: gray) (snd s))
                         (static_succ xs ci) (false, black)) = false).
      { apply (fold_no_error (fun oi b => validate k xs oi (ci :: gray) b)).
        intros oi b Hoi. apply IH.
        - constructor; [apply memn_false; exact EG | exact ND].
        - intros x [<-|Hx].
          + split; [exact Hci | apply t_step; exact Hoi].
          + destruct (HG x Hx) as [Hx1 Hx2]. split; [exact Hx1|].
            eapply t_trans; [exact Hx2 | apply t_step; exact Hoi].
        - apply (Hbound ci oi). exact Hoi.
        - simpl. lia. }
      destruct (fold_left _ (static_succ xs ci) (false, black)) as [err black'].
      simpl in F. subst err. reflexivity.
Qed.

Lemma enforce_ok xs :
  (forall i, ~ clos_trans nat (sedge xs) i i) ->
  (forall i j, sedge xs i j -> (j < length xs)%nat) ->
  enforce_cycle_error xs = false.
Proof.
  intros Hacyc Hbound. unfold enforce_cycle_error.
  apply (fold_no_error (fun ci b => validate (S (length xs)) xs ci [] b)).
  intros ci b Hci. apply in_seq in Hci. apply validate_ok; try assumption.
  - constructor.
  - intros x [].
  - lia.
  - simpl. lia.
Qed.

(* ------------------------------------------------------------------ *)
(* statements about split *)
Lemma split_inv g r : split g = Some r ->
  analyse g = Some (r_analysis r) /\ cross_chunk g (r_analysis r) = Some (r_cross r).
Proof.
  unfold split. destruct (analyse g) as [a|] eqn:A; [|discriminate].
  destruct (cross_chunk g a) as [xs|] eqn:X; [|discriminate].
  intro H. inversion H; subst. simpl. auto.
Qed.

Theorem chunks_partition_all g r : split g = Some r ->
  let a := r_analysis r in
  (forall f, In f (a_order a) -> is_live a f = true ->
     exists i, (i < length (a_chunks a))%nat /\ In f (c_files (nth i (a_chunks a) dchunk)) /\
       forall j, (j < length (a_chunks a))%nat -> In f (c_files (nth j (a_chunks a) dchunk)) -> j = i) /\
  (forall c f, In c (a_chunks a) -> In f (c_files c) -> In f (a_order a) /\ is_live a f = true).
Proof. intro H. apply split_inv in H as [A _]. apply (chunks_partition_lemma g). exact A. Qed.

Theorem import_edge_superset_all g r i j : split g = Some r ->
  let a := r_analysis r in
  sedge (r_cross r) i j ->
  (i < length (a_chunks a))%nat /\ (j < length (a_chunks a))%nat /\
  (forall b, (b < length (a_entries a))%nat ->
     HasBit (c_bits (nth i (a_chunks a) dchunk)) b = true -> HasBit (c_bits (nth j (a_chunks a) dchunk)) b = true) /\
  c_bits (nth i (a_chunks a) dchunk) <> c_bits (nth j (a_chunks a) dchunk).
Proof. intros H. pose proof (deps_cover_holds g) as HD. apply split_inv in H as [A X]. apply (sedge_spec g); assumption. Qed.

Theorem static_chunk_graph_acyclic_all g r : split g = Some r ->
  forall i, ~ clos_trans nat (sedge (r_cross r)) i i.
Proof. intros H. pose proof (deps_cover_holds g) as HD. apply split_inv in H as [A X]. apply (static_acyclic_lemma g (r_analysis r)); assumption. Qed.

Theorem enforce_never_fires_all g r : split g = Some r ->
  enforce_cycle_error (r_cross r) = false.
Proof.
  intros H. pose proof (deps_cover_holds g) as HD. pose proof (static_chunk_graph_acyclic_all _ _ H) as AC.
  apply split_inv in H as [A X]. apply enforce_ok; [exact AC|].
  intros i j E. destruct (sedge_spec _ _ _ _ _ A X HD E) as [_ [Hj _]].
  rewrite (cross_chunk_length _ _ _ X). exact Hj.
Qed.

Theorem entry_loads_all_reachable_all g r ci oi bit e f : split g = Some r ->
  let a := r_analysis r in
  (ci < length (a_chunks a))%nat -> (oi < length (a_chunks a))%nat ->
  c_entry (nth ci (a_chunks a) dchunk) = Some (bit, e) ->
  In f (c_files (nth oi (a_chunks a) dchunk)) ->
  path (split_succ g (a_entries a)) (is_live a) e f ->
  oi = ci \/ sedge (r_cross r) ci oi.
Proof. intro H. apply split_inv in H as [A X]. simpl. intros. eapply entry_loads_lemma; eauto. Qed.

Theorem exports_exist_all g r ci im al : split g = Some r ->
  let a := r_analysis r in
  (ci < length (a_chunks a))%nat ->
  In im (x_imports (nth ci (r_cross r) dcross)) -> i_dynamic im = false -> In al (i_items im) ->
  (i_chunk im < length (a_chunks a))%nat /\ i_chunk im <> ci /\
  exists s, In (s, al) (x_exports (nth (i_chunk im) (r_cross r) dcross)).
Proof. intro H. apply split_inv in H as [A X]. simpl. intros. eapply exports_exist_lemma; eauto. Qed.

Theorem export_aliases_distinct_all g r oi : split g = Some r ->
  (oi < length (a_chunks (r_analysis r)))%nat ->
  NoDup (map snd (x_exports (nth oi (r_cross r) dcross))).
Proof. intro H. apply split_inv in H as [A X]. intro. eapply export_aliases_nodup_lemma; eauto. Qed.

(* an entry chunk exports nothing to other chunks.  Partial: the importer's bit
   set is assumed non-empty (true of every chunk whose files are reached by some
   entry point; proving it needs soundness of the liveness closure together
   with f_ldeps being a subset of f_deps, which is not shown here). *)
Lemma entry_no_importers_lemma g a xs i j bit e : analyse g = Some a -> cross_chunk g a = Some xs -> deps_cover g ->
  sedge xs i j -> c_entry (nth j (a_chunks a) dchunk) = Some (bit, e) ->
  (exists b, (b < length (a_entries a))%nat /\ HasBit (c_bits (nth i (a_chunks a) dchunk)) b = true) -> False.
Proof.
  intros A X HD E HE Hnon.
  destruct (sedge_spec _ _ _ _ _ A X HD E) as [Hi [Hj [Hsub Hne]]].
  assert (Hcj : In (nth j (a_chunks a) dchunk) (a_chunks a)) by (apply nth_In; exact Hj).
  assert (Hci : In (nth i (a_chunks a) dchunk) (a_chunks a)) by (apply nth_In; exact Hi).
  destruct (chunk_entry_shape _ _ _ _ _ A Hcj HE) as [Hbit [_ Hcb]].
  pose proof (chunk_good_bits _ _ _ A Hci) as Gi. pose proof (chunk_good_bits _ _ _ A Hcj) as Gj.
  assert (Hsub' : forall b, (b < length (a_entries a))%nat -> HasBit (c_bits (nth i (a_chunks a) dchunk)) b = true -> b = bit).
  { intros b Hb T. apply Hsub in T; [|exact Hb]. rewrite Hcb in T. apply singleton_bit in T; auto. }
  destruct Hnon as [b [Hb Tb]]. pose proof (Hsub' b Hb Tb) as ->.
  apply Hne. eapply good_bits_ext; eauto.
  intros k Hk. rewrite Hcb.
  destruct (HasBit (c_bits (nth i (a_chunks a) dchunk)) k) eqn:Ek.
  - apply Hsub' in Ek; [|exact Hk]. subst k. pose proof (length_New (length (a_entries a))).
    rewrite HasBit_SetBit by lia. rewrite Nat.eqb_refl. reflexivity.
  - destruct (Nat.eq_dec k bit) as [->|Hkb]; [congruence|].
    pose proof (length_New (length (a_entries a))). rewrite HasBit_SetBit by lia. rewrite HasBit_New, orb_false_r.
    symmetry. apply Nat.eqb_neq. auto.
Qed.

Theorem entry_chunk_no_importers_partial_all g r i j bit e : split g = Some r ->
  let a := r_analysis r in
  sedge (r_cross r) i j -> c_entry (nth j (a_chunks a) dchunk) = Some (bit, e) ->
  (exists b, (b < length (a_entries a))%nat /\ HasBit (c_bits (nth i (a_chunks a) dchunk)) b = true) -> False.
Proof. intros H. pose proof (deps_cover_holds g) as HD. apply split_inv in H as [A X]. simpl. apply (entry_no_importers_lemma g); assumption. Qed.

Lemma getf_out g f : (nfiles g <= f)%nat -> getf g f = nofile.
Proof. intro H. unfold getf. apply nth_overflow. exact H. Qed.

(* chunk keys: two bit sets for the same number of entry points are the same
   string exactly when they have the same members *)
Lemma bitset_string_injective_lemma n a b : good_bits n a -> good_bits n b ->
  (String a = String b <-> forall j, (j < n)%nat -> HasBit a j = HasBit b j).
Proof.
  intros Ga Gb. unfold String. split; [intros -> j _; reflexivity | apply good_bits_ext; assumption].
Qed.
