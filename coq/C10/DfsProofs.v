(* The post-order walk on arbitrary (possibly cyclic) bounded graphs: it lists its roots, is
   closed under successors and stays inside any successor-closed set containing the roots.
   Consequences: findReachableFiles is closed under import records; chunk_order is a
   permutation of the files of the chunk. *)
From V Require Import Common.Base C10.BitSet C10.Renamer C10.Split C10.BitSetProofs C10.RenamerProofs
  C10.ListLemmas C10.SplitProofs C10.OrderProofs C10.CrossProofs C10.TotalProofs.
From Coq Require Import Permutation.

Section Walk.
Variable succ : nat -> list nat.
Variable n : nat.
Variable R : nat -> Prop.
Hypothesis bounded : forall x y, In y (succ x) -> (y < n)%nat.
Hypothesis Rstep : forall x y, R x -> In y (succ x) -> R y.

Definition winv (gray vis out : list nat) : Prop :=
  (forall v, In v vis -> In v out \/ In v gray) /\
  (forall v, In v out -> In v vis) /\
  (forall v, In v gray -> In v vis) /\
  (forall v w, In v out -> In w (succ v) -> In w vis) /\
  (forall v, In v vis -> R v).

Definition wpost (gray : list nat) (x : nat) (st st' : list nat * list nat) : Prop :=
  winv gray (fst st') (snd st') /\ In x (fst st') /\ incl (fst st) (fst st').

Lemma wfold k x gray :
  (forall y st, In y (succ x) -> winv (x :: gray) (fst st) (snd st) -> wpost (x :: gray) y st (gvisit k succ y st)) ->
  forall l st, incl l (succ x) -> winv (x :: gray) (fst st) (snd st) ->
    let st' := fold_left (fun s y => gvisit k succ y s) l st in
    winv (x :: gray) (fst st') (snd st') /\ incl (fst st) (fst st') /\ (forall y, In y l -> In y (fst st')).
Proof.
  intros HV. induction l as [|y l IH]; intros st Hl HI; cbv zeta; cbn [fold_left].
  - split; [exact HI|]. split; [apply incl_refl | intros y []].
  - destruct (HV y st (Hl y (or_introl eq_refl)) HI) as [I1 [Iy Inc]].
    pose proof (IH (gvisit k succ y st)) as IH'. cbv zeta in IH'.
    destruct IH' as [J1 [JInc Jall]]; [intros z Hz; apply Hl; right; exact Hz | exact I1 |].
    split; [exact J1|]. split; [eapply incl_tran; eauto|].
    intros z [<-|Hz]; [apply JInc; exact Iy | apply Jall; exact Hz].
Qed.

Lemma gvisit_weak : forall fuel x gray st,
  NoDup gray -> (forall v, In v gray -> (v < n)%nat) -> (x < n)%nat -> R x ->
  (S n <= fuel + length gray)%nat -> winv gray (fst st) (snd st) ->
  wpost gray x st (gvisit fuel succ x st).
Proof.
  induction fuel as [|k IH]; intros x gray [vis out] ND HG Hx HRx HF HI.
  - exfalso. simpl in HF.
    assert (incl gray (seq 0 n)) by (intros v Hv; apply in_seq; specialize (HG v Hv); lia).
    pose proof (NoDup_incl_length ND H) as L. rewrite seq_length in L. lia.
  - cbn [gvisit]. simpl in HI. destruct HI as [I1 [I2 [I3 [I4 I5]]]].
    destruct (memn x vis) eqn:EV.
    + apply memn_In in EV. unfold wpost; simpl. split; [exact (conj I1 (conj I2 (conj I3 (conj I4 I5))))|].
      split; [exact EV | apply incl_refl].
    + apply memn_false in EV.
      assert (Hxg : ~ In x gray) by (intro Hc; apply EV; apply I3; exact Hc).
      assert (HI' : winv (x :: gray) (fst (x :: vis, out)) (snd (x :: vis, out))).
      { simpl. split; [|split; [|split; [|split]]].
        - intros v [<-|Hv]; [right; left; reflexivity|]. destruct (I1 v Hv); [left | right; right]; assumption.
        - intros v Hv. right. apply I2. exact Hv.
        - intros v [<-|Hv]; [left; reflexivity | right; apply I3; exact Hv].
        - intros v w Hv Hw. right. eapply I4; eauto.
        - intros v [<-|Hv]; [exact HRx | apply I5; exact Hv]. }
      assert (HV : forall y st, In y (succ x) -> winv (x :: gray) (fst st) (snd st) ->
                     wpost (x :: gray) y st (gvisit k succ y st)).
      { intros y st Ey HIy. apply IH; try assumption.
        - constructor; assumption.
        - intros v [<-|Hv]; [exact Hx | apply HG; exact Hv].
        - eapply bounded; eauto.
        - eapply Rstep; eauto.
        - simpl. lia. }
      pose proof (wfold k x gray HV (succ x) (x :: vis, out) (incl_refl _) HI') as FP.
      destruct (fold_left (fun s y => gvisit k succ y s) (succ x) (x :: vis, out)) as [vis' out'] eqn:EF.
      simpl in FP. destruct FP as [[J1 [J2 [J3 [J4 J5]]]] [JInc Jall]].
      assert (Hxv : In x vis') by (apply JInc; left; reflexivity).
      unfold wpost; simpl. split; [|split; [exact Hxv | intros v Hv; apply JInc; right; exact Hv]].
      split; [|split; [|split; [|split]]].
      * intros v Hv. destruct (J1 v Hv) as [H|[<-|H]]; [left; apply in_or_app; left; exact H | left; apply in_or_app; right; left; reflexivity | right; exact H].
      * intros v Hv. apply in_app_or in Hv as [Hv|[<-|[]]]; [apply J2; exact Hv | exact Hxv].
      * intros v Hv. apply J3. right. exact Hv.
      * intros v w Hv Hw. apply in_app_or in Hv as [Hv|[<-|[]]]; [eapply J4; eauto | apply Jall; exact Hw].
      * exact J5.
Qed.

Lemma postorder_spec roots : (forall x, In x roots -> (x < n)%nat /\ R x) ->
  let out := postorder (S n) succ roots in
  (forall x, In x roots -> In x out) /\
  (forall v w, In v out -> In w (succ v) -> In w out) /\
  (forall v, In v out -> R v).
Proof.
  intro HR. unfold postorder.
  assert (G : forall l st, (forall x, In x l -> (x < n)%nat /\ R x) -> winv [] (fst st) (snd st) ->
            let st' := fold_left (fun s x => gvisit (S n) succ x s) l st in
            winv [] (fst st') (snd st') /\ incl (fst st) (fst st') /\ (forall x, In x l -> In x (fst st'))).
  { induction l as [|x l IH]; intros st Hl HI; cbv zeta; cbn [fold_left].
    - split; [exact HI|]. split; [apply incl_refl | intros x []].
    - destruct (Hl x (or_introl eq_refl)) as [Hx HRx].
      destruct (gvisit_weak (S n) x [] st (NoDup_nil _)) as [I1 [Ix Inc]];
        [intros v [] | exact Hx | exact HRx | simpl; lia | exact HI |].
      pose proof (IH (gvisit (S n) succ x st)) as IH'. cbv zeta in IH'.
      destruct IH' as [J1 [JInc Jall]]; [intros y Hy; apply Hl; right; exact Hy | exact I1 |].
      split; [exact J1|]. split; [eapply incl_tran; eauto|].
      intros y [<-|Hy]; [apply JInc; exact Ix | apply Jall; exact Hy]. }
  destruct (G roots ([], []) HR) as [[I1 [I2 [_ [I4 I5]]]] [_ Hall]].
  - simpl. split; [intros v []|]. split; [intros v []|]. split; [intros v []|]. split; [intros v w []| intros v []].
  - assert (VO : forall v, In v (fst (fold_left (fun s x => gvisit (S n) succ x s) roots ([], []))) ->
                 In v (snd (fold_left (fun s x => gvisit (S n) succ x s) roots ([], [])))).
    { intros v Hv. destruct (I1 v Hv) as [H|[]]. exact H. }
    split; [intros x Hx; apply VO; apply Hall; exact Hx|].
    split; [intros v w Hv Hw; apply VO; eapply I4; eauto | intros v Hv; apply I5; apply I2; exact Hv].
Qed.
End Walk.

(* ------------------------------------------------------------------ *)
Lemma nfiles_pos g : wf_graphb g = true -> (0 < nfiles g)%nat.
Proof. unfold wf_graphb. intro W. apply andb_true_iff in W as [W _]. apply andb_true_iff in W as [W _]. apply Nat.ltb_lt. exact W. Qed.
Lemma user_bounded g e : wf_graphb g = true -> In e (g_user g) -> (e < nfiles g)%nat.
Proof. unfold wf_graphb. intros W He. apply andb_true_iff in W as [_ W]. rewrite forallb_forall in W. apply Nat.ltb_lt. apply W. exact He. Qed.
Lemma rec_targets_bounded g x y : wf_graphb g = true -> In y (rec_targets g x) -> (y < nfiles g)%nat.
Proof. intros W H. unfold rec_targets in H. apply in_map_iff in H as [r [<- Hr]]. eapply wf_recs; eauto. Qed.

(* findReachableFiles: contains the runtime and the user entry points, closed under import records *)
Lemma reachable_files_closed g : wf_graphb g = true ->
  In O (reachable_files g) /\ (forall e, In e (g_user g) -> In e (reachable_files g)) /\
  (forall f r, In f (reachable_files g) -> In r (f_recs (getf g f)) -> In (fst r) (reachable_files g)).
Proof.
  intro W. unfold reachable_files.
  destruct (postorder_spec (rec_targets g) (nfiles g) (fun _ => True)
              (fun x y => rec_targets_bounded g x y W) (fun _ _ _ _ => I) (0%nat :: g_user g)) as [A [B _]].
  - intros x [<-|Hx]; split; auto; [apply nfiles_pos; exact W | apply user_bounded; assumption].
  - split; [apply A; left; reflexivity|]. split; [intros e He; apply A; right; exact He|].
    intros f r Hf Hr. apply (B f (fst r) Hf). unfold rec_targets. apply in_map. exact Hr.
Qed.

Lemma osucc_rec g a c f t : In t (osucc g a c f) -> exists r, In r (f_recs (getf g f)) /\ fst r = t.
Proof. unfold osucc. intro H. apply in_map_iff in H as [r [E Hr]]. apply filter_In in Hr as [Hr _]. exists r. auto. Qed.

Lemma insert_by_perm g a l : Permutation l (fold_right (insert_by g a) [] l).
Proof.
  induction l as [|y l IH]; simpl; [constructor|].
  eapply perm_trans; [apply perm_skip; exact IH|].
  generalize (fold_right (insert_by g a) [] l). intro m. induction m as [|z m IHm]; simpl; [apply Permutation_refl|].
  destruct (key_ltb _ _); [apply Permutation_refl|]. eapply perm_trans; [apply perm_swap|]. apply perm_skip. exact IHm.
Qed.

(* findImportedPartsInJSOrder lists exactly the files of the chunk, each once *)
Theorem chunk_order_permutation_lemma g a c : analyse g = Some a -> wf_graphb g = true -> In c (a_chunks a) ->
  Permutation (chunk_order g a c) (c_files c).
Proof.
  intros H W Hc. destruct (analyse_inv _ _ H) as [HO _].
  destruct (reachable_files_closed g W) as [R0 [_ RC]]. rewrite <- HO in R0, RC.
  apply NoDup_Permutation.
  - unfold chunk_order. apply NoDup_filter. apply postorder_nodup.
  - eapply chunk_files_nodup_lemma; eauto.
  - intro f. unfold chunk_order.
    set (roots := (0%nat :: fold_right (insert_by g a) [] (c_files c))).
    destruct (postorder_spec (osucc g a c) (nfiles g) (fun v => In v (a_order a))) with (roots := roots) as [A [_ C]].
    + intros x y Hy. apply osucc_rec in Hy as [r [Hr <-]]. eapply wf_recs; eauto.
    + intros x y Hx Hy. apply osucc_rec in Hy as [r [Hr <-]]. apply (RC x r Hx Hr).
    + intros x [<-|Hx]; [split; [apply nfiles_pos; exact W | exact R0]|].
      apply (Permutation_in _ (Permutation_sym (insert_by_perm g a (c_files c)))) in Hx.
      apply (chunk_files _ _ _ x H Hc) in Hx as [Hx _]. split; [|exact Hx].
      rewrite HO in Hx. unfold reachable_files in Hx.
      (* elements of the order list are file indices *)
      destruct (postorder_spec (rec_targets g) (nfiles g) (fun v => (v < nfiles g)%nat)
                  (fun x y => rec_targets_bounded g x y W) (fun x y _ Hy => rec_targets_bounded g x y W Hy) (0%nat :: g_user g)) as [_ [_ B]].
      { intros z [<-|Hz]; split; try (apply nfiles_pos; exact W); apply user_bounded; assumption. }
      apply B. exact Hx.
    + split; intro Hf.
      * apply filter_In in Hf as [Hf Hin]. apply C in Hf.
        unfold in_chunk in Hin. apply andb_true_iff in Hin as [Hl He]. apply Equals_eq in He.
        apply (chunk_files _ _ _ f H Hc). auto.
      * apply filter_In. split.
        -- apply A. right. eapply Permutation_in; [apply insert_by_perm | exact Hf].
        -- apply (chunk_files _ _ _ f H Hc) in Hf as [_ [Hl Hb]]. unfold in_chunk. rewrite Hl. simpl. apply Equals_eq. auto.
Qed.

Theorem chunk_order_permutation_all g r i : split g = Some r -> wf_graphb g = true ->
  (i < length (a_chunks (r_analysis r)))%nat ->
  Permutation (nth i (r_orders r) []) (c_files (nth i (a_chunks (r_analysis r)) dchunk)).
Proof.
  intros H W Hi. pose proof (split_inv _ _ H) as [A _].
  assert (E : r_orders r = map (chunk_order g (r_analysis r)) (a_chunks (r_analysis r))).
  { unfold split in H. rewrite A in H. destruct (cross_chunk g (r_analysis r)); [|discriminate]. inversion H. reflexivity. }
  rewrite E. rewrite (nth_indep _ [] (chunk_order g (r_analysis r) dchunk)) by (rewrite map_length; exact Hi).
  rewrite map_nth. apply (chunk_order_permutation_lemma g); [exact A | exact W | apply nth_In; exact Hi].
Qed.
