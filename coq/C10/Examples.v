From V Require Import Common.Base C10.BitSet C10.Renamer C10.Split.
(* non-vacuity / sanity: concrete values *)
Example bitset_ex : String (SetBit (SetBit (NewBitSet 10) 1) 9) = [2; 2].
Proof. vm_compute. reflexivity. Qed.
