From V Require Import Common.Base C10.BitSet C10.Renamer C10.Split C10.BitSetProofs C10.SplitProofs C10.Harness.
(* non-vacuity / sanity: concrete values meeting the hypotheses of the theorems *)

Example bitset_ex : String (SetBit (SetBit (NewBitSet 10) 1) 9) = [2; 2].
Proof. vm_compute. reflexivity. Qed.
Example good_ex : good_bits 10 (SetBit (SetBit (NewBitSet 10) 1) 9).
Proof.
  split; [reflexivity|]. split.
  - apply wf_SetBit, wf_SetBit, wf_New.
  - intros j Hj. rewrite !HasBit_SetBit by (simpl; lia). rewrite HasBit_New.
    replace (9 =? j)%nat with false by (symmetry; apply Nat.eqb_neq; lia).
    replace (1 =? j)%nat with false by (symmetry; apply Nat.eqb_neq; lia). reflexivity.
Qed.

(* "x", "x", "x2", "x" -> x, x2, x23, x3  (mirrors the Go code: the counter is stored under the new name) *)
Example rename_ex : rename_all [[120]; [120]; [120; 50]; [120]] = Some [[120]; [120; 50]; [120; 50; 51]; [120; 51]].
Proof. vm_compute. reflexivity. Qed.
Example minname_ex : map minified_name [0; 53; 54; 3509; 3510]%nat = [[97]; [36]; [97; 97]; [36; 36]; [97; 97; 97]].
Proof. vm_compute. reflexivity. Qed.

(* two entry points e0 (1), e1 (2) sharing m0 (3) and m1 (4); both modules declare "v".
   Each module has one live part declaring v, bump, u, done (inner indices 0..3) and a dead
   namespace-export part that depends on the runtime (file 0); the entry points use import
   refs (inner 10..12) that ImportsToBind maps to the modules' symbols. *)
Definition nm (x : bytes) : list (Z * bytes) :=
  [(0, [118]); (1, [98;117;109;112]); (2, [117;95] ++ x); (3, [100;111;110;101]); (4, x ++ [95;101])].
Definition own_part : part_z := (true, [], [], [0; 1; 2; 3]).
Definition ns_part : part_z := (false, [0], [(0, 0)], [4]).
Definition ex_graph : graph := mk_graph
  ([ ([], [(false, [], [], [0])], [], [(0, [95;95;101;120;112;111;114;116])], []);
     ([(3, false); (4, false)],
      [ns_part; (true, [3; 4], [(1, 10); (1, 11); (1, 12)], []); own_part; (true, [], [], [])],
      [((1, 10), (3, 0)); ((1, 11), (3, 3)); ((1, 12), (4, 0))], nm [101;48], [(1, 1); (1, 3); (1, 2); (1, 0)]);
     ([(3, false); (4, false); (1, true)],
      [ns_part; (true, [3; 4], [(2, 10); (2, 11)], []); own_part; (true, [], [], [])],
      [((2, 10), (3, 0)); ((2, 11), (4, 0))], nm [101;49], [(2, 1); (2, 3); (2, 2); (2, 0)]);
     ([], [ns_part; own_part], [], nm [109;48], []);
     ([], [ns_part; own_part], [], nm [109;49], []) ],
   [1; 2], false).

(* the dumped dependencies of the example already cover its uses (the diagnostic the harness
   evaluates on every linker dump) *)
Example ex_wf : wf_graphb ex_graph = true.
Proof. vm_compute. reflexivity. Qed.
Example ex_hyp : deps_coverb ex_graph = true.
Proof. vm_compute. reflexivity. Qed.

(* three chunks: e0 {01}, e1 {10}, shared {11} with m0, m1; both entry chunks import the
   shared chunk statically; e1 imports e0's chunk dynamically; the shared chunk exports
   v, done, v2 *)
Example ex_split :
  match split ex_graph with
  | Some r =>
    (map c_files (a_chunks (r_analysis r)), map c_bits (a_chunks (r_analysis r)),
     map (fun x => map (fun i => (i_dynamic i, i_chunk i, i_items i)) (x_imports x)) (r_cross r),
     map (fun x => map snd (x_exports x)) (r_cross r),
     r_orders r, enforce_cycle_error (r_cross r))
    = ([[1]; [2]; [3; 4]]%nat, [[1]; [2]; [3]],
       [[(false, 2%nat, [[100;111;110;101]; [118]; [118;50]])];
        [(true, 0%nat, []); (false, 2%nat, [[118]; [118;50]])]; []],
       [[]; []; [[118]; [100;111;110;101]; [118;50]]],
       [[1]; [2]; [3; 4]]%nat, false)
  | None => False
  end.
Proof. vm_compute. reflexivity. Qed.

Example ex_edge : match split ex_graph with Some r => sedge (r_cross r) 0 2 /\ sedge (r_cross r) 1 2 | None => False end.
Proof. vm_compute. split; left; reflexivity. Qed.

(* ---- deepening round ---- *)
From V Require Import C10.ListLemmas C10.CrossProofs C10.Eval C10.EvalProofs.
From Coq Require Import Relations.

(* cross_chunk_imports_exact, third case: the entry chunk of e0 (chunk 0) references m0's v
   = (3,0), which is declared in the shared chunk 2 and exported there as "v"; the import ref
   (1,10) was followed through ImportsToBind *)
Example ex_exact :
  match split ex_graph with
  | Some r =>
    let a := r_analysis r in
    (mems (3, 0)%nat (chunk_uses ex_graph (nth 0 (a_chunks a) dchunk)),
     mems (1, 10)%nat (chunk_uses ex_graph (nth 0 (a_chunks a) dchunk)),
     chunk_of_sym ex_graph a (3, 0)%nat,
     lookup_alias (3, 0)%nat (x_exports (nth 2 (r_cross r) dcross)),
     map i_chunk (static_imports (nth 0 (r_cross r) dcross)))
    = (true, false, Some 2%nat, Some [118], [2%nat])
  | None => False
  end.
Proof. vm_compute. reflexivity. Qed.

(* the witness of the refuted order claim, and what does hold on it *)
Example ex_orders :
  (native_order order_witness 1, split_order order_witness_result 0, chunk_eval_order order_witness_result 0)
  = ([3; 4; 1]%nat, [4; 3; 1]%nat, [2; 0]%nat).
Proof. vm_compute. reflexivity. Qed.

Lemma two_level_acyclic succ : (forall x y, In y (succ x) -> succ y = []) ->
  forall x, ~ clos_trans nat (E succ) x x.
Proof.
  intros H x P. apply clos_trans_t1n in P.
  assert (F : forall a b, clos_trans_1n nat (E succ) a b -> exists c, In c (succ a)).
  { intros a b Q. destruct Q as [b Q|b c Q _]; exists b; exact Q. }
  inversion P as [y Hy|y z Hy Q]; subst.
  - pose proof (H x x Hy) as Z. unfold E in Hy. rewrite Z in Hy. destruct Hy.
  - destruct (F _ _ Q) as [c Hc]. rewrite (H x y Hy) in Hc. destruct Hc.
Qed.

(* hypotheses of chunk_order_respects_imports on the entry chunk of e0 in the witness graph:
   e0 (1) imports a (3), both are in chunk 0, and a is emitted first *)
Example ex_chunk_order :
  let a := r_analysis order_witness_result in
  let c := nth 0 (a_chunks a) dchunk in
  In 3%nat (chunk_order order_witness a c) /\ before 3%nat 1%nat (chunk_order order_witness a c).
Proof.
  intros a c. apply (chunk_order_respects_imports_all order_witness a c 1 3).
  - apply two_level_acyclic. intros x y Hy.
    destruct x as [|[|[|[|[|[|x]]]]]]; vm_compute in Hy; try contradiction;
      repeat (destruct Hy as [<-|Hy]; [vm_compute; reflexivity|]); contradiction.
  - intros x y Hy.
    destruct x as [|[|[|[|[|[|x]]]]]]; vm_compute in Hy; try contradiction;
      repeat (destruct Hy as [<-|Hy]; [vm_compute; lia|]); contradiction.
  - intros x Hx. vm_compute in Hx. repeat (destruct Hx as [<-|Hx]; [vm_compute; lia|]). contradiction.
  - vm_compute. lia.
  - vm_compute. auto.
  - vm_compute. auto.
  - vm_compute. reflexivity.
Qed.

(* chunk_order_permutation on the example: the shared chunk (index 2) emits m0, m1 *)
From V Require Import C10.TotalProofs C10.DfsProofs.
From Coq Require Import Permutation.
Example ex_perm : match split ex_graph with
  | Some r => Permutation (nth 2 (r_orders r) []) (c_files (nth 2 (a_chunks (r_analysis r)) dchunk))
  | None => False end.
Proof.
  destruct (split ex_graph) as [r|] eqn:E; [|vm_compute in E; discriminate].
  apply (chunk_order_permutation_all ex_graph r 2 E); [vm_compute; reflexivity|].
  assert (R : Some r = split ex_graph) by (symmetry; exact E). vm_compute in R. inversion R. vm_compute. lia.
Qed.

(* dynamic_import_resolves_to_entry_chunk on the example: e1 (2, chunk 1) does import(e0); e0 is
   entry point 0 with entry chunk 0, recorded as a dynamic import of chunk 1 *)
From V Require Import C10.DynProofs.
Example ex_dynamic :
  match split ex_graph with
  | Some r => (entry_chunk_index 1 (a_chunks (r_analysis r)) 0, a_entries (r_analysis r),
               map (fun i => (i_dynamic i, i_chunk i)) (x_imports (nth 1 (r_cross r) dcross)))
              = (Some 0%nat, [1; 2]%nat, [(true, 0%nat); (false, 2%nat)])
  | None => False
  end.
Proof. vm_compute. reflexivity. Qed.

(* CSS: e0 (1) and e1 (2) import the stubs (6, 7) of a.css (4) and b.css (5); a.css @imports
   b.css.  Both entry points get a CSS chunk; b.css is in both (duplicated by design) *)
From V Require Import C10.Css C10.CssProofs.
Definition ex_css : cgraph := map mk_cfile
  [(false, [], -1); (false, [6; 7], -1); (false, [6], -1); (false, [], -1); (true, [5], -1); (true, [], -1); (false, [], 4); (false, [], 5)].
Example ex_css_chunks : (wf_cgraphb ex_css, no_zero_targetb ex_css, css_chunks ex_css [1; 2]%nat)
  = (true, true, [(0, 1, [4; 5]); (1, 2, [5; 4])]%nat).
Proof. vm_compute. reflexivity. Qed.
Example ex_css_path : spath ex_css [0%nat] 4%nat 5%nat /\ jreach ex_css 2 6 /\ cf_stub (getc ex_css 6) = Some 4%nat.
Proof.
  split; [eapply sp_step; [intros [H|[]]; discriminate | left; reflexivity | apply sp_here; intros [H|[H|[]]]; discriminate]|].
  split; [eapply jr_step; [apply jr_refl | vm_compute; auto] | reflexivity].
Qed.
