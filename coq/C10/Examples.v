From V Require Import Common.Base C10.BitSet C10.Renamer C10.Split C10.BitSetProofs C10.SplitProofs C10.Harness.
(* non-vacuity / sanity: concrete values meeting the hypotheses of the theorems *)

Example bitset_ex : String (SetBit (SetBit (NewBitSet 10) 1) 9) = [2; 2].
Proof. vm_compute. reflexivity. Qed.
Example good_ex : good_bits 10 (SetBit (SetBit (NewBitSet 10) 1) 9).
Proof.
  split; [reflexivity|]. split.
  - apply wf_SetBit, wf_SetBit, wf_New.
  - intros j Hj. rewrite !HasBit_SetBit by (simpl; lia). rewrite HasBit_New.
    replace (9 =? j)%nat with false by (symmetry; apply Nat.eqb_neq; lia).
    replace (1 =? j)%nat with false by (symmetry; apply Nat.eqb_neq; lia). reflexivity.
Qed.

(* "x", "x", "x2", "x" -> x, x2, x23, x3  (mirrors the Go code: the counter is stored under the new name) *)
Example rename_ex : rename_all [[120]; [120]; [120; 50]; [120]] = Some [[120]; [120; 50]; [120; 50; 51]; [120; 51]].
Proof. vm_compute. reflexivity. Qed.
Example minname_ex : map minified_name [0; 53; 54; 3509; 3510]%nat = [[97]; [36]; [97; 97]; [36; 36]; [97; 97; 97]].
Proof. vm_compute. reflexivity. Qed.

(* two entry points e0 (1), e1 (2) sharing m0 (3) and m1 (4); both modules declare "v".
   Each module has one live part declaring v, bump, u, done (inner indices 0..3) and a dead
   namespace-export part that depends on the runtime (file 0); the entry points use import
   refs (inner 10..12) that ImportsToBind maps to the modules' symbols. *)
Definition nm (x : bytes) : list (Z * bytes) :=
  [(0, [118]); (1, [98;117;109;112]); (2, [117;95] ++ x); (3, [100;111;110;101]); (4, x ++ [95;101])].
Definition own_part : part_z := (true, [], [], [0; 1; 2; 3]).
Definition ns_part : part_z := (false, [0], [(0, 0)], [4]).
Definition ex_graph : graph := mk_graph
  ([ ([], [(false, [], [], [0])], [], [(0, [95;95;101;120;112;111;114;116])], []);
     ([(3, false); (4, false)],
      [ns_part; (true, [3; 4], [(1, 10); (1, 11); (1, 12)], []); own_part; (true, [], [], [])],
      [((1, 10), (3, 0)); ((1, 11), (3, 3)); ((1, 12), (4, 0))], nm [101;48], [(1, 1); (1, 3); (1, 2); (1, 0)]);
     ([(3, false); (4, false); (1, true)],
      [ns_part; (true, [3; 4], [(2, 10); (2, 11)], []); own_part; (true, [], [], [])],
      [((2, 10), (3, 0)); ((2, 11), (4, 0))], nm [101;49], [(2, 1); (2, 3); (2, 2); (2, 0)]);
     ([], [ns_part; own_part], [], nm [109;48], []);
     ([], [ns_part; own_part], [], nm [109;49], []) ],
   [1; 2], false).

Example ex_hyp : deps_cover ex_graph.
Proof. apply deps_coverb_sound. vm_compute. reflexivity. Qed.

(* three chunks: e0 {01}, e1 {10}, shared {11} with m0, m1; both entry chunks import the
   shared chunk statically; e1 imports e0's chunk dynamically; the shared chunk exports
   v, done, v2 *)
Example ex_split :
  match split ex_graph with
  | Some r =>
    (map c_files (a_chunks (r_analysis r)), map c_bits (a_chunks (r_analysis r)),
     map (fun x => map (fun i => (i_dynamic i, i_chunk i, i_items i)) (x_imports x)) (r_cross r),
     map (fun x => map snd (x_exports x)) (r_cross r),
     r_orders r, enforce_cycle_error (r_cross r))
    = ([[1]; [2]; [3; 4]]%nat, [[1]; [2]; [3]],
       [[(false, 2%nat, [[100;111;110;101]; [118]; [118;50]])];
        [(true, 0%nat, []); (false, 2%nat, [[118]; [118;50]])]; []],
       [[]; []; [[118]; [100;111;110;101]; [118;50]]],
       [[1]; [2]; [3; 4]]%nat, false)
  | None => False
  end.
Proof. vm_compute. reflexivity. Qed.

Example ex_edge : match split ex_graph with Some r => sedge (r_cross r) 0 2 /\ sedge (r_cross r) 1 2 | None => False end.
Proof. vm_compute. split; left; reflexivity. Qed.
