(* Small list lemmas used by the C10 proofs. *)
From V Require Import Common.Base C10.BitSet C10.Renamer C10.Split.
From Coq Require Import Permutation.

Lemma memn_In x l : memn x l = true <-> In x l.
Proof.
  unfold memn. rewrite existsb_exists. split.
  - intros [y [Hy E]]. apply Nat.eqb_eq in E. subst. assumption.
  - intro H. exists x. split; [assumption | apply Nat.eqb_refl].
Qed.
Lemma memn_false x l : memn x l = false <-> ~ In x l.
Proof. rewrite <- memn_In. destruct (memn x l); split; intro H; congruence. Qed.

Lemma sym_eqb_eq a b : sym_eqb a b = true <-> a = b.
Proof.
  destruct a as [a1 a2], b as [b1 b2]. unfold sym_eqb; simpl.
  rewrite andb_true_iff, !Nat.eqb_eq. split; [intros [-> ->]; reflexivity | intro H; inversion H; auto].
Qed.
Lemma mems_In x l : mems x l = true <-> In x l.
Proof.
  unfold mems. rewrite existsb_exists. split.
  - intros [y [Hy E]]. apply sym_eqb_eq in E. subst. assumption.
  - intro H. exists x. split; [assumption | apply sym_eqb_eq; reflexivity].
Qed.

Lemma key_mem_In k l : key_mem k l = true <-> In k l.
Proof.
  induction l as [|x l IH]; simpl.
  - split; [discriminate | tauto].
  - rewrite orb_true_iff, IH, zlist_eqb_eq. split; intros [H|H]; auto.
Qed.

Lemma Equals_eq a b : Equals a b = true <-> a = b.
Proof. apply zlist_eqb_eq. Qed.
Lemma Equals_refl a : Equals a a = true.
Proof. apply Equals_eq. reflexivity. Qed.

(* all_some *)
Lemma all_some_spec {A} (l : list (option A)) r :
  all_some l = Some r -> map Some r = l.
Proof.
  revert r; induction l as [|[x|] l IH]; simpl; intros r H.
  - inversion H. reflexivity.
  - destruct (all_some l) as [r'|]; [|discriminate]. inversion H. simpl. f_equal. apply IH. reflexivity.
  - discriminate.
Qed.
Lemma all_some_length {A} (l : list (option A)) r : all_some l = Some r -> length r = length l.
Proof. intro H. apply all_some_spec in H. rewrite <- H. rewrite map_length. reflexivity. Qed.
Lemma all_some_nth {A} (l : list (option A)) r i d :
  all_some l = Some r -> (i < length l)%nat -> nth i l None = Some (nth i r d).
Proof.
  intros H Hi. pose proof (all_some_length _ _ H) as HL. apply all_some_spec in H. rewrite <- H.
  rewrite (nth_indep _ None (Some d)) by (rewrite map_length; lia).
  apply map_nth.
Qed.

(* mapi_from *)
Lemma mapi_from_length {A B} (f : nat -> A -> B) k l : length (mapi_from f k l) = length l.
Proof. revert k; induction l; intro k; simpl; auto. Qed.
Lemma mapi_from_nth {A B} (f : nat -> A -> B) k l i da db :
  (i < length l)%nat -> nth i (mapi_from f k l) db = f (k + i)%nat (nth i l da).
Proof.
  revert k i; induction l as [|x l IH]; intros k [|i] H; simpl in *; try lia.
  - rewrite Nat.add_0_r. reflexivity.
  - rewrite IH by lia. f_equal. lia.
Qed.
Lemma mapi_from_In {A B} (f : nat -> A -> B) k l y :
  In y (mapi_from f k l) -> exists i x, (i < length l)%nat /\ nth_error l i = Some x /\ y = f (k + i)%nat x.
Proof.
  revert k; induction l as [|x l IH]; intro k; simpl; [tauto|].
  intros [H|H].
  - exists O, x. repeat split; [lia | rewrite Nat.add_0_r; auto].
  - destruct (IH _ H) as [i [x' [Hi [Hn E]]]]. exists (S i), x'. repeat split; [lia | assumption |].
    rewrite E. f_equal. lia.
Qed.

(* insertion of chunks is a permutation *)
Lemma insert_chunk_perm c l : Permutation (c :: l) (insert_chunk c l).
Proof.
  induction l as [|x l IH]; simpl; [apply Permutation_refl|].
  destruct (bytes_ltb _ _); [apply Permutation_refl|].
  eapply perm_trans; [apply perm_swap|]. apply perm_skip. exact IH.
Qed.
Lemma sort_chunks_perm l : Permutation l (sort_chunks l).
Proof.
  induction l as [|x l IH]; simpl; [constructor|].
  eapply perm_trans; [apply perm_skip; exact IH|]. apply insert_chunk_perm.
Qed.

Lemma insert_alias_perm x l : Permutation (x :: l) (insert_alias x l).
Proof.
  induction l as [|y l IH]; simpl; [apply Permutation_refl|].
  destruct (bytes_ltb _ _); [apply Permutation_refl|].
  eapply perm_trans; [apply perm_swap|]. apply perm_skip. exact IH.
Qed.
Lemma sort_alias_perm l : Permutation l (fold_right insert_alias [] l).
Proof.
  induction l as [|x l IH]; simpl; [constructor|].
  eapply perm_trans; [apply perm_skip; exact IH|]. apply insert_alias_perm.
Qed.

Lemma insert_sym_perm a x l : Permutation (x :: l) (insert_sym a x l).
Proof.
  induction l as [|y l IH]; simpl; [apply Permutation_refl|].
  destruct (sym_ltb _ _ _); [apply Permutation_refl|].
  eapply perm_trans; [apply perm_swap|]. apply perm_skip. exact IH.
Qed.
Lemma sort_sym_perm a l : Permutation l (fold_right (insert_sym a) [] l).
Proof.
  induction l as [|x l IH]; simpl; [constructor|].
  eapply perm_trans; [apply perm_skip; exact IH|]. apply insert_sym_perm.
Qed.

(* fold_left "append if new" *)
Lemma dedupe_gen_In (l acc : list nat) x :
  In x (fold_left (fun acc t => if memn t acc then acc else acc ++ [t]) l acc) <-> In x acc \/ In x l.
Proof.
  revert acc; induction l as [|y l IH]; intro acc; simpl; [tauto|].
  rewrite IH. destruct (memn y acc) eqn:E.
  - apply memn_In in E. split; [tauto|]. intros [H|[H|H]]; subst; auto.
  - rewrite in_app_iff. simpl. tauto.
Qed.
Lemma dedupe_In l x : In x (dedupe l) <-> In x l.
Proof. unfold dedupe. rewrite dedupe_gen_In. simpl. tauto. Qed.

Lemma dedupe_syms_gen_In (l acc : list sym) x :
  In x (fold_left (fun acc t => if mems t acc then acc else acc ++ [t]) l acc) <-> In x acc \/ In x l.
Proof.
  revert acc; induction l as [|y l IH]; intro acc; simpl; [tauto|].
  rewrite IH. destruct (mems y acc) eqn:E.
  - apply mems_In in E. split; [tauto|]. intros [H|[H|H]]; subst; auto.
  - rewrite in_app_iff. simpl. tauto.
Qed.
Lemma dedupe_syms_In l x : In x (dedupe_syms l) <-> In x l.
Proof. unfold dedupe_syms. rewrite dedupe_syms_gen_In. simpl. tauto. Qed.

Lemma NoDup_nth_inj {A} (l : list A) d i j :
  NoDup l -> (i < length l)%nat -> (j < length l)%nat -> nth i l d = nth j l d -> i = j.
Proof. intros H Hi Hj E. apply (proj1 (NoDup_nth l d) H); assumption. Qed.
