(* Model of renamer.ExportRenamer (/repo/internal/renamer/renamer.go:
   NextRenamedName, NextMinifiedName) and of
   ast.DefaultNameMinifierJS.NumberToMinifiedName (/repo/internal/ast/ast.go).
   Strings are byte lists.  The [used] map is an association list. *)
From V Require Import Common.Base.

(* strconv.Itoa on a non-negative number *)
Fixpoint digits (fuel : nat) (n : nat) (acc : bytes) : bytes :=
  match fuel with
  | O => acc
  | S k =>
    let acc' := (48 + Z.of_nat (n mod 10)) :: acc in
    if (n / 10 =? 0)%nat then acc' else digits k (n / 10) acc'
  end.
Definition itoa (n : nat) : bytes := digits (S n) n [].

Definition used_map := list (bytes * nat).
Fixpoint lookup_used (name : bytes) (u : used_map) : option nat :=
  match u with
  | [] => None
  | (k, v) :: r => if zlist_eqb name k then Some v else lookup_used name r
  end.
Fixpoint set_used (name : bytes) (v : nat) (u : used_map) : used_map :=
  match u with
  | [] => [(name, v)]
  | (k, w) :: r => if zlist_eqb name k then (k, v) :: r else (k, w) :: set_used name v r
  end.

(* for { tries++; name = prefix + strconv.Itoa(tries); if _, ok := used[name]; !ok { break } } *)
Fixpoint find_free (fuel : nat) (prefix : bytes) (tries : nat) (u : used_map) : option (bytes * nat) :=
  match fuel with
  | O => None
  | S k =>
    let tries' := S tries in
    let name := prefix ++ itoa tries' in
    match lookup_used name u with
    | None => Some (name, tries')
    | Some _ => find_free k prefix tries' u
    end
  end.

(* NextRenamedName.  Note (mirrors the Go code): after a collision the counter
   is stored under the NEW name, the prefix keeps its old counter. *)
Definition next_renamed (name : bytes) (u : used_map) : option (bytes * used_map) :=
  match lookup_used name u with
  | Some tries =>
    match find_free (S (length u)) name tries u with
    | Some (name', tries') => Some (name', set_used name' tries' u)
    | None => None
    end
  | None => Some (name, set_used name 1 u)
  end.

Fixpoint rename_from (names : list bytes) (u : used_map) : option (list bytes) :=
  match names with
  | [] => Some []
  | n :: r =>
    match next_renamed n u with
    | Some (a, u') => match rename_from r u' with Some l => Some (a :: l) | None => None end
    | None => None
    end
  end.
Definition rename_all (names : list bytes) : option (list bytes) := rename_from names [].

(* NumberToMinifiedName with DefaultNameMinifierJS *)
Definition az : bytes := map Z.of_nat (seq 97 26).
Definition AZ : bytes := map Z.of_nat (seq 65 26).
Definition d09 : bytes := map Z.of_nat (seq 48 10).
Definition head_chars : bytes := az ++ AZ ++ [95; 36].
Definition tail_chars : bytes := az ++ AZ ++ d09 ++ [95; 36].

Fixpoint min_tail (fuel : nat) (i : nat) : bytes :=
  match fuel with
  | O => []
  | S k =>
    match i with
    | O => []
    | S i' => nth (i' mod 64) tail_chars 0 :: min_tail k (i' / 64)
    end
  end.
Definition minified_name (i : nat) : bytes :=
  nth (i mod 54) head_chars 0 :: min_tail (S i) (i / 54).
