(* Totality: on a well-formed graph (record targets, part dependencies and user entry points
   are file indices) the model never runs out of fuel: split g <> None. *)
From V Require Import Common.Base C10.BitSet C10.Renamer C10.Split C10.BitSetProofs C10.RenamerProofs
  C10.ListLemmas C10.SplitProofs C10.OrderProofs C10.CrossProofs.
From Coq Require Import Permutation.

(* ------------------------------------------------------------------ *)
(* the layered closure terminates within n+1 layers *)
Section Closure.
Variable succ : nat -> list nat.
Variable ok : nat -> bool.
Variable n : nat.
Hypothesis bounded : forall f t, In t (succ f) -> ok t = true -> (t < n)%nat.

Lemma new_layer_gen seen l : forall acc,
  NoDup acc -> (forall t, In t acc -> ok t = true /\ ~ In t seen) ->
  let r := fold_left (fun acc t => if ok t && negb (memn t seen) && negb (memn t acc) then acc ++ [t] else acc) l acc in
  NoDup r /\ (forall t, In t r -> ok t = true /\ ~ In t seen) /\
  (forall t, In t acc \/ (In t l /\ ok t = true /\ ~ In t seen) -> In t r) /\
  (forall t, In t r -> In t acc \/ In t l).
Proof.
  induction l as [|y l IH]; intros acc ND HA; simpl.
  - split; [exact ND|]. split; [exact HA|]. split; [intros x [H|[[] _]]; exact H | intros x Hx; left; exact Hx].
  - destruct (ok y && negb (memn y seen) && negb (memn y acc)) eqn:E.
    + apply andb_true_iff in E as [E E3]. apply andb_true_iff in E as [E1 E2].
      apply negb_true_iff in E2, E3. apply memn_false in E2, E3.
      destruct (IH (acc ++ [y])) as [R1 [R2 [R3 R4]]].
      * apply nodup_app; [exact ND | constructor; [intros [] | constructor] |]. intros t Ht [<-|[]]. contradiction.
      * intros t Ht. apply in_app_or in Ht as [Ht|[<-|[]]]; [apply HA; exact Ht | split; assumption].
      * split; [exact R1|]. split; [exact R2|]. split.
        -- intros t [Ht|[[<-|Ht] Hc]]; apply R3; [left; apply in_or_app; left; exact Ht | left; apply in_or_app; right; left; reflexivity | right; split; assumption].
        -- intros t Ht. destruct (R4 t Ht) as [H|H]; [|right; right; exact H].
           apply in_app_or in H as [H|[<-|[]]]; [left; exact H | right; left; reflexivity].
    + destruct (IH acc ND HA) as [R1 [R2 [R3 R4]]].
      split; [exact R1|]. split; [exact R2|]. split.
      * intros t [Ht|[[<-|Ht] [Hok Hs]]]; [apply R3; left; exact Ht | | apply R3; right; auto].
        rewrite Hok in E. simpl in E. apply memn_false in Hs. rewrite Hs in E. simpl in E.
        apply negb_false_iff in E. apply memn_In in E. apply R3. left. exact E.
      * intros t Ht. destruct (R4 t Ht); [left | right; right]; assumption.
Qed.

Lemma new_layer_spec seen layer :
  let next := new_layer succ ok seen layer in
  NoDup next /\ (forall t, In t next -> ok t = true /\ ~ In t seen /\ In t (flat_map succ layer)) /\
  (forall f t, In f layer -> In t (succ f) -> ok t = true -> In t seen \/ In t next).
Proof.
  unfold new_layer.
  destruct (new_layer_gen seen (flat_map succ layer) [] (NoDup_nil _)) as [R1 [R2 [R3 R4]]]; [intros t []|].
  split; [exact R1|]. split.
  - intros t Ht. destruct (R2 t Ht) as [A B]. split; [exact A|]. split; [exact B|].
    destruct (R4 t Ht) as [[]|H]. exact H.
  - intros f t Hf Ht Hok. destruct (in_dec Nat.eq_dec t seen) as [Hs|Hs]; [left; exact Hs | right].
    apply R3. right. split; [apply in_flat_map; exists f; auto | auto].
Qed.

Definition bfs_inv (seen layer : list nat) (acc : list (nat * nat)) : Prop :=
  map fst acc = seen /\ NoDup seen /\ (forall x, In x seen -> (x < n)%nat) /\ incl layer seen /\
  (forall f, In f seen -> ~ In f layer -> forall t, In t (succ f) -> ok t = true -> In t seen).

Lemma bfs_closed : forall fuel seen layer d acc,
  bfs_inv seen layer acc -> (n < fuel + length seen)%nat ->
  let R := map fst (bfs fuel succ ok seen layer d acc) in
  forall f t, In f R -> In t (succ f) -> ok t = true -> In t R.
Proof.
  induction fuel as [|k IH]; intros seen layer d acc [I1 [I2 [I3 [I4 I5]]]] HF.
  - exfalso. simpl in HF.
    assert (incl seen (seq 0 n)) by (intros x Hx; apply in_seq; specialize (I3 x Hx); lia).
    pose proof (NoDup_incl_length I2 H) as L. rewrite seq_length in L. lia.
  - simpl. destruct (new_layer_spec seen layer) as [N1 [N2 N3]].
    destruct (new_layer succ ok seen layer) as [|y next] eqn:E.
    + simpl. rewrite I1. intros f t Hf Ht Hok.
      destruct (in_dec Nat.eq_dec f layer) as [Hl|Hl].
      * destruct (N3 f t Hl Ht Hok) as [H|[]]. exact H.
      * eapply I5; eauto.
    + apply IH.
      * change ((y, S d) :: map (fun t : nat => (t, S d)) next) with (map (fun t : nat => (t, S d)) (y :: next)).
        split; [rewrite map_app, I1, map_map; simpl; rewrite map_id; reflexivity|].
        split; [apply nodup_app; [exact I2 | exact N1 | intros x Hx Hc; destruct (N2 x Hc) as [_ [Hn _]]; contradiction]|].
        split.
        { intros x Hx. apply in_app_or in Hx as [Hx|Hx]; [apply I3; exact Hx|].
          destruct (N2 x Hx) as [Hok [_ Hfm]]. apply in_flat_map in Hfm as [f [_ Hfx]]. eapply bounded; eauto. }
        split; [intros x Hx; apply in_or_app; right; exact Hx|].
        intros f Hf Hnl t Ht Hok. apply in_app_or in Hf as [Hf|Hf]; [|contradiction].
        destruct (in_dec Nat.eq_dec f layer) as [Hl|Hl].
        -- destruct (N3 f t Hl Ht Hok) as [H|H]; apply in_or_app; [left | right]; exact H.
        -- apply in_or_app. left. eapply I5; eauto.
      * rewrite app_length. simpl. lia.
Qed.

Lemma closure_total roots : (forall x, In x roots -> ok x = true -> (x < n)%nat) ->
  exists r, closure (S n) succ ok roots = Some r.
Proof.
  intro HR. unfold closure.
  set (r0 := dedupe (filter ok roots)).
  set (r := bfs (S n) succ ok r0 r0 0 (map (fun t => (t, O)) r0)).
  assert (INV : bfs_inv r0 r0 (map (fun t => (t, O)) r0)).
  { split; [rewrite map_map; simpl; apply map_id|].
    split.
    { unfold r0, dedupe. generalize (filter ok roots). intro l.
      assert (G : forall l acc, NoDup acc -> NoDup (fold_left (fun acc t => if memn t acc then acc else acc ++ [t]) l acc)).
      { induction l0 as [|y l0 IH]; intros acc ND; simpl; [exact ND|].
        destruct (memn y acc) eqn:E; [apply IH; exact ND|]. apply IH. apply memn_false in E.
        apply nodup_app; [exact ND | constructor; [intros [] | constructor] |]. intros x Hx [<-|[]]. contradiction. }
      apply G. constructor. }
    split; [intros x Hx; apply (proj1 (dedupe_In _ _)) in Hx; apply filter_In in Hx as [Hx Hk]; apply HR; assumption|].
    split; [apply incl_refl|]. intros f0 Hf0 Hn. contradiction. }
  assert (C : closedb succ ok (map fst r) = true).
  { unfold closedb. apply forallb_forall. intros f Hf. apply forallb_forall. intros t Ht.
    destruct (ok t) eqn:Hok; [|reflexivity]. simpl. apply memn_In.
    assert (FU : (n < S n + length r0)%nat) by lia.
    exact (bfs_closed (S n) r0 r0 0 (map (fun t => (t, O)) r0) INV FU f t Hf Ht Hok). }
  fold r0. fold r. rewrite C. exists r. reflexivity.
Qed.
End Closure.

(* ------------------------------------------------------------------ *)
(* ExportRenamer always finds a free name *)
Definition undigits (l : bytes) : nat := fold_left (fun v d => (v * 10 + Z.to_nat (d - 48))%nat) l O.

Lemma digits_acc : forall fuel n acc, digits fuel n acc = digits fuel n [] ++ acc.
Proof.
  induction fuel as [|k IH]; intros n acc; cbn [digits]; [reflexivity|].
  destruct (n / 10 =? 0)%nat; [reflexivity|].
  rewrite (IH (n / 10)%nat ((48 + Z.of_nat (n mod 10)) :: acc)).
  rewrite (IH (n / 10)%nat [48 + Z.of_nat (n mod 10)]). rewrite <- app_assoc. reflexivity.
Qed.

Lemma undigits_digits : forall fuel n, (n < fuel)%nat -> undigits (digits fuel n []) = n.
Proof.
  induction fuel as [|k IH]; intros n Hn; [lia|]. cbn [digits].
  destruct (Nat.eqb_spec (n / 10) 0) as [E|E].
  - unfold undigits. cbn [fold_left]. replace (48 + Z.of_nat (n mod 10) - 48) with (Z.of_nat (n mod 10)) by lia.
    rewrite Nat2Z.id. pose proof (Nat.div_mod n 10). lia.
  - rewrite digits_acc. unfold undigits. rewrite fold_left_app. cbn [fold_left].
    fold (undigits (digits k (n / 10) [])). rewrite IH.
    + replace (48 + Z.of_nat (n mod 10) - 48) with (Z.of_nat (n mod 10)) by lia.
      rewrite Nat2Z.id. pose proof (Nat.div_mod n 10). lia.
    + assert (n / 10 < n)%nat by (apply Nat.div_lt; lia). lia.
Qed.

Lemma itoa_inj a b : itoa a = itoa b -> a = b.
Proof.
  unfold itoa. intro H. rewrite <- (undigits_digits (S a) a), <- (undigits_digits (S b) b) by lia.
  rewrite H. reflexivity.
Qed.

Lemma lookup_used_In name u : lookup_used name u <> None -> In name (map fst u).
Proof.
  induction u as [|[k v] u IH]; simpl; [congruence|].
  destruct (zlist_eqb name k) eqn:E; [intros _; left; symmetry; apply zlist_eqb_eq; exact E | intro H; right; apply IH; exact H].
Qed.

Lemma find_free_none : forall fuel prefix tries u, find_free fuel prefix tries u = None ->
  forall t, (tries < t <= tries + fuel)%nat -> lookup_used (prefix ++ itoa t) u <> None.
Proof.
  induction fuel as [|k IH]; intros prefix tries u H t Ht; [lia|]. simpl in H.
  destruct (lookup_used (prefix ++ itoa (S tries)) u) eqn:E; [|discriminate].
  destruct (Nat.eq_dec t (S tries)) as [->|Hne]; [rewrite E; discriminate|].
  apply (IH prefix (S tries) u H). lia.
Qed.

Lemma find_free_total prefix tries u : exists r, find_free (S (length u)) prefix tries u = Some r.
Proof.
  destruct (find_free (S (length u)) prefix tries u) as [r|] eqn:E; [exists r; reflexivity|]. exfalso.
  pose proof (find_free_none _ _ _ _ E) as N.
  set (cands := map (fun t => prefix ++ itoa t) (seq (S tries) (S (length u)))).
  assert (ND : NoDup cands).
  { apply nodup_map_in; [apply seq_NoDup|]. intros x y _ _ Exy. apply app_inv_head in Exy. apply itoa_inj. exact Exy. }
  assert (INC : incl cands (map fst u)).
  { intros x Hx. apply in_map_iff in Hx as [t [<- Ht]]. apply in_seq in Ht. apply lookup_used_In. apply N. lia. }
  pose proof (NoDup_incl_length ND INC) as L. unfold cands in L. rewrite !map_length, seq_length in L. lia.
Qed.

Lemma rename_from_total : forall names u, exists l, rename_from names u = Some l.
Proof.
  induction names as [|n names IH]; intro u; simpl; [exists []; reflexivity|].
  assert (exists a u', next_renamed n u = Some (a, u')) as [a [u' E]].
  { unfold next_renamed. destruct (lookup_used n u) as [tries|]; [|eexists; eexists; reflexivity].
    destruct (find_free_total n tries u) as [[name' t'] F]. rewrite F. eexists; eexists; reflexivity. }
  rewrite E. destruct (IH u') as [l R]. rewrite R. eexists; reflexivity.
Qed.

Lemma export_aliases_total g ex : exists r, export_aliases g ex = Some r /\ map fst r = ex.
Proof.
  destruct (export_aliases g ex) as [r|] eqn:E.
  - exists r. split; [reflexivity|]. apply export_aliases_nodup in E. tauto.
  - exfalso. unfold export_aliases in E. destruct (g_minify g); [discriminate|].
    destruct (rename_from_total (map (sym_name g) ex) []) as [l R]. unfold rename_all in E. rewrite R in E. discriminate.
Qed.

(* ------------------------------------------------------------------ *)
(* all_some of things that are all Some *)
Lemma all_some_total {A} (l : list (option A)) : (forall x, In x l -> x <> None) -> exists r, all_some l = Some r.
Proof.
  induction l as [|[x|] l IH]; intro H; simpl.
  - exists []. reflexivity.
  - destruct IH as [r R]; [intros y Hy; apply H; right; exact Hy|]. rewrite R. eexists; reflexivity.
  - exfalso. apply (H None); [left; reflexivity | reflexivity].
Qed.

Lemma lookup_alias_map_fst s l : In s (map fst l) -> lookup_alias s l <> None.
Proof.
  induction l as [|[x al] l IH]; simpl; [tauto|].
  intros [H|H]; destruct (sym_eqb s x) eqn:E; try discriminate.
  - subst. assert (sym_eqb s s = true) by (apply sym_eqb_eq; reflexivity). congruence.
  - apply IH. exact H.
Qed.

Lemma cross_chunk_total g a : exists xs, cross_chunk g a = Some xs.
Proof.
  unfold cross_chunk.
  set (raw := mapi_from (raw_imports g a) 0 (a_chunks a)).
  destruct (all_some_total (map (fun oi => export_aliases g (chunk_exports a raw oi)) (seq 0 (length (a_chunks a))))) as [exps EE].
  { intros x Hx. apply in_map_iff in Hx as [oi [<- _]]. destruct (export_aliases_total g (chunk_exports a raw oi)) as [r [R _]]. rewrite R. discriminate. }
  rewrite EE.
  assert (EX : forall oi, (oi < length (a_chunks a))%nat -> map fst (nth oi exps []) = chunk_exports a raw oi).
  { intros oi Hoi. pose proof (all_some_nth _ _ oi [] EE) as N. rewrite map_length, seq_length in N. specialize (N Hoi).
    rewrite (nth_indep _ None (export_aliases g (chunk_exports a raw 0))) in N by (rewrite map_length, seq_length; exact Hoi).
    rewrite (map_nth (fun oi => export_aliases g (chunk_exports a raw oi))) in N. rewrite seq_nth in N by exact Hoi. simpl in N.
    apply export_aliases_nodup in N. tauto. }
  apply all_some_total. intros x Hx. apply mapi_from_In in Hx as [ci [c [Hci [Hc ->]]]]. simpl.
  assert (Hraw : nth ci raw [] = raw_imports g a ci c).
  { unfold raw. rewrite (mapi_from_nth _ 0 (a_chunks a) ci dchunk [] Hci). simpl.
    apply nth_error_nth with (d := dchunk) in Hc. rewrite Hc. reflexivity. }
  destruct (all_some_total (map (fun p : nat * list sym =>
             match all_some (map (fun s => lookup_alias s (nth (fst p) exps [])) (snd p)) with
             | Some als => Some (mkImp false (fst p) (fold_right insert_alias [] als))
             | None => None
             end) (nth ci raw []))) as [st ST]; [|rewrite ST; discriminate].
  intros y Hy. apply in_map_iff in Hy as [[oi items] [<- Hp]]. simpl.
  destruct (all_some_total (map (fun s => lookup_alias s (nth oi exps [])) items)) as [als AL]; [|rewrite AL; discriminate].
  intros z Hz. apply in_map_iff in Hz as [s [<- Hs]].
  apply lookup_alias_map_fst.
  rewrite Hraw in Hp. pose proof (raw_imports_spec _ _ _ _ _ _ Hp) as [Hoi _].
  rewrite EX by exact Hoi. unfold chunk_exports.
  eapply Permutation_in; [apply sort_sym_perm|]. apply dedupe_syms_In.
  apply in_flat_map. exists (nth ci raw []). split.
  - apply nth_In. unfold raw. rewrite mapi_from_length. exact Hci.
  - apply in_flat_map. exists (oi, items). rewrite Hraw. split; [exact Hp|]. simpl. rewrite Nat.eqb_refl. exact Hs.
Qed.

(* ------------------------------------------------------------------ *)
(* well-formed graphs *)
Lemma wf_recs g f r : wf_graphb g = true -> In r (f_recs (getf g f)) -> (fst r < nfiles g)%nat.
Proof.
  unfold wf_graphb. intros W Hr. apply andb_true_iff in W as [W _]. apply andb_true_iff in W as [_ W].
  rewrite forallb_forall in W.
  destruct (Nat.ltb_spec f (nfiles g)) as [Hf|Hf]; [|rewrite getf_out in Hr by exact Hf; destruct Hr].
  specialize (W (getf g f) (nth_In _ _ Hf)). apply andb_true_iff in W as [W _]. rewrite forallb_forall in W.
  apply Nat.ltb_lt. apply W. exact Hr.
Qed.
Lemma wf_pdeps g f p t : wf_graphb g = true -> In p (f_parts (getf g f)) -> In t (p_deps p) -> (t < nfiles g)%nat.
Proof.
  unfold wf_graphb. intros W Hp Ht. apply andb_true_iff in W as [W _]. apply andb_true_iff in W as [_ W].
  rewrite forallb_forall in W.
  destruct (Nat.ltb_spec f (nfiles g)) as [Hf|Hf]; [|rewrite getf_out in Hp by exact Hf; destruct Hp].
  specialize (W (getf g f) (nth_In _ _ Hf)). apply andb_true_iff in W as [_ W]. rewrite forallb_forall in W.
  specialize (W p Hp). rewrite forallb_forall in W. apply Nat.ltb_lt. apply W. exact Ht.
Qed.
Lemma declared_bounded g s : is_declared g s = true -> (fst s < nfiles g)%nat.
Proof.
  unfold is_declared. intro H. destruct (Nat.ltb_spec (fst s) (nfiles g)) as [Hf|Hf]; [exact Hf|].
  rewrite getf_out in H by exact Hf. discriminate.
Qed.
Lemma part_deps_bounded g f p t : wf_graphb g = true -> In p (f_parts (getf g f)) ->
  In t (part_deps g (getf g f) p) -> (t < nfiles g)%nat.
Proof.
  intros W Hp Ht. unfold part_deps in Ht. apply in_app_or in Ht as [Ht|Ht]; [eapply wf_pdeps; eauto|].
  unfold sym_deps in Ht. apply in_map_iff in Ht as [s [<- Hs]]. apply filter_In in Hs as [_ Hd]. apply declared_bounded. exact Hd.
Qed.
Lemma export_deps_bounded g ents e t : In t (export_deps g ents e) -> (t < nfiles g)%nat.
Proof.
  unfold export_deps. destruct (memn e ents); [|intros []]. intro Ht.
  apply in_map_iff in Ht as [s [<- Hs]]. apply filter_In in Hs as [_ Hd]. apply declared_bounded. exact Hd.
Qed.
Lemma live_succ_bounded g ents f t : wf_graphb g = true -> In t (live_succ g ents f) -> (t < nfiles g)%nat.
Proof.
  intros W Ht. unfold live_succ in Ht. apply in_app_or in Ht as [Ht|Ht].
  - apply in_map_iff in Ht as [r [<- Hr]]. apply filter_In in Hr as [Hr _]. eapply wf_recs; eauto.
  - apply in_app_or in Ht as [Ht|Ht]; [|eapply export_deps_bounded; eauto].
    unfold f_ldeps in Ht. apply in_flat_map in Ht as [p [Hp Ht]]. apply filter_In in Hp as [Hp _].
    eapply part_deps_bounded; eauto.
Qed.
Lemma split_succ_bounded g ents f t : wf_graphb g = true -> In t (split_succ g ents f) -> (t < nfiles g)%nat.
Proof.
  intros W Ht. unfold split_succ in Ht. apply in_app_or in Ht as [Ht|Ht].
  - apply in_map_iff in Ht as [r [<- Hr]]. apply filter_In in Hr as [Hr _]. eapply wf_recs; eauto.
  - apply filter_In in Ht as [Ht _]. apply in_app_or in Ht as [Ht|Ht]; [|eapply export_deps_bounded; eauto].
    unfold f_deps in Ht. apply in_flat_map in Ht as [p [Hp Ht]]. eapply part_deps_bounded; eauto.
Qed.
Lemma entries_bounded g e : wf_graphb g = true -> In e (entries g) -> (e < nfiles g)%nat.
Proof.
  intros W He. unfold entries in He. apply in_app_or in He as [He|He].
  - unfold wf_graphb in W. apply andb_true_iff in W as [_ W]. rewrite forallb_forall in W. apply Nat.ltb_lt. apply W. exact He.
  - apply filter_In in He as [_ He]. apply andb_true_iff in He as [He _]. apply memn_In in He.
    unfold dyn_targets in He. apply in_flat_map in He as [f [_ He]]. apply in_map_iff in He as [r [<- Hr]].
    apply filter_In in Hr as [Hr _]. eapply wf_recs; eauto.
Qed.

Theorem analyse_total g : wf_graphb g = true -> exists a, analyse g = Some a.
Proof.
  intro W. unfold analyse.
  destruct (closure_total (live_succ g (entries g)) (fun _ => true) (nfiles g)
              (fun f t Ht _ => live_succ_bounded g (entries g) f t W Ht) (entries g)
              (fun x Hx _ => entries_bounded g x W Hx)) as [lv CL].
  rewrite CL.
  assert (LB : forall x, In x (map fst lv) -> (x < nfiles g)%nat).
  { intros x Hx. destruct (closure_sound _ _ _ _ _ x CL Hx) as [root [Hr HP]].
    induction HP as [y|y z w HP IH Hw _]; [apply entries_bounded; assumption | eapply live_succ_bounded; eauto]. }
  destruct (all_some_total (map (fun e => closure (S (nfiles g)) (split_succ g (entries g)) (fun t => memn t (map fst lv)) [e]) (entries g))) as [rs RS].
  { intros x Hx. apply in_map_iff in Hx as [e [<- _]].
    destruct (closure_total (split_succ g (entries g)) (fun t => memn t (map fst lv)) (nfiles g)
                (fun f t Ht _ => split_succ_bounded g (entries g) f t W Ht) [e]) as [r R].
    - intros x [<-|[]] Hk. apply LB. apply memn_In. exact Hk.
    - rewrite R. discriminate. }
  rewrite RS. eexists. reflexivity.
Qed.

Theorem split_total_all g : wf_graphb g = true -> exists r, split g = Some r.
Proof.
  intro W. unfold split. destruct (analyse_total g W) as [a A]. rewrite A.
  destruct (cross_chunk_total g a) as [xs X]. rewrite X. eexists. reflexivity.
Qed.
