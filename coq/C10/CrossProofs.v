(* Deepening round: every chunk has a non-empty entry-point set (hence no chunk
   imports from an entry chunk, full statement), and the cross-chunk imports
   computed by the model of computeCrossChunkDependencies are exact. *)
From V Require Import Common.Base C10.BitSet C10.Renamer C10.Split C10.BitSetProofs C10.RenamerProofs
  C10.ListLemmas C10.SplitProofs C10.OrderProofs.
From Coq Require Import Permutation.

(* ------------------------------------------------------------------ *)
(* (a) every live file is reached by some entry point *)
Lemma ldeps_sub_deps g fl t : In t (f_ldeps g fl) -> In t (f_deps g fl).
Proof.
  unfold f_ldeps, f_deps, live_parts. intro H. apply in_flat_map in H as [p [Hp Ht]].
  apply filter_In in Hp as [Hp _]. apply in_flat_map. exists p. auto.
Qed.

Lemma live_succ_split g ents y z : In z (live_succ g ents y) -> z = y \/ In z (split_succ g ents y).
Proof.
  unfold live_succ, split_succ. intro H. apply in_app_or in H as [H|H].
  - right. apply in_or_app. left. apply in_map_iff in H as [r [E Hr]]. apply filter_In in Hr as [Hr Hd].
    apply in_map_iff. exists r. split; [exact E|]. apply filter_In. split; [exact Hr|].
    unfold is_external_dynamic. apply negb_true_iff in Hd. rewrite Hd. reflexivity.
  - destruct (Nat.eq_dec z y) as [->|Hne]; [left; reflexivity | right].
    apply in_or_app. right. apply filter_In.
    split; [apply in_app_or in H as [H|H]; apply in_or_app; [left; apply ldeps_sub_deps; exact H | right; exact H]|].
    apply negb_true_iff. apply Nat.eqb_neq. exact Hne.
Qed.

Lemma live_has_bit g a f : analyse g = Some a -> is_live a f = true ->
  exists j, (j < length (a_entries a))%nat /\ HasBit (file_bits a f) j = true.
Proof.
  intros H Hl. destruct (analyse_inv _ _ H) as [_ [HE [_ [[lv [CL LV]] _]]]].
  unfold is_live in Hl. apply memn_In in Hl. rewrite LV in Hl.
  destruct (closure_sound _ _ _ _ _ f CL Hl) as [root [Hroot HP]].
  apply closure_spec in CL as [CC CR].
  rewrite <- HE in Hroot, CC, HP. destruct (In_nth _ _ O Hroot) as [j [Hj Ej]].
  exists j. split; [exact Hj|].
  apply (proj2 (bits_iff_reachable_lemma g a f j H Hj)). rewrite Ej.
  assert (Hrl : In root (map fst lv)) by (apply CR; [rewrite <- HE; exact Hroot | reflexivity]).
  (* transport the path, keeping "on the path => live" *)
  assert (G : forall r0 x, path (live_succ g (a_entries a)) (fun _ => true) r0 x -> In r0 (map fst lv) ->
              path (split_succ g (a_entries a)) (is_live a) r0 x /\ In x (map fst lv)).
  { intros r0 x P. induction P as [x0|x0 y z P IH Hz Hok]; intro Hr0; [split; [apply path_refl | exact Hr0]|].
    destruct (IH Hr0) as [IH1 IH2].
    assert (Hzl : In z (map fst lv)) by (eapply closedb_spec; [exact CC | exact IH2 | exact Hz | reflexivity]).
    split; [|exact Hzl].
    destruct (live_succ_split g (a_entries a) y z Hz) as [->|Hs]; [exact IH1|].
    eapply path_step; [exact IH1 | exact Hs |]. unfold is_live. rewrite LV. apply memn_In. exact Hzl. }
  apply (G root f HP Hrl).
Qed.

Lemma chunk_bits_nonempty g a c : analyse g = Some a -> In c (a_chunks a) ->
  exists b, (b < length (a_entries a))%nat /\ HasBit (c_bits c) b = true.
Proof.
  intros H Hc. destruct (chunk_bits_shape _ _ _ H Hc) as [[k [Hk [Ek _]]]|[_ [f [Hf Ef]]]].
  - exists k. split; [exact Hk|]. rewrite Ek. pose proof (length_New (length (a_entries a))).
    rewrite HasBit_SetBit by lia. rewrite Nat.eqb_refl. reflexivity.
  - rewrite Ef. apply lfiles_In in Hf as [_ Hl]. eapply live_has_bit; eauto.
Qed.

Theorem entry_chunk_no_importers_all g r i j bit e : split g = Some r ->
  let a := r_analysis r in
  sedge (r_cross r) i j -> c_entry (nth j (a_chunks a) dchunk) = Some (bit, e) -> False.
Proof.
  intros H a E HE. pose proof (deps_cover_holds g) as HD. pose proof (split_inv _ _ H) as [A X].
  destruct (sedge_spec _ _ _ _ _ A X HD E) as [Hi _].
  eapply (entry_no_importers_lemma g (r_analysis r)); eauto.
  apply (chunk_bits_nonempty g); [exact A | apply nth_In; exact Hi].
Qed.

(* ------------------------------------------------------------------ *)
(* (b) exactness of the cross-chunk imports *)
Lemma raw_imports_complete g a ci c s oi :
  In s (chunk_uses g c) -> chunk_of_sym g a s = Some oi -> oi <> ci ->
  exists items, In (oi, items) (raw_imports g a ci c) /\ In s items.
Proof.
  intros Hu Hs Hne. destruct (chunk_of_sym_spec _ _ _ _ Hs) as [_ [Hoi _]].
  set (items := filter (fun s => match chunk_of_sym g a s with Some x => (x =? oi)%nat | None => false end) (chunk_uses g c)).
  assert (Hin : In s items) by (apply filter_In; split; [exact Hu | rewrite Hs; apply Nat.eqb_refl]).
  exists items. split; [|exact Hin].
  unfold raw_imports. apply in_flat_map. exists oi. split; [apply in_seq; lia|].
  destruct (Nat.eqb_spec oi ci) as [->|_]; [contradiction|].
  fold items. destruct items as [|x rest]; [destruct Hin | left; reflexivity].
Qed.

Lemma raw_imports_items g a ci c oi items s : In (oi, items) (raw_imports g a ci c) -> In s items ->
  In s (chunk_uses g c) /\ chunk_of_sym g a s = Some oi.
Proof.
  unfold raw_imports. intros H Hs. apply in_flat_map in H as [o [Ho H]].
  destruct (Nat.eqb_spec o ci) as [->|Hne]; [destruct H|].
  set (items' := filter _ (chunk_uses g c)) in H.
  destruct items' as [|s0 rest] eqn:EI.
  - destruct (c_entry c) as [[bit e]|]; [|destruct H].
    destruct (HasBit _ bit); [|destruct H]. destruct H as [H|[]]. inversion H; subst. destruct Hs.
  - destruct H as [H|[]]. inversion H; subst. rewrite <- EI in Hs. unfold items' in Hs.
    apply filter_In in Hs as [Hu Hc]. split; [exact Hu|].
    destruct (chunk_of_sym g a s) as [x|]; [|discriminate]. apply Nat.eqb_eq in Hc. subst. reflexivity.
Qed.

Lemma raw_imports_fst_nodup g a ci c : NoDup (map fst (raw_imports g a ci c)).
Proof.
  unfold raw_imports.
  assert (G : forall (F : nat -> list (nat * list sym)) l, NoDup l ->
            (forall o p, In p (F o) -> fst p = o) -> (forall o, (length (F o) <= 1)%nat) ->
            NoDup (map fst (flat_map F l))).
  { intros F l ND HF HL. induction ND as [|o l Ho ND IH]; simpl; [constructor|].
    rewrite map_app. apply nodup_app; [| exact IH |].
    - specialize (HL o). destruct (F o) as [|p [|q rest]]; simpl in *; [constructor | constructor; [intros [] | constructor] | lia].
    - intros x Hx Hc. apply in_map_iff in Hx as [p [E Hp]]. apply HF in Hp. subst x.
      apply in_map_iff in Hc as [q [E Hq]]. apply in_flat_map in Hq as [o' [Ho' Hq]]. apply HF in Hq.
      rewrite Hp in E. rewrite E in Hq. subst o'. contradiction. }
  apply G; [apply seq_NoDup | |].
  - intros o p Hp. destruct (o =? ci)%nat; [destruct Hp|].
    destruct (filter _ (chunk_uses g c)).
    + destruct (c_entry c) as [[bit e]|]; [|destruct Hp]. destruct (HasBit _ bit); [|destruct Hp].
      destruct Hp as [<-|[]]. reflexivity.
    + destruct Hp as [<-|[]]. reflexivity.
  - intro o. destruct (o =? ci)%nat; [simpl; lia|].
    destruct (filter _ (chunk_uses g c)); [|simpl; lia].
    destruct (c_entry c) as [[bit e]|]; [|simpl; lia]. destruct (HasBit _ bit); simpl; lia.
Qed.

Lemma Forall2_in_l {A B} (R : A -> B -> Prop) l m x : Forall2 R l m -> In x l -> exists y, In y m /\ R x y.
Proof.
  intro H. induction H as [|x' y l m Hxy H IH]; intro Hx; [destruct Hx|].
  destruct Hx as [<-|Hx]; [exists y; split; [left; reflexivity | exact Hxy]|].
  destruct (IH Hx) as [y' [Hy' R']]. exists y'. split; [right; exact Hy' | exact R'].
Qed.

Lemma all_some_map_fwd {A B} (f : A -> option B) l r x : all_some (map f l) = Some r -> In x l ->
  exists y, f x = Some y /\ In y r.
Proof.
  revert r; induction l as [|x' l IH]; intros r H Hx; simpl in H; [destruct Hx|].
  destruct (f x') as [b|] eqn:E; [|discriminate].
  destruct (all_some (map f l)) as [r'|] eqn:ER; [|discriminate].
  inversion H; subst. destruct Hx as [<-|Hx]; [exists b; split; [exact E | left; reflexivity]|].
  destruct (IH _ eq_refl Hx) as [y [Ey Hy]]. exists y. split; [exact Ey | right; exact Hy].
Qed.

(* the symbols the code of a chunk references: the uses of the live parts of its files
   (after ImportsToBind) and, for an entry chunk, the entry point's export targets *)
Definition static_imports (x : cross) : list cimport := filter (fun im => negb (i_dynamic im)) (x_imports x).

Lemma static_imports_nth g a xs ci : cross_chunk g a = Some xs -> (ci < length (a_chunks a))%nat ->
  exists exps st, exps_of g a = Some exps /\ static_imports (nth ci xs dcross) = st /\
    x_exports (nth ci xs dcross) = nth ci exps [] /\
    map i_chunk st = map fst (raw_imports g a ci (nth ci (a_chunks a) dchunk)) /\
    Forall2 (fun p im => i_chunk im = fst p /\
               exists als, all_some (map (fun s => lookup_alias s (nth (fst p) exps [])) (snd p)) = Some als /\
                           Permutation als (i_items im))
            (raw_imports g a ci (nth ci (a_chunks a) dchunk)) st.
Proof.
  intros H Hci. destruct (cross_chunk_nth _ _ _ _ H Hci) as [exps [st [EE [N [M [F F2]]]]]].
  exists exps, st. split; [exact EE|]. split.
  - unfold static_imports. rewrite N. simpl. apply filter_dyn_app; [|exact F].
    apply Forall_forall. intros x Hx. apply in_map_iff in Hx as [o [E _]]. subst. reflexivity.
  - split; [rewrite N; reflexivity|]. split; assumption.
Qed.

Theorem cross_chunk_imports_exact_lemma g a xs ci : analyse g = Some a -> cross_chunk g a = Some xs ->
  (ci < length (a_chunks a))%nat ->
  let c := nth ci (a_chunks a) dchunk in
  let x := nth ci xs dcross in
  (* every referenced symbol is unbound (no top-level declaration in a live part), declared
     in this chunk, or imported under the exporting chunk's alias from the one chunk that declares it *)
  (forall s, In s (chunk_uses g c) ->
     chunk_of_sym g a s = None \/ chunk_of_sym g a s = Some ci \/
     exists oi im al, chunk_of_sym g a s = Some oi /\ oi <> ci /\ (oi < length (a_chunks a))%nat /\
       In im (static_imports x) /\ i_chunk im = oi /\ In al (i_items im) /\
       lookup_alias s (x_exports (nth oi xs dcross)) = Some al) /\
  (* nothing else is imported *)
  (forall im al, In im (static_imports x) -> In al (i_items im) ->
     exists s, In s (chunk_uses g c) /\ chunk_of_sym g a s = Some (i_chunk im) /\
       lookup_alias s (x_exports (nth (i_chunk im) xs dcross)) = Some al) /\
  (* one import statement per imported chunk *)
  NoDup (map i_chunk (static_imports x)).
Proof.
  intros A X Hci c x.
  destruct (static_imports_nth _ _ _ _ X Hci) as [exps [st [EE [ST [_ [M F2]]]]]].
  fold x in ST. fold c in M, F2.
  assert (EX : forall oi, (oi < length (a_chunks a))%nat -> x_exports (nth oi xs dcross) = nth oi exps []).
  { intros oi Hoi. destruct (exps_nth _ _ _ _ X Hoi) as [exps' [EE' E]]. rewrite EE in EE'. inversion EE'; subst. exact E. }
  split; [|split].
  - intros s Hs. destruct (chunk_of_sym g a s) as [oi|] eqn:ES; [|left; reflexivity]. right.
    destruct (Nat.eq_dec oi ci) as [->|Hne]; [left; reflexivity | right].
    destruct (raw_imports_complete g a ci c s oi Hs ES Hne) as [items [Hraw Hin]].
    destruct (chunk_of_sym_spec _ _ _ _ ES) as [_ [Hoi _]].
    destruct (Forall2_in_l _ _ _ _ F2 Hraw) as [im [Him [Ech [als [EA PA]]]]]. simpl in *.
    destruct (all_some_map_fwd _ _ _ s EA Hin) as [al [El Hal]].
    exists oi, im, al. repeat split; auto.
    + rewrite ST. exact Him.
    + eapply Permutation_in; eauto.
    + rewrite EX by exact Hoi. exact El.
  - intros im al Him Hal. rewrite ST in Him.
    destruct (Forall2_in_r _ _ _ _ F2 Him) as [[oi items] [Hp [E [als [EA PA]]]]]. simpl in *.
    apply (Permutation_in _ (Permutation_sym PA)) in Hal.
    destruct (all_some_map_In _ _ _ _ EA Hal) as [s [Hs El]].
    destruct (raw_imports_items _ _ _ _ _ _ _ Hp Hs) as [Hu Hc].
    destruct (raw_imports_spec _ _ _ _ _ _ Hp) as [Hoi _].
    exists s. rewrite E. repeat split; auto. rewrite EX by exact Hoi. exact El.
  - rewrite ST, M. apply raw_imports_fst_nodup.
Qed.

Theorem cross_chunk_imports_exact_all g r ci : split g = Some r ->
  let a := r_analysis r in
  (ci < length (a_chunks a))%nat ->
  let c := nth ci (a_chunks a) dchunk in
  let x := nth ci (r_cross r) dcross in
  (forall s, In s (chunk_uses g c) ->
     chunk_of_sym g a s = None \/ chunk_of_sym g a s = Some ci \/
     exists oi im al, chunk_of_sym g a s = Some oi /\ oi <> ci /\ (oi < length (a_chunks a))%nat /\
       In im (static_imports x) /\ i_chunk im = oi /\ In al (i_items im) /\
       lookup_alias s (x_exports (nth oi (r_cross r) dcross)) = Some al) /\
  (forall im al, In im (static_imports x) -> In al (i_items im) ->
     exists s, In s (chunk_uses g c) /\ chunk_of_sym g a s = Some (i_chunk im) /\
       lookup_alias s (x_exports (nth (i_chunk im) (r_cross r) dcross)) = Some al) /\
  NoDup (map i_chunk (static_imports x)).
Proof. intro H. apply split_inv in H as [A X]. simpl. intro Hci. apply (cross_chunk_imports_exact_lemma g); assumption. Qed.

(* what chunk_uses is: exactly the resolved uses of the live parts of the chunk's files
   plus the export targets of the entry point *)
Lemma chunk_uses_spec g c s : In s (chunk_uses g c) <->
  (exists f p u, In f (c_files c) /\ In p (f_parts (getf g f)) /\ p_live p = true /\ In u (p_uses p) /\
                 s = resolve_in (getf g f) u) \/
  (exists bit e, c_entry c = Some (bit, e) /\ In s (entry_exports g e)).
Proof.
  unfold chunk_uses. rewrite dedupe_syms_In, in_app_iff. split.
  - intros [H|H].
    + left. apply in_flat_map in H as [f [Hf H]]. unfold f_uses in H. apply in_map_iff in H as [u [E Hu]].
      apply in_flat_map in Hu as [p [Hp Hu]]. apply filter_In in Hp as [Hp Hl].
      exists f, p, u. auto.
    + right. destruct (c_entry c) as [[bit e]|]; [|destruct H]. exists bit, e. auto.
  - intros [[f [p [u [Hf [Hp [Hl [Hu E]]]]]]]|[bit [e [HE H]]]].
    + left. apply in_flat_map. exists f. split; [exact Hf|]. unfold f_uses. apply in_map_iff. exists u.
      split; [symmetry; exact E|]. apply in_flat_map. exists p. split; [apply filter_In; auto | exact Hu].
    + right. rewrite HE. exact H.
Qed.
