(* Evaluation order: ES module evaluation is a depth-first post-order walk over the
   static imports (in statement order).  [native_order] walks the source modules from an
   entry point, [split_order] walks the emitted chunks from the entry chunk (static
   cross-chunk import statements in statement order) and lists the files of every chunk in
   the order chosen by findImportedPartsInJSOrder (Split.chunk_order). *)
From V Require Import Common.Base C10.BitSet C10.Renamer C10.Split.

Definition static_targets (g : graph) (f : nat) : list nat :=
  map fst (filter (fun r => negb (snd r)) (f_recs (getf g f))).
Definition native_order (g : graph) (e : nat) : list nat :=
  postorder (S (nfiles g)) (static_targets g) [e].

Definition chunk_eval_order (r : result) (ci : nat) : list nat :=
  postorder (S (length (r_cross r))) (static_succ (r_cross r)) [ci].
Definition split_order (r : result) (ci : nat) : list nat :=
  flat_map (fun c => nth c (r_orders r) []) (chunk_eval_order r ci).

(* x occurs strictly before y *)
Definition before (x y : nat) (l : list nat) : Prop :=
  exists l1 l2 l3, l = l1 ++ [x] ++ l2 ++ [y] ++ l3.
Definition beforeb (x y : nat) (l : list nat) : bool :=
  memn x l && memn y l && (index_of x l <? index_of y l)%nat.
