(* The generated position of the builder specification is measured portion by
   portion ([adv] continued).  Here: measuring the concatenation gives the same
   result whenever the cut is clean, i.e. it is a character boundary of the
   concatenated text (it does not fall inside a UTF-8 sequence) and it does not
   separate a CR from the LF that follows it. *)
From V Require Import Common.Base Common.Utf8 C07.Vlq C07.SpecMap C07.Mappings C07.LineCol
  C07.MappingsProofs C07.LineColAux C07.LineColProofs C07.SpecBuilder C07.BuilderExact.

(* ---------------- decode_rune on a prefix ---------------- *)

Lemma decode_rune_prefix a b c w :
  a <> [] -> decode_rune (a ++ b) = (c, w) -> (w <= length a)%nat -> decode_rune a = (c, w).
Proof.
  intros Hne H Hw. destruct a as [|b0 a]; [congruence|]. clear Hne.
  cbn [app] in H. unfold decode_rune in *.
  destruct (b0 <? 128); [exact H|].
  destruct (in_range 194 223 b0).
  { destruct a as [|b1 a]; cbn [app] in H; [|exact H].
    destruct b as [|b1 b]; [exact H|].
    destruct (is_cont b1); [inversion H; subst; cbn [length] in Hw; lia|exact H]. }
  destruct (in_range 224 239 b0).
  { destruct a as [|b1 [|b2 a]]; cbn [app] in H; [| |exact H].
    - destruct b as [|b1 [|b2 b]]; try exact H.
      match type of H with (if ?g then _ else _) = _ => destruct g end;
        [inversion H; subst; cbn [length] in Hw; lia|exact H].
    - destruct b as [|b2 b]; [exact H|].
      match type of H with (if ?g then _ else _) = _ => destruct g end;
        [inversion H; subst; cbn [length] in Hw; lia|exact H]. }
  destruct (in_range 240 244 b0).
  { destruct a as [|b1 [|b2 [|b3 a]]]; cbn [app] in H; [| | |exact H].
    - destruct b as [|b1 [|b2 [|b3 b]]]; try exact H.
      match type of H with (if ?g then _ else _) = _ => destruct g end;
        [inversion H; subst; cbn [length] in Hw; lia|exact H].
    - destruct b as [|b2 [|b3 b]]; try exact H.
      match type of H with (if ?g then _ else _) = _ => destruct g end;
        [inversion H; subst; cbn [length] in Hw; lia|exact H].
    - destruct b as [|b3 b]; [exact H|].
      match type of H with (if ?g then _ else _) = _ => destruct g end;
        [inversion H; subst; cbn [length] in Hw; lia|exact H]. }
  exact H.
Qed.

(* an ASCII rune is its byte *)
Lemma decode_rune_ascii b0 r c w : decode_rune (b0 :: r) = (c, w) -> 0 <= c <= 127 -> c = b0.
Proof.
  intros H Hc. unfold decode_rune, is_cont, in_range, RuneError in H.
  destruct (b0 <? 128); [inversion H; reflexivity|].
  destruct ((194 <=? b0) && (b0 <=? 223)) eqn:E1.
  { destruct r as [|b1 r]; [inversion H; lia|].
    destruct ((128 <=? b1) && (b1 <=? 191)); inversion H; subst; lia. }
  destruct ((224 <=? b0) && (b0 <=? 239)) eqn:E2.
  { destruct r as [|b1 [|b2 r]]; try (inversion H; lia).
    destruct (b0 =? 224) eqn:E3; destruct (b0 =? 237) eqn:E4;
    match type of H with (if ?g then _ else _) = _ => destruct g eqn:E5 end;
      inversion H; subst; lia. }
  destruct ((240 <=? b0) && (b0 <=? 244)) eqn:E3.
  { destruct r as [|b1 [|b2 [|b3 r]]]; try (inversion H; lia).
    destruct (b0 =? 240) eqn:E4; destruct (b0 =? 244) eqn:E5;
    match type of H with (if ?g then _ else _) = _ => destruct g eqn:E6 end;
      inversion H; subst; lia. }
  inversion H; lia.
Qed.

(* ---------------- clean cuts ---------------- *)

(* the runes of [a ++ b] that start inside [a] end inside [a] *)
Fixpoint cut_ok (fuel : nat) (a b : bytes) : Prop :=
  match fuel with
  | O => a = []
  | S f => a = [] \/ ((snd (decode_rune (a ++ b)) <= length a)%nat /\ cut_ok f (skipn (snd (decode_rune (a ++ b))) a) b)
  end.

(* [a] does not end with a CR that [b] continues with LF *)
Definition no_crlf_split (a b : bytes) : Prop := forall a', a = a' ++ [13] -> next_lf b = false.

Lemma skipn_app_le {A} (w : nat) (a b : list A) : (w <= length a)%nat -> skipn w (a ++ b) = skipn w a ++ b.
Proof. intro H. rewrite skipn_app. replace (w - length a)%nat with 0%nat by lia. reflexivity. Qed.

Lemma no_crlf_skipn w a b : no_crlf_split a b -> no_crlf_split (skipn w a) b.
Proof.
  intros H a' E. apply (H (firstn w a ++ a')). rewrite <- app_assoc, <- E. symmetry. apply firstn_skipn.
Qed.

(* advance_runes does not look at offsets or at surplus fuel *)
Lemma advance_rf_irrel : forall f1 f2 l o1 o2 line col,
  (length l <= f1)%nat -> (length l <= f2)%nat ->
  advance_runes (runes_from f1 l o1) l line col = advance_runes (runes_from f2 l o2) l line col.
Proof.
  induction f1 as [|f1 IH]; intros f2 l o1 o2 line col H1 H2.
  - destruct l; [|cbn in H1; lia]. destruct f2; reflexivity.
  - destruct l as [|x r] eqn:El; [destruct f2; reflexivity|]. rewrite <- El in *.
    assert (Hne : l <> []) by (subst; discriminate).
    destruct f2 as [|f2]; [subst; cbn in H2; lia|].
    rewrite !runes_from_S by exact Hne.
    destruct (decode_rune l) as [c w] eqn:Ed. cbn [fst snd].
    destruct (decode_rune_facts l c w Hne Ed) as (Hw1 & Hw2 & _).
    rewrite !advance_cons. apply IH; rewrite skipn_length; lia.
Qed.

Lemma advance_concat : forall fa a b fab fb oa ob oab line col,
  (length a <= fa)%nat -> (length b <= fb)%nat -> (length (a ++ b) <= fab)%nat ->
  cut_ok fa a b -> no_crlf_split a b ->
  advance_runes (runes_from fab (a ++ b) oab) (a ++ b) line col =
  advance_runes (runes_from fb b ob) b
    (fst (advance_runes (runes_from fa a oa) a line col))
    (snd (advance_runes (runes_from fa a oa) a line col)).
Proof.
  induction fa as [|fa IH]; intros a b fab fb oa ob oab line col Ha Hb Hab Hcut Hns.
  - cbn [cut_ok] in Hcut. subst a. cbn [app runes_from advance_runes fst snd].
    apply advance_rf_irrel; assumption.
  - destruct a as [|x0 r0] eqn:Ea.
    { cbn [app runes_from advance_runes fst snd]. apply advance_rf_irrel; assumption. }
    rewrite <- Ea in *. assert (Hne : a <> []) by (subst; discriminate).
    cbn [cut_ok] in Hcut. destruct Hcut as [Hcut|[Hw Hcut]]; [congruence|].
    assert (Hne' : a ++ b <> []) by (subst a; discriminate).
    destruct fab as [|fab]; [subst a; cbn in Hab; lia|].
    rewrite (runes_from_S fab (a ++ b)) by exact Hne'.
    destruct (decode_rune (a ++ b)) as [c w] eqn:Ed. cbn [fst snd] in *.
    pose proof (decode_rune_prefix a b c w Hne Ed Hw) as Eda.
    rewrite (runes_from_S fa a) by exact Hne. rewrite Eda. cbn [fst snd].
    destruct (decode_rune_facts a c w Hne Eda) as (Hw1 & Hw2 & Hw3).
    rewrite !advance_cons. rewrite (skipn_app_le w a b Hw).
    (* the CRLF test sees the same thing *)
    assert (Hlf : is_newline c = true -> c = 13 -> next_lf (skipn w a ++ b) = next_lf (skipn w a)).
    { intros _ Hc. destruct (skipn w a) as [|y t] eqn:Es; [|reflexivity].
      cbn [app next_lf].
      (* a is the single byte 13 *)
      assert (Hw' : w = 1%nat) by (apply Hw3; lia).
      assert (Hla : length a = 1%nat).
      { pose proof (skipn_length w a) as Hl. rewrite Es in Hl. cbn [length] in Hl. lia. }
      destruct a as [|b0 [|? ?]]; cbn [length] in Hla; try lia.
      pose proof (decode_rune_ascii b0 [] c w Eda ltac:(lia)) as Hb0. subst b0 c.
      apply (Hns []). reflexivity. }
    assert (Hstep : sstep line col c (next_lf (skipn w a ++ b)) = sstep line col c (next_lf (skipn w a))).
    { unfold sstep. destruct (is_newline c) eqn:En; [|reflexivity].
      destruct (Z.eqb_spec c 13) as [E|E]; [rewrite (Hlf eq_refl E); reflexivity|reflexivity]. }
    rewrite Hstep.
    apply IH; try assumption.
    + rewrite skipn_length. lia.
    + rewrite app_length, skipn_length. rewrite app_length in Hab. lia.
    + apply no_crlf_skipn. exact Hns.
Qed.

(* a boundary of the concatenation is a clean UTF-8 cut *)
Lemma boundary_cut_ok : forall fa a b f i,
  (length a <= fa)%nat -> (length (a ++ b) <= f)%nat ->
  b = [] \/ In (i + Z.of_nat (length a)) (map roff (runes_from f (a ++ b) i)) ->
  cut_ok fa a b.
Proof.
  induction fa as [|fa IH]; intros a b f i Ha Hf Hb.
  - destruct a; [reflexivity|cbn in Ha; lia].
  - cbn [cut_ok]. destruct a as [|x0 r0] eqn:Ea; [left; reflexivity|]. right.
    rewrite <- Ea in *. assert (Hne : a <> []) by (subst; discriminate).
    assert (Hne' : a ++ b <> []) by (subst a; discriminate).
    destruct (decode_rune (a ++ b)) as [c w] eqn:Ed. cbn [snd].
    destruct (decode_rune_facts (a ++ b) c w Hne' Ed) as (Hw1 & Hw2 & _).
    destruct f as [|f]; [subst a; cbn in Hf; lia|].
    assert (Hla : (1 <= length a)%nat) by (subst a; cbn; lia).
    assert (Hwf : wf_runes (runes_from f (skipn w (a ++ b)) (i + Z.of_nat w)) (skipn w (a ++ b)) (i + Z.of_nat w)).
    { apply runes_from_wf. rewrite skipn_length. lia. }
    assert (Hw : (w <= length a)%nat).
    { destruct Hb as [->|Hin]; [rewrite app_nil_r in Hw2; exact Hw2|].
      rewrite (runes_from_S f (a ++ b)) in Hin by exact Hne'. rewrite Ed in Hin. cbn [fst snd map In roff] in Hin.
      destruct Hin as [Hin|Hin]; [lia|].
      pose proof (wf_runes_offsets _ _ _ _ Hwf Hin). lia. }
    split; [exact Hw|].
    apply (IH (skipn w a) b f (i + Z.of_nat w)).
    + rewrite skipn_length. lia.
    + rewrite app_length, skipn_length. rewrite app_length in Hf. lia.
    + destruct Hb as [Hb|Hin]; [left; exact Hb|]. right.
      rewrite (runes_from_S f (a ++ b)) in Hin by exact Hne'. rewrite Ed in Hin. cbn [fst snd map In roff] in Hin.
      destruct Hin as [Hin|Hin]; [lia|].
      rewrite (skipn_app_le w a b Hw) in Hin. rewrite skipn_length.
      replace (i + Z.of_nat w + Z.of_nat (length a - w)) with (i + Z.of_nat (length a)) by lia. exact Hin.
Qed.

(* the cut between [a] and [b] is clean *)
Definition clean_cut (a b : bytes) : Prop :=
  boundary (a ++ b) (Z.of_nat (length a)) /\ no_crlf_split a b.

Theorem adv_concat_all : forall p a b, clean_cut a b -> adv p (a ++ b) = adv (adv p a) b.
Proof.
  intros p a b [Hb Hns]. rewrite !adv_eq. unfold runes.
  assert (Hcut : cut_ok (length a) a b).
  { apply (boundary_cut_ok (length a) a b (length (a ++ b)) 0); try lia.
    destruct Hb as [Hb|Hb].
    - left. rewrite app_length in Hb. destruct b; [reflexivity|cbn [length] in Hb; lia].
    - right. exact Hb. }
  apply (advance_concat (length a) a b _ _ 0 0 0); try lia; assumption.
Qed.

(* ---------------- the builder specification on the concatenated output ---------------- *)

(* SpecBuilder.sp_event with the generated position read off the WHOLE output
   printed so far ([S] = the output measured before this call) *)
Definition sp_event_cat (text : bytes) (cover : bool) (w : sw) (S : bytes) (loc name : Z) (delta : bytes)
  : sw * bytes * list op :=
  let newlen := w_len w + Z.of_nat (length (w_pend w)) + Z.of_nat (length delta) in
  if (loc =? w_ploc w) && ((w_plen w =? newlen) || (w_pname w =? name))
  then (mkSw (w_line w) (w_col w) (w_pend w ++ delta) (w_len w) (w_ploc w) (w_plen w) (w_pname w)
             (w_names w) (w_last w) (w_has w), S, [])
  else
    let t := w_pend w ++ delta in
    let lc := linecol_utf16 (S ++ t) (Z.of_nat (length (S ++ t))) in
    let k := Z.to_nat (fst lc - w_line w) in
    let cov := cover_op cover (w_last w) in
    let has' := match k with O => w_has w | S _ => false end in
    let orig := linecol_utf16 text loc in
    let ni := name_index (w_names w) name in
    (mkSw (fst lc) (snd lc) [] (w_len w + Z.of_nat (length t)) loc newlen name
          (fst ni) (Some orig) true,
     S ++ t,
     breaks_ops k cov (w_has w)
       ++ (if negb has' && (0 <? snd lc) then cov else [])
       ++ [OMap (snd lc) 0 (fst orig) (snd orig) (snd ni)]).

Fixpoint sp_run_cat (text : bytes) (cover : bool) (w : sw) (S : bytes) (evs : list (Z * Z * bytes)) : sw * bytes * list op :=
  match evs with
  | [] => (w, S, [])
  | (loc, name, delta) :: r =>
    let w1 := sp_event_cat text cover w S loc name delta in
    let w2 := sp_run_cat text cover (fst (fst w1)) (snd (fst w1)) r in
    (fst w2, snd w1 ++ snd w2)
  end.

Definition builder_spec_cat (text : bytes) (cover : bool) (evs : list (Z * Z * bytes)) (fin : bytes)
  : list op * list Z * Z :=
  let r := sp_run_cat text cover sw0 [] evs in
  let w := fst (fst r) in let S := snd (fst r) in
  let t := w_pend w ++ fin in
  let lc := linecol_utf16 (S ++ t) (Z.of_nat (length (S ++ t))) in
  (snd r ++ breaks_ops (Z.to_nat (fst lc - w_line w)) (cover_op cover (w_last w)) (w_has w), w_names w, snd lc).

(* every place where the builder stops measuring is a clean cut of the output *)
Fixpoint clean_run (w : sw) (S : bytes) (evs : list (Z * Z * bytes)) (fin : bytes) : Prop :=
  match evs with
  | [] => clean_cut S (w_pend w ++ fin)
  | (loc, name, delta) :: r =>
    let newlen := w_len w + Z.of_nat (length (w_pend w)) + Z.of_nat (length delta) in
    if (loc =? w_ploc w) && ((w_plen w =? newlen) || (w_pname w =? name))
    then clean_run (mkSw (w_line w) (w_col w) (w_pend w ++ delta) (w_len w) (w_ploc w) (w_plen w) (w_pname w)
                         (w_names w) (w_last w) (w_has w)) S r fin
    else clean_cut S (w_pend w ++ delta) /\
         clean_run (mkSw 0 0 [] (w_len w + Z.of_nat (length (w_pend w ++ delta))) loc newlen name [] None true)
                   (S ++ w_pend w ++ delta) r fin
  end.

(* clean_run only looks at the duplicate-suppression fields and the pending text *)
Definition dup_eq (w w' : sw) : Prop :=
  w_pend w = w_pend w' /\ w_len w = w_len w' /\ w_ploc w = w_ploc w' /\ w_plen w = w_plen w' /\ w_pname w = w_pname w'.

Lemma clean_run_ext : forall evs w w' S fin, dup_eq w w' -> clean_run w S evs fin -> clean_run w' S evs fin.
Proof.
  induction evs as [|[[loc name] delta] evs IH]; intros w w' S fin (E1 & E2 & E3 & E4 & E5) H; cbn [clean_run] in *.
  - rewrite <- E1. exact H.
  - rewrite <- E1, <- E2, <- E3, <- E4, <- E5.
    destruct (_ && _).
    + eapply IH; [|exact H]. unfold dup_eq. cbn. rewrite E1. repeat split; assumption.
    + destruct H as [H1 H2]. split; [exact H1|]. eapply IH; [|exact H2]. unfold dup_eq. cbn. repeat split; congruence.
Qed.

Lemma sp_run_cat_eq text cover : forall evs w S fin,
  (w_line w, w_col w) = adv (0, 0) S -> clean_run w S evs fin ->
  snd (sp_run_cat text cover w S evs) = snd (sp_run text cover w evs) /\
  fst (fst (sp_run_cat text cover w S evs)) = fst (sp_run text cover w evs) /\
  (w_line (fst (sp_run text cover w evs)), w_col (fst (sp_run text cover w evs)))
    = adv (0, 0) (snd (fst (sp_run_cat text cover w S evs))) /\
  clean_cut (snd (fst (sp_run_cat text cover w S evs))) (w_pend (fst (sp_run text cover w evs)) ++ fin).
Proof.
  induction evs as [|[[loc name] delta] evs IH]; intros w S fin Hpos Hc.
  - cbn [sp_run_cat sp_run fst snd clean_run] in *. split; [reflexivity|]. split; [reflexivity|]. split; [exact Hpos|exact Hc].
  - cbn [sp_run_cat sp_run clean_run] in *.
    unfold sp_event_cat at 1 2 3 4, sp_event at 1 2 3 4 5. unfold sp_event_cat, sp_event.
    destruct ((loc =? w_ploc w) && _) eqn:Edup.
    + cbn [fst snd]. match type of Hc with clean_run ?W _ _ _ => specialize (IH W S fin Hpos Hc) end. cbn [app]. exact IH.
    + destruct Hc as [Hcut Hc].
      assert (Hlc : linecol_utf16 (S ++ w_pend w ++ delta) (Z.of_nat (length (S ++ w_pend w ++ delta)))
                    = adv (w_line w, w_col w) (w_pend w ++ delta)).
      { change (linecol_utf16 (S ++ w_pend w ++ delta) (Z.of_nat (length (S ++ w_pend w ++ delta))))
          with (adv (0, 0) (S ++ w_pend w ++ delta)).
        rewrite (adv_concat_all (0, 0) S _ Hcut), <- Hpos. reflexivity. }
      rewrite Hlc. cbn [fst snd].
      set (lc := adv (w_line w, w_col w) (w_pend w ++ delta)) in *.
      match goal with |- context [sp_run text cover ?W evs] => set (w1 := W) end.
      assert (Hpos1 : (w_line w1, w_col w1) = adv (0, 0) (S ++ w_pend w ++ delta)).
      { subst w1. cbn [w_line w_col]. rewrite (adv_concat_all (0, 0) S _ Hcut), <- Hpos. fold lc. symmetry. apply surjective_pairing. }
      assert (Hc1 : clean_run w1 (S ++ w_pend w ++ delta) evs fin).
      { eapply clean_run_ext; [|exact Hc]. subst w1. unfold dup_eq. cbn. repeat split. }
      destruct (IH w1 _ fin Hpos1 Hc1) as (A & B & C).
      split; [rewrite A; reflexivity|]. split; [exact B|exact C].
Qed.

(* with clean cuts the specified chunk is the one whose generated positions are
   measured on the concatenated output *)
Theorem builder_spec_cat_eq : forall text cover evs fin,
  clean_run sw0 [] evs fin ->
  builder_spec_cat text cover evs fin = builder_spec text cover evs fin.
Proof.
  intros text cover evs fin Hc.
  destruct (sp_run_cat_eq text cover evs sw0 [] fin eq_refl Hc) as (A & B & C & D).
  unfold builder_spec_cat, builder_spec, sp_final.
  rewrite A, B.
  set (w := fst (sp_run text cover sw0 evs)) in *.
  set (S := snd (fst (sp_run_cat text cover sw0 [] evs))) in *.
  change (linecol_utf16 (S ++ w_pend w ++ fin) (Z.of_nat (length (S ++ w_pend w ++ fin))))
    with (adv (0, 0) (S ++ w_pend w ++ fin)).
  rewrite (adv_concat_all (0, 0) S _ D), <- C. reflexivity.
Qed.
