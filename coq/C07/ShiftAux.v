(* C07, Finalize proofs, part 1: the byte-level loop [fin_loop] of Shift.v run on
   the bytes emitted for an event list is the event-level function [fin_ops]
   (same control flow: cross / prevDelta / rewrite of the first mapping after a
   crossed boundary), re-emitted.  No arithmetic about shifts here; the
   declarative meaning of [fin_ops] is in ShiftProofs.v. *)
From V Require Import Common.Base C07.Vlq C07.SpecMap C07.Mappings C07.VlqProofs
  C07.MappingsProofs C07.JoinProofs C07.Shift.

(* ---------- shape of the emitted bytes ---------- *)

(* the fields of a segment after the generated-column field *)
Definition fields (p : state) (si ol oc : Z) (nm : option Z) : bytes :=
  encodeVLQ (si - sidx p) ++ encodeVLQ (ol - oline p) ++ encodeVLQ (oc - ocol p)
  ++ match nm with Some n => encodeVLQ (n - oname p) | None => [] end.

(* the comma that precedes the next segment (Finalize consumes it as a
   "trailing comma" of the current one) *)
Definition commaof (r : list op) : bytes :=
  match r with OMap _ _ _ _ _ :: _ => [COMMA] | ONull _ :: _ => [COMMA] | _ => [] end.

(* prevState after a mapping *)
Definition after (p : state) (gc si ol oc : Z) (nm : option Z) : state :=
  mkState (gline p) gc si ol oc (match nm with Some n => n | None => oname p end)
          (match nm with Some _ => true | None => false end).

Lemma sepb_0 : sepb 0 = false. Proof. reflexivity. Qed.
Lemma sepb_SEMI : sepb SEMI = false. Proof. reflexivity. Qed.

Lemma ebytes_map_gen gc si ol oc nm r lb p :
  exists lb', sepb lb' = true /\
  ebytes (OMap gc si ol oc nm :: r) lb p =
  (if sepb lb then [COMMA] else []) ++ encodeVLQ (gc - gcol p) ++ fields p si ol oc nm
  ++ ebytes r lb' (after p gc si ol oc nm).
Proof.
  destruct nm as [n|].
  - eexists. split; [|rewrite ebytes_map_some; unfold seg4, fields, after; rewrite <- !app_assoc; reflexivity].
    rewrite !app_assoc. apply sepb_last_enc.
  - eexists. split; [|rewrite ebytes_map_none; unfold seg4, fields, after; rewrite <- !app_assoc, app_nil_l; reflexivity].
    apply sepb_last_seg4.
Qed.

Lemma ebytes_sep ops lb p : sepb lb = true -> ebytes ops lb p = commaof ops ++ ebytes ops 0 p.
Proof.
  intro H. destruct ops as [|[|gc si ol oc nm|gc] r].
  - reflexivity.
  - rewrite !ebytes_newline. reflexivity.
  - destruct (ebytes_map_gen gc si ol oc nm r lb p) as (l1 & H1 & E1).
    destruct (ebytes_map_gen gc si ol oc nm r 0 p) as (l2 & H2 & E2).
    rewrite E1, E2, H, sepb_0. cbn [commaof app].
    rewrite (ebytes_lb r l1 l2) by congruence. reflexivity.
  - rewrite !ebytes_null, !null_seg_eq, H, sepb_0.
    rewrite (ebytes_lb r (last ((if true then [COMMA] else []) ++ encodeVLQ (gc - gcol p)) lb)
                         (last ((if false then [COMMA] else []) ++ encodeVLQ (gc - gcol p)) 0))
      by (rewrite !sepb_last_enc; reflexivity).
    reflexivity.
Qed.

(* a one-field segment with no separator pending *)
Lemma ebytes_null0 gc r lb p : sepb lb = false ->
  ebytes (ONull gc :: r) lb p = encodeVLQ (gc - gcol p) ++ commaof r ++ ebytes r 0 (null_state p gc).
Proof.
  intro H. rewrite ebytes_null, null_seg_eq, H.
  rewrite (ebytes_sep r _ (null_state p gc) (sepb_last_enc _ _ _)). reflexivity.
Qed.

(* with no separator pending: gen-col field, other fields, comma, rest *)
Lemma ebytes_map0 gc si ol oc nm r lb p : sepb lb = false ->
  ebytes (OMap gc si ol oc nm :: r) lb p =
  encodeVLQ (gc - gcol p) ++ fields p si ol oc nm ++ commaof r
  ++ ebytes r 0 (after p gc si ol oc nm).
Proof.
  intro H. destruct (ebytes_map_gen gc si ol oc nm r lb p) as (l1 & H1 & E1).
  rewrite E1, H, (ebytes_sep r l1) by exact H1. reflexivity.
Qed.

Lemma ebytes_newline0 r lb p : ebytes (ONewline :: r) lb p = SEMI :: ebytes r 0 (nl_state p).
Proof. rewrite ebytes_newline. f_equal. apply ebytes_lb. reflexivity. Qed.

(* what follows a segment: nothing, ';...' , or ',' *)
Definition tail_ok (C R : bytes) : Prop :=
  C = [COMMA] \/ (C = [] /\ (R = [] \/ exists t, R = SEMI :: t)).

Lemma tail_ok_ops r p : tail_ok (commaof r) (ebytes r 0 p).
Proof.
  destruct r as [|[|gc si ol oc nm|gc] r]; unfold tail_ok; cbn [commaof].
  - right. split; [reflexivity|]. left. reflexivity.
  - right. split; [reflexivity|]. right. rewrite ebytes_newline0. eexists. reflexivity.
  - left. reflexivity.
  - left. reflexivity.
Qed.

(* ---------- decoding facts ---------- *)

Lemma DecodeVLQ_stop x t : b64_index x = None -> DecodeVLQ (x :: t) = Some (0, x :: t).
Proof. intro H. unfold DecodeVLQ. cbn [dec_loop]. rewrite H. reflexivity. Qed.

Lemma b64_COMMA : b64_index COMMA = None. Proof. reflexivity. Qed.
Lemma b64_SEMI : b64_index SEMI = None. Proof. reflexivity. Qed.

Lemma enc_cons v : exists c t, encodeVLQ v = c :: t /\ c <> SEMI /\ c <> COMMA.
Proof.
  destruct (encodeVLQ_head v) as (d & t & Hd & E).
  destruct (char_not_sep d Hd) as (C1 & C2 & _).
  exists (b64_char d), t. unfold SEMI, COMMA. repeat split; assumption.
Qed.

Lemma skip_fields_enc a b c T :
  skip_fields (encodeVLQ a ++ encodeVLQ b ++ encodeVLQ c ++ T) =
  match T with
  | [] => Some []
  | _ => match DecodeVLQ T with None => None | Some (_, r5) => Some r5 end
  end.
Proof.
  unfold skip_fields. destruct (enc_cons a) as (x & t & E & _).
  destruct (encodeVLQ a ++ encodeVLQ b ++ encodeVLQ c ++ T) eqn:E2.
  { rewrite E in E2. discriminate. }
  rewrite <- E2. rewrite !vlq_roundtrip_all. reflexivity.
Qed.

Lemma skip_fields_ok p si ol oc nm C R : tail_ok C R ->
  skip_fields (fields p si ol oc nm ++ C ++ R) = Some (C ++ R).
Proof.
  intro HT. unfold fields. rewrite <- !app_assoc. rewrite skip_fields_enc.
  destruct nm as [n|].
  - destruct (enc_cons (n - oname p)) as (c' & t' & E' & _).
    destruct (encodeVLQ (n - oname p) ++ C ++ R) eqn:E2.
    { rewrite E' in E2. discriminate. }
    rewrite <- E2, vlq_roundtrip_all. reflexivity.
  - cbn [app]. destruct HT as [->|[-> [->|[t' ->]]]]; cbn [app].
    + rewrite DecodeVLQ_stop by apply b64_COMMA. reflexivity.
    + reflexivity.
    + rewrite DecodeVLQ_stop by apply b64_SEMI. reflexivity.
Qed.

Lemma skip_fields_tail C R : tail_ok C R -> skip_fields (C ++ R) = Some (C ++ R).
Proof.
  intros [->|[-> [->|[t ->]]]]; cbn [app]; [|reflexivity|].
  - unfold skip_fields. rewrite !DecodeVLQ_stop by apply b64_COMMA. reflexivity.
  - unfold skip_fields. rewrite !DecodeVLQ_stop by apply b64_SEMI. reflexivity.
Qed.

Lemma consumed_app (a b : bytes) : consumed (a ++ b) b = a.
Proof.
  unfold consumed. rewrite app_length.
  replace (length a + length b - length b)%nat with (length a) by lia.
  rewrite firstn_app, Nat.sub_diag, firstn_all. cbn [firstn]. apply app_nil_r.
Qed.

Lemma strip_comma C R : tail_ok C R ->
  match C ++ R return bytes with
  | x :: t => if x =? COMMA return bytes then t else C ++ R
  | [] => C ++ R
  end = R.
Proof.
  intros [->|[-> [->|[t ->]]]]; cbn [app]; try reflexivity.
Qed.

(* ---------- one iteration of the loop on a segment ---------- *)

Definition step_result (f : nat) (d : Z) (F C R run out : bytes) (gen : lc) (pd : Z)
                       (shifts : list shift) : option bytes :=
  let gen' := (fst gen, snd gen + d) in
  let '(shifts', crossed) := cross (length shifts) shifts gen' false in
  if negb crossed then fin_loop f R (run ++ encodeVLQ d ++ F ++ C) out gen' pd shifts'
  else match shifts' with
  | [] => None
  | sh :: _ =>
    if negb (fst (snd sh) =? fst gen') then fin_loop f R (run ++ encodeVLQ d ++ F ++ C) out gen' pd shifts'
    else if negb (fst (fst sh) =? fst (snd sh)) then None
    else
      let delta := snd (snd sh) - snd (fst sh) in
      fin_loop f R (F ++ C) (out ++ run ++ encodeVLQ (d + delta - pd)) gen' delta shifts'
  end.

Lemma fin_loop_step_gen f d F C R run out gen pd shifts : tail_ok C R ->
  skip_fields (F ++ C ++ R) = Some (C ++ R) ->
  fin_loop (S f) (encodeVLQ d ++ F ++ C ++ R) run out gen pd shifts =
  step_result f d F C R run out gen pd shifts.
Proof.
  intros HT HF. unfold step_result.
  destruct (enc_cons d) as (c & t & E & Hc & _).
  cbn [fin_loop]. rewrite E at 1. cbn [app].
  replace (c =? SEMI) with false by lia.
  replace (c :: t ++ F ++ C ++ R)
    with (encodeVLQ d ++ F ++ C ++ R) by (rewrite E; reflexivity).
  rewrite vlq_roundtrip_all. cbv beta iota.
  rewrite HF. cbv beta iota.
  destruct (cross (length shifts) shifts (fst gen, snd gen + d) false) as [shifts' crossed].
  rewrite (strip_comma _ _ HT).
  replace (encodeVLQ d ++ F ++ C ++ R)
    with ((encodeVLQ d ++ F ++ C) ++ R) by (rewrite <- !app_assoc; reflexivity).
  rewrite consumed_app.
  replace (F ++ C ++ R) with ((F ++ C) ++ R)
    by (rewrite <- app_assoc; reflexivity).
  rewrite consumed_app.
  reflexivity.
Qed.

Lemma fin_loop_step f d p si ol oc nm C R run out gen pd shifts : tail_ok C R ->
  fin_loop (S f) (encodeVLQ d ++ fields p si ol oc nm ++ C ++ R) run out gen pd shifts =
  step_result f d (fields p si ol oc nm) C R run out gen pd shifts.
Proof. intro HT. apply fin_loop_step_gen; [exact HT|apply skip_fields_ok, HT]. Qed.

Lemma fin_loop_step_null f d C R run out gen pd shifts : tail_ok C R ->
  fin_loop (S f) (encodeVLQ d ++ C ++ R) run out gen pd shifts =
  step_result f d [] C R run out gen pd shifts.
Proof. intro HT. exact (fin_loop_step_gen f d [] C R run out gen pd shifts HT (skip_fields_tail C R HT)). Qed.

(* ---------- the same loop on events ---------- *)

(* [fin_loop] at the level of events: [line] is generated.Lines, [pd] is
   prevShiftColumnDelta; the generated column is the mapping's own column. *)
Fixpoint fin_ops (ops : list op) (line pd : Z) (shifts : list shift) : option (list op) :=
  match ops with
  | [] => Some []
  | ONewline :: r => option_map (cons ONewline) (fin_ops r (line + 1) 0 shifts)
  | OMap gc si ol oc nm :: r =>
    let '(shifts', crossed) := cross (length shifts) shifts (line, gc) false in
    if negb crossed then option_map (cons (OMap (gc + pd) si ol oc nm)) (fin_ops r line pd shifts')
    else match shifts' with
    | [] => None
    | sh :: _ =>
      if negb (fst (snd sh) =? line)
      then option_map (cons (OMap (gc + pd) si ol oc nm)) (fin_ops r line pd shifts')
      else if negb (fst (fst sh) =? fst (snd sh)) then None
      else
        let delta := snd (snd sh) - snd (fst sh) in
        option_map (cons (OMap (gc + delta) si ol oc nm)) (fin_ops r line delta shifts')
    end
  | ONull gc :: r =>
    let '(shifts', crossed) := cross (length shifts) shifts (line, gc) false in
    if negb crossed then option_map (cons (ONull (gc + pd))) (fin_ops r line pd shifts')
    else match shifts' with
    | [] => None
    | sh :: _ =>
      if negb (fst (snd sh) =? line)
      then option_map (cons (ONull (gc + pd))) (fin_ops r line pd shifts')
      else if negb (fst (fst sh) =? fst (snd sh)) then None
      else
        let delta := snd (snd sh) - snd (fst sh) in
        option_map (cons (ONull (gc + delta))) (fin_ops r line delta shifts')
    end
  end.

Lemma fin_ops_commaof : forall ops line pd shifts ops',
  fin_ops ops line pd shifts = Some ops' -> commaof ops' = commaof ops.
Proof.
  intros [|[|gc si ol oc nm|gc] r] line pd shifts ops' H; cbn [fin_ops] in H.
  - inversion H. reflexivity.
  - destruct (fin_ops r (line + 1) 0 shifts); cbn in H; [|discriminate]. inversion H. reflexivity.
  - repeat match type of H with
    | context [let '(_, _) := ?x in _] => destruct x
    | context [if ?b then _ else _] => destruct b
    | context [match ?l with [] => _ | _ :: _ => _ end] => destruct l
    | context [option_map _ ?o] => destruct o; cbn [option_map] in H
    end; try discriminate; inversion H; reflexivity.
  - repeat match type of H with
    | context [let '(_, _) := ?x in _] => destruct x
    | context [if ?b then _ else _] => destruct b
    | context [match ?l with [] => _ | _ :: _ => _ end] => destruct l
    | context [option_map _ ?o] => destruct o; cbn [option_map] in H
    end; try discriminate; inversion H; reflexivity.
Qed.

(* q is p with the generated column moved by pd *)
Definition agree (p q : state) (pd : Z) : Prop :=
  gcol q = gcol p + pd /\ sidx q = sidx p /\ oline q = oline p /\ ocol q = ocol p /\ oname q = oname p.

Lemma agree_after p q pd pd' gc si ol oc nm :
  agree p q pd -> agree (after p gc si ol oc nm) (after q (gc + pd') si ol oc nm) pd'.
Proof.
  intros (H1 & H2 & H3 & H4 & H5). unfold agree, after. cbn [gcol sidx oline ocol oname].
  repeat split; try reflexivity. destruct nm; [reflexivity|exact H5].
Qed.

Lemma agree_null p q pd pd' gc : agree p q pd -> agree (null_state p gc) (null_state q (gc + pd')) pd'.
Proof.
  intros (H1 & H2 & H3 & H4 & H5). unfold agree, null_state. cbn [gcol sidx oline ocol oname].
  repeat split; try assumption; reflexivity.
Qed.

Lemma agree_nl p q pd : agree p q pd -> agree (nl_state p) (nl_state q) 0.
Proof.
  intros (H1 & H2 & H3 & H4 & H5). unfold agree, nl_state. cbn [gcol sidx oline ocol oname].
  repeat split; assumption.
Qed.

Lemma fields_agree p q pd si ol oc nm : agree p q pd -> fields q si ol oc nm = fields p si ol oc nm.
Proof. intros (H1 & H2 & H3 & H4 & H5). unfold fields. rewrite H2, H3, H4, H5. reflexivity. Qed.

Lemma ebytes_length_map gc si ol oc nm r lb p : sepb lb = false ->
  (length (ebytes r 0 (after p gc si ol oc nm)) < length (ebytes (OMap gc si ol oc nm :: r) lb p))%nat.
Proof.
  intro H. rewrite (ebytes_map0 _ _ _ _ _ _ _ _ H), !app_length.
  destruct (enc_cons (gc - gcol p)) as (c & t & E & _). rewrite E. cbn [length]. lia.
Qed.

(* the emitted bytes of the shifted segment, split the way the loop writes them *)
Lemma ebytes_shifted gc si ol oc nm r r' p q pd delta :
  agree p q pd -> commaof r' = commaof r ->
  ebytes (OMap (gc + delta) si ol oc nm :: r') 0 q =
  encodeVLQ ((gc - gcol p) + delta - pd) ++ fields p si ol oc nm ++ commaof r
  ++ ebytes r' 0 (after q (gc + delta) si ol oc nm).
Proof.
  intros Ha Hc. rewrite (ebytes_map0 _ _ _ _ _ _ _ _ sepb_0), (fields_agree p q pd), Hc by exact Ha.
  destruct Ha as (H1 & _). rewrite H1.
  replace (gc + delta - (gcol p + pd)) with (gc - gcol p + delta - pd) by lia. reflexivity.
Qed.

Lemma ebytes_length_null gc r lb p : sepb lb = false ->
  (length (ebytes r 0 (null_state p gc)) < length (ebytes (ONull gc :: r) lb p))%nat.
Proof.
  intro H. rewrite (ebytes_null0 _ _ _ _ H), !app_length.
  destruct (enc_cons (gc - gcol p)) as (c & t & E & _). rewrite E. cbn [length]. lia.
Qed.

Lemma ebytes_shifted_null gc r r' p q pd delta :
  agree p q pd -> commaof r' = commaof r ->
  ebytes (ONull (gc + delta) :: r') 0 q =
  encodeVLQ ((gc - gcol p) + delta - pd) ++ commaof r ++ ebytes r' 0 (null_state q (gc + delta)).
Proof.
  intros Ha Hc. rewrite (ebytes_null0 _ _ _ _ sepb_0), Hc.
  destruct Ha as (H1 & _). rewrite H1.
  replace (gc + delta - (gcol p + pd)) with (gc - gcol p + delta - pd) by lia. reflexivity.
Qed.

Theorem fin_loop_ops : forall ops f run out line pd shifts p q,
  (length (ebytes ops 0 p) < f)%nat -> agree p q pd ->
  fin_loop f (ebytes ops 0 p) run out (line, gcol p) pd shifts =
  option_map (fun ops' => out ++ run ++ ebytes ops' 0 q) (fin_ops ops line pd shifts).
Proof.
  induction ops as [|o ops IH]; intros f run out line pd shifts p q Hf Ha.
  - destruct f as [|f]; [cbn in Hf; lia|]. cbn. rewrite app_nil_r. reflexivity.
  - destruct f as [|f]; [lia|].
    destruct o as [|gc si ol oc nm|gc].
    + (* ';' *)
      rewrite ebytes_newline0 in Hf |- *. cbn [length] in Hf.
      cbn [fin_loop fin_ops]. replace (SEMI =? SEMI) with true by reflexivity.
      cbn [fst snd].
      change (line + 1, 0) with (line + 1, gcol (nl_state p)).
      rewrite (IH f (run ++ [SEMI]) out (line + 1) 0 shifts (nl_state p) (nl_state q))
        by (try lia; apply (agree_nl p q pd); exact Ha).
      destruct (fin_ops ops (line + 1) 0 shifts) as [ops'|]; cbn [option_map]; [|reflexivity].
      rewrite ebytes_newline0, <- !app_assoc. reflexivity.
    + (* a segment *)
      pose proof (ebytes_length_map gc si ol oc nm ops 0 p sepb_0) as Hlen.
      rewrite (ebytes_map0 _ _ _ _ _ _ _ _ sepb_0).
      rewrite fin_loop_step by apply tail_ok_ops.
      unfold step_result. cbn [fin_ops fst snd].
      replace (gcol p + (gc - gcol p)) with gc by lia.
      destruct (cross (length shifts) shifts (line, gc) false) as [shifts' crossed].
      change (line, gc) with (line, gcol (after p gc si ol oc nm)).
      destruct (negb crossed).
      { rewrite (IH f _ out line pd shifts' (after p gc si ol oc nm) (after q (gc + pd) si ol oc nm))
          by (try lia; apply (agree_after p q pd); exact Ha).
        destruct (fin_ops ops line pd shifts') as [ops'|] eqn:E; cbn [option_map]; [|reflexivity].
        rewrite (ebytes_shifted gc si ol oc nm ops ops' p q pd pd Ha (fin_ops_commaof _ _ _ _ _ E)).
        replace (gc - gcol p + pd - pd) with (gc - gcol p) by lia.
        rewrite <- !app_assoc. reflexivity. }
      destruct shifts' as [|sh tl]; [reflexivity|].
      destruct (negb (fst (snd sh) =? line)).
      { rewrite (IH f _ out line pd (sh :: tl) (after p gc si ol oc nm) (after q (gc + pd) si ol oc nm))
          by (try lia; apply (agree_after p q pd); exact Ha).
        destruct (fin_ops ops line pd (sh :: tl)) as [ops'|] eqn:E; cbn [option_map]; [|reflexivity].
        rewrite (ebytes_shifted gc si ol oc nm ops ops' p q pd pd Ha (fin_ops_commaof _ _ _ _ _ E)).
        replace (gc - gcol p + pd - pd) with (gc - gcol p) by lia.
        rewrite <- !app_assoc. reflexivity. }
      destruct (negb (fst (fst sh) =? fst (snd sh))); [reflexivity|].
      cbv zeta.
      set (delta := snd (snd sh) - snd (fst sh)).
      rewrite (IH f _ _ line delta (sh :: tl) (after p gc si ol oc nm) (after q (gc + delta) si ol oc nm))
        by (try lia; apply (agree_after p q pd); exact Ha).
      destruct (fin_ops ops line delta (sh :: tl)) as [ops'|] eqn:E; cbn [option_map]; [|reflexivity].
      rewrite (ebytes_shifted gc si ol oc nm ops ops' p q pd delta Ha (fin_ops_commaof _ _ _ _ _ E)).
      rewrite <- !app_assoc. reflexivity.
    + (* a one-field segment *)
      pose proof (ebytes_length_null gc ops 0 p sepb_0) as Hlen.
      rewrite (ebytes_null0 _ _ _ _ sepb_0).
      rewrite fin_loop_step_null by apply tail_ok_ops.
      unfold step_result. cbn [fin_ops fst snd app].
      replace (gcol p + (gc - gcol p)) with gc by lia.
      destruct (cross (length shifts) shifts (line, gc) false) as [shifts' crossed].
      change (line, gc) with (line, gcol (null_state p gc)).
      destruct (negb crossed).
      { rewrite (IH f _ out line pd shifts' (null_state p gc) (null_state q (gc + pd)))
          by (try lia; apply (agree_null p q pd); exact Ha).
        destruct (fin_ops ops line pd shifts') as [ops'|] eqn:E; cbn [option_map]; [|reflexivity].
        rewrite (ebytes_shifted_null gc ops ops' p q pd pd Ha (fin_ops_commaof _ _ _ _ _ E)).
        replace (gc - gcol p + pd - pd) with (gc - gcol p) by lia.
        rewrite <- !app_assoc. reflexivity. }
      destruct shifts' as [|sh tl]; [reflexivity|].
      destruct (negb (fst (snd sh) =? line)).
      { rewrite (IH f _ out line pd (sh :: tl) (null_state p gc) (null_state q (gc + pd)))
          by (try lia; apply (agree_null p q pd); exact Ha).
        destruct (fin_ops ops line pd (sh :: tl)) as [ops'|] eqn:E; cbn [option_map]; [|reflexivity].
        rewrite (ebytes_shifted_null gc ops ops' p q pd pd Ha (fin_ops_commaof _ _ _ _ _ E)).
        replace (gc - gcol p + pd - pd) with (gc - gcol p) by lia.
        rewrite <- !app_assoc. reflexivity. }
      destruct (negb (fst (fst sh) =? fst (snd sh))); [reflexivity|].
      cbv zeta.
      set (delta := snd (snd sh) - snd (fst sh)).
      rewrite (IH f _ _ line delta (sh :: tl) (null_state p gc) (null_state q (gc + delta)))
        by (try lia; apply (agree_null p q pd); exact Ha).
      destruct (fin_ops ops line delta (sh :: tl)) as [ops'|] eqn:E; cbn [option_map]; [|reflexivity].
      rewrite (ebytes_shifted_null gc ops ops' p q pd delta Ha (fin_ops_commaof _ _ _ _ _ E)).
      rewrite <- !app_assoc. reflexivity.
Qed.
