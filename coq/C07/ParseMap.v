(* C07 model, part 8: the order of the mappings js_parser.ParseSourceMap returns.
   The decoding loop itself (DecodeVLQUTF16, the per-section "mappings" loop
   with its index validation against the sources/names lengths, the section
   chaining) is the model of coq/C16/Vlq16.v, which is imported, not copied:
   [mloop_ns] below is that loop with the one extra variable of the Go code the
   C16 model leaves out -- needSort -- and [mloop_ns_erase] (ParseMapProofs.v)
   proves that forgetting the flag gives back C16's [mloop], so that C16's
   theorems (never panics, parsed_map_indices_in_range) are about this model too.
   Added here: needSort (a negative generated-column delta, or a section that
   starts before the position where the previous one ended) and the final
   sort.Stable(mappings) with mappingArray.Less. Executable definitions only. *)
From V Require Import Common.Base C16.Checked C16.Vlq16.

Inductive nresult :=
| NErr (code : Z) (value : Z) (errorLen : Z) (current : Z)
| NDone (st : mstate) (maps : list mapping) (needSort : bool).   (* maps in reverse order *)

Section Loop.
  Variable raw : list Z.
  Variables lineOffset columnOffset sourceOffset nameOffset sourcesLen namesLen : Z.

  Fixpoint mloop_ns (fuel : nat) (st : mstate) (current : Z) (acc : list mapping) (ns : bool) : res nresult :=
    match fuel with
    | O => Hang
    | S f =>
      if negb (current <? len raw) then Ok (NDone st acc ns) else
      c0 <- idx raw current ;;
      if c0 =? 59 then mloop_ns f (mkM (wrap_i32 (gl st + 1)) 0 (si st) (ol st) (oc st) (on st)) (current + 1) acc ns else
      t <- from raw current ;;
      '(d, i, ok) <- DecodeVLQUTF16 t ;;
      if negb ok then Ok (NErr 1 0 i current) else
      let ns := ns || (d <? 0) in
      let gc' := wrap_i32 (gc st + d) in
      if ((gl st =? lineOffset) && (gc' <? columnOffset)) || (gc' <? 0) then Ok (NErr 2 gc' i current) else
      let current := current + i in
      if current =? len raw then Ok (NDone (mkM (gl st) gc' (si st) (ol st) (oc st) (on st)) acc ns) else
      c1 <- idx raw current ;;
      if c1 =? 44 then mloop_ns f (mkM (gl st) gc' (si st) (ol st) (oc st) (on st)) (current + 1) acc ns else
      if c1 =? 59 then mloop_ns f (mkM (gl st) gc' (si st) (ol st) (oc st) (on st)) current acc ns else
      t <- from raw current ;;
      '(d, i, ok) <- DecodeVLQUTF16 t ;;
      if negb ok then Ok (NErr 3 0 i current) else
      let si' := wrap_i32 (si st + d) in
      if (si' <? sourceOffset) || (wrap_i32 (sourceOffset + wrap_i32 sourcesLen) <=? si') then Ok (NErr 4 si' i current) else
      let current := current + i in
      t <- from raw current ;;
      '(d, i, ok) <- DecodeVLQUTF16 t ;;
      if negb ok then Ok (NErr 5 0 i current) else
      let ol' := wrap_i32 (ol st + d) in
      if ol' <? 0 then Ok (NErr 6 ol' i current) else
      let current := current + i in
      t <- from raw current ;;
      '(d, i, ok) <- DecodeVLQUTF16 t ;;
      if negb ok then Ok (NErr 7 0 i current) else
      let oc' := wrap_i32 (oc st + d) in
      if oc' <? 0 then Ok (NErr 8 oc' i current) else
      let current := current + i in
      t <- from raw current ;;
      '(d, i, ok) <- DecodeVLQUTF16 t ;;
      let on' := if ok then wrap_i32 (on st + d) else on st in
      if ok && ((on' <? nameOffset) || (wrap_i32 (nameOffset + wrap_i32 namesLen) <=? on')) then Ok (NErr 9 on' i current) else
      let name := if ok then on' else -1 in
      let current := if ok then current + i else current in
      let st' := mkM (gl st) gc' si' ol' oc' on' in
      let m : mapping := (gl st, gc', si', ol', oc', name) in
      if current <? len raw then
        c2 <- idx raw current ;;
        if c2 =? 44 then mloop_ns f st' (current + 1) (m :: acc) ns
        else if negb (c2 =? 59) then
          _ <- slice raw current (current + 1) ;;
          Ok (NErr 10 c2 1 current)
        else mloop_ns f st' current (m :: acc) ns
      else mloop_ns f st' current (m :: acc) ns
    end.
End Loop.

(* mappingArray.Less *)
Definition less_m (a b : mapping) : bool :=
  let '(al, ac, _, _, _, _) := a in let '(bl, bc, _, _, _, _) := b in
  (al <? bl) || ((al =? bl) && (ac <=? bc)).

(* a stable sort by generated position (insertion from the right keeps the
   order of mappings with equal positions; Go's sort.Stable is given a Less
   that is not strict, so for EQUAL positions its result may differ in order:
   the correspondence check compares the two results as sorted permutations) *)
Fixpoint insert_pos (m : mapping) (l : list mapping) : list mapping :=
  match l with
  | [] => [m]
  | x :: r =>
    let '(ml, mc, _, _, _, _) := m in let '(xl, xc, _, _, _, _) := x in
    if (ml <? xl) || ((ml =? xl) && (mc <=? xc)) then m :: l else x :: insert_pos m r
  end.
Definition sort_pos (l : list mapping) : list mapping := fold_right insert_pos [] l.

Inductive presult_ns :=
| QErr (section_index : Z) (code value errorLen current : Z)
| QNil
| QMap (nsources nnames : Z) (maps : list mapping) (needSort : bool).   (* Mappings as returned *)

(* the section loop with generatedLine / generatedColumn / needSort carried across sections *)
Fixpoint psections_ns (secs : list section) (k : Z) (nsrc nnames : Z) (acc : list mapping)
                      (gline gcol : Z) (ns : bool) : res presult_ns :=
  match secs with
  | [] => Ok (if (nsrc =? 0) || (match acc with [] => true | _ => false end) then QNil
              else QMap nsrc nnames (if ns then sort_pos (rev acc) else rev acc) ns)
  | (lo, co, sl, nl, raw) :: rest =>
    if (len raw =? 0) || (sl =? 0) then psections_ns rest (k + 1) nsrc nnames acc gline gcol ns else
    let ns := ns || (lo <? gline) || ((lo =? gline) && (co <? gcol)) in
    let sourceOffset := wrap_i32 nsrc in
    let nameOffset := wrap_i32 nnames in
    r <- mloop_ns raw lo co sourceOffset nameOffset sl nl (S (length raw))
                  (mkM lo co sourceOffset 0 0 nameOffset) 0 acc ns ;;
    match r with
    | NErr code v el cur => Ok (QErr k code v el cur)
    | NDone st acc' ns' => psections_ns rest (k + 1) (nsrc + sl) (nnames + nl) acc' (gl st) (gc st) ns'
    end
  end.

Definition ParseMappingsOrdered (secs : list section) : res presult_ns :=
  psections_ns secs 0 0 0 [] 0 0 false.
