(* C07 model, part 9: the text of a source map as linker.generateSourceMapForChunk
   assembles it (the Joiner.AddString / AddBytes calls around the mappings):

     {\n  "version": 3,\n  "sources": [q, q, ...]
     [,\n  "sourceRoot": q]                      when options.SourceRoot != ""
     [,\n  "sourcesContent": [q, q, ...]]        unless options.ExcludeSourcesContent
     ,\n  "mappings": "<mappings>",\n  "names": [q, q, ...]\n}\n

   where every q is helpers.QuoteForJSON(.., options.ASCIIOnly): the sources
   after relativisation, the file contents (bundler: DataForSourceMap.
   QuotedContents[0], files without a nested source map), the builder's
   QuotedNames in join order.  [quote_for_json] is the model of coq/C19/Json.v
   (imported, tied to the code by C19's and C01's correspondence).
   Executable definitions only. *)
From V Require Import Common.Base C19.Json.

(* l[0] ", " l[1] ", " ... *)
Fixpoint join_cs (l : list bytes) : bytes :=
  match l with
  | [] => []
  | x :: r => match r with [] => x | _ => x ++ 44 :: 32 :: join_cs r end
  end.

Definition k_version : bytes := [118;101;114;115;105;111;110].
Definition k_sources : bytes := [115;111;117;114;99;101;115].
Definition k_sourceRoot : bytes := [115;111;117;114;99;101;82;111;111;116].
Definition k_sourcesContent : bytes := [115;111;117;114;99;101;115;67;111;110;116;101;110;116].
Definition k_mappings : bytes := [109;97;112;112;105;110;103;115].
Definition k_names : bytes := [110;97;109;101;115].

(* ,\n  "key":<space> *)
Definition member_head (first : bool) (k : bytes) : bytes :=
  (if first then [] else [44]) ++ [10; 32; 32; 34] ++ k ++ [34; 58; 32].

Definition sourcemap_text (ascii : bool) (sources : list bytes) (root : option bytes)
                          (contents : option (list bytes)) (mappings : bytes) (names : list bytes) : bytes :=
  [123] ++ member_head true k_version ++ [51]
  ++ member_head false k_sources ++ [91] ++ join_cs (map (quote_for_json ascii) sources) ++ [93]
  ++ (match root with
      | Some r => member_head false k_sourceRoot ++ quote_for_json ascii r
      | None => []
      end)
  ++ (match contents with
      | Some cs => member_head false k_sourcesContent ++ [91] ++ join_cs (map (quote_for_json ascii) cs) ++ [93]
      | None => []
      end)
  ++ member_head false k_mappings ++ [34] ++ mappings ++ [34]
  ++ member_head false k_names ++ [91] ++ join_cs (map (quote_for_json ascii) names) ++ [93]
  ++ [10; 125; 10].
