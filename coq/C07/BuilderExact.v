(* builder_mappings_exact: what the mappings of a ChunkBuilder chunk ARE.
   The model of Builder.v (AddSourceMapping / updateGeneratedLineAndColumn /
   appendMapping / GenerateChunk) is related, call by call, to the specification
   walk of SpecBuilder.v by an explicit invariant [Rel]. *)
From V Require Import Common.Base Common.Utf8 C07.Vlq C07.SpecMap C07.Mappings C07.LineCol C07.Builder
  C07.VlqProofs C07.MappingsProofs C07.JoinProofs C07.BuilderProofs C07.LineColAux C07.LineColProofs
  C07.SpecBuilder.

(* ------------------------------------------------------------------ *)
(* 1. updateGeneratedLineAndColumn in closed form                      *)
(* ------------------------------------------------------------------ *)

Definition set_gencol (b : bst) (c : Z) : bst :=
  mkBst (b_map b) (b_names b) (b_prev b) c (b_prevlen b) (b_len b) (b_prevloc b)
        (b_prevname b) (b_firstname b) (b_hasprev b) (b_linestart b) (b_cover b) (b_pending b).

(* the body of the line-break case *)
Definition nl_step (b : bst) : bst :=
  let b1 := if b_cover b && negb (b_linestart b) && b_hasprev b
            then append_raw b (cover_state b) else b in
  let p := b_prev b1 in
  let prev' := mkState (gline p + 1) 0 (sidx p) (oline p) (ocol p) (oname p) (has_name p) in
  mkBst (b_map b1 ++ [SEMI]) (b_names b1) prev' 0 (b_prevlen b1) (b_len b1) (b_prevloc b1)
        (b_prevname b1) (b_firstname b1) (b_hasprev b1) false (b_cover b1) (b_pending b1).

Fixpoint iter_nl (k : nat) (b : bst) : bst :=
  match k with O => b | S k' => iter_nl k' (nl_step b) end.

Lemma upd_runes_cons i c w r rest b :
  upd_runes ((i, c, w) :: r) rest b =
  if is_newline c then
    if (c =? 13) && next_lf (skipn w rest) then upd_runes r (skipn w rest) b
    else upd_runes r (skipn w rest) (nl_step b)
  else upd_runes r (skipn w rest) (set_gencol b (b_gencol b + u16w c)).
Proof. reflexivity. Qed.

Lemma set_gencol_id b : set_gencol b (b_gencol b) = b.
Proof. destruct b; reflexivity. Qed.

Lemma nl_step_gencol b c : nl_step (set_gencol b c) = nl_step b.
Proof.
  unfold nl_step, set_gencol. cbn [b_cover b_linestart b_hasprev].
  destruct (b_cover b && negb (b_linestart b) && b_hasprev b); [|reflexivity].
  unfold append_raw, cover_state. cbn [b_map b_prev b_firstname].
  destruct (appendMapping _ _ _ _) as [seg off]. reflexivity.
Qed.

Lemma iter_nl_gencol k b x c : set_gencol (iter_nl k (set_gencol b x)) c = set_gencol (iter_nl k b) c.
Proof.
  destruct k as [|k]; [reflexivity|]. cbn [iter_nl]. rewrite nl_step_gencol. reflexivity.
Qed.

Lemma next_lf_head rest : next_lf rest = true -> exists r, rest = 10 :: r.
Proof.
  destruct rest as [|x r]; cbn; [discriminate|]. intro H. exists r. f_equal. lia.
Qed.

Lemma upd_runes_eq : forall fuel rest i b line col,
  (length rest <= fuel)%nat ->
  (b_gencol b = col \/ next_lf rest = true) ->
  line <= fst (advance_runes (runes_from fuel rest i) rest line col) /\
  upd_runes (runes_from fuel rest i) rest b =
    set_gencol (iter_nl (Z.to_nat (fst (advance_runes (runes_from fuel rest i) rest line col) - line)) b)
               (snd (advance_runes (runes_from fuel rest i) rest line col)).
Proof.
  induction fuel as [|f IH]; intros rest i b line col Hlen Hc.
  - destruct rest; [|cbn in Hlen; lia]. cbn [runes_from advance_runes upd_runes fst snd].
    destruct Hc as [Hc|Hc]; [|discriminate]. rewrite Z.sub_diag. cbn [Z.to_nat iter_nl].
    split; [lia|]. rewrite <- Hc. symmetry. apply set_gencol_id.
  - destruct rest as [|x0 r0] eqn:Er.
    { cbn [runes_from advance_runes upd_runes fst snd].
      destruct Hc as [Hc|Hc]; [|discriminate]. rewrite Z.sub_diag. cbn [Z.to_nat iter_nl].
      split; [lia|]. rewrite <- Hc. symmetry. apply set_gencol_id. }
    rewrite <- Er in *. assert (Hne : rest <> []) by (subst; discriminate).
    rewrite runes_from_S by exact Hne.
    destruct (decode_rune rest) as [c w] eqn:Ed. cbn [fst snd].
    destruct (decode_rune_facts rest c w Hne Ed) as (Hw1 & Hw2 & _).
    assert (Hlen' : (length (skipn w rest) <= f)%nat) by (rewrite skipn_length; lia).
    rewrite upd_runes_cons, advance_cons. unfold sstep.
    destruct (is_newline c) eqn:Enl; [destruct ((c =? 13) && next_lf (skipn w rest)) eqn:Ecr|].
    + (* CR of CRLF *)
      cbn [fst snd]. apply IH; [exact Hlen'|]. right. apply andb_true_iff in Ecr. apply Ecr.
    + (* line break *)
      cbn [fst snd].
      destruct (IH (skipn w rest) (i + Z.of_nat w) (nl_step b) (line + 1) 0 Hlen' (or_introl eq_refl)) as [H1 H2].
      split; [lia|]. rewrite H2.
      set (L := fst (advance_runes _ _ (line + 1) 0)) in *.
      replace (Z.to_nat (L - line)) with (S (Z.to_nat (L - (line + 1)))) by lia.
      reflexivity.
    + (* ordinary character *)
      assert (Hg : b_gencol b = col).
      { destruct Hc as [Hc|Hc]; [exact Hc|]. destruct (next_lf_head _ Hc) as (r & Hr).
        rewrite Hr in Ed. cbn in Ed. inversion Ed; subst c. discriminate. }
      cbn [fst snd]. rewrite Hg.
      destruct (IH (skipn w rest) (i + Z.of_nat w) (set_gencol b (col + u16w c)) line (col + u16w c) Hlen' (or_introl eq_refl)) as [H1 H2].
      split; [exact H1|]. rewrite H2. apply iter_nl_gencol.
Qed.

Lemma advance_mono : forall rs rest line col, 0 <= col ->
  line <= fst (advance_runes rs rest line col) /\
  0 <= snd (advance_runes rs rest line col) /\
  (fst (advance_runes rs rest line col) = line -> col <= snd (advance_runes rs rest line col)).
Proof.
  induction rs as [|[[i c] w] r IH]; intros rest line col Hc.
  - cbn. lia.
  - rewrite advance_cons. unfold sstep. destruct (u16w_facts c) as (Hu & _).
    destruct (is_newline c); [destruct ((c =? 13) && _)|]; cbn [fst snd].
    + destruct (IH (skipn w rest) line (col + 1) ltac:(lia)) as (A & B & C). repeat split; try lia; intro E; specialize (C E); lia.
    + destruct (IH (skipn w rest) (line + 1) 0 ltac:(lia)) as (A & B & C). repeat split; lia.
    + destruct (IH (skipn w rest) line (col + u16w c) ltac:(lia)) as (A & B & C). repeat split; try lia; intro E; specialize (C E); lia.
Qed.

Lemma adv_eq p t : adv p t = advance_runes (runes t) t (fst p) (snd p).
Proof.
  unfold adv. pose proof (spec_at_end (runes t) t 0 (fst p) (snd p) (runes_wf t)) as H.
  rewrite Z.add_0_l in H. exact H.
Qed.

(* ------------------------------------------------------------------ *)
(* 2. the invariant                                                    *)
(* ------------------------------------------------------------------ *)

Record Rel0 (cover : bool) (b : bst) (w : sw) (ops : list op) : Prop := mkRel0 {
  r_emit : emit ops 0 state0 = (b_map b, last (b_map b) 0, b_prev b);
  r_sorted : sorted_ops ops 0;
  r_endcol : end_col ops 0 = gcol (b_prev b);
  r_le : gcol (b_prev b) <= b_gencol b;
  r_nonneg : 0 <= gcol (b_prev b);
  r_fno : b_firstname b = option_map Z.of_nat (first_name_off ops 0 state0 0);
  r_line : gline (b_prev b) = w_line w;
  r_col : b_gencol b = w_col w;
  r_pend : b_pending b = w_pend w;
  r_len : b_len b = w_len w;
  r_ploc : b_prevloc b = w_ploc w;
  r_plen : b_prevlen b = w_plen w;
  r_pname : b_prevname b = w_pname w;
  r_names : b_names b = w_names w;
  r_cover : b_cover b = cover;
  r_sidx : cover = true -> sidx (b_prev b) = 0;
  r_last : match w_last w with
           | Some (ol, oc) => b_hasprev b = true /\ oline (b_prev b) = ol /\ ocol (b_prev b) = oc
           | None => b_hasprev b = false
           end
}.

Definition Rel (cover : bool) (b : bst) (w : sw) (ops : list op) : Prop :=
  Rel0 cover b w ops /\ b_linestart b = w_has w /\ (w_has w = false -> gcol (b_prev b) = 0).

Lemma first_name_off_app : forall a b lb p base,
  first_name_off (a ++ b) lb p base =
  match first_name_off a lb p base with
  | Some x => Some x
  | None => let '(ba, lba, sa) := emit a lb p in first_name_off b lba sa (base + length ba)%nat
  end.
Proof.
  induction a as [|o a IH]; intros b lb p base.
  - cbn. rewrite Nat.add_0_r. reflexivity.
  - destruct o as [|gc si ol oc nm|gc]; cbn [app first_name_off emit].
    + rewrite IH. destruct (first_name_off a SEMI _ (S base)); [reflexivity|].
      destruct (emit a SEMI _) as [[ba lba] sa]. cbn [length].
      replace (S base + length ba)%nat with (base + S (length ba))%nat by lia. reflexivity.
    + destruct (next_state p gc si ol oc nm) as [cur prev'].
      destruct (appendMapping lb p cur false) as [seg off] eqn:Eapp. cbn [fst].
      destruct off as [o|]; [reflexivity|].
      rewrite IH. destruct (first_name_off a _ prev' _); [reflexivity|].
      destruct (emit a (last seg lb) prev') as [[ba lba] sa]. rewrite app_length.
      replace (base + length seg + length ba)%nat with (base + (length seg + length ba))%nat by lia. reflexivity.
    + rewrite IH. destruct (first_name_off a _ (null_state p gc) _); [reflexivity|].
      destruct (emit a _ (null_state p gc)) as [[ba lba] sa]. rewrite app_length.
      replace (base + length (null_seg lb p gc) + length ba)%nat with (base + (length (null_seg lb p gc) + length ba))%nat by lia.
      reflexivity.
Qed.

Definition set_last (w : sw) (ol oc : Z) : sw :=
  mkSw (w_line w) (w_col w) (w_pend w) (w_len w) (w_ploc w) (w_plen w) (w_pname w) (w_names w) (Some (ol, oc)) (w_has w).

Definition nm_id (nm : option Z) : Z := match nm with Some n => n | None => 0 end.
Definition nm_has (nm : option Z) : bool := match nm with Some _ => true | None => false end.

(* appendMappingWithoutRemapping of a mapping on the current line *)
Lemma rel0_append_raw_si cover b w ops gc si ol oc nm :
  Rel0 cover b w ops -> gcol (b_prev b) <= gc -> gc <= b_gencol b -> (cover = true -> si = 0) ->
  let b' := append_raw b (mkState (gline (b_prev b)) gc si ol oc (nm_id nm) (nm_has nm)) in
  Rel0 cover b' (set_last w ol oc) (ops ++ [OMap gc si ol oc nm]) /\
  gcol (b_prev b') = gc /\ b_linestart b' = b_linestart b.
Proof.
  intros [He Hs Hec Hle Hnn Hfno Hline Hcol Hpend Hlen Hploc Hplen Hpname Hnames Hcov Hsidx Hlast] Hge Hgc Hsi.
  set (cur := mkState (gline (b_prev b)) gc si ol oc (nm_id nm) (nm_has nm)).
  cbv zeta. unfold append_raw.
  destruct (appendMapping (last (b_map b) 0) (b_prev b) cur false) as [seg off] eqn:Eapp.
  assert (Hseg : seg = fst (appendMapping (last (b_map b) 0) (b_prev b) cur false)) by (rewrite Eapp; reflexivity).
  unfold set_map.
  split; [|split; [|reflexivity]].
  2:{ cbn [b_prev]. subst cur. destruct nm; reflexivity. }
  assert (Hcur : next_state (b_prev b) gc si ol oc nm =
                 (cur, if has_name cur then cur
                       else mkState (gline cur) (gcol cur) (sidx cur) (oline cur) (ocol cur) (oname (b_prev b)) false)).
  { unfold next_state. subst cur. destruct nm; reflexivity. }
  constructor; cbn [b_map b_prev b_gencol b_firstname b_pending b_len b_prevloc b_prevlen b_prevname b_names b_cover b_hasprev
                    w_line w_col w_pend w_len w_ploc w_plen w_pname w_names w_last set_last]; try assumption.
  - rewrite (emit_snoc _ _ _ _ _ He). cbn [emit]. rewrite Hcur, Eapp. cbn [fst app]. rewrite app_nil_r.
    f_equal. f_equal. rewrite last_app_seg; [reflexivity|]. rewrite Hseg. apply appendMapping_nonempty.
  - apply sorted_ops_snoc; [exact Hs|]. rewrite Hec. exact Hge.
  - rewrite end_col_snoc. subst cur. destruct nm; reflexivity.
  - subst cur. destruct nm; cbn; exact Hgc.
  - subst cur. destruct nm; cbn; lia.
  - rewrite first_name_off_app. rewrite <- Hfno || idtac.
    destruct (first_name_off ops 0 state0 0) as [x|] eqn:Ef.
    + rewrite Hfno. reflexivity.
    + rewrite Hfno, He. cbn [first_name_off]. rewrite Hcur, Eapp.
      unfold appendMapping in Eapp. subst cur. destruct nm as [n|]; cbn [has_name nm_has] in *.
      * inversion Eapp. cbn [option_map]. f_equal. lia.
      * inversion Eapp. reflexivity.
  - subst cur. destruct nm; cbn; exact Hline.
  - subst cur. destruct nm; cbn; exact Hsi.
  - subst cur. destruct nm; cbn; auto.
Qed.

Lemma rel0_append_raw cover b w ops gc ol oc nm :
  Rel0 cover b w ops -> gcol (b_prev b) <= gc -> gc <= b_gencol b ->
  let b' := append_raw b (mkState (gline (b_prev b)) gc 0 ol oc (nm_id nm) (nm_has nm)) in
  Rel0 cover b' (set_last w ol oc) (ops ++ [OMap gc 0 ol oc nm]) /\
  gcol (b_prev b') = gc /\ b_linestart b' = b_linestart b.
Proof. intros H H1 H2. apply rel0_append_raw_si; auto. Qed.

Definition w_nl (w : sw) : sw :=
  mkSw (w_line w + 1) 0 (w_pend w) (w_len w) (w_ploc w) (w_plen w) (w_pname w) (w_names w) (w_last w) false.

(* the ';' of a line break *)
Lemma rel0_newline cover b w ops :
  Rel0 cover b w ops ->
  let p := b_prev b in
  Rel cover (mkBst (b_map b ++ [SEMI]) (b_names b) (mkState (gline p + 1) 0 (sidx p) (oline p) (ocol p) (oname p) (has_name p))
                   0 (b_prevlen b) (b_len b) (b_prevloc b) (b_prevname b) (b_firstname b) (b_hasprev b) false (b_cover b) (b_pending b))
      (w_nl w) (ops ++ [ONewline]).
Proof.
  intros [He Hs Hec Hle Hnn Hfno Hline Hcol Hpend Hlen Hploc Hplen Hpname Hnames Hcov Hsidx Hlast] p.
  split; [|split; [reflexivity|reflexivity]].
  constructor; cbn [b_map b_prev b_gencol b_firstname b_pending b_len b_prevloc b_prevlen b_prevname b_names b_cover b_hasprev
                    w_line w_col w_pend w_len w_ploc w_plen w_pname w_names w_last w_nl gline gcol sidx oline ocol]; try assumption; try lia.
  - rewrite (emit_snoc _ _ _ _ _ He). cbn [emit]. f_equal. f_equal.
    rewrite last_app_nonempty by discriminate. reflexivity.
  - apply sorted_ops_snoc; [exact Hs|exact I].
  - rewrite end_col_snoc. reflexivity.
  - rewrite first_name_off_app. rewrite Hfno.
    destruct (first_name_off ops 0 state0 0); [reflexivity|]. rewrite He. reflexivity.
  - subst p. lia.
Qed.

Lemma cover_state_rel b w ops ol oc :
  Rel0 true b w ops -> w_last w = Some (ol, oc) ->
  cover_state b = mkState (gline (b_prev b)) 0 0 ol oc (nm_id None) (nm_has None).
Proof.
  intros H Hl. pose proof (r_last _ _ _ _ H) as HL. rewrite Hl in HL. destruct HL as (_ & <- & <-).
  unfold cover_state. rewrite (r_sidx _ _ _ _ H eq_refl). reflexivity.
Qed.

Lemma set_last_same w ol oc : w_last w = Some (ol, oc) -> set_last w ol oc = w.
Proof. destruct w; cbn. intros ->. reflexivity. Qed.

Lemma rel_nl cover b w ops :
  Rel cover b w ops ->
  Rel cover (nl_step b) (w_nl w) (ops ++ (if w_has w then [] else cover_op cover (w_last w)) ++ [ONewline]).
Proof.
  intros (H0 & Hls & Hz). unfold nl_step.
  pose proof (r_cover _ _ _ _ H0) as Hcov. pose proof (r_last _ _ _ _ H0) as HL.
  destruct (b_cover b && negb (b_linestart b) && b_hasprev b) eqn:Ec.
  - (* the cover mapping is inserted *)
    apply andb_true_iff in Ec as [Ec E3]. apply andb_true_iff in Ec as [E1 E2].
    rewrite Hcov in E1. clear Hcov. subst cover. rewrite Hls in E2.
    destruct (w_has w) eqn:Ehas; [discriminate|].
    destruct (w_last w) as [[ol oc]|] eqn:Elast; [|congruence].
    cbn [cover_op].
    rewrite (cover_state_rel _ _ _ ol oc H0 Elast).
    destruct (rel0_append_raw true b w ops 0 ol oc None H0) as (H1 & _ & _).
    + rewrite (Hz eq_refl). lia.
    + pose proof (r_le _ _ _ _ H0). pose proof (r_nonneg _ _ _ _ H0). lia.
    + rewrite (set_last_same w ol oc Elast) in H1.
      rewrite app_assoc. apply (rel0_newline _ _ _ _ H1).
  - assert (Hnil : (if w_has w then [] else cover_op cover (w_last w)) = []).
    { destruct (w_has w) eqn:Ehas; [reflexivity|]. unfold cover_op. destruct cover; [|reflexivity].
      destruct (w_last w) as [[ol oc]|]; [|reflexivity]. destruct HL as (Hp & _).
      rewrite Hcov, Hls, Hp in Ec. discriminate. }
    rewrite Hnil. apply (rel0_newline _ _ _ _ H0).
Qed.

Definition w_nls (k : nat) (w : sw) : sw :=
  mkSw (w_line w + Z.of_nat k) (match k with O => w_col w | S _ => 0 end) (w_pend w) (w_len w)
       (w_ploc w) (w_plen w) (w_pname w) (w_names w) (w_last w) (match k with O => w_has w | S _ => false end).

Lemma rel_iter_nl cover : forall k b w ops,
  Rel cover b w ops ->
  Rel cover (iter_nl k b) (w_nls k w) (ops ++ breaks_ops k (cover_op cover (w_last w)) (w_has w)).
Proof.
  induction k as [|k IH]; intros b w ops H.
  - cbn [iter_nl breaks_ops]. rewrite app_nil_r. unfold w_nls. rewrite Z.add_0_r. destruct w; exact H.
  - cbn [iter_nl breaks_ops].
    specialize (IH _ _ _ (rel_nl _ _ _ _ H)).
    replace (w_nls (S k) w) with (w_nls k (w_nl w)).
    2:{ unfold w_nls, w_nl. cbn [w_line w_col w_pend w_len w_ploc w_plen w_pname w_names w_last w_has].
        destruct k; f_equal; lia. }
    cbn [w_nl w_last w_has] in IH. rewrite <- !app_assoc in IH. cbn [app] in IH.
    exact IH.
Qed.

(* updateGeneratedLineAndColumn(output) *)
Definition w_scan (w : sw) (delta : bytes) : sw :=
  let t := w_pend w ++ delta in
  let lc := adv (w_line w, w_col w) t in
  mkSw (fst lc) (snd lc) [] (w_len w + Z.of_nat (length t)) (w_ploc w) (w_plen w) (w_pname w) (w_names w) (w_last w)
       (match Z.to_nat (fst lc - w_line w) with O => w_has w | S _ => false end).

Lemma rel_update_gen cover b w ops delta :
  Rel cover b w ops ->
  let lc := adv (w_line w, w_col w) (w_pend w ++ delta) in
  Rel cover (update_gen b delta) (w_scan w delta)
      (ops ++ breaks_ops (Z.to_nat (fst lc - w_line w)) (cover_op cover (w_last w)) (w_has w)).
Proof.
  intros H lc. subst lc. unfold update_gen, w_scan.
  pose proof H as (H0 & Hls & Hz).
  pose proof (r_pend _ _ _ _ H0) as Hpend. pose proof (r_col _ _ _ _ H0) as Hcol.
  rewrite <- Hpend.
  set (t := b_pending b ++ delta).
  destruct (upd_runes_eq (length t) t 0 b (w_line w) (w_col w) (le_n _) (or_introl Hcol)) as [Hge Heq].
  fold (runes t) in Hge, Heq. rewrite Heq.
  set (lc := adv (w_line w, w_col w) t).
  assert (Hlc : advance_runes (runes t) t (w_line w) (w_col w) = lc).
  { subst lc. rewrite adv_eq. reflexivity. }
  rewrite Hlc in *.
  set (k := Z.to_nat (fst lc - w_line w)) in *.
  pose proof (rel_iter_nl cover k b w ops H) as (K0 & Kls & Kz).
  assert (Hw0 : 0 <= w_col w).
  { pose proof (r_le _ _ _ _ H0). pose proof (r_nonneg _ _ _ _ H0). lia. }
  destruct (advance_mono (runes t) t (w_line w) (w_col w) Hw0) as (M1 & M2 & M3). rewrite Hlc in M1, M2, M3.
  destruct K0 as [He Hs Hec Hle Hnn Hfno Hline' Hcol' Hpend' Hlen Hploc Hplen Hpname Hnames Hcov Hsidx Hlast].
  cbn [w_nls w_line w_col w_pend w_len w_ploc w_plen w_pname w_names w_last w_has] in *.
  split; [|split].
  - constructor; cbn [set_gencol b_map b_prev b_gencol b_firstname b_pending b_len b_prevloc b_prevlen b_prevname b_names b_cover b_hasprev
                      w_line w_col w_pend w_len w_ploc w_plen w_pname w_names w_last]; try assumption; try reflexivity.
    + rewrite Hcol' in Hle. destruct k eqn:Ek; [|lia]. apply (Z.le_trans _ _ _ Hle). apply M3. lia.
    + lia.
    + rewrite (r_len _ _ _ _ H0). reflexivity.
  - cbn [set_gencol b_linestart w_has]. exact Kls.
  - cbn [set_gencol b_prev w_has]. exact Kz.
Qed.

(* ------------------------------------------------------------------ *)
(* 3. AddSourceMapping                                                 *)
(* ------------------------------------------------------------------ *)

Lemma name_pos_eq : forall id l i, name_pos id l i = index_of_name id l i.
Proof. induction l as [|x r IH]; intro i; cbn; [reflexivity|]. destruct (x =? id); [reflexivity|apply IH]. Qed.

Lemma Rel_eq cover b w w' ops ops' : Rel cover b w ops -> w = w' -> ops = ops' -> Rel cover b w' ops'.
Proof. intros H -> ->. exact H. Qed.

(* lineStartsWithMapping = true *)
Lemma rel_set_linestart cover b w ops :
  Rel0 cover b w ops ->
  Rel cover (mkBst (b_map b) (b_names b) (b_prev b) (b_gencol b) (b_prevlen b) (b_len b) (b_prevloc b)
                   (b_prevname b) (b_firstname b) (b_hasprev b) true (b_cover b) (b_pending b))
      (mkSw (w_line w) (w_col w) (w_pend w) (w_len w) (w_ploc w) (w_plen w) (w_pname w) (w_names w) (w_last w) true) ops.
Proof.
  intros [He Hs Hec Hle Hnn Hfno Hline Hcol Hpend Hlen Hploc Hplen Hpname Hnames Hcov Hsidx Hlast].
  split; [|split; [reflexivity|intro; discriminate]].
  constructor; cbn [b_map b_prev b_gencol b_firstname b_pending b_len b_prevloc b_prevlen b_prevname b_names b_cover b_hasprev
                    w_line w_col w_pend w_len w_ploc w_plen w_pname w_names w_last]; assumption.
Qed.

Section Event.
Variable text : bytes.
Variable cover : bool.

Lemma rel_event b w ops loc name delta :
  Rel cover b w ops -> boundary text loc ->
  exists b', AddSourceMapping (GenerateLineOffsetTables text) b loc name delta = Some b' /\
             Rel cover b' (fst (sp_event text cover w loc name delta)) (ops ++ snd (sp_event text cover w loc name delta)).
Proof.
  intros H Hb. unfold AddSourceMapping, sp_event.
  pose proof H as (H0 & Hls & Hz).
  set (newlen := w_len w + Z.of_nat (length (w_pend w)) + Z.of_nat (length delta)).
  assert (Hnl : b_len b + Z.of_nat (length (b_pending b)) + Z.of_nat (length delta) = newlen).
  { subst newlen. rewrite (r_len _ _ _ _ H0), (r_pend _ _ _ _ H0). reflexivity. }
  rewrite Hnl, (r_ploc _ _ _ _ H0), (r_plen _ _ _ _ H0), (r_pname _ _ _ _ H0).
  destruct ((loc =? w_ploc w) && ((w_plen w =? newlen) || (w_pname w =? name))) eqn:Edup.
  - (* suppressed as a duplicate *)
    eexists. split; [reflexivity|]. cbn [fst snd]. rewrite app_nil_r.
    destruct H0 as [He Hs Hec Hle Hnn Hfno Hline Hcol Hpend Hlen Hploc Hplen Hpname Hnames Hcov Hsidx Hlast].
    split; [|split; assumption].
    constructor; cbn [b_map b_prev b_gencol b_firstname b_pending b_len b_prevloc b_prevlen b_prevname b_names b_cover b_hasprev
                      w_line w_col w_pend w_len w_ploc w_plen w_pname w_names w_last]; try assumption; try reflexivity.
    rewrite Hpend. reflexivity.
  - rewrite (lineoffset_is_spec text loc Hb).
    destruct (linecol_utf16 text loc) as [ol oc] eqn:Eorig.
    eexists. split; [reflexivity|]. cbn [fst snd].
    (* b0: the three "previous call" fields are updated *)
    set (b0 := mkBst (b_map b) (b_names b) (b_prev b) (b_gencol b) newlen (b_len b) loc name
                     (b_firstname b) (b_hasprev b) (b_linestart b) (b_cover b) (b_pending b)).
    set (w0 := mkSw (w_line w) (w_col w) (w_pend w) (w_len w) loc newlen name (w_names w) (w_last w) (w_has w)).
    assert (R0 : Rel cover b0 w0 ops).
    { destruct H0 as [He Hs Hec Hle Hnn Hfno Hline Hcol Hpend Hlen Hploc Hplen Hpname Hnames Hcov Hsidx Hlast].
      split; [|split; assumption].
      constructor; cbn [b0 w0 b_map b_prev b_gencol b_firstname b_pending b_len b_prevloc b_prevlen b_prevname b_names b_cover b_hasprev
                        w_line w_col w_pend w_len w_ploc w_plen w_pname w_names w_last]; try assumption; reflexivity. }
    pose proof (rel_update_gen cover b0 w0 ops delta R0) as R1. cbv zeta in R1.
    cbn [w0 w_line w_col w_pend w_last w_has] in R1.
    set (lc := adv (w_line w, w_col w) (w_pend w ++ delta)) in *.
    set (k := Z.to_nat (fst lc - w_line w)) in *.
    set (b1 := update_gen b0 delta) in *.
    set (w1 := w_scan w0 delta) in *.
    set (ops1 := ops ++ breaks_ops k (cover_op cover (w_last w)) (w_has w)) in *.
    assert (Hw1 : w_col w1 = snd lc /\ w_line w1 = fst lc /\ w_last w1 = w_last w /\
                  w_has w1 = match k with O => w_has w | S _ => false end /\ w_names w1 = w_names w).
    { subst w1. unfold w_scan. cbn [w0 w_line w_col w_pend w_last w_has w_names]. fold lc. fold k. repeat split. }
    destruct Hw1 as (W1 & W2 & W3 & W4 & W5).
    (* b2: the cover mapping in front of a mapping that is not at column 0 *)
    set (b2 := if b_cover b1 && negb (b_linestart b1) && (0 <? b_gencol b1) && b_hasprev b1
               then append_raw b1 (cover_state b1) else b1).
    set (cov := if negb (match k with O => w_has w | S _ => false end) && (0 <? snd lc)
                then cover_op cover (w_last w) else []).
    assert (R2 : Rel0 cover b2 w1 (ops1 ++ cov) /\ gcol (b_prev b2) <= b_gencol b2).
    { destruct R1 as (R1 & Rls & Rz). subst b2 cov.
      rewrite (r_cover _ _ _ _ R1), Rls, (r_col _ _ _ _ R1), W4, W1.
      pose proof (r_last _ _ _ _ R1) as HL. rewrite W3 in HL.
      pose proof (r_le _ _ _ _ R1) as Hle1.
      destruct cover, (match k with O => w_has w | S _ => false end) eqn:Ehas, (0 <? snd lc) eqn:Epos,
               (w_last w) as [[ol' oc']|] eqn:Elast; cbn [andb negb cover_op];
        try (destruct HL as (-> & _)); try rewrite HL; cbn [andb]; rewrite ?app_nil_r; try (split; [exact R1|exact Hle1]).
      rewrite W4 in Rz.
      assert (Elast1 : w_last w1 = Some (ol', oc')) by (rewrite W3; reflexivity).
      rewrite (cover_state_rel _ _ _ ol' oc' R1 Elast1).
      destruct (rel0_append_raw true b1 w1 ops1 0 ol' oc' None R1) as (A & B & C).
      - rewrite (Rz eq_refl). lia.
      - pose proof (r_nonneg _ _ _ _ R1). lia.
      - rewrite (set_last_same w1 ol' oc' Elast1) in A. split; [exact A|].
        cbv zeta in B. unfold nm_id, nm_has in *. rewrite B.
        pose proof (r_le _ _ _ _ A) as Hle2. pose proof (r_nonneg _ _ _ _ A) as Hnn2. lia. }
    destruct R2 as [R2 Hle2].
    assert (Hg2 : b_gencol b2 = snd lc) by (rewrite (r_col _ _ _ _ R2); exact W1).
    assert (Hl2 : gline (b_prev b2) = fst lc) by (rewrite (r_line _ _ _ _ R2); exact W2).
    (* b3: the mapping itself *)
    assert (Hn2 : w_names w = b_names b2) by (rewrite (r_names _ _ _ _ R2); exact (eq_sym W5)).
    unfold name_index. rewrite name_pos_eq, Hn2. unfold append_named.
    destruct (name =? 0) eqn:En.
    + cbn [fst snd].
      destruct (rel0_append_raw cover b2 w1 (ops1 ++ cov) (b_gencol b2) ol oc None R2 Hle2 (Z.le_refl _)) as (A & _ & _).
      cbv zeta in A. unfold nm_id, nm_has in A.
      refine (Rel_eq _ _ _ _ _ _ (rel_set_linestart _ _ _ _ A) _ _).
      * unfold set_last. rewrite <- Hn2. subst w1 w0. unfold w_scan. reflexivity.
      * subst ops1. rewrite Hg2, <- !app_assoc. reflexivity.
    + destruct (index_of_name name (b_names b2) 0) as [idx|] eqn:Eidx; cbn [fst snd].
      * destruct (rel0_append_raw cover b2 w1 (ops1 ++ cov) (b_gencol b2) ol oc (Some idx) R2 Hle2 (Z.le_refl _)) as (A & _ & _).
        cbv zeta in A. unfold nm_id, nm_has in A.
        refine (Rel_eq _ _ _ _ _ _ (rel_set_linestart _ _ _ _ A) _ _).
        -- unfold set_last. rewrite <- Hn2. subst w1 w0. unfold w_scan. reflexivity.
        -- subst ops1. rewrite Hg2, <- !app_assoc. reflexivity.
      * set (b2' := mkBst (b_map b2) (b_names b2 ++ [name]) (b_prev b2) (b_gencol b2) (b_prevlen b2) (b_len b2)
                          (b_prevloc b2) (b_prevname b2) (b_firstname b2) (b_hasprev b2) (b_linestart b2) (b_cover b2) (b_pending b2)).
        set (w1' := mkSw (w_line w1) (w_col w1) (w_pend w1) (w_len w1) (w_ploc w1) (w_plen w1) (w_pname w1)
                         (b_names b2 ++ [name]) (w_last w1) (w_has w1)).
        assert (R2' : Rel0 cover b2' w1' (ops1 ++ cov)).
        { destruct R2 as [He Hs Hec Hle Hnn Hfno Hline Hcol Hpend Hlen Hploc Hplen Hpname Hnames Hcov Hsidx Hlast].
          constructor; cbn [b2' w1' b_map b_prev b_gencol b_firstname b_pending b_len b_prevloc b_prevlen b_prevname b_names b_cover b_hasprev
                            w_line w_col w_pend w_len w_ploc w_plen w_pname w_names w_last]; try assumption; reflexivity. }
        destruct (rel0_append_raw cover b2' w1' (ops1 ++ cov) (b_gencol b2) ol oc (Some (Z.of_nat (length (b_names b2)))) R2' Hle2 (Z.le_refl _)) as (A & _ & _).
        cbv zeta in A. unfold nm_id, nm_has in A.
        refine (Rel_eq _ _ _ _ _ _ (rel_set_linestart _ _ _ _ A) _ _).
        -- unfold set_last. subst w1' w1 w0. unfold w_scan. reflexivity.
        -- subst ops1. rewrite Hg2, <- !app_assoc. reflexivity.
Qed.

Lemma rel_run : forall evs b w ops,
  Rel cover b w ops -> Forall (fun e => boundary text (fst (fst e))) evs ->
  exists b', run_builder (GenerateLineOffsetTables text) b evs = Some b' /\
             Rel cover b' (fst (sp_run text cover w evs)) (ops ++ snd (sp_run text cover w evs)).
Proof.
  induction evs as [|[[loc name] delta] evs IH]; intros b w ops H Hall.
  - exists b. split; [reflexivity|]. cbn [sp_run fst snd]. rewrite app_nil_r. exact H.
  - inversion Hall as [|e l Hb Hall']; subst. cbn [fst] in Hb.
    destruct (rel_event b w ops loc name delta H Hb) as (b1 & E1 & R1).
    destruct (IH b1 _ _ R1 Hall') as (b' & E' & R').
    exists b'. cbn [run_builder]. rewrite E1. split; [exact E'|].
    cbn [sp_run fst snd]. rewrite app_assoc. exact R'.
Qed.
End Event.

Lemma Rel_init cover : Rel cover (bst0 cover) sw0 [].
Proof.
  split; [|split; reflexivity].
  constructor; cbn; try reflexivity; lia.
Qed.

(* ------------------------------------------------------------------ *)
(* 4. the theorem                                                      *)
(* ------------------------------------------------------------------ *)

(* For every original text, every list of AddSourceMapping calls at character
   boundaries of the text, every output text, with or without
   coverLinesWithoutMappings: the builder does not panic, and the chunk it
   returns is, byte for byte, the v3 encoding of the specified events; its name
   table, first-name offset, end state and final column are the specified ones
   and the events are sorted within each generated line. *)
Theorem builder_exact_all : forall text cover evs fin,
  Forall (fun e => boundary text (fst (fst e))) evs ->
  exists b, run_builder (GenerateLineOffsetTables text) (bst0 cover) evs = Some b /\
    let '(data, fno, names, endst, fcol, _) := GenerateChunk b fin in
    let '(ops, snames, scol) := builder_spec text cover evs fin in
    data = emit_bytes ops /\
    spec_decode data = Some (abs_of ops 0) /\
    fno = option_map Z.of_nat (first_name_off ops 0 state0 0) /\
    names = snames /\ fcol = scol /\
    endst = snd (emit ops 0 state0) /\
    sorted_ops ops 0 /\ end_col ops 0 <= fcol.
Proof.
  intros text cover evs fin Hall.
  destruct (rel_run text cover evs _ _ _ (Rel_init cover) Hall) as (b & Erun & R).
  exists b. split; [exact Erun|].
  cbn [app] in R.
  unfold GenerateChunk, builder_spec, sp_final.
  set (r := sp_run text cover sw0 evs) in *.
  pose proof (rel_update_gen cover b (fst r) (snd r) fin R) as (R' & _ & _). cbv zeta in R'.
  cbn [fst snd].
  destruct R' as [He Hs Hec Hle Hnn Hfno Hline Hcol Hpend Hlen Hploc Hplen Hpname Hnames Hcov Hsidx Hlast].
  set (ops := snd r ++ breaks_ops _ _ _) in *.
  assert (Hdata : b_map (update_gen b fin) = emit_bytes ops) by (unfold emit_bytes; rewrite He; reflexivity).
  repeat split.
  - exact Hdata.
  - rewrite Hdata. apply mappings_roundtrip_all.
  - exact Hfno.
  - exact Hnames.
  - exact Hcol.
  - rewrite He. reflexivity.
  - exact Hs.
  - rewrite Hec. exact Hle.
Qed.
