From V Require Import Common.Base C07.Vlq C07.SpecMap C07.Mappings C07.MappingsProofs.
(* non-vacuity / sanity: concrete values *)
Example enc_ex : map encodeVLQ [0; 1; -1; 15; 16; -16; 123456] =
  [[65]; [67]; [68]; [101]; [103; 66]; [104; 66]; [103; 107; 120; 72]].
Proof. vm_compute. reflexivity. Qed.
Example emit_ex :
  emit_bytes [OMap 0 0 0 0 None; OMap 4 0 0 4 (Some 0); ONewline; OMap 2 1 3 0 None]
  = [65;65;65;65; 44; 73;65;65;73;65; 59; 69;67;71;74].
Proof. vm_compute. reflexivity. Qed.
