From V Require Import Common.Base Common.Utf8 C07.LineCol C07.Builder C07.Vlq C07.SpecMap C07.Mappings C07.MappingsProofs C07.FindProofs C07.JoinProofs C07.SpecBuilder C07.LineColProofs C07.JoinAll C07.JoinAllProofs C07.Pipeline C07.Shift C07.ShiftProofs C07.BuilderIn C07.BuilderInProofs C07.AdvConcat.
From V Require C16.Checked C16.Vlq16 C16.Vlq16Proofs C07.ParseMap C07.ParseMapProofs.
(* non-vacuity / sanity: concrete values *)
Example enc_ex : map encodeVLQ [0; 1; -1; 15; 16; -16; 123456] =
  [[65]; [67]; [68]; [101]; [103; 66]; [104; 66]; [103; 107; 120; 72]].
Proof. vm_compute. reflexivity. Qed.
Example emit_ex :
  emit_bytes [OMap 0 0 0 0 None; OMap 4 0 0 4 (Some 0); ONewline; OMap 2 1 3 0 None]
  = [65;65;65;65; 44; 73;65;65;73;65; 59; 69;67;71;74].
Proof. vm_compute. reflexivity. Qed.
Example find_ex :
  let ms := [mkMapping 0 0 0 0 0 None; mkMapping 0 5 0 1 2 (Some 1); mkMapping 2 3 1 0 0 None] in
  sorted_maps ms /\ Find ms 0 7 = Some (mkMapping 0 5 0 1 2 (Some 1)) /\ Find ms 1 0 = None.
Proof. cbn. unfold pos_le. cbn. repeat split; lia. Qed.
(* join: hypotheses satisfiable and the statement computes on a concrete chunk *)
Example join_ex :
  let ops := [ONewline; OMap 2 0 1 3 None; OMap 7 0 1 9 (Some 0); ONewline; OMap 0 0 2 0 (Some 1)] in
  let start := mkState 2 5 3 0 0 4 false in
  let prevEnd := mkState 0 11 2 8 1 3 true in
  AppendSourceMapChunk 65 prevEnd start (mkChunk (emit_bytes ops) (option_map Z.of_nat (first_name_off ops 0 state0 0)))
  = Some (ebytes (repeat ONewline 2 ++ rebase 5 3 4 true ops) 65 prevEnd)
  /\ first_name_off ops 0 state0 0 = Some 10%nat.
Proof. vm_compute. split; reflexivity. Qed.
(* the builder hypothesis is satisfiable: a run over a two-line text with a non-ASCII char *)
Example builder_ex :
  let text := [97; 195; 169; 98; 10; 99; 100] in
  exists b, run_builder (GenerateLineOffsetTables text) (bst0 true)
              [(0, 0, []); (3, 1, [120; 32]); (5, 0, [121; 10; 32; 32]); (6, 2, [122])] = Some b
            /\ b_map b = [65;65;65;65; 44; 69;65;65;69;65; 59; 65;65;65;65; 44; 69;65;67;70; 44; 67;65;65;67;67].
Proof. eexists. vm_compute. split; reflexivity. Qed.
(* builder_mappings_exact: the hypothesis holds for these calls (all locs are
   character boundaries of "a é b LF c d") and the specified mappings are non-trivial:
   a cover mapping at column 0 of generated line 1 precedes the mapping at column 2 *)
Example builder_exact_ex :
  let text := [97; 195; 169; 98; 10; 99; 100] in
  let evs := [(0, 0, []); (3, 1, [120; 32]); (3, 1, [33]); (5, 0, [121; 10; 32; 32]); (6, 2, [122])] in
  Forall (fun e => boundary text (fst (fst e))) evs /\
  abs_of (builder_spec_ops text true evs [10; 10; 119]) 0 =
    [mkAbs 0 0 (Some (0, 0, 0)) None; mkAbs 0 2 (Some (0, 0, 2)) (Some 0);
     mkAbs 1 0 (Some (0, 0, 2)) None; mkAbs 1 2 (Some (0, 1, 0)) None; mkAbs 1 3 (Some (0, 1, 1)) (Some 1);
     mkAbs 2 0 (Some (0, 1, 1)) None].
Proof.
  split; [|vm_compute; reflexivity].
  repeat (apply Forall_cons; [right; vm_compute; auto 10|]). apply Forall_nil.
Qed.
(* join_all_decodes: three files (the first and third share a source index, the
   second starts on the line where the first ended), hypotheses hold, the
   joined mappings are non-trivial *)
Example join_all_ex :
  let f1 := mkJfile [OMap 0 0 0 0 None; OMap 4 0 0 4 (Some 0)] 1 9 (1, 0) 7 in
  let f2 := mkJfile [ONewline; OMap 2 0 1 3 (Some 0); ONewline] 1 0 (0, 3) 5 in
  let f3 := mkJfile [OMap 1 0 2 0 None] 0 6 (0, 2) 7 in
  Forall file_ok [f1; f2; f3] /\
  assign_sources (map res_of [f1; f2; f3]) [] 0 = [(7, 0); (5, 1)] /\
  joined_abs [(7, 0); (5, 1)] [f1; f2; f3] (0, 0) 0 =
    [mkAbs 1 0 (Some (0, 0, 0)) None; mkAbs 1 4 (Some (0, 0, 4)) (Some 0);
     mkAbs 2 2 (Some (1, 1, 3)) (Some 1); mkAbs 3 3 (Some (0, 2, 0)) None] /\
  join_all (map res_of [f1; f2; f3]) = Some (emit_bytes (joined_ops [(7, 0); (5, 1)] [f1; f2; f3] 0 0)).
Proof.
  split; [|vm_compute; repeat split; reflexivity].
  repeat constructor; cbn [fst f_off]; try lia.
  - exists 0%nat, 0, 0, 0, 0, None, [OMap 4 0 0 4 (Some 0)]. reflexivity.
  - exists 1%nat, 2, 0, 1, 3, (Some 0), [ONewline]. reflexivity.
  - exists 0%nat, 1, 0, 2, 0, None, []. reflexivity.
Qed.
(* pipeline_exact: two files and a shift on generated line 1; hypotheses hold and
   the expected final mappings are non-trivial (second file starts on line 1 at
   column 5 of the chunk; its first-line mappings after column 3 move by +5) *)
Example pipeline_ex :
  let f1 : src_file := ([97; 195; 169; 98; 10; 99; 100], [(0, 0, []); (3, 1, [120; 32]); (5, 0, [121; 10; 32; 32])], [122], (0, 0), 4) in
  let f2 : src_file := ([113; 32; 114], [(0, 2, []); (2, 0, [113; 61])], [114; 59; 10], (0, 2), 9) in
  let sh := [((0, 0), (0, 0)); ((1, 3), (1, 8))] in
  Forall src_ok [f1; f2] /\ shifts_wf sh /\
  map (shift_abs sh) (joined_abs [(4, 0); (9, 1)] (map spec_file [f1; f2]) (0, 0) 0) =
    [mkAbs 0 0 (Some (0, 0, 0)) None; mkAbs 0 2 (Some (0, 0, 2)) (Some 0);
     mkAbs 1 0 (Some (0, 0, 2)) None; mkAbs 1 2 (Some (0, 1, 0)) None;
     mkAbs 1 10 (Some (1, 0, 0)) (Some 1); mkAbs 1 12 (Some (1, 0, 2)) None].
Proof.
  split; [|split; [|vm_compute; reflexivity]].
  - repeat (apply Forall_cons || apply Forall_nil); cbn [src_ok fst snd];
      (split; [repeat (apply Forall_cons; [right; vm_compute; auto 10|]); apply Forall_nil|]);
      (split; [discriminate|]); lia.
  - cbn. repeat split; try reflexivity. repeat constructor; reflexivity.
Qed.
(* builder_composes: a sorted input map with names in range; the second call is
   remapped through the input mapping at (0,2) with the input map's name, the
   third (line 1, column 1 has no input mapping on its line before it) is dropped,
   the fourth maps through (1,2) and keeps the caller's name *)
Example builder_composes_ex :
  let text := [97; 195; 169; 98; 10; 99; 100; 101] in
  let ms := [mkMapping 0 0 2 7 1 None; mkMapping 0 2 1 5 5 (Some 1); mkMapping 1 2 0 9 0 None] in
  let evs := [(0, 0, []); (3, 1, [120; 32]); (6, 0, [121; 10; 32; 32]); (7, 2, [122])] in
  sorted_maps ms /\ names_in_range ms [4; 3] /\
  Forall (fun e => boundary text (fst (fst e))) evs /\
  builder_in_spec text ms [4; 3] evs [10] =
    ([OMap 0 2 7 1 None; OMap 2 1 5 5 (Some 0); ONewline; OMap 3 0 9 0 (Some 1); ONewline], [3; 2], 0).
Proof.
  split; [cbn; unfold pos_le; cbn; lia|].
  split; [repeat constructor|].
  split; [repeat (apply Forall_cons; [right; vm_compute; auto 10|]); apply Forall_nil|].
  vm_compute. reflexivity.
Qed.
(* clean cuts: "a CR LF" | "é b" is clean (the CRLF is inside the first portion),
   and a whole run with CRLF and a two-byte character inside portions is clean *)
Example clean_cut_ex : clean_cut [97; 13; 10] [195; 169; 98].
Proof.
  split; [right; vm_compute; auto 10|]. intros a' _. reflexivity.
Qed.
Example clean_run_ex :
  clean_run sw0 [] [(0, 0, [97; 13; 10]); (3, 1, [195; 169; 32])] [98; 13].
Proof.
  cbn [clean_run sw0 w_len w_pend w_ploc w_plen w_pname length app].
  replace ((0 =? -1) && _) with false by reflexivity.
  split.
  - split; [right; vm_compute; auto 10|]. intros a' E. destruct a'; discriminate.
  - replace ((3 =? 0) && _) with false by reflexivity. split.
    + split; [right; vm_compute; auto 10|]. intros a' _. reflexivity.
    + cbn [clean_run app w_pend]. split; [right; vm_compute; auto 10|]. intros a' _. reflexivity.
Qed.
(* composes_is_remapping has no hypotheses; on the data of builder_composes_ex the
   (a)-list has four mappings, one of which is dropped by the remapping *)
Example composes_is_remapping_ex :
  let text := [97; 195; 169; 98; 10; 99; 100; 101] in
  let ms := [mkMapping 0 0 2 7 1 None; mkMapping 0 2 1 5 5 (Some 1); mkMapping 1 2 0 9 0 None] in
  let evs := [(0, 0, []); (3, 1, [120; 32]); (6, 0, [121; 10; 32; 32]); (7, 2, [122])] in
  let a := abs_of (builder_spec_ops text false evs [10]) 0 in
  length a = 4%nat /\ length (flat_map (remap_abs ms) a) = 3%nat.
Proof. vm_compute. split; reflexivity. Qed.
(* parsed_map_sorted_in_range: "AAAA,IAAE,FAAA;CACA" has a negative column delta
   (needSort path), hypotheses hold, the result is the sorted list *)
Example parsed_map_ex :
  let raw := [65;65;65;65; 44; 73;65;65;69; 44; 70;65;65;65; 59; 67;65;67;65] in
  let secs := [(0, 0, 2, 0, raw)] in
  Vlq16Proofs.sections_ok secs /\ Forall C07.ParseMapProofs.sec_bounds secs /\
  C07.ParseMap.ParseMappingsOrdered secs =
    Checked.Ok (C07.ParseMap.QMap 2 0 [(0, 0, 0, 0, 0, -1); (0, 2, 0, 0, 2, -1); (0, 4, 0, 0, 2, -1); (1, 1, 0, 1, 2, -1)] true).
Proof.
  split; [repeat constructor; lia|]. split; [repeat constructor; cbn; lia|]. vm_compute. reflexivity.
Qed.
(* sourcemap_text_parses: hypotheses hold for hostile strings (a quote, a control
   character, an invalid byte, a two-byte character) and the text is the expected one *)
From V Require C19.Json C19.JsonSpec C19.JsonProofs C07.SmJson C07.SmJsonProofs.
Example sourcemap_text_ex :
  let sources := [[97; 34; 46; 106; 115]] in
  let contents := Some [[120; 10; 1; 255; 195; 169]] in
  let mappings := [65; 65; 65; 65; 59; 65; 65; 67; 65] in
  Forall JsonProofs.bytes_ok sources /\ Forall SmJsonProofs.safe_char mappings /\
  JsonSpec.parse_json (SmJson.sourcemap_text true sources (Some [114]) contents mappings [[110]]) =
    Some (SmJsonProofs.sm_jv sources (Some [114]) contents mappings [[110]]) /\
  SmJsonProofs.jstrs [[120; 10; 1; 255; 195; 169]] = JsonSpec.JArr [JsonSpec.JStr [120; 10; 1; 65533; 233]].
Proof.
  split; [repeat constructor; lia|]. split; [repeat constructor; lia|]. split; vm_compute; reflexivity.
Qed.
(* join_all_decodes / pipeline_exact with a null entry between two files on one
   line: the null mapping sits at the column where the first file's text ended
   (9), the second file starts 3 columns further; hypotheses hold *)
From V Require C07.JoinNullProofs C07.PipelineNull.
Example join_null_ex :
  let f1 := mkJfile [OMap 0 0 0 0 None; OMap 4 0 0 4 (Some 0)] 1 9 (0, 0) 7 in
  let f2 := mkJfile [OMap 1 0 2 0 None; ONewline; OMap 0 0 3 0 None] 0 5 (0, 3) 5 in
  let items := [JoinNullProofs.JFile f1; JoinNullProofs.JNull 6; JoinNullProofs.JFile f2] in
  Forall JoinNullProofs.item_ok items /\
  JoinNullProofs.joined_abs_i [(7, 0); (5, 1)] items (0, 0) 0 =
    [mkAbs 0 0 (Some (0, 0, 0)) None; mkAbs 0 4 (Some (0, 0, 4)) (Some 0); mkAbs 0 9 None None;
     mkAbs 0 13 (Some (1, 2, 0)) None; mkAbs 1 0 (Some (1, 3, 0)) None] /\
  join_all (map JoinNullProofs.res_of_item items) =
    Some (emit_bytes (JoinNullProofs.joined_ops_i [(7, 0); (5, 1)] items 0 0)).
Proof.
  split; [|vm_compute; split; reflexivity].
  repeat constructor; cbn [fst f_off]; try lia.
  - exists 0%nat, 0, 0, 0, 0, None, [OMap 4 0 0 4 (Some 0)]. reflexivity.
  - exists 0%nat, 1, 0, 2, 0, None, [ONewline; OMap 0 0 3 0 None]. reflexivity.
Qed.
(* parse_reads_back_emitted: hypotheses hold for an event list with a name, a
   line break, a one-field segment and a column that goes backwards *)
From V Require C07.ParseRoundtrip.
Example parse_roundtrip_ex :
  let ops := [OMap 0 0 0 0 None; OMap 9 1 2 3 (Some 0); ONull 12; OMap 4 0 2 0 None; ONewline; OMap 2 1 5 1 (Some 1)] in
  ParseRoundtrip.ops_in30 2 2 ops /\ ParseRoundtrip.pmaps ops 0 <> [] /\ ParseRoundtrip.negd ops 0 = true /\
  C07.ParseMap.ParseMappingsOrdered [(0, 0, 2, 2, emit_bytes ops)] =
    Checked.Ok (C07.ParseMap.QMap 2 2 [(0, 0, 0, 0, 0, -1); (0, 4, 0, 2, 0, -1); (0, 9, 1, 2, 3, 0); (1, 2, 1, 5, 1, 1)] true).
Proof.
  split; [cbn; unfold ParseRoundtrip.in30; repeat split; lia|]. split; [discriminate|]. split; vm_compute; reflexivity.
Qed.
