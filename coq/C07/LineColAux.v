(* C07: GenerateLineOffsetTables + the AddSourceMapping lookup compute exactly
   the UTF-16 (line, column) of every rune boundary of the text.
   Proof by a forward invariant over gen_loop kept in lockstep with spec_linecol. *)
From V Require Import Common.Base Common.Utf8 C07.Vlq C07.Shift C07.LineCol.

(* ------------------------------------------------------------------ *)
(* 1. decode_rune / runes facts                                        *)
(* ------------------------------------------------------------------ *)

Lemma decode_rune_facts : forall l c w,
  l <> [] -> decode_rune l = (c, w) ->
  (1 <= w)%nat /\ (w <= length l)%nat /\ (c <= 127 -> w = 1%nat).
Proof.
  intros l c w Hne H. destruct l as [|b0 r]; [congruence|]. clear Hne.
  unfold decode_rune, is_cont, in_range in H.
  destruct (b0 <? 128) eqn:E0.
  { inversion H; subst. cbn [length]. lia. }
  destruct ((194 <=? b0) && (b0 <=? 223)) eqn:E1.
  { destruct r as [|b1 r]; [inversion H; subst; cbn [length]; lia|].
    destruct ((128 <=? b1) && (b1 <=? 191)) eqn:E2;
      inversion H; subst; cbn [length]; repeat split; try lia. }
  destruct ((224 <=? b0) && (b0 <=? 239)) eqn:E2.
  { destruct r as [|b1 [|b2 r]]; try (inversion H; subst; cbn [length]; lia).
    destruct (b0 =? 224) eqn:E3; destruct (b0 =? 237) eqn:E4;
    match type of H with (if ?g then _ else _) = _ => destruct g eqn:E5 end;
      inversion H; subst; cbn [length]; repeat split; try lia. }
  destruct ((240 <=? b0) && (b0 <=? 244)) eqn:E3.
  { destruct r as [|b1 [|b2 [|b3 r]]]; try (inversion H; subst; cbn [length]; lia).
    destruct (b0 =? 240) eqn:E4; destruct (b0 =? 244) eqn:E5;
    match type of H with (if ?g then _ else _) = _ => destruct g eqn:E6 end;
      inversion H; subst; cbn [length]; repeat split; try lia. }
  inversion H; subst; cbn [length]; lia.
Qed.

(* the rune list is a faithful left-to-right cut of [rest] starting at offset [i] *)
Fixpoint wf_runes (rs : list (Z * Z * nat)) (rest : bytes) (i : Z) : Prop :=
  match rs with
  | [] => rest = []
  | (j, c, w) :: r =>
    j = i /\ (1 <= w)%nat /\ (w <= length rest)%nat /\ (c <= 127 -> w = 1%nat) /\
    wf_runes r (skipn w rest) (i + Z.of_nat w)
  end.

Lemma runes_from_S : forall f l off, l <> [] ->
  runes_from (S f) l off =
  (off, fst (decode_rune l), snd (decode_rune l)) ::
    runes_from f (skipn (snd (decode_rune l)) l) (off + Z.of_nat (snd (decode_rune l))).
Proof.
  intros f l off Hne. destruct l as [|b r]; [congruence|].
  cbn [runes_from]. destruct (decode_rune (b :: r)); reflexivity.
Qed.

Lemma runes_from_wf : forall fuel l off,
  (length l <= fuel)%nat -> wf_runes (runes_from fuel l off) l off.
Proof.
  induction fuel as [|f IH]; intros l off Hf.
  - destruct l; cbn in *; [reflexivity | lia].
  - destruct l as [|b r] eqn:El; [reflexivity|]. rewrite <- El in *.
    assert (Hne : l <> []) by (subst; discriminate).
    rewrite runes_from_S by assumption.
    destruct (decode_rune l) as [c w] eqn:Ed. cbn [fst snd].
    destruct (decode_rune_facts l c w Hne Ed) as (H1 & H2 & H3).
    cbn [wf_runes]. repeat split; try assumption.
    apply IH. rewrite skipn_length. lia.
Qed.

Lemma runes_wf : forall text, wf_runes (runes text) text 0.
Proof. intro. apply runes_from_wf. lia. Qed.

Definition roff (r : Z * Z * nat) : Z := fst (fst r).

Lemma wf_runes_offsets : forall rs rest i o,
  wf_runes rs rest i -> In o (map roff rs) -> i <= o < i + Z.of_nat (length rest).
Proof.
  induction rs as [|[[j c] w] r IH]; intros rest i o Hwf Hin; [destruct Hin|].
  cbn [wf_runes] in Hwf. destruct Hwf as (-> & H1 & H2 & _ & Hwf).
  cbn [map In roff fst] in Hin. destruct Hin as [<- | Hin]; [lia|].
  specialize (IH _ _ _ Hwf Hin). rewrite skipn_length in IH. lia.
Qed.

Lemma spec_at_end : forall rs rest i line col,
  wf_runes rs rest i ->
  spec_linecol rs rest (i + Z.of_nat (length rest)) line col = advance_runes rs rest line col.
Proof.
  induction rs as [|[[j c] w] r IH]; intros rest i line col Hwf; [reflexivity|].
  cbn [wf_runes] in Hwf. destruct Hwf as (-> & H1 & H2 & _ & Hwf).
  cbn [spec_linecol advance_runes].
  destruct (i + Z.of_nat (length rest) <=? i) eqn:E; [lia|].
  assert (Hn : i + Z.of_nat (length rest) =
               i + Z.of_nat w + Z.of_nat (length (skipn w rest))).
  { rewrite skipn_length. lia. }
  rewrite Hn.
  destruct (is_newline c); [destruct ((c =? 13) && _)|]; apply IH; assumption.
Qed.

(* ------------------------------------------------------------------ *)
(* 2. the binary search on a list partitioned at [loc]                  *)
(* ------------------------------------------------------------------ *)

Lemma line_search_partition : forall pre post loc,
  Forall (fun t => l_start t <= loc) pre ->
  Forall (fun t => loc < l_start t) post ->
  forall fuel orig count,
    (count < fuel)%nat ->
    (orig <= length pre)%nat -> (length pre <= orig + count)%nat ->
    (orig + count <= length (pre ++ post))%nat ->
    line_search fuel (pre ++ post) orig count loc = length pre.
Proof.
  intros pre post loc Hpre Hpost.
  induction fuel as [|f IH]; intros orig count Hf H1 H2 H3; [lia|].
  cbn [line_search]. destruct count as [|c']; [lia|].
  set (count := S c') in *.
  set (step := Nat.div count 2).
  assert (Hstep : (step < count)%nat) by (apply Nat.div_lt; subst count; lia).
  destruct (nth_error (pre ++ post) (orig + step)) as [t|] eqn:En.
  2:{ apply nth_error_None in En. lia. }
  destruct (l_start t <=? loc) eqn:Ele.
  - assert (Hlt : (orig + step < length pre)%nat).
    { destruct (Nat.lt_ge_cases (orig + step) (length pre)) as [Hc|Hc]; [assumption|].
      rewrite nth_error_app2 in En by assumption.
      apply nth_error_In in En. rewrite Forall_forall in Hpost.
      specialize (Hpost _ En). lia. }
    apply IH; lia.
  - assert (Hge : (length pre <= orig + step)%nat).
    { destruct (Nat.lt_ge_cases (orig + step) (length pre)) as [Hc|Hc]; [|assumption].
      rewrite nth_error_app1 in En by assumption.
      apply nth_error_In in En. rewrite Forall_forall in Hpre.
      specialize (Hpre _ En). lia. }
    apply IH; lia.
Qed.

Lemma line_search_count : forall pre post loc,
  Forall (fun t => l_start t <= loc) pre ->
  Forall (fun t => loc < l_start t) post ->
  line_search (S (length (pre ++ post))) (pre ++ post) 0 (length (pre ++ post)) loc
  = length pre.
Proof.
  intros. apply line_search_partition; try assumption; try lia.
  rewrite app_length. lia.
Qed.
