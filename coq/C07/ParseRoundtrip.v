(* ParseSourceMap reads back what the emitter writes: for every event list whose
   values are in range, the parser model applied to [emit_bytes ops] returns
   exactly the mappings [spec_decode] assigns to that string (those with an
   original position; the parser ignores one-field segments), in the order
   needSort leaves them. *)
From V Require Import Common.Base C07.Vlq C07.VlqProofs C07.SpecMap C07.Mappings C07.MappingsProofs C07.JoinProofs C07.Shift C07.ShiftAux.
From V Require Import C16.Checked C16.Vlq16 C16.Vlq16Proofs.
From V Require Import C07.ParseMap C07.ParseMapProofs.

(* ---------------- DecodeVLQUTF16 reads encodeVLQ ---------------- *)

Lemma b64_sweep16 :
  forallb (fun n => let d := Z.of_nat n in
                    (index_byte Vlq16.base64 (b64_char d mod 256) 0 =? d) &&
                    (Z.land d 31 =? d mod 32) && Bool.eqb (Z.land d 32 =? 0) (d <? 32))
          (seq 0 64) = true.
Proof. vm_compute. reflexivity. Qed.

Lemma b64_facts d : 0 <= d < 64 ->
  index_byte Vlq16.base64 (b64_char d mod 256) 0 = d /\ Z.land d 31 = d mod 32 /\ (Z.land d 32 =? 0) = (d <? 32).
Proof.
  intro Hd. pose proof b64_sweep16 as H. rewrite forallb_forall in H.
  specialize (H (Z.to_nat d)). rewrite Z2Nat.id in H by lia.
  specialize (H ltac:(apply in_seq; lia)). cbv zeta in H.
  apply andb_true_iff in H as [H H3]. apply andb_true_iff in H as [H1 H2].
  apply Bool.eqb_prop in H3. repeat split; [lia|lia|exact H3].
Qed.

Lemma testbit_small a s n : 0 <= a < 2 ^ s -> s <= n -> Z.testbit a n = false.
Proof.
  intros Ha Hn. destruct (Z.eq_dec a 0) as [->|Hz]; [apply Z.testbit_0_l|].
  apply Z.bits_above_log2; [lia|]. assert (Z.log2 a < s) by (apply Z.log2_lt_pow2; lia). lia.
Qed.

Lemma lor_disjoint a b s : 0 <= a < 2 ^ s -> 0 <= b -> 0 <= s -> Z.lor a (Z.shiftl b s) = a + b * 2 ^ s.
Proof.
  intros Ha Hb Hs. rewrite <- Z.shiftl_mul_pow2 by lia.
  assert (Hl : Z.land a (Z.shiftl b s) = 0).
  { apply Z.bits_inj'. intros n Hn. rewrite Z.land_spec, Z.bits_0.
    destruct (Z.lt_ge_cases n s).
    - rewrite Z.shiftl_spec_low by lia. apply andb_false_r.
    - rewrite (testbit_small a s n Ha) by lia. reflexivity. }
  rewrite Z.add_nocarry_lxor by exact Hl. symmetry. apply Z.lxor_lor. exact Hl.
Qed.

Definition fin16 (x : Z) : Z :=
  let value := Z.shiftr x 1 in if negb (Z.land x 1 =? 0) then wrap_i32 (- value) else value.

Lemma idx_mid (pre : list Z) c t : idx (pre ++ c :: t) (len pre) = Ok c.
Proof.
  unfold idx, len. destruct (Z.of_nat (length pre) <? 0) eqn:E; [lia|].
  rewrite Nat2Z.id, nth_error_app2 by lia. rewrite Nat.sub_diag. reflexivity.
Qed.

Lemma vlq16_enc : forall fuel rem F pre rest shift acc,
  (0 < fuel)%nat -> 0 <= rem < 2 ^ (5 * Z.of_nat fuel) -> 0 <= shift -> 0 <= acc < 2 ^ shift ->
  acc + rem * 2 ^ shift < 2 ^ 31 -> (length (enc_loop fuel rem) <= F)%nat -> (0 < F)%nat ->
  vlq_loop F (pre ++ enc_loop fuel rem ++ rest) (len pre) shift acc =
  Ok (fin16 (acc + rem * 2 ^ shift), len pre + len (enc_loop fuel rem), true).
Proof.
  induction fuel as [|f IH]; intros rem F pre rest shift acc Hf Hrem Hs Hacc Hb HF HF0; [lia|].
  destruct F as [|F]; [lia|].
  rewrite pow5 in Hrem.
  assert (Hd : 0 <= rem mod 32 < 32) by (apply Z.mod_pos_bound; lia).
  pose proof (Z.div_mod rem 32 ltac:(lia)) as Hdm.
  assert (Hp : 0 < 2 ^ shift) by (apply Z.pow_pos_nonneg; lia).
  assert (Hpow : 2 ^ (shift + 5) = 32 * 2 ^ shift) by (rewrite Z.pow_add_r by lia; lia).
  set (P := 2 ^ shift) in *.
  assert (Hle : rem mod 32 <= rem) by lia.
  assert (H1 : rem mod 32 * P <= rem * P) by (apply Z.mul_le_mono_nonneg_r; lia).
  assert (H2 : rem * P = (rem / 32) * (32 * P) + rem mod 32 * P) by (rewrite Hdm at 1; ring).
  assert (H3 : 0 <= rem mod 32 * P) by (apply Z.mul_nonneg_nonneg; lia).
  assert (H4 : 0 <= (rem / 32) * (32 * P)) by (apply Z.mul_nonneg_nonneg; lia).
  assert (H5 : rem mod 32 * P <= 31 * P) by (apply Z.mul_le_mono_nonneg_r; lia).
  (* the accumulated value after this digit *)
  assert (Hlor : forall dg, dg mod 32 = rem mod 32 -> 0 <= dg < 64 ->
            Z.lor acc (shl32 (Z.land dg 31) shift) = acc + (rem mod 32) * P).
  { intros dg Hdg Hdr. destruct (b64_facts dg Hdr) as (_ & -> & _). rewrite Hdg.
    unfold shl32. destruct (32 <=? shift) eqn:E32.
    - assert (HP31 : 2 ^ 31 <= P) by (subst P; apply Z.pow_le_mono_r; lia).
      assert (rem = 0).
      { destruct (Z.eq_dec rem 0) as [E|E]; [exact E|exfalso].
        assert (1 * P <= rem * P) by (apply Z.mul_le_mono_nonneg_r; lia). lia. }
      subst rem. rewrite Z.lor_0_r. cbn. lia.
    - rewrite (Z.shiftl_mul_pow2 (rem mod 32) shift) by lia. fold P. rewrite wrap_i32_id by lia.
      unfold P. rewrite <- (Z.shiftl_mul_pow2 (rem mod 32) shift) by lia.
      rewrite lor_disjoint by (fold P; lia). rewrite Z.shiftl_mul_pow2 by lia. reflexivity. }
  cbn [enc_loop] in HF |- *.
  destruct (Z.eqb_spec (rem / 32) 0) as [Hz|Hnz].
  - (* last digit *)
    cbn [app]. rewrite vlq_loop_S.
    replace (len (pre ++ b64_char (rem mod 32) :: rest) <=? len pre) with false
      by (rewrite len_app, len_cons; pose proof (len_nonneg rest); lia).
    rewrite idx_mid. cbn [bind]. cbv zeta. change Vlq.base64 with Vlq16.base64.
    destruct (b64_facts (rem mod 32) ltac:(lia)) as (-> & _ & E3).
    replace (rem mod 32 <? 0) with false by lia.
    rewrite E3. replace (rem mod 32 <? 32) with true by lia.
    rewrite (Hlor (rem mod 32)) by (rewrite ?Z.mod_mod; lia).
    replace (rem mod 32) with rem by lia.
    unfold fin16, len. cbn [length]. repeat f_equal; lia.
  - (* continuation digit *)
    cbn [app]. rewrite vlq_loop_S.
    replace (len (pre ++ b64_char (rem mod 32 + 32) :: enc_loop f (rem / 32) ++ rest) <=? len pre) with false
      by (rewrite len_app, len_cons; pose proof (len_nonneg (enc_loop f (rem / 32) ++ rest)); lia).
    rewrite idx_mid. cbn [bind]. cbv zeta. change Vlq.base64 with Vlq16.base64.
    destruct (b64_facts (rem mod 32 + 32) ltac:(lia)) as (-> & _ & E3).
    replace (rem mod 32 + 32 <? 0) with false by lia.
    rewrite E3. replace (rem mod 32 + 32 <? 32) with false by lia.
    rewrite (Hlor (rem mod 32 + 32)) by lia.
    assert (Hq : 0 <= rem / 32 < 2 ^ (5 * Z.of_nat f)) by lia.
    assert (Hfpos : (0 < f)%nat) by (destruct f; [cbn in Hq; lia|lia]).
    replace (pre ++ b64_char (rem mod 32 + 32) :: enc_loop f (rem / 32) ++ rest)
      with ((pre ++ [b64_char (rem mod 32 + 32)]) ++ enc_loop f (rem / 32) ++ rest)
      by (rewrite <- app_assoc; reflexivity).
    replace (len pre + 1) with (len (pre ++ [b64_char (rem mod 32 + 32)])) by (rewrite len_app; reflexivity).
    cbn [length] in HF.
    rewrite (IH (rem / 32) F _ rest (shift + 5) (acc + rem mod 32 * P)).
    + replace (acc + rem mod 32 * P + rem / 32 * 2 ^ (shift + 5)) with (acc + rem * P) by (rewrite Hpow; fold P; lia).
      replace (len (pre ++ [b64_char (rem mod 32 + 32)]) + len (enc_loop f (rem / 32)))
        with (len pre + len (b64_char (rem mod 32 + 32) :: enc_loop f (rem / 32)))
        by (rewrite len_app; unfold len; cbn [length]; lia).
      reflexivity.
    + exact Hfpos.
    + exact Hq.
    + lia.
    + rewrite Hpow. fold P. lia.
    + rewrite Hpow. fold P. lia.
    + lia.
    + pose proof (enc_loop_nonempty f (rem / 32) Hfpos) as Hne.
      destruct (enc_loop f (rem / 32)); [congruence|cbn [length] in HF; lia].
Qed.

Lemma fin16_to_vlq v : - 2 ^ 30 < v < 2 ^ 30 -> fin16 (to_vlq v) = v.
Proof.
  intro Hv. unfold fin16, to_vlq.
  assert (Hl : forall x, Z.land x 1 = x mod 2).
  { intro x. change 1 with (Z.ones 1) at 1. rewrite Z.land_ones by lia. reflexivity. }
  rewrite Hl, Z.shiftr_div_pow2 by lia. change (2 ^ 1) with 2.
  destruct (v <? 0) eqn:E.
  - replace ((2 * - v + 1) mod 2) with 1 by lia. cbn [Z.eqb negb].
    replace ((2 * - v + 1) / 2) with (- v) by lia. rewrite wrap_i32_id by lia. lia.
  - replace ((2 * v) mod 2) with 0 by lia. cbn [Z.eqb negb]. lia.
Qed.

Theorem decode16_encode v rest : - 2 ^ 30 < v < 2 ^ 30 ->
  DecodeVLQUTF16 (encodeVLQ v ++ rest) = Ok (v, len (encodeVLQ v), true).
Proof.
  intro Hv. unfold DecodeVLQUTF16.
  pose proof (encodeVLQ_nonempty v) as Hne.
  destruct (len (encodeVLQ v ++ rest) =? 0) eqn:E0.
  { exfalso. unfold len in E0. rewrite app_length in E0. destruct (encodeVLQ v); [congruence|cbn [length] in E0; lia]. }
  unfold encodeVLQ in *.
  set (vlq := to_vlq v) in *.
  assert (Hvlq : 0 <= vlq < 2 ^ 31) by (subst vlq; unfold to_vlq; destruct (v <? 0) eqn:?; lia).
  pose proof (vlq16_enc (S (Z.to_nat (Z.log2 vlq))) vlq (S (length (enc_loop (S (Z.to_nat (Z.log2 vlq))) vlq ++ rest)))
                [] rest 0 0) as H.
  cbn [app] in H. change (len []) with 0 in H. rewrite Z.add_0_l, Z.mul_1_r in H.
  change (2 ^ 0) with 1 in H. rewrite Z.mul_1_r in H || idtac.
  rewrite H; try lia.
  - f_equal. f_equal. f_equal. apply fin16_to_vlq. exact Hv.
  - split; [lia|]. apply log2_fuel. lia.
  - rewrite app_length. lia.
Qed.

(* ---------------- positions inside raw ---------------- *)

Lemma from_at (pre suf : list Z) : from (pre ++ suf) (len pre) = Ok suf.
Proof.
  rewrite from_ok by (rewrite len_app; pose proof (len_nonneg pre); pose proof (len_nonneg suf); lia).
  unfold len. rewrite Nat2Z.id, skipn_app, Nat.sub_diag, skipn_all. reflexivity.
Qed.

Lemma lt_at (pre suf : list Z) c t : suf = c :: t -> (len pre <? len (pre ++ suf)) = true.
Proof. intros ->. rewrite len_app, len_cons. pose proof (len_nonneg t). lia. Qed.

Lemma decode_at pre v rest : - 2 ^ 30 < v < 2 ^ 30 ->
  (t <- from (pre ++ encodeVLQ v ++ rest) (len pre) ;; DecodeVLQUTF16 t) = Ok (v, len (encodeVLQ v), true).
Proof. intro Hv. rewrite from_at. cbn [bind]. apply decode16_encode, Hv. Qed.

Lemma decode16_stop c t : c = 44 \/ c = 59 -> DecodeVLQUTF16 (c :: t) = Ok (0, 0, false).
Proof.
  intros [->| ->]; unfold DecodeVLQUTF16; (destruct (len (_ :: t) =? 0) eqn:E; [reflexivity|]);
    rewrite vlq_loop_S; (destruct (len (_ :: t) <=? 0) eqn:E1; [reflexivity|]);
    change (idx (_ :: t) 0) with (Ok (A:=Z) 44) || change (idx (_ :: t) 0) with (Ok (A:=Z) 59); reflexivity.
Qed.

Lemma mloop_ns_S raw lo co so no sl nl f st current acc ns :
  mloop_ns raw lo co so no sl nl (S f) st current acc ns =
      if negb (current <? len raw) then Ok (NDone st acc ns) else
      c0 <- idx raw current ;;
      if c0 =? 59 then mloop_ns raw lo co so no sl nl f (mkM (wrap_i32 (gl st + 1)) 0 (si st) (ol st) (oc st) (on st)) (current + 1) acc ns else
      t <- from raw current ;;
      '(d, i, ok) <- DecodeVLQUTF16 t ;;
      if negb ok then Ok (NErr 1 0 i current) else
      let ns := ns || (d <? 0) in
      let gc' := wrap_i32 (gc st + d) in
      if ((gl st =? lo) && (gc' <? co)) || (gc' <? 0) then Ok (NErr 2 gc' i current) else
      let current := current + i in
      if current =? len raw then Ok (NDone (mkM (gl st) gc' (si st) (ol st) (oc st) (on st)) acc ns) else
      c1 <- idx raw current ;;
      if c1 =? 44 then mloop_ns raw lo co so no sl nl f (mkM (gl st) gc' (si st) (ol st) (oc st) (on st)) (current + 1) acc ns else
      if c1 =? 59 then mloop_ns raw lo co so no sl nl f (mkM (gl st) gc' (si st) (ol st) (oc st) (on st)) current acc ns else
      t <- from raw current ;;
      '(d, i, ok) <- DecodeVLQUTF16 t ;;
      if negb ok then Ok (NErr 3 0 i current) else
      let si' := wrap_i32 (si st + d) in
      if (si' <? so) || (wrap_i32 (so + wrap_i32 sl) <=? si') then Ok (NErr 4 si' i current) else
      let current := current + i in
      t <- from raw current ;;
      '(d, i, ok) <- DecodeVLQUTF16 t ;;
      if negb ok then Ok (NErr 5 0 i current) else
      let ol' := wrap_i32 (ol st + d) in
      if ol' <? 0 then Ok (NErr 6 ol' i current) else
      let current := current + i in
      t <- from raw current ;;
      '(d, i, ok) <- DecodeVLQUTF16 t ;;
      if negb ok then Ok (NErr 7 0 i current) else
      let oc' := wrap_i32 (oc st + d) in
      if oc' <? 0 then Ok (NErr 8 oc' i current) else
      let current := current + i in
      t <- from raw current ;;
      '(d, i, ok) <- DecodeVLQUTF16 t ;;
      let on' := if ok then wrap_i32 (on st + d) else on st in
      if ok && ((on' <? no) || (wrap_i32 (no + wrap_i32 nl) <=? on')) then Ok (NErr 9 on' i current) else
      let name := if ok then on' else -1 in
      let current := if ok then current + i else current in
      let st' := mkM (gl st) gc' si' ol' oc' on' in
      let m : Vlq16.mapping := (gl st, gc', si', ol', oc', name) in
      if current <? len raw then
        c2 <- idx raw current ;;
        if c2 =? 44 then mloop_ns raw lo co so no sl nl f st' (current + 1) (m :: acc) ns
        else if negb (c2 =? 59) then
          _ <- slice raw current (current + 1) ;;
          Ok (NErr 10 c2 1 current)
        else mloop_ns raw lo co so no sl nl f st' current (m :: acc) ns
      else mloop_ns raw lo co so no sl nl f st' current (m :: acc) ns.
Proof. reflexivity. Qed.

Lemma from_at' (raw pre suf : list Z) : raw = pre ++ suf -> from raw (len pre) = Ok suf.
Proof. intros ->. apply from_at. Qed.
Lemma idx_at' (raw pre : list Z) c t : raw = pre ++ c :: t -> idx raw (len pre) = Ok c.
Proof. intros ->. apply idx_mid. Qed.
Lemma lt_at' (raw pre : list Z) c t : raw = pre ++ c :: t -> (len pre <? len raw) = true.
Proof. intros ->. eapply lt_at. reflexivity. Qed.
Lemma eq_at' (raw pre : list Z) c t : raw = pre ++ c :: t -> (len pre =? len raw) = false.
Proof. intros ->. rewrite len_app, len_cons. pose proof (len_nonneg t). lia. Qed.

Lemma enc_cons v : exists c t, encodeVLQ v = c :: t /\ c <> 59 /\ c <> 44.
Proof.
  destruct (encodeVLQ_head v) as (d & t & Hd & E).
  destruct (char_not_sep d Hd) as (C1 & C2 & _).
  exists (b64_char d), t. repeat split; assumption.
Qed.

Definition in30 (x : Z) : Prop := 0 <= x < 2 ^ 30.

Definition tail_ok16 (C R : list Z) : Prop :=
  C = [44] \/ (C = [] /\ (R = [] \/ exists t, R = 59 :: t)).

Section Step.
  Variables sl nl : Z.
  Hypothesis Hsl : in30 sl.
  Hypothesis Hnl : in30 nl.
  Variable raw : list Z.

  Lemma step_map f st pre gcn sidx' ol' oc' (nm : option Z) C R acc ns :
    in30 (gc st) -> in30 (si st) -> in30 (ol st) -> in30 (oc st) -> in30 (on st) ->
    - 2 ^ 30 < gl st < 2 ^ 30 ->
    in30 gcn -> 0 <= sidx' < sl -> in30 ol' -> in30 oc' ->
    match nm with Some n => 0 <= n < nl | None => True end ->
    tail_ok16 C R ->
    let NM := match nm with Some n => encodeVLQ (n - on st) | None => [] end in
    let seg := encodeVLQ (gcn - gc st) ++ encodeVLQ (sidx' - si st) ++ encodeVLQ (ol' - ol st)
               ++ encodeVLQ (oc' - oc st) ++ NM in
    raw = pre ++ seg ++ C ++ R ->
    mloop_ns raw 0 0 0 0 sl nl (S f) st (len pre) acc ns =
    mloop_ns raw 0 0 0 0 sl nl f
      (mkM (gl st) gcn sidx' ol' oc' (match nm with Some n => n | None => on st end))
      (len (pre ++ seg ++ C))
      ((gl st, gcn, sidx', ol', oc', match nm with Some n => n | None => -1 end) :: acc)
      (ns || (gcn - gc st <? 0)).
  Proof.
    unfold in30 in *. intros G1 G2 G3 G4 G5 G6 N1 N2 N3 N4 N5 HT Hraw.
    set (NM := match nm with Some n => encodeVLQ (n - on st) | None => [] end) in *.
    set (E1 := encodeVLQ (gcn - gc st)) in *. set (E2 := encodeVLQ (sidx' - si st)) in *.
    set (E3 := encodeVLQ (ol' - ol st)) in *. set (E4 := encodeVLQ (oc' - oc st)) in *.
    rewrite <- !app_assoc in Hraw. rewrite <- !app_assoc.
    rewrite mloop_ns_S.
    (* generated column *)
    destruct (enc_cons (gcn - gc st)) as (c1 & t1 & Ec1 & Hc1 & Hc1').
    assert (R0 : raw = pre ++ c1 :: (t1 ++ E2 ++ E3 ++ E4 ++ NM ++ C ++ R)).
    { rewrite Hraw. fold E1 in Ec1. rewrite Ec1. reflexivity. }
    rewrite (lt_at' _ _ _ _ R0). cbn [negb]. rewrite (idx_at' _ _ _ _ R0). cbn [bind].
    replace (c1 =? 59) with false by lia.
    rewrite (from_at' raw pre _ Hraw). cbn [bind].
    unfold E1 at 1. rewrite decode16_encode by lia. cbn [bind negb]. cbv zeta.
    replace (wrap_i32 (gc st + (gcn - gc st))) with gcn by (rewrite wrap_i32_id; lia).
    replace (((gl st =? 0) && (gcn <? 0)) || (gcn <? 0)) with false by lia.
    fold E1.
    (* source index *)
    replace (len pre + len E1) with (len (pre ++ E1)) by (rewrite len_app; reflexivity).
    assert (R1 : raw = (pre ++ E1) ++ E2 ++ E3 ++ E4 ++ NM ++ C ++ R) by (rewrite Hraw, <- !app_assoc; reflexivity).
    destruct (enc_cons (sidx' - si st)) as (c2 & t2 & Ec2 & Hc2 & Hc2').
    assert (R1' : raw = (pre ++ E1) ++ c2 :: (t2 ++ E3 ++ E4 ++ NM ++ C ++ R)).
    { rewrite Hraw, <- !app_assoc. fold E2 in Ec2. rewrite Ec2. reflexivity. }
    rewrite (eq_at' _ _ _ _ R1'), (idx_at' _ _ _ _ R1'). cbn [bind].
    replace (c2 =? 44) with false by lia.
    replace (c2 =? 59) with false by lia.
    rewrite (from_at' raw _ _ R1). cbn [bind].
    unfold E2 at 1. rewrite decode16_encode by lia. cbn [bind negb]. cbv zeta.
    replace (wrap_i32 (si st + (sidx' - si st))) with sidx' by (rewrite wrap_i32_id; lia).
    rewrite (wrap_i32_id sl), (wrap_i32_id (0 + sl)) by lia.
    replace ((sidx' <? 0) || (0 + sl <=? sidx')) with false by lia.
    fold E2.
    (* original line *)
    replace (len (pre ++ E1) + len E2) with (len ((pre ++ E1) ++ E2)) by (rewrite !len_app; reflexivity).
    assert (R2 : raw = ((pre ++ E1) ++ E2) ++ E3 ++ E4 ++ NM ++ C ++ R) by (rewrite Hraw, <- !app_assoc; reflexivity).
    rewrite (from_at' raw _ _ R2). cbn [bind].
    unfold E3 at 1. rewrite decode16_encode by lia. cbn [bind negb]. cbv zeta.
    replace (wrap_i32 (ol st + (ol' - ol st))) with ol' by (rewrite wrap_i32_id; lia).
    replace (ol' <? 0) with false by lia.
    fold E3.
    (* original column *)
    replace (len ((pre ++ E1) ++ E2) + len E3) with (len (((pre ++ E1) ++ E2) ++ E3)) by (rewrite !len_app; reflexivity).
    assert (R3 : raw = (((pre ++ E1) ++ E2) ++ E3) ++ E4 ++ NM ++ C ++ R) by (rewrite Hraw, <- !app_assoc; reflexivity).
    rewrite (from_at' raw _ _ R3). cbn [bind].
    unfold E4 at 1. rewrite decode16_encode by lia. cbn [bind negb]. cbv zeta.
    replace (wrap_i32 (oc st + (oc' - oc st))) with oc' by (rewrite wrap_i32_id; lia).
    replace (oc' <? 0) with false by lia.
    fold E4.
    (* name *)
    replace (len (((pre ++ E1) ++ E2) ++ E3) + len E4) with (len ((((pre ++ E1) ++ E2) ++ E3) ++ E4)) by (rewrite !len_app; reflexivity).
    set (P4 := (((pre ++ E1) ++ E2) ++ E3) ++ E4) in *.
    assert (R4 : raw = P4 ++ NM ++ C ++ R) by (subst P4; rewrite Hraw, <- !app_assoc; reflexivity).
    assert (Hfin : pre ++ E1 ++ E2 ++ E3 ++ E4 ++ NM ++ C = (P4 ++ NM) ++ C).
    { subst P4. rewrite <- !app_assoc. reflexivity. }
    rewrite Hfin.
    rewrite (from_at' raw _ _ R4). cbn [bind].
    (* what comes after the segment *)
    assert (Htail : forall PP, raw = PP ++ C ++ R ->
      forall st' m ns',
      (if len PP <? len raw
       then c2 <- idx raw (len PP);;
            (if c2 =? 44
             then mloop_ns raw 0 0 0 0 sl nl f st' (len PP + 1) (m :: acc) ns'
             else
              if negb (c2 =? 59)
              then _ <- slice raw (len PP) (len PP + 1);; Ok (NErr 10 c2 1 (len PP))
              else mloop_ns raw 0 0 0 0 sl nl f st' (len PP) (m :: acc) ns')
       else mloop_ns raw 0 0 0 0 sl nl f st' (len PP) (m :: acc) ns') =
      mloop_ns raw 0 0 0 0 sl nl f st' (len (PP ++ C)) (m :: acc) ns').
    { intros PP HR st' m ns'. destruct HT as [->|[-> [->|[t ->]]]].
      - rewrite (lt_at' _ _ _ _ HR), (idx_at' _ _ _ _ HR). cbn [bind]. cbn [Z.eqb Pos.eqb].
        rewrite len_app. reflexivity.
      - cbn [app] in HR. rewrite app_nil_r in HR. rewrite app_nil_r.
        replace (len PP <? len raw) with false by (rewrite HR; lia). reflexivity.
      - cbn [app] in HR. rewrite (lt_at' _ _ _ _ HR), (idx_at' _ _ _ _ HR). cbn [bind]. cbn [Z.eqb Pos.eqb negb].
        rewrite app_nil_r. reflexivity. }
    destruct nm as [n|]; subst NM.
    - rewrite decode16_encode by lia. cbn [bind andb]. cbv zeta.
      replace (wrap_i32 (on st + (n - on st))) with n by (rewrite wrap_i32_id; lia).
      rewrite (wrap_i32_id nl), (wrap_i32_id (0 + nl)) by lia.
      replace ((n <? 0) || (0 + nl <=? n)) with false by lia. cbv iota.
      replace (len P4 + len (encodeVLQ (n - on st))) with (len (P4 ++ encodeVLQ (n - on st))) by (rewrite len_app; reflexivity).
      apply Htail. rewrite R4, <- app_assoc. reflexivity.
    - cbn [app] in *. rewrite app_nil_r.
      assert (Hstop : DecodeVLQUTF16 (C ++ R) = Ok (0, 0, false)).
      { destruct HT as [->|[-> [->|[t ->]]]]; cbn [app]; [apply decode16_stop; left; reflexivity|reflexivity|apply decode16_stop; right; reflexivity]. }
      rewrite Hstop. cbn [bind andb]. cbv zeta iota.
      apply Htail. exact R4.
  Qed.
End Step.

Section Step2.
  Variables sl nl : Z.
  Variable raw : list Z.

  Lemma step_nl f st pre rest acc ns :
    - 2 ^ 30 < gl st < 2 ^ 30 -> raw = pre ++ 59 :: rest ->
    mloop_ns raw 0 0 0 0 sl nl (S f) st (len pre) acc ns =
    mloop_ns raw 0 0 0 0 sl nl f (mkM (gl st + 1) 0 (si st) (ol st) (oc st) (on st)) (len (pre ++ [59])) acc ns.
  Proof.
    intros Hg HR. rewrite mloop_ns_S.
    rewrite (lt_at' _ _ _ _ HR). cbn [negb]. rewrite (idx_at' _ _ _ _ HR). cbn [bind Z.eqb Pos.eqb].
    rewrite wrap_i32_id by lia. rewrite len_app. reflexivity.
  Qed.

  Lemma step_null f st pre gcn C R acc ns :
    in30 (gc st) -> in30 gcn -> tail_ok16 C R ->
    raw = pre ++ encodeVLQ (gcn - gc st) ++ C ++ R ->
    mloop_ns raw 0 0 0 0 sl nl (S (S f)) st (len pre) acc ns =
    mloop_ns raw 0 0 0 0 sl nl (S f) (mkM (gl st) gcn (si st) (ol st) (oc st) (on st))
             (len (pre ++ encodeVLQ (gcn - gc st) ++ C)) acc (ns || (gcn - gc st <? 0)).
  Proof.
    unfold in30. intros G1 N1 HT HR.
    set (E1 := encodeVLQ (gcn - gc st)) in *.
    rewrite mloop_ns_S.
    destruct (enc_cons (gcn - gc st)) as (c1 & t1 & Ec1 & Hc1 & Hc1').
    assert (R0 : raw = pre ++ c1 :: (t1 ++ C ++ R)) by (rewrite HR; fold E1 in Ec1; rewrite Ec1; reflexivity).
    rewrite (lt_at' _ _ _ _ R0). cbn [negb]. rewrite (idx_at' _ _ _ _ R0). cbn [bind].
    replace (c1 =? 59) with false by lia.
    rewrite (from_at' raw pre _ HR). cbn [bind].
    unfold E1 at 1. rewrite decode16_encode by lia. cbn [bind negb]. cbv zeta.
    replace (wrap_i32 (gc st + (gcn - gc st))) with gcn by (rewrite wrap_i32_id; lia).
    replace (((gl st =? 0) && (gcn <? 0)) || (gcn <? 0)) with false by lia.
    fold E1.
    replace (len pre + len E1) with (len (pre ++ E1)) by (rewrite len_app; reflexivity).
    assert (R1 : raw = (pre ++ E1) ++ C ++ R) by (rewrite HR, <- !app_assoc; reflexivity).
    rewrite app_assoc.
    destruct HT as [->|[-> [->|[t ->]]]].
    - rewrite (eq_at' _ _ _ _ R1), (idx_at' _ _ _ _ R1). cbn [bind Z.eqb Pos.eqb].
      rewrite (len_app (pre ++ E1)). reflexivity.
    - cbn [app] in R1. rewrite app_nil_r in R1. rewrite app_nil_r.
      replace (len (pre ++ E1) =? len raw) with true by (rewrite <- R1; lia).
      rewrite mloop_ns_S. replace (len (pre ++ E1) <? len raw) with false by (rewrite <- R1; lia). reflexivity.
    - cbn [app] in R1. rewrite (eq_at' _ _ _ _ R1), (idx_at' _ _ _ _ R1). cbn [bind Z.eqb Pos.eqb].
      rewrite app_nil_r. reflexivity.
  Qed.
End Step2.

(* ---------------- the whole string ---------------- *)

(* the mappings the parser keeps: those with an original position *)
Fixpoint pmaps (ops : list op) (line : Z) : list Vlq16.mapping :=
  match ops with
  | [] => []
  | ONewline :: r => pmaps r (line + 1)
  | OMap gc si ol oc nm :: r => (line, gc, si, ol, oc, match nm with Some n => n | None => -1 end) :: pmaps r line
  | ONull _ :: r => pmaps r line
  end.

(* needSort: some generated column goes backwards within a line *)
Fixpoint negd (ops : list op) (c : Z) : bool :=
  match ops with
  | [] => false
  | ONewline :: r => negd r 0
  | OMap gc _ _ _ _ :: r => (gc - c <? 0) || negd r gc
  | ONull gc :: r => (gc - c <? 0) || negd r gc
  end.

(* every value of the events fits the parser's int32 arithmetic and indexes inside sources / names *)
Fixpoint ops_in30 (sl nl : Z) (ops : list op) : Prop :=
  match ops with
  | [] => True
  | ONewline :: r => ops_in30 sl nl r
  | OMap gc si ol oc nm :: r =>
    in30 gc /\ 0 <= si < sl /\ in30 ol /\ in30 oc /\
    match nm with Some n => 0 <= n < nl | None => True end /\ ops_in30 sl nl r
  | ONull gc :: r => in30 gc /\ ops_in30 sl nl r
  end.

Fixpoint nlines16 (ops : list op) : Z :=
  match ops with [] => 0 | ONewline :: r => 1 + nlines16 r | _ :: r => nlines16 r end.

Lemma nlines16_nonneg ops : 0 <= nlines16 ops.
Proof. induction ops as [|[| |] r IH]; cbn [nlines16]; lia. Qed.

Definition st_of (p : state) : mstate := mkM (gline p) (gcol p) (sidx p) (oline p) (ocol p) (oname p).

Definition p_in30 (p : state) : Prop :=
  in30 (gcol p) /\ in30 (sidx p) /\ in30 (oline p) /\ in30 (ocol p) /\ in30 (oname p).

Lemma mloop_emit sl nl raw : in30 sl -> in30 nl ->
  forall ops F pre p acc ns,
  raw = pre ++ ebytes ops 0 p -> ops_in30 sl nl ops -> p_in30 p ->
  - 2 ^ 30 < gline p -> gline p + nlines16 ops < 2 ^ 30 ->
  (length ops < F)%nat ->
  exists st', mloop_ns raw 0 0 0 0 sl nl F (st_of p) (len pre) acc ns =
              Ok (NDone st' (rev (pmaps ops (gline p)) ++ acc) (ns || negd ops (gcol p))).
Proof.
  intros Hsl Hnl. induction ops as [|o ops IH]; intros F pre p acc ns HR Hin Hp Hg1 Hg2 HF.
  - destruct F as [|f]; [cbn in HF; lia|]. cbn [ebytes pmaps rev app negb negd] in *.
    rewrite ebytes_nil, app_nil_r in HR. rewrite mloop_ns_S.
    replace (len pre <? len raw) with false by (rewrite HR; lia). cbn [negb].
    rewrite orb_false_r. eexists. reflexivity.
  - destruct F as [|[|f]]; [cbn in HF; lia|cbn in HF; lia|]. cbn [length] in HF.
    destruct Hp as (P1 & P2 & P3 & P4 & P5).
    pose proof (nlines16_nonneg ops) as Hnn.
    destruct o as [|gx sx lx cx nm|gx]; cbn [ops_in30 nlines16 pmaps negd] in *.
    + (* line break *)
      rewrite ebytes_newline0 in HR.
      pose proof (nlines16_nonneg ops).
      rewrite (step_nl sl nl raw (S f) (st_of p) pre (ebytes ops 0 (nl_state p)) acc ns); [|cbn [st_of gl]; lia|exact HR].
      destruct (IH (S f) (pre ++ [59]) (nl_state p) acc ns) as (st' & E); try lia.
      * rewrite HR, <- app_assoc. reflexivity.
      * exact Hin.
      * unfold p_in30, nl_state, in30 in *. cbn. repeat split; try lia.
      * unfold nl_state. cbn [gline]. lia.
      * unfold nl_state. cbn [gline]. lia.
      * exists st'. unfold st_of, nl_state in E. cbn [gline gcol sidx oline ocol oname] in E.
        cbn [st_of gl gc si ol oc on]. rewrite E. reflexivity.
    + (* mapping with an original position *)
      destruct Hin as (I1 & I2 & I3 & I4 & I5 & Hin).
      rewrite (ebytes_map0 gx sx lx cx nm ops 0 p sepb_0) in HR.
      pose proof (tail_ok_ops ops (after p gx sx lx cx nm)) as HT.
      rewrite (step_map sl nl Hsl Hnl raw (S f) (st_of p) pre gx sx lx cx nm (commaof ops)
                        (ebytes ops 0 (after p gx sx lx cx nm)) acc ns); cbn [st_of gl gc si ol oc on]; try assumption; try lia;
        try (rewrite HR; unfold fields; rewrite <- !app_assoc; reflexivity).
      match goal with |- context [mloop_ns raw 0 0 0 0 sl nl (S f) ?ST (len ?PRE) ?ACC ?NS] =>
        destruct (IH (S f) PRE (after p gx sx lx cx nm) ACC NS) as (st' & E) end; try lia.
      * rewrite HR. unfold fields. rewrite <- !app_assoc. reflexivity.
      * exact Hin.
      * unfold p_in30, after, in30 in *. cbn. destruct nm; repeat split; lia.
      * unfold after. cbn [gline]. lia.
      * unfold after. cbn [gline]. lia.
      * exists st'. unfold st_of, after in E. cbn [gline gcol sidx oline ocol oname] in E.
        rewrite E. cbn [rev]. rewrite <- app_assoc. cbn [app]. rewrite orb_assoc. reflexivity.
    + (* mapping without original position *)
      destruct Hin as (I1 & Hin).
      rewrite (ebytes_null0 gx ops 0 p sepb_0) in HR.
      pose proof (tail_ok_ops ops (null_state p gx)) as HT.
      rewrite (step_null sl nl raw f (st_of p) pre gx (commaof ops) (ebytes ops 0 (null_state p gx)) acc ns);
        cbn [st_of gl gc si ol oc on]; try assumption.
      destruct (IH (S f) (pre ++ encodeVLQ (gx - gcol p) ++ commaof ops) (null_state p gx) acc (ns || (gx - gcol p <? 0))) as (st' & E).
      { rewrite HR, <- !app_assoc. reflexivity. }
      { exact Hin. }
      { unfold p_in30, null_state, in30 in *. cbn. repeat split; lia. }
      { unfold null_state. cbn [gline]. lia. }
      { unfold null_state. cbn [gline]. lia. }
      { lia. }
      exists st'. unfold st_of, null_state in E. cbn [gline gcol sidx oline ocol oname] in E.
      rewrite E. rewrite orb_assoc. reflexivity.
Qed.

Lemma ebytes_len_ge : forall ops lb p, (length ops <= length (ebytes ops lb p))%nat.
Proof.
  induction ops as [|[|gc si ol oc nm|gc] r IH]; intros lb p; [cbn; lia| | |].
  - rewrite ebytes_newline. cbn [length]. specialize (IH SEMI (nl_state p)). lia.
  - destruct (ebytes_map_gen gc si ol oc nm r lb p) as (lb' & _ & ->).
    rewrite !app_length. pose proof (encodeVLQ_nonempty (gc - gcol p)).
    destruct (encodeVLQ (gc - gcol p)); [congruence|]. cbn [length].
    specialize (IH lb' (after p gc si ol oc nm)). lia.
  - rewrite ebytes_null, null_seg_eq, !app_length. pose proof (encodeVLQ_nonempty (gc - gcol p)).
    destruct (encodeVLQ (gc - gcol p)); [congruence|]. cbn [length].
    match goal with |- context [ebytes r ?a ?b] => specialize (IH a b) end. lia.
Qed.

Lemma pmaps_sl sl nl : forall ops line, pmaps ops line <> [] -> ops_in30 sl nl ops -> 0 < sl.
Proof.
  induction ops as [|[|gc si ol oc nm|gc] r IH]; intros line Hne Hin; cbn [pmaps ops_in30] in *.
  - congruence.
  - eapply IH; eassumption.
  - lia.
  - destruct Hin as [_ Hin]. eapply IH; eassumption.
Qed.

(* the same list, read off the specification's decoding *)
Definition abs6 (a : abs) : list Vlq16.mapping :=
  match a_src a with
  | Some (s, l, c) => [(a_gline a, a_gcol a, s, l, c, match a_name a with Some n => n | None => -1 end)]
  | None => []
  end.

Lemma pmaps_abs : forall ops line, pmaps ops line = flat_map abs6 (abs_of ops line).
Proof.
  induction ops as [|[|gc si ol oc nm|gc] r IH]; intro line; cbn [pmaps abs_of flat_map]; [reflexivity|apply IH| |].
  - unfold abs6 at 1. cbn [a_src a_gline a_gcol a_name app]. rewrite IH. reflexivity.
  - unfold abs6 at 1. cbn [a_src app]. apply IH.
Qed.

(* ParseSourceMap reads back what the emitter writes *)
Theorem parse_emit_all : forall sl nl ops,
  in30 sl -> in30 nl -> ops_in30 sl nl ops -> nlines16 ops < 2 ^ 30 -> pmaps ops 0 <> [] ->
  spec_decode (emit_bytes ops) = Some (abs_of ops 0) /\
  ParseMappingsOrdered [(0, 0, sl, nl, emit_bytes ops)] =
    Ok (QMap sl nl (let l := flat_map abs6 (abs_of ops 0) in if negd ops 0 then sort_pos l else l) (negd ops 0)).
Proof.
  intros sl nl ops Hsl Hnl Hin Hnl16 Hne. split; [apply mappings_roundtrip_all|].
  rewrite <- pmaps_abs. cbv zeta.
  pose proof (pmaps_sl sl nl ops 0 Hne Hin) as Hslpos.
  assert (Hops : ops <> []) by (intro E; subst ops; apply Hne; reflexivity).
  set (raw := emit_bytes ops).
  assert (Hlen : (length ops <= length raw)%nat) by (subst raw; unfold emit_bytes; apply (ebytes_len_ge ops 0 state0)).
  assert (Hraw0 : (len raw =? 0) = false).
  { unfold len. destruct ops; [congruence|]. cbn [length] in Hlen. lia. }
  unfold ParseMappingsOrdered. cbn [psections_ns].
  rewrite Hraw0. replace (sl =? 0) with false by lia. cbn [orb].
  change (wrap_i32 0) with 0.
  destruct (mloop_emit sl nl raw Hsl Hnl ops (S (length raw)) [] state0 [] false) as (st' & E); try (cbn; lia).
  - reflexivity.
  - exact Hin.
  - unfold p_in30, in30. cbn. lia.
  - change (st_of state0) with (mkM 0 0 0 0 0 0) in E. change (len []) with 0 in E.
    cbn [Z.ltb Z.eqb Z.compare orb andb].
    rewrite E. cbn [bind psections_ns gcol state0 gline orb].
    rewrite app_nil_r, rev_involutive.
    replace (0 + sl =? 0) with false by lia. cbn [orb].
    destruct (rev (pmaps ops 0)) eqn:Er.
    { exfalso. apply Hne. rewrite <- (rev_involutive (pmaps ops 0)), Er. reflexivity. }
    rewrite !Z.add_0_l. reflexivity.
Qed.
