(* C07 model, part 6: the "Write the mappings" loop of
   linker.generateSourceMapForChunk (internal/linker/linker.go) together with
   the sourceIndexToSourcesIndex table built by its first loop (files without
   an input source map: one "sources" entry per distinct source index, in order
   of first appearance; null entries are skipped).
   Executable definitions only. *)
From V Require Import Common.Base C07.Vlq C07.Mappings.

(* one compileResultForSourceMap *)
Record jres := mkJres {
  j_data : bytes;            (* sourceMapChunk.Buffer.Data *)
  j_fno : option Z;          (* sourceMapChunk.Buffer.FirstNameOffset *)
  j_nnames : Z;              (* len(sourceMapChunk.QuotedNames) *)
  j_end : state;             (* sourceMapChunk.EndState *)
  j_fcol : Z;                (* sourceMapChunk.FinalGeneratedColumn *)
  j_ignore : bool;           (* sourceMapChunk.ShouldIgnore *)
  j_off : Z * Z;             (* generatedOffset (Lines, Columns) *)
  j_src : Z;                 (* sourceIndex *)
  j_null : bool              (* isNullEntry *)
}.

Fixpoint tbl_find (k : Z) (tbl : list (Z * Z)) : option Z :=
  match tbl with
  | [] => None
  | (a, b) :: r => if a =? k then Some b else tbl_find k r
  end.

(* first loop: sourceIndexToSourcesIndex (InputSourceMap == nil for every file) *)
Fixpoint assign_sources (rs : list jres) (tbl : list (Z * Z)) (next : Z) : list (Z * Z) :=
  match rs with
  | [] => tbl
  | r :: rest =>
    if j_null r then assign_sources rest tbl next
    else match tbl_find (j_src r) tbl with
         | Some _ => assign_sources rest tbl next
         | None => assign_sources rest (tbl ++ [(j_src r, next)]) (next + 1)
         end
  end.

Record jst := mkJst {
  js_out : bytes;     (* bytes added to the joiner since mappingsStart *)
  js_prev : state;    (* prevEndState *)
  js_pco : Z;         (* prevColumnOffset *)
  js_total : Z        (* totalQuotedNameLen *)
}.

Definition jst0 : jst := mkJst [] state0 0 0.

(* "If this was all one line, include the column offset from the start" *)
Definition join_finish (out : bytes) (pe : state) (pco total : Z) (start : state) : jst :=
  if gline pe =? 0
  then mkJst out (mkState (gline pe) (gcol pe + gcol start) (sidx pe) (oline pe) (ocol pe) (oname pe) (has_name pe))
             (pco + gcol start) total
  else mkJst out pe pco total.

(* one iteration; [jl0] is the joiner's last byte at mappingsStart (a double quote).
   None models the two "Internal error" panics and an index panic inside
   AppendSourceMapChunk. *)
Definition join_one (jl0 : Z) (tbl : list (Z * Z)) (s : jst) (r : jres) : option jst :=
  match (match tbl_find (j_src r) tbl with
         | Some i => Some i
         | None => if j_null r then Some 0 else None
         end) with
  | None => None
  | Some srcs =>
    if j_ignore r then None else
    let off := j_off r in
    let start := mkState (fst off) (snd off + (if fst off =? 0 then js_pco s else 0)) srcs 0 0 (js_total s) false in
    let jl := last (js_out s) jl0 in
    let p := js_prev s in
    if j_null r then
      match AppendSourceMapChunk jl p start (mkChunk [65] (j_fno r)) with
      | None => None
      | Some added =>
        let pe := mkState (gline start) (gcol start) (sidx p) (oline p) (ocol p) (oname p) (has_name p) in
        Some (join_finish (js_out s ++ added) pe (js_pco s) (js_total s) start)
      end
    else
      match AppendSourceMapChunk jl p start (mkChunk (j_data r) (j_fno r)) with
      | None => None
      | Some added =>
        let e := j_end r in
        let pe := mkState (gline e) (gcol e) (sidx e + srcs) (oline e) (ocol e)
                          (match j_fno r with Some _ => oname e + js_total s | None => oname p end)
                          (has_name e) in
        Some (join_finish (js_out s ++ added) pe (j_fcol r) (js_total s + j_nnames r) start)
      end
  end.

Fixpoint join_loop (jl0 : Z) (tbl : list (Z * Z)) (s : jst) (rs : list jres) : option jst :=
  match rs with
  | [] => Some s
  | r :: rest =>
    match join_one jl0 tbl s r with
    | None => None
    | Some s' => join_loop jl0 tbl s' rest
    end
  end.

(* the mappings written by generateSourceMapForChunk for [rs] *)
Definition join_all (rs : list jres) : option bytes :=
  match join_loop QUOTE (assign_sources rs [] 0) jst0 rs with
  | Some s => Some (js_out s)
  | None => None
  end.
